import BqVerif.Proofs.RouteTrace
/-
C09: the PassData bookkeeping of the mapping workflow (layout, routing pass, ApplyPlacement),
un-routing under a relabelling, and the coupling clause carried from the placed subgraph to
the machine graph.
-/
namespace BqVerif.Route
open BqVerif.Circ (Op proj disjointL nodupL)
open BqVerif.Graph

/-! ### layout runs keep `pi` a permutation -/
theorem permN_of_perm {n : Nat} {π π' : List Nat} (h : PermN n π) (hp : π'.Perm π) : PermN n π' :=
  ⟨hp.nodup_iff.2 h.1, hp.length_eq.trans h.2.1, fun x hx => h.2.2 x (hp.mem_iff.1 hx)⟩

theorem lstep_permN {n : Nat} {π π' : List Nat} (h : PermN n π) (m : LMove)
    (hs : lstep π m = some π') : PermN n π' := by
  cases m with
  | swap a b =>
    simp only [lstep] at hs
    have hmem : a ∈ π ∧ b ∈ π := by rw [← applySwap_isSome_iff, hs]; rfl
    rw [applySwap_eq_map h.1 hmem.1 hmem.2] at hs
    rw [← Option.some.inj hs]
    exact h.swap hmem.1 hmem.2
  | perm p =>
    simp only [lstep] at hs
    split at hs
    · rename_i hnd
      obtain ⟨hlt, he⟩ := applyPerm_some hs
      rw [he]
      exact permN_of_perm h (permRes_perm ((nodupL_iff p).1 hnd) hlt)
    · cases hs

theorem lrun_permN {n : Nat} (moves : List LMove) {π π' : List Nat} (h : PermN n π)
    (hr : lrun π moves = some π') : PermN n π' := by
  induction moves generalizing π with
  | nil => simp only [lrun] at hr; rw [← Option.some.inj hr]; exact h
  | cons m ms ih =>
    simp only [lrun] at hr
    cases h1 : lstep π m with
    | none => simp [h1] at hr
    | some π1 =>
      rw [h1] at hr
      exact ih (lstep_permN h m h1) hr

/-- the layout pass replaces the placement by a rearrangement of itself, `placement ∘ pi` -/
theorem layoutPass_spec {n : Nat} {moves : List LMove} {d d' : PD}
    (hlen : d.placement.length = n) (h : layoutPass n moves d = some d') :
    ∃ π, lrun (List.range n) moves = some π ∧ PermN n π ∧
      d' = { d with placement := π.map (piAt d.placement) } ∧
      d'.placement.Perm d.placement ∧ placementOK d = true := by
  unfold layoutPass at h
  split at h
  · cases h
  · rename_i hok
    cases h1 : lrun (List.range n) moves with
    | none => simp [h1] at h
    | some π =>
      simp only [h1] at h
      have hπ := lrun_permN moves (PermN.range n) h1
      cases h2 : applyPerm π d.placement with
      | none => simp [h2] at h
      | some p =>
        simp only [h2] at h
        have hfull := applyPerm_full (perm := π) (π := d.placement) (by rw [hlen]; exact hπ.perm)
        rw [hfull] at h2
        have hp : p = π.map (piAt d.placement) := (Option.some.inj h2).symm
        obtain ⟨hlt, he⟩ := applyPerm_some (hfull)
        refine ⟨π, rfl, hπ, ?_, ?_, by simpa using hok⟩
        · rw [← Option.some.inj h, hp]
        · rw [← Option.some.inj h]
          show p.Perm d.placement
          rw [hp, he]
          exact permRes_perm hπ.1 hlt

/-! ### what the connectivity guard establishes -/
theorem connectivity_spec {d : PD} {sg : G} (hm : d.model.WF) (h : connectivity d = some sg)
    (hc : sg.isFullyConnected = true) :
    d.placement.Nodup ∧ (∀ x ∈ d.placement, x < d.model.n) ∧ ConnectedOn d.model d.placement ∧
    sg.n = d.placement.length ∧ sg.WF ∧
    (∀ i j, i < d.placement.length → j < d.placement.length →
      sg.hasEdge i j = d.model.hasEdge (piAt d.placement i) (piAt d.placement j)) := by
  unfold connectivity at h
  obtain ⟨h1, h2, h3⟩ := subgraph_connected_connectedOn hm h hc
  have hne : d.placement ≠ [] := by
    intro e
    have := (subgraph_default_none_iff d.model hm d.placement).2 (Or.inr e)
    rw [this] at h; cases h
  obtain ⟨h', hs', hn, hwf', hedge⟩ := subgraph_default_spec d.model hm d.placement hne h1 h2
  rw [h] at hs'
  have : sg = h' := Option.some.inj hs'
  subst this
  exact ⟨h1, h2, h3, hn, hwf', hedge⟩

theorem placementOK_spec {d : PD} (hm : d.model.WF) (h : placementOK d = true) :
    d.placement.Nodup ∧ (∀ x ∈ d.placement, x < d.model.n) ∧ ConnectedOn d.model d.placement := by
  unfold placementOK at h
  cases h1 : connectivity d with
  | none => simp [h1] at h
  | some sg =>
    simp only [h1] at h
    obtain ⟨a, b, c, _⟩ := connectivity_spec hm h1 h
    exact ⟨a, b, c⟩

/-! ### un-routing commutes with an injective relabelling -/
theorem idxOf_map_inj {f : Nat → Nat} {n : Nat}
    (hinj : ∀ x y, x < n → y < n → f x = f y → x = y) {π : List Nat} (hπ : ∀ x ∈ π, x < n)
    {q : Nat} (hq : q < n) : (π.map f).idxOf (f q) = π.idxOf q := by
  induction π with
  | nil => simp
  | cons a r ih =>
    have ha : a < n := hπ a (by simp)
    have hr : ∀ x ∈ r, x < n := fun x hx => hπ x (by simp [hx])
    simp only [List.map_cons, List.idxOf_cons]
    by_cases e : a = q
    · subst e; simp
    · have hfa : f a ≠ f q := fun h => e (hinj a q ha hq h)
      have b1 : (f a == f q) = false := by simpa using hfa
      have b2 : (a == q) = false := by simpa using e
      rw [b1, b2, ih hr]

theorem map_swapFn_map {f : Nat → Nat} {n : Nat}
    (hinj : ∀ x y, x < n → y < n → f x = f y → x = y) {π : List Nat} (hπ : ∀ x ∈ π, x < n)
    {a b : Nat} (ha : a < n) (hb : b < n) :
    (π.map f).map (swapFn (f a) (f b)) = (π.map (swapFn a b)).map f := by
  simp only [List.map_map]
  apply List.map_congr_left
  intro x hx
  have hxn := hπ x hx
  simp only [Function.comp, swapFn]
  by_cases e1 : x = a
  · subst e1; simp
  · have n1 : f x ≠ f a := fun h => e1 (hinj x a hxn ha h)
    by_cases e2 : x = b
    · subst e2; simp [e1, n1]
    · have n2 : f x ≠ f b := fun h => e2 (hinj x b hxn hb h)
      simp [e1, e2, n1, n2]

theorem swapFn_lt {n a b x : Nat} (ha : a < n) (hb : b < n) (hx : x < n) : swapFn a b x < n := by
  unfold swapFn; split
  · exact hb
  · split
    · exact ha
    · exact hx

theorem unroute_relabel {f : Nat → Nat} {n : Nat}
    (hinj : ∀ x y, x < n → y < n → f x = f y → x = y) (l : List Em) {π : List Nat}
    (hπ : ∀ x ∈ π, x < n) (hl : ∀ e ∈ l, ∀ x ∈ e.labels, x < n) :
    unroute (π.map f) (l.map (Em.relab f)) = ((unroute π l).1, (unroute π l).2.map f) := by
  induction l generalizing π with
  | nil => simp [unroute]
  | cons e r ih =>
    have hr : ∀ e ∈ r, ∀ x ∈ e.labels, x < n := fun e he => hl e (by simp [he])
    cases e with
    | gate o =>
      have ho : ∀ x ∈ o.loc, x < n := fun x hx => hl (.gate o) (by simp) x (by simpa [Em.labels] using hx)
      simp only [List.map_cons, Em.relab, unroute, ih hπ hr]
      congr 2
      rw [relab_relab]
      exact relab_congr (fun q hq => by simpa using idxOf_map_inj hinj hπ (ho q hq))
    | swap a b =>
      have ha : a < n := hl (.swap a b) (by simp) a (by simp [Em.labels])
      have hb : b < n := hl (.swap a b) (by simp) b (by simp [Em.labels])
      simp only [List.map_cons, Em.relab, unroute]
      rw [map_swapFn_map hinj hπ ha hb]
      exact ih (fun x hx => by
        obtain ⟨y, hy, rfl⟩ := List.mem_map.1 hx
        exact swapFn_lt ha hb (hπ y hy)) hr
    | vswap a b =>
      have ha : a < n := hl (.vswap a b) (by simp) a (by simp [Em.labels])
      have hb : b < n := hl (.vswap a b) (by simp) b (by simp [Em.labels])
      simp only [List.map_cons, Em.relab, unroute]
      rw [map_swapFn_map hinj hπ ha hb]
      exact ih (fun x hx => by
        obtain ⟨y, hy, rfl⟩ := List.mem_map.1 hx
        exact swapFn_lt ha hb (hπ y hy)) hr

/-! ### the coupling clause under the placement -/
theorem _root_.BqVerif.Graph.ReachIn.mem_right {g : G} {S : List Nat} {a b : Nat} (h : ReachIn g S a b) : b ∈ S := by
  induction h with
  | refl ha => exact ha
  | step _ hc _ _ => exact hc

theorem connectedOn_map {sg m : G} {n : Nat} {f : Nat → Nat}
    (hedge : ∀ i j, i < n → j < n → sg.hasEdge i j = m.hasEdge (f i) (f j))
    {S : List Nat} (hS : ∀ x ∈ S, x < n) (hc : ConnectedOn sg S) : ConnectedOn m (S.map f) := by
  have key : ∀ a b, ReachIn sg S a b → ReachIn m (S.map f) (f a) (f b) := by
    intro a b hab
    induction hab with
    | refl ha => exact ReachIn.refl (List.mem_map.2 ⟨_, ha, rfl⟩)
    | step hab hc he ih =>
      rename_i b c
      refine ReachIn.step ih (List.mem_map.2 ⟨_, hc, rfl⟩) ?_
      rw [← hedge b c (hS b hab.mem_right) (hS c hc)]; exact he
  intro a ha b hb
  obtain ⟨a', ha', rfl⟩ := List.mem_map.1 ha
  obtain ⟨b', hb', rfl⟩ := List.mem_map.1 hb
  exact key a' b' (hc a' ha' b' hb')

theorem emOK_relab {free : Nat → Bool} {sg m : G} {n : Nat} {f : Nat → Nat} (hsg : sg.WF)
    (hsn : sg.n = n)
    (hinj : ∀ x y, x < n → y < n → f x = f y → x = y) (hf : ∀ x, x < n → f x < m.n)
    (hedge : ∀ i j, i < n → j < n → sg.hasEdge i j = m.hasEdge (f i) (f j))
    {e : Em} (h : EmOK free sg e) : EmOK free m (e.relab f) := by
  cases e with
  | gate o =>
    simp only [EmOK, Em.relab] at h ⊢
    rcases h with h | h | ⟨h1, h2, h3⟩
    · left; simpa [relab] using h
    · right; left; simpa [relab] using h
    · right; right
      have h2' : ∀ q ∈ o.loc, q < n := fun q hq => hsn ▸ h2 q hq
      refine ⟨?_, ?_, ?_⟩
      · simp only [relab]
        exact nodup_map_of_inj_on (fun x hx y hy => hinj x y (h2' x hx) (h2' y hy)) h1
      · intro q hq
        simp only [relab, List.mem_map] at hq
        obtain ⟨x, hx, rfl⟩ := hq
        exact hf x (h2' x hx)
      · simp only [relab]
        exact connectedOn_map hedge h2' h3
  | swap a b =>
    simp only [EmOK, Em.relab] at h ⊢
    have hl := sg.hasEdge_lt hsg h
    rw [← hedge a b (hsn ▸ hl.2.1) (hsn ▸ hl.2.2)]; exact h
  | vswap a b => trivial

theorem piAt_inj {P : List Nat} (hnd : P.Nodup) {x y : Nat} (hx : x < P.length) (hy : y < P.length)
    (h : piAt P x = piAt P y) : x = y := by
  have h1 := idxOf_piAt hnd hx
  have h2 := idxOf_piAt hnd hy
  rw [h] at h1
  rw [← h1, h2]

/-! ### the routing pass -/
theorem routePass_spec {free : Nat → Bool} {n : Nat} {ops : List Op} {moves : List Move} {d d' : PD}
    {s : St} (hm : d.model.WF) (hw : OpsWF n ops) (hlen : d.placement.length = n)
    (h : routePass free n ops moves d = some (s, d')) :
    ∃ sg, connectivity d = some sg ∧ sg.isFullyConnected = true ∧
      run free sg (init n ops) moves = some s ∧ Inv free sg n ops s ∧ s.rem = [] ∧
      d' = { d with fm := d.fm.map (piAt s.pi) } := by
  unfold routePass at h
  cases h1 : connectivity d with
  | none => simp [h1] at h
  | some sg =>
    simp only [h1] at h
    split at h
    · cases h
    · rename_i hc
      have hc' : sg.isFullyConnected = true := by simpa using hc
      cases h2 : run free sg (init n ops) moves with
      | none => simp [h2] at h
      | some s1 =>
        simp only [h2] at h
        split at h
        · rename_i hfin
          simp only [Bool.and_eq_true, List.isEmpty_iff] at hfin
          obtain ⟨_, _, _, hsn, hsw, _⟩ := connectivity_spec hm h1 hc'
          have hinv := inv_run hsw hw moves (inv_init free sg n ops) h2
          have hpair := Option.some.inj h
          have e1 : s1 = s := congrArg Prod.fst hpair
          have e2 := congrArg Prod.snd hpair
          subst e1
          exact ⟨sg, rfl, hc', h2, hinv, hfin.1, e2.symm⟩
        · cases h

end BqVerif.Route
