/-
Pure lemmas for the pipeline cluster: the submit/collect loop of `compile()` for list inputs and
the three-clause specification of `MachineModel.is_compatible`.
-/
import BqVerif.Model.Pipeline

namespace BqVerif.Pipeline

/-! ### compile() on a list of inputs -/

theorem lookup_cons_self {α : Type} (store : List (Nat × α)) (j : Nat) (t : α) :
    lookup ((j, t) :: store) j = some t := by
  simp [lookup, List.find?]

theorem lookup_cons_ne {α : Type} (store : List (Nat × α)) (i j : Nat) (t : α) (h : i ≠ j) :
    lookup ((i, t) :: store) j = lookup store j := by
  have : (i == j) = false := by simpa using h
  simp [lookup, List.find?, this]

/-- Ids handed out later never shadow an earlier id. -/
theorem lookup_submitAll_old {α : Type} (ts : List α) :
    ∀ (next : Nat) (store : List (Nat × α)) (j : Nat), j < next →
      lookup (submitAll next ts store).2 j = lookup store j := by
  induction ts with
  | nil => intro next store j _; rfl
  | cons t ts ih =>
    intro next store j hj
    simp only [submitAll]
    rw [ih (next + 1) ((next, t) :: store) j (by omega)]
    exact lookup_cons_ne store next j t (by omega)

theorem submitAll_collect {α : Type} (ts : List α) :
    ∀ (next : Nat) (store : List (Nat × α)),
      (submitAll next ts store).1.map (lookup (submitAll next ts store).2) = ts.map some := by
  induction ts with
  | nil => intro next store; rfl
  | cons t ts ih =>
    intro next store
    simp only [submitAll, List.map_cons]
    rw [ih (next + 1) ((next, t) :: store)]
    rw [lookup_submitAll_old ts (next + 1) ((next, t) :: store) next (by omega)]
    rw [lookup_cons_self]

theorem compileList_eq {α β : Type} (run : α → β) (next : Nat) (tasks : List α) :
    compileList run next tasks = tasks.map (fun t => some (run t)) := by
  unfold compileList
  have h := submitAll_collect tasks next []
  have h2 := congrArg (List.map (Option.map run)) h
  simpa [List.map_map, Function.comp_def] using h2

/-! ### list comprehensions that may raise -/

theorem mapOpt_length {α β : Type} (f : α → Option β) :
    ∀ (l : List α) (l' : List β), mapOpt f l = some l' → l'.length = l.length := by
  intro l
  induction l with
  | nil => intro l' h; simp [mapOpt] at h; subst h; rfl
  | cons x xs ih =>
    intro l' h
    simp only [mapOpt] at h
    cases hx : f x with
    | none => simp [hx] at h
    | some y =>
      cases hxs : mapOpt f xs with
      | none => simp [hx, hxs] at h
      | some ys =>
        simp only [hx, hxs, Option.some.injEq] at h
        subst h
        simp [ih ys hxs]

theorem mapOpt_get {α β : Type} (f : α → Option β) :
    ∀ (l : List α) (l' : List β), mapOpt f l = some l' →
      ∀ i : Nat, l'[i]? = (l[i]?).bind f := by
  intro l
  induction l with
  | nil => intro l' h i; simp [mapOpt] at h; subst h; simp
  | cons x xs ih =>
    intro l' h i
    simp only [mapOpt] at h
    cases hx : f x with
    | none => simp [hx] at h
    | some y =>
      cases hxs : mapOpt f xs with
      | none => simp [hx, hxs] at h
      | some ys =>
        simp only [hx, hxs, Option.some.injEq] at h
        subst h
        cases i with
        | zero => simp [hx]
        | succ i => simpa using ih ys hxs i

/-! ### MachineModel.is_compatible -/

/-- The placement can be indexed wherever the code indexes it: at every qudit of a
non-placeholder operation, at every qudit of the circuit, and every entry is a qudit of the
machine. -/
def placementOK (m : MachView) (cv : CircView) (placement : Option (List Nat)) : Bool :=
  let pl := placement.getD (List.range cv.radixes.length)
  (visitedPairs cv).all (fun p => decide (p.1 < pl.length) && decide (p.2 < pl.length))
    && decide (cv.radixes.length ≤ pl.length)
    && pl.all (fun p => decide (p < m.radixes.length))

/-- The three-clause specification, placeholders aside: not wider than the machine; the gate of
every operation that is not a barrier / measurement / reset placeholder is native; every pair of
qudits of every such operation is (through the placement) an edge of the machine, in either
orientation; radixes match. -/
def compatSpec (m : MachView) (cv : CircView) (placement : Option (List Nat)) : Bool :=
  let pl := placement.getD (List.range cv.radixes.length)
  decide (cv.radixes.length ≤ m.radixes.length)
    && cv.ops.all (fun o => o.ph || m.gates.contains o.gate)
    && cv.ops.all (fun o => o.ph ||
        (pairsOf o.loc).all (fun p => coupled m (pl.getD p.1 0, pl.getD p.2 0)))
    && cv.radixes.zipIdx.all (fun x => x.1 == m.radixes.getD (pl.getD x.2 0) 0)

theorem any_not {α : Type} (l : List α) (p : α → Bool) :
    l.any (fun x => !p x) = !l.all p := by
  induction l with
  | nil => rfl
  | cons x xs ih => simp [List.any_cons, List.all_cons, ih, Bool.not_and]

theorem scanPairs_ok (m : MachView) (pl : List Nat) :
    ∀ prs : List (Nat × Nat), (∀ p ∈ prs, p.1 < pl.length ∧ p.2 < pl.length) →
      scanPairs m pl prs
        = some (prs.any (fun p => !coupled m (pl.getD p.1 0, pl.getD p.2 0))) := by
  intro prs
  induction prs with
  | nil => intro _; rfl
  | cons p rest ih =>
    intro h
    obtain ⟨a, b⟩ := p
    have hab := h (a, b) (List.mem_cons_self ..)
    have ha : pl[a]? = some (pl.getD a 0) := by
      rw [List.getD_eq_getElem?_getD, List.getElem?_eq_getElem hab.1]; rfl
    have hb : pl[b]? = some (pl.getD b 0) := by
      rw [List.getD_eq_getElem?_getD, List.getElem?_eq_getElem hab.2]; rfl
    have ih' := ih (fun q hq => h q (List.mem_cons_of_mem _ hq))
    simp only [scanPairs, ha, hb, List.any_cons]
    cases hc : coupled m (pl.getD a 0, pl.getD b 0) <;> simp [ih']

theorem scanRadix_ok (m : MachView) (pl : List Nat)
    (hpl : ∀ p ∈ pl, p < m.radixes.length) :
    ∀ l : List (Nat × Nat), (∀ x ∈ l, x.2 < pl.length) →
      scanRadix m pl l
        = some (l.any (fun x => !(x.1 == m.radixes.getD (pl.getD x.2 0) 0))) := by
  intro l
  induction l with
  | nil => intro _; rfl
  | cons x rest ih =>
    intro h
    obtain ⟨r, i⟩ := x
    have hi : i < pl.length := h (r, i) (List.mem_cons_self ..)
    have h1 : pl[i]? = some (pl.getD i 0) := by
      rw [List.getD_eq_getElem?_getD, List.getElem?_eq_getElem hi]; rfl
    have hp : pl.getD i 0 < m.radixes.length := by
      apply hpl
      rw [List.getD_eq_getElem?_getD, List.getElem?_eq_getElem hi]
      exact List.getElem_mem hi
    have h2 : m.radixes[pl.getD i 0]? = some (m.radixes.getD (pl.getD i 0) 0) := by
      rw [List.getD_eq_getElem?_getD (l := m.radixes), List.getElem?_eq_getElem hp]; rfl
    have ih' := ih (fun q hq => h q (List.mem_cons_of_mem _ hq))
    simp only [scanRadix, h1, h2, List.any_cons]
    cases hc : (r == m.radixes.getD (pl.getD i 0) 0) <;> simp [ih']

theorem visitedPairs_any (cv : CircView) (f : Nat × Nat → Bool) :
    (visitedPairs cv).any f = cv.ops.any (fun o => !o.ph && (pairsOf o.loc).any f) := by
  unfold visitedPairs
  induction cv.ops with
  | nil => rfl
  | cons o os ih =>
    cases hph : o.ph <;> simp [hph, List.flatMap_cons, List.any_append, ih]

theorem zipIdx_snd_lt {α : Type} (l : List α) : ∀ x ∈ l.zipIdx, x.2 < l.length := by
  intro x hx
  obtain ⟨a, i⟩ := x
  have := List.mem_zipIdx' hx
  exact this.1

theorem isCompatible_spec (m : MachView) (cv : CircView) (placement : Option (List Nat))
    (hp : placementOK m cv placement = true) :
    isCompatible m cv placement = some (compatSpec m cv placement) := by
  unfold placementOK at hp
  simp only [Bool.and_eq_true, List.all_eq_true, decide_eq_true_eq] at hp
  obtain ⟨⟨h1, h2⟩, h3⟩ := hp
  have hs := scanPairs_ok m (placement.getD (List.range cv.radixes.length)) (visitedPairs cv) h1
  have hr := scanRadix_ok m (placement.getD (List.range cv.radixes.length)) h3 cv.radixes.zipIdx
    (fun x hx => Nat.lt_of_lt_of_le (zipIdx_snd_lt _ x hx) h2)
  unfold isCompatible compatSpec
  simp only [hs, hr, visitedPairs_any]
  by_cases hw : cv.radixes.length > m.radixes.length
  · have : ¬ cv.radixes.length ≤ m.radixes.length := by omega
    simp [hw, this]
  · have hw' : cv.radixes.length ≤ m.radixes.length := by omega
    simp only [hw, if_false, hw', decide_true, Bool.true_and]
    rw [show (cv.ops.any fun o => !o.ph && !m.gates.contains o.gate)
          = !(cv.ops.all fun o => o.ph || m.gates.contains o.gate) from by
        rw [← any_not]; congr 1; funext o; cases o.ph <;> simp]
    rw [show (cv.ops.any fun o => !o.ph && (pairsOf o.loc).any fun p =>
            !coupled m ((placement.getD (List.range cv.radixes.length)).getD p.1 0,
              (placement.getD (List.range cv.radixes.length)).getD p.2 0))
          = !(cv.ops.all fun o => o.ph || (pairsOf o.loc).all fun p =>
            coupled m ((placement.getD (List.range cv.radixes.length)).getD p.1 0,
              (placement.getD (List.range cv.radixes.length)).getD p.2 0)) from by
        rw [← any_not]; congr 1; funext o; rw [any_not]; cases o.ph <;> simp]
    rw [any_not]
    cases (cv.ops.all fun o => o.ph || m.gates.contains o.gate)
      <;> cases (cv.ops.all fun o => o.ph || (pairsOf o.loc).all fun p =>
            coupled m ((placement.getD (List.range cv.radixes.length)).getD p.1 0,
              (placement.getD (List.range cv.radixes.length)).getD p.2 0))
      <;> cases (cv.radixes.zipIdx.all fun x =>
            x.1 == m.radixes.getD ((placement.getD (List.range cv.radixes.length)).getD x.2 0) 0)
      <;> rfl

/-- `is_compatible` never looks at placeholder operations: deleting them from the circuit changes
neither the verdict nor whether the call raises. -/
theorem isCompatible_strip (m : MachView) (cv : CircView) (placement : Option (List Nat)) :
    isCompatible m cv placement
      = isCompatible m { cv with ops := cv.ops.filter (fun o => !o.ph) } placement := by
  have h1 : ((cv.ops.filter fun o => !o.ph).any fun o => !o.ph && !m.gates.contains o.gate)
      = cv.ops.any fun o => !o.ph && !m.gates.contains o.gate := by
    rw [List.any_filter]; congr 1; funext o; cases o.ph <;> simp
  have h2 : visitedPairs { cv with ops := cv.ops.filter fun o => !o.ph } = visitedPairs cv := by
    simp [visitedPairs, List.filter_filter]
  simp only [isCompatible, h1, h2]

/-- `itertools.combinations(l, 2)` enumerates exactly the pairs of positions `i < j`. -/
theorem pairsOf_all (f : Nat × Nat → Bool) :
    ∀ l : List Nat, (pairsOf l).all f = true ↔ l.Pairwise (fun a b => f (a, b) = true) := by
  intro l
  induction l with
  | nil => simp [pairsOf]
  | cons x xs ih =>
    simp only [pairsOf, List.all_append, Bool.and_eq_true, List.all_map, List.pairwise_cons, ih]
    simp [List.all_eq_true, Function.comp_def]

end BqVerif.Pipeline
