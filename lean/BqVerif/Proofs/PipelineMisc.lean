/-
Pure lemmas for the pipeline cluster: the submit/collect loop of `compile()` for list inputs and
the three-clause specification of `MachineModel.is_compatible`.
-/
import BqVerif.Model.Pipeline

namespace BqVerif.Pipeline

/-! ### compile() on a list of inputs -/

theorem lookup_cons_self {α : Type} (store : List (Nat × α)) (j : Nat) (t : α) :
    lookup ((j, t) :: store) j = some t := by
  simp [lookup, List.find?]

theorem lookup_cons_ne {α : Type} (store : List (Nat × α)) (i j : Nat) (t : α) (h : i ≠ j) :
    lookup ((i, t) :: store) j = lookup store j := by
  have : (i == j) = false := by simpa using h
  simp [lookup, List.find?, this]

/-- Ids handed out later never shadow an earlier id. -/
theorem lookup_submitAll_old {α : Type} (ts : List α) :
    ∀ (next : Nat) (store : List (Nat × α)) (j : Nat), j < next →
      lookup (submitAll next ts store).2 j = lookup store j := by
  induction ts with
  | nil => intro next store j _; rfl
  | cons t ts ih =>
    intro next store j hj
    simp only [submitAll]
    rw [ih (next + 1) ((next, t) :: store) j (by omega)]
    exact lookup_cons_ne store next j t (by omega)

theorem submitAll_collect {α : Type} (ts : List α) :
    ∀ (next : Nat) (store : List (Nat × α)),
      (submitAll next ts store).1.map (lookup (submitAll next ts store).2) = ts.map some := by
  induction ts with
  | nil => intro next store; rfl
  | cons t ts ih =>
    intro next store
    simp only [submitAll, List.map_cons]
    rw [ih (next + 1) ((next, t) :: store)]
    rw [lookup_submitAll_old ts (next + 1) ((next, t) :: store) next (by omega)]
    rw [lookup_cons_self]

theorem compileList_eq {α β : Type} (run : α → β) (next : Nat) (tasks : List α) :
    compileList run next tasks = tasks.map (fun t => some (run t)) := by
  unfold compileList
  have h := submitAll_collect tasks next []
  have h2 := congrArg (List.map (Option.map run)) h
  simpa [List.map_map, Function.comp_def] using h2

/-! ### list comprehensions that may raise -/

theorem mapOpt_length {α β : Type} (f : α → Option β) :
    ∀ (l : List α) (l' : List β), mapOpt f l = some l' → l'.length = l.length := by
  intro l
  induction l with
  | nil => intro l' h; simp [mapOpt] at h; subst h; rfl
  | cons x xs ih =>
    intro l' h
    simp only [mapOpt] at h
    cases hx : f x with
    | none => simp [hx] at h
    | some y =>
      cases hxs : mapOpt f xs with
      | none => simp [hx, hxs] at h
      | some ys =>
        simp only [hx, hxs, Option.some.injEq] at h
        subst h
        simp [ih ys hxs]

theorem mapOpt_get {α β : Type} (f : α → Option β) :
    ∀ (l : List α) (l' : List β), mapOpt f l = some l' →
      ∀ i : Nat, l'[i]? = (l[i]?).bind f := by
  intro l
  induction l with
  | nil => intro l' h i; simp [mapOpt] at h; subst h; simp
  | cons x xs ih =>
    intro l' h i
    simp only [mapOpt] at h
    cases hx : f x with
    | none => simp [hx] at h
    | some y =>
      cases hxs : mapOpt f xs with
      | none => simp [hx, hxs] at h
      | some ys =>
        simp only [hx, hxs, Option.some.injEq] at h
        subst h
        cases i with
        | zero => simp [hx]
        | succ i => simpa using ih ys hxs i

/-! ### MachineModel.is_compatible -/

/-- The placement can be indexed wherever the code indexes it. -/
def placementOK (m : MachView) (cv : CircView) (placement : Option (List Nat)) : Bool :=
  let pl := placement.getD (List.range cv.radixes.length)
  !(cv.edges.any (fun e => decide (pl.length ≤ e.1) || decide (pl.length ≤ e.2))
    || decide (pl.length < cv.radixes.length)
    || pl.any (fun p => decide (m.radixes.length ≤ p)))

/-- The specification: not wider than the machine; every gate native; every coupled pair of the
circuit is (through the placement) an edge of the machine, in either orientation; radixes match. -/
def compatSpec (m : MachView) (cv : CircView) (placement : Option (List Nat)) : Bool :=
  let pl := placement.getD (List.range cv.radixes.length)
  decide (cv.radixes.length ≤ m.radixes.length)
    && cv.gates.all (fun g => m.gates.contains g)
    && cv.edges.all (fun e => coupled m (pl.getD e.1 0, pl.getD e.2 0))
    && (List.range cv.radixes.length).all
        (fun i => cv.radixes.getD i 0 == m.radixes.getD (pl.getD i 0) 0)

theorem any_not {α : Type} (l : List α) (p : α → Bool) :
    l.any (fun x => !p x) = !l.all p := by
  induction l with
  | nil => rfl
  | cons x xs ih => simp [List.any_cons, List.all_cons, ih, Bool.not_and]

theorem compat_core (A B G C D : Bool) (hG : G = false) :
    (if A = true then some false else if B = true then some false else if G = true then none
      else if C = true then some false else if D = true then some false else some true)
      = some (!A && !B && !C && !D) := by
  cases A <;> cases B <;> cases C <;> cases D <;> simp [hG]

theorem isCompatible_spec (m : MachView) (cv : CircView) (placement : Option (List Nat))
    (hp : placementOK m cv placement = true) :
    isCompatible m cv placement = some (compatSpec m cv placement) := by
  unfold isCompatible compatSpec
  unfold placementOK at hp
  simp only [] at hp ⊢
  rw [compat_core _ _ _ _ _ (by simpa using hp)]
  rw [any_not, any_not, any_not]
  congr 1
  have : decide (cv.radixes.length > m.radixes.length)
      = !decide (cv.radixes.length ≤ m.radixes.length) := by
    by_cases h : cv.radixes.length ≤ m.radixes.length
    · have : ¬ cv.radixes.length > m.radixes.length := by omega
      simp [h, this]
    · have : cv.radixes.length > m.radixes.length := by omega
      simp [h, this]
  rw [this]
  simp only [Bool.not_not]

end BqVerif.Pipeline
