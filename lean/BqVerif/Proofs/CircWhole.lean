import BqVerif.Proofs.CircRel
import BqVerif.Proofs.CircTimeline
import Mathlib.Algebra.Group.Basic
import Mathlib.Algebra.BigOperators.Group.List.Basic
/-! Whole-circuit transformations: `compress` keeps every timeline (hence the unitary);
`get_inverse` composed with the original is the identity. -/
namespace BqVerif.Circ

theorem fold_appendCore_timeline (l : List Op) (acc : Circ) (q : Nat) :
    (l.foldl (fun acc o => (acc.appendCore o).1) acc).timeline q = acc.timeline q ++ proj q l := by
  induction l generalizing acc with
  | nil => simp [proj]
  | cons a t ih =>
    simp only [List.foldl_cons]
    rw [ih, appendCore_timeline]
    by_cases h : a.on q = true
    · simp [proj, List.filter_cons, h]
    · simp [proj, List.filter_cons, h]

theorem fold_appendCore_inv (l : List Op) (acc : Circ) (hacc : acc.Inv)
    (hl : ∀ o ∈ l, o.WF acc.numQudits acc.radixes) :
    (l.foldl (fun acc o => (acc.appendCore o).1) acc).Inv := by
  induction l generalizing acc with
  | nil => simpa using hacc
  | cons a t ih =>
    simp only [List.foldl_cons]
    apply ih
    · exact appendCore_inv acc a hacc (hl a (by simp))
    · intro o ho
      have := hl o (by simp [ho])
      simpa [Circ.numQudits, appendCore_radixes] using this

/-- **compress**: every timeline is unchanged -/
theorem compress_timeline (c : Circ) (hinv : c.Inv) (q : Nat) :
    c.compress.timeline q = c.timeline q := by
  unfold Circ.compress
  rw [fold_appendCore_timeline]
  simp only [Circ.timeline, Circ.ops, List.flatten_nil, proj, List.filter_nil, List.nil_append]
  exact proj_iter c hinv q

variable {M : Type} [Monoid M]

theorem compress_same_unitary (sem : Op → M)
    (hcomm : ∀ a b, Indep a b → sem a * sem b = sem b * sem a) (c : Circ) (hinv : c.Inv) :
    den sem c.compress.iter = den sem c.iter := by
  have hinv' := compress_inv c hinv
  have l1 := inv_iter_locs c hinv
  have l2 := inv_iter_locs c.compress hinv'
  unfold den
  apply trace_equiv sem hcomm _ _ l2.1 l1.1
  intro q
  rw [proj_iter _ hinv', compress_timeline c hinv, ← proj_iter c hinv]

/-- reversing the reverse iteration gives a linearisation with the grid's timelines -/
theorem iterRev_reverse (c : Circ) :
    c.iterRev.reverse = c.cycles.flatMap (sortBy Op.maxQ) := by
  unfold Circ.iterRev
  induction c.cycles with
  | nil => simp
  | cons a t ih =>
    simp only [List.reverse_cons, List.flatMap_append, List.flatMap_cons, List.flatMap_nil,
      List.append_nil, List.reverse_append, List.reverse_reverse]
    rw [ih]

theorem proj_iterRev_reverse (c : Circ) (hinv : c.Inv) (q : Nat) :
    proj q c.iterRev.reverse = c.timeline q := by
  rw [iterRev_reverse]
  unfold Circ.timeline Circ.ops
  have h2 := hinv.2.1
  revert h2
  induction c.cycles with
  | nil => intro _; simp [proj]
  | cons a t ih =>
    intro h2
    simp only [List.flatMap_cons, List.flatten_cons]
    have e1 : ∀ (x y : List Op), proj q (x ++ y) = proj q x ++ proj q y := by
      intro x y; simp [proj]
    rw [e1, e1, proj_sortBy _ a q (h2 a (by simp)), ih (fun cy hcy => h2 cy (by simp [hcy]))]

end BqVerif.Circ

namespace BqVerif.Circ
variable {G : Type} [Group G]

theorem prod_map_inv_reverse (sem : Op → G) (l : List Op) :
    ((l.map (fun o => (sem o)⁻¹)).prod) = ((l.reverse.map sem).prod)⁻¹ := by
  induction l with
  | nil => simp
  | cons a t ih =>
    simp only [List.map_cons, List.prod_cons, List.reverse_cons, List.map_append, List.prod_append,
      List.map_nil, List.prod_nil, mul_one, mul_inv_rev]
    rw [ih]

/-- **inverse**: for a gate-level inverse `inv` that keeps location and radixes and whose
denotation is the group inverse, the original circuit followed by `get_inverse()` denotes 1. -/
theorem inverse_composes_to_one (sem : Op → G)
    (hcomm : ∀ a b, Indep a b → sem a * sem b = sem b * sem a)
    (inv : Op → Op) (hloc : ∀ o, (inv o).loc = o.loc) (hrad : ∀ o, (inv o).rad = o.rad)
    (hsem : ∀ o, sem (inv o) = (sem o)⁻¹) (c : Circ) (hinv : c.Inv) :
    den sem c.iter * den sem (c.inverse inv).iter = 1 := by
  -- the inverse circuit is well-formed
  have hl : ∀ o ∈ c.iterRev.map inv, o.WF c.numQudits c.radixes := by
    intro o ho
    rw [List.mem_map] at ho
    obtain ⟨x, hx, rfl⟩ := ho
    rw [mem_iterRev] at hx
    simp only [Circ.ops, List.mem_flatten] at hx
    obtain ⟨cy, hcy, hx⟩ := hx
    have := hinv.2.2 cy hcy x hx
    unfold Op.WF at this ⊢
    rw [hloc, hrad]; exact this
  have hinvI : (c.inverse inv).Inv := by
    unfold Circ.inverse
    have := fold_appendCore_inv (c.iterRev.map inv) ⟨c.radixes, []⟩
      ⟨by simp, by simp, by simp⟩ (by simpa [Circ.numQudits] using hl)
    rw [List.foldl_map] at this
    exact this
  -- its timelines are those of the mapped reverse iteration
  have htl : ∀ q, proj q (c.inverse inv).iter = proj q (c.iterRev.map inv) := by
    intro q
    rw [proj_iter _ hinvI]
    unfold Circ.inverse
    have := fold_appendCore_timeline (c.iterRev.map inv) ⟨c.radixes, []⟩ q
    rw [List.foldl_map] at this
    rw [this]
    simp [Circ.timeline, Circ.ops, proj]
  have lI := inv_iter_locs _ hinvI
  have hne : ∀ o ∈ c.iterRev.map inv, o.loc ≠ [] := fun o ho => (hl o ho).1
  have e1 : den sem (c.inverse inv).iter = den sem (c.iterRev.map inv) :=
    trace_equiv sem hcomm _ _ lI.1 hne htl
  have e2 : den sem (c.iterRev.map inv) = (den sem c.iterRev.reverse)⁻¹ := by
    unfold den
    rw [List.map_map]
    have : (sem ∘ inv) = fun o => (sem o)⁻¹ := by funext o; exact hsem o
    rw [this, prod_map_inv_reverse]
  have l1 := inv_iter_locs c hinv
  have hne' : ∀ o ∈ c.iterRev.reverse, o.loc ≠ [] := by
    intro o ho
    rw [List.mem_reverse, mem_iterRev, ← mem_iter] at ho
    exact l1.1 o ho
  have e3 : den sem c.iterRev.reverse = den sem c.iter := by
    apply trace_equiv sem hcomm _ _ hne' l1.1
    intro q
    rw [proj_iterRev_reverse c hinv, proj_iter c hinv]
  rw [e1, e2, e3, mul_inv_cancel]

end BqVerif.Circ
