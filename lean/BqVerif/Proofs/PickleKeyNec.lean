import BqVerif.Proofs.PickleKey
/-!
C16 (strengthening round): necessity for the WHOLE round trip.
`rebuild` is sound: whatever circuit it returns, its cycles are the payload's groups with every
marshalled operation turned into an operation by `mkOp` (in order).  Hence, if the keyed payload
of a circuit without idle cycles rebuilds to `canon c`, every operation came back as itself
through the table, and `keyInj_of_roundtrip` applies.
-/
namespace BqVerif.Circ

variable {K : Type} [DecidableEq K]

/-- two lists related element by element (core Lean has no `Forall₂`) -/
inductive All2 {α β : Type} (R : α → β → Prop) : List α → List β → Prop
  | nil : All2 R [] []
  | cons {a : α} {b : β} {l : List α} {l' : List β} : R a b → All2 R l l' → All2 R (a :: l) (b :: l')

theorem appendAtCycle_sound (rad : List Nat) (cs : List Cycle) (pre : Cycle) (o : Op) (c1 : Circ)
    (h : Circ.appendAtCycle ⟨rad, cs ++ [pre]⟩ cs.length o = .ok c1) :
    c1 = ⟨rad, cs ++ [pre ++ [o]]⟩ := by
  unfold Circ.appendAtCycle at h
  split at h
  · cases h
  · split at h
    · cases h
    · split at h
      · cases h
      · cases h
        simp [modify_length_append]

theorem appendGroup_sound (tbl : List GateId) (rad : List Nat) (cs : List Cycle) :
    ∀ (ms : List MOp) (pre : Cycle) (c' : Circ),
      Circ.appendGroup tbl cs.length ⟨rad, cs ++ [pre]⟩ ms = .ok c' →
      ∃ ops, c' = ⟨rad, cs ++ [pre ++ ops]⟩ ∧
        All2 (fun m o => mkOp tbl m = .ok o) ms ops := by
  intro ms
  induction ms with
  | nil =>
    intro pre c' h
    simp only [Circ.appendGroup] at h
    cases h
    exact ⟨[], by simp, All2.nil⟩
  | cons m ms ih =>
    intro pre c' h
    simp only [Circ.appendGroup] at h
    cases hm : mkOp tbl m with
    | error e => rw [hm] at h; cases h
    | ok o =>
      rw [hm] at h
      simp only at h
      cases ha : Circ.appendAtCycle ⟨rad, cs ++ [pre]⟩ cs.length o with
      | error e => rw [ha] at h; cases h
      | ok c1 =>
        rw [ha] at h
        simp only at h
        have := appendAtCycle_sound rad cs pre o c1 ha
        subst this
        obtain ⟨ops, h1, h2⟩ := ih (pre ++ [o]) c' h
        exact ⟨o :: ops, by simpa using h1, All2.cons hm h2⟩

theorem rebuildCycles_sound (tbl : List GateId) (rad : List Nat) :
    ∀ (gs : List (List MOp)) (cs : List Cycle) (c' : Circ),
      Circ.rebuildCycles tbl ⟨rad, cs⟩ cs.length gs = .ok c' →
      ∃ gs', c' = ⟨rad, cs ++ gs'⟩ ∧
        All2 (fun g ops => All2 (fun m o => mkOp tbl m = .ok o) g ops) gs gs' := by
  intro gs
  induction gs with
  | nil =>
    intro cs c' h
    simp only [Circ.rebuildCycles] at h
    cases h
    exact ⟨[], by simp, All2.nil⟩
  | cons g gs ih =>
    intro cs c' h
    simp only [Circ.rebuildCycles] at h
    cases hg : Circ.appendGroup tbl cs.length ⟨rad, cs ++ [[]]⟩ g with
    | error e => rw [hg] at h; cases h
    | ok c1 =>
      rw [hg] at h
      simp only at h
      obtain ⟨ops, h1, h2⟩ := appendGroup_sound tbl rad cs g [] c1 hg
      subst h1
      have hlen : (cs ++ [[] ++ ops]).length = cs.length + 1 := by simp
      rw [← hlen] at h
      obtain ⟨gs', h3, h4⟩ := ih (cs ++ [[] ++ ops]) c' h
      exact ⟨ops :: gs', by simpa using h3, All2.cons h2 h4⟩

/-- soundness of `rebuild_circuit`: the returned circuit's cycles are the payload's groups, every
marshalled operation rebuilt by `Operation(gate_table[i], location, params)` -/
theorem rebuild_sound (p : Pickled) (c' : Circ) (h : p.rebuild = .ok c') :
    All2 (fun g ops => All2 (fun m o => mkOp p.gates m = .ok o) g ops)
      p.cycles c'.cycles := by
  unfold Pickled.rebuild at h
  simp only at h
  repeat' split at h
  all_goals try (cases h)
  all_goals
    (obtain ⟨gs', h1, h2⟩ := rebuildCycles_sound p.gates _ p.cycles [] c' h
     subst h1
     simpa using h2)

theorem forall₂_map_left {α β γ : Type} (R : β → γ → Prop) (f : α → β) :
    ∀ (l : List α) (l' : List γ), All2 R (l.map f) l' → All2 (fun a c => R (f a) c) l l' := by
  intro l
  induction l with
  | nil => intro l' h; cases l' with
    | nil => exact All2.nil
    | cons _ _ => cases h
  | cons a t ih =>
    intro l' h
    cases l' with
    | nil => cases h
    | cons b t' =>
      simp only [List.map_cons] at h
      cases h with
      | cons h1 h2 => exact All2.cons h1 (ih t' h2)

theorem forall₂_diag {α : Type} (R : α → α → Prop) :
    ∀ (l : List α), All2 R l l → ∀ x ∈ l, R x x := by
  intro l
  induction l with
  | nil => intro _ x hx; cases hx
  | cons a t ih =>
    intro h x hx
    cases h with
    | cons h1 h2 =>
      rcases List.mem_cons.1 hx with rfl | hx
      · exact h1
      · exact ih h2 x hx

/-- **necessity for the whole round trip**: for a circuit without idle cycles, if the payload
built through the dictionary rebuilds to the circuit (in canonical form), the key separates the
circuit's gates. -/
theorem keyInj_of_rebuild (c : Circ) (hne : ∀ cy ∈ c.cycles, cy ≠ []) (key : GateId → K)
    (h : (c.reduceKey key c.iterCyc).rebuild = .ok c.canon) : c.KeyInj key := by
  have hs := rebuild_sound _ _ h
  have hgr : (c.reduceKey key c.iterCyc).cycles =
      (c.cycles.map (sortBy Op.head)).map
        (List.map (marshalKey key (keyTable key c.gates))) := by
    unfold Circ.reduceKey
    simp only
    rw [iterCyc_blocks, blocksFrom_map]
    apply groupRuns_blocks
    intro b hb
    obtain ⟨b0, hb0, rfl⟩ := List.mem_map.1 hb
    obtain ⟨cy, hcy, rfl⟩ := List.mem_map.1 hb0
    have := sortBy_ne_nil Op.head cy (hne cy hcy)
    simpa using this
  rw [hgr] at hs
  have hg : (c.reduceKey key c.iterCyc).gates = keyTable key c.gates := rfl
  rw [hg] at hs
  simp only [Circ.canon] at hs
  have hs' := forall₂_map_left _ _ _ _ hs
  apply keyInj_of_roundtrip c key (keyTable key c.gates)
  intro o ho
  obtain ⟨cy, hcy, hocy⟩ := List.mem_flatten.1 ho
  have hcy' : sortBy Op.head cy ∈ c.cycles.map (sortBy Op.head) := List.mem_map.2 ⟨cy, hcy, rfl⟩
  have h1 := forall₂_diag _ _ hs' _ hcy'
  have h2 := forall₂_map_left _ _ _ _ h1
  exact forall₂_diag _ _ h2 o ((sortBy_perm _ _).mem_iff.2 hocy)

end BqVerif.Circ
