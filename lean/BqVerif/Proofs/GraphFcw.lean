import BqVerif.Model.GraphExt
import BqVerif.Proofs.GraphConn
/-!
`CouplingGraph.is_fully_connected_without` (graph.py 649-668): the frontier BFS of the model
(`fcwLoop` / `G.isFullyConnectedWithout`) decides connectivity of the graph with the vertex `q`
deleted (for `2 ≤ n`, `q < n`), and the fuel `g.n + 2` is enough (any fuel `≥ g.n + 1` gives the
same answer).

Brute force (scratch, `#eval`): on all 2 + 8 + 64 + 1024 graphs with 2, 3, 4, 5 vertices and every
`q < n` the model agrees with a naive closure-based connectivity test of `V ∖ {q}`; no defect of the
Python code was found on the domain `2 ≤ n`, `q < n`.  Outside of it see the remarks at the end.
-/
namespace BqVerif.Graph

/-- reachability avoiding the vertex q (all vertices on the walk, including the end points,
are ≠ q) -/
inductive ReachAvoid (g : G) (q : Nat) : Nat → Nat → Prop
  | refl {a : Nat} : a ≠ q → ReachAvoid g q a a
  | step {a b c : Nat} : ReachAvoid g q a b → c ≠ q → g.hasEdge b c = true → ReachAvoid g q a c

namespace ReachAvoid
variable {g : G} {q a b c : Nat}

theorem right_ne (h : ReachAvoid g q a b) : b ≠ q := by
  cases h with
  | refl h => exact h
  | step _ h _ => exact h

theorem left_ne (h : ReachAvoid g q a b) : a ≠ q := by
  induction h with
  | refl h => exact h
  | step _ _ _ ih => exact ih

theorem trans (h1 : ReachAvoid g q a b) (h2 : ReachAvoid g q b c) : ReachAvoid g q a c := by
  induction h2 with
  | refl _ => exact h1
  | step _ hc he ih => exact ReachAvoid.step ih hc he

theorem single (ha : a ≠ q) (hb : b ≠ q) (he : g.hasEdge a b = true) : ReachAvoid g q a b :=
  ReachAvoid.step (ReachAvoid.refl ha) hb he

theorem symm (h : ReachAvoid g q a b) : ReachAvoid g q b a := by
  induction h with
  | refl h => exact ReachAvoid.refl h
  | step hab hc he ih =>
    exact (single hc hab.right_ne (by rw [G.hasEdge_comm]; exact he)).trans ih

/-- a walk avoiding `q` is a walk -/
theorem reach (h : ReachAvoid g q a b) : Reach g a b := by
  induction h with
  | refl _ => exact Reach.refl _
  | step _ _ he ih => exact Reach.step ih he

theorem lt (hwf : g.WF) (h : ReachAvoid g q a b) (ha : a < g.n) : b < g.n :=
  h.reach.lt hwf ha

end ReachAvoid

/-! ### pigeonhole for duplicate-free lists of naturals below `n` avoiding `q` -/

theorem nodup_avoid_length_le {n q : Nat} {l : List Nat} (hq : q < n) (hnd : l.Nodup)
    (hlt : ∀ x ∈ l, x < n ∧ x ≠ q) : l.length ≤ n - 1 := by
  have hnd' : (q :: l).Nodup := by
    rw [List.nodup_cons]
    exact ⟨fun hm => (hlt q hm).2 rfl, hnd⟩
  have hlt' : ∀ x ∈ q :: l, x < n := by
    intro x hx
    rw [List.mem_cons] at hx
    rcases hx with hx | hx
    · omega
    · exact (hlt x hx).1
  have := nodup_lt_length_le hnd' hlt'
  simp only [List.length_cons] at this
  omega

theorem nodup_avoid_full {n q : Nat} {l : List Nat} (hq : q < n) (hnd : l.Nodup)
    (hlt : ∀ x ∈ l, x < n ∧ x ≠ q) (hlen : l.length = n - 1) :
    ∀ v, v < n → v ≠ q → v ∈ l := by
  have hnd' : (q :: l).Nodup := by
    rw [List.nodup_cons]
    exact ⟨fun hm => (hlt q hm).2 rfl, hnd⟩
  have hlt' : ∀ x ∈ q :: l, x < n := by
    intro x hx
    rw [List.mem_cons] at hx
    rcases hx with hx | hx
    · omega
    · exact (hlt x hx).1
  intro v hv hvq
  have := nodup_lt_full hnd' hlt' (by simp only [List.length_cons]; omega) v hv
  rw [List.mem_cons] at this
  rcases this with h | h
  · exact absurd h hvq
  · exact h

theorem nodup_avoid_missing {n q : Nat} {l : List Nat} (hlen : l.length < n - 1) :
    ∃ v, v < n ∧ v ≠ q ∧ v ∉ l := by
  obtain ⟨v, hv, hvl⟩ := nodup_lt_missing (n := n) (l := q :: l)
    (by simp only [List.length_cons]; omega)
  rw [List.mem_cons] at hvl
  exact ⟨v, hv, fun h => hvl (Or.inl h), fun h => hvl (Or.inr h)⟩

/-! ### one BFS step -/

/-- the set `expanded_qudits` of one round -/
def fcwExpand (g : G) (q : Nat) (frontier : List Nat) : List Nat :=
  ((frontier.filter (· != q)).flatMap (fun v => (g.adj v).filter (· != q))).eraseDups

theorem mem_fcwExpand (g : G) (q : Nat) (frontier : List Nat) (u : Nat) :
    u ∈ fcwExpand g q frontier ↔ u ≠ q ∧ ∃ v ∈ frontier, v ≠ q ∧ u ∈ g.adj v := by
  simp only [fcwExpand, List.mem_eraseDups, List.mem_flatMap, List.mem_filter, bne_iff_ne]
  constructor
  · rintro ⟨v, ⟨hv, hvq⟩, hu, huq⟩
    exact ⟨huq, v, hv, hvq, hu⟩
  · rintro ⟨huq, v, hv, hvq, hu⟩
    exact ⟨v, ⟨hv, hvq⟩, hu, huq⟩

/-- the invariant of the `while` loop (`s` is the start vertex) -/
structure FcwInv (g : G) (q s : Nat) (frontier seen : List Nat) : Prop where
  start : s ∈ seen
  sub : ∀ v ∈ frontier, v ∈ seen
  closed : ∀ v ∈ seen, v ∉ frontier → ∀ u, u ≠ q → g.hasEdge v u = true → u ∈ seen
  nodup : seen.Nodup
  seen_ok : ∀ v ∈ seen, v < g.n ∧ v ≠ q ∧ ReachAvoid g q s v
  short : frontier = [] → seen.length < g.n - 1

theorem fcwInv_init (g : G) (q s : Nat) (hs : s < g.n) (hsq : s ≠ q) : FcwInv g q s [s] [s] where
  start := by simp
  sub := by simp
  closed := by simp
  nodup := by simp
  seen_ok := by
    intro v hv
    simp at hv
    subst hv
    exact ⟨hs, hsq, ReachAvoid.refl hsq⟩
  short := by simp

/-- with an empty frontier the seen set is closed in `G − q`, contains the start and is too
small. -/
theorem FcwInv.not_all_reach {g : G} {q s : Nat} {seen : List Nat} (h : FcwInv g q s [] seen) :
    ¬ ∀ v, v < g.n → v ≠ q → ReachAvoid g q s v := by
  intro hall
  obtain ⟨v, hv, hvq, hvs⟩ := nodup_avoid_missing (q := q) (h.short rfl)
  have hcl : ∀ w, ReachAvoid g q s w → w ∈ seen := by
    intro w hw
    induction hw with
    | refl _ => exact h.start
    | step _ hc he ih => exact h.closed _ ih (by simp) _ hc he
  exact hvs (hcl v (hall v hv hvq))

section step
variable {g : G} {q s : Nat} {frontier seen : List Nat}

private theorem mem_front' (v : Nat) :
    v ∈ (fcwExpand g q frontier).filter (fun v => !seen.contains v) ↔
      v ∈ fcwExpand g q frontier ∧ v ∉ seen := by
  simp [List.mem_filter]

theorem fcwExpand_ok (h : FcwInv g q s frontier seen) :
    ∀ v ∈ fcwExpand g q frontier, v < g.n ∧ v ≠ q ∧ ReachAvoid g q s v := by
  intro v hv
  rw [mem_fcwExpand] at hv
  obtain ⟨hvq, w, hw, _, hv⟩ := hv
  rw [G.mem_adj] at hv
  exact ⟨hv.1, hvq, ReachAvoid.step (h.seen_ok w (h.sub w hw)).2.2 hvq hv.2⟩

theorem fcw_seen'_nodup (h : FcwInv g q s frontier seen) :
    (seen ++ (fcwExpand g q frontier).filter (fun v => !seen.contains v)).Nodup := by
  rw [List.nodup_append]
  refine ⟨h.nodup, List.Pairwise.filter _ (nodup_eraseDups _), ?_⟩
  intro a ha b hb hab
  rw [mem_front'] at hb
  exact hb.2 (hab ▸ ha)

theorem fcw_seen'_ok (h : FcwInv g q s frontier seen) :
    ∀ v ∈ seen ++ (fcwExpand g q frontier).filter (fun v => !seen.contains v),
      v < g.n ∧ v ≠ q ∧ ReachAvoid g q s v := by
  intro v hv
  rw [List.mem_append, mem_front'] at hv
  rcases hv with hv | hv
  · exact h.seen_ok v hv
  · exact fcwExpand_ok h v hv.1

theorem fcwInv_step (hwf : g.WF) (h : FcwInv g q s frontier seen)
    (hshort : (seen ++ (fcwExpand g q frontier).filter
      (fun v => !seen.contains v)).length < g.n - 1) :
    FcwInv g q s ((fcwExpand g q frontier).filter (fun v => !seen.contains v))
      (seen ++ (fcwExpand g q frontier).filter (fun v => !seen.contains v)) where
  start := List.mem_append.2 (Or.inl h.start)
  sub := fun v hv => List.mem_append.2 (Or.inr hv)
  closed := by
    intro v hv hvf u huq hu
    have hvs : v ∈ seen := by
      rw [List.mem_append] at hv
      rcases hv with hv | hv
      · exact hv
      · exact absurd hv hvf
    rw [List.mem_append, mem_front']
    by_cases hvfr : v ∈ frontier
    · by_cases hus : u ∈ seen
      · exact Or.inl hus
      · refine Or.inr ⟨?_, hus⟩
        rw [mem_fcwExpand]
        exact ⟨huq, v, hvfr, (h.seen_ok v hvs).2.1, (G.mem_adj_wf g hwf v u).2 hu⟩
    · exact Or.inl (h.closed v hvs hvfr u huq hu)
  nodup := fcw_seen'_nodup h
  seen_ok := fcw_seen'_ok h
  short := fun _ => hshort

end step

/-! ### the loop -/

theorem fcwLoop_succ (g : G) (q fuel : Nat) (frontier seen : List Nat) :
    fcwLoop g q (fuel + 1) frontier seen =
      if frontier.isEmpty then false else
      if (seen ++ (fcwExpand g q frontier).filter (fun v => !seen.contains v)).length
          == g.n - 1 then true
      else fcwLoop g q fuel ((fcwExpand g q frontier).filter (fun v => !seen.contains v))
        (seen ++ (fcwExpand g q frontier).filter (fun v => !seen.contains v)) := rfl

/-- generalised correctness of the loop: under the invariant and with enough fuel the loop
answers whether every vertex other than `q` is reachable from the start `s` in `G − q`. -/
theorem fcwLoop_correct (g : G) (hwf : g.WF) (q s : Nat) (hq : q < g.n) :
    ∀ (fuel : Nat) (frontier seen : List Nat), FcwInv g q s frontier seen → 1 ≤ fuel →
      (frontier ≠ [] → g.n - 1 - seen.length + 1 ≤ fuel) →
      (fcwLoop g q fuel frontier seen = true ↔ ∀ v, v < g.n → v ≠ q → ReachAvoid g q s v)
  | 0, _, _, _, h1, _ => by omega
  | fuel + 1, frontier, seen, h, _, hfuel => by
    rw [fcwLoop_succ]
    cases hfr : frontier with
    | nil =>
      subst hfr
      simp only [List.isEmpty_nil, if_true]
      exact ⟨fun hf => by simp at hf, fun hall => absurd hall h.not_all_reach⟩
    | cons a as =>
      rw [← hfr]
      have hne : frontier ≠ [] := by rw [hfr]; simp
      have hie : frontier.isEmpty = false := by rw [hfr]; rfl
      rw [hie]
      simp only [Bool.false_eq_true, if_false]
      have hnd := fcw_seen'_nodup h
      have hok := fcw_seen'_ok h
      have hok' : ∀ x ∈ seen ++ (fcwExpand g q frontier).filter (fun v => !seen.contains v),
          x < g.n ∧ x ≠ q := fun x hx => ⟨(hok x hx).1, (hok x hx).2.1⟩
      have hle := nodup_avoid_length_le hq hnd hok'
      by_cases hlen : (seen ++ (fcwExpand g q frontier).filter
          (fun v => !seen.contains v)).length = g.n - 1
      · have hb : ((seen ++ (fcwExpand g q frontier).filter
            (fun v => !seen.contains v)).length == g.n - 1) = true := beq_iff_eq.2 hlen
        rw [hb]
        simp only [if_true, true_iff]
        intro v hv hvq
        exact (hok v (nodup_avoid_full hq hnd hok' hlen v hv hvq)).2.2
      · have hb : ((seen ++ (fcwExpand g q frontier).filter
            (fun v => !seen.contains v)).length == g.n - 1) = false := beq_eq_false_iff_ne.2 hlen
        rw [hb]
        simp only [Bool.false_eq_true, if_false]
        have hshort : (seen ++ (fcwExpand g q frontier).filter
            (fun v => !seen.contains v)).length < g.n - 1 := by omega
        have hinv := fcwInv_step hwf h hshort
        have hf := hfuel hne
        have hlen' := hshort
        rw [List.length_append] at hlen'
        refine fcwLoop_correct g hwf q s hq fuel _ _ hinv (by omega) ?_
        intro hne'
        have hpos : 0 < ((fcwExpand g q frontier).filter (fun v => !seen.contains v)).length :=
          List.length_pos_iff.2 hne'
        rw [List.length_append]
        omega

/-! ### final theorems -/

/-- the start vertex is a vertex other than `q` -/
theorem fcw_start_ok {n q : Nat} (hn : 2 ≤ n) :
    (if q ≠ 0 then 0 else 1) < n ∧ (if q ≠ 0 then 0 else 1) ≠ q := by
  by_cases h : q = 0
  · subst h; simp; omega
  · simp [h]; omega

/-- any fuel `≥ n + 1` decides reachability in `G − q` of every vertex `≠ q` from the start -/
theorem fcwLoop_init_iff (g : G) (hwf : g.WF) (hn : 2 ≤ g.n) (q : Nat) (hq : q < g.n)
    (fuel : Nat) (hf : g.n + 1 ≤ fuel) :
    fcwLoop g q fuel [if q ≠ 0 then 0 else 1] [if q ≠ 0 then 0 else 1] = true ↔
      ∀ v, v < g.n → v ≠ q → ReachAvoid g q (if q ≠ 0 then 0 else 1) v :=
  fcwLoop_correct g hwf q _ hq fuel _ _
    (fcwInv_init g q _ (fcw_start_ok hn).1 (fcw_start_ok hn).2) (by omega)
    (fun _ => by simp only [List.length_singleton]; omega)

theorem isFullyConnectedWithout_eq (g : G) (q : Nat) :
    g.isFullyConnectedWithout q =
      if g.n ≤ (if q ≠ 0 then 0 else 1) then none
      else some (fcwLoop g q (g.n + 2) [if q ≠ 0 then 0 else 1] [if q ≠ 0 then 0 else 1]) := by
  unfold G.isFullyConnectedWithout
  by_cases h : q = 0
  · subst h; simp
  · simp [h]

/-- Python: `IndexError` (from `get_neighbors_of(start)`) exactly when the start vertex does not
exist. -/
theorem isFullyConnectedWithout_none_iff (g : G) (q : Nat) :
    g.isFullyConnectedWithout q = none ↔ g.n ≤ (if q ≠ 0 then 0 else 1) := by
  rw [isFullyConnectedWithout_eq]
  by_cases h : g.n ≤ (if q ≠ 0 then 0 else 1)
  · rw [if_pos h]; exact ⟨fun _ => h, fun _ => rfl⟩
  · rw [if_neg h]; exact ⟨fun hc => (by cases hc), fun hc => absurd hc h⟩

/-- main: for n ≥ 2 and q < n the answer is `true` iff all vertices other than q are reachable
from the start vertex in the graph with q removed -/
theorem isFullyConnectedWithout_iff (g : G) (hwf : g.WF) (hn : 2 ≤ g.n) (q : Nat) (hq : q < g.n) :
    g.isFullyConnectedWithout q = some true ↔
      ∀ v, v < g.n → v ≠ q → ReachAvoid g q (if q ≠ 0 then 0 else 1) v := by
  rw [isFullyConnectedWithout_eq, if_neg (by have := (fcw_start_ok (q := q) hn).1; omega),
    ← fcwLoop_init_iff g hwf hn q hq (g.n + 2) (by omega)]
  simp

/-- on the domain the call never raises -/
theorem isFullyConnectedWithout_isSome (g : G) (hn : 2 ≤ g.n) (q : Nat) :
    (g.isFullyConnectedWithout q).isSome = true := by
  rw [isFullyConnectedWithout_eq, if_neg (by have := (fcw_start_ok (q := q) hn).1; omega)]
  rfl

/-- corollary in the all-pairs form: `G − q` is connected -/
theorem isFullyConnectedWithout_iff_all_pairs (g : G) (hwf : g.WF) (hn : 2 ≤ g.n) (q : Nat)
    (hq : q < g.n) :
    g.isFullyConnectedWithout q = some true ↔
      ∀ u v, u < g.n → v < g.n → u ≠ q → v ≠ q → ReachAvoid g q u v := by
  rw [isFullyConnectedWithout_iff g hwf hn q hq]
  constructor
  · intro h u v hu hv huq hvq
    exact (h u hu huq).symm.trans (h v hv hvq)
  · intro h v hv hvq
    exact h _ v (fcw_start_ok hn).1 hv (fcw_start_ok hn).2 hvq

/-- fuel n+2 is enough: every fuel from n+1 on gives the same answer -/
theorem fcwLoop_fuel_irrelevant (g : G) (hwf : g.WF) (hn : 2 ≤ g.n) (q : Nat) (hq : q < g.n)
    (fuel : Nat) (hf : g.n + 1 ≤ fuel) :
    fcwLoop g q fuel [if q ≠ 0 then 0 else 1] [if q ≠ 0 then 0 else 1] =
      fcwLoop g q (g.n + 2) [if q ≠ 0 then 0 else 1] [if q ≠ 0 then 0 else 1] := by
  have h1 := fcwLoop_init_iff g hwf hn q hq fuel hf
  have h2 := fcwLoop_init_iff g hwf hn q hq (g.n + 2) (by omega)
  have h3 := h1.trans h2.symm
  cases ha : fcwLoop g q fuel [if q ≠ 0 then 0 else 1] [if q ≠ 0 then 0 else 1] <;>
    cases hb : fcwLoop g q (g.n + 2) [if q ≠ 0 then 0 else 1] [if q ≠ 0 then 0 else 1] <;>
    simp_all

/-! ### non-vacuity and edge cases -/

/-- path 0 - 1 - 2, `q = 1` (the cut vertex): hypotheses hold, the answer is `false` -/
example : (⟨3, [(0, 1), (1, 2)]⟩ : G).WF ∧ 2 ≤ (⟨3, [(0, 1), (1, 2)]⟩ : G).n ∧
    1 < (⟨3, [(0, 1), (1, 2)]⟩ : G).n ∧
    (⟨3, [(0, 1), (1, 2)]⟩ : G).isFullyConnectedWithout 1 = some false := by
  unfold G.WF; decide

/-- path 0 - 1 - 2, `q = 0` (start vertex 1): the answer is `true` -/
example : (⟨3, [(0, 1), (1, 2)]⟩ : G).WF ∧ 2 ≤ (⟨3, [(0, 1), (1, 2)]⟩ : G).n ∧
    0 < (⟨3, [(0, 1), (1, 2)]⟩ : G).n ∧
    (⟨3, [(0, 1), (1, 2)]⟩ : G).isFullyConnectedWithout 0 = some true := by
  unfold G.WF; decide

/-- path 0 - 1 - 2, `q = 2`: `true` -/
example : (⟨3, [(0, 1), (1, 2)]⟩ : G).isFullyConnectedWithout 2 = some true := by decide

/-- star with centre 0 on 4 vertices, `q = 0`: `false`; any leaf removed: `true` -/
example : (⟨4, [(0, 1), (0, 2), (0, 3)]⟩ : G).WF ∧
    (⟨4, [(0, 1), (0, 2), (0, 3)]⟩ : G).isFullyConnectedWithout 0 = some false ∧
    (⟨4, [(0, 1), (0, 2), (0, 3)]⟩ : G).isFullyConnectedWithout 1 = some true ∧
    (⟨4, [(0, 1), (0, 2), (0, 3)]⟩ : G).isFullyConnectedWithout 3 = some true := by
  unfold G.WF; decide

/-- through the theorems: in the path without 0 the vertex 2 is reachable from 1 avoiding 0 … -/
example : ReachAvoid ⟨3, [(0, 1), (1, 2)]⟩ 0 1 2 :=
  (isFullyConnectedWithout_iff ⟨3, [(0, 1), (1, 2)]⟩ (by unfold G.WF; decide) (by decide) 0
    (by decide)).1 (by decide) 2 (by decide) (by decide)

/-- … and (all-pairs form) the path without its middle vertex is not connected. -/
example : ¬ ∀ u v, u < 3 → v < 3 → u ≠ 1 → v ≠ 1 → ReachAvoid ⟨3, [(0, 1), (1, 2)]⟩ 1 u v :=
  fun h => absurd ((isFullyConnectedWithout_iff_all_pairs ⟨3, [(0, 1), (1, 2)]⟩
    (by unfold G.WF; decide) (by decide) 1 (by decide)).2 h) (by decide)

/-- `n = 2`: `V ∖ {q}` is a single vertex.  The loop starts with `seen = [start]`; the first
expansion is empty (the only possible neighbour is `q`), and the size test `1 == n - 1` made
after it answers `true`, with or without the edge, for both `q`. -/
example : (⟨2, []⟩ : G).isFullyConnectedWithout 0 = some true ∧
    (⟨2, []⟩ : G).isFullyConnectedWithout 1 = some true ∧
    (⟨2, [(0, 1)]⟩ : G).isFullyConnectedWithout 0 = some true ∧
    (⟨2, [(0, 1)]⟩ : G).isFullyConnectedWithout 1 = some true := by decide

/-- the start vertex (0) isolated in `G − q` with `n ≥ 3`: `false` (empty first expansion,
`1 ≠ n - 1`, then the frontier is empty) -/
example : (⟨3, [(0, 1), (1, 2)]⟩ : G).isFullyConnectedWithout 1 = some false ∧
    (⟨4, [(2, 3)]⟩ : G).isFullyConnectedWithout 1 = some false := by decide

/-- `q` isolated in `G`: the answer is connectivity of the rest -/
example : (⟨3, [(0, 1)]⟩ : G).isFullyConnectedWithout 2 = some true ∧
    (⟨4, [(0, 1)]⟩ : G).isFullyConnectedWithout 3 = some false ∧
    (⟨4, [(1, 2), (2, 3)]⟩ : G).isFullyConnectedWithout 0 = some true := by decide

/-- the hypothesis `2 ≤ n` is needed exactly for the existence of the start vertex: `none`
(Python: `IndexError`) for `n = 0`, and for `n = 1`, `q = 0` (start vertex 1) -/
example : (⟨0, []⟩ : G).isFullyConnectedWithout 0 = none ∧
    (⟨0, []⟩ : G).isFullyConnectedWithout 3 = none ∧
    (⟨1, []⟩ : G).isFullyConnectedWithout 0 = none := by decide

/-- fuel irrelevance instance: fuel `n + 1 = 5` and fuel `100` agree with the model's `n + 2` on
the path 0 - 1 - 2 - 3 with `q = 3`; fuel `1` is too small there (2 rounds are needed). -/
example : fcwLoop ⟨4, [(0, 1), (1, 2), (2, 3)]⟩ 3 5 [0] [0] = true ∧
    fcwLoop ⟨4, [(0, 1), (1, 2), (2, 3)]⟩ 3 100 [0] [0] = true ∧
    fcwLoop ⟨4, [(0, 1), (1, 2), (2, 3)]⟩ 3 6 [0] [0] = true ∧
    fcwLoop ⟨4, [(0, 1), (1, 2), (2, 3)]⟩ 3 1 [0] [0] = false := by decide

/-! ### Remark: `q ≥ n` (not rejected by the code)

The Python code does not validate `qudit`.  For `qudit ≥ num_qudits` nothing is removed, the BFS
runs on the whole graph from vertex 0, but the answer is still `True` only if the number of seen
vertices is *exactly* `n - 1` after some round.  So the result is neither "G is connected" nor an
error; it depends on the BFS layer sizes:

* connected path 0 - 1 - 2: seen sizes 1, 2 → `true` (the test fires one vertex early);
* connected edge 0 - 1 (`n = 2`): seen sizes 1 → 2, the value `n - 1 = 1` is never tested
  (the test is made only after the first expansion) → `false` although the graph is connected;
* star with centre 0 on 4 vertices: seen sizes 1 → 4, `3` is skipped → `false`;
* disconnected `{0 - 1, 2}`: seen sizes 1 → 2 = `n - 1` → `true` although the graph is not
  connected;
* `n = 1`: seen size 1 ≠ 0 → `false`.
These are outside the domain of the theorems above (`q < n`). -/
example : (⟨3, [(0, 1), (1, 2)]⟩ : G).isFullyConnectedWithout 5 = some true ∧
    (⟨2, [(0, 1)]⟩ : G).isFullyConnectedWithout 5 = some false ∧
    (⟨4, [(0, 1), (0, 2), (0, 3)]⟩ : G).isFullyConnectedWithout 4 = some false ∧
    (⟨3, [(0, 1)]⟩ : G).isFullyConnectedWithout 3 = some true ∧
    (⟨1, []⟩ : G).isFullyConnectedWithout 1 = some false := by decide

/-- so for `q ≥ n` the answer is not connectivity of `G` (`= G − q`): the connected single edge
is answered `false`, the disconnected graph `{0 - 1, 2}` is answered `true`. -/
example : (⟨2, [(0, 1)]⟩ : G).isFullyConnected = true ∧
    (⟨2, [(0, 1)]⟩ : G).isFullyConnectedWithout 2 = some false ∧
    (⟨3, [(0, 1)]⟩ : G).isFullyConnected = false ∧
    (⟨3, [(0, 1)]⟩ : G).isFullyConnectedWithout 3 = some true := by decide

end BqVerif.Graph
