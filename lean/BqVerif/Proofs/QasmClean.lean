import BqVerif.Model.QasmSpec
import BqVerif.Proofs.QasmExprBasic
import BqVerif.Proofs.QasmSubst
import BqVerif.Proofs.QasmRegs
/-! # On clean programs the reader computes the reference elaboration

`QasmSpec` says what a program means.  This file proves that the reader (`QasmElab`) computes
exactly that on programs that avoid the constructs it gets wrong (parenthesised
sub-expressions, `sqrt`/`exp`, negative actual parameters of user gates, lists of several whole
registers, `reset`/indexed `measure` of a register other than the first, `if`). -/
namespace BqVerif.Qasm

variable {V : Type}

/-! ## expressions -/

/-- an expression the reader reads correctly: as parsed (no spliced values), no parenthesised
sub-expression, and none of the functions `eval_locals` lacks -/
def CleanExpr (A : Arith V) (q : QE V) : Prop :=
  q.source = true ∧ q.plain A = true ∧
    ∀ e, pyParse (flatten A q) = some e → e.noMissingFn = true

theorem evalEnv_eq_spec (A : Arith V) (σ : Env V) (e : PE V) (h : e.noMissingFn = true) :
    e.evalEnv A σ = e.evalEnvSpec A σ := by
  induction e with
  | lit s => rfl
  | val v => rfl
  | name s => rfl
  | neg e ih => simp [PE.noMissingFn] at h; simp [PE.evalEnv, PE.evalEnvSpec, ih h]
  | bin op l r ihl ihr =>
    simp [PE.noMissingFn] at h
    simp only [PE.evalEnv, PE.evalEnvSpec, ihl h.1, ihr h.2]
    cases PE.evalEnvSpec A σ l <;> cases PE.evalEnvSpec A σ r <;> rfl
  | pow a b iha ihb =>
    simp [PE.noMissingFn] at h
    simp only [PE.evalEnv, PE.evalEnvSpec, iha h.1, ihb h.2]
    cases PE.evalEnvSpec A σ a <;> cases PE.evalEnvSpec A σ b <;> rfl
  | call f e ih =>
    cases f <;> simp_all [PE.evalEnv, PE.evalEnvSpec, PE.noMissingFn]

theorem evalEnv_noEnv (A : Arith V) (e : PE V) : e.evalEnv A noEnv = e.eval A := by
  induction e with
  | lit s => rfl
  | val v => rfl
  | name s => simp [PE.evalEnv, PE.eval, noEnv]
  | neg e ih => simp [PE.evalEnv, PE.eval, ih]
  | bin op l r ihl ihr =>
    simp only [PE.evalEnv, PE.eval, ihl, ihr]
    cases PE.eval A l <;> cases PE.eval A r <;> rfl
  | pow a b iha ihb =>
    simp only [PE.evalEnv, PE.eval, iha, ihb]
    cases PE.eval A a <;> cases PE.eval A b <;> rfl
  | call f e ih => cases f <;> simp [PE.evalEnv, PE.eval, ih]

/-- E1: a clean closed expression has the value the reader computes -/
theorem clean_value (A : Arith V) (q : QE V) (h : CleanExpr A q) :
    exprValue A noEnv q = evalQ A q := by
  obtain ⟨_, hp, hf⟩ := h
  unfold exprValue evalQ
  rw [← flatten_eq_spec A q hp]
  cases hq : pyParse (flatten A q) with
  | none => rfl
  | some e =>
    simp only [Option.bind_some]
    rw [← evalEnv_eq_spec A noEnv e (hf e hq), evalEnv_noEnv]

theorem clean_values (A : Arith V) (qs : List (QE V)) (h : ∀ q ∈ qs, CleanExpr A q) :
    qs.mapM (exprValue A noEnv) = evalParams A qs := by
  unfold evalParams
  induction qs with
  | nil => rfl
  | cons q qs ih =>
    simp only [List.mapM_cons, clean_value A q (h q (by simp)),
      ih (fun q' hq' => h q' (by simp [hq']))]

theorem substVals_bindIds_some (ps : List String) (vs : List V) (q : QE V)
    (hsrc : q.source = true) (hlen : ps.length ≤ vs.length) :
    ∃ q', substVals vs (bindIds ps q) = some q' := by
  induction q with
  | num s => exact ⟨_, rfl⟩
  | id s =>
    by_cases hc : ps.contains s = true
    · have hmem : s ∈ ps := by simpa using hc
      have hlt : ps.idxOf s < vs.length := Nat.lt_of_lt_of_le (List.idxOf_lt_length_of_mem hmem) hlen
      refine ⟨.val vs[ps.idxOf s], ?_⟩
      simp [bindIds, hmem, substVals, hlt]
    · have hnm : ¬ s ∈ ps := by simpa using hc
      exact ⟨.id s, by simp [bindIds, hnm, substVals]⟩
  | pidx i => simp [QE.source] at hsrc
  | val v => simp [QE.source] at hsrc
  | paren e ih =>
    obtain ⟨e', he'⟩ := ih (by simpa [QE.source] using hsrc)
    exact ⟨.paren e', by simp [bindIds, substVals, he']⟩
  | usub e ih =>
    obtain ⟨e', he'⟩ := ih (by simpa [QE.source] using hsrc)
    exact ⟨.usub e', by simp [bindIds, substVals, he']⟩
  | pow a b iha ihb =>
    simp only [QE.source, Bool.and_eq_true] at hsrc
    obtain ⟨a', ha'⟩ := iha hsrc.1
    obtain ⟨b', hb'⟩ := ihb hsrc.2
    exact ⟨.pow a' b', by simp [bindIds, substVals, ha', hb']⟩
  | call f e ih =>
    obtain ⟨e', he'⟩ := ih (by simpa [QE.source] using hsrc)
    exact ⟨.call f e', by simp [bindIds, substVals, he']⟩
  | bin op l r ihl ihr =>
    simp only [QE.source, Bool.and_eq_true] at hsrc
    obtain ⟨l', hl'⟩ := ihl hsrc.1
    obtain ⟨r', hr'⟩ := ihr hsrc.2
    exact ⟨.bin op l' r', by simp [bindIds, substVals, hl', hr']⟩

/-- E2: a body expression with formals, instantiated with values that print without a sign -/
theorem tree_value (A : Arith V) (ps : List String) (vs : List V) (q : QE V)
    (hc : CleanExpr A q) (hnn : ∀ v ∈ vs, A.isNeg v = false) (hlen : ps.length ≤ vs.length) :
    (substVals vs (bindIds ps q)).bind (evalQ A) = exprValue A (formalEnv ps vs) q := by
  obtain ⟨hsrc, hp, hf⟩ := hc
  obtain ⟨q', hq'⟩ := substVals_bindIds_some ps vs q hsrc hlen
  rw [hq', Option.bind_some, evalQ_subst A ps vs hnn q q' hsrc hq']
  unfold exprValue
  rw [← flatten_eq_spec A q hp]
  cases hq : pyParse (flatten A q) with
  | none => rfl
  | some e => simp only [Option.bind_some]; exact evalEnv_eq_spec A _ e (hf e hq)

theorem flatten_map_of_not_hasParam (A : Arith V) (ps : List String) (vs : List V) (q : QE V)
    (hsrc : q.source = true) (h : hasParam ps q = false) :
    (flatten A q).map (tokBind (formalEnv ps vs)) = flatten A q := by
  induction q with
  | num s => simp [flatten, tokBind]
  | id s =>
    simp only [hasParam] at h
    have hnm : ¬ s ∈ ps := by simpa using h
    simp [flatten, tokBind, formalEnv, hnm]
  | pidx i => simp [QE.source] at hsrc
  | val v => simp [QE.source] at hsrc
  | paren e ih =>
    simp only [QE.source] at hsrc; simp only [hasParam] at h
    simp [flatten, ih hsrc h]
  | usub e ih =>
    simp only [QE.source] at hsrc; simp only [hasParam] at h
    simp [flatten, ih hsrc h, tokBind]
  | pow a b iha ihb =>
    simp only [QE.source, Bool.and_eq_true] at hsrc
    simp only [hasParam, Bool.or_eq_false_iff] at h
    simp [flatten, iha hsrc.1 h.1, ihb hsrc.2 h.2, tokBind]
  | call f e ih =>
    simp only [QE.source] at hsrc; simp only [hasParam] at h
    simp [flatten, ih hsrc h, tokBind]
  | bin op l r ihl ihr =>
    simp only [QE.source, Bool.and_eq_true] at hsrc
    simp only [hasParam, Bool.or_eq_false_iff] at h
    cases op <;> simp [flatten, ihl hsrc.1 h.1, ihr hsrc.2 h.2, tokBind, BOp.tok]

/-- E3: a body expression without formals has the value computed at definition time, under
any binding -/
theorem const_value (A : Arith V) (ps : List String) (vs : List V) (q : QE V) (v : V)
    (hc : CleanExpr A q) (h : hasParam ps q = false) (hv : evalQ A q = some v) :
    exprValue A (formalEnv ps vs) q = some v := by
  obtain ⟨hsrc, hp, hf⟩ := hc
  have hmap := flatten_map_of_not_hasParam A ps vs q hsrc h
  have hpm := pyParse_map (formalEnv ps vs) (flatten A q)
  rw [hmap] at hpm
  unfold exprValue
  rw [← flatten_eq_spec A q hp]
  unfold evalQ at hv
  cases hq : pyParse (flatten A q) with
  | none => simp [hq] at hv
  | some e =>
    simp only [hq, Option.bind_some] at hv
    simp only [hq, Option.map_some, Option.some.injEq] at hpm
    simp only [Option.bind_some]
    rw [← evalEnv_eq_spec A _ e (hf e hq), ← eval_bindEnv, ← hpm]
    exact hv

/-! ## user gate definitions: reader's stored form vs. source form -/

/-- the reader's stored parameter expression `p` comes from the clean source tree `q` -/
def PExpRel (A : Arith V) (ps : List String) : PExp V → QE V → Prop
  | .tree t, q => CleanExpr A q ∧ hasParam ps q = true ∧ t = bindIds ps q
  | .const v, q => CleanExpr A q ∧ hasParam ps q = false ∧ evalQ A q = some v

def PExpsRel (A : Arith V) (ps : List String) : List (PExp V) → List (QE V) → Prop
  | [], [] => True
  | p :: pes, q :: qs => PExpRel A ps p q ∧ PExpsRel A ps pes qs
  | _, _ => False

/-- the number of actual values fits the formals of a user gate (nothing to say for a table
gate: `Operation(…)` checks it) -/
def SDef.arityOk : SDef V → Nat → Prop
  | .builtin _, _ => True
  | .custom _ formals _ _, n => n = formals.length

mutual
def DefRel (A : Arith V) : GDef V → SDef V → Prop
  | .builtin b, gs => gs = .builtin b
  | .custom name np nv body, gs =>
    ∃ ps bodyS, gs = .custom name ps nv bodyS ∧ np = ps.length ∧ BodyRel A ps body bodyS
def BodyRel (A : Arith V) (ps : List String) : List (GBody V) → List (SBody V) → Prop
  | [], bs => bs = []
  | .mk g loc pes :: rest, bs =>
    ∃ gs qs restS, bs = .mk gs loc qs :: restS ∧ DefRel A g gs ∧ PExpsRel A ps pes qs ∧
      gs.arityOk qs.length ∧ BodyRel A ps rest restS
end

mutual
/-- every value handed to a user gate, at any depth of the instantiation, prints without sign -/
def nonNegS (A : Arith V) : SDef V → List V → Bool
  | .builtin _, _ => true
  | .custom _ formals _ body, vs =>
    vs.all (fun v => !A.isNeg v) && nonNegBodyS A (formalEnv formals vs) body
def nonNegBodyS (A : Arith V) (σ : Env V) : List (SBody V) → Bool
  | [] => true
  | .mk g _ ps :: rest =>
    (match ps.mapM (exprValue A σ) with
     | some sub => nonNegS A g sub
     | none => true) && nonNegBodyS A σ rest
end

theorem mapM_length {α β : Type} (f : α → Option β) :
    ∀ (l : List α) (r : List β), l.mapM f = some r → r.length = l.length
  | [], r, h => by simp at h; subst h; rfl
  | a :: l, r, h => by
    simp only [List.mapM_cons, Option.pure_def, Option.bind_eq_bind, Option.bind_eq_some_iff,
      Option.some.injEq] at h
    obtain ⟨b, _, r', hr', rfl⟩ := h
    simp [mapM_length f l r' hr']

theorem pexps_agree (A : Arith V) (ps : List String) (vs : List V)
    (hnn : ∀ v ∈ vs, A.isNeg v = false) (hlen : ps.length ≤ vs.length) :
    ∀ (pes : List (PExp V)) (qs : List (QE V)) (sub : List V), PExpsRel A ps pes qs →
      qs.mapM (exprValue A (formalEnv ps vs)) = some sub → evalPExps A vs pes = some sub
  | [], [], sub, _, h => by simpa [evalPExps] using h
  | [], _ :: _, _, hr, _ => by simp [PExpsRel] at hr
  | _ :: _, [], _, hr, _ => by simp [PExpsRel] at hr
  | p :: pes, q :: qs, sub, hr, h => by
    simp only [PExpsRel] at hr
    simp only [List.mapM_cons, Option.pure_def, Option.bind_eq_bind, Option.bind_eq_some_iff,
      Option.some.injEq] at h
    obtain ⟨v, hv, sub', hsub', rfl⟩ := h
    have ih := pexps_agree A ps vs hnn hlen pes qs sub' hr.2 hsub'
    unfold evalPExps at ih ⊢
    cases p with
    | tree t =>
      obtain ⟨hc, _, rfl⟩ := hr.1
      have := tree_value A ps vs q hc hnn hlen
      simp only [List.mapM_cons, this, hv, ih]
      rfl
    | const c =>
      obtain ⟨hc, hp, hev⟩ := hr.1
      have := const_value A ps vs q c hc hp hev
      rw [this] at hv
      simp only [Option.some.injEq] at hv
      subst hv
      simp only [List.mapM_cons, ih]
      rfl

mutual
/-- instantiating a user gate: the reader builds what the reference elaboration builds -/
theorem build_agree (A : Arith V) :
    ∀ (g : GDef V) (gs : SDef V) (loc : List Nat) (vs : List V) (op : Op V),
      DefRel A g gs → nonNegS A gs vs = true → gs.arityOk vs.length →
      buildS A gs loc vs = some op → buildOp A g loc vs = some op
  | .builtin b, gs, loc, vs, op, hrel, _, _, hb => by
    simp only [DefRel] at hrel
    subst hrel
    simpa [buildS, buildOp] using hb
  | .custom name np nv body, gs, loc, vs, op, hrel, hnn, hlen, hb => by
    simp only [DefRel] at hrel
    obtain ⟨ps, bodyS, rfl, rfl, hbody⟩ := hrel
    simp only [nonNegS, Bool.and_eq_true, List.all_eq_true, Bool.not_eq_true'] at hnn
    simp only [SDef.arityOk] at hlen
    simp only [buildS] at hb
    split at hb
    · rename_i ops hops
      have := body_agree A nv ps vs (by omega) hnn.1 body bodyS ops hbody hnn.2 hops
      simp only [buildOp, this]
      exact hb
    · simp at hb
theorem body_agree (A : Arith V) (nv : Nat) (ps : List String) (vs : List V)
    (hlen : ps.length ≤ vs.length) (hnnv : ∀ v ∈ vs, A.isNeg v = false) :
    ∀ (body : List (GBody V)) (bodyS : List (SBody V)) (ops : List (Op V)),
      BodyRel A ps body bodyS → nonNegBodyS A (formalEnv ps vs) bodyS = true →
      buildBodyS A nv (formalEnv ps vs) bodyS = some ops → buildBody A nv body vs = some ops
  | [], bodyS, ops, hrel, _, hb => by
    simp only [BodyRel] at hrel
    subst hrel
    simpa [buildBodyS, buildBody] using hb
  | .mk g loc pes :: rest, bodyS, ops, hrel, hnn, hb => by
    simp only [BodyRel] at hrel
    obtain ⟨gs, qs, restS, rfl, hdef, hpes, hqlen, hrest⟩ := hrel
    simp only [buildBodyS] at hb
    simp only [nonNegBodyS, Bool.and_eq_true] at hnn
    split at hb
    · rename_i sub hsub
      rw [hsub] at hnn
      have hpe := pexps_agree A ps vs hnnv hlen pes qs sub hpes hsub
      have hsl : gs.arityOk sub.length := by rw [mapM_length _ qs sub hsub]; exact hqlen
      split at hb
      · rename_i op hop
        have hop' := build_agree A g gs loc sub op hdef hnn.1 hsl hop
        split at hb
        · rename_i hall
          split at hb
          · rename_i ops' hops'
            have := body_agree A nv ps vs hlen hnnv rest restS ops' hrest hnn.2 hops'
            simp only [buildBody, hpe, hop', hall, this]
            exact hb
          · simp at hb
        · simp at hb
      · simp at hb
    · simp at hb
end

/-! ## states -/

def CustRel (A : Arith V) : List (String × GDef V) → List (String × SDef V) → Prop
  | [], [] => True
  | (n, g) :: cs, (n', gs) :: css => n = n' ∧ DefRel A g gs ∧ CustRel A cs css
  | _, _ => False

/-- reader state and reference state carry the same information -/
structure StRel (A : Arith V) (s : St V) (sS : SSt V) : Prop where
  table : s.table = sS.table
  qregs : s.qregs = sS.qregs
  cregs : s.cregs = sS.cregs
  ops : s.ops = sS.ops
  customs : CustRel A s.customs sS.customs

theorem defRel_arity (A : Arith V) :
    ∀ (g : GDef V) (gs : SDef V), DefRel A g gs → g.np = gs.np ∧ g.nv = gs.nv
  | .builtin b, gs, h => by simp only [DefRel] at h; subst h; exact ⟨rfl, rfl⟩
  | .custom name np nv body, gs, h => by
    simp only [DefRel] at h
    obtain ⟨ps, bodyS, rfl, rfl, _⟩ := h
    exact ⟨rfl, rfl⟩

theorem custRel_find (A : Arith V) (name : String) :
    ∀ (cs : List (String × GDef V)) (css : List (String × SDef V)), CustRel A cs css →
      ∀ gs, (css.find? (·.1 == name)).map (·.2) = some gs →
        ∃ g, (cs.find? (·.1 == name)).map (·.2) = some g ∧ DefRel A g gs
  | [], [], _, gs, h => by simp at h
  | [], _ :: _, hr, _, _ => by simp [CustRel] at hr
  | _ :: _, [], hr, _, _ => by simp [CustRel] at hr
  | (n, g) :: cs, (n', gs') :: css, hr, gs, h => by
    simp only [CustRel] at hr
    obtain ⟨rfl, hd, hrest⟩ := hr
    by_cases hn : (n == name) = true
    · simp only [List.find?_cons, hn, Option.map_some, Option.some.injEq] at h ⊢
      subst h
      exact ⟨g, rfl, hd⟩
    · simp only [List.find?_cons, hn] at h ⊢
      exact custRel_find A name cs css hrest gs h

theorem lookup_agree (A : Arith V) {s : St V} {sS : SSt V} (hr : StRel A s sS) (name : String)
    (gs : SDef V) (h : sS.lookup name = some gs) :
    ∃ g, s.lookup name = some g ∧ DefRel A g gs := by
  unfold SSt.lookup at h
  unfold St.lookup
  rw [hr.table]
  cases hb : lookupBuiltin sS.table name with
  | some b =>
    simp only [hb, Option.some.injEq] at h
    subst h
    exact ⟨.builtin b, rfl, by simp [DefRel]⟩
  | none =>
    simp only [hb] at h
    exact custRel_find A name _ _ hr.customs gs h

/-! ## arguments -/

theorem argIndicesS_imp {rs : Regs} {a : Arg} {l : List Nat} (h : argIndicesS rs a = some l) :
    argIndices rs a = some l := by
  unfold argIndicesS at h
  unfold argIndices
  cases hi : a.idx with
  | none => simpa [hi] using h
  | some i =>
    simp only [hi] at h ⊢
    split at h
    · rename_i o sz ho hs
      split at h
      · simp only [Option.some.injEq] at h; subst h; simp [ho]
      · simp at h
    · simp at h

theorem mapM_argIndicesS_imp {rs : Regs} :
    ∀ (as : List Arg) (ls : List (List Nat)), as.mapM (argIndicesS rs) = some ls →
      as.mapM (argIndices rs) = some ls
  | [], ls, h => by simpa using h
  | a :: as, ls, h => by
    simp only [List.mapM_cons, Option.pure_def, Option.bind_eq_bind, Option.bind_eq_some_iff,
      Option.some.injEq] at h
    obtain ⟨l, hl, ls', hls', rfl⟩ := h
    simp [List.mapM_cons, argIndicesS_imp hl, mapM_argIndicesS_imp as ls' hls']

/-- at most one leading whole-register name (the reader crashes on two) -/
def leadBareOk (as : List Arg) : Prop := (as.takeWhile (·.idx.isNone)).length < 2

theorem anylistS_imp {rs : Regs} {as : List Arg} {l : List Nat} (h : anylistS rs as = some l)
    (hb : leadBareOk as) : anylistIndices rs as = some l := by
  unfold anylistS at h
  simp only [Option.map_eq_some_iff] at h
  obtain ⟨ls, hls, rfl⟩ := h
  unfold anylistIndices leadBareOk at *
  have : ¬ (as.takeWhile (·.idx.isNone)).length ≥ 2 := by omega
  simp [this, mapM_argIndicesS_imp as ls hls]

/-! ## top-level gate applications -/

/-- the conditions under which the reader reads a gate application correctly -/
def CleanCall (A : Arith V) (sS : SSt V) : GCall V → Prop
  | .gate name params args =>
    (∀ q ∈ params, CleanExpr A q) ∧ leadBareOk args ∧
      ∀ gs vs, sS.lookup name = some gs → params.mapM (exprValue A noEnv) = some vs →
        nonNegS A gs vs = true
  | .u params _ => ∀ q ∈ params, CleanExpr A q
  | .cx _ _ => True

theorem arityOk_of_np (gs : SDef V) (n : Nat) (h : n = gs.np) : gs.arityOk n := by
  cases gs with
  | builtin b => trivial
  | custom name formals nv body => simpa [SDef.arityOk, SDef.np] using h

theorem argIndicesS_idx {rs : Regs} {a : Arg} {i : Nat} {l : List Nat} (hi : a.idx = some i)
    (h : argIndicesS rs a = some l) : ∃ o, firstIndex rs a.name = some o ∧ l = [o + i] := by
  unfold argIndicesS at h
  simp only [hi] at h
  split at h
  · rename_i o sz ho hs
    split at h
    · simp only [Option.some.injEq] at h; exact ⟨o, ho, h.symm⟩
    · simp at h
  · simp at h

theorem call_agree (A : Arith V) {s : St V} {sS : SSt V} (hr : StRel A s sS) (c : GCall V)
    (hc : CleanCall A sS c) (op : Op V) (h : elabCallS A sS c = some op) :
    elabCall A s c = some op := by
  cases c with
  | gate name params args =>
    obtain ⟨hexp, hlead, hnn⟩ := hc
    simp only [elabCallS] at h
    split at h
    · rename_i vs hvs
      split at h
      · rename_i loc hloc
        split at h
        · simp at h
        · rename_i hnd
          split at h
          · rename_i gs hgs
            split at h
            · rename_i harity
              obtain ⟨g, hg, hdef⟩ := lookup_agree A hr name gs hgs
              obtain ⟨hnp, hnv⟩ := defRel_arity A g gs hdef
              simp only [Bool.and_eq_true, beq_iff_eq] at harity
              have hb := build_agree A g gs loc vs op hdef (hnn gs vs hgs hvs)
                (arityOk_of_np gs _ harity.1) h
              have hvs' : evalParams A params = some vs := by
                rw [← clean_values A params hexp]; exact hvs
              have hloc' := anylistS_imp hloc hlead
              rw [← hr.qregs] at hloc'
              simp only [elabCall, hvs', hloc', hnd, hg, hnp, hnv, harity.1, harity.2,
                beq_self_eq_true, Bool.and_self, if_true, hb]
              simp
            · simp at h
          · simp at h
      · simp at h
    · simp at h
  | u params a =>
    simp only [elabCallS] at h
    split at h
    · rename_i vs i loc b hvs hi hloc hb
      obtain ⟨o, ho, rfl⟩ := argIndicesS_idx hi hloc
      have hvs' : evalParams A params = some vs := by
        rw [← clean_values A params hc]; exact hvs
      simp only [elabCall, hvs', hi, hr.table, hb]
      rw [hr.qregs, ho]
      exact h
    · simp at h
  | cx a b =>
    simp only [elabCallS] at h
    split at h
    · rename_i i j la lb d hi hj hla hlb hd
      obtain ⟨oa, hoa, rfl⟩ := argIndicesS_idx hi hla
      obtain ⟨ob, hob, rfl⟩ := argIndicesS_idx hj hlb
      simp only [elabCall, hi, hj, hr.qregs, hoa, hob, hr.table, hd]
      simpa using h
    · simp at h

/-! ## gate definitions -/

/-- a body expression: clean, and if it has no formal it evaluates (the reader evaluates such
expressions when the gate is DEFINED) -/
def CleanBodyExpr (A : Arith V) (ps : List String) (q : QE V) : Prop :=
  CleanExpr A q ∧ (hasParam ps q = false → (evalQ A q).isSome = true)

def CleanBodyCall (A : Arith V) (ps : List String) : GCall V → Prop
  | .gate _ params _ => ∀ q ∈ params, CleanBodyExpr A ps q
  | .u params _ => ∀ q ∈ params, CleanBodyExpr A ps q
  | .cx _ _ => True

def CleanBStmt (A : Arith V) (ps : List String) : BStmt V → Prop
  | .call c => CleanBodyCall A ps c
  | .barrier => True

theorem bodyPExps_agree (A : Arith V) (ps : List String) :
    ∀ (qs : List (QE V)), (∀ q ∈ qs, CleanBodyExpr A ps q) →
      ∃ pes, bodyPExps A ps qs = some pes ∧ PExpsRel A ps pes qs ∧ pes.length = qs.length
  | [], _ => ⟨[], rfl, trivial, rfl⟩
  | q :: qs, h => by
    obtain ⟨pes, hpes, hrel, hlen⟩ := bodyPExps_agree A ps qs (fun q' hq' => h q' (by simp [hq']))
    obtain ⟨hc, hconst⟩ := h q (by simp)
    unfold bodyPExps at hpes ⊢
    by_cases hp : hasParam ps q = true
    · refine ⟨.tree (bindIds ps q) :: pes, ?_, ⟨⟨hc, hp, rfl⟩, hrel⟩, by simp [hlen]⟩
      simp only [List.mapM_cons, hp, if_true, hpes]
      rfl
    · have hp' : hasParam ps q = false := by simpa using hp
      obtain ⟨v, hv⟩ := Option.isSome_iff_exists.mp (hconst hp')
      refine ⟨.const v :: pes, ?_, ⟨⟨hc, hp', hv⟩, hrel⟩, by simp [hlen]⟩
      simp only [List.mapM_cons, hp', Bool.false_eq_true, if_false, hv, Option.map_some, hpes]
      rfl

theorem bodyCall_agree (A : Arith V) {s : St V} {sS : SSt V} (hr : StRel A s sS)
    (ps qubits : List String) (c : GCall V) (hc : CleanBodyCall A ps c) (gs : SDef V)
    (loc : List Nat) (qs : List (QE V)) (h : elabBodyCallS sS qubits c = some (.mk gs loc qs)) :
    ∃ g pes, elabBodyCall A s ps qubits c = some (.mk g loc pes) ∧ DefRel A g gs ∧
      PExpsRel A ps pes qs ∧ gs.arityOk qs.length := by
  cases c with
  | gate name params args =>
    obtain ⟨pes, hpes, hrel, hlen⟩ := bodyPExps_agree A ps params hc
    simp only [elabBodyCallS] at h
    split at h
    · simp at h
    · rename_i hany
      split at h
      · rename_i loc' hloc
        split at h
        · rename_i gs' hgs
          split at h
          · rename_i harity
            simp only [Option.some.injEq, SBody.mk.injEq] at h
            obtain ⟨rfl, rfl, rfl⟩ := h
            obtain ⟨g, hg, hdef⟩ := lookup_agree A hr name gs' hgs
            obtain ⟨hnp, hnv⟩ := defRel_arity A g gs' hdef
            simp only [Bool.and_eq_true, beq_iff_eq] at harity
            refine ⟨g, pes, ?_, hdef, hrel, arityOk_of_np gs' _ harity.1⟩
            simp only [elabBodyCall, hpes, hany, hloc, hg, hlen, hnp, hnv, harity.1, harity.2,
              beq_self_eq_true, Bool.and_self, if_true, Bool.false_eq_true, if_false]
          · simp at h
        · simp at h
      · simp at h
  | u params a =>
    obtain ⟨pes, hpes, hrel, hlen⟩ := bodyPExps_agree A ps params hc
    simp only [elabBodyCallS] at h
    split at h
    · rename_i q b hq hb
      simp only [Option.some.injEq, SBody.mk.injEq] at h
      obtain ⟨rfl, rfl, rfl⟩ := h
      refine ⟨.builtin b, pes, ?_, by simp [DefRel], hrel, trivial⟩
      simp only [elabBodyCall, hpes, hq, hr.table, hb]
    · simp at h
  | cx a b =>
    simp only [elabBodyCallS] at h
    split at h
    · rename_i x y d hx hy hd
      split at h
      · simp at h
      · rename_i hxy
        simp only [Option.some.injEq, SBody.mk.injEq] at h
        obtain ⟨rfl, rfl, rfl⟩ := h
        refine ⟨.builtin d, [], ?_, by simp [DefRel], trivial, trivial⟩
        simp only [elabBodyCall, hx, hy, hr.table, hd, hxy, Bool.false_eq_true, if_false]
    · simp at h

theorem body_elab_agree (A : Arith V) {s : St V} {sS : SSt V} (hr : StRel A s sS)
    (ps qubits : List String) :
    ∀ (body : List (BStmt V)) (bS : List (SBody V)), (∀ b ∈ body, CleanBStmt A ps b) →
      elabBodyS sS qubits body = some bS →
      ∃ b, elabBody A s ps qubits body = some b ∧ BodyRel A ps b bS
  | [], bS, _, h => by
    simp only [elabBodyS, Option.some.injEq] at h
    subst h
    exact ⟨[], rfl, by simp [BodyRel]⟩
  | .barrier :: rest, bS, hc, h => by
    simp only [elabBodyS] at h
    obtain ⟨b, hb, hrel⟩ := body_elab_agree A hr ps qubits rest bS
      (fun b hb => hc b (by simp [hb])) h
    exact ⟨b, by simp [elabBody, hb], hrel⟩
  | .call c :: rest, bS, hc, h => by
    simp only [elabBodyS] at h
    split at h
    · rename_i sb hsb
      simp only [Option.map_eq_some_iff] at h
      obtain ⟨restS, hrestS, rfl⟩ := h
      obtain ⟨gs, loc, qs⟩ := sb
      obtain ⟨g, pes, hg, hdef, hpes, har⟩ :=
        bodyCall_agree A hr ps qubits c (hc (.call c) (by simp)) gs loc qs hsb
      obtain ⟨b, hb, hrel⟩ := body_elab_agree A hr ps qubits rest restS
        (fun b hb => hc b (by simp [hb])) hrestS
      refine ⟨.mk g loc pes :: b, by simp [elabBody, hg, hb], ?_⟩
      simp only [BodyRel]
      exact ⟨gs, qs, restS, rfl, hdef, hpes, har, hrel⟩
    · simp at h

/-! ## statements -/

/-- the statements the reader reads correctly, in the state `sS` reached so far -/
def CleanStmt (A : Arith V) (sS : SSt V) : Stmt V → Prop
  | .gatedecl _ ps _ body => ∀ b ∈ body, CleanBStmt A ps b
  | .call c => CleanCall A sS c
  | .measure q _ => q.idx = none ∨ firstIndex sS.qregs q.name = some 0
  | .reset q => q.idx.isSome = true ∨ ∃ sz rest, sS.qregs = (q.name, sz) :: rest
  | .barrier as => leadBareOk as
  | _ => True

theorem regIndices_getD {rs : Regs} {n : String} {l : List Nat} {o sz : Nat}
    (ho : firstIndex rs n = some o) (hs : regSize rs n = some sz) (h : regIndices rs n = some l) :
    (List.range sz).map (fun i => (l.getD i 0)) = (List.range sz).map (fun i => o + i) := by
  simp only [regIndices, ho, hs, Option.some.injEq] at h
  subst h
  apply List.map_congr_left
  intro i hi
  simp only [List.mem_range] at hi
  simp [List.getD, hi, Nat.add_comm]

theorem measure_agree {A : Arith V} {s : St V} {sS : SSt V} (hr : StRel A s sS) (q c : Arg)
    (hc : q.idx = none ∨ firstIndex sS.qregs q.name = some 0) (op : Op V)
    (h : elabMeasureS sS q c = some op) : elabMeasure s q c = some op := by
  unfold elabMeasureS at h
  unfold elabMeasure
  rw [hr.qregs, hr.cregs]
  split at h
  · simp at h
  · rename_i loc hloc
    rw [argIndicesS_imp hloc]
    simp only
    split at h
    · rename_i qsz csz hqs hcs
      simp only [hqs, hcs]
      cases hi : q.idx with
      | none =>
        cases hj : c.idx with
        | none =>
          simp only [hi, hj] at h ⊢
          split at h
          · simp at h
          · rename_i hne
            simp only [hne, Bool.false_eq_true, if_false]
            simp only [Option.some.injEq] at h
            subst h
            have hreg : regIndices sS.qregs q.name = some loc := by
              simpa [argIndicesS, hi] using hloc
            obtain ⟨o, sz, ho, hs, _⟩ := regIndices_eq hreg
            rw [hqs] at hs
            simp only [Option.some.injEq] at hs
            subst hs
            simp only [ho, Option.map_some, Option.some.injEq, Op.measure.injEq, true_and]
            have := regIndices_getD ho hqs hreg
            apply List.ext_getElem
            · simp
            · intro i h1 h2
              simp only [List.length_map, List.length_range] at h1
              have hm := congrArg (fun l => l[i]?) this
              simp only [List.getElem?_map, List.getElem?_range h1, Option.map_some,
                Option.some.injEq] at hm
              simpa [List.getD] using hm.symm
        | some j => simp [hi, hj] at h
      | some i =>
        cases hj : c.idx with
        | none => simp [hi, hj] at h
        | some j =>
          simp only [hi, hj, Option.some.injEq] at h ⊢
          subst h
          rcases hc with hc | hc
          · rw [hi] at hc; simp at hc
          · obtain ⟨o, ho, rfl⟩ := argIndicesS_idx hi hloc
            rw [hc] at ho
            simp only [Option.some.injEq] at ho
            subst ho
            simp
    · simp at h

theorem reset_agree {A : Arith V} {s : St V} {sS : SSt V} (hr : StRel A s sS) (q : Arg)
    (hc : q.idx.isSome = true ∨ ∃ sz rest, sS.qregs = (q.name, sz) :: rest) (l : List (Op V))
    (h : elabResetS sS q = some l) : elabReset s q = some l := by
  unfold elabResetS at h
  simp only [Option.map_eq_some_iff] at h
  obtain ⟨loc, hloc, rfl⟩ := h
  unfold elabReset
  rw [hr.qregs]
  cases hi : q.idx with
  | some i => simp [argIndicesS_imp hloc]
  | none =>
    rcases hc with hc | ⟨sz, rest, hq⟩
    · simp [hi] at hc
    · simp only [hq]
      have hreg : regIndices sS.qregs q.name = some loc := by
        simpa [argIndicesS, hi] using hloc
      simp only [hq, regIndices, firstIndex, regSize, if_true, Option.some.injEq] at hreg
      subst hreg
      simp

/-- one statement: if the reference elaboration accepts it and it is clean, the reader accepts
it too and reaches the corresponding state -/
theorem stmt_agree (A : Arith V) {s : St V} {sS sS' : SSt V} (hr : StRel A s sS) (st : Stmt V)
    (hc : CleanStmt A sS st) (h : elabStmtS A sS st = some sS') :
    ∃ s', elabStmt A s st = some s' ∧ StRel A s' sS' := by
  cases st with
  | incl f =>
    simp only [elabStmtS, Option.some.injEq] at h; subst h
    exact ⟨s, rfl, hr⟩
  | opaqueDecl =>
    simp only [elabStmtS, Option.some.injEq] at h; subst h
    exact ⟨s, rfl, hr⟩
  | qreg n k =>
    simp only [elabStmtS] at h
    split at h
    · simp at h
    · rename_i hany
      simp only [Option.some.injEq] at h; subst h
      refine ⟨{ s with qregs := s.qregs ++ [(n, k)] }, ?_, ?_⟩
      · simp only [elabStmt, hr.qregs, hany, Bool.false_eq_true, if_false]
      · exact ⟨hr.table, by simp [hr.qregs], hr.cregs, hr.ops, hr.customs⟩
  | creg n k =>
    simp only [elabStmtS] at h
    split at h
    · simp at h
    · rename_i hany
      simp only [Option.some.injEq] at h; subst h
      refine ⟨{ s with cregs := s.cregs ++ [(n, k)] }, ?_, ?_⟩
      · simp only [elabStmt, hr.cregs, hany, Bool.false_eq_true, if_false]
      · exact ⟨hr.table, hr.qregs, by simp [hr.cregs], hr.ops, hr.customs⟩
  | gatedecl name ps qs body =>
    simp only [elabStmtS, Option.map_eq_some_iff] at h
    obtain ⟨bS, hbS, rfl⟩ := h
    obtain ⟨b, hb, hrel⟩ := body_elab_agree A hr ps qs body bS hc hbS
    refine ⟨{ s with customs := (name, .custom name ps.length qs.length b) :: s.customs }, ?_, ?_⟩
    · simp only [elabStmt, hb, Option.map_some]
    · refine ⟨hr.table, hr.qregs, hr.cregs, hr.ops, ?_⟩
      simp only [CustRel]
      exact ⟨trivial, by simp only [DefRel]; exact ⟨ps, bS, rfl, rfl, hrel⟩, hr.customs⟩
  | call c =>
    simp only [elabStmtS, Option.map_eq_some_iff] at h
    obtain ⟨op, hop, rfl⟩ := h
    have := call_agree A hr c hc op hop
    refine ⟨{ s with ops := op :: s.ops }, by simp [elabStmt, this], ?_⟩
    exact ⟨hr.table, hr.qregs, hr.cregs, by simp [hr.ops], hr.customs⟩
  | measure q c =>
    simp only [elabStmtS, Option.map_eq_some_iff] at h
    obtain ⟨op, hop, rfl⟩ := h
    have := measure_agree hr q c hc op hop
    refine ⟨{ s with ops := op :: s.ops }, by simp [elabStmt, this], ?_⟩
    exact ⟨hr.table, hr.qregs, hr.cregs, by simp [hr.ops], hr.customs⟩
  | reset q =>
    simp only [elabStmtS, Option.map_eq_some_iff] at h
    obtain ⟨l, hl, rfl⟩ := h
    have := reset_agree hr q hc l hl
    refine ⟨{ s with ops := l.reverse ++ s.ops }, by simp [elabStmt, this], ?_⟩
    exact ⟨hr.table, hr.qregs, hr.cregs, by simp [hr.ops], hr.customs⟩
  | barrier as =>
    simp only [elabStmtS] at h
    split at h
    · rename_i loc hloc
      split at h
      · rename_i hnd
        simp only [Option.some.injEq] at h; subst h
        have := anylistS_imp hloc hc
        refine ⟨{ s with ops := .barrier loc :: s.ops }, ?_, ?_⟩
        · simp only [elabStmt, hr.qregs, this, hnd, if_true]
        · exact ⟨hr.table, hr.qregs, hr.cregs, by simp [hr.ops], hr.customs⟩
      · simp at h
    · simp at h

/-! ## programs -/

/-- every statement is clean in the state the reference elaboration has reached -/
inductive CleanRun (A : Arith V) : SSt V → List (Stmt V) → Prop where
  | nil (sS : SSt V) : CleanRun A sS []
  | cons {sS sS' : SSt V} {st : Stmt V} {rest : List (Stmt V)} :
      CleanStmt A sS st → elabStmtS A sS st = some sS' → CleanRun A sS' rest →
      CleanRun A sS (st :: rest)

theorem stmts_agree (A : Arith V) {sS : SSt V} {ss : List (Stmt V)} (hc : CleanRun A sS ss) :
    ∀ (s : St V) (sS' : SSt V), StRel A s sS → elabStmtsS A sS ss = some sS' →
      ∃ s', elabStmts A s ss = some s' ∧ StRel A s' sS' := by
  induction hc with
  | nil sS =>
    intro s sS' hr h
    simp only [elabStmtsS, Option.some.injEq] at h
    subst h
    exact ⟨s, rfl, hr⟩
  | @cons sS sS1 st rest hst hstep _ ih =>
    intro s sS' hr h
    simp only [elabStmtsS, hstep, Option.bind_some] at h
    obtain ⟨s1, hs1, hr1⟩ := stmt_agree A hr st hst hstep
    obtain ⟨s', hs', hr'⟩ := ih s1 sS' hr1 h
    exact ⟨s', by simp [elabStmts, hs1, hs'], hr'⟩

theorem finish_agree (A : Arith V) {s : St V} {sS : SSt V} (hr : StRel A s sS) :
    finish s = finishS sS := by
  simp only [finish, finishS, hr.qregs, hr.cregs, hr.ops]

/-- a program (token string) all of whose statements are clean -/
def CleanProgram (A : Arith V) (table : List BuiltinDef) (ts : List Tok) : Prop :=
  ∃ ss, parseProgram ts = some ss ∧ CleanRun A ({ table := table } : SSt V) ss

/-- **on a clean program the reader computes the reference elaboration** -/
theorem decode_clean (A : Arith V) (table : List BuiltinDef) (ts : List Tok) (d : Decoded V)
    (hc : CleanProgram A table ts) (h : specDecodeToks A table ts = some d) :
    decodeToks A table ts = some d := by
  obtain ⟨ss, hss, hrun⟩ := hc
  unfold specDecodeToks at h
  split at h
  · simp at h
  · simp only [hss, Option.bind_some, Option.bind_eq_some_iff] at h
    obtain ⟨sS', hsS', hfin⟩ := h
    have hr0 : StRel A ({ table := table } : St V) ({ table := table } : SSt V) :=
      ⟨rfl, rfl, rfl, rfl, trivial⟩
    obtain ⟨s', hs', hr'⟩ := stmts_agree A hrun _ sS' hr0 hsS'
    simp only [decodeToks, hss, Option.bind_some, hs', finish_agree A hr', hfin]

end BqVerif.Qasm
