import BqVerif.Proofs.ServerIso
/-! C13: reachable states and whole request histories. -/
namespace BqVerif.Server

/-- states the server can reach by well-formed events -/
inductive Reach : Srv → Prop
  | init : Reach init
  | step {s s' : Srv} {e : Ev} : Reach s → wf s e = true → step s e = .ok s' → Reach s'

/-- every event of the history is well-formed when it happens (decidable, executable) -/
def wfHist : Srv → List Ev → Bool
  | _, [] => true
  | s, e :: es => wf s e && (match step s e with | .ok s' => wfHist s' es | .error _ => true)

/-- run a history on the tables; the client-visible replies of each step -/
def runHist : Srv → List Ev → Except Err (Srv × List (List Reply))
  | s, [] => .ok (s, [])
  | s, e :: es =>
    match step s e with
    | .error x => .error x
    | .ok s' =>
      match runHist s' es with
      | .error x => .error x
      | .ok (s'', rs) => .ok (s'', clientReplies s'.out :: rs)

/-- the client-visible replies of a history from the initial state (`none`: KeyError) -/
def histReplies (es : List Ev) : Option (List (List Reply)) :=
  match runHist init es with
  | .ok (_, rs) => some rs
  | .error _ => none

/-- the automaton's replies along the same history (mailbox ids are translated to task ids
with the server's `mailbox_to_task_dict` of the moment, see `absEv`) -/
def specHist : Abs → Srv → List Ev → List (List Reply)
  | _, _, [] => []
  | a, s, e :: es =>
    let (a', r) := spec a (absEv s e)
    match step s e with
    | .ok s' => r :: specHist a' s' es
    | .error _ => [r]

theorem Reach.inv {s : Srv} (h : Reach s) : Inv s := by
  induction h with
  | init => exact inv_init
  | step _ hw hs ih =>
    obtain ⟨s'', e1, i⟩ := step_ok_inv ih _ hw
    rw [hs] at e1; cases e1; exact i

theorem Reach.exists_abs {s : Srv} (h : Reach s) : ∃ a, R s a := by
  induction h with
  | init => exact ⟨absInit, R_init⟩
  | step hr hw hs ih =>
    obtain ⟨a, r⟩ := ih
    exact ⟨_, (sim_step hr.inv r _ hw hs).1⟩

theorem hist_refines : ∀ (es : List Ev) (s : Srv) (a : Abs), Inv s → R s a → wfHist s es = true →
    ∃ s', runHist s es = .ok (s', specHist a s es) ∧ Inv s' ∧ (Reach s → Reach s') := by
  intro es
  induction es with
  | nil => intro s a h _ _; exact ⟨s, rfl, h, id⟩
  | cons e es ih =>
    intro s a h r hw
    simp only [wfHist, Bool.and_eq_true] at hw
    obtain ⟨s1, e1, i1⟩ := step_ok_inv h e hw.1
    have hw2 : wfHist s1 es = true := by simpa [e1] using hw.2
    obtain ⟨r1, rep⟩ := sim_step h r e hw.1 e1
    obtain ⟨s2, x1, x2, x3⟩ := ih s1 _ i1 r1 hw2
    refine ⟨s2, ?_, x2, fun hr => x3 (Reach.step hr hw.1 e1)⟩
    simp only [runHist, specHist, e1, x1, rep]

end BqVerif.Server
