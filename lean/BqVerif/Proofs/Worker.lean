import BqVerif.Model.Mailbox
/-! Worker-local invariants: dropped mailboxes never come back (ids are fresh), the cancelled
    set only grows, `_get_next_ready_task` never hands out a task of a cancelled lineage. -/
namespace BqVerif.Runtime

def keys (bs : List (Nat × Box)) : List Nat := bs.map (·.1)

theorem boxGet_isSome_iff (bs : List (Nat × Box)) (m : Nat) : (boxGet bs m).isSome ↔ m ∈ keys bs := by
  induction bs with
  | nil => simp [boxGet, keys]
  | cons p t ih =>
    obtain ⟨k, b⟩ := p
    simp only [boxGet, keys, List.map_cons, List.mem_cons]
    by_cases h : k = m
    · simp [h]
    · simp only [h, if_false]
      rw [ih]
      constructor
      · intro hm; exact Or.inr hm
      · rintro (hm | hm)
        · exact absurd hm.symm h
        · exact hm

theorem boxGet_none_iff (bs : List (Nat × Box)) (m : Nat) : boxGet bs m = none ↔ m ∉ keys bs := by
  rw [← boxGet_isSome_iff]; cases boxGet bs m <;> simp

theorem keys_boxSet_of_some (bs : List (Nat × Box)) (m : Nat) (b b0 : Box)
    (h : boxGet bs m = some b0) : keys (boxSet bs m b) = keys bs := by
  induction bs with
  | nil => simp [boxGet] at h
  | cons p t ih =>
    obtain ⟨k, x⟩ := p
    simp only [boxGet] at h
    by_cases hk : k = m
    · simp [boxSet, hk, keys]
    · simp only [hk, if_false] at h
      simp only [boxSet, hk, if_false, keys, List.map_cons, List.cons.injEq, true_and]
      exact ih h

theorem mem_keys_boxErase (bs : List (Nat × Box)) (m k : Nat) (h : k ∈ keys (boxErase bs m)) :
    k ∈ keys bs ∧ k ≠ m := by
  simp only [keys, boxErase, List.mem_map, List.mem_filter] at h
  obtain ⟨p, ⟨hp, hne⟩, rfl⟩ := h
  exact ⟨List.mem_map.mpr ⟨p, hp, rfl⟩, by simpa using hne⟩

theorem mem_keys_eraseBoxes (bs : List (Nat × Box)) (ms : List Nat) (k : Nat)
    (h : k ∈ keys (eraseBoxes bs ms)) : k ∈ keys bs := by
  simp only [keys, eraseBoxes, List.mem_map, List.mem_filter] at h
  obtain ⟨p, ⟨hp, _⟩, rfl⟩ := h
  exact List.mem_map.mpr ⟨p, hp, rfl⟩

/-- mailbox ids only ever appear at the counter; the cancelled set only grows -/
structure Mono (w w' : Worker) : Prop where
  ctr : w.counter ≤ w'.counter
  box : ∀ k ∈ keys w'.boxes, k ∈ keys w.boxes ∨ (w.counter ≤ k ∧ k < w'.counter)
  canc : ∀ a ∈ w.cancelled, a ∈ w'.cancelled
  id : w'.id = w.id

theorem Mono.refl (w : Worker) : Mono w w := ⟨Nat.le_refl _, fun _ h => Or.inl h, fun _ h => h, rfl⟩

theorem Mono.trans {a b c : Worker} (h1 : Mono a b) (h2 : Mono b c) : Mono a c := by
  refine ⟨Nat.le_trans h1.ctr h2.ctr, ?_, fun x hx => h2.canc x (h1.canc x hx), by rw [h2.id, h1.id]⟩
  intro k hk
  rcases h2.box k hk with h | ⟨h, h'⟩
  · rcases h1.box k h with h | ⟨h, h''⟩
    · exact Or.inl h
    · exact Or.inr ⟨h, Nat.lt_of_lt_of_le h'' h2.ctr⟩
  · exact Or.inr ⟨Nat.le_trans h1.ctr h, h'⟩

/-- a state change that leaves counter, mailbox keys (or shrinks them), cancelled set (or grows it) -/
theorem Mono.of_eq {w w' : Worker} (hc : w'.counter = w.counter)
    (hb : ∀ k ∈ keys w'.boxes, k ∈ keys w.boxes) (hcn : ∀ a ∈ w.cancelled, a ∈ w'.cancelled)
    (hid : w'.id = w.id) : Mono w w' :=
  ⟨by omega, fun k hk => Or.inl (hb k hk), hcn, hid⟩

theorem addTask_mono (w : Worker) (t : Task) : Mono w (w.addTask t) :=
  Mono.of_eq rfl (fun _ h => h) (fun _ h => h) rfl

theorem handleResult_mono (w : Worker) (a : Addr) (v : Val) : Mono w (w.handleResult a v) := by
  unfold Worker.handleResult
  split
  · exact Mono.of_eq rfl (fun _ h => h) (fun _ h => h) rfl
  · split
    · exact Mono.refl w
    · rename_i b hb
      have hk : ∀ b', keys (boxSet w.boxes a.m b') = keys w.boxes :=
        fun b' => keys_boxSet_of_some _ _ _ _ hb
      dsimp only
      split
      · exact Mono.of_eq rfl (by simp [hk]) (fun _ h => h) rfl
      · split
        · exact Mono.of_eq rfl (by simp [hk]) (fun _ h => h) rfl
        · split
          · exact Mono.of_eq rfl (by simp [hk]) (fun _ h => h) rfl
          · exact Mono.of_eq rfl (by simp [hk]) (fun _ h => h) rfl

theorem handleCancel_mono (w : Worker) (a : Addr) : Mono w (w.handleCancel a) := by
  refine Mono.of_eq rfl ?_ ?_ rfl
  · intro k hk; exact mem_keys_eraseBoxes _ _ _ hk
  · intro x hx
    simp only [Worker.handleCancel]
    split
    · exact hx
    · exact List.mem_append_left _ hx

theorem handleCancel_mem (w : Worker) (a : Addr) : a ∈ (w.handleCancel a).cancelled := by
  simp only [Worker.handleCancel]
  split
  · rename_i h; simpa using h
  · simp

theorem recv_mono (w : Worker) (m : Msg) : Mono w (w.recv m) := by
  cases m <;> simp only [Worker.recv] <;> try exact Mono.refl w
  · exact Mono.of_eq rfl (fun _ h => h) (fun _ h => h) rfl
  · split
    · exact Mono.of_eq rfl (fun _ h => h) (fun _ h => h) rfl
    · exact Mono.of_eq rfl (fun _ h => h) (fun _ h => h) rfl
  · exact handleResult_mono w _ _
  · split
    · exact (handleCancel_mono w _).trans (Mono.of_eq rfl (fun _ h => h) (fun _ h => h) rfl)
    · exact handleCancel_mono w _
  · exact Mono.of_eq rfl (fun _ h => h) (fun _ h => h) rfl
  · exact Mono.of_eq rfl (fun _ h => h) (fun _ h => h) rfl

theorem pick_mono (fuel : Nat) (w : Worker) : Mono w (Worker.pick fuel w).w := by
  induction fuel generalizing w with
  | zero => exact Mono.refl w
  | succ n ih =>
    simp only [Worker.pick]
    split
    · split
      · refine Mono.trans ?_ (ih _)
        exact Mono.of_eq rfl (fun _ h => h) (fun _ h => h) rfl
      · exact Mono.of_eq rfl (fun _ h => h) (fun _ h => h) rfl
    · rename_i a rest _
      have h0 : Mono w { w with ready := rest } := Mono.of_eq rfl (fun _ h => h) (fun _ h => h) rfl
      split
      · exact h0.trans (ih _)
      · split
        · exact h0.trans (ih _)
        · split
          · refine (h0.trans ?_).trans (ih _)
            exact Mono.of_eq rfl (fun _ h => h) (fun _ h => h) rfl
          · exact h0

/-- the cancelled set is not touched by `_get_next_ready_task` -/
theorem pick_cancelled (fuel : Nat) (w : Worker) : (Worker.pick fuel w).w.cancelled = w.cancelled := by
  induction fuel generalizing w with
  | zero => rfl
  | succ n ih =>
    simp only [Worker.pick]
    split
    · split
      · rw [ih]; rfl
      · rfl
    · split
      · rw [ih]
      · split
        · rw [ih]
        · split
          · rw [ih]
          · rfl

/-- **`_get_next_ready_task` never returns a task of a cancelled lineage** -/
theorem pick_not_cancelled (fuel : Nat) (w : Worker) (t : Task)
    (h : (Worker.pick fuel w).task = some t) : ∀ a ∈ w.cancelled, t.descOf a = false := by
  induction fuel generalizing w with
  | zero => simp [Worker.pick] at h
  | succ n ih =>
    simp only [Worker.pick] at h
    split at h
    · split at h
      · have h2 := ih _ h; exact h2
      · simp at h
    · rename_i a rest hr
      split at h
      · have h2 := ih _ h; exact h2
      · rename_i hnc
        split at h
        · have h2 := ih _ h; exact h2
        · rename_i t' ht'
          split at h
          · have h2 := ih _ h; exact h2
          · rename_i hcr
            simp only [Option.some.injEq] at h
            subst h
            intro x hx
            have haddr : t'.addr = a := by
              have := List.find?_some ht'
              simpa using this
            simp only [Task.descOf, Bool.or_eq_false_iff]
            constructor
            · simp only [beq_eq_false_iff_ne, ne_eq]
              intro hxa
              rw [haddr] at hxa
              subst hxa
              simp only [List.contains_iff_mem] at hnc
              exact hnc hx
            · simp only [Bool.not_eq_true, List.any_eq_false] at hcr
              rw [Bool.eq_false_iff]
              intro hc
              have hxm : x ∈ t'.crumbs := by simpa using hc
              have h3 := hcr x hxm
              have h4 : w.cancelled.contains x = true := List.contains_iff_mem.mpr hx
              rw [h4] at h3
              exact Bool.noConfusion h3


-- ------------------------------------------------------------- main thread
theorem desiredResult_mono (w w' : Worker) (t t' : Task) (v : Option Val)
    (h : desiredResult w t = .ok (w', t', v)) : Mono w w' := by
  unfold desiredResult at h
  split at h
  · simp only [Except.ok.injEq, Prod.mk.injEq] at h; rw [← h.1]; exact Mono.refl w
  · split at h
    · simp at h
    · rename_i m b hb
      split at h
      · split at h
        · simp at h
        · simp only [Except.ok.injEq, Prod.mk.injEq] at h
          rw [← h.1]
          exact Mono.of_eq rfl (by simp [keys_boxSet_of_some _ _ _ _ hb]) (fun _ h => h) rfl
      · split at h
        · simp at h
        · split at h
          · simp at h
          · simp only [Except.ok.injEq, Prod.mk.injEq] at h
            rw [← h.1]
            exact Mono.of_eq rfl (fun k hk => (mem_keys_boxErase _ _ _ hk).1) (fun _ h => h) rfl

theorem cancelBox_mono (r : Run) (m : Nat) (b : Box) : Mono r.w (r.cancelBox m b).w :=
  Mono.of_eq rfl (fun _ hk => (mem_keys_boxErase _ _ _ hk).1) (fun _ h => h) rfl

theorem keys_append (bs : List (Nat × Box)) (m : Nat) (b : Box) :
    keys (bs ++ [(m, b)]) = keys bs ++ [m] := by simp [keys]

theorem newBox_mono (w : Worker) (b : Box) :
    Mono w { w with counter := w.counter + 1, boxes := w.boxes ++ [(w.counter, b)] } := by
  refine ⟨Nat.le_succ _, ?_, fun _ h => h, rfl⟩
  intro k hk
  simp only [keys_append, List.mem_append, List.mem_singleton] at hk
  rcases hk with hk | rfl
  · exact Or.inl hk
  · exact Or.inr ⟨Nat.le_refl _, Nat.lt_succ_self _⟩

theorem runBody_mono' (tbl : Table) (fuel : Nat) (r : Run) (w0 : Worker) (h : Mono w0 r.w) :
    Mono w0 (runBody tbl fuel r).1.w := by
  induction fuel generalizing r with
  | zero => exact h
  | succ n ih =>
    simp only [runBody]
    split
    · apply ih; exact h.trans (newBox_mono r.w _)
    · split
      · exact h
      · apply ih; exact h.trans (newBox_mono r.w _)
    · split
      · exact h
      · exact h
    · split
      · exact h
      · split
        · exact h
        · exact h
    · split
      · exact h
      · split
        · exact h
        · split
          · exact h
          · apply ih
            exact h.trans (Mono.of_eq rfl (fun _ hk => (mem_keys_boxErase _ _ _ hk).1)
              (fun _ h => h) rfl)
    · exact h
    · exact h

theorem runBody_mono (tbl : Table) (fuel : Nat) (r : Run) : Mono r.w (runBody tbl fuel r).1.w :=
  runBody_mono' tbl fuel r r.w (Mono.refl _)

theorem processAwait_mono (r r' : Run) (m : Nat) (nxt : Bool) (h : processAwait r m nxt = some r') :
    Mono r.w r'.w := by
  unfold processAwait at h
  split at h
  · simp at h
  · rename_i b hb
    simp only [Option.some.injEq] at h
    rw [← h]
    dsimp only
    split
    · exact Mono.of_eq rfl (by simp [keys_boxSet_of_some _ _ _ _ hb]) (fun _ h => h) rfl
    · exact Mono.of_eq rfl (by simp [keys_boxSet_of_some _ _ _ _ hb]) (fun _ h => h) rfl

theorem completionLoop_mono (ms : List Nat) (r : Run) : Mono r.w (completionLoop ms r).1.w := by
  induction ms generalizing r with
  | nil => exact Mono.refl _
  | cons m ms ih =>
    simp only [completionLoop]
    split
    · split
      · refine Mono.trans ?_ (ih _)
        exact Mono.of_eq rfl (fun _ hk => (mem_keys_boxErase _ _ _ hk).1) (fun _ h => h) rfl
      · exact (cancelBox_mono _ _ _).trans (ih _)
    · exact Mono.refl _

theorem completionEnter_mono (r : Run) (v : Val) : Mono r.w (completionEnter r v).w := by
  unfold completionEnter
  split
  · exact (handleResult_mono r.w _ _).trans (Mono.of_eq rfl (fun _ h => h) (fun _ h => h) rfl)
  · exact Mono.of_eq rfl (fun _ h => h) (fun _ h => h) rfl

theorem processCompletion_mono (r : Run) (v : Val) : Mono r.w (processCompletion r v).1.w := by
  unfold processCompletion
  split
  · exact Mono.refl _
  · exact (completionEnter_mono r v).trans (completionLoop_mono _ _)

theorem bubbleErr_mono (w : Worker) (t : Task) (out : List Msg) (evs : List Ev) (cls : Nat)
    (isRt : Bool) : Mono w (bubbleErr w t out evs cls isRt).w := by
  unfold bubbleErr
  dsimp only
  split <;> exact Mono.of_eq rfl (fun _ h => h) (fun _ h => h) rfl

theorem finishStep_mono (r : Run) (oc : Outcome) : Mono r.w (finishStep r oc).w := by
  cases oc with
  | awaitF m nxt =>
    simp only [finishStep]
    split
    · rename_i r1 hpa
      exact (processAwait_mono _ _ _ _ hpa).trans
        (Mono.of_eq rfl (fun _ h => h) (fun _ h => h) rfl)
    · split <;> exact Mono.of_eq rfl (fun _ h => h) (fun _ h => h) rfl
  | done v =>
    simp only [finishStep]
    split
    · exact (processCompletion_mono r v).trans (Mono.of_eq rfl (fun _ h => h) (fun _ h => h) rfl)
    · exact processCompletion_mono r v
  | err cls isRt => exact bubbleErr_mono _ _ _ _ _ _

theorem stepTask_mono (tbl : Table) (w : Worker) (out : List Msg) (t0 : Task) :
    Mono w (stepTask tbl w out t0).w := by
  unfold stepTask
  split
  · exact Mono.refl _
  · rename_i w1 t1 val hd
    have h1 := desiredResult_mono _ _ _ _ _ hd
    split
    · exact h1.trans (bubbleErr_mono _ _ _ _ _ _)
    · dsimp only
      refine h1.trans (Mono.trans ?_ (finishStep_mono _ _))
      exact runBody_mono tbl _ ⟨w1, _, _, _⟩

theorem step_mono (tbl : Table) (w : Worker) : Mono w (w.step tbl).w := by
  unfold Worker.step
  have h0 : Mono w { w with blocked := false } := Mono.of_eq rfl (fun _ h => h) (fun _ h => h) rfl
  have hp := pick_mono w.pickFuel { w with blocked := false }
  dsimp only
  split
  · exact h0.trans hp
  · exact (h0.trans hp).trans (stepTask_mono _ _ _ _)

/-- the task whose body `Worker.step` runs (if any) -/
def Worker.stepped (w : Worker) : Option Task :=
  (Worker.pick w.pickFuel { w with blocked := false }).task

theorem stepped_not_cancelled (w : Worker) (t : Task) (h : w.stepped = some t) :
    ∀ a ∈ w.cancelled, t.descOf a = false :=
  pick_not_cancelled w.pickFuel { w with blocked := false } t h

-- ------------------------------------------------ dropped mailboxes stay dropped
def Fresh (w : Worker) : Prop := ∀ k ∈ keys w.boxes, k < w.counter

/-- mailbox `m` was created on this worker and has been dropped -/
def Gone (w : Worker) (m : Nat) : Prop := m < w.counter ∧ boxGet w.boxes m = none

theorem Mono.fresh {w w' : Worker} (h : Mono w w') (hf : Fresh w) : Fresh w' := by
  intro k hk
  rcases h.box k hk with hk' | ⟨_, hk'⟩
  · exact Nat.lt_of_lt_of_le (hf k hk') h.ctr
  · exact hk'

theorem Mono.gone {w w' : Worker} (h : Mono w w') (m : Nat) (hg : Gone w m) : Gone w' m := by
  refine ⟨Nat.lt_of_lt_of_le hg.1 h.ctr, ?_⟩
  rw [boxGet_none_iff]
  intro hk
  rcases h.box m hk with hk' | ⟨hk', _⟩
  · exact (boxGet_none_iff _ _).mp hg.2 hk'
  · exact absurd hg.1 (Nat.not_lt.mpr hk')

theorem boxGet_boxErase_self (bs : List (Nat × Box)) (m : Nat) : boxGet (boxErase bs m) m = none := by
  rw [boxGet_none_iff]
  intro hk
  exact (mem_keys_boxErase _ _ _ hk).2 rfl

/-- `Worker.cancel(future)` makes the mailbox `Gone` -/
theorem cancelBox_gone (r : Run) (m : Nat) (b : Box) (hf : Fresh r.w) (hb : boxGet r.w.boxes m = some b) :
    Gone (r.cancelBox m b).w m := by
  refine ⟨?_, boxGet_boxErase_self _ _⟩
  have : m ∈ keys r.w.boxes := (boxGet_isSome_iff _ _).mp (by rw [hb]; rfl)
  exact hf m this

-- ------------------------------------------------------- worker op sequences
/-- operations of one worker: an incoming message, or one iteration of its main loop -/
inductive WOp where
  | recv (m : Msg)
  | step

def Worker.applyOp (tbl : Table) (w : Worker) : WOp → Worker
  | .recv m => w.recv m
  | .step => (w.step tbl).w

theorem applyOp_mono (tbl : Table) (w : Worker) (op : WOp) : Mono w (w.applyOp tbl op) := by
  cases op with
  | recv m => exact recv_mono w m
  | step => exact step_mono tbl w

theorem run_mono (tbl : Table) (w : Worker) (ops : List WOp) :
    Mono w (ops.foldl (Worker.applyOp tbl) w) := by
  induction ops generalizing w with
  | nil => exact Mono.refl w
  | cons op ops ih => exact (applyOp_mono tbl w op).trans (ih _)

end BqVerif.Runtime
