import BqVerif.Model.QasmSpec
import BqVerif.Proofs.QasmSubst
import BqVerif.Proofs.QasmSource
import BqVerif.Proofs.QasmRegs
/-! # The reader computes the reference elaboration

`QasmSpec` says what a program means.  This file proves that the reader (`QasmElab`) computes
exactly that for EVERY program that has a meaning — any nesting depth of user gates, any
number of registers, any gate table.  The reader stores gate bodies differently (formals
replaced by `PARAM_IDX`, constant expressions evaluated when the gate is defined, actual values
spliced into the text as `(v)`); `DefRel`/`BodyRel` relate the two representations and
`build_agree` shows that instantiation gives the same operations. -/
namespace BqVerif.Qasm

variable {V : Type}

/-! ## expressions -/

/-- a closed expression: the reader's value is the value -/
theorem value_closed (A : Arith V) (q : QE V) : exprValue A noEnv q = evalQ A q := by
  unfold exprValue evalQ
  cases pyParse (flatten q) with
  | none => rfl
  | some e => simp [evalEnvSpec_noEnv]

theorem values_closed (A : Arith V) (qs : List (QE V)) :
    qs.mapM (exprValue A noEnv) = evalParams A qs := by
  unfold evalParams
  induction qs with
  | nil => rfl
  | cons q qs ih => simp only [List.mapM_cons, value_closed A q, ih]

theorem substVals_bindIds_some (ps : List String) (vs : List V) (q : QE V)
    (hsrc : q.source = true) (hlen : ps.length ≤ vs.length) :
    ∃ q', substVals vs (bindIds ps q) = some q' := by
  induction q with
  | num s => exact ⟨_, rfl⟩
  | id s =>
    by_cases hc : ps.contains s = true
    · have hmem : s ∈ ps := by simpa using hc
      have hlt : ps.idxOf s < vs.length := Nat.lt_of_lt_of_le (List.idxOf_lt_length_of_mem hmem) hlen
      refine ⟨.val vs[ps.idxOf s], ?_⟩
      simp [bindIds, hmem, substVals, hlt]
    · have hnm : ¬ s ∈ ps := by simpa using hc
      exact ⟨.id s, by simp [bindIds, hnm, substVals]⟩
  | pidx i => simp [QE.source] at hsrc
  | val v => simp [QE.source] at hsrc
  | paren e ih =>
    obtain ⟨e', he'⟩ := ih (by simpa [QE.source] using hsrc)
    exact ⟨.paren e', by simp [bindIds, substVals, he']⟩
  | usub e ih =>
    obtain ⟨e', he'⟩ := ih (by simpa [QE.source] using hsrc)
    exact ⟨.usub e', by simp [bindIds, substVals, he']⟩
  | pow a b iha ihb =>
    simp only [QE.source, Bool.and_eq_true] at hsrc
    obtain ⟨a', ha'⟩ := iha hsrc.1
    obtain ⟨b', hb'⟩ := ihb hsrc.2
    exact ⟨.pow a' b', by simp [bindIds, substVals, ha', hb']⟩
  | call f e ih =>
    obtain ⟨e', he'⟩ := ih (by simpa [QE.source] using hsrc)
    exact ⟨.call f e', by simp [bindIds, substVals, he']⟩
  | bin op l r ihl ihr =>
    simp only [QE.source, Bool.and_eq_true] at hsrc
    obtain ⟨l', hl'⟩ := ihl hsrc.1
    obtain ⟨r', hr'⟩ := ihr hsrc.2
    exact ⟨.bin op l' r', by simp [bindIds, substVals, hl', hr']⟩

/-- a body expression instantiated with the actual values: the reader's spliced text has the
value of the expression under the binding -/
theorem tree_value (A : Arith V) (ps : List String) (vs : List V) (q : QE V)
    (hsrc : q.source = true) (hlen : ps.length ≤ vs.length) (v : V)
    (h : exprValue A (formalEnv ps vs) q = some v) :
    (substVals vs (bindIds ps q)).bind (evalQ A) = some v := by
  obtain ⟨q', hq'⟩ := substVals_bindIds_some ps vs q hsrc hlen
  unfold exprValue at h
  simp only [Option.bind_eq_some_iff] at h
  obtain ⟨e, he, hv⟩ := h
  rw [hq', Option.bind_some, evalQ_subst A ps vs q q' hsrc hq' e he]
  exact hv

theorem tsubst_of_not_hasParam (ps : List String) (vs : List V) (q : QE V)
    (hsrc : q.source = true) (h : hasParam ps q = false) :
    tsubst (formalEnv ps vs) (flatten q) = flatten q := by
  induction q with
  | num s => simp [flatten, tsubst]
  | id s =>
    simp only [hasParam] at h
    have hnm : ¬ s ∈ ps := by simpa using h
    simp [flatten, tsubst, formalEnv, hnm]
  | pidx i => simp [QE.source] at hsrc
  | val v => simp [QE.source] at hsrc
  | paren e ih =>
    simp only [QE.source] at hsrc; simp only [hasParam] at h
    simp [flatten, tsubst, tsubst_append, ih hsrc h]
  | usub e ih =>
    simp only [QE.source] at hsrc; simp only [hasParam] at h
    simp [flatten, tsubst, ih hsrc h]
  | pow a b iha ihb =>
    simp only [QE.source, Bool.and_eq_true] at hsrc
    simp only [hasParam, Bool.or_eq_false_iff] at h
    simp [flatten, tsubst, tsubst_append, iha hsrc.1 h.1, ihb hsrc.2 h.2]
  | call f e ih =>
    simp only [QE.source] at hsrc; simp only [hasParam] at h
    simp [flatten, tsubst, tsubst_append, ih hsrc h]
  | bin op l r ihl ihr =>
    simp only [QE.source, Bool.and_eq_true] at hsrc
    simp only [hasParam, Bool.or_eq_false_iff] at h
    cases op <;> simp [flatten, tsubst, tsubst_append, ihl hsrc.1 h.1, ihr hsrc.2 h.2, BOp.tok]

/-- an expression without formals has the same value under any binding -/
theorem const_value (A : Arith V) (ps : List String) (vs : List V) (q : QE V)
    (hsrc : q.source = true) (h : hasParam ps q = false) :
    exprValue A (formalEnv ps vs) q = evalQ A q := by
  unfold exprValue evalQ
  cases hq : pyParse (flatten q) with
  | none => rfl
  | some e =>
    have hpm := pyParse_tsubst (formalEnv ps vs) (flatten q) e hq
    rw [tsubst_of_not_hasParam ps vs q hsrc h, hq] at hpm
    simp only [Option.some.injEq] at hpm
    simp only [Option.bind_some]
    rw [← eval_bindEnv, ← hpm]

/-! ## user gate definitions: reader's stored form vs. source form -/

/-- the reader's stored parameter expression `p` comes from the source tree `q` -/
def PExpRel (A : Arith V) (ps : List String) : PExp V → QE V → Prop
  | .tree t, q => q.source = true ∧ hasParam ps q = true ∧ t = bindIds ps q
  | .const v, q => q.source = true ∧ hasParam ps q = false ∧ evalQ A q = some v

def PExpsRel (A : Arith V) (ps : List String) : List (PExp V) → List (QE V) → Prop
  | [], [] => True
  | p :: pes, q :: qs => PExpRel A ps p q ∧ PExpsRel A ps pes qs
  | _, _ => False

/-- the number of actual values fits the formals of a user gate (nothing to say for a table
gate: `Operation(…)` checks it) -/
def SDef.arityOk : SDef V → Nat → Prop
  | .builtin _, _ => True
  | .custom _ formals _ _, n => n = formals.length

mutual
def DefRel (A : Arith V) : GDef V → SDef V → Prop
  | .builtin b, gs => gs = .builtin b
  | .custom name np nv body, gs =>
    ∃ ps bodyS, gs = .custom name ps nv bodyS ∧ np = ps.length ∧ BodyRel A ps body bodyS
def BodyRel (A : Arith V) (ps : List String) : List (GBody V) → List (SBody V) → Prop
  | [], bs => bs = []
  | .mk g loc pes :: rest, bs =>
    ∃ gs qs restS, bs = .mk gs loc qs :: restS ∧ DefRel A g gs ∧ PExpsRel A ps pes qs ∧
      gs.arityOk qs.length ∧ BodyRel A ps rest restS
end

theorem mapM_length {α β : Type} (f : α → Option β) :
    ∀ (l : List α) (r : List β), l.mapM f = some r → r.length = l.length
  | [], r, h => by simp at h; subst h; rfl
  | a :: l, r, h => by
    simp only [List.mapM_cons, Option.pure_def, Option.bind_eq_bind, Option.bind_eq_some_iff,
      Option.some.injEq] at h
    obtain ⟨b, _, r', hr', rfl⟩ := h
    simp [mapM_length f l r' hr']

theorem pexps_agree (A : Arith V) (ps : List String) (vs : List V)
    (hlen : ps.length ≤ vs.length) :
    ∀ (pes : List (PExp V)) (qs : List (QE V)) (sub : List V), PExpsRel A ps pes qs →
      qs.mapM (exprValue A (formalEnv ps vs)) = some sub → evalPExps A vs pes = some sub
  | [], [], sub, _, h => by simpa [evalPExps] using h
  | [], _ :: _, _, hr, _ => by simp [PExpsRel] at hr
  | _ :: _, [], _, hr, _ => by simp [PExpsRel] at hr
  | p :: pes, q :: qs, sub, hr, h => by
    simp only [PExpsRel] at hr
    simp only [List.mapM_cons, Option.pure_def, Option.bind_eq_bind, Option.bind_eq_some_iff,
      Option.some.injEq] at h
    obtain ⟨v, hv, sub', hsub', rfl⟩ := h
    have ih := pexps_agree A ps vs hlen pes qs sub' hr.2 hsub'
    unfold evalPExps at ih ⊢
    cases p with
    | tree t =>
      obtain ⟨hsrc, _, rfl⟩ := hr.1
      have := tree_value A ps vs q hsrc hlen v hv
      simp only [List.mapM_cons, this, ih]
      rfl
    | const c =>
      obtain ⟨hsrc, hp, hev⟩ := hr.1
      rw [const_value A ps vs q hsrc hp, hev] at hv
      simp only [Option.some.injEq] at hv
      subst hv
      simp only [List.mapM_cons, ih]
      rfl

mutual
/-- instantiating a user gate: the reader builds what the reference elaboration builds -/
theorem build_agree (A : Arith V) :
    ∀ (g : GDef V) (gs : SDef V) (loc : List Nat) (vs : List V) (op : Op V),
      DefRel A g gs → gs.arityOk vs.length →
      buildS A gs loc vs = some op → buildOp A g loc vs = some op
  | .builtin b, gs, loc, vs, op, hrel, _, hb => by
    simp only [DefRel] at hrel
    subst hrel
    simpa [buildS, buildOp] using hb
  | .custom name np nv body, gs, loc, vs, op, hrel, hlen, hb => by
    simp only [DefRel] at hrel
    obtain ⟨ps, bodyS, rfl, rfl, hbody⟩ := hrel
    simp only [SDef.arityOk] at hlen
    simp only [buildS] at hb
    split at hb
    · rename_i ops hops
      have := body_agree A nv ps vs (by omega) body bodyS ops hbody hops
      simp only [buildOp, this]
      exact hb
    · simp at hb
theorem body_agree (A : Arith V) (nv : Nat) (ps : List String) (vs : List V)
    (hlen : ps.length ≤ vs.length) :
    ∀ (body : List (GBody V)) (bodyS : List (SBody V)) (ops : List (Op V)),
      BodyRel A ps body bodyS →
      buildBodyS A nv (formalEnv ps vs) bodyS = some ops → buildBody A nv body vs = some ops
  | [], bodyS, ops, hrel, hb => by
    simp only [BodyRel] at hrel
    subst hrel
    simpa [buildBodyS, buildBody] using hb
  | .mk g loc pes :: rest, bodyS, ops, hrel, hb => by
    simp only [BodyRel] at hrel
    obtain ⟨gs, qs, restS, rfl, hdef, hpes, hqlen, hrest⟩ := hrel
    simp only [buildBodyS] at hb
    split at hb
    · rename_i sub hsub
      have hpe := pexps_agree A ps vs hlen pes qs sub hpes hsub
      have hsl : gs.arityOk sub.length := by rw [mapM_length _ qs sub hsub]; exact hqlen
      split at hb
      · rename_i op hop
        have hop' := build_agree A g gs loc sub op hdef hsl hop
        split at hb
        · rename_i hall
          split at hb
          · rename_i ops' hops'
            have := body_agree A nv ps vs hlen rest restS ops' hrest hops'
            simp only [buildBody, hpe, hop', hall, this]
            exact hb
          · simp at hb
        · simp at hb
      · simp at hb
    · simp at hb
end

/-! ## states -/

def CustRel (A : Arith V) : List (String × GDef V) → List (String × SDef V) → Prop
  | [], [] => True
  | (n, g) :: cs, (n', gs) :: css => n = n' ∧ DefRel A g gs ∧ CustRel A cs css
  | _, _ => False

/-- reader state and reference state carry the same information -/
structure StRel (A : Arith V) (s : St V) (sS : SSt V) : Prop where
  table : s.table = sS.table
  qregs : s.qregs = sS.qregs
  cregs : s.cregs = sS.cregs
  ops : s.ops = sS.ops
  customs : CustRel A s.customs sS.customs
  cnodup : (sS.cregs.map Prod.fst).Nodup

theorem defRel_arity (A : Arith V) :
    ∀ (g : GDef V) (gs : SDef V), DefRel A g gs → g.np = gs.np ∧ g.nv = gs.nv
  | .builtin b, gs, h => by simp only [DefRel] at h; subst h; exact ⟨rfl, rfl⟩
  | .custom name np nv body, gs, h => by
    simp only [DefRel] at h
    obtain ⟨ps, bodyS, rfl, rfl, _⟩ := h
    exact ⟨rfl, rfl⟩

theorem custRel_find (A : Arith V) (name : String) :
    ∀ (cs : List (String × GDef V)) (css : List (String × SDef V)), CustRel A cs css →
      ∀ gs, (css.find? (·.1 == name)).map (·.2) = some gs →
        ∃ g, (cs.find? (·.1 == name)).map (·.2) = some g ∧ DefRel A g gs
  | [], [], _, gs, h => by simp at h
  | [], _ :: _, hr, _, _ => by simp [CustRel] at hr
  | _ :: _, [], hr, _, _ => by simp [CustRel] at hr
  | (n, g) :: cs, (n', gs') :: css, hr, gs, h => by
    simp only [CustRel] at hr
    obtain ⟨rfl, hd, hrest⟩ := hr
    by_cases hn : (n == name) = true
    · simp only [List.find?_cons, hn, Option.map_some, Option.some.injEq] at h ⊢
      subst h
      exact ⟨g, rfl, hd⟩
    · simp only [List.find?_cons, hn] at h ⊢
      exact custRel_find A name cs css hrest gs h

theorem lookup_agree (A : Arith V) {s : St V} {sS : SSt V} (hr : StRel A s sS) (name : String)
    (gs : SDef V) (h : sS.lookup name = some gs) :
    ∃ g, s.lookup name = some g ∧ DefRel A g gs := by
  unfold SSt.lookup at h
  unfold St.lookup
  rw [hr.table]
  cases hb : lookupBuiltin sS.table name with
  | some b =>
    simp only [hb, Option.some.injEq] at h
    subst h
    exact ⟨.builtin b, rfl, by simp [DefRel]⟩
  | none =>
    simp only [hb] at h
    exact custRel_find A name _ _ hr.customs gs h

/-! ## arguments -/

theorem argIndicesS_eq (rs : Regs) (a : Arg) : argIndicesS rs a = argIndices rs a := by
  unfold argIndicesS argIndices indexedQubit
  cases a.idx with
  | none => rfl
  | some i =>
    simp only
    cases firstIndex rs a.name <;> cases regSize rs a.name <;> simp

theorem anylistS_eq (rs : Regs) (as : List Arg) : anylistS rs as = anylistIndices rs as := by
  unfold anylistS anylistIndices
  have : argIndicesS rs = argIndices rs := funext (argIndicesS_eq rs)
  rw [this]

theorem arityOk_of_np (gs : SDef V) (n : Nat) (h : n = gs.np) : gs.arityOk n := by
  cases gs with
  | builtin b => trivial
  | custom name formals nv body => simpa [SDef.arityOk, SDef.np] using h

theorem argIndices_idx {rs : Regs} {a : Arg} {i : Nat} {l : List Nat} (hi : a.idx = some i)
    (h : argIndices rs a = some l) : ∃ q, indexedQubit rs a.name i = some q ∧ l = [q] := by
  unfold argIndices at h
  simp only [hi, Option.map_eq_some_iff] at h
  obtain ⟨q, hq, rfl⟩ := h
  exact ⟨q, hq, rfl⟩

/-! ## top-level gate applications -/

theorem call_agree (A : Arith V) {s : St V} {sS : SSt V} (hr : StRel A s sS) (c : GCall V)
    (op : Op V) (h : elabCallS A sS c = some op) : elabCall A s c = some op := by
  cases c with
  | gate name params args =>
    simp only [elabCallS] at h
    split at h
    · rename_i vs hvs
      split at h
      · rename_i loc hloc
        split at h
        · simp at h
        · rename_i hnd
          split at h
          · rename_i gs hgs
            split at h
            · rename_i harity
              obtain ⟨g, hg, hdef⟩ := lookup_agree A hr name gs hgs
              obtain ⟨hnp, hnv⟩ := defRel_arity A g gs hdef
              simp only [Bool.and_eq_true, beq_iff_eq] at harity
              have hb := build_agree A g gs loc vs op hdef (arityOk_of_np gs _ harity.1) h
              have hvs' : evalParams A params = some vs := by
                rw [← values_closed A params]; exact hvs
              rw [anylistS_eq, ← hr.qregs] at hloc
              simp only [elabCall, hvs', hloc, hnd, hg, hnp, hnv, harity.1, harity.2,
                beq_self_eq_true, Bool.and_self, if_true, hb]
              simp
            · simp at h
          · simp at h
      · simp at h
    · simp at h
  | u params a =>
    simp only [elabCallS] at h
    split at h
    · rename_i vs i loc b hvs hi hloc hb
      rw [argIndicesS_eq] at hloc
      obtain ⟨q, hq, rfl⟩ := argIndices_idx hi hloc
      have hvs' : evalParams A params = some vs := by
        rw [← values_closed A params]; exact hvs
      simp only [elabCall, hvs', hi, hr.table, hb, hr.qregs, hq]
      exact h
    · simp at h
  | cx a b =>
    simp only [elabCallS] at h
    split at h
    · rename_i i j la lb d hi hj hla hlb hd
      rw [argIndicesS_eq] at hla hlb
      obtain ⟨qa, hqa, rfl⟩ := argIndices_idx hi hla
      obtain ⟨qb, hqb, rfl⟩ := argIndices_idx hj hlb
      simp only [elabCall, hi, hj, hr.qregs, hqa, hqb, hr.table, hd]
      simpa using h
    · simp at h

/-! ## gate definitions -/

theorem bodyPExps_agree (A : Arith V) (ps : List String) :
    ∀ (qs : List (QE V)), (∀ q ∈ qs, q.source = true) → qs.all (closedOk A ps) = true →
      ∃ pes, bodyPExps A ps qs = some pes ∧ PExpsRel A ps pes qs ∧ pes.length = qs.length
  | [], _, _ => ⟨[], rfl, trivial, rfl⟩
  | q :: qs, hsrc, hok => by
    simp only [List.all_cons, Bool.and_eq_true] at hok
    obtain ⟨pes, hpes, hrel, hlen⟩ :=
      bodyPExps_agree A ps qs (fun q' hq' => hsrc q' (by simp [hq'])) hok.2
    have hs := hsrc q (by simp)
    unfold bodyPExps at hpes ⊢
    by_cases hp : hasParam ps q = true
    · refine ⟨.tree (bindIds ps q) :: pes, ?_, ⟨⟨hs, hp, rfl⟩, hrel⟩, by simp [hlen]⟩
      simp only [List.mapM_cons, hp, if_true, hpes]
      rfl
    · have hp' : hasParam ps q = false := by simpa using hp
      have hsome : (exprValue A noEnv q).isSome = true := by
        simpa [closedOk, hp'] using hok.1
      rw [value_closed] at hsome
      obtain ⟨v, hv⟩ := Option.isSome_iff_exists.mp hsome
      refine ⟨.const v :: pes, ?_, ⟨⟨hs, hp', hv⟩, hrel⟩, by simp [hlen]⟩
      simp only [List.mapM_cons, hp', Bool.false_eq_true, if_false, hv, Option.map_some, hpes]
      rfl

theorem bodyCall_agree (A : Arith V) {s : St V} {sS : SSt V} (hr : StRel A s sS)
    (ps qubits : List String) (c : GCall V) (hc : c.src) (gs : SDef V)
    (loc : List Nat) (qs : List (QE V))
    (h : elabBodyCallS A sS ps qubits c = some (.mk gs loc qs)) :
    ∃ g pes, elabBodyCall A s ps qubits c = some (.mk g loc pes) ∧ DefRel A g gs ∧
      PExpsRel A ps pes qs ∧ gs.arityOk qs.length := by
  cases c with
  | gate name params args =>
    simp only [elabBodyCallS] at h
    split at h
    · simp at h
    · rename_i hok
      obtain ⟨pes, hpes, hrel, hlen⟩ := bodyPExps_agree A ps params hc (by simpa using hok)
      split at h
      · simp at h
      · rename_i hany
        split at h
        · rename_i loc' hloc
          split at h
          · rename_i gs' hgs
            split at h
            · rename_i harity
              simp only [Option.some.injEq, SBody.mk.injEq] at h
              obtain ⟨rfl, rfl, rfl⟩ := h
              obtain ⟨g, hg, hdef⟩ := lookup_agree A hr name gs' hgs
              obtain ⟨hnp, hnv⟩ := defRel_arity A g gs' hdef
              simp only [Bool.and_eq_true, beq_iff_eq] at harity
              refine ⟨g, pes, ?_, hdef, hrel, arityOk_of_np gs' _ harity.1⟩
              simp only [elabBodyCall, hpes, hany, hloc, hg, hlen, hnp, hnv, harity.1,
                harity.2, beq_self_eq_true, Bool.and_self, if_true, Bool.false_eq_true,
                if_false]
            · simp at h
          · simp at h
        · simp at h
  | u params a =>
    simp only [elabBodyCallS] at h
    split at h
    · simp at h
    · rename_i hok
      obtain ⟨pes, hpes, hrel, hlen⟩ := bodyPExps_agree A ps params hc (by simpa using hok)
      split at h
      · rename_i q b hq hb
        simp only [Option.some.injEq, SBody.mk.injEq] at h
        obtain ⟨rfl, rfl, rfl⟩ := h
        refine ⟨.builtin b, pes, ?_, by simp [DefRel], hrel, trivial⟩
        simp only [elabBodyCall, hpes, hq, hr.table, hb]
      · simp at h
  | cx a b =>
    simp only [elabBodyCallS] at h
    split at h
    · rename_i x y d hx hy hd
      split at h
      · simp at h
      · rename_i hxy
        simp only [Option.some.injEq, SBody.mk.injEq] at h
        obtain ⟨rfl, rfl, rfl⟩ := h
        refine ⟨.builtin d, [], ?_, by simp [DefRel], trivial, trivial⟩
        simp only [elabBodyCall, hx, hy, hr.table, hd, hxy, Bool.false_eq_true, if_false]
    · simp at h

theorem body_elab_agree (A : Arith V) {s : St V} {sS : SSt V} (hr : StRel A s sS)
    (ps qubits : List String) :
    ∀ (body : List (BStmt V)) (bS : List (SBody V)), (∀ b ∈ body, b.src) →
      elabBodyS A sS ps qubits body = some bS →
      ∃ b, elabBody A s ps qubits body = some b ∧ BodyRel A ps b bS
  | [], bS, _, h => by
    simp only [elabBodyS, Option.some.injEq] at h
    subst h
    exact ⟨[], rfl, by simp [BodyRel]⟩
  | .barrier :: rest, bS, hc, h => by
    simp only [elabBodyS] at h
    obtain ⟨b, hb, hrel⟩ := body_elab_agree A hr ps qubits rest bS
      (fun b hb => hc b (by simp [hb])) h
    exact ⟨b, by simp [elabBody, hb], hrel⟩
  | .call c :: rest, bS, hc, h => by
    simp only [elabBodyS] at h
    split at h
    · rename_i sb hsb
      simp only [Option.map_eq_some_iff] at h
      obtain ⟨restS, hrestS, rfl⟩ := h
      obtain ⟨gs, loc, qs⟩ := sb
      obtain ⟨g, pes, hg, hdef, hpes, har⟩ :=
        bodyCall_agree A hr ps qubits c (hc (.call c) (by simp)) gs loc qs hsb
      obtain ⟨b, hb, hrel⟩ := body_elab_agree A hr ps qubits rest restS
        (fun b hb => hc b (by simp [hb])) hrestS
      refine ⟨.mk g loc pes :: b, by simp [elabBody, hg, hb], ?_⟩
      simp only [BodyRel]
      exact ⟨gs, qs, restS, rfl, hdef, hpes, har, hrel⟩
    · simp at h

/-! ## statements -/

theorem measure_agree {A : Arith V} {s : St V} {sS : SSt V} (hr : StRel A s sS) (q c : Arg)
    (op : Op V) (h : elabMeasureS sS q c = some op) : elabMeasure s q c = some op := by
  unfold elabMeasureS at h
  unfold elabMeasure
  rw [hr.qregs, hr.cregs]
  rw [argIndicesS_eq] at h
  split at h
  · simp at h
  · rename_i loc hloc
    rw [hloc]
    simp only
    split at h
    · rename_i qsz csz hqs hcs
      simp only [hqs, hcs]
      cases hi : q.idx with
      | none =>
        cases hj : c.idx with
        | none =>
          simp only [hi, hj] at h ⊢
          split at h
          · simp at h
          · rename_i hne
            simp only [hne, Bool.false_eq_true, if_false]
            simp only [Option.some.injEq] at h
            subst h
            have hreg : regIndices sS.qregs q.name = some loc := by
              simpa [argIndices, hi] using hloc
            obtain ⟨o, sz, ho, hs, hl⟩ := regIndices_eq hreg
            rw [hqs] at hs
            simp only [Option.some.injEq] at hs
            subst hs
            simp only [ho, Option.map_some, Option.some.injEq, Op.measure.injEq, true_and]
            apply List.map_congr_left
            intro i hi'
            simp only [List.mem_range] at hi'
            subst hl
            simp [List.getD, hi', Nat.add_comm]
        | some j => simp [hi, hj] at h
      | some i =>
        cases hj : c.idx with
        | none => simp [hi, hj] at h
        | some j =>
          simp only [hi, hj] at h ⊢
          split at h
          · rename_i hlt
            simp only [Option.some.injEq] at h
            subst h
            rw [clbitOk_of_lt hr.cnodup hcs hlt]
            obtain ⟨q0, _, rfl⟩ := argIndices_idx hi hloc
            simp
          · simp at h
    · simp at h

/-- one statement: if the reference elaboration accepts it, the reader accepts it too and
reaches the corresponding state -/
theorem stmt_agree (A : Arith V) {s : St V} {sS sS' : SSt V} (hr : StRel A s sS) (st : Stmt V)
    (hc : st.src) (h : elabStmtS A sS st = some sS') :
    ∃ s', elabStmt A s st = some s' ∧ StRel A s' sS' := by
  cases st with
  | incl f =>
    simp only [elabStmtS, Option.some.injEq] at h; subst h
    exact ⟨s, rfl, hr⟩
  | opaqueDecl =>
    simp only [elabStmtS, Option.some.injEq] at h; subst h
    exact ⟨s, rfl, hr⟩
  | qreg n k =>
    simp only [elabStmtS] at h
    split at h
    · simp at h
    · rename_i hany
      simp only [Option.some.injEq] at h; subst h
      refine ⟨{ s with qregs := s.qregs ++ [(n, k)] }, ?_, ?_⟩
      · simp only [elabStmt, hr.qregs, hany, Bool.false_eq_true, if_false]
      · exact ⟨hr.table, by simp [hr.qregs], hr.cregs, hr.ops, hr.customs, hr.cnodup⟩
  | creg n k =>
    simp only [elabStmtS] at h
    split at h
    · simp at h
    · rename_i hany
      simp only [Option.some.injEq] at h; subst h
      refine ⟨{ s with cregs := s.cregs ++ [(n, k)] }, ?_, ?_⟩
      · simp only [elabStmt, hr.cregs, hany, Bool.false_eq_true, if_false]
      · refine ⟨hr.table, hr.qregs, by simp [hr.cregs], hr.ops, hr.customs, ?_⟩
        simp only [List.map_append, List.map_cons, List.map_nil]
        rw [List.nodup_append]
        refine ⟨hr.cnodup, by simp, ?_⟩
        intro a ha b hb
        simp only [List.mem_singleton] at hb
        subst hb
        intro he
        subst he
        simp only [List.mem_map] at ha
        obtain ⟨r, hr1, hr2⟩ := ha
        simp only [Bool.not_eq_true, List.any_eq_false, beq_iff_eq] at hany
        exact hany r hr1 hr2
  | gatedecl name ps qs body =>
    simp only [elabStmtS, Option.map_eq_some_iff] at h
    obtain ⟨bS, hbS, rfl⟩ := h
    obtain ⟨b, hb, hrel⟩ := body_elab_agree A hr ps qs body bS hc hbS
    refine ⟨{ s with customs := (name, .custom name ps.length qs.length b) :: s.customs }, ?_, ?_⟩
    · simp only [elabStmt, hb, Option.map_some]
    · refine ⟨hr.table, hr.qregs, hr.cregs, hr.ops, ?_, hr.cnodup⟩
      simp only [CustRel]
      exact ⟨trivial, by simp only [DefRel]; exact ⟨ps, bS, rfl, rfl, hrel⟩, hr.customs⟩
  | call c =>
    simp only [elabStmtS, Option.map_eq_some_iff] at h
    obtain ⟨op, hop, rfl⟩ := h
    have := call_agree A hr c op hop
    refine ⟨{ s with ops := op :: s.ops }, by simp [elabStmt, this], ?_⟩
    exact ⟨hr.table, hr.qregs, hr.cregs, by simp [hr.ops], hr.customs, hr.cnodup⟩
  | measure q c =>
    simp only [elabStmtS, Option.map_eq_some_iff] at h
    obtain ⟨op, hop, rfl⟩ := h
    have := measure_agree hr q c op hop
    refine ⟨{ s with ops := op :: s.ops }, by simp [elabStmt, this], ?_⟩
    exact ⟨hr.table, hr.qregs, hr.cregs, by simp [hr.ops], hr.customs, hr.cnodup⟩
  | reset q =>
    simp only [elabStmtS, elabResetS, argIndicesS_eq, Option.map_eq_some_iff] at h
    obtain ⟨l, ⟨loc, hloc, rfl⟩, rfl⟩ := h
    refine ⟨{ s with ops := (loc.map Op.reset).reverse ++ s.ops }, ?_, ?_⟩
    · simp [elabStmt, elabReset, hr.qregs, hloc]
    · exact ⟨hr.table, hr.qregs, hr.cregs, by simp [hr.ops], hr.customs, hr.cnodup⟩
  | barrier as =>
    simp only [elabStmtS] at h
    split at h
    · rename_i loc hloc
      split at h
      · rename_i hnd
        simp only [Option.some.injEq] at h; subst h
        rw [anylistS_eq] at hloc
        refine ⟨{ s with ops := .barrier loc :: s.ops }, ?_, ?_⟩
        · simp only [elabStmt, hr.qregs, hloc, hnd, if_true]
        · exact ⟨hr.table, hr.qregs, hr.cregs, by simp [hr.ops], hr.customs, hr.cnodup⟩
      · simp at h
    · simp at h

/-! ## programs -/

theorem stmts_agree (A : Arith V) :
    ∀ (ss : List (Stmt V)), (∀ st ∈ ss, st.src) → ∀ (s : St V) (sS sS' : SSt V), StRel A s sS →
      elabStmtsS A sS ss = some sS' → ∃ s', elabStmts A s ss = some s' ∧ StRel A s' sS'
  | [], _, s, sS, sS', hr, h => by
    simp only [elabStmtsS, Option.some.injEq] at h
    subst h
    exact ⟨s, rfl, hr⟩
  | st :: rest, hsrc, s, sS, sS', hr, h => by
    simp only [elabStmtsS, Option.bind_eq_some_iff] at h
    obtain ⟨sS1, hstep, hrest⟩ := h
    obtain ⟨s1, hs1, hr1⟩ := stmt_agree A hr st (hsrc st (by simp)) hstep
    obtain ⟨s', hs', hr'⟩ := stmts_agree A rest (fun x hx => hsrc x (by simp [hx])) s1 sS1 sS'
      hr1 hrest
    exact ⟨s', by simp [elabStmts, hs1, hs'], hr'⟩

theorem finish_agree (A : Arith V) {s : St V} {sS : SSt V} (hr : StRel A s sS) :
    finish s = finishS sS := by
  simp only [finish, finishS, hr.qregs, hr.cregs, hr.ops]

/-- **the reader computes the reference elaboration of every program that has one** -/
theorem decode_spec (A : Arith V) (table : List BuiltinDef) (ts : List Tok) (d : Decoded V)
    (h : specDecodeToks A table ts = some d) : decodeToks A table ts = some d := by
  unfold specDecodeToks at h
  simp only [Option.bind_eq_some_iff] at h
  obtain ⟨ss, hss, sS', hsS', hfin⟩ := h
  have hr0 : StRel A ({ table := table } : St V) ({ table := table } : SSt V) :=
    ⟨rfl, rfl, rfl, rfl, trivial, List.nodup_nil⟩
  obtain ⟨s', hs', hr'⟩ := stmts_agree A ss (parseProgram_src ts ss hss) _ _ sS' hr0 hsS'
  simp only [decodeToks, hss, Option.bind_some, hs', finish_agree A hr', hfin]

end BqVerif.Qasm
