import BqVerif.Model.QasmElab
/-! Register arithmetic of the OpenQASM reader: `firstIndex`, `regSize`, `regIndices`. -/
namespace BqVerif.Qasm

theorem totalSize_cons (m : String) (s : Nat) (rest : Regs) :
    totalSize ((m, s) :: rest) = s + totalSize rest := by
  simp [totalSize]

theorem firstIndex_cons (m : String) (s : Nat) (rest : Regs) (n : String) :
    firstIndex ((m, s) :: rest) n =
      if m = n then some 0 else (firstIndex rest n).map (· + s) := rfl

theorem regSize_cons (m : String) (s : Nat) (rest : Regs) (n : String) :
    regSize ((m, s) :: rest) n = if m = n then some s else regSize rest n := rfl

/-- a looked-up qubit lies inside the circuit -/
theorem flat_lt_total {rs : Regs} {n : String} {o sz i : Nat}
    (ho : firstIndex rs n = some o) (hs : regSize rs n = some sz) (hi : i < sz) :
    o + i < totalSize rs := by
  induction rs generalizing o with
  | nil => simp [firstIndex] at ho
  | cons hd rest ih =>
    obtain ⟨m, s⟩ := hd
    rw [firstIndex_cons] at ho
    rw [regSize_cons] at hs
    rw [totalSize_cons]
    by_cases hm : m = n
    · simp [hm] at ho hs
      omega
    · simp [hm] at ho hs
      obtain ⟨o', ho', rfl⟩ := ho
      have := ih ho' hs
      omega

/-- two different (register, index) pairs never name the same qubit -/
theorem flat_inj {rs : Regs} {n n' : String} {o sz i o' sz' i' : Nat}
    (ho : firstIndex rs n = some o) (hs : regSize rs n = some sz) (hi : i < sz)
    (ho' : firstIndex rs n' = some o') (hs' : regSize rs n' = some sz') (hi' : i' < sz')
    (h : o + i = o' + i') : n = n' ∧ i = i' := by
  induction rs generalizing o o' with
  | nil => simp [firstIndex] at ho
  | cons hd rest ih =>
    obtain ⟨m, s⟩ := hd
    rw [firstIndex_cons] at ho ho'
    rw [regSize_cons] at hs hs'
    by_cases hm : m = n <;> by_cases hm' : m = n'
    · simp [hm] at ho hs; simp [hm'] at ho' hs'
      subst hm; subst hm'
      exact ⟨rfl, by omega⟩
    · simp [hm] at ho hs; simp [hm'] at ho' hs'
      obtain ⟨a, _, rfl⟩ := ho'
      omega
    · simp [hm] at ho hs; simp [hm'] at ho' hs'
      obtain ⟨a, _, rfl⟩ := ho
      omega
    · simp [hm] at ho hs; simp [hm'] at ho' hs'
      obtain ⟨a, ha, rfl⟩ := ho
      obtain ⟨b, hb, rfl⟩ := ho'
      exact ih ha hs hb hs' (by omega)

theorem firstIndex_isSome_mem {rs : Regs} {n : String} {o : Nat}
    (h : firstIndex rs n = some o) : n ∈ rs.map Prod.fst := by
  induction rs generalizing o with
  | nil => simp [firstIndex] at h
  | cons hd rest ih =>
    obtain ⟨m, s⟩ := hd
    rw [firstIndex_cons] at h
    by_cases hm : m = n
    · simp [hm]
    · simp [hm] at h
      obtain ⟨a, ha, _⟩ := h
      simp [ih ha]

/-- with distinct register names every qubit of the circuit has a (register, index) name -/
theorem flat_surj {rs : Regs} (hnd : (rs.map Prod.fst).Nodup) {k : Nat}
    (hk : k < totalSize rs) :
    ∃ n o sz i, firstIndex rs n = some o ∧ regSize rs n = some sz ∧ i < sz ∧ o + i = k := by
  induction rs generalizing k with
  | nil => simp [totalSize] at hk
  | cons hd rest ih =>
    obtain ⟨m, s⟩ := hd
    rw [totalSize_cons] at hk
    by_cases hks : k < s
    · exact ⟨m, 0, s, k, by simp [firstIndex_cons], by simp [regSize_cons], hks, by omega⟩
    · have hnd' : (rest.map Prod.fst).Nodup := by
        simp only [List.map_cons, List.nodup_cons] at hnd
        exact hnd.2
      obtain ⟨n, o, sz, i, ho, hs, hi, hoi⟩ := ih hnd' (k := k - s) (by omega)
      have hne : m ≠ n := by
        intro hmn
        simp only [List.map_cons, List.nodup_cons] at hnd
        exact hnd.1 (hmn ▸ firstIndex_isSome_mem ho)
      exact ⟨n, o + s, sz, i, by simp [firstIndex_cons, hne, ho], by simp [regSize_cons, hne, hs],
        hi, by omega⟩

/-- a whole register is its `size` consecutive qubits -/
theorem regIndices_eq {rs : Regs} {n : String} {l : List Nat} (h : regIndices rs n = some l) :
    ∃ o sz, firstIndex rs n = some o ∧ regSize rs n = some sz ∧
      l = (List.range sz).map (· + o) := by
  unfold regIndices at h
  split at h
  · rename_i o sz ho hs
    simp at h
    exact ⟨o, sz, ho, hs, h.symm⟩
  · simp at h

/-- an argument respects its register: an index, if present, is inside the register -/
def Arg.inRange (rs : Regs) (a : Arg) : Prop :=
  ∀ i, a.idx = some i → ∃ sz, regSize rs a.name = some sz ∧ i < sz

theorem firstIndex_some_regSize {rs : Regs} {n : String} {o : Nat}
    (h : firstIndex rs n = some o) : ∃ sz, regSize rs n = some sz := by
  induction rs generalizing o with
  | nil => simp [firstIndex] at h
  | cons hd rest ih =>
    obtain ⟨m, s⟩ := hd
    rw [firstIndex_cons] at h
    rw [regSize_cons]
    by_cases hm : m = n
    · exact ⟨s, by simp [hm]⟩
    · simp [hm] at h
      obtain ⟨a, ha, _⟩ := h
      simpa [hm] using ih ha

/-- the qubits of an in-range argument lie inside the circuit -/
theorem argIndices_lt_total {rs : Regs} {a : Arg} {l : List Nat}
    (h : argIndices rs a = some l) (hr : a.inRange rs) : ∀ q ∈ l, q < totalSize rs := by
  unfold argIndices at h
  cases hi : a.idx with
  | some i =>
    simp only [hi, Option.map_eq_some_iff] at h
    obtain ⟨o, ho, rfl⟩ := h
    obtain ⟨sz, hs, hlt⟩ := hr i hi
    intro q hq
    simp only [List.mem_cons, List.not_mem_nil, or_false] at hq
    subst hq
    exact flat_lt_total ho hs hlt
  | none =>
    simp only [hi] at h
    obtain ⟨o, sz, ho, hs, rfl⟩ := regIndices_eq h
    intro q hq
    simp only [List.mem_map, List.mem_range] at hq
    obtain ⟨j, hj, rfl⟩ := hq
    have := flat_lt_total ho hs hj
    omega

/-- a list of arguments is read element-wise, in order -/
theorem anylist_elementwise {rs : Regs} {as : List Arg} {l : List Nat}
    (h : anylistIndices rs as = some l) :
    ∃ ls, as.mapM (argIndices rs) = some ls ∧ l = ls.flatten := by
  unfold anylistIndices at h
  simp only at h
  split at h
  · simp at h
  · simp only [Option.map_eq_some_iff] at h
    obtain ⟨ls, hls, rfl⟩ := h
    exact ⟨ls, hls, rfl⟩

theorem mapM_flatten_lt {rs : Regs} (as : List Arg) (ls : List (List Nat))
    (h : as.mapM (argIndices rs) = some ls) (hr : ∀ a ∈ as, a.inRange rs) :
    ∀ q ∈ ls.flatten, q < totalSize rs := by
  induction as generalizing ls with
  | nil =>
    simp only [List.mapM_nil, Option.pure_def, Option.some.injEq] at h
    subst h; simp
  | cons a as ih =>
    simp only [List.mapM_cons, Option.pure_def, Option.bind_eq_bind, Option.bind_eq_some_iff,
      Option.some.injEq] at h
    obtain ⟨l, hl, ls', hls', rfl⟩ := h
    intro q hq
    simp only [List.flatten_cons, List.mem_append] at hq
    rcases hq with hq | hq
    · exact argIndices_lt_total hl (hr a (by simp)) q hq
    · exact ih ls' hls' (fun a' ha' => hr a' (by simp [ha'])) q hq

/-- all qubits of a list of in-range arguments lie inside the circuit -/
theorem anylist_lt_total {rs : Regs} {as : List Arg} {l : List Nat}
    (h : anylistIndices rs as = some l) (hr : ∀ a ∈ as, a.inRange rs) :
    ∀ q ∈ l, q < totalSize rs := by
  obtain ⟨ls, hls, rfl⟩ := anylist_elementwise h
  exact mapM_flatten_lt as ls hls hr

end BqVerif.Qasm
