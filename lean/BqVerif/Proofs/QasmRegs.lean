import BqVerif.Model.QasmElab
/-! Register arithmetic of the OpenQASM reader: `firstIndex`, `regSize`, `regIndices`. -/
namespace BqVerif.Qasm

theorem totalSize_cons (m : String) (s : Nat) (rest : Regs) :
    totalSize ((m, s) :: rest) = s + totalSize rest := by
  simp [totalSize]

theorem firstIndex_cons (m : String) (s : Nat) (rest : Regs) (n : String) :
    firstIndex ((m, s) :: rest) n =
      if m = n then some 0 else (firstIndex rest n).map (· + s) := rfl

theorem regSize_cons (m : String) (s : Nat) (rest : Regs) (n : String) :
    regSize ((m, s) :: rest) n = if m = n then some s else regSize rest n := rfl

/-- a looked-up qubit lies inside the circuit -/
theorem flat_lt_total {rs : Regs} {n : String} {o sz i : Nat}
    (ho : firstIndex rs n = some o) (hs : regSize rs n = some sz) (hi : i < sz) :
    o + i < totalSize rs := by
  induction rs generalizing o with
  | nil => simp [firstIndex] at ho
  | cons hd rest ih =>
    obtain ⟨m, s⟩ := hd
    rw [firstIndex_cons] at ho
    rw [regSize_cons] at hs
    rw [totalSize_cons]
    by_cases hm : m = n
    · simp [hm] at ho hs
      omega
    · simp [hm] at ho hs
      obtain ⟨o', ho', rfl⟩ := ho
      have := ih ho' hs
      omega

/-- two different (register, index) pairs never name the same qubit -/
theorem flat_inj {rs : Regs} {n n' : String} {o sz i o' sz' i' : Nat}
    (ho : firstIndex rs n = some o) (hs : regSize rs n = some sz) (hi : i < sz)
    (ho' : firstIndex rs n' = some o') (hs' : regSize rs n' = some sz') (hi' : i' < sz')
    (h : o + i = o' + i') : n = n' ∧ i = i' := by
  induction rs generalizing o o' with
  | nil => simp [firstIndex] at ho
  | cons hd rest ih =>
    obtain ⟨m, s⟩ := hd
    rw [firstIndex_cons] at ho ho'
    rw [regSize_cons] at hs hs'
    by_cases hm : m = n <;> by_cases hm' : m = n'
    · simp [hm] at ho hs; simp [hm'] at ho' hs'
      subst hm; subst hm'
      exact ⟨rfl, by omega⟩
    · simp [hm] at ho hs; simp [hm'] at ho' hs'
      obtain ⟨a, _, rfl⟩ := ho'
      omega
    · simp [hm] at ho hs; simp [hm'] at ho' hs'
      obtain ⟨a, _, rfl⟩ := ho
      omega
    · simp [hm] at ho hs; simp [hm'] at ho' hs'
      obtain ⟨a, ha, rfl⟩ := ho
      obtain ⟨b, hb, rfl⟩ := ho'
      exact ih ha hs hb hs' (by omega)

theorem firstIndex_isSome_mem {rs : Regs} {n : String} {o : Nat}
    (h : firstIndex rs n = some o) : n ∈ rs.map Prod.fst := by
  induction rs generalizing o with
  | nil => simp [firstIndex] at h
  | cons hd rest ih =>
    obtain ⟨m, s⟩ := hd
    rw [firstIndex_cons] at h
    by_cases hm : m = n
    · simp [hm]
    · simp [hm] at h
      obtain ⟨a, ha, _⟩ := h
      simp [ih ha]

/-- with distinct register names every qubit of the circuit has a (register, index) name -/
theorem flat_surj {rs : Regs} (hnd : (rs.map Prod.fst).Nodup) {k : Nat}
    (hk : k < totalSize rs) :
    ∃ n o sz i, firstIndex rs n = some o ∧ regSize rs n = some sz ∧ i < sz ∧ o + i = k := by
  induction rs generalizing k with
  | nil => simp [totalSize] at hk
  | cons hd rest ih =>
    obtain ⟨m, s⟩ := hd
    rw [totalSize_cons] at hk
    by_cases hks : k < s
    · exact ⟨m, 0, s, k, by simp [firstIndex_cons], by simp [regSize_cons], hks, by omega⟩
    · have hnd' : (rest.map Prod.fst).Nodup := by
        simp only [List.map_cons, List.nodup_cons] at hnd
        exact hnd.2
      obtain ⟨n, o, sz, i, ho, hs, hi, hoi⟩ := ih hnd' (k := k - s) (by omega)
      have hne : m ≠ n := by
        intro hmn
        simp only [List.map_cons, List.nodup_cons] at hnd
        exact hnd.1 (hmn ▸ firstIndex_isSome_mem ho)
      exact ⟨n, o + s, sz, i, by simp [firstIndex_cons, hne, ho], by simp [regSize_cons, hne, hs],
        hi, by omega⟩

/-- a whole register is its `size` consecutive qubits -/
theorem regIndices_eq {rs : Regs} {n : String} {l : List Nat} (h : regIndices rs n = some l) :
    ∃ o sz, firstIndex rs n = some o ∧ regSize rs n = some sz ∧
      l = (List.range sz).map (· + o) := by
  unfold regIndices at h
  split at h
  · rename_i o sz ho hs
    simp at h
    exact ⟨o, sz, ho, hs, h.symm⟩
  · simp at h

end BqVerif.Qasm
