import BqVerif.Model.QasmElab
/-! Register arithmetic of the OpenQASM reader: `firstIndex`, `regSize`, `regIndices`. -/
namespace BqVerif.Qasm

theorem totalSize_cons (m : String) (s : Nat) (rest : Regs) :
    totalSize ((m, s) :: rest) = s + totalSize rest := by
  simp [totalSize]

theorem firstIndex_cons (m : String) (s : Nat) (rest : Regs) (n : String) :
    firstIndex ((m, s) :: rest) n =
      if m = n then some 0 else (firstIndex rest n).map (· + s) := rfl

theorem regSize_cons (m : String) (s : Nat) (rest : Regs) (n : String) :
    regSize ((m, s) :: rest) n = if m = n then some s else regSize rest n := rfl

/-- a looked-up qubit lies inside the circuit -/
theorem flat_lt_total {rs : Regs} {n : String} {o sz i : Nat}
    (ho : firstIndex rs n = some o) (hs : regSize rs n = some sz) (hi : i < sz) :
    o + i < totalSize rs := by
  induction rs generalizing o with
  | nil => simp [firstIndex] at ho
  | cons hd rest ih =>
    obtain ⟨m, s⟩ := hd
    rw [firstIndex_cons] at ho
    rw [regSize_cons] at hs
    rw [totalSize_cons]
    by_cases hm : m = n
    · simp [hm] at ho hs
      omega
    · simp [hm] at ho hs
      obtain ⟨o', ho', rfl⟩ := ho
      have := ih ho' hs
      omega

/-- two different (register, index) pairs never name the same qubit -/
theorem flat_inj {rs : Regs} {n n' : String} {o sz i o' sz' i' : Nat}
    (ho : firstIndex rs n = some o) (hs : regSize rs n = some sz) (hi : i < sz)
    (ho' : firstIndex rs n' = some o') (hs' : regSize rs n' = some sz') (hi' : i' < sz')
    (h : o + i = o' + i') : n = n' ∧ i = i' := by
  induction rs generalizing o o' with
  | nil => simp [firstIndex] at ho
  | cons hd rest ih =>
    obtain ⟨m, s⟩ := hd
    rw [firstIndex_cons] at ho ho'
    rw [regSize_cons] at hs hs'
    by_cases hm : m = n <;> by_cases hm' : m = n'
    · simp [hm] at ho hs; simp [hm'] at ho' hs'
      subst hm; subst hm'
      exact ⟨rfl, by omega⟩
    · simp [hm] at ho hs; simp [hm'] at ho' hs'
      obtain ⟨a, _, rfl⟩ := ho'
      omega
    · simp [hm] at ho hs; simp [hm'] at ho' hs'
      obtain ⟨a, _, rfl⟩ := ho
      omega
    · simp [hm] at ho hs; simp [hm'] at ho' hs'
      obtain ⟨a, ha, rfl⟩ := ho
      obtain ⟨b, hb, rfl⟩ := ho'
      exact ih ha hs hb hs' (by omega)

theorem firstIndex_isSome_mem {rs : Regs} {n : String} {o : Nat}
    (h : firstIndex rs n = some o) : n ∈ rs.map Prod.fst := by
  induction rs generalizing o with
  | nil => simp [firstIndex] at h
  | cons hd rest ih =>
    obtain ⟨m, s⟩ := hd
    rw [firstIndex_cons] at h
    by_cases hm : m = n
    · simp [hm]
    · simp [hm] at h
      obtain ⟨a, ha, _⟩ := h
      simp [ih ha]

/-- with distinct register names every qubit of the circuit has a (register, index) name -/
theorem flat_surj {rs : Regs} (hnd : (rs.map Prod.fst).Nodup) {k : Nat}
    (hk : k < totalSize rs) :
    ∃ n o sz i, firstIndex rs n = some o ∧ regSize rs n = some sz ∧ i < sz ∧ o + i = k := by
  induction rs generalizing k with
  | nil => simp [totalSize] at hk
  | cons hd rest ih =>
    obtain ⟨m, s⟩ := hd
    rw [totalSize_cons] at hk
    by_cases hks : k < s
    · exact ⟨m, 0, s, k, by simp [firstIndex_cons], by simp [regSize_cons], hks, by omega⟩
    · have hnd' : (rest.map Prod.fst).Nodup := by
        simp only [List.map_cons, List.nodup_cons] at hnd
        exact hnd.2
      obtain ⟨n, o, sz, i, ho, hs, hi, hoi⟩ := ih hnd' (k := k - s) (by omega)
      have hne : m ≠ n := by
        intro hmn
        simp only [List.map_cons, List.nodup_cons] at hnd
        exact hnd.1 (hmn ▸ firstIndex_isSome_mem ho)
      exact ⟨n, o + s, sz, i, by simp [firstIndex_cons, hne, ho], by simp [regSize_cons, hne, hs],
        hi, by omega⟩

/-- a whole register is its `size` consecutive qubits -/
theorem regIndices_eq {rs : Regs} {n : String} {l : List Nat} (h : regIndices rs n = some l) :
    ∃ o sz, firstIndex rs n = some o ∧ regSize rs n = some sz ∧
      l = (List.range sz).map (· + o) := by
  unfold regIndices at h
  split at h
  · rename_i o sz ho hs
    simp at h
    exact ⟨o, sz, ho, hs, h.symm⟩
  · simp at h

theorem firstIndex_some_regSize {rs : Regs} {n : String} {o : Nat}
    (h : firstIndex rs n = some o) : ∃ sz, regSize rs n = some sz := by
  induction rs generalizing o with
  | nil => simp [firstIndex] at h
  | cons hd rest ih =>
    obtain ⟨m, s⟩ := hd
    rw [firstIndex_cons] at h
    rw [regSize_cons]
    by_cases hm : m = n
    · exact ⟨s, by simp [hm]⟩
    · simp [hm] at h
      obtain ⟨a, ha, _⟩ := h
      simpa [hm] using ih ha

/-- `convert_indexed_qubit` accepts exactly the indices inside the register -/
theorem indexedQubit_eq {rs : Regs} {n : String} {i q : Nat} (h : indexedQubit rs n i = some q) :
    ∃ o sz, firstIndex rs n = some o ∧ regSize rs n = some sz ∧ i < sz ∧ q = o + i := by
  unfold indexedQubit at h
  split at h
  · rename_i o sz ho hs
    split at h
    · rename_i hlt
      simp only [Option.some.injEq] at h
      exact ⟨o, sz, ho, hs, hlt, h.symm⟩
    · simp at h
  · simp at h

theorem indexedQubit_of {rs : Regs} {n : String} {o sz i : Nat}
    (ho : firstIndex rs n = some o) (hs : regSize rs n = some sz) (hi : i < sz) :
    indexedQubit rs n i = some (o + i) := by
  simp [indexedQubit, ho, hs, hi]

/-- the qubits of an accepted argument lie inside the circuit -/
theorem argIndices_lt_total {rs : Regs} {a : Arg} {l : List Nat}
    (h : argIndices rs a = some l) : ∀ q ∈ l, q < totalSize rs := by
  unfold argIndices at h
  cases hi : a.idx with
  | some i =>
    simp only [hi, Option.map_eq_some_iff] at h
    obtain ⟨q0, hq0, rfl⟩ := h
    obtain ⟨o, sz, ho, hs, hlt, rfl⟩ := indexedQubit_eq hq0
    intro q hq
    simp only [List.mem_cons, List.not_mem_nil, or_false] at hq
    subst hq
    exact flat_lt_total ho hs hlt
  | none =>
    simp only [hi] at h
    obtain ⟨o, sz, ho, hs, rfl⟩ := regIndices_eq h
    intro q hq
    simp only [List.mem_map, List.mem_range] at hq
    obtain ⟨j, hj, rfl⟩ := hq
    have := flat_lt_total ho hs hj
    omega

/-- a list of arguments is read element-wise, in order -/
theorem anylist_elementwise {rs : Regs} {as : List Arg} {l : List Nat}
    (h : anylistIndices rs as = some l) :
    ∃ ls, as.mapM (argIndices rs) = some ls ∧ l = ls.flatten := by
  unfold anylistIndices at h
  simp only [Option.map_eq_some_iff] at h
  obtain ⟨ls, hls, rfl⟩ := h
  exact ⟨ls, hls, rfl⟩

theorem mapM_flatten_lt {rs : Regs} (as : List Arg) (ls : List (List Nat))
    (h : as.mapM (argIndices rs) = some ls) : ∀ q ∈ ls.flatten, q < totalSize rs := by
  induction as generalizing ls with
  | nil =>
    simp only [List.mapM_nil, Option.pure_def, Option.some.injEq] at h
    subst h; simp
  | cons a as ih =>
    simp only [List.mapM_cons, Option.pure_def, Option.bind_eq_bind, Option.bind_eq_some_iff,
      Option.some.injEq] at h
    obtain ⟨l, hl, ls', hls', rfl⟩ := h
    intro q hq
    simp only [List.flatten_cons, List.mem_append] at hq
    rcases hq with hq | hq
    · exact argIndices_lt_total hl q hq
    · exact ih ls' hls' q hq

/-- all qubits of an accepted argument list lie inside the circuit -/
theorem anylist_lt_total {rs : Regs} {as : List Arg} {l : List Nat}
    (h : anylistIndices rs as = some l) : ∀ q ∈ l, q < totalSize rs := by
  obtain ⟨ls, hls, rfl⟩ := anylist_elementwise h
  exact mapM_flatten_lt as ls hls


/-! ## the classical bit index of `measure q[k] -> c[j]` -/

/-- an accepted classical bit index is inside its register -/
theorem clbitOk_lt {cregs : Regs} {name : String} {j sz : Nat}
    (hs : regSize cregs name = some sz) (h : clbitOk cregs name j = true) : j < sz := by
  induction cregs with
  | nil => simp [regSize] at hs
  | cons r rest ih =>
    obtain ⟨n, s⟩ := r
    simp only [clbitOk, List.any_cons, Bool.not_eq_true', Bool.or_eq_false_iff,
      Bool.and_eq_false_iff, beq_eq_false_iff_ne, ne_eq, decide_eq_false_iff_not, Nat.not_le] at h
    simp only [regSize] at hs
    split at hs
    · rename_i hn
      simp only [Option.some.injEq] at hs
      subst hs
      rcases h.1 with h1 | h1
      · exact absurd hn h1
      · exact h1
    · exact ih hs (by simp [clbitOk, h.2])

/-- with distinct register names the check is exactly "below the size of the register" -/
theorem clbitOk_of_lt {cregs : Regs} (hnd : (cregs.map Prod.fst).Nodup) {name : String}
    {j sz : Nat} (hs : regSize cregs name = some sz) (hj : j < sz) :
    clbitOk cregs name j = true := by
  induction cregs with
  | nil => simp [regSize] at hs
  | cons r rest ih =>
    obtain ⟨n, s⟩ := r
    simp only [List.map_cons, List.nodup_cons] at hnd
    simp only [regSize] at hs
    simp only [clbitOk, List.any_cons, Bool.not_eq_true', Bool.or_eq_false_iff,
      Bool.and_eq_false_iff, beq_eq_false_iff_ne, ne_eq, decide_eq_false_iff_not, Nat.not_le]
    split at hs
    · rename_i hn
      simp only [Option.some.injEq] at hs
      subst hs
      refine ⟨Or.inr hj, ?_⟩
      rw [List.any_eq_false]
      intro r hr
      have : r.1 ≠ name := by
        intro he
        apply hnd.1
        rw [hn, ← he]
        exact List.mem_map_of_mem hr
      simp [this]
    · rename_i hn
      refine ⟨Or.inl hn, ?_⟩
      have := ih hnd.2 hs
      simpa [clbitOk] using this

end BqVerif.Qasm
