import BqVerif.Proofs.Trace
import BqVerif.Proofs.CircInvB
import BqVerif.Proofs.CircIter
import BqVerif.Model.CircBlocks
/-! Soundness of the relational validators: a layout accepted by `validStraighten` /
`validFold` denotes the same unitary as the circuit before the call, in every semantics. -/
namespace BqVerif.Circ

variable {M : Type} [Monoid M]

def den (sem : Op → M) (l : List Op) : M := (l.map sem).prod

theorem sameTimelines_spec (n : Nat) (l1 l2 : List Op) (h : sameTimelines n l1 l2 = true)
    (h1 : ∀ o ∈ l1, ∀ q ∈ o.loc, q < n) (h2 : ∀ o ∈ l2, ∀ q ∈ o.loc, q < n) :
    ∀ q, proj q l1 = proj q l2 := by
  intro q
  by_cases hq : q < n
  · simp only [sameTimelines, List.all_eq_true, List.mem_range, beq_iff_eq] at h
    exact h q hq
  · have e : ∀ (l : List Op), (∀ o ∈ l, ∀ q ∈ o.loc, q < n) → proj q l = [] := by
      intro l hl
      simp only [proj, List.filter_eq_nil_iff, Op.on]
      intro o ho
      have : q ∉ o.loc := fun hm => hq (hl o ho q hm)
      simpa using this
    rw [e l1 h1, e l2 h2]

theorem inv_iter_locs (c : Circ) (hinv : c.Inv) :
    (∀ o ∈ c.iter, o.loc ≠ []) ∧ (∀ o ∈ c.iter, ∀ q ∈ o.loc, q < c.numQudits) := by
  constructor
  · intro o ho
    rw [mem_iter] at ho
    simp only [Circ.ops, List.mem_flatten] at ho
    obtain ⟨cy, hcy, ho⟩ := ho
    exact (hinv.2.2 cy hcy o ho).1
  · intro o ho
    rw [mem_iter] at ho
    simp only [Circ.ops, List.mem_flatten] at ho
    obtain ⟨cy, hcy, ho⟩ := ho
    exact (hinv.2.2 cy hcy o ho).2.2.1

/-- **straighten**: any grid the validator accepts has the same denotation. -/
theorem validStraighten_sound (sem : Op → M)
    (hcomm : ∀ a b, Indep a b → sem a * sem b = sem b * sem a)
    (c c' : Circ) (net : Int) (hinv : c.Inv) (h : validStraighten c c' net = none) :
    c'.Inv ∧ den sem c'.iter = den sem c.iter := by
  unfold validStraighten at h
  split at h; · simp at h
  rename_i hrad
  split at h; · simp at h
  rename_i htl
  split at h; · simp at h
  split at h; · simp at h
  split at h; · simp at h
  rename_i hib
  have hinv' : c'.Inv := (invB_iff c').1 (by simpa using hib)
  refine ⟨hinv', ?_⟩
  have hr : c'.radixes = c.radixes := by simpa using hrad
  have hn : c'.numQudits = c.numQudits := by simp [Circ.numQudits, hr]
  have l1 := inv_iter_locs c hinv
  have l2 := inv_iter_locs c' hinv'
  have htl' : sameTimelines c.numQudits c.iter c'.iter = true := by simpa using htl
  have := sameTimelines_spec _ _ _ htl' l1.2 (by rw [← hn]; exact l2.2)
  unfold den
  exact (trace_equiv sem hcomm c.iter c'.iter l1.1 l2.1 this).symm

end BqVerif.Circ

namespace BqVerif.Circ
variable {M : Type} [Monoid M]

theorem permOps_mem (l1 l2 : List Op) (h : permOps l1 l2 = true) : ∀ x ∈ l1, x ∈ l2 := by
  induction l1 generalizing l2 with
  | nil => simp
  | cons a t ih =>
    simp only [permOps, Bool.and_eq_true, List.contains_iff_mem] at h
    intro x hx
    rcases List.mem_cons.mp hx with rfl | hx
    · exact h.1
    · exact List.mem_of_mem_erase (ih _ h.2 x hx)

theorem iter_eq_map_iterCyc (c : Circ) : c.iter = c.iterCyc.map Prod.snd := by
  unfold Circ.iter Circ.iterCyc
  have key : ∀ (l : List Cycle) (i : Nat),
      l.flatMap (sortBy Op.head) =
        ((l.zipIdx i).flatMap (fun x => (sortBy Op.head x.1).map (fun o => (x.2, o)))).map Prod.snd := by
    intro l
    induction l with
    | nil => intro i; simp
    | cons a t ih =>
      intro i
      simp only [List.zipIdx_cons, List.flatMap_cons, List.map_append, List.map_map]
      rw [← ih (i + 1)]
      congr 1
      simp [Function.comp_def]
  exact key c.cycles 0

theorem den_flatMap (sem : Op → M) {α : Type} (l : List α) (g : α → List Op) :
    den sem (l.flatMap g) = (l.map (fun x => den sem (g x))).prod := by
  induction l with
  | nil => simp [den]
  | cons a t ih =>
    simp only [List.flatMap_cons, List.map_cons, List.prod_cons]
    rw [← ih]
    simp [den, List.map_append, List.prod_append]

theorem mem_iterCyc_ops (c : Circ) (k : Nat) (o : Op) (h : (k, o) ∈ c.iterCyc) : o ∈ c.iter := by
  rw [iter_eq_map_iterCyc]
  exact List.mem_map.mpr ⟨(k, o), h, rfl⟩

/-- **fold**: any grid the validator accepts denotes the same unitary as before the call,
provided the semantics reads a block operation as the ordered product of its contents. -/
theorem validFold_sound (sem : Op → M)
    (hcomm : ∀ a b, Indep a b → sem a * sem b = sem b * sem a)
    (b : Blocks) (hblock : ∀ o inner, expandOp b o = some inner → sem o = den sem inner)
    (c : Circ) (r : Region) (c' : Circ) (pt : Nat × Nat) (hinv : c.Inv)
    (h : validFold b c r c' pt = none) :
    c'.Inv ∧ den sem c'.iter = den sem c.iter := by
  unfold validFold at h
  split at h; · simp at h
  rename_i hrad
  split at h; · simp at h
  rename_i blk hcell
  dsimp only at h
  split at h; · simp at h
  split at h; · simp at h
  rename_i inner hexp
  split at h; · simp at h
  rename_i hperm
  split at h; · simp at h
  rename_i htl
  split at h; · simp at h
  split at h; · simp at h
  rename_i hib
  have hinv' : c'.Inv := (invB_iff c').1 (by simpa using hib)
  refine ⟨hinv', ?_⟩
  have l1 := inv_iter_locs c hinv
  have l2 := inv_iter_locs c' hinv'
  -- ops of the block body are ops of `c`
  have hin : ∀ x ∈ inner, x ∈ c.iter := by
    intro x hx
    have hp : permOps inner (c.opsIn r) = true := by simpa using hperm
    have := permOps_mem _ _ hp x hx
    simp only [Circ.opsIn, List.mem_filterMap] at this
    obtain ⟨⟨k, o⟩, hko, hsome⟩ := this
    split at hsome
    · injection hsome with hsome; subst hsome; exact mem_iterCyc_ops c k o hko
    · simp at hsome
  let f : Nat × Op → List Op := fun x => if x.1 = pt.1 ∧ x.2 = blk then inner else [x.2]
  have hexp_locs : (∀ o ∈ c'.iterCyc.flatMap f, o.loc ≠ []) ∧
      (∀ o ∈ c'.iterCyc.flatMap f, ∀ q ∈ o.loc, q < c.numQudits) := by
    have hr : c'.radixes = c.radixes := by simpa using hrad
    have hn : c'.numQudits = c.numQudits := by simp [Circ.numQudits, hr]
    constructor
    · intro o ho
      rw [List.mem_flatMap] at ho
      obtain ⟨⟨k, x⟩, hkx, ho⟩ := ho
      simp only [f] at ho
      split at ho
      · exact l1.1 o (hin o ho)
      · simp only [List.mem_singleton] at ho; subst ho
        exact l2.1 _ (mem_iterCyc_ops c' k _ hkx)
    · intro o ho
      rw [List.mem_flatMap] at ho
      obtain ⟨⟨k, x⟩, hkx, ho⟩ := ho
      simp only [f] at ho
      split at ho
      · exact l1.2 o (hin o ho)
      · simp only [List.mem_singleton] at ho; subst ho
        rw [← hn]; exact l2.2 _ (mem_iterCyc_ops c' k _ hkx)
  have htl' : sameTimelines c.numQudits c.iter (c'.iterCyc.flatMap f) = true := by simpa using htl
  have hproj := sameTimelines_spec _ _ _ htl' l1.2 hexp_locs.2
  have e1 : den sem c.iter = den sem (c'.iterCyc.flatMap f) :=
    trace_equiv sem hcomm _ _ l1.1 hexp_locs.1 hproj
  -- each expanded item has the denotation of the op it came from
  have e2 : den sem (c'.iterCyc.flatMap f) = den sem c'.iter := by
    rw [den_flatMap, iter_eq_map_iterCyc]
    unfold den
    rw [List.map_map]
    congr 1
    apply List.map_congr_left
    intro x _
    simp only [f, Function.comp]
    split
    · rename_i hc
      rw [hc.2, hblock blk inner hexp]; rfl
    · simp
  rw [e1, e2]

end BqVerif.Circ
