import BqVerif.Model.QasmPrint
import BqVerif.Proofs.QasmInline
/-! # The writer's statement format is read back (tokens)

For an operation list over gates of the table, the reader applied to the token string of the
writer's text gives back the same operations (parameters = the values of the printed
literals).  Characters → tokens is tied to the code by the run (`lex (printProgram …) =
programToks …` is checked on every printed circuit). -/
namespace BqVerif.Qasm

variable {V : Type}

/-! ## decimal index round trip -/

theorem isDigit_of_charIsDigit {c : Char} (h : c.isDigit = true) : isDigit c = true := by
  simp only [Char.isDigit, Bool.and_eq_true, decide_eq_true_eq] at h
  simp only [isDigit, Bool.and_eq_true, decide_eq_true_eq]
  constructor
  · exact Char.le_def.mpr (by simpa using h.1)
  · exact Char.le_def.mpr (by simpa using h.2)

theorem toString_toList (n : Nat) : (toString n).toList = Nat.toDigits 10 n := by
  show (Nat.repr n).toList = _
  simp [Nat.repr]

theorem digitsVal_eq (cs : List Char) : digitsVal cs = Nat.ofDigitChars 10 cs 0 := rfl

theorem toDigits_head_ne_zero (n : Nat) (hn : 0 < n) :
    (Nat.toDigits 10 n).head? ≠ some '0' := by
  induction n using Nat.strongRecOn with
  | _ n ih =>
    by_cases h : n < 10
    · rw [Nat.toDigits_of_lt_base h]
      have : n ≠ 0 := by omega
      match n, h, this with
      | 1, _, _ | 2, _, _ | 3, _, _ | 4, _, _ | 5, _, _ | 6, _, _ | 7, _, _ | 8, _, _
      | 9, _, _ => decide
    · have h10 : 10 ≤ n := by omega
      rw [Nat.toDigits_of_base_le (by decide) h10]
      have hpos : 0 < n / 10 := by omega
      have := ih (n / 10) (by omega) hpos
      have hne : Nat.toDigits 10 (n / 10) ≠ [] := Nat.toDigits_ne_nil
      cases hd : Nat.toDigits 10 (n / 10) with
      | nil => exact absurd hd hne
      | cons a as => simpa [hd] using this

theorem parseNNInt_toString (n : Nat) : parseNNInt (toString n) = some n := by
  unfold parseNNInt
  simp only [toString_toList]
  have hne : Nat.toDigits 10 n ≠ [] := Nat.toDigits_ne_nil
  have hall : (Nat.toDigits 10 n).all isDigit = true := by
    simp only [List.all_eq_true]
    intro c hc
    exact isDigit_of_charIsDigit (Nat.isDigit_of_mem_toDigits (by decide) (by decide) hc)
  have hval : digitsVal (Nat.toDigits 10 n) = n := by
    rw [digitsVal_eq]; exact Nat.ofDigitChars_ten_toDigits
  have hemp : (Nat.toDigits 10 n).isEmpty = false := by
    cases h : Nat.toDigits 10 n with
    | nil => exact absurd h hne
    | cons a as => rfl
  by_cases hn : n = 0
  · subst hn; decide
  · have hhead := toDigits_head_ne_zero n (by omega)
    have hlead : ((Nat.toDigits 10 n).length > 1 && (Nat.toDigits 10 n).head? == some '0')
        = false := by
      cases h : Nat.toDigits 10 n with
      | nil => rfl
      | cons a as =>
        rw [h] at hhead
        simp only [List.head?_cons, ne_eq, Option.some.injEq] at hhead
        simp [hhead]
    simp [hemp, hall, hlead, hval]

/-! ## locations -/

def qArg (q : Nat) : Arg := ⟨"q", some q⟩

theorem pArg_loc (q : Nat) (r : List Tok) : pArg (locToks q ++ r) = some (qArg q, r) := by
  have h : parseNNInt (Nat.repr q) = some q := parseNNInt_toString q
  simp [locToks, pArg, pIndex, h, qArg]

theorem intersperse_cons_cons (sep : Tok) (x y : List Tok) (zs : List (List Tok)) :
    intersperseTok sep (x :: y :: zs) = x ++ sep :: intersperseTok sep (y :: zs) := rfl

/-- `q[a], q[b], …` followed by a token that is not a comma -/
theorem pArgList_locs (loc : List Nat) (hne : loc ≠ []) (f : Nat) (hf : loc.length ≤ f)
    (r : List Tok) (hr : ∀ r', r ≠ .sym "," :: r') :
    pArgList f (intersperseTok (.sym ",") (loc.map locToks) ++ r) = some (loc.map qArg, r) := by
  induction loc generalizing f with
  | nil => exact absurd rfl hne
  | cons a as ih =>
    obtain ⟨k, rfl⟩ : ∃ k, f = k + 1 := ⟨f - 1, by simp at hf; omega⟩
    cases as with
    | nil =>
      simp only [List.map_cons, List.map_nil, intersperseTok]
      unfold pArgList
      rw [pArg_loc]
      cases r with
      | nil => rfl
      | cons t r' =>
        have := hr r'
        split <;> simp_all
    | cons b bs =>
      simp only [List.map_cons, intersperse_cons_cons, List.append_assoc, List.cons_append]
      unfold pArgList
      rw [pArg_loc]
      have := ih (by simp) k (by simp at hf ⊢; omega)
      simp only [List.map_cons] at this
      simp [this]

/-! ## parameters -/

/-- the Lark tree of a printed parameter -/
def PLit.qe (p : PLit) : QE V := if p.neg then .usub (.num p.text) else .num p.text

theorem pExpSeg_lit (p : PLit) : (pExpSeg (PLit.toks p) : Option (QE V)) = some p.qe := by
  obtain ⟨neg, text⟩ := p
  cases neg <;> rfl

theorem splitParen_toks (p : PLit) (rest cur : List Tok) (acc : List (List Tok)) :
    splitParen 0 (PLit.toks p ++ rest) cur acc
      = splitParen 0 rest ((PLit.toks p).reverse ++ cur) acc := by
  obtain ⟨neg, text⟩ := p
  cases neg <;> simp [PLit.toks, splitParen]

theorem splitParen_params (ps : List PLit) (hne : ps ≠ []) (acc : List (List Tok))
    (r : List Tok) :
    splitParen 0 (intersperseTok (.sym ",") (ps.map PLit.toks) ++ .sym ")" :: r) [] acc
      = some (acc.reverse ++ ps.map PLit.toks, r) := by
  induction ps generalizing acc with
  | nil => exact absurd rfl hne
  | cons p ps' ih =>
    cases ps' with
    | nil =>
      simp only [List.map_cons, List.map_nil, intersperseTok]
      rw [splitParen_toks]
      simp [splitParen]
    | cons p2 ps'' =>
      simp only [List.map_cons, intersperse_cons_cons, List.append_assoc, List.cons_append]
      rw [splitParen_toks]
      have := ih (by simp) (PLit.toks p :: acc)
      simp only [List.map_cons] at this
      simp [splitParen, this]

theorem toks_head_ne_rparen (p : PLit) (rest : List Tok) :
    ∀ r, PLit.toks p ++ rest ≠ .sym ")" :: r := by
  obtain ⟨neg, text⟩ := p
  cases neg <;> simp [PLit.toks]

theorem mapM_pExpSeg (ps : List PLit) :
    (ps.mapM (pExpSeg ∘ PLit.toks) : Option (List (QE V))) = some (ps.map PLit.qe) := by
  induction ps with
  | nil => rfl
  | cons p ps ih => simp [List.mapM_cons, pExpSeg_lit, ih]

/-- `p1, p2, …)` after the opening parenthesis -/
theorem pParams_lits (ps : List PLit) (hne : ps ≠ []) (r : List Tok) :
    (pParams (intersperseTok (.sym ",") (ps.map PLit.toks) ++ .sym ")" :: r)
      : Option (List (QE V) × List Tok)) = some (ps.map PLit.qe, r) := by
  unfold pParams
  have hsp := splitParen_params ps hne [] r
  simp only [List.reverse_nil, List.nil_append] at hsp
  split
  · rename_i r' heq
    cases ps with
    | nil => exact absurd rfl hne
    | cons p ps' =>
      cases ps' with
      | nil =>
        simp only [List.map_cons, List.map_nil, intersperseTok] at heq
        exact absurd heq (toks_head_ne_rparen p _ r')
      | cons p2 ps'' =>
        simp only [List.map_cons, intersperse_cons_cons, List.append_assoc] at heq
        exact absurd heq (toks_head_ne_rparen p _ r')
  · rw [hsp]
    simp [List.mapM_map, mapM_pExpSeg]

/-! ## one statement -/

/-- the statement the writer's line is -/
def POp.stmt (o : POp) : Stmt V :=
  if o.name = "barrier" then .barrier (o.loc.map qArg)
  else if o.name = "reset" then .reset (qArg (o.loc.headD 0))
  else .call (.gate o.name (o.params.map PLit.qe) (o.loc.map qArg))

/-- the three kinds of lines the writer emits through `Gate.get_qasm` -/
def POp.Shape (o : POp) : Prop :=
  (o.name = "barrier" ∧ o.params = [] ∧ o.loc ≠ []) ∨
  (o.name = "reset" ∧ o.params = [] ∧ ∃ q, o.loc = [q]) ∨
  (keywords.contains o.name = false ∧ o.loc ≠ [])

theorem locToks_length (q : Nat) : (locToks q).length = 4 := rfl

theorem intersperse_locs_length (loc : List Nat) :
    loc.length ≤ (intersperseTok (.sym ",") (loc.map locToks)).length := by
  induction loc with
  | nil => simp [intersperseTok]
  | cons a as ih =>
    cases as with
    | nil => simp [intersperseTok, locToks_length]
    | cons b bs =>
      rw [List.map_cons, List.map_cons, intersperse_cons_cons, List.length_append,
        List.length_cons, locToks_length]
      rw [List.map_cons] at ih
      simp only [List.length_cons] at ih ⊢
      omega

theorem intersperse_locs_head (loc : List Nat) (hne : loc ≠ []) (r : List Tok) :
    ∃ t, intersperseTok (.sym ",") (loc.map locToks) ++ r = .id "q" :: t := by
  cases loc with
  | nil => exact absurd rfl hne
  | cons a as =>
    cases as with
    | nil => exact ⟨_, rfl⟩
    | cons b bs => exact ⟨_, rfl⟩

theorem pGateRest_noparams (name : String) (ts : List Tok) (h1 : ∀ r, ts ≠ .sym "(" :: r)
    (args : List Arg) (rest : List Tok)
    (harg : pArgList (ts.length + 1) ts = some (args, .sym ";" :: rest)) :
    (pGateRest name ts : Option (GCall V × List Tok)) = some (.gate name [] args, rest) := by
  unfold pGateRest
  split
  · rename_i r
    exact absurd rfl (h1 r)
  · simp [harg]

theorem pGateRest_locs (name : String) (loc : List Nat) (hne : loc ≠ []) (rest : List Tok) :
    (pGateRest name (intersperseTok (.sym ",") (loc.map locToks) ++ .sym ";" :: rest)
      : Option (GCall V × List Tok)) = some (.gate name [] (loc.map qArg), rest) := by
  obtain ⟨t, ht⟩ := intersperse_locs_head loc hne (.sym ";" :: rest)
  have hlen := intersperse_locs_length loc
  apply pGateRest_noparams
  · intro r h; rw [ht] at h; simp at h
  · exact pArgList_locs loc hne _ (by simp only [List.length_append, List.length_cons]; omega)
      (.sym ";" :: rest) (by simp)

theorem pGateRest_params (name : String) (ps : List PLit) (hps : ps ≠ []) (loc : List Nat)
    (hne : loc ≠ []) (rest : List Tok) :
    (pGateRest name (.sym "(" :: (intersperseTok (.sym ",") (ps.map PLit.toks) ++ .sym ")" ::
        (intersperseTok (.sym ",") (loc.map locToks) ++ .sym ";" :: rest)))
      : Option (GCall V × List Tok)) = some (.gate name (ps.map PLit.qe) (loc.map qArg), rest) := by
  have hlen := intersperse_locs_length loc
  have harg := fun f hf => pArgList_locs loc hne f hf (.sym ";" :: rest) (by simp)
  unfold pGateRest
  simp only []
  rw [pParams_lits ps hps]
  simp only []
  rw [harg _ (by simp only [List.length_append, List.length_cons]; omega)]
  rfl

theorem pStmt_gate (o : POp) (hkw : keywords.contains o.name = false) (hne : o.loc ≠ [])
    (rest : List Tok) :
    (pStmt (opToks o ++ rest) : Option (Stmt V × List Tok)) = some (o.stmt, rest) := by
  have hnb : o.name ≠ "barrier" := by
    intro h; rw [h] at hkw; exact absurd hkw (by decide)
  have hnr : o.name ≠ "reset" := by
    intro h; rw [h] at hkw; exact absurd hkw (by decide)
  unfold opToks POp.stmt nameTok
  simp only [hkw, Bool.false_eq_true, if_false, hnb, hnr]
  by_cases hp : o.params = []
  · have h := pGateRest_locs (V := V) o.name o.loc hne rest
    simp only [hp, List.isEmpty_nil, if_true, List.nil_append, List.cons_append,
      List.append_assoc, List.map_nil]
    simp only [pStmt, pQop, pCall]
    rw [h]; rfl
  · have h := pGateRest_params (V := V) o.name o.params hp o.loc hne rest
    have he : o.params.isEmpty = false := by
      cases hq : o.params with
      | nil => exact absurd hq hp
      | cons a as => rfl
    simp only [he, Bool.false_eq_true, if_false, List.cons_append, List.append_assoc,
      List.nil_append]
    simp only [pStmt, pQop, pCall]
    rw [h]; rfl

theorem pStmt_op (o : POp) (hs : o.Shape) (rest : List Tok) :
    (pStmt (opToks o ++ rest) : Option (Stmt V × List Tok)) = some (o.stmt, rest) := by
  rcases hs with ⟨hn, hp, hne⟩ | ⟨hn, hp, q, hq⟩ | ⟨hkw, hne⟩
  · -- barrier q[..], …;
    have hlen := intersperse_locs_length o.loc
    have harg := pArgList_locs o.loc hne
      ((intersperseTok (.sym ",") (o.loc.map locToks) ++ .sym ";" :: rest).length + 1)
      (by simp only [List.length_append, List.length_cons]; omega) (.sym ";" :: rest) (by simp)
    unfold opToks POp.stmt nameTok
    have hk : keywords.contains "barrier" = true := by decide
    simp only [hn, hk, if_true, hp, List.isEmpty_nil, List.nil_append, List.cons_append,
      List.append_assoc]
    simp only [pStmt, harg]
  · -- reset q[i];
    unfold opToks POp.stmt nameTok
    have hk : keywords.contains "reset" = true := by decide
    have hne : ("reset" : String) ≠ "barrier" := by decide
    have harg := pArg_loc q (.sym ";" :: rest)
    simp only [hn, hk, if_true, hp, List.isEmpty_nil, List.nil_append, List.cons_append,
      List.append_assoc, hq, List.map_cons, List.map_nil, intersperseTok, hne, if_false,
      List.headD_cons]
    simp [pStmt, pQop, harg]
  · exact pStmt_gate o hkw hne rest

/-! ## elaboration of one statement -/

/-- what the reader must rebuild from the writer's line `o`, for a table `table` -/
def POp.Reads (A : Arith V) (table : List BuiltinDef) (o : POp) (op : Op V) : Prop :=
  (o.name = "barrier" ∧ o.params = [] ∧ o.loc ≠ [] ∧ nodup o.loc = true ∧
    op = .barrier o.loc) ∨
  (o.name = "reset" ∧ o.params = [] ∧ ∃ q, o.loc = [q] ∧ op = .reset q) ∨
  (keywords.contains o.name = false ∧ o.loc ≠ [] ∧ nodup o.loc = true ∧
    ∃ b vs, lookupBuiltin table o.name = some b ∧
      o.params.mapM (fun p => evalQ A (PLit.qe p)) = some vs ∧
      vs.length = b.np ∧ o.loc.length = b.nv ∧ mkPrim A b o.loc vs = some op)

theorem POp.Reads.shape {A : Arith V} {table : List BuiltinDef} {o : POp} {op : Op V}
    (h : o.Reads A table op) : o.Shape := by
  rcases h with ⟨a, b, c, _, _⟩ | ⟨a, b, q, c, _⟩ | ⟨a, b, _⟩
  · exact Or.inl ⟨a, b, c⟩
  · exact Or.inr (Or.inl ⟨a, b, q, c⟩)
  · exact Or.inr (Or.inr ⟨a, b⟩)

theorem POp.Reads.loc {A : Arith V} {table : List BuiltinDef} {o : POp} {op : Op V}
    (h : o.Reads A table op) : op.loc = o.loc ∧ o.loc ≠ [] := by
  rcases h with ⟨_, _, c, _, rfl⟩ | ⟨_, _, q, c, rfl⟩ | ⟨_, c, _, b, vs, _, _, _, _, hmk⟩
  · exact ⟨rfl, c⟩
  · exact ⟨by simp [Op.loc, c], by simp [c]⟩
  · exact ⟨mkPrim_loc A b o.loc vs _ hmk, c⟩

/-- `Reads` for every line of a program -/
inductive ReadsAll (A : Arith V) (table : List BuiltinDef) : List POp → List (Op V) → Prop where
  | nil : ReadsAll A table [] []
  | cons {o : POp} {op : Op V} {os : List POp} {es : List (Op V)} :
      o.Reads A table op → ReadsAll A table os es → ReadsAll A table (o :: os) (op :: es)

theorem argIndices_q (n q : Nat) : argIndices [("q", n)] (qArg q) = some [q] := by
  simp [argIndices, qArg, firstIndex]

theorem mapM_argIndices_q (n : Nat) (loc : List Nat) :
    (loc.map qArg).mapM (argIndices [("q", n)]) = some (loc.map fun q => [q]) := by
  induction loc with
  | nil => rfl
  | cons a as ih => simp [List.mapM_cons, argIndices_q, ih]

theorem flatten_singletons (loc : List Nat) : (loc.map fun q => [q]).flatten = loc := by
  induction loc with
  | nil => rfl
  | cons a as ih => simp [ih]

theorem anylistIndices_q (n : Nat) (loc : List Nat) :
    anylistIndices [("q", n)] (loc.map qArg) = some loc := by
  unfold anylistIndices
  have hlead : (loc.map qArg).takeWhile (·.idx.isNone) = [] := by
    cases loc with
    | nil => rfl
    | cons a as => simp [qArg]
  rw [hlead, mapM_argIndices_q]
  simp [flatten_singletons]

theorem elabStmt_op (A : Arith V) (s : St V) (n : Nat) (hq : s.qregs = [("q", n)]) (o : POp)
    (op : Op V) (h : o.Reads A s.table op) :
    elabStmt A s o.stmt = some { s with ops := op :: s.ops } := by
  rcases h with ⟨hn, _, _, hnd, rfl⟩ | ⟨hn, _, q, hl, rfl⟩ |
    ⟨hkw, _, hnd, b, vs, hb, hvs, hlen, hl, hop⟩
  · simp only [POp.stmt, hn, if_true, elabStmt, hq, anylistIndices_q, hnd]
  · have hne : ("reset" : String) ≠ "barrier" := by decide
    simp only [POp.stmt, hn, hne, if_false, if_true, hl, List.headD_cons, elabStmt, elabReset,
      qArg, hq, argIndices, firstIndex, Option.map_some, Nat.zero_add, List.map_cons,
      List.map_nil, List.reverse_cons, List.reverse_nil, List.nil_append, List.cons_append]
  · have hnb : o.name ≠ "barrier" := by
      intro h; rw [h] at hkw; exact absurd hkw (by decide)
    have hnr : o.name ≠ "reset" := by
      intro h; rw [h] at hkw; exact absurd hkw (by decide)
    have hev : evalParams A (o.params.map PLit.qe) = some vs := by
      rw [evalParams, List.mapM_map]; exact hvs
    simp only [POp.stmt, hnb, hnr, if_false, elabStmt, elabCall, hev, hq, anylistIndices_q, hnd,
      St.lookup, hb, Bool.not_true, Bool.false_eq_true, GDef.np, GDef.nv, hlen, hl,
      beq_self_eq_true, Bool.and_self, if_true, buildOp, hop, Option.map_some]

/-! ## the whole program -/

theorem opToks_cons (o : POp) : ∃ t0 t, opToks o = t0 :: t := ⟨_, _, rfl⟩

theorem pProgram_ops (ops : List POp) (hne : ∀ o ∈ ops, o.Shape) (f : Nat)
    (hf : ops.length + 1 ≤ f) :
    (pProgram f ((ops.map opToks).flatten) : Option (List (Stmt V) × List Tok))
      = some (ops.map POp.stmt, []) := by
  induction ops generalizing f with
  | nil =>
    obtain ⟨k, rfl⟩ : ∃ k, f = k + 1 := ⟨f - 1, by simp at hf; omega⟩
    simp [pProgram]
  | cons o os ih =>
    obtain ⟨k, rfl⟩ : ∃ k, f = k + 1 := ⟨f - 1, by simp at hf; omega⟩
    have hst := pStmt_op (V := V) o (hne o (by simp)) ((os.map opToks).flatten)
    have ih' := ih (fun o' ho' => hne o' (by simp [ho'])) k (by simp at hf ⊢; omega)
    obtain ⟨t0, t, ht⟩ := opToks_cons o
    simp only [List.map_cons, List.flatten_cons]
    rw [ht] at hst ⊢
    simp only [List.cons_append] at hst ⊢
    simp only [pProgram, hst, ih']

theorem elabStmts_ops (A : Arith V) (table : List BuiltinDef) (n : Nat) (ops : List POp)
    (exp : List (Op V)) (h : ReadsAll A table ops exp) (s : St V)
    (hq : s.qregs = [("q", n)]) (ht : s.table = table) :
    elabStmts A s (ops.map POp.stmt) = some { s with ops := exp.reverse ++ s.ops } := by
  induction h generalizing s with
  | nil => simp [elabStmts]
  | @cons o op os es hd _ ih =>
    subst ht
    simp only [List.map_cons, elabStmts, elabStmt_op A s n hq o op hd, Option.bind_some]
    rw [ih { s with ops := op :: s.ops } hq rfl]
    simp

theorem forall2_loc (A : Arith V) (table : List BuiltinDef) (ops : List POp) (exp : List (Op V))
    (h : ReadsAll A table ops exp) (n : Nat)
    (hr : ∀ o ∈ ops, ∀ q ∈ o.loc, q < n) :
    ∀ op ∈ exp, op.loc ≠ [] ∧ ∀ q ∈ op.loc, q < n := by
  induction h with
  | nil => simp
  | @cons o op os es hd _ ih =>
    intro op' hop'
    simp only [List.mem_cons] at hop'
    rcases hop' with rfl | hmem
    · obtain ⟨hl, hne⟩ := hd.loc
      rw [hl]
      exact ⟨hne, hr o (by simp)⟩
    · exact ih (fun o' ho' => hr o' (by simp [ho'])) op' hmem

theorem parseProgram_header (n : Nat) (body : List Tok) (ss : List (Stmt V))
    (h : ∀ f, body.length + 1 ≤ f → pProgram f body = some (ss, [])) :
    parseProgram (headerToks n ++ body)
      = some (.incl "qelib1.inc" :: .qreg "q" n :: ss) := by
  have hnn : parseNNInt (toString n) = some n := parseNNInt_toString n
  have h1 := h (body.length + 8) (by omega)
  simp only [headerToks, List.cons_append, List.nil_append, parseProgram, List.length_cons]
  simp only [pProgram, pStmt, pIndex, hnn, Option.map_some, h1]
  simp

/-- **the writer's text (as tokens) is read back as the same operations** -/
theorem decodeToks_programToks (A : Arith V) (table : List BuiltinDef) (n : Nat) (hn : 0 < n)
    (ops : List POp) (exp : List (Op V)) (h : ReadsAll A table ops exp)
    (hr : ∀ o ∈ ops, ∀ q ∈ o.loc, q < n) :
    decodeToks A table (programToks n ops) = some ⟨n, [], exp⟩ := by
  have hne : ∀ o ∈ ops, o.Shape := by
    intro o ho
    have := h
    clear hr
    induction h with
    | nil => simp at ho
    | @cons o' op' os es hd tl ih =>
      simp only [List.mem_cons] at ho
      rcases ho with rfl | hmem
      · exact hd.shape
      · exact ih hmem tl
  have hparse : (parseProgram (programToks n ops) : Option (List (Stmt V)))
      = some (.incl "qelib1.inc" :: .qreg "q" n :: ops.map POp.stmt) := by
    unfold programToks
    apply parseProgram_header
    intro f hf
    have hl : ops.length ≤ ((ops.map opToks).flatten).length := by
      clear hf hne hr h
      induction ops with
      | nil => simp
      | cons o os ih =>
        obtain ⟨t0, t, ht⟩ := opToks_cons o
        simp only [List.map_cons, List.flatten_cons, List.length_append, ht, List.length_cons]
        omega
    exact pProgram_ops ops hne f (by omega)
  have hel := elabStmts_ops A table n ops exp h
    { table := table, qregs := [("q", n)] } rfl rfl
  have hfin := forall2_loc A table ops exp h n hr
  unfold decodeToks
  rw [hparse]
  simp only [Option.bind_some, elabStmts, elabStmt, List.any_nil, Bool.false_eq_true, if_false,
    List.nil_append, hel]
  simp only [finish, totalSize, List.map_cons, List.map_nil, List.sum_cons, List.sum_nil,
    Nat.add_zero, List.append_nil, List.reverse_reverse]
  have h0 : (n == 0) = false := by simp; omega
  have hall : (exp.all fun o => !o.loc.isEmpty && o.loc.all (· < n)) = true := by
    simp only [List.all_eq_true, decide_eq_true_eq, Bool.and_eq_true, Bool.not_eq_true',
      List.isEmpty_eq_false_iff]
    exact hfin
  simp [h0, hall]

/-- the value read for a printed parameter: the literal's value, negated if printed with `-` -/
theorem evalQ_lit (A : Arith V) (p : PLit) :
    evalQ A (PLit.qe p) =
      (parsePyLit p.text).map fun me => if p.neg then A.neg (A.ofLit me.1 me.2) else A.ofLit me.1 me.2 := by
  obtain ⟨neg, text⟩ := p
  cases neg
  · simp only [PLit.qe, Bool.false_eq_true, if_false]
    show (pyParse [ETok.lit text]).bind (PE.eval A) = _
    have : pyParse ([ETok.lit text] : List (ETok V)) = some (.lit text) := rfl
    rw [this]
    simp [PE.eval]
  · simp only [PLit.qe, if_true]
    show (pyParse [ETok.minus, ETok.lit text]).bind (PE.eval A) = _
    have : pyParse ([ETok.minus, ETok.lit text] : List (ETok V)) = some (.neg (.lit text)) := rfl
    rw [this]
    cases h : parsePyLit text <;> simp [PE.eval, h]

end BqVerif.Qasm
