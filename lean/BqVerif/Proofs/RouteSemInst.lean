import BqVerif.Proofs.RouteSemDefs
/-
C09: `Sem` is inhabited by a non-trivial, non-commutative "classical" model, so the theorems
stated over an abstract `Sem` are not vacuous.

Carrier: state transformers on wire valuations `σ : Nat → Nat`.  One uniform formula gives the
meaning of every operation: on a wire `w` of `o.loc` the new value is
`gateFn o.gid (values on o.loc) (position of w in o.loc) (old value of w)`, other wires are
untouched.  `gateFn 0 [x, y]` is the exchange of the two values (gid 0 = swap gate); every other
(gid, arity) is a generic gate whose output depends on the gid, on all values it reads and on
the position of the wire.
-/
namespace BqVerif.Route
open BqVerif.Circ (Op)

/-- binary-style encoding of the values a gate reads -/
def encVals (vals : List Nat) : Nat := vals.foldl (fun acc u => 2 * acc + u) 0

/-- local action of gate `g` reading `vals`: new value of the wire at position `i` whose old
value is `v`.  gid 0 on two wires is the swap. -/
def gateFn (g : Nat) (vals : List Nat) (i v : Nat) : Nat :=
  match g, vals with
  | 0, [x, y] => if i = 0 then y else x
  | _, _ => v + g + encVals vals + i

/-- meaning of one operation: acts on (and reads) only the wires of `o.loc` -/
def csem (o : Op) (σ : Nat → Nat) : Nat → Nat :=
  fun w => if w ∈ o.loc then gateFn o.gid (o.loc.map σ) (o.loc.idxOf w) (σ w) else σ w

theorem csem_notin {o : Op} {σ : Nat → Nat} {w : Nat} (h : w ∉ o.loc) : csem o σ w = σ w := by
  simp [csem, h]

theorem csem_congr {o : Op} {σ σ' : Nat → Nat} {w : Nat} (h : ∀ q ∈ o.loc, σ q = σ' q)
    (hw : σ w = σ' w) : csem o σ w = csem o σ' w := by
  have hm : o.loc.map σ = o.loc.map σ' := List.map_congr_left h
  simp [csem, hm, hw]

theorem csem_comm (a b : Op) (h : ∀ q, q ∈ a.loc → q ∉ b.loc) (σ : Nat → Nat) :
    csem b (csem a σ) = csem a (csem b σ) := by
  funext w
  by_cases ha : w ∈ a.loc
  · have hb := h w ha
    rw [csem_notin (σ := csem a σ) hb]
    exact csem_congr (fun q hq => (csem_notin (h q hq)).symm) (csem_notin hb).symm
  · rw [csem_notin (σ := csem b σ) ha]
    exact csem_congr (fun q hq => csem_notin (fun hqa => h q hqa hq)) (csem_notin ha)

theorem idxOf_map_inj' {τ : Nat → Nat} (hτ : ∀ x y, τ x = τ y → x = y) (l : List Nat) (x : Nat) :
    (l.map τ).idxOf (τ x) = l.idxOf x := by
  induction l with
  | nil => simp
  | cons y r ih =>
    simp only [List.map_cons, List.idxOf_cons, ih]
    by_cases hxy : y = x
    · subst hxy
      simp
    · have hne : τ y ≠ τ x := fun e => hxy (hτ _ _ e)
      have e1 : (y == x) = false := by simpa using hxy
      have e2 : (τ y == τ x) = false := by simpa using hne
      rw [e1, e2]

/-- covariance under relabelling by an involution -/
theorem csem_relab (τ : Nat → Nat) (hinv : ∀ x, τ (τ x) = x) (o : Op) (σ : Nat → Nat) (w : Nat) :
    csem (relab τ o) (fun x => σ (τ x)) w = csem o σ (τ w) := by
  have hinj : ∀ x y, τ x = τ y → x = y := fun x y e => by
    have := congrArg τ e
    simpa [hinv] using this
  have hmem : w ∈ o.loc.map τ ↔ τ w ∈ o.loc := by
    constructor
    · intro h
      obtain ⟨q, hq, e⟩ := List.mem_map.1 h
      rw [← e, hinv]; exact hq
    · intro h
      exact List.mem_map.2 ⟨τ w, h, hinv w⟩
  have hmap : (o.loc.map τ).map (fun x => σ (τ x)) = o.loc.map σ := by
    rw [List.map_map]
    apply List.map_congr_left
    intro q _
    simp [hinv]
  have hidx : (o.loc.map τ).idxOf w = o.loc.idxOf (τ w) := by
    have := idxOf_map_inj' hinj o.loc (τ w)
    rwa [hinv] at this
  simp only [csem, relab, hmem, hmap, hidx]

/-- gid 0 on a two-element location is the wire swap (also when `a = b`) -/
theorem csem_swap (p : List Int) (r : List Nat) (a b : Nat) (σ : Nat → Nat) :
    csem ⟨0, p, [a, b], r⟩ σ = fun w => σ (swapFn a b w) := by
  funext w
  by_cases h1 : w = a
  · subst h1
    simp [csem, gateFn, swapFn]
  · by_cases h2 : w = b
    · subst h2
      have h3 : (a == w) = false := by simpa using fun e : a = w => h1 e.symm
      simp [csem, gateFn, swapFn, h1, List.idxOf_cons, h3]
    · simp [csem, swapFn, h1, h2]

def classicalSem : Sem ((Nat → Nat) → (Nat → Nat)) where
  mul f g := fun σ => g (f σ)
  one := id
  mul_assoc _ _ _ := rfl
  one_mul _ := rfl
  mul_one _ := rfl
  sem := csem
  swapOp a b := ⟨0, [], [a, b], [2, 2]⟩
  comm a b h := by
    funext σ
    exact csem_comm a b h σ
  swap_law o a b := by
    funext σ
    rw [csem_swap, csem_swap]
    funext w
    exact (csem_relab (swapFn a b) (swapFn_swapFn a b) o σ w).symm

/-- the model is not commutative -/
theorem classicalSem_noncomm : ∃ a b : Op,
    classicalSem.mul (classicalSem.sem a) (classicalSem.sem b)
      ≠ classicalSem.mul (classicalSem.sem b) (classicalSem.sem a) := by
  refine ⟨⟨1, [], [0, 1], [2, 2]⟩, ⟨1, [], [1, 2], [2, 2]⟩, fun h => ?_⟩
  have := congrFun (congrFun h (fun _ => 0)) 1
  revert this
  decide

/-- the swap gate really swaps -/
theorem classicalSem_swap (a b : Nat) (σ : Nat → Nat) :
    classicalSem.sem (classicalSem.swapOp a b) σ = fun w => σ (swapFn a b w) :=
  csem_swap _ _ a b σ

/-- the swap gate does not commute with a generic gate sharing a wire either -/
example : classicalSem.mul (classicalSem.sem (classicalSem.swapOp 0 1))
      (classicalSem.sem ⟨3, [], [1], [2]⟩)
    ≠ classicalSem.mul (classicalSem.sem ⟨3, [], [1], [2]⟩)
      (classicalSem.sem (classicalSem.swapOp 0 1)) := by
  intro h
  have := congrFun (congrFun h (fun _ => 0)) 0
  revert this
  decide

end BqVerif.Route
