import BqVerif.Model.Region
/-
Helper lemmas for the region algebra (`Model/Region.lean`).  Core Lean only.
-/
namespace BqVerif.Region

/-! ### intervals -/
namespace Iv

theorem mem_iff (i : Iv) (c : Nat) : i.mem c = true ↔ i.lo ≤ c ∧ c ≤ i.hi := by
  simp [mem]

theorem mem_indices (i : Iv) (c : Nat) : c ∈ i.indices ↔ i.mem c = true := by
  simp only [indices, List.mem_range'_1, mem_iff]; omega

theorem length_indices (i : Iv) (h : i.valid = true) : i.indices.length = i.len := by
  simp only [valid, decide_eq_true_eq] at h
  simp only [indices, List.length_range', len]; omega

theorem overlaps_iff (a b : Iv) (ha : a.valid = true) (hb : b.valid = true) :
    a.overlaps b = true ↔ ∃ c, a.mem c = true ∧ b.mem c = true := by
  simp only [valid, decide_eq_true_eq] at ha hb
  simp only [overlaps, Bool.and_eq_true, decide_eq_true_eq, mem_iff]
  constructor
  · intro h; exact ⟨max a.lo b.lo, by omega⟩
  · rintro ⟨c, h⟩; omega

theorem overlaps_comm (a b : Iv) : a.overlaps b = b.overlaps a := by
  simp only [overlaps]; rw [Bool.and_comm]

theorem inter_ok (a b : Iv) (ha : a.valid = true) (hb : b.valid = true) (h : a.overlaps b = true) :
    ∃ i, a.inter b = .ok i ∧ i.valid = true ∧ ∀ c, i.mem c = true ↔ (a.mem c = true ∧ b.mem c = true) := by
  refine ⟨⟨max a.lo b.lo, min a.hi b.hi⟩, by simp [inter, h], ?_, ?_⟩
  · simp only [valid, decide_eq_true_eq] at ha hb ⊢
    simp only [overlaps, Bool.and_eq_true, decide_eq_true_eq] at h; omega
  · intro c; simp only [mem_iff]; omega

theorem inter_err (a b : Iv) (h : a.overlaps b = false) : a.inter b = .error .value := by
  simp [inter, h]

/-- the union succeeds exactly when the two intervals overlap or touch -/
theorem union_ok_iff (a b : Iv) :
    (∃ u, a.union b = .ok u) ↔ (a.overlaps b = true ∨ a.hi + 1 = b.lo ∨ b.hi + 1 = a.lo) := by
  unfold union
  by_cases h : a.overlaps b = true
  · simp [h]
  · simp only [Bool.not_eq_true] at h
    simp only [h, Bool.not_false, Bool.true_and, bne_iff_ne, ne_eq, Bool.and_eq_true,
      decide_eq_true_eq, Bool.false_eq_true, false_or]
    by_cases h1 : a.hi + 1 = b.lo
    · simp [h1]
    · by_cases h2 : a.lo = b.hi + 1
      · simp [h2]
      · have h2' : ¬ b.hi + 1 = a.lo := fun e => h2 e.symm
        simp [h1, h2, h2']

theorem union_ok (a b u : Iv) (ha : a.valid = true) (hb : b.valid = true) (h : a.union b = .ok u) :
    u.valid = true ∧ ∀ c, u.mem c = true ↔ (a.mem c = true ∨ b.mem c = true) := by
  simp only [valid, decide_eq_true_eq] at ha hb
  unfold union at h
  split at h
  · cases h
  · rename_i hc
    cases h
    simp only [Bool.and_eq_true, Bool.not_eq_true', bne_iff_ne, ne_eq, not_and, Decidable.not_not,
      overlaps, Bool.and_eq_false_iff, decide_eq_false_iff_not, Nat.not_le] at hc
    refine ⟨by simp only [valid, decide_eq_true_eq]; omega, ?_⟩
    intro c; simp only [mem_iff]
    by_cases ho : (a.lo ≤ b.hi ∧ b.lo ≤ a.hi)
    · omega
    · have := hc (by omega)
      omega

/-- when `union` raises, the cells of the two intervals do not form an interval: there is a
    cycle strictly between them that belongs to neither -/
theorem union_err (a b : Iv) (ha : a.valid = true) (hb : b.valid = true) (h : a.union b = .error .value) :
    ∃ c, min a.lo b.lo ≤ c ∧ c ≤ max a.hi b.hi ∧ a.mem c = false ∧ b.mem c = false := by
  simp only [valid, decide_eq_true_eq] at ha hb
  unfold union at h
  split at h
  · rename_i hc
    simp only [Bool.and_eq_true, Bool.not_eq_true', bne_iff_ne, ne_eq, overlaps,
      Bool.and_eq_false_iff, decide_eq_false_iff_not, Nat.not_le] at hc
    by_cases hab : a.hi < b.lo
    · refine ⟨a.hi + 1, by omega, by omega, ?_, ?_⟩
      · simp [mem]
      · simp only [mem, Bool.and_eq_false_iff, decide_eq_false_iff_not, Nat.not_le]; omega
    · refine ⟨b.hi + 1, by omega, by omega, ?_, ?_⟩
      · simp only [mem, Bool.and_eq_false_iff, decide_eq_false_iff_not, Nat.not_le]; omega
      · simp [mem]
  · cases h

theorem lt_irrefl (a : Iv) (ha : a.valid = true) : a.lt a = false := by
  simp only [valid, decide_eq_true_eq] at ha
  simp only [lt, decide_eq_false_iff_not]; omega

theorem lt_trans (a b c : Iv) (hb : b.valid = true) (h1 : a.lt b = true) (h2 : b.lt c = true) :
    a.lt c = true := by
  simp only [valid, decide_eq_true_eq] at hb
  simp only [lt, decide_eq_true_eq] at *; omega

theorem lt_asymm (a b : Iv) (ha : a.valid = true) (hb : b.valid = true) (h : a.lt b = true) :
    b.lt a = false := by
  simp only [valid, decide_eq_true_eq] at ha hb
  simp only [lt, decide_eq_true_eq, decide_eq_false_iff_not] at *; omega

/-- `a < b` says every cycle of `a` is before every cycle of `b` -/
theorem lt_iff (a b : Iv) (ha : a.valid = true) (hb : b.valid = true) :
    a.lt b = true ↔ ∀ c d, a.mem c = true → b.mem d = true → c < d := by
  simp only [valid, decide_eq_true_eq] at ha hb
  simp only [lt, decide_eq_true_eq, mem_iff]
  constructor
  · intro h c d hc hd; omega
  · intro h; exact h a.hi b.lo (by omega) (by omega)

/-- trichotomy: two valid intervals overlap, or one is before the other (exactly one holds) -/
theorem overlaps_or_lt (a b : Iv) :
    (a.overlaps b = true ∧ a.lt b = false ∧ b.lt a = false)
    ∨ (a.overlaps b = false ∧ (a.lt b = true ∨ b.lt a = true)) := by
  simp only [overlaps, lt, Bool.and_eq_true, decide_eq_true_eq, decide_eq_false_iff_not,
    Bool.and_eq_false_iff]
  omega

theorem shiftR_mem (i : Iv) (k c : Nat) : (i.shiftR k).mem c = true ↔ k ≤ c ∧ i.mem (c - k) = true := by
  simp only [shiftR, mem_iff]; omega

theorem shiftL_mem (i : Iv) (k c : Nat) (h : k ≤ i.lo) (hv : i.valid = true) :
    (i.shiftL k).mem c = true ↔ i.mem (c + k) = true := by
  simp only [valid, decide_eq_true_eq] at hv
  simp only [shiftL, mem_iff]; omega

end Iv

/-! ### lists of naturals: min, max, sorting -/

theorem minL_le : ∀ (l : List Nat) (a : Nat), a ∈ l → Region.minL l ≤ a
  | [], _, h => by cases h
  | [b], a, h => by simp at h; subst h; simp [Region.minL]
  | b :: c :: t, a, h => by
    simp only [Region.minL]
    rcases List.mem_cons.1 h with rfl | h
    · exact Nat.min_le_left ..
    · exact Nat.le_trans (Nat.min_le_right ..) (minL_le (c :: t) a h)

theorem minL_mem : ∀ (l : List Nat), l ≠ [] → Region.minL l ∈ l
  | [], h => absurd rfl h
  | [b], _ => by simp [Region.minL]
  | b :: c :: t, _ => by
    simp only [Region.minL]
    have ih := minL_mem (c :: t) (by simp)
    rcases Nat.le_total b (Region.minL (c :: t)) with h | h
    · rw [Nat.min_eq_left h]; simp
    · rw [Nat.min_eq_right h]; exact List.mem_cons_of_mem _ ih

theorem le_maxL : ∀ (l : List Nat) (a : Nat), a ∈ l → a ≤ Region.maxL l
  | [], _, h => by cases h
  | b :: t, a, h => by
    simp only [Region.maxL]
    rcases List.mem_cons.1 h with rfl | h
    · exact Nat.le_max_left ..
    · exact Nat.le_trans (le_maxL t a h) (Nat.le_max_right ..)

theorem maxL_mem : ∀ (l : List Nat), l ≠ [] → Region.maxL l ∈ l
  | [], h => absurd rfl h
  | [b], _ => by simp [Region.maxL]
  | b :: c :: t, _ => by
    have ih := maxL_mem (c :: t) (by simp)
    show max b (Region.maxL (c :: t)) ∈ _
    rcases Nat.le_total b (Region.maxL (c :: t)) with h | h
    · rw [Nat.max_eq_right h]; exact List.mem_cons_of_mem _ ih
    · rw [Nat.max_eq_left h]; simp

theorem insSorted_perm (a : Nat) : ∀ l, (Region.insSorted a l).Perm (a :: l)
  | [] => .refl _
  | b :: t => by
    simp only [Region.insSorted]
    split
    · exact .refl _
    · exact ((insSorted_perm a t).cons b).trans (.swap a b t)

theorem sortN_perm : ∀ l, (Region.sortN l).Perm l
  | [] => .refl _
  | a :: t => (insSorted_perm a _).trans ((sortN_perm t).cons a)

theorem mem_sortN (l : List Nat) (a : Nat) : a ∈ Region.sortN l ↔ a ∈ l := (sortN_perm l).mem_iff

theorem nodup_sortN (l : List Nat) : (Region.sortN l).Nodup ↔ l.Nodup := (sortN_perm l).nodup_iff

theorem insSorted_comm (a b : Nat) : ∀ l,
    Region.insSorted a (Region.insSorted b l) = Region.insSorted b (Region.insSorted a l)
  | [] => by
    simp only [Region.insSorted]
    by_cases h1 : a ≤ b <;> by_cases h2 : b ≤ a <;> simp [h1, h2]
    · constructor <;> omega
    · omega
  | c :: t => by
    have ih := insSorted_comm a b t
    simp only [Region.insSorted]
    by_cases hb : b ≤ c <;> by_cases ha : a ≤ c <;> simp only [hb, ha, if_true, if_false, Region.insSorted]
    · by_cases h1 : a ≤ b <;> by_cases h2 : b ≤ a <;> simp [h1, h2, ha, hb]
      · constructor <;> omega
      · omega
    · have : ¬ a ≤ b := by omega
      simp [this, hb]
    · have : ¬ b ≤ a := by omega
      simp [this, ha]
    · simp [ih]

theorem sortN_of_perm {l l' : List Nat} (h : l.Perm l') : Region.sortN l = Region.sortN l' := by
  induction h with
  | nil => rfl
  | cons a _ ih => simp only [Region.sortN, List.foldr_cons] at *; rw [ih]
  | swap a b l => simp only [Region.sortN, List.foldr_cons]; exact insSorted_comm b a _
  | trans _ _ ih1 ih2 => exact ih1.trans ih2

/-! ### regions -/
namespace Region

theorem get_cons (p : Nat × Iv) (r : Region) (q : Nat) :
    get (p :: r) q = if p.1 = q then some p.2 else get r q := by
  simp only [get, List.find?_cons]
  by_cases h : p.1 = q
  · simp [h]
  · have : (p.fst == q) = false := by simp [h]
    simp [h, this]

theorem hasPt_iff (r : Region) (c q : Nat) :
    hasPt r c q = true ↔ ∃ a, get r q = some a ∧ a.mem c = true := by
  simp only [hasPt]
  cases r.get q with
  | none => simp
  | some a => simp

theorem get_some_mem : ∀ (r : Region) (q : Nat) (i : Iv), get r q = some i → (q, i) ∈ r
  | [], _, _, h => by simp [get] at h
  | p :: r, q, i, h => by
    rw [get_cons] at h
    split at h
    · rename_i hp; cases h; subst hp; simp
    · exact List.mem_cons_of_mem _ (get_some_mem r q i h)

theorem get_isSome_iff : ∀ (r : Region) (q : Nat), (get r q).isSome = true ↔ q ∈ keys r
  | [], q => by simp [get, keys]
  | p :: r, q => by
    rw [get_cons]
    have ih := get_isSome_iff r q
    simp only [keys, List.map_cons, List.mem_cons] at ih ⊢
    split
    · rename_i hp; simp [hp]
    · rename_i hp
      rw [ih]
      constructor
      · exact Or.inr
      · rintro (h | h)
        · exact absurd h.symm hp
        · exact h

theorem get_of_mem : ∀ (r : Region) (q : Nat) (i : Iv), (keys r).Nodup → (q, i) ∈ r → get r q = some i
  | [], _, _, _, h => by cases h
  | p :: r, q, i, hn, h => by
    rw [get_cons]
    simp only [keys, List.map_cons, List.nodup_cons] at hn
    rcases List.mem_cons.1 h with h | h
    · subst h; simp
    · split
      · rename_i hp
        exfalso; apply hn.1
        rw [hp]; exact List.mem_map.2 ⟨(q, i), h, rfl⟩
      · exact get_of_mem r q i hn.2 h

theorem valid_of_get (r : Region) (hw : wf r = true) (q : Nat) (i : Iv) (h : get r q = some i) :
    i.valid = true := by
  simp only [wf, Bool.and_eq_true, List.all_eq_true] at hw
  exact hw.2 _ (get_some_mem r q i h)

theorem nodup_of_wf (r : Region) (hw : wf r = true) : (keys r).Nodup := by
  simp only [wf, Bool.and_eq_true, List.all_eq_true, decide_eq_true_eq] at hw
  exact hw.1

/-- `region.points` are exactly the cells `hasPt` accepts -/
theorem mem_points (r : Region) (hw : wf r = true) (c q : Nat) :
    (c, q) ∈ points r ↔ hasPt r c q = true := by
  have hn := nodup_of_wf r hw
  simp only [points, List.mem_flatMap, List.mem_map, Prod.mk.injEq, hasPt]
  constructor
  · rintro ⟨p, hp, c', hc', rfl, rfl⟩
    rw [get_of_mem r p.1 p.2 hn hp]
    exact (Iv.mem_indices _ _).1 hc'
  · intro h
    split at h
    · rename_i i hi
      exact ⟨(q, i), get_some_mem r q i hi, c, (Iv.mem_indices _ _).2 h, rfl, rfl⟩
    · cases h

theorem mem_common (r s : Region) (q : Nat) : q ∈ common r s ↔ q ∈ keys r ∧ q ∈ keys s := by
  simp only [common, List.mem_filter, location, mem_sortN, get_isSome_iff]

theorem common_comm_mem (r s : Region) (q : Nat) : q ∈ common r s ↔ q ∈ common s r := by
  rw [mem_common, mem_common]; exact And.comm

theorem isEmpty_iff_keys (r : Region) : r.isEmpty = true ↔ keys r = [] := by
  cases r <;> simp [keys]

theorem lo_ge_min (r : Region) (q : Nat) (i : Iv) (h : get r q = some i) : minL (r.map (·.2.lo)) ≤ i.lo :=
  minL_le _ _ (List.mem_map.2 ⟨(q, i), get_some_mem r q i h, rfl⟩)
theorem hi_le_max (r : Region) (q : Nat) (i : Iv) (h : get r q = some i) : i.hi ≤ maxL (r.map (·.2.hi)) :=
  le_maxL _ _ (List.mem_map.2 ⟨(q, i), get_some_mem r q i h, rfl⟩)

/-- `r.overlaps(s)` (with its early exits) holds exactly when the regions share a cell -/
theorem overlaps_iff (r s : Region) (hr : wf r = true) (hs : wf s = true) :
    overlaps r s = true ↔ ∃ c q, hasPt r c q = true ∧ hasPt s c q = true := by
  constructor
  · intro h
    unfold overlaps at h
    split at h; · cases h
    split at h; · cases h
    split at h; · cases h
    simp only [List.any_eq_true] at h
    obtain ⟨q, _, hq⟩ := h
    split at hq
    · rename_i a b ha hb
      obtain ⟨c, h1, h2⟩ := (Iv.overlaps_iff a b (valid_of_get r hr q a ha) (valid_of_get s hs q b hb)).1 hq
      exact ⟨c, q, by simp [hasPt, ha, h1], by simp [hasPt, hb, h2]⟩
    · cases hq
  · rintro ⟨c, q, h1, h2⟩
    obtain ⟨a, ha, h1⟩ := (hasPt_iff r c q).1 h1
    obtain ⟨b, hb, h2⟩ := (hasPt_iff s c q).1 h2
    have hre : r.isEmpty = false := by
      cases r with
      | nil => simp [get] at ha
      | cons _ _ => rfl
    have hse : s.isEmpty = false := by
      cases s with
      | nil => simp [get] at hb
      | cons _ _ => rfl
    have m1 := (Iv.mem_iff _ _).1 h1
    have m2 := (Iv.mem_iff _ _).1 h2
    have := lo_ge_min r q a ha; have := hi_le_max r q a ha
    have := lo_ge_min s q b hb; have := hi_le_max s q b hb
    unfold overlaps
    simp only [hre, hse, Bool.or_self, Bool.false_eq_true, if_false]
    rw [if_neg (by omega), if_neg (by omega)]
    simp only [List.any_eq_true]
    refine ⟨q, (mem_common r s q).2 ⟨(get_isSome_iff r q).1 (by simp [ha]), (get_isSome_iff s q).1 (by simp [hb])⟩, ?_⟩
    simp only [ha, hb]
    exact (Iv.overlaps_iff a b (valid_of_get r hr q a ha) (valid_of_get s hs q b hb)).2 ⟨c, h1, h2⟩

theorem overlaps_symm (r s : Region) (hr : wf r = true) (hs : wf s = true) :
    overlaps r s = overlaps s r := by
  rw [Bool.eq_iff_iff, overlaps_iff r s hr hs, overlaps_iff s r hs hr]
  constructor <;> rintro ⟨c, q, h1, h2⟩ <;> exact ⟨c, q, h2, h1⟩

/-- `s in r`: every cell of `s` is a cell of `r` -/
theorem contains_iff (r s : Region) (hr : wf r = true) (hs : wf s = true) :
    contains r s = true ↔ ∀ c q, hasPt s c q = true → hasPt r c q = true := by
  have hsn := nodup_of_wf s hs
  unfold contains
  split
  · rename_i he
    have : s = [] := by cases s <;> simp_all
    subst this
    simp [hasPt, get]
  · rename_i hse
    split
    · rename_i hre
      have : r = [] := by cases r <;> simp_all
      subst this
      simp only [Bool.false_eq_true, false_iff]
      intro h
      cases s with
      | nil => simp at hse
      | cons p t =>
        have hg : get (p :: t) p.1 = some p.2 := by rw [get_cons]; simp
        have hv : p.2.valid = true := valid_of_get (p :: t) hs p.1 p.2 hg
        simp only [Iv.valid, decide_eq_true_eq] at hv
        have := h p.2.lo p.1 ((hasPt_iff _ _ _).2 ⟨p.2, hg, by rw [Iv.mem_iff]; omega⟩)
        simp [hasPt, get] at this
    · simp only [List.all_eq_true]
      constructor
      · intro h c q hc
        obtain ⟨b, hb, hc⟩ := (hasPt_iff s c q).1 hc
        have := h (q, b) (get_some_mem s q b hb)
        simp only at this
        cases ha : r.get q with
        | none => simp [ha] at this
        | some a =>
          simp only [ha, Bool.and_eq_true, Iv.mem_iff] at this
          rw [hasPt_iff]
          refine ⟨a, ha, ?_⟩
          have := (Iv.mem_iff _ _).1 hc
          rw [Iv.mem_iff]; omega
      · intro h p hp
        have hg := get_of_mem s p.1 p.2 hsn hp
        have hv := valid_of_get s hs p.1 p.2 hg
        simp only [Iv.valid, decide_eq_true_eq] at hv
        have h1 := h p.2.lo p.1 (by simp only [hasPt, hg, Iv.mem_iff]; omega)
        have h2 := h p.2.hi p.1 (by simp only [hasPt, hg, Iv.mem_iff]; omega)
        obtain ⟨a, ha, h1⟩ := (hasPt_iff r _ _).1 h1
        obtain ⟨a', ha', h2⟩ := (hasPt_iff r _ _).1 h2
        rw [ha] at ha'; cases ha'
        simp [ha, h1, h2]

/-- lookup in a region built from a duplicate-free key list -/
theorem get_filterMap (l : List Nat) (hn : l.Nodup) (f : Nat → Option Iv) (q : Nat) :
    get (l.filterMap (fun k => (f k).map (fun i => (k, i)))) q = if q ∈ l then f q else none := by
  induction l with
  | nil => simp [get]
  | cons a t ih =>
    simp only [List.nodup_cons] at hn
    simp only [List.filterMap_cons]
    cases hfa : f a with
    | none =>
      simp only [Option.map_none]
      rw [ih hn.2]
      by_cases hqa : q = a
      · subst hqa; simp [hn.1, hfa]
      · simp [hqa]
    | some i =>
      simp only [Option.map_some]
      rw [get_cons, ih hn.2]
      by_cases hqa : a = q
      · subst hqa; simp [hfa]
      · have : ¬ q = a := fun e => hqa e.symm
        simp [hqa, this]

theorem keys_filterMap (l : List Nat) (f : Nat → Option Iv) :
    (keys (l.filterMap (fun k => (f k).map (fun i => (k, i))))).Sublist l := by
  induction l with
  | nil => simp [keys]
  | cons a t ih =>
    simp only [List.filterMap_cons]
    cases hfa : f a with
    | none => simp only [Option.map_none]; exact ih.cons _
    | some i => simp only [Option.map_some, keys, List.map_cons]; exact ih.cons₂ _

theorem nodup_common (r s : Region) (hr : wf r = true) : (common r s).Nodup := by
  unfold common location
  exact ((nodup_sortN _).2 (nodup_of_wf r hr)).filter _

def interF (r s : Region) (q : Nat) : Option Iv :=
  match r.get q, s.get q with
  | some a, some b => if a.overlaps b then some ⟨max a.lo b.lo, min a.hi b.hi⟩ else none
  | _, _ => none

theorem inter_eq (r s : Region) :
    inter r s = (common r s).filterMap (fun k => (interF r s k).map (fun i => (k, i))) := by
  unfold inter interF
  congr 1
  funext q
  cases r.get q <;> cases s.get q <;> simp

/-- `r.intersection(s)` is a well-formed region whose cells are the common cells -/
theorem inter_spec (r s : Region) (hr : wf r = true) (hs : wf s = true) :
    wf (inter r s) = true ∧ ∀ c q, hasPt (inter r s) c q = true ↔ (hasPt r c q = true ∧ hasPt s c q = true) := by
  have hnc := nodup_common r s hr
  have hget : ∀ q, get (inter r s) q = if q ∈ common r s then interF r s q else none := by
    intro q; rw [inter_eq]; exact get_filterMap _ hnc _ q
  constructor
  · simp only [wf, Bool.and_eq_true, decide_eq_true_eq, List.all_eq_true]
    constructor
    · rw [inter_eq]; exact (keys_filterMap _ _).nodup hnc
    · intro p hp
      have hn : (keys (inter r s)).Nodup := by rw [inter_eq]; exact (keys_filterMap _ _).nodup hnc
      have := get_of_mem _ p.1 p.2 hn hp
      rw [hget] at this
      by_cases hq : p.1 ∈ common r s
      case neg => simp [hq] at this
      simp only [hq, if_true, interF] at this
      cases ha : r.get p.1 with
      | none => simp [ha] at this
      | some a =>
      cases hb : s.get p.1 with
      | none => simp [ha, hb] at this
      | some b =>
      simp only [ha, hb] at this
      by_cases ho : a.overlaps b = true
      case neg => simp [ho] at this
      simp only [ho, if_true, Option.some.injEq] at this
      obtain ⟨i, hi, hv, _⟩ := Iv.inter_ok a b (valid_of_get r hr _ a ha) (valid_of_get s hs _ b hb) ho
      simp only [Iv.inter, ho, Bool.not_true, Bool.false_eq_true, if_false, Except.ok.injEq] at hi
      rw [← this, hi]; exact hv
  · intro c q
    simp only [hasPt]
    rw [hget]
    by_cases hq : q ∈ common r s
    · simp only [hq, if_true, interF]
      cases ha : r.get q with
      | none => simp
      | some a =>
        cases hb : s.get q with
        | none => simp
        | some b =>
          simp only
          by_cases ho : a.overlaps b = true
          · simp only [ho, if_true, Iv.mem_iff]; omega
          · simp only [ho, Bool.false_eq_true, if_false, false_iff]
            intro ⟨h1, h2⟩
            exact ho ((Iv.overlaps_iff a b (valid_of_get r hr q a ha) (valid_of_get s hs q b hb)).2 ⟨c, h1, h2⟩)
    · simp only [hq, if_false, Bool.false_eq_true, false_iff]
      intro ⟨h1, h2⟩
      apply hq
      rw [mem_common]
      constructor
      · rw [← get_isSome_iff]; cases hg : r.get q <;> simp_all
      · rw [← get_isSome_iff]; cases hg : s.get q <;> simp_all

theorem common_ne_nil_comm (r s : Region) : (common r s).isEmpty = (common s r).isEmpty := by
  rw [Bool.eq_iff_iff, List.isEmpty_iff, List.isEmpty_iff]
  constructor <;> intro h <;> apply List.eq_nil_iff_forall_not_mem.2 <;> intro q hq
  · exact (List.eq_nil_iff_forall_not_mem.1 h) q ((common_comm_mem s r q).1 hq)
  · exact (List.eq_nil_iff_forall_not_mem.1 h) q ((common_comm_mem r s q).1 hq)

/-- `r.depends_on(s)`: they share a qudit, and on every shared qudit all of `s` is before all of `r` -/
theorem dependsOn_iff (r s : Region) (hr : wf r = true) (hs : wf s = true) :
    dependsOn r s = true ↔
      (∃ q, q ∈ keys r ∧ q ∈ keys s) ∧
      ∀ q a b, get r q = some a → get s q = some b → ∀ c d, b.mem c = true → a.mem d = true → c < d := by
  unfold dependsOn
  simp only
  constructor
  · intro h
    split at h; · cases h
    rename_i hne
    simp only [List.all_eq_true] at h
    constructor
    · cases hc : common r s with
      | nil => simp [hc] at hne
      | cons q t =>
        have : q ∈ common r s := by simp [hc]
        exact ⟨q, (mem_common r s q).1 this⟩
    · intro q a b ha hb
      have hq : q ∈ common r s := (mem_common r s q).2
        ⟨(get_isSome_iff r q).1 (by simp [ha]), (get_isSome_iff s q).1 (by simp [hb])⟩
      have := h q hq
      simp only [ha, hb] at this
      exact (Iv.lt_iff b a (valid_of_get s hs q b hb) (valid_of_get r hr q a ha)).1 this
  · rintro ⟨⟨q, hq⟩, h⟩
    have hq' := (mem_common r s q).2 hq
    have hne : (common r s).isEmpty = false := by
      cases hc : common r s with
      | nil => simp [hc] at hq'
      | cons _ _ => rfl
    simp only [hne, Bool.false_eq_true, if_false, List.all_eq_true]
    intro k hk
    obtain ⟨h1, h2⟩ := (mem_common r s k).1 hk
    rw [← get_isSome_iff] at h1 h2
    cases ha : r.get k with
    | none => simp [ha] at h1
    | some a =>
      cases hb : s.get k with
      | none => simp [hb] at h2
      | some b =>
        simp only
        exact (Iv.lt_iff b a (valid_of_get s hs k b hb) (valid_of_get r hr k a ha)).2 (h k a b ha hb)

/-- the dependency relation the greedy partitioner sorts by is asymmetric -/
theorem dependsOn_asymm (r s : Region) (hr : wf r = true) (hs : wf s = true)
    (h : dependsOn r s = true) : dependsOn s r = false := by
  cases h2 : dependsOn s r with
  | false => rfl
  | true =>
    exfalso
    obtain ⟨⟨q, hq1, hq2⟩, h1⟩ := (dependsOn_iff r s hr hs).1 h
    obtain ⟨_, h2⟩ := (dependsOn_iff s r hs hr).1 h2
    rw [← get_isSome_iff] at hq1 hq2
    cases ha : r.get q with
    | none => simp [ha] at hq1
    | some a =>
      cases hb : s.get q with
      | none => simp [hb] at hq2
      | some b =>
        have va := valid_of_get r hr q a ha
        have vb := valid_of_get s hs q b hb
        simp only [Iv.valid, decide_eq_true_eq] at va vb
        have x := h1 q a b ha hb b.lo a.lo (by simp [Iv.mem]; omega) (by simp [Iv.mem]; omega)
        have y := h2 q b a hb ha a.lo b.lo (by simp [Iv.mem]; omega) (by simp [Iv.mem]; omega)
        omega

/-- regions one of which depends on the other share no cell -/
theorem dependsOn_disjoint (r s : Region) (hr : wf r = true) (hs : wf s = true)
    (h : dependsOn r s = true) : overlaps r s = false := by
  cases ho : overlaps r s with
  | false => rfl
  | true =>
    exfalso
    obtain ⟨c, q, h1, h2⟩ := (overlaps_iff r s hr hs).1 ho
    obtain ⟨_, hd⟩ := (dependsOn_iff r s hr hs).1 h
    obtain ⟨a, ha, h1⟩ := (hasPt_iff r c q).1 h1
    obtain ⟨b, hb, h2⟩ := (hasPt_iff s c q).1 h2
    have := hd q a b ha hb c c h2 h1
    omega

theorem shiftRight_get (r : Region) (k q : Nat) :
    get (shiftRight r k) q = (get r q).map (·.shiftR k) := by
  induction r with
  | nil => simp [shiftRight, get]
  | cons p t ih =>
    simp only [shiftRight, List.map_cons] at ih ⊢
    rw [get_cons, get_cons]
    split <;> simp_all

/-- `shift_right(k)` moves every cell `k` cycles to the right -/
theorem shiftRight_spec (r : Region) (k c q : Nat) :
    hasPt (shiftRight r k) c q = true ↔ k ≤ c ∧ hasPt r (c - k) q = true := by
  simp only [hasPt, shiftRight_get]
  cases r.get q with
  | none => simp
  | some a => simp only [Option.map_some]; exact Iv.shiftR_mem a k c

theorem shiftL_get (r : Region) (k q : Nat) :
    get (r.map (fun p => (p.1, p.2.shiftL k))) q = (get r q).map (·.shiftL k) := by
  induction r with
  | nil => simp [get]
  | cons p t ih =>
    simp only [List.map_cons]
    rw [get_cons, get_cons]
    split <;> simp_all

/-- `shift_left(k)`: raises exactly when a non-empty region starts before cycle `k`; otherwise
    every cell moves `k` cycles to the left -/
theorem shiftLeft_spec (r : Region) (hr : wf r = true) (k : Nat) :
    (shiftLeft r k = .error .value ↔ (r ≠ [] ∧ ∃ q a, get r q = some a ∧ a.lo < k))
    ∧ ∀ r', shiftLeft r k = .ok r' → ∀ c q, hasPt r' c q = true ↔ hasPt r (c + k) q = true := by
  unfold shiftLeft
  cases r with
  | nil =>
    simp only [List.isEmpty_nil, if_true, ne_eq, not_true_eq_false, false_and, iff_false,
      Except.ok.injEq]
    refine ⟨by simp, ?_⟩
    rintro r' rfl c q; simp [hasPt, get]
  | cons p t =>
    simp only [List.isEmpty_cons, Bool.false_eq_true, if_false, ne_eq, reduceCtorEq,
      not_false_eq_true, true_and]
    by_cases hk : minL (((p :: t) : Region).map (·.2.lo)) < k
    · simp only [hk, if_true, true_iff, reduceCtorEq, false_imp_iff, implies_true, and_true]
      have hm := minL_mem (((p :: t) : Region).map (·.2.lo)) (by simp)
      obtain ⟨x, hx, hxe⟩ := List.mem_map.1 hm
      exact ⟨x.1, x.2, get_of_mem _ x.1 x.2 (nodup_of_wf _ hr) hx, by omega⟩
    · simp only [hk, if_false, reduceCtorEq, false_iff, not_exists, not_and, Except.ok.injEq]
      constructor
      · intro q a ha
        have := lo_ge_min _ q a ha
        omega
      · rintro r' rfl c q
        simp only [hasPt]
        rw [shiftL_get]
        cases ha : get (p :: t) q with
        | none => simp
        | some a =>
          simp only [Option.map_some]
          have := lo_ge_min _ q a ha
          exact Iv.shiftL_mem a k c (by omega) (valid_of_get _ hr q a ha)

/-- bounds: `min_cycle` is the least cycle of any cell and is attained; same for the others -/
theorem minCycle_spec (r : Region) (hr : wf r = true) :
    (r = [] → minCycle r = .error .value) ∧
    (r ≠ [] → ∃ m, minCycle r = .ok m ∧ (∃ q, hasPt r m q = true) ∧ ∀ c q, hasPt r c q = true → m ≤ c) := by
  constructor
  · rintro rfl; rfl
  · intro hne
    have he : r.isEmpty = false := by cases r <;> simp_all
    refine ⟨minL (r.map (·.2.lo)), by simp [minCycle, guardNE, he], ?_, ?_⟩
    · have hm := minL_mem (r.map (·.2.lo)) (by simpa using hne)
      obtain ⟨x, hx, hxe⟩ := List.mem_map.1 hm
      have hg := get_of_mem _ x.1 x.2 (nodup_of_wf _ hr) hx
      have hv := valid_of_get r hr _ _ hg
      simp only [Iv.valid, decide_eq_true_eq] at hv
      refine ⟨x.1, ?_⟩
      simp only [hasPt, hg, Iv.mem_iff]
      omega
    · intro c q h
      obtain ⟨a, ha, h⟩ := (hasPt_iff r c q).1 h
      have := lo_ge_min r q a ha
      have := (Iv.mem_iff _ _).1 h
      omega

theorem maxCycle_spec (r : Region) (hr : wf r = true) :
    (r = [] → maxCycle r = .error .value) ∧
    (r ≠ [] → ∃ m, maxCycle r = .ok m ∧ (∃ q, hasPt r m q = true) ∧ ∀ c q, hasPt r c q = true → c ≤ m) := by
  constructor
  · rintro rfl; rfl
  · intro hne
    have he : r.isEmpty = false := by cases r <;> simp_all
    refine ⟨maxL (r.map (·.2.hi)), by simp [maxCycle, guardNE, he], ?_, ?_⟩
    · have hm := maxL_mem (r.map (·.2.hi)) (by simpa using hne)
      obtain ⟨x, hx, hxe⟩ := List.mem_map.1 hm
      have hg := get_of_mem _ x.1 x.2 (nodup_of_wf _ hr) hx
      have hv := valid_of_get r hr _ _ hg
      simp only [Iv.valid, decide_eq_true_eq] at hv
      refine ⟨x.1, ?_⟩
      simp only [hasPt, hg, Iv.mem_iff]
      omega
    · intro c q h
      obtain ⟨a, ha, h⟩ := (hasPt_iff r c q).1 h
      have := hi_le_max r q a ha
      have := (Iv.mem_iff _ _).1 h
      omega

/-! ### union -/

theorem mapM_keys_ok (f : Nat → Except Err (Nat × Iv)) (hf : ∀ q p, f q = .ok p → p.1 = q) :
    ∀ (l : List Nat) (u : Region), l.Nodup → l.mapM f = .ok u →
      keys u = l ∧ ∀ q ∈ l, ∃ i, f q = .ok (q, i) ∧ get u q = some i
  | [], u, _, h => by
    simp only [List.mapM_nil, pure, Except.pure, Except.ok.injEq] at h
    subst h; simp [keys]
  | a :: t, u, hn, h => by
    simp only [List.nodup_cons] at hn
    rw [List.mapM_cons] at h
    cases hfa : f a with
    | error e => simp [hfa, bind, Except.bind] at h
    | ok p =>
      cases ht : t.mapM f with
      | error e => simp [hfa, ht, bind, Except.bind] at h
      | ok u' =>
        simp only [hfa, ht, bind, Except.bind, pure, Except.pure, Except.ok.injEq] at h
        subst h
        obtain ⟨hk, hg⟩ := mapM_keys_ok f hf t u' hn.2 ht
        have hp := hf a p hfa
        refine ⟨by simp [keys, hp] at hk ⊢; exact hk, ?_⟩
        intro q hq
        rcases List.mem_cons.1 hq with rfl | hq
        · refine ⟨p.2, ?_, ?_⟩
          · rw [hfa, ← hp]
          · rw [get_cons]; simp [hp]
        · obtain ⟨i, h1, h2⟩ := hg q hq
          refine ⟨i, h1, ?_⟩
          rw [get_cons, hp]
          have : ¬ a = q := fun e => hn.1 (e ▸ hq)
          simp [this, h2]

theorem mapM_err (f : Nat → Except Err (Nat × Iv)) :
    ∀ (l : List Nat) (e : Err), l.mapM f = .error e → ∃ q ∈ l, f q = .error e
  | [], e, h => by simp [pure, Except.pure] at h
  | a :: t, e, h => by
    rw [List.mapM_cons] at h
    cases hfa : f a with
    | error e' =>
      simp only [hfa, bind, Except.bind, Except.error.injEq] at h
      subst h; exact ⟨a, by simp, hfa⟩
    | ok p =>
      cases ht : t.mapM f with
      | error e' =>
        simp only [hfa, ht, bind, Except.bind, Except.error.injEq] at h
        subst h
        obtain ⟨q, hq, h1⟩ := mapM_err f t e' ht
        exact ⟨q, List.mem_cons_of_mem _ hq, h1⟩
      | ok u' => simp [hfa, ht, bind, Except.bind, pure, Except.pure] at h

def unionF (r s : Region) (q : Nat) : Except Err (Nat × Iv) :=
  match r.get q, s.get q with
  | some a, some b => (a.union b).map (fun u => (q, u))
  | some a, none => .ok (q, a)
  | none, some b => .ok (q, b)
  | none, none => .error .key

theorem unionF_fst (r s : Region) (q : Nat) (p : Nat × Iv) (h : unionF r s q = .ok p) : p.1 = q := by
  unfold unionF at h
  split at h
  · rename_i a b _ _
    cases hu : a.union b with
    | error e => simp [hu, Except.map] at h
    | ok u => simp only [hu, Except.map, Except.ok.injEq] at h; subst h; rfl
  · cases h; rfl
  · cases h; rfl
  · cases h

theorem hasKey_iff (r : Region) (q : Nat) : hasKey r q = true ↔ q ∈ keys r := get_isSome_iff r q

theorem mem_allKeys (r s : Region) (q : Nat) : q ∈ allKeys r s ↔ q ∈ keys r ∨ q ∈ keys s := by
  simp only [allKeys, mem_sortN, List.mem_append, List.mem_filter, Bool.not_eq_true']
  constructor
  · rintro (h | ⟨h, _⟩)
    · exact Or.inl h
    · exact Or.inr h
  · rintro (h | h)
    · exact Or.inl h
    · by_cases hr : q ∈ keys r
      · exact Or.inl hr
      · refine Or.inr ⟨h, ?_⟩
        cases hk : hasKey r q with
        | false => rfl
        | true => exact absurd ((hasKey_iff r q).1 hk) hr

theorem nodup_allKeys (r s : Region) (hr : wf r = true) (hs : wf s = true) : (allKeys r s).Nodup := by
  unfold allKeys
  rw [nodup_sortN, List.nodup_append]
  refine ⟨nodup_of_wf r hr, (nodup_of_wf s hs).filter _, ?_⟩
  intro a ha b hb hab
  subst hab
  simp only [List.mem_filter, Bool.not_eq_true'] at hb
  have := (hasKey_iff r a).2 ha
  rw [this] at hb
  exact absurd hb.2 (by simp)

/-- `r.union(s)`: when it returns, the result is a well-formed region whose cells are the cells of
    either; when it raises, it raises ValueError and some shared qudit carries two intervals that
    neither overlap nor touch (so the per-qudit union is not an interval). -/
theorem union_spec (r s : Region) (hr : wf r = true) (hs : wf s = true) :
    (∀ u, union r s = .ok u →
        wf u = true ∧ ∀ c q, hasPt u c q = true ↔ (hasPt r c q = true ∨ hasPt s c q = true))
    ∧ (∀ e, union r s = .error e →
        e = .value ∧ ∃ q a b, get r q = some a ∧ get s q = some b ∧ a.union b = .error .value) := by
  have hun : union r s = (allKeys r s).mapM (unionF r s) := by
    unfold union unionF; rfl
  have hn := nodup_allKeys r s hr hs
  constructor
  · intro u hu
    rw [hun] at hu
    obtain ⟨hk, hg⟩ := mapM_keys_ok (unionF r s) (unionF_fst r s) _ u hn hu
    have hget : ∀ q i, get u q = some i → unionF r s q = .ok (q, i) := by
      intro q i hq
      have hq' : q ∈ allKeys r s := by
        rw [← hk, ← get_isSome_iff]; simp [hq]
      obtain ⟨i', h1, h2⟩ := hg q hq'
      rw [hq] at h2; cases h2; exact h1
    constructor
    · simp only [wf, Bool.and_eq_true, decide_eq_true_eq, List.all_eq_true]
      refine ⟨hk ▸ hn, ?_⟩
      intro p hp
      have hgp := get_of_mem u p.1 p.2 (hk ▸ hn) hp
      have := hget p.1 p.2 hgp
      unfold unionF at this
      split at this
      · rename_i a b ha hb
        cases hu' : a.union b with
        | error e => simp [hu', Except.map] at this
        | ok w =>
          simp only [hu', Except.map, Except.ok.injEq, Prod.mk.injEq, true_and] at this
          rw [← this]
          exact (Iv.union_ok a b w (valid_of_get r hr _ a ha) (valid_of_get s hs _ b hb) hu').1
      · rename_i a ha _
        simp only [Except.ok.injEq, Prod.mk.injEq, true_and] at this
        rw [← this]; exact valid_of_get r hr _ a ha
      · rename_i b _ hb
        simp only [Except.ok.injEq, Prod.mk.injEq, true_and] at this
        rw [← this]; exact valid_of_get s hs _ b hb
      · cases this
    · intro c q
      by_cases hq : q ∈ allKeys r s
      · obtain ⟨i, h1, h2⟩ := hg q hq
        simp only [hasPt, h2]
        unfold unionF at h1
        cases ha : r.get q with
        | none =>
          cases hb : s.get q with
          | none => simp [ha, hb] at h1
          | some b =>
            simp only [ha, hb, Except.ok.injEq, Prod.mk.injEq, true_and] at h1
            subst h1; simp
        | some a =>
          cases hb : s.get q with
          | none =>
            simp only [ha, hb, Except.ok.injEq, Prod.mk.injEq, true_and] at h1
            subst h1; simp
          | some b =>
            simp only [ha, hb] at h1
            cases hu' : a.union b with
            | error e => simp [hu', Except.map] at h1
            | ok w =>
              simp only [hu', Except.map, Except.ok.injEq, Prod.mk.injEq, true_and] at h1
              subst h1
              exact (Iv.union_ok a b w (valid_of_get r hr _ a ha) (valid_of_get s hs _ b hb) hu').2 c
      · have h0 : get u q = none := by
          cases hgq : get u q with
          | none => rfl
          | some i =>
            exfalso; apply hq
            rw [← hk, ← get_isSome_iff]; simp [hgq]
        have hr0 : r.get q = none := by
          cases hgq : r.get q with
          | none => rfl
          | some i =>
            exfalso; apply hq
            rw [mem_allKeys]; left; rw [← get_isSome_iff]; simp [hgq]
        have hs0 : s.get q = none := by
          cases hgq : s.get q with
          | none => rfl
          | some i =>
            exfalso; apply hq
            rw [mem_allKeys]; right; rw [← get_isSome_iff]; simp [hgq]
        simp [hasPt, h0, hr0, hs0]
  · intro e he
    rw [hun] at he
    obtain ⟨q, hq, h1⟩ := mapM_err (unionF r s) _ e he
    unfold unionF at h1
    cases ha : r.get q with
    | none =>
      cases hb : s.get q with
      | none =>
        exfalso
        rcases (mem_allKeys r s q).1 hq with h | h
        · rw [← get_isSome_iff] at h; simp [ha] at h
        · rw [← get_isSome_iff] at h; simp [hb] at h
      | some b => simp [ha, hb] at h1
    | some a =>
      cases hb : s.get q with
      | none => simp [ha, hb] at h1
      | some b =>
        simp only [ha, hb] at h1
        cases hu' : a.union b with
        | ok w => simp [hu', Except.map] at h1
        | error e' =>
          simp only [hu', Except.map, Except.error.injEq] at h1
          subst h1
          have : e' = .value := by
            unfold Iv.union at hu'
            split at hu'
            · cases hu'; rfl
            · cases hu'
          subst this
          exact ⟨rfl, q, a, b, ha, hb, hu'⟩

/-! ### equality -/

/-- `r == s` (equality of the sorted item lists) is equality as mappings -/
theorem eqv_iff (r s : Region) (hr : wf r = true) (hs : wf s = true) :
    eqv r s = true ↔ ∀ q, get r q = get s q := by
  unfold eqv
  rw [beq_iff_eq]
  constructor
  · intro h q
    have hk : location r = location s := by
      have := congrArg (List.map Prod.fst) h
      simpa [List.map_map, Function.comp_def] using this
    by_cases hq : q ∈ location r
    · have h1 : (q, get r q) ∈ (location r).map (fun q => (q, r.get q)) :=
        List.mem_map.2 ⟨q, hq, rfl⟩
      rw [h] at h1
      obtain ⟨q', _, h2⟩ := List.mem_map.1 h1
      simp only [Prod.mk.injEq] at h2
      rw [← h2.2, h2.1]
    · have hq2 : q ∉ location s := hk ▸ hq
      simp only [location, mem_sortN, ← get_isSome_iff] at hq hq2
      cases h1 : r.get q <;> cases h2 : s.get q <;> simp_all
  · intro h
    have hk : location r = location s := by
      unfold location
      apply sortN_of_perm
      rw [List.perm_ext_iff_of_nodup (nodup_of_wf r hr) (nodup_of_wf s hs)]
      intro q
      rw [← get_isSome_iff, ← get_isSome_iff, h q]
    rw [hk]
    apply List.map_congr_left
    intro q _
    rw [h q]

/-! ### the order `<` on regions that share qudits -/

def fShared (r s : Region) (q : Nat) : Bool :=
  match r.get q, s.get q with
  | some a, some b => a.lt b
  | _, _ => false

theorem ltRegion_cons (r s : Region) (q0 : Nat) (rest : List Nat) (hc : common r s = q0 :: rest) :
    ltRegion r s = if rest.all (fun q => fShared r s q == fShared r s q0) then .ok (fShared r s q0)
      else .error .value := by
  unfold ltRegion fShared
  simp only [hc]
  rfl

theorem ltRegion_shared (r s : Region) (hne : common r s ≠ []) :
    (ltRegion r s = .ok true ↔ ∀ q ∈ common r s, fShared r s q = true)
    ∧ (ltRegion r s = .ok false ↔ ∀ q ∈ common r s, fShared r s q = false)
    ∧ (ltRegion r s = .error .value ↔
        ∃ q ∈ common r s, ∃ q' ∈ common r s, fShared r s q ≠ fShared r s q') := by
  cases hc : common r s with
  | nil => exact absurd hc hne
  | cons q0 rest =>
    rw [ltRegion_cons r s q0 rest hc]
    by_cases hall : rest.all (fun q => fShared r s q == fShared r s q0) = true
    · simp only [hall, if_true, Except.ok.injEq, reduceCtorEq, false_iff, not_exists, not_and,
        List.mem_cons, forall_eq_or_imp, ne_eq, Decidable.not_not]
      simp only [List.all_eq_true, beq_iff_eq] at hall
      refine ⟨⟨fun h => ⟨h, fun q hq => (hall q hq).trans h⟩, fun h => h.1⟩,
        ⟨fun h => ⟨h, fun q hq => (hall q hq).trans h⟩, fun h => h.1⟩, ?_⟩
      exact ⟨⟨trivial, fun a ha => (hall a ha).symm⟩,
        fun a ha => ⟨hall a ha, fun b hb => (hall a ha).trans (hall b hb).symm⟩⟩
    · simp only [hall, Bool.false_eq_true, if_false, reduceCtorEq, false_iff, true_iff]
      simp only [Bool.not_eq_true, List.all_eq_false, beq_iff_eq] at hall
      obtain ⟨q, hq, hne'⟩ := hall
      refine ⟨?_, ?_, ⟨q, List.mem_cons_of_mem _ hq, q0, by simp, hne'⟩⟩
      · intro h
        exact hne' ((h q (List.mem_cons_of_mem _ hq)).trans (h q0 (by simp)).symm)
      · intro h
        exact hne' ((h q (List.mem_cons_of_mem _ hq)).trans (h q0 (by simp)).symm)

theorem dependsOn_eq_all (r s : Region) :
    dependsOn s r = true ↔ common r s ≠ [] ∧ ∀ q ∈ common r s, fShared r s q = true := by
  unfold dependsOn
  simp only
  have hiff : ∀ q, q ∈ common s r ↔ q ∈ common r s := fun q => common_comm_mem s r q
  constructor
  · intro h
    split at h; · cases h
    rename_i hne
    simp only [List.all_eq_true] at h
    constructor
    · intro he
      rw [common_ne_nil_comm, he] at hne
      simp at hne
    · intro q hq
      have := h q ((hiff q).2 hq)
      unfold fShared
      cases ha : r.get q <;> cases hb : s.get q <;> simp_all
  · rintro ⟨hne, h⟩
    have hne' : (common s r).isEmpty = false := by
      rw [common_ne_nil_comm]
      cases hc : common r s with
      | nil => exact absurd hc hne
      | cons _ _ => rfl
    simp only [hne', Bool.false_eq_true, if_false, List.all_eq_true]
    intro q hq
    have := h q ((hiff q).1 hq)
    unfold fShared at this
    cases ha : r.get q <;> cases hb : s.get q <;> simp_all

/-- on regions that share a qudit, `r < s` is `True` exactly when `s.depends_on(r)`, and raises
    exactly when two shared qudits disagree about the order -/
theorem ltRegion_dependsOn (r s : Region) (hne : common r s ≠ []) :
    (ltRegion r s = .ok true ↔ dependsOn s r = true)
    ∧ (ltRegion r s = .error .value ↔
        ∃ q ∈ common r s, ∃ q' ∈ common r s, fShared r s q ≠ fShared r s q') := by
  obtain ⟨h1, _, h3⟩ := ltRegion_shared r s hne
  refine ⟨?_, h3⟩
  rw [h1, dependsOn_eq_all]
  exact ⟨fun h => ⟨hne, h⟩, fun h => h.2⟩

/-- the hole behind finding F5: two regions ordered one way on one shared qudit and the other way
    on another are invisible to `depends_on` in both directions (and `<` raises) -/
theorem mixed_pair (r s : Region) (hr : wf r = true) (hs : wf s = true)
    (q1 q2 : Nat) (a1 b1 a2 b2 : Iv)
    (h1r : get r q1 = some a1) (h1s : get s q1 = some b1) (h1 : a1.lt b1 = true)
    (h2r : get r q2 = some a2) (h2s : get s q2 = some b2) (h2 : b2.lt a2 = true) :
    dependsOn r s = false ∧ dependsOn s r = false ∧ ltRegion r s = .error .value := by
  have va1 := valid_of_get r hr q1 a1 h1r
  have vb1 := valid_of_get s hs q1 b1 h1s
  have va2 := valid_of_get r hr q2 a2 h2r
  have vb2 := valid_of_get s hs q2 b2 h2s
  refine ⟨?_, ?_, ?_⟩
  · cases hd : dependsOn r s with
    | false => rfl
    | true =>
      exfalso
      have := ((dependsOn_iff r s hr hs).1 hd).2 q1 a1 b1 h1r h1s
      have hx := (Iv.lt_iff b1 a1 vb1 va1).2 this
      rw [Iv.lt_asymm a1 b1 va1 vb1 h1] at hx; cases hx
  · cases hd : dependsOn s r with
    | false => rfl
    | true =>
      exfalso
      have := ((dependsOn_iff s r hs hr).1 hd).2 q2 b2 a2 h2s h2r
      have hx := (Iv.lt_iff a2 b2 va2 vb2).2 this
      rw [Iv.lt_asymm b2 a2 vb2 va2 h2] at hx; cases hx
  · have hq1 : q1 ∈ common r s := (mem_common r s q1).2
      ⟨(get_isSome_iff r q1).1 (by simp [h1r]), (get_isSome_iff s q1).1 (by simp [h1s])⟩
    have hq2 : q2 ∈ common r s := (mem_common r s q2).2
      ⟨(get_isSome_iff r q2).1 (by simp [h2r]), (get_isSome_iff s q2).1 (by simp [h2s])⟩
    have hne : common r s ≠ [] := fun e => by rw [e] at hq1; cases hq1
    refine (ltRegion_shared r s hne).2.2.2 ⟨q1, hq1, q2, hq2, ?_⟩
    have f1 : fShared r s q1 = true := by simp [fShared, h1r, h1s, h1]
    have f2 : fShared r s q2 = false := by
      simp only [fShared, h2r, h2s]; exact Iv.lt_asymm b2 a2 vb2 va2 h2
    rw [f1, f2]; simp

/-- 1-D Helly for the `strict` test of `check_region`: all intervals of a non-empty well-formed
    region overlap pairwise iff the latest start is not after the earliest end iff some cycle lies in
    every interval (the column `straighten` aligns the region on) -/
theorem strictOk_iff (r : Region) (hr : wf r = true) (hne : r ≠ []) :
    (strictOk r = true ↔ maxL (r.map (·.2.lo)) ≤ minL (r.map (·.2.hi)))
    ∧ (strictOk r = true ↔ ∃ c, ∀ p ∈ r, p.2.mem c = true) := by
  have hv : ∀ p ∈ r, p.2.lo ≤ p.2.hi := by
    intro p hp
    simp only [wf, Bool.and_eq_true, List.all_eq_true] at hr
    simpa [Iv.valid] using hr.2 p hp
  have hlo : (r.map (·.2.lo)) ≠ [] := by simpa using hne
  have hhi : (r.map (·.2.hi)) ≠ [] := by simpa using hne
  have h1 : strictOk r = true ↔ maxL (r.map (·.2.lo)) ≤ minL (r.map (·.2.hi)) := by
    simp only [strictOk, List.all_eq_true, Iv.overlaps, Bool.and_eq_true, decide_eq_true_eq]
    constructor
    · intro h
      obtain ⟨x, hx, hxe⟩ := List.mem_map.1 (maxL_mem _ hlo)
      obtain ⟨y, hy, hye⟩ := List.mem_map.1 (minL_mem _ hhi)
      have := (h x hx y hy).1
      omega
    · intro h p hp p' hp'
      have a1 := le_maxL (r.map (·.2.lo)) p.2.lo (List.mem_map.2 ⟨p, hp, rfl⟩)
      have a2 := le_maxL (r.map (·.2.lo)) p'.2.lo (List.mem_map.2 ⟨p', hp', rfl⟩)
      have b1 := minL_le (r.map (·.2.hi)) p.2.hi (List.mem_map.2 ⟨p, hp, rfl⟩)
      have b2 := minL_le (r.map (·.2.hi)) p'.2.hi (List.mem_map.2 ⟨p', hp', rfl⟩)
      omega
  refine ⟨h1, ?_⟩
  rw [h1]
  constructor
  · intro h
    refine ⟨maxL (r.map (·.2.lo)), fun p hp => ?_⟩
    have a1 := le_maxL (r.map (·.2.lo)) p.2.lo (List.mem_map.2 ⟨p, hp, rfl⟩)
    have b1 := minL_le (r.map (·.2.hi)) p.2.hi (List.mem_map.2 ⟨p, hp, rfl⟩)
    rw [Iv.mem_iff]; omega
  · rintro ⟨c, hc⟩
    obtain ⟨x, hx, hxe⟩ := List.mem_map.1 (maxL_mem _ hlo)
    obtain ⟨y, hy, hye⟩ := List.mem_map.1 (minL_mem _ hhi)
    have := (Iv.mem_iff _ _).1 (hc x hx)
    have := (Iv.mem_iff _ _).1 (hc y hy)
    omega

/-- `region.volume` counts the cells: it is the length of `region.points` -/
theorem volume_eq (r : Region) (hr : wf r = true) : volume r = (points r).length := by
  have hv : ∀ p ∈ r, p.2.valid = true := by
    simp only [wf, Bool.and_eq_true, List.all_eq_true] at hr; exact hr.2
  clear hr
  induction r with
  | nil => rfl
  | cons p t ih =>
    have ih' := ih (fun q hq => hv q (List.mem_cons_of_mem _ hq))
    simp only [volume, points, List.map_cons, List.sum_cons, List.flatMap_cons, List.length_append,
      List.length_map] at ih' ⊢
    rw [Iv.length_indices p.2 (hv p (by simp)), ih']

def depF (r s : Region) (q : Nat) : Bool :=
  match r.get q, s.get q with
  | some a, some b => b.lt a
  | _, _ => false

theorem dependency_eq (r s : Region) :
    dependency r s = if (common r s).isEmpty then 0 else if (common r s).any (depF r s) then 1 else -1 := rfl

theorem depF_eq (r s : Region) (q : Nat) : depF r s q = fShared s r q := by
  unfold depF fShared
  cases r.get q <;> cases s.get q <;> rfl

/-- `r.dependency(s)`: 0 without a shared qudit, 1 when on SOME shared qudit all of `s` is before
    all of `r`, -1 otherwise -/
theorem dependency_spec (r s : Region) :
    (dependency r s = 0 ↔ common r s = [])
    ∧ (dependency r s = 1 ↔ ∃ q ∈ common r s, fShared s r q = true)
    ∧ (dependency r s = -1 ↔ common r s ≠ [] ∧ ∀ q ∈ common r s, fShared s r q = false) := by
  rw [dependency_eq]
  by_cases he : (common r s).isEmpty = true
  · have he' : common r s = [] := List.isEmpty_iff.1 he
    simp [he']
  · have hne : common r s ≠ [] := fun e => he (by simp [e])
    simp only [he, Bool.false_eq_true, if_false]
    by_cases ha : (common r s).any (depF r s) = true
    · simp only [ha, if_true]
      obtain ⟨q, hq, hq2⟩ := List.any_eq_true.1 ha
      rw [depF_eq] at hq2
      refine ⟨by simp [hne], ⟨fun _ => ⟨q, hq, hq2⟩, fun _ => trivial⟩, ?_⟩
      constructor
      · intro h; exact absurd h (by decide)
      · rintro ⟨_, hall⟩
        rw [hall q hq] at hq2; cases hq2
    · simp only [ha, Bool.false_eq_true, if_false]
      have hn : ∀ q ∈ common r s, fShared s r q = false := by
        intro q hq
        cases hc : fShared s r q with
        | false => rfl
        | true =>
          exact absurd (List.any_eq_true.2 ⟨q, hq, by rw [depF_eq]; exact hc⟩) ha
      refine ⟨?_, ?_, ⟨fun _ => ⟨hne, hn⟩, fun _ => trivial⟩⟩
      · constructor
        · intro h; exact absurd h (by decide)
        · intro h; exact absurd h hne
      · constructor
        · intro h; exact absurd h (by decide)
        · rintro ⟨q, hq, hc⟩
          rw [hn q hq] at hc; cases hc

/-- `region.transpose()`: the listed cycles are exactly the cycles holding a cell, in ascending
    order, each with exactly the qudits of its cells in ascending order -/
theorem transpose_spec (r : Region) (hr : wf r = true) :
    (∀ c qs, (c, qs) ∈ transpose r → qs = (location r).filter (fun q => r.hasPt c q) ∧ qs ≠ [])
    ∧ (∀ c, (∃ qs, (c, qs) ∈ transpose r) ↔ ∃ q, hasPt r c q = true)
    ∧ ((transpose r).map (·.1)).Pairwise (· < ·) := by
  unfold transpose
  by_cases he : r.isEmpty = true
  · have : r = [] := by cases r <;> simp_all
    subst this
    simp [hasPt, get]
  · simp only [he, Bool.false_eq_true, if_false]
    have hne : r ≠ [] := fun e => he (by simp [e])
    refine ⟨?_, ?_, ?_⟩
    · intro c qs h
      simp only [List.mem_filter, List.mem_map, List.mem_range'_1, Bool.not_eq_true',
        List.isEmpty_eq_false_iff] at h
      obtain ⟨⟨c', _, he'⟩, hq⟩ := h
      simp only [Prod.mk.injEq] at he'
      obtain ⟨rfl, rfl⟩ := he'
      exact ⟨rfl, hq⟩
    · intro c
      simp only [List.mem_filter, List.mem_map, List.mem_range'_1, Bool.not_eq_true',
        List.isEmpty_eq_false_iff, Prod.mk.injEq]
      constructor
      · rintro ⟨qs, ⟨c', _, rfl, rfl⟩, hq⟩
        obtain ⟨q, hq'⟩ := List.exists_mem_of_ne_nil _ hq
        exact ⟨q, (List.mem_filter.1 hq').2⟩
      · rintro ⟨q, hq⟩
        obtain ⟨a, ha, hm⟩ := (hasPt_iff r c q).1 hq
        have h1 := lo_ge_min r q a ha
        have h2 := hi_le_max r q a ha
        have hm' := (Iv.mem_iff _ _).1 hm
        refine ⟨_, ⟨c, by omega, rfl, rfl⟩, ?_⟩
        intro hnil
        have : q ∈ (location r).filter (fun q => r.hasPt c q) := by
          rw [List.mem_filter]
          refine ⟨?_, hq⟩
          rw [location, mem_sortN, ← get_isSome_iff]; simp [ha]
        rw [hnil] at this; cases this
    · have hp : ((List.range' (minL (r.map (·.2.lo)))
          (maxL (r.map (·.2.hi)) + 1 - minL (r.map (·.2.lo)))).map
          (fun c => (c, (location r).filter (fun q => r.hasPt c q)))).map (·.1)
          = List.range' (minL (r.map (·.2.lo))) (maxL (r.map (·.2.hi)) + 1 - minL (r.map (·.2.lo))) := by
        simp [List.map_map, Function.comp_def]
      have hs : (List.range' (minL (r.map (·.2.lo)))
          (maxL (r.map (·.2.hi)) + 1 - minL (r.map (·.2.lo)))).Pairwise (· < ·) :=
        List.pairwise_lt_range'
      rw [← hp] at hs
      exact (List.Pairwise.sublist (List.Sublist.map _ List.filter_sublist) hs)

end Region
end BqVerif.Region
