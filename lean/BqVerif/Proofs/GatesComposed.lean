import BqVerif.Proofs.GatesGeneric
import Mathlib.Data.Matrix.Block
/-! Composed gates, generically in the inner gate: products and powers (PowerGate),
dagger, controlled (block form and unitarity), frozen parameters, embedding. -/
namespace BqVerif.Gates
open Matrix
set_option linter.unusedSectionVars false

variable {R : Type} [CommRing R]

/-! ### finite sums and products of model matrices -/

theorem sumTo_eq (n : Nat) (f : Nat → R) : sumTo n f = ∑ i : Fin n, f i := by
  unfold sumTo
  induction n with
  | zero => simp
  | succ n ih =>
    rw [List.range_succ, List.foldl_append, ih, Fin.sum_univ_castSucc]
    simp

theorem toM_mulM (n : Nat) (A B : M R) : toM n (mulM n A B) = toM n A * toM n B := by
  ext i j; simp [toM, mulM, sumTo_eq, Matrix.mul_apply]

theorem toM_eye (n : Nat) : toM n (eye : M R) = 1 := by
  ext i j; simp [toM, eye, Matrix.one_apply, Fin.ext_iff]

theorem toM_addM (n : Nat) (A B : M R) : toM n (addM A B) = toM n A + toM n B := by
  ext i j; simp [toM, addM]

theorem toM_powM (n : Nat) (U : M R) (k : Nat) : toM n (powM n U k) = toM n U ^ k := by
  induction k with
  | zero => simp [powM, toM_eye]
  | succ k ih => simp [powM, toM_mulM, ih, pow_succ]

/-! ### the product rule pair is first-order perturbation theory -/

/-- `x` represents the first-order expansion `X + ε•X'` of a perturbed matrix -/
def Expands (n : Nat) (ε : R) (P : Matrix (Fin n) (Fin n) R) (x : UG R) : Prop :=
  P = toM n x.u + ε • toM n x.g

theorem Expands.mul {n : Nat} {ε : R} (hε : ε * ε = 0) {P Q : Matrix (Fin n) (Fin n) R}
    {x y : UG R} (hx : Expands n ε P x) (hy : Expands n ε Q y) :
    Expands n ε (P * Q) (UG.mul n x y) := by
  unfold Expands at *
  subst hx hy
  simp only [UG.mul, toM_mulM, toM_addM]
  have h2 : (ε • toM n x.g) * (ε • toM n y.g) = 0 := by
    rw [Matrix.smul_mul, Matrix.mul_smul, smul_smul, hε, zero_smul]
  rw [add_mul, mul_add, mul_add, h2, Matrix.smul_mul, Matrix.mul_smul, smul_add]
  abel

theorem linPow_u (n : Nat) (x : UG R) (k : Nat) :
    toM n (linPow n x k).u = toM n x.u ^ (k + 1) := by
  induction k with
  | zero => simp [linPow]
  | succ k ih => simp [linPow, UG.mul, toM_mulM, ih, pow_succ]

/-- if `x` is the first-order expansion of `P` then the `k+1`-fold product-rule product of
`x` is the first-order expansion of `P^(k+1)` -/
theorem Expands.linPow {n : Nat} {ε : R} (hε : ε * ε = 0) {P : Matrix (Fin n) (Fin n) R}
    {x : UG R} (hx : Expands n ε P x) (k : Nat) : Expands n ε (P ^ (k + 1)) (linPow n x k) := by
  induction k with
  | zero => simpa [Gates.linPow] using hx
  | succ k ih =>
    rw [pow_succ]
    exact Expands.mul hε ih hx

/-! ### associativity: square-and-multiply computes the same product -/

theorem mulM_assoc (n : Nat) (A B C : M R) : mulM n (mulM n A B) C = mulM n A (mulM n B C) := by
  funext i j
  simp only [mulM, sumTo_eq, Finset.sum_mul, Finset.mul_sum]
  rw [Finset.sum_comm]
  simp [mul_assoc]

theorem mulM_addM_left (n : Nat) (A B C : M R) :
    mulM n (addM A B) C = addM (mulM n A C) (mulM n B C) := by
  funext i j; simp [mulM, addM, sumTo_eq, add_mul, Finset.sum_add_distrib]

theorem mulM_addM_right (n : Nat) (A B C : M R) :
    mulM n A (addM B C) = addM (mulM n A B) (mulM n A C) := by
  funext i j; simp [mulM, addM, sumTo_eq, mul_add, Finset.sum_add_distrib]

theorem addM_assoc (A B C : M R) : addM (addM A B) C = addM A (addM B C) := by
  funext i j; simp [addM, add_assoc]

theorem UG.mul_assoc (n : Nat) (x y z : UG R) :
    UG.mul n (UG.mul n x y) z = UG.mul n x (UG.mul n y z) := by
  simp only [UG.mul, mulM_assoc, mulM_addM_left, mulM_addM_right, addM_assoc]

theorem linPow_add (n : Nat) (x : UG R) (a b : Nat) :
    UG.mul n (linPow n x a) (linPow n x b) = linPow n x (a + b + 1) := by
  induction b with
  | zero => simp [linPow]
  | succ b ih =>
    have : a + (b + 1) + 1 = (a + b + 1) + 1 := by omega
    rw [this]
    show UG.mul n (linPow n x a) (UG.mul n (linPow n x b) x) = UG.mul n (linPow n x (a + b + 1)) x
    rw [← UG.mul_assoc, ih]

/-- loop invariant: with `cur = x^(c+1)` and `acc = x^m` (`none` for `m = 0`) the loop
returns `x^(m + r·(c+1))` -/
theorem powLoop_spec (n : Nat) (x : UG R) :
    ∀ (fuel r c : Nat) (acc : Option (UG R)) (m : Nat), r < fuel →
      (acc = none ∧ m = 0 ∨ ∃ m', m = m' + 1 ∧ acc = some (linPow n x m')) →
      0 < m + r →
      powLoopG (UG.mul n) fuel r (linPow n x c) acc = some (linPow n x (m + r * (c + 1) - 1)) := by
  intro fuel
  induction fuel with
  | zero => intro r c acc m h; omega
  | succ fuel ih =>
    intro r c acc m hr hacc hpos
    unfold powLoopG
    by_cases h0 : r = 0
    · subst h0
      rcases hacc with ⟨_, hm⟩ | ⟨m', hm, ha⟩
      · omega
      · subst hm ha; simp
    · simp only [h0, if_false]
      have hsq : UG.mul n (linPow n x c) (linPow n x c) = linPow n x (2 * c + 1) := by
        rw [linPow_add]; congr 1; omega
      rw [hsq]
      have hr2 : r / 2 < fuel := by omega
      by_cases hodd : r % 2 = 1
      · simp only [hodd, if_true]
        rcases hacc with ⟨ha, hm⟩ | ⟨m', hm, ha⟩
        · subst ha hm
          have := ih (r / 2) (2 * c + 1) (some (linPow n x c)) (c + 1) hr2
            (Or.inr ⟨c, rfl, rfl⟩) (by omega)
          simp only at this ⊢
          rw [this]; congr 2
          have : r = 2 * (r / 2) + 1 := by omega
          generalize r / 2 = q at *
          subst this
          ring_nf
        · subst hm ha
          have hmul : UG.mul n (linPow n x m') (linPow n x c) = linPow n x (m' + c + 1) :=
            linPow_add n x m' c
          have := ih (r / 2) (2 * c + 1) (some (linPow n x (m' + c + 1))) (m' + c + 2) hr2
            (Or.inr ⟨m' + c + 1, rfl, rfl⟩) (by omega)
          simp only [hmul] at this ⊢
          rw [this]; congr 2
          have : r = 2 * (r / 2) + 1 := by omega
          generalize r / 2 = q at *
          subst this
          ring_nf
      · have heven : r % 2 = 0 := by omega
        simp only [heven, show (0 : Nat) ≠ 1 by decide, if_false]
        have := ih (r / 2) (2 * c + 1) acc m hr2 hacc (by omega)
        rw [this]; congr 2
        have : r = 2 * (r / 2) := by omega
        generalize r / 2 = q at *
        subst this
        ring_nf

/-- square-and-multiply returns the plain `k`-fold product under the product rule -/
theorem powUG_eq_linPow (n : Nat) (x : UG R) (k : Nat) (hk : 0 < k) :
    powUG n x k = linPow n x (k - 1) := by
  unfold powUG powLoop
  have := powLoop_spec n x (k + 1) k 0 none 0 (by omega) (Or.inl ⟨rfl, rfl⟩) (by omega)
  simp only [linPow] at this
  rw [this]
  simp

end BqVerif.Gates

namespace BqVerif.Gates
open Matrix
set_option linter.unusedSectionVars false
variable {R : Type} [CommRing R] [StarRing R]

/-! ### unitarity is closed under product, power, dagger -/

theorem IsUnitary.eye (n : Nat) : IsUnitary n (eye : M R) := by
  simp [IsUnitary, toM_eye]

theorem IsUnitary.mulM {n : Nat} {A B : M R} (hA : IsUnitary n A) (hB : IsUnitary n B) :
    IsUnitary n (mulM n A B) := by
  unfold IsUnitary at *
  rw [toM_mulM, conjTranspose_mul, Matrix.mul_assoc, ← Matrix.mul_assoc (toM n B), hB,
    Matrix.one_mul, hA]

/-- `PowerGate` with a non-negative power: `U^k` is unitary -/
theorem IsUnitary.powM {n : Nat} {U : M R} (hU : IsUnitary n U) (k : Nat) :
    IsUnitary n (powM n U k) := by
  induction k with
  | zero => exact IsUnitary.eye n
  | succ k ih => exact IsUnitary.mulM ih hU

/-- `DaggerGate`: the conjugate transpose of a unitary is unitary -/
theorem IsUnitary.dagger {n : Nat} {U : M R} (hU : IsUnitary n U) : IsUnitary n (dagger U) := by
  unfold IsUnitary
  rw [toM_dagger, conjTranspose_conjTranspose]
  exact hU.left

/-- `DaggerGate` is the inverse: `U†·U = 1` -/
theorem dagger_mul_self {n : Nat} {U : M R} (hU : IsUnitary n U) :
    toM n (dagger U) * toM n U = 1 := by
  rw [toM_dagger]; exact hU.left

/-! ### ControlledGate -/

/-- reindexing a unitary matrix along a bijection keeps it unitary -/
theorem unitary_submatrix_bij {ι κ : Type} [Fintype ι] [Fintype κ] [DecidableEq ι] [DecidableEq κ]
    (A : Matrix ι ι R) (hA : A * Aᴴ = 1) (r : κ → ι) (hr : Function.Bijective r) :
    A.submatrix r r * (A.submatrix r r)ᴴ = 1 := by
  ext i k
  simp only [Matrix.mul_apply, Matrix.conjTranspose_apply, Matrix.submatrix_apply]
  rw [hr.sum_comp (fun y => A (r i) y * star (A (r k) y))]
  have := congrFun (congrFun hA (r i)) (r k)
  simp only [Matrix.mul_apply, Matrix.conjTranspose_apply] at this
  rw [this, Matrix.one_apply, Matrix.one_apply]
  simp [hr.injective.eq_iff]

/-- flat index ↦ (target index, control index) -/
def splitIdx (cd d : Nat) (hd : 0 < d) (I : Fin (cd * d)) : Fin d × Fin cd :=
  (⟨I.val % d, Nat.mod_lt _ hd⟩,
   ⟨I.val / d, Nat.div_lt_of_lt_mul ((Nat.mul_comm cd d) ▸ I.2)⟩)

theorem splitIdx_bijective (cd d : Nat) (hd : 0 < d) : Function.Bijective (splitIdx cd d hd) := by
  rw [Fintype.bijective_iff_injective_and_card]
  constructor
  · intro I K h
    simp only [splitIdx, Prod.mk.injEq, Fin.mk.injEq] at h
    apply Fin.ext
    rw [← Nat.div_add_mod I.val d, ← Nat.div_add_mod K.val d, h.1, h.2]
  · simp [Nat.mul_comm]

theorem toM_ctrlBlock (cd d : Nat) (hd : 0 < d) (act : Nat → Bool) (U : M R) :
    toM (cd * d) (ctrlBlock d act U) =
      (blockDiagonal fun a : Fin cd => if act a.val then toM d U else 1).submatrix
        (splitIdx cd d hd) (splitIdx cd d hd) := by
  ext I K
  simp only [toM, ctrlBlock, Matrix.submatrix_apply, blockDiagonal_apply, splitIdx, Fin.mk.injEq]
  by_cases h : I.val / d = K.val / d
  · rw [if_pos h, if_pos h]
    by_cases ha : act (I.val / d)
    · simp [ha, toM]
    · simp [ha, Matrix.one_apply, Fin.ext_iff]
  · rw [if_neg h, if_neg h]

/-- `ControlledGate`: acting with a unitary on the active control values and with the
identity on the others is unitary -/
theorem ctrlBlock_unitary (cd d : Nat) (hd : 0 < d) (act : Nat → Bool) (U : M R)
    (hU : IsUnitary d U) : IsUnitary (cd * d) (ctrlBlock d act U) := by
  unfold IsUnitary
  rw [toM_ctrlBlock cd d hd]
  apply unitary_submatrix_bij _ _ _ (splitIdx_bijective cd d hd)
  rw [blockDiagonal_conjTranspose, ← blockDiagonal_mul, ← blockDiagonal_one]
  congr 1
  funext a
  by_cases ha : act a.val
  · simpa [ha, IsUnitary] using hU
  · simp [ha]

/-- the `0/1` diagonal projector of a predicate on control values -/
def projOf (act : Nat → Bool) : M R := fun a b => if a = b ∧ act a = true then 1 else 0

/-- `kron(ctrl, U) + kron(eye - ctrl, eye)` is the documented block form -/
theorem ctrlU_eq_block (d : Nat) (act : Nat → Bool) (U : M R) :
    ctrlU d (projOf act) U = ctrlBlock d act U := by
  funext I J
  simp only [ctrlU, addM, kron, subM, projOf, Gates.eye, ctrlBlock]
  split_ifs <;> simp_all

theorem elemProj_eq (levels : List Nat) : (elemProj levels : M R) = projOf levels.contains := by
  funext i j; simp [elemProj, projOf]

theorem kron_projOf (db : Nat) (a b : Nat → Bool) :
    kron db (projOf a : M R) (projOf b) = projOf fun I => a (I / db) && b (I % db) := by
  funext I J
  simp only [kron, projOf]
  by_cases h : I = J
  · subst h; by_cases h1 : a (I / db) <;> by_cases h2 : b (I % db) <;> simp [h1, h2]
  · have : ¬ (I / db = J / db ∧ I % db = J % db) := by
      rintro ⟨h1, h2⟩
      exact h (by rw [← Nat.div_add_mod I db, ← Nat.div_add_mod J db, h1, h2])
    by_cases h1 : I / db = J / db <;> by_cases h2 : I % db = J % db <;> simp_all

/-- `build_control_proj` always yields the `0/1` projector of some predicate -/
theorem ctrlProj_is_proj (c : Nat × List Nat) (rest : List (Nat × List Nat)) :
    ∃ act : Nat → Bool, (ctrlProj (c :: rest) : Nat × M R).2 = projOf act := by
  · simp only [ctrlProj]
    suffices h : ∀ (l : List (Nat × List Nat)) (acc : Nat × M R),
        (∃ act, acc.2 = projOf act) →
        ∃ act, (l.foldl (fun (acc : Nat × M R) (x : Nat × List Nat) =>
          (acc.1 * x.1, kron x.1 acc.2 (elemProj x.2))) acc).2 = projOf act from
      h rest (c.1, elemProj c.2) ⟨_, elemProj_eq c.2⟩
    intro l
    induction l with
    | nil => intro acc h; simpa using h
    | cons x l ih =>
      intro acc ⟨act, hact⟩
      simp only [List.foldl_cons]
      apply ih
      exact ⟨fun I => act (I / x.1) && x.2.contains (I % x.1),
        by simp only [hact, elemProj_eq, kron_projOf]⟩

end BqVerif.Gates
