import BqVerif.Model.Cost
import BqVerif.Proofs.CostAlg
import Mathlib.Algebra.BigOperators.Fin
import Mathlib.Algebra.Order.Field.Rat
import Mathlib.Algebra.Order.BigOperators.Ring.Finset
import Mathlib.Tactic.Positivity
import Mathlib.Tactic.Linarith
/-!
Bridge between the executable model (`Model/NumC19.lean`, `Model/Cost.lean`: Gaussian rationals,
matrices as functions on `Fin`) and Mathlib's `Matrix` algebra, so that the general theorems of
`Proofs/CostAlg.lean` hold for the model.
-/
namespace BqVerif.NumC19
open Matrix

@[ext] theorem GQ.ext' {a b : GQ} (h1 : a.re = b.re) (h2 : a.im = b.im) : a = b := by
  cases a; cases b; simp_all

@[simp] theorem GQ.add_re (a b : GQ) : (a + b).re = a.re + b.re := rfl
@[simp] theorem GQ.add_im (a b : GQ) : (a + b).im = a.im + b.im := rfl
@[simp] theorem GQ.sub_re (a b : GQ) : (a - b).re = a.re - b.re := rfl
@[simp] theorem GQ.sub_im (a b : GQ) : (a - b).im = a.im - b.im := rfl
@[simp] theorem GQ.neg_re (a : GQ) : (-a).re = -a.re := rfl
@[simp] theorem GQ.neg_im (a : GQ) : (-a).im = -a.im := rfl
@[simp] theorem GQ.mul_re (a b : GQ) : (a * b).re = a.re * b.re - a.im * b.im := rfl
@[simp] theorem GQ.mul_im (a b : GQ) : (a * b).im = a.re * b.im + a.im * b.re := rfl
@[simp] theorem GQ.zero_re : (0 : GQ).re = 0 := rfl
@[simp] theorem GQ.zero_im : (0 : GQ).im = 0 := rfl
@[simp] theorem GQ.one_re : (1 : GQ).re = 1 := rfl
@[simp] theorem GQ.one_im : (1 : GQ).im = 0 := rfl
@[simp] theorem GQ.conj_re (a : GQ) : a.conj.re = a.re := rfl
@[simp] theorem GQ.conj_im (a : GQ) : a.conj.im = -a.im := rfl

instance : CommRing GQ where
  add := (· + ·)
  zero := 0
  neg := Neg.neg
  sub := (· - ·)
  mul := (· * ·)
  one := 1
  add_assoc a b c := by ext <;> simp <;> ring
  zero_add a := by ext <;> simp
  add_zero a := by ext <;> simp
  add_comm a b := by ext <;> simp <;> ring
  neg_add_cancel a := by ext <;> simp
  sub_eq_add_neg a b := by ext <;> simp <;> ring
  left_distrib a b c := by ext <;> simp <;> ring
  right_distrib a b c := by ext <;> simp <;> ring
  zero_mul a := by ext <;> simp
  mul_zero a := by ext <;> simp
  mul_assoc a b c := by ext <;> simp <;> ring
  one_mul a := by ext <;> simp
  mul_one a := by ext <;> simp
  mul_comm a b := by ext <;> simp <;> ring
  nsmul := nsmulRec
  zsmul := zsmulRec

instance : StarRing GQ where
  star := GQ.conj
  star_involutive a := by ext <;> simp [GQ.conj]
  star_mul a b := by ext <;> simp [GQ.conj] <;> ring
  star_add a b := by ext <;> simp [GQ.conj] <;> ring

@[simp] theorem GQ.star_def (a : GQ) : star a = a.conj := rfl

theorem GQ.absSq_eq (a : GQ) : a.absSq = (a * star a).re := by
  simp [GQ.absSq]

theorem GQ.mul_star_im (a : GQ) : (a * star a).im = 0 := by
  simp; ring

theorem GQ.star_mul_self_re (a : GQ) : (star a * a).re = a.absSq := by
  simp [GQ.absSq]

theorem GQ.absSq_nonneg (a : GQ) : 0 ≤ a.absSq := by
  unfold GQ.absSq; exact add_nonneg (mul_self_nonneg _) (mul_self_nonneg _)

theorem GQ.absSq_eq_zero (a : GQ) : a.absSq = 0 ↔ a = 0 := by
  constructor
  · intro h
    unfold GQ.absSq at h
    have h1 : a.re * a.re = 0 := by nlinarith [mul_self_nonneg a.re, mul_self_nonneg a.im]
    have h2 : a.im * a.im = 0 := by nlinarith [mul_self_nonneg a.re, mul_self_nonneg a.im]
    ext
    · simpa using mul_self_eq_zero.mp h1
    · simpa using mul_self_eq_zero.mp h2
  · rintro rfl; simp [GQ.absSq]

/-! ### sums and matrices -/

theorem sumFin_eq {n : Nat} (f : Fin n → GQ) : sumFin f = ∑ i, f i := by
  unfold sumFin
  rw [Fin.sum_univ_def]
  induction List.finRange n with
  | nil => rfl
  | cons x xs ih => simp only [List.foldr_cons, List.map_cons, List.sum_cons, ih]

theorem sumFin_rat_eq {n : Nat} (f : Fin n → Rat) : sumFin f = ∑ i, f i := by
  unfold sumFin
  rw [Fin.sum_univ_def]
  induction List.finRange n with
  | nil => rfl
  | cons x xs ih => simp only [List.foldr_cons, List.map_cons, List.sum_cons, ih]

/-- a model matrix read as a Mathlib matrix (definitionally the same function) -/
def Mat.toM {n m : Nat} (A : Mat n m) : Matrix (Fin n) (Fin m) GQ := A

theorem Mat.mul_toM {n k m : Nat} (A : Mat n k) (B : Mat k m) :
    (Mat.mul A B).toM = A.toM * B.toM := by
  funext i j
  rw [Matrix.mul_apply]
  show sumFin (fun l => A i l * B l j) = ∑ l, A i l * B l j
  exact sumFin_eq _

theorem Mat.dagger_toM {n m : Nat} (A : Mat n m) : (Mat.dagger A).toM = A.toMᴴ := by
  funext i j; rfl

theorem Mat.trace_toM {n : Nat} (A : Mat n n) : Mat.trace A = A.toM.trace := by
  show sumFin (fun i => A i i) = ∑ i, A i i
  exact sumFin_eq _

theorem Mat.one_toM (n : Nat) : (Mat.one n).toM = 1 := by
  funext i j
  rw [Matrix.one_apply]
  rfl

theorem Mat.sub_toM {n m : Nat} (A B : Mat n m) : (Mat.sub A B).toM = A.toM - B.toM := by
  funext i j; rfl

theorem re_sum {ι : Type*} (s : Finset ι) (f : ι → GQ) : (∑ i ∈ s, f i).re = ∑ i ∈ s, (f i).re := by
  classical
  induction s using Finset.induction_on with
  | empty => simp
  | insert a s ha ih => rw [Finset.sum_insert ha, Finset.sum_insert ha, GQ.add_re, ih]

/-- `tr(D†D) = Σ |D_ij|²` has real part zero only for `D = 0`: definiteness of ℚ(i). -/
theorem definite_GQ {n m : Nat} : CostAlg.Definite GQ (Fin n) (Fin m) := by
  intro D h
  have hre : ((Dᴴ * D).trace).re = 0 := by rw [h]; rfl
  simp only [Matrix.trace, Matrix.diag, Matrix.mul_apply, Matrix.conjTranspose_apply, re_sum,
    GQ.star_mul_self_re] at hre
  funext i j
  have h1 := (Finset.sum_eq_zero_iff_of_nonneg (fun j _ =>
    Finset.sum_nonneg (fun i _ => GQ.absSq_nonneg (D i j)))).mp hre j (Finset.mem_univ _)
  have h2 := (Finset.sum_eq_zero_iff_of_nonneg (fun i _ => GQ.absSq_nonneg (D i j))).mp h1 i
    (Finset.mem_univ _)
  exact (GQ.absSq_eq_zero _).mp h2

end BqVerif.NumC19
