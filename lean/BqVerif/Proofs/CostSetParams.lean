import BqVerif.Model.Cost
import BqVerif.Proofs.CircIter
import Mathlib.Algebra.BigOperators.Group.List.Basic
/-!
`Circuit.set_params` on the list-of-cycles model: structure is untouched, and reading the parameters
back (`circuit.params`, iteration order) returns exactly the vector that was set.
-/
namespace BqVerif.Cost
open BqVerif.Circ

/-- everything of an operation except its parameter values -/
def shape (o : Op) : Nat × List Nat × List Nat := (o.gid, o.loc, o.rad)

def upd (ps : List Int) (k : Nat) (cy : Cycle) (o : Op) : Op :=
  { o with par := (ps.drop (k + offIn cy o)).take (parLen o) }

theorem setCycle_eq (ps : List Int) (k : Nat) (cy : Cycle) : setCycle ps k cy = cy.map (upd ps k cy) := rfl

theorem upd_shape (ps k cy o) : shape (upd ps k cy o) = shape o := rfl
theorem upd_head (ps k cy o) : (upd ps k cy o).head = o.head := rfl

theorem setCycle_shape (ps : List Int) (k : Nat) (cy : Cycle) :
    (setCycle ps k cy).map shape = cy.map shape := by
  rw [setCycle_eq, List.map_map]
  exact List.map_congr_left (fun o _ => upd_shape ps k cy o)

theorem setCycle_length (ps : List Int) (k : Nat) (cy : Cycle) : (setCycle ps k cy).length = cy.length := by
  rw [setCycle_eq, List.length_map]

theorem setCycles_shape (ps : List Int) (k : Nat) (cs : List Cycle) :
    (setCycles ps k cs).map (·.map shape) = cs.map (·.map shape) := by
  induction cs generalizing k with
  | nil => rfl
  | cons cy rest ih =>
    simp only [setCycles, List.map_cons, setCycle_shape, ih]

theorem setCycles_length (ps : List Int) (k : Nat) (cs : List Cycle) :
    (setCycles ps k cs).length = cs.length := by
  induction cs generalizing k with
  | nil => rfl
  | cons cy rest ih => simp only [setCycles, List.length_cons, ih]

/-! ### reading back -/

theorem insertBy_map (f : Op → Op) (hf : ∀ o, (f o).head = o.head) (x : Op) (l : List Op) :
    insertBy Op.head (f x) (l.map f) = (insertBy Op.head x l).map f := by
  induction l with
  | nil => rfl
  | cons y ys ih =>
    simp only [List.map_cons, insertBy, hf]
    split
    · rfl
    · simp only [List.map_cons, ih]

theorem sortBy_map (f : Op → Op) (hf : ∀ o, (f o).head = o.head) (l : List Op) :
    sortBy Op.head (l.map f) = (sortBy Op.head l).map f := by
  induction l with
  | nil => rfl
  | cons y ys ih =>
    have h1 : sortBy Op.head (y :: ys) = insertBy Op.head y (sortBy Op.head ys) := rfl
    have h2 : sortBy Op.head ((y :: ys).map f) = insertBy Op.head (f y) (sortBy Op.head (ys.map f)) := rfl
    rw [h2, ih, insertBy_map f hf, h1]

def sumLen (s : List Op) : Nat := (s.map parLen).foldr (· + ·) 0

theorem sumLen_cons (o : Op) (s : List Op) : sumLen (o :: s) = parLen o + sumLen s := rfl

theorem sumLen_eq_sum (s : List Op) : sumLen s = (s.map parLen).sum := by
  unfold sumLen
  induction s with
  | nil => rfl
  | cons x xs ih => simp only [List.map_cons, List.foldr_cons, List.sum_cons, ih]

theorem sumLen_perm {a b : List Op} (h : a.Perm b) : sumLen a = sumLen b := by
  rw [sumLen_eq_sum, sumLen_eq_sum]; exact (h.map parLen).sum_eq

/-- offset of `o` inside the sorted cycle `s` -/
def offS (s : List Op) (o : Op) : Nat := sumLen (s.takeWhile (fun p => p.head != o.head))

theorem offIn_eq (cy : Cycle) (o : Op) : offIn cy o = offS (sortBy Op.head cy) o := rfl

theorem take_add_drop (ps : List Int) (k a b : Nat) :
    (ps.drop k).take (a + b) = (ps.drop k).take a ++ (ps.drop (k + a)).take b := by
  rw [List.take_add, List.drop_drop]

theorem flatMap_congr' {α β : Type} (l : List α) (f g : α → List β) (h : ∀ a ∈ l, f a = g a) :
    l.flatMap f = l.flatMap g := by
  induction l with
  | nil => rfl
  | cons x xs ih =>
    rw [List.flatMap_cons, List.flatMap_cons, h x List.mem_cons_self,
      ih (fun a ha => h a (List.mem_cons_of_mem _ ha))]

/-- walking a list of operations with pairwise distinct heads hands out consecutive slices -/
theorem walk_slices (ps : List Int) (s : List Op) (hd : s.Pairwise (fun a b => a.head ≠ b.head))
    (k : Nat) :
    s.flatMap (fun o => (ps.drop (k + offS s o)).take (parLen o)) = (ps.drop k).take (sumLen s) := by
  induction s generalizing k with
  | nil => simp [sumLen]
  | cons o rest ih =>
    have hp := List.pairwise_cons.mp hd
    rw [List.flatMap_cons, sumLen_cons, take_add_drop]
    congr 1
    · have : offS (o :: rest) o = 0 := by
        unfold offS; simp [List.takeWhile_cons, sumLen]
      rw [this, Nat.add_zero]
    · rw [← ih hp.2 (k + parLen o)]
      apply flatMap_congr'
      intro p hpm
      have hne : o.head ≠ p.head := hp.1 p hpm
      have : offS (o :: rest) p = parLen o + offS rest p := by
        unfold offS
        have hb : (o.head != p.head) = true := by simpa using hne
        rw [List.takeWhile_cons, hb]; simp only [if_true]; rfl
      rw [this, Nat.add_assoc]

theorem heads_distinct_of_inv {n : Nat} {radixes : List Nat} (cy : Cycle)
    (hp : cy.Pairwise Indep) (hwf : ∀ o ∈ cy, o.WF n radixes) :
    cy.Pairwise (fun a b => a.head ≠ b.head) := by
  induction cy with
  | nil => exact List.Pairwise.nil
  | cons a t ih =>
    have h := List.pairwise_cons.mp hp
    refine List.pairwise_cons.mpr ⟨?_, ih h.2 (fun o ho => hwf o (List.mem_cons_of_mem _ ho))⟩
    intro b hb heq
    have ha : a.loc ≠ [] := (hwf a (List.mem_cons_self)).1
    have hbl : b.loc ≠ [] := (hwf b (List.mem_cons_of_mem _ hb)).1
    have hain : a.head ∈ a.loc := by
      unfold Op.head; cases hl : a.loc with
      | nil => exact absurd hl ha
      | cons x xs => simp
    have hbin : b.head ∈ b.loc := by
      unfold Op.head; cases hl : b.loc with
      | nil => exact absurd hl hbl
      | cons x xs => simp
    exact h.1 b hb a.head hain (heq ▸ hbin)

theorem setCycle_params (ps : List Int) (k : Nat) (cy : Cycle)
    (hd : cy.Pairwise (fun a b => a.head ≠ b.head)) :
    (sortBy Op.head (setCycle ps k cy)).flatMap (·.par) = (ps.drop k).take (cycLen cy) := by
  rw [setCycle_eq, sortBy_map (upd ps k cy) (upd_head ps k cy), List.flatMap_map]
  have hs : (sortBy Op.head cy).Pairwise (fun a b => a.head ≠ b.head) :=
    (List.Perm.pairwise_iff (fun {a b} h => Ne.symm h) (sortBy_perm Op.head cy)).mpr hd
  have := walk_slices ps (sortBy Op.head cy) hs k
  have hlen : sumLen (sortBy Op.head cy) = cycLen cy := sumLen_perm (sortBy_perm Op.head cy)
  rw [hlen] at this
  exact this

theorem setCycles_params (ps : List Int) (cs : List Cycle)
    (hd : ∀ cy ∈ cs, cy.Pairwise (fun a b => a.head ≠ b.head)) (k : Nat) :
    (setCycles ps k cs).flatMap (fun cy => (sortBy Op.head cy).flatMap (·.par)) =
      (ps.drop k).take ((cs.map cycLen).foldr (· + ·) 0) := by
  induction cs generalizing k with
  | nil => simp [setCycles]
  | cons cy rest ih =>
    simp only [setCycles, List.flatMap_cons, List.map_cons, List.foldr_cons]
    rw [setCycle_params ps k cy (hd cy List.mem_cons_self),
      ih (fun c hc => hd c (List.mem_cons_of_mem _ hc)), take_add_drop]

theorem numParams_eq (c : Circ) : numParams c = (c.cycles.map cycLen).foldr (· + ·) 0 := by
  unfold numParams Circ.iter
  induction c.cycles with
  | nil => rfl
  | cons cy rest ih =>
    simp only [List.flatMap_cons, List.map_append, List.map_cons, List.foldr_cons, List.foldr_append]
    rw [← ih]
    have h1 : ∀ (a : List Nat) (z : Nat), a.foldr (· + ·) z = a.foldr (· + ·) 0 + z := by
      intro a z; induction a with
      | nil => simp
      | cons x xs ih => simp only [List.foldr_cons, ih]; omega
    rw [h1]
    have : ((sortBy Op.head cy).map parLen).foldr (· + ·) 0 = cycLen cy := sumLen_perm (sortBy_perm Op.head cy)
    rw [this]

end BqVerif.Cost
