import BqVerif.Proofs.ServerBubble
/-! C13: what is really written to the clients (the outgoing thread skips closed connections). -/
namespace BqVerif.Server

theorem keepWritten_noClose {rs : List Reply} (h : ∀ r ∈ rs, r.isClose = false) :
    keepWritten rs = rs := by
  unfold keepWritten
  apply List.filter_eq_self.mpr
  intro r hr
  have : ¬ Reply.close r.conn ∈ rs := by
    intro hm
    have := h _ hm
    simp [Reply.isClose] at this
  simp [this]

/-- the requests whose handler closes the requester's connection -/
def closesConn (a : Abs) : Req → Bool
  | .disconnect _ => true
  | .request c t => !(a.task t).openFor c
  | _ => false

theorem spec_noClose (a : Abs) (req : Req) (h : closesConn a req = false) :
    ∀ r ∈ (spec a req).2, r.isClose = false := by
  cases req with
  | connect c => simp [spec]
  | hello c => simp [spec, Reply.isClose]
  | submit c t => simp [spec]
  | disconnect c => simp [closesConn] at h
  | status c t => simp [spec, Reply.isClose]
  | cancel c t =>
    simp only [spec]
    split <;> simp [Reply.isClose]
  | request c t =>
    simp only [closesConn, Bool.not_eq_false'] at h
    rcases openFor_cases h with ⟨w, hst⟩ | ⟨v, hst⟩ <;> simp [spec, hst, Reply.isClose]
  | result t v =>
    cases t with
    | none => simp [spec]
    | some t =>
      simp only [spec]
      cases hst : a.task t with
      | running o w => cases w <;> simp [Reply.isClose]
      | _ => simp
  | error t msg =>
    cases t with
    | none => simp [spec]
    | some t =>
      simp only [spec]
      cases hst : a.task t <;> simp [Reply.isClose]
  | log t msg =>
    cases t with
    | none => simp [spec]
    | some t =>
      simp only [spec]
      cases ho : (a.task t).owner <;> simp [Reply.isClose]

/-- did the history end in a handler exception (the run loop's error path)? -/
def histFails (es : List Ev) : Bool :=
  match runHist init es with
  | .error _ => true
  | .ok _ => false

end BqVerif.Server
