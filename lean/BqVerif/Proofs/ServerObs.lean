import BqVerif.Proofs.ServerBubble
/-! C13: what is really written to the clients (the outgoing thread skips closed connections). -/
namespace BqVerif.Server

/-- the requests whose handler closes the requester's connection -/
def closesConn (a : Abs) : Req → Bool
  | .disconnect _ => true
  | .request c t => !(a.task t).openFor c
  | _ => false

theorem spec_noClose (a : Abs) (req : Req) (h : closesConn a req = false) :
    ∀ r ∈ (spec a req).2, r.isClose = false := by
  cases req with
  | connect c => simp [spec]
  | hello c => simp [spec, Reply.isClose]
  | submit c t => simp [spec]
  | disconnect c => simp [closesConn] at h
  | status c t => simp [spec, Reply.isClose]
  | cancel c t =>
    simp only [spec]
    split <;> simp [Reply.isClose]
  | request c t =>
    simp only [closesConn, Bool.not_eq_false'] at h
    rcases openFor_cases h with ⟨w, hst⟩ | ⟨v, hst⟩ <;> simp [spec, hst, Reply.isClose]
  | result t v =>
    cases t with
    | none => simp [spec]
    | some t =>
      simp only [spec]
      cases hst : a.task t with
      | running o w => cases w <;> simp [Reply.isClose]
      | _ => simp
  | error t msg =>
    cases t with
    | none => simp [spec]
    | some t =>
      simp only [spec]
      cases hst : a.task t <;> simp [Reply.isClose]
  | log t msg =>
    cases t with
    | none => simp [spec]
    | some t =>
      simp only [spec]
      cases ho : (a.task t).owner <;> simp [Reply.isClose]

theorem filterMap_congr' {α β : Type} {f g : α → Option β} :
    ∀ (l : List α), (∀ o ∈ l, f o = g o) → l.filterMap f = l.filterMap g
  | [], _ => rfl
  | x :: xs, h => by
    have hx := h x (List.mem_cons_self)
    have ih := filterMap_congr' xs (fun o ho => h o (List.mem_cons_of_mem _ ho))
    simp [List.filterMap_cons, hx, ih]

/-- a handler that closes nobody: everything it queued is written -/
theorem written_noClose {out : List Out} (h : ∀ r ∈ clientReplies out, r.isClose = false) :
    writtenReplies out = clientReplies out := by
  have nc : ∀ c, Out.close c ∉ out := by
    intro c hc
    have : Reply.close c ∈ clientReplies out := by
      unfold clientReplies
      exact List.mem_filterMap.mpr ⟨_, hc, rfl⟩
    have := h _ this
    simp [Reply.isClose] at this
  unfold writtenReplies clientReplies
  apply filterMap_congr'
  intro o _
  cases o <;> simp [writtenOne, Out.reply?, nc]

theorem writtenOne_downCancel (out : List Out) (m : Mid) : writtenOne out (.downCancel m) = none := by
  simp [writtenOne, Out.reply?]

theorem filterMap_downs {out downs : List Out} (h : ∀ o ∈ downs, ∃ m, o = Out.downCancel m) :
    downs.filterMap (writtenOne out) = [] := by
  apply List.filterMap_eq_nil_iff.mpr
  intro o ho; obtain ⟨m, rfl⟩ := h o ho; exact writtenOne_downCancel _ _

/-- what `handle_disconnect` (alone, or after the directly written 'Unknown task.') leaves in
the log is written as it stands -/
theorem written_disc {pre downs : List Out} {c : Conn}
    (hd : ∀ o ∈ downs, ∃ m, o = Out.downCancel m)
    (hp : pre = [] ∨ pre = [Out.errorNow c 0]) :
    writtenReplies (pre ++ Out.close c :: downs) = clientReplies pre ++ [.close c] := by
  unfold writtenReplies
  rw [List.filterMap_append, List.filterMap_cons]
  rw [filterMap_downs hd]
  rcases hp with rfl | rfl <;> simp [writtenOne, clientReplies, Out.reply?]

/-- every reply the automaton prescribes is really written -/
theorem written_step {s s' : Srv} {a : Abs} {e : Ev} (h : Inv s) (r : R s a)
    (hw : wf s e = true) (hs : step s e = .ok s') :
    writtenReplies s'.out = (spec a (absEv s e)).2 := by
  have sim := (sim_step h r e hw hs).2
  by_cases hc : closesConn a (absEv s e) = false
  · rw [written_noClose (by rw [sim]; exact spec_noClose a _ hc), sim]
  · have h0 : Inv { s with out := [] } := h.clearOut
    have r0 : R { s with out := [] } a := r.congr rfl rfl rfl
    rw [step_eq_handle] at hs
    cases e with
    | disconnect c =>
      obtain ⟨ts, hcl⟩ := wf_client (by simpa [wf] using hw)
      obtain ⟨s'', e2, p⟩ := handleDisconnect_post h0 (c := c) (ts := ts) hcl
      simp only [handle] at hs; rw [e2] at hs; cases hs
      obtain ⟨downs, d1, d2⟩ := p.outShape
      rw [d1]
      have := written_disc (pre := []) (c := c) d2 (Or.inl rfl)
      simpa [absEv, spec, clientReplies] using this
    | request c t =>
      obtain ⟨ts, hcl⟩ := wf_client (by simpa [wf] using hw)
      have no : (a.task t).openFor c = false := by
        simpa [absEv, closesConn] using hc
      have ht : t ∉ ts := fun x => by
        have := (r0.mine_iff h0 t hcl).mpr x
        rw [no] at this; cases this
      simp only [handle] at hs
      rw [handleRequest_notMine h0 hcl ht] at hs
      obtain ⟨s'', e2, p⟩ := handleDisconnect_post (h0.emit (.errorNow c 0)) (c := c) (ts := ts) hcl
      rw [e2] at hs; cases hs
      obtain ⟨downs, d1, d2⟩ := p.outShape
      rw [d1]
      have := written_disc (pre := [Out.errorNow c 0]) (c := c) d2 (Or.inr rfl)
      simp only [absEv, spec_request_notOpen no]
      simpa [Srv.emit, clientReplies, Out.reply?] using this
    | connect c => simp [absEv, closesConn] at hc
    | hello c => simp [absEv, closesConn] at hc
    | submit c t => simp [absEv, closesConn] at hc
    | status c t => simp [absEv, closesConn] at hc
    | cancel c t => simp [absEv, closesConn] at hc
    | result m v => simp [absEv, closesConn] at hc
    | error m v => simp [absEv, closesConn] at hc
    | log m v => simp [absEv, closesConn] at hc

/-- did the history end in a handler exception (the run loop's error path)? -/
def histFails (es : List Ev) : Bool :=
  match runHist init es with
  | .error _ => true
  | .ok _ => false

end BqVerif.Server
