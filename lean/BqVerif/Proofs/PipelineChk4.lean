/- The regenerated unitary / state / state-system workflows, evaluated by the kernel. -/
import BqVerif.Proofs.PipelineScope
import BqVerif.Generated.Workflows

namespace BqVerif.Pipeline
open BqVerif.Generated.Workflows
set_option maxRecDepth 100000

theorem chk_unitary : unitaryWFs.all allCheck = true := by decide +kernel
theorem chk_state : stateWFs.all allCheck = true := by decide +kernel
theorem chk_system : systemWFs.all allCheck = true := by decide +kernel

end BqVerif.Pipeline
