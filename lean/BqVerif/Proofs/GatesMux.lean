import BqVerif.Proofs.GatesQudit
/-! Gates with a variable number of parameters: DiagonalGate, ArbitraryCPhaseGate (every size),
multiplexed rotations MPRY / MPRZ (block structure through a checked index bijection), RSU3. -/
namespace BqVerif.Gates
open Matrix
set_option linter.unusedSectionVars false
set_option linter.unusedVariables false

variable {R : Type} [CommRing R] [StarRing R]

theorem e_unit (K : Consts R) (hK : K.Valid) (a : Ang R) (ha : a.Valid) :
    a.e K * star (a.e K) = 1 := by
  gate_hyps
  simp [Ang.e, *]; grind

theorem zero_valid : (Ang.zero : Ang R).Valid :=
  ⟨by simp [Ang.zero], by simp [Ang.zero], by simp [Ang.zero]⟩

theorem getD_valid (ps : List (Ang R)) (hps : ∀ a ∈ ps, a.Valid) (k : Nat) :
    (ps.getD k Ang.zero).Valid := by
  by_cases h : k < ps.length
  · rw [List.getD_eq_getElem?_getD, List.getElem?_eq_getElem h]; exact hps _ (List.getElem_mem h)
  · rw [List.getD_eq_getElem?_getD, List.getElem?_eq_none (by omega)]; exact zero_valid

/-- `DiagonalGate(n)` is unitary for every size and every real parameter vector -/
theorem unitary_diagGate (K : Consts R) (hK : K.Valid) (N : Nat) (ps : List (Ang R))
    (hps : ∀ a ∈ ps, a.Valid) : IsUnitary N (diagGate K ps) := by
  apply diag_unitary
  intro i _
  split
  · simp
  · exact e_unit K hK _ (getD_valid ps hps _)

/-- `ArbitraryCPhaseGate(radixes)` -/
theorem unitary_acphase (K : Consts R) (hK : K.Valid) (N D : Nat) (t : Ang R) (ht : t.Valid) :
    IsUnitary N (acphase K D t) := by
  apply diag_unitary
  intro i _
  split
  · exact e_unit K hK t ht
  · simp

/-! ### multiplexed 2×2 blocks -/

/-- `r ↦ (bit r, sel r)` is one-to-one from `[0, 2m)` onto `{0,1} × [0, m)` -/
def muxOK (m : Nat) (sel bit : Nat → Nat) : Bool :=
  (List.range (2 * m)).all fun r => decide (sel r < m) && decide (bit r < 2) &&
    (List.range (2 * m)).all fun c => decide (sel r = sel c → bit r = bit c → r = c)

theorem muxOK_sound {m : Nat} {sel bit : Nat → Nat} (h : muxOK m sel bit = true) :
    (∀ r, r < 2 * m → sel r < m ∧ bit r < 2) ∧
    (∀ r, r < 2 * m → ∀ c, c < 2 * m → sel r = sel c → bit r = bit c → r = c) := by
  simp only [muxOK, List.all_eq_true, List.mem_range, Bool.and_eq_true, decide_eq_true_eq] at h
  exact ⟨fun r hr => (h r hr).1, fun r hr c hc => (h r hr).2 c hc⟩

/-- a matrix made of 2×2 unitary blocks `Us i`, block `i` sitting on the rows `r` with
`sel r = i` in the order given by `bit`, is unitary -/
theorem mux_unitary (m : Nat) (sel bit : Nat → Nat) (hok : muxOK m sel bit = true)
    (Us : Nat → M R) (hU : ∀ i, IsUnitary 2 (Us i)) :
    IsUnitary (2 * m) (fun r c => if sel r = sel c then Us (sel r) (bit r) (bit c) else 0) := by
  obtain ⟨hr, hinj⟩ := muxOK_sound hok
  let ρ : Fin (2 * m) → Fin 2 × Fin m := fun r => (⟨bit r.val, (hr r r.2).2⟩, ⟨sel r.val, (hr r r.2).1⟩)
  have hρ : Function.Bijective ρ := by
    rw [Fintype.bijective_iff_injective_and_card]
    constructor
    · intro a b h
      simp only [ρ, Prod.mk.injEq, Fin.mk.injEq] at h
      exact Fin.ext (hinj a a.2 b b.2 h.2 h.1)
    · simp
  have e : toM (2 * m) (fun r c => if sel r = sel c then Us (sel r) (bit r) (bit c) else 0) =
      (blockDiagonal fun i : Fin m => toM 2 (Us i.val)).submatrix ρ ρ := by
    ext I J
    simp only [toM, Matrix.submatrix_apply, blockDiagonal_apply, ρ, Fin.mk.injEq]
  unfold IsUnitary
  rw [e]
  apply unitary_submatrix_bij _ _ _ hρ
  rw [blockDiagonal_conjTranspose, ← blockDiagonal_mul, ← blockDiagonal_one]
  congr 1
  funext i
  exact hU i.val

theorem unitary_ry (t : Ang R) (ht : t.Valid) : IsUnitary 2 (ry t) := by
  gate_hyps; unfold IsUnitary; gate_entries

theorem unitary_rz' (K : Consts R) (hK : K.Valid) (t : Ang R) (ht : t.Valid) :
    IsUnitary 2 (rz K t) := by
  gate_hyps; unfold IsUnitary; gate_entries

/-- the `(num_qudits, target)` pairs of the sweep -/
def muxCases : List (Nat × Nat) := [(1, 0), (2, 0), (2, 1), (3, 0), (3, 1), (3, 2), (4, 0), (4, 3)]

theorem muxCases_ok : ∀ c ∈ muxCases,
    muxOK (pow2 (c.1 - 1)) (sel (pow2 (c.1 - c.2 - 1))) (bitOf (pow2 (c.1 - c.2 - 1))) = true := by
  decide +kernel

/-- `MPRYGate(n, target)`: unitary of dimension `2·2^(n-1)` for the checked `(n, target)` -/
theorem unitary_mpry (c : Nat × Nat) (hc : c ∈ muxCases) (ps : List (Ang R))
    (hps : ∀ a ∈ ps, a.Valid) : IsUnitary (2 * pow2 (c.1 - 1)) (mpry c.1 c.2 ps) :=
  mux_unitary _ _ _ (muxCases_ok c hc) (fun i => ry (ps.getD i Ang.zero))
    (fun i => unitary_ry _ (getD_valid ps hps i))

/-- `MPRZGate(n, target)` -/
theorem unitary_mprz (K : Consts R) (hK : K.Valid) (c : Nat × Nat) (hc : c ∈ muxCases)
    (ps : List (Ang R)) (hps : ∀ a ∈ ps, a.Valid) :
    IsUnitary (2 * pow2 (c.1 - 1)) (mprz K c.1 c.2 ps) :=
  mux_unitary _ _ _ (muxCases_ok c hc) (fun i => rz K (ps.getD i Ang.zero))
    (fun i => unitary_rz' K hK _ (getD_valid ps hps i))

/-- `RSU3Gate(index)`, `index ≤ 6` -/
theorem unitary_rsu3 (K : Consts R) (hK : K.Valid) (index : Nat) (hi : index ≤ 6) (t : Ang R)
    (ht : t.Valid) : IsUnitary 3 (rsu3 K index t) := by
  gate_hyps
  unfold IsUnitary
  interval_cases index <;>
  (ext i j
   fin_cases i <;> fin_cases j <;>
     simp [toM, rsu3, Ang.e, Ang.en, Matrix.mul_apply, Fin.sum_univ_three, *] <;> grind)

end BqVerif.Gates
