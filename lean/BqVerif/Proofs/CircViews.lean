import BqVerif.Proofs.CircIter
import BqVerif.Proofs.CircTimeline
/-! The derived DAG views (`next`/`prev` per qudit, `front`/`rear`, first/last point of a
qudit) characterised by the grid: next/prev are mutually inverse per qudit (C05). -/
namespace BqVerif.Circ

/-- `findSome?` by index: the first index where `f` answers, everything before answers `none` -/
theorem findSome_idx {α β : Type} (f : α → Option β) (L : List α) (b : β) :
    L.findSome? f = some b ↔
      ∃ i, ∃ h : i < L.length, f L[i] = some b ∧
        ∀ t, (ht : t < i) → f (L[t]'(Nat.lt_trans ht h)) = none := by
  induction L with
  | nil => simp
  | cons a r ih =>
    rw [List.findSome?_cons]
    cases hfa : f a with
    | some b' =>
      simp only
      constructor
      · intro h
        refine ⟨0, by simp, ?_, ?_⟩
        · simpa [hfa] using h
        · intro t ht; omega
      · rintro ⟨i, hi, h1, h2⟩
        cases i with
        | zero => simpa [hfa] using h1
        | succ i => have := h2 0 (by omega); simp [hfa] at this
    | none =>
      simp only
      rw [ih]
      constructor
      · rintro ⟨i, hi, h1, h2⟩
        refine ⟨i + 1, by simpa using hi, by simpa using h1, ?_⟩
        intro t ht
        cases t with
        | zero => simpa using hfa
        | succ t => simpa using h2 t (by omega)
      · rintro ⟨i, hi, h1, h2⟩
        cases i with
        | zero => simp [hfa] at h1
        | succ i =>
          refine ⟨i, by simpa using hi, by simpa using h1, ?_⟩
          intro t ht
          simpa using h2 (t + 1) (by omega)

theorem cell_eq_getElem (c : Circ) (j q : Nat) (h : j < c.cycles.length) :
    c.cell j q = cellOf c.cycles[j] q := by
  unfold Circ.cell cellOf; rw [getD_of_lt _ _ h]

theorem cell_none_of_ge (c : Circ) (j q : Nat) (h : c.cycles.length ≤ j) : c.cell j q = none := by
  unfold Circ.cell; rw [getD_of_ge _ _ h]; rfl

theorem cell_lt (c : Circ) (j q : Nat) (x : Op) (h : c.cell j q = some x) : j < c.cycles.length := by
  by_cases hlt : j < c.cycles.length
  · exact hlt
  · rw [cell_none_of_ge c j q (Nat.le_of_not_lt hlt)] at h; simp at h

/-- the per-cycle answer of the view scans -/
def viewF (q : Nat) : Cycle × Nat → Option (Nat × Nat) :=
  fun (cy, i) => (cellOf cy q).map (fun o => (i, o.head))

theorem viewF_some (q : Nat) (cy : Cycle) (i : Nat) (p : Nat × Nat) :
    viewF q (cy, i) = some p ↔ ∃ x, cellOf cy q = some x ∧ p = (i, x.head) := by
  simp only [viewF, Option.map_eq_some_iff]
  constructor
  · rintro ⟨x, hx, rfl⟩; exact ⟨x, hx, rfl⟩
  · rintro ⟨x, hx, rfl⟩; exact ⟨x, hx, rfl⟩

theorem viewF_none (q : Nat) (cy : Cycle) (i : Nat) :
    viewF q (cy, i) = none ↔ cellOf cy q = none := by
  simp [viewF]

/-- **next on a qudit**: the first later cycle in which the qudit is occupied -/
theorem nextOn_spec (c : Circ) (k q : Nat) (p : Nat × Nat) :
    c.nextOn k q = some p ↔ ∃ j x, k < j ∧ c.cell j q = some x ∧ p = (j, x.head) ∧
      ∀ t, k < t → t < j → c.cell t q = none := by
  have e : c.nextOn k q = (c.cycles.zipIdx.drop (k + 1)).findSome? (viewF q) := rfl
  rw [e, findSome_idx]
  constructor
  · rintro ⟨i, hi, h1, h2⟩
    simp only [List.length_drop, List.length_zipIdx] at hi
    have hlt : k + 1 + i < c.cycles.length := by omega
    have e1 : (c.cycles.zipIdx.drop (k + 1))[i]'(by simp; omega) =
        (c.cycles[k + 1 + i], k + 1 + i) := by
      simp [List.getElem_drop, List.getElem_zipIdx]
    rw [e1, viewF_some] at h1
    obtain ⟨x, hx, rfl⟩ := h1
    refine ⟨k + 1 + i, x, by omega, by rw [cell_eq_getElem c _ q hlt]; exact hx, rfl, ?_⟩
    intro t ht1 ht2
    have hlt' : t < c.cycles.length := by omega
    have := h2 (t - (k + 1)) (by omega)
    have e2 : (c.cycles.zipIdx.drop (k + 1))[t - (k + 1)]'(by simp; omega) =
        (c.cycles[t], t) := by
      simp only [List.getElem_drop, List.getElem_zipIdx]
      have : k + 1 + (t - (k + 1)) = t := by omega
      simp [this]
    rw [e2, viewF_none] at this
    rw [cell_eq_getElem c t q hlt']; exact this
  · rintro ⟨j, x, hkj, hc, rfl, hgap⟩
    have hlt := cell_lt c j q x hc
    refine ⟨j - (k + 1), by simp; omega, ?_, ?_⟩
    · have e1 : (c.cycles.zipIdx.drop (k + 1))[j - (k + 1)]'(by simp; omega) =
          (c.cycles[j], j) := by
        simp only [List.getElem_drop, List.getElem_zipIdx]
        have : k + 1 + (j - (k + 1)) = j := by omega
        simp [this]
      rw [e1, viewF_some]
      exact ⟨x, by rw [← cell_eq_getElem c j q hlt]; exact hc, rfl⟩
    · intro t ht
      have hlt' : k + 1 + t < c.cycles.length := by omega
      have e2 : (c.cycles.zipIdx.drop (k + 1))[t]'(by simp; omega) =
          (c.cycles[k + 1 + t], k + 1 + t) := by
        simp [List.getElem_drop, List.getElem_zipIdx]
      rw [e2, viewF_none, ← cell_eq_getElem c _ q hlt']
      exact hgap _ (by omega) (by omega)

/-- **prev on a qudit**: the last earlier cycle in which the qudit is occupied -/
theorem prevOn_spec (c : Circ) (j q : Nat) (p : Nat × Nat) :
    c.prevOn j q = some p ↔ ∃ k o, k < j ∧ c.cell k q = some o ∧ p = (k, o.head) ∧
      ∀ t, k < t → t < j → c.cell t q = none := by
  have e : c.prevOn j q = (c.cycles.zipIdx.take j).reverse.findSome? (viewF q) := rfl
  rw [e, findSome_idx]
  have hlen : (c.cycles.zipIdx.take j).reverse.length = min j c.cycles.length := by simp
  have hget : ∀ i (hi : i < (c.cycles.zipIdx.take j).reverse.length),
      (c.cycles.zipIdx.take j).reverse[i] =
        (c.cycles[min j c.cycles.length - 1 - i]'(by rw [hlen] at hi; omega),
          min j c.cycles.length - 1 - i) := by
    intro i hi
    simp [List.getElem_reverse, List.getElem_take, List.getElem_zipIdx]
  constructor
  · rintro ⟨i, hi, h1, h2⟩
    rw [hget i hi, viewF_some] at h1
    obtain ⟨x, hx, rfl⟩ := h1
    rw [hlen] at hi
    have hlt : min j c.cycles.length - 1 - i < c.cycles.length := by omega
    refine ⟨_, x, by omega, by rw [cell_eq_getElem c _ q hlt]; exact hx, rfl, ?_⟩
    intro t ht1 ht2
    by_cases hlt' : t < c.cycles.length
    · have := h2 (min j c.cycles.length - 1 - t) (by omega)
      rw [hget _ (by rw [hlen]; omega), viewF_none] at this
      have e2 : min j c.cycles.length - 1 - (min j c.cycles.length - 1 - t) = t := by omega
      rw [cell_eq_getElem c t q hlt']
      simpa [e2] using this
    · exact cell_none_of_ge c t q (Nat.le_of_not_lt hlt')
  · rintro ⟨k, o, hkj, hc, rfl, hgap⟩
    have hlt := cell_lt c k q o hc
    have hi : min j c.cycles.length - 1 - k < (c.cycles.zipIdx.take j).reverse.length := by
      rw [hlen]; omega
    refine ⟨min j c.cycles.length - 1 - k, hi, ?_, ?_⟩
    · rw [hget _ hi, viewF_some]
      have e2 : min j c.cycles.length - 1 - (min j c.cycles.length - 1 - k) = k := by omega
      refine ⟨o, ?_, by simp [e2]⟩
      rw [cell_eq_getElem c k q hlt] at hc
      simpa [e2] using hc
    · intro t ht
      have hi' : t < (c.cycles.zipIdx.take j).reverse.length := Nat.lt_trans ht hi
      rw [hget _ hi', viewF_none]
      rw [hlen] at hi'
      have hlt' : min j c.cycles.length - 1 - t < c.cycles.length := by omega
      rw [← cell_eq_getElem c _ q hlt']
      exact hgap _ (by omega) (by omega)

/-- **next and prev are mutually inverse on every qudit** (stated with the grid cells; no
invariant needed): for the ops `o` at `(k, q)` and `x` at `(j, q)`, `x` is the next op after
`o` on `q` iff `o` is the previous op before `x` on `q`. -/
theorem nextOn_iff_prevOn (c : Circ) (k j q : Nat) (o x : Op)
    (ho : c.cell k q = some o) (hx : c.cell j q = some x) :
    c.nextOn k q = some (j, x.head) ↔ c.prevOn j q = some (k, o.head) := by
  rw [nextOn_spec, prevOn_spec]
  constructor
  · rintro ⟨j', x', hlt, hc, hp, hgap⟩
    have hj : j = j' := by simpa using congrArg Prod.fst hp
    subst hj
    exact ⟨k, o, hlt, ho, rfl, hgap⟩
  · rintro ⟨k', o', hlt, hc, hp, hgap⟩
    have hk : k = k' := by simpa using congrArg Prod.fst hp
    subst hk
    exact ⟨j, x, hlt, hx, rfl, hgap⟩

theorem nextOn_lt (c : Circ) (k q : Nat) (p : Nat × Nat) (h : c.nextOn k q = some p) : k < p.1 := by
  obtain ⟨j, x, hlt, _, rfl, _⟩ := (nextOn_spec c k q p).1 h
  exact hlt

theorem prevOn_lt (c : Circ) (j q : Nat) (p : Nat × Nat) (h : c.prevOn j q = some p) : p.1 < j := by
  obtain ⟨k, o, hlt, _, rfl, _⟩ := (prevOn_spec c j q p).1 h
  exact hlt

/-- under `Inv` the cell lookup finds exactly the member of the cycle that sits on the qudit -/
theorem cell_of_mem (c : Circ) (hinv : c.Inv) (k q : Nat) (o : Op) (hlt : k < c.cycles.length)
    (hmem : o ∈ c.cycles[k]) (hq : q ∈ o.loc) : c.cell k q = some o := by
  rw [cell_eq_getElem c k q hlt]
  have hp := hinv.2.1 _ (List.getElem_mem hlt)
  unfold cellOf
  generalize c.cycles[k] = cy at hmem hp
  induction cy with
  | nil => simp at hmem
  | cons a t ih =>
    rw [List.pairwise_cons] at hp
    by_cases ha : a = o
    · subst ha; simp [List.find?_cons, Op.on, hq]
    · have hmem' : o ∈ t := by
        rcases List.mem_cons.mp hmem with h | h
        · exact absurd h.symm ha
        · exact h
      have : a.on q = false := by
        have := hp.1 o hmem'
        simp only [Op.on, List.contains_eq_mem, decide_eq_false_iff_not]
        intro hqa; exact this q hqa hq
      simp only [List.find?_cons, this]
      exact ih hmem' hp.2

/-! ## no next / no prev -/
theorem prevOn_none (c : Circ) (j q : Nat) :
    c.prevOn j q = none ↔ ∀ t, t < j → c.cell t q = none := by
  constructor
  · intro h t ht
    by_cases hlt : t < c.cycles.length
    · have e : c.prevOn j q = (c.cycles.zipIdx.take j).reverse.findSome? (viewF q) := rfl
      rw [e, List.findSome?_eq_none_iff] at h
      have hm : (c.cycles[t], t) ∈ (c.cycles.zipIdx.take j).reverse := by
        rw [List.mem_reverse, List.mem_take_iff_getElem]
        exact ⟨t, by simp; omega, by simp⟩
      have := h _ hm
      rw [viewF_none] at this
      rw [cell_eq_getElem c t q hlt]; exact this
    · exact cell_none_of_ge c t q (Nat.le_of_not_lt hlt)
  · intro h
    cases hp : c.prevOn j q with
    | none => rfl
    | some p =>
      obtain ⟨k, o, hlt, hc, _, _⟩ := (prevOn_spec c j q p).1 hp
      rw [h k hlt] at hc; simp at hc

theorem nextOn_none (c : Circ) (k q : Nat) :
    c.nextOn k q = none ↔ ∀ t, k < t → c.cell t q = none := by
  constructor
  · intro h t ht
    by_cases hlt : t < c.cycles.length
    · have e : c.nextOn k q = (c.cycles.zipIdx.drop (k + 1)).findSome? (viewF q) := rfl
      rw [e, List.findSome?_eq_none_iff] at h
      have hm : (c.cycles[t], t) ∈ c.cycles.zipIdx.drop (k + 1) := by
        rw [List.mem_drop_iff_getElem]
        refine ⟨t - (k + 1), by simp; omega, ?_⟩
        have : k + 1 + (t - (k + 1)) = t := by omega
        simp [this]
      have := h _ hm
      rw [viewF_none] at this
      rw [cell_eq_getElem c t q hlt]; exact this
    · exact cell_none_of_ge c t q (Nat.le_of_not_lt hlt)
  · intro h
    cases hp : c.nextOn k q with
    | none => rfl
    | some p =>
      obtain ⟨j, x, hlt, hc, _, _⟩ := (nextOn_spec c k q p).1 hp
      rw [h j hlt] at hc; simp at hc

/-! ## `dedupPts` -/
theorem mem_dedupPts_iff (p : Nat × Nat) (l : List (Nat × Nat)) : p ∈ dedupPts l ↔ p ∈ l := by
  induction l with
  | nil => simp [dedupPts]
  | cons a t ih =>
    simp only [dedupPts]
    split
    · rename_i h
      have h' : a ∈ t := by simpa using h
      rw [ih]
      constructor
      · intro hp; exact List.mem_cons_of_mem _ hp
      · intro hp
        rcases List.mem_cons.mp hp with rfl | hp
        · exact h'
        · exact hp
    · simp only [List.mem_cons, ih]

theorem nodup_dedupPts (l : List (Nat × Nat)) : (dedupPts l).Nodup := by
  induction l with
  | nil => simp [dedupPts]
  | cons a t ih =>
    simp only [dedupPts]
    split
    · exact ih
    · rename_i h
      have h' : a ∉ t := by simpa using h
      rw [List.nodup_cons]
      exact ⟨fun hm => h' ((mem_dedupPts_iff a t).1 hm), ih⟩

theorem dedupPts_eq_nil (l : List (Nat × Nat)) : dedupPts l = [] ↔ l = [] := by
  constructor
  · intro h
    cases l with
    | nil => rfl
    | cons a t =>
      have : a ∈ dedupPts (a :: t) := (mem_dedupPts_iff _ _).2 (by simp)
      rw [h] at this; simp at this
  · rintro rfl; rfl

/-! ## `next` / `prev` of an operation -/
theorem mem_next (c : Circ) (k : Nat) (o : Op) (p : Nat × Nat) :
    p ∈ c.next k o ↔ ∃ q ∈ o.loc, c.nextOn k q = some p := by
  simp [Circ.next, mem_dedupPts_iff, List.mem_filterMap]

theorem mem_prev (c : Circ) (k : Nat) (o : Op) (p : Nat × Nat) :
    p ∈ c.prev k o ↔ ∃ q ∈ o.loc, c.prevOn k q = some p := by
  simp [Circ.prev, mem_dedupPts_iff, List.mem_filterMap]

theorem next_nodup (c : Circ) (k : Nat) (o : Op) : (c.next k o).Nodup := nodup_dedupPts _
theorem prev_nodup (c : Circ) (k : Nat) (o : Op) : (c.prev k o).Nodup := nodup_dedupPts _

/-- no predecessor: nothing sits on any of the operation's qudits in an earlier cycle -/
theorem prev_eq_nil (c : Circ) (k : Nat) (o : Op) :
    c.prev k o = [] ↔ ∀ q ∈ o.loc, ∀ t, t < k → c.cell t q = none := by
  rw [List.eq_nil_iff_forall_not_mem]
  constructor
  · intro h q hq
    rw [← prevOn_none]
    cases hp : c.prevOn k q with
    | none => rfl
    | some p => exact absurd ((mem_prev c k o p).2 ⟨q, hq, hp⟩) (h p)
  · intro h p hp
    obtain ⟨q, hq, hpq⟩ := (mem_prev c k o p).1 hp
    rw [(prevOn_none c k q).2 (h q hq)] at hpq; simp at hpq

/-- no successor: nothing sits on any of the operation's qudits in a later cycle -/
theorem next_eq_nil (c : Circ) (k : Nat) (o : Op) :
    c.next k o = [] ↔ ∀ q ∈ o.loc, ∀ t, k < t → c.cell t q = none := by
  rw [List.eq_nil_iff_forall_not_mem]
  constructor
  · intro h q hq
    rw [← nextOn_none]
    cases hp : c.nextOn k q with
    | none => rfl
    | some p => exact absurd ((mem_next c k o p).2 ⟨q, hq, hp⟩) (h p)
  · intro h p hp
    obtain ⟨q, hq, hpq⟩ := (mem_next c k o p).1 hp
    rw [(nextOn_none c k q).2 (h q hq)] at hpq; simp at hpq

/-! ## the indexed iteration -/
theorem mem_iterCyc (c : Circ) (k : Nat) (o : Op) :
    (k, o) ∈ c.iterCyc ↔ ∃ h : k < c.cycles.length, o ∈ c.cycles[k] := by
  simp only [Circ.iterCyc, List.mem_flatMap, List.mem_map, Prod.exists, Prod.mk.injEq]
  constructor
  · rintro ⟨cy, i, hm, o', ho', rfl, rfl⟩
    rw [List.mk_mem_zipIdx_iff_getElem?] at hm
    obtain ⟨hlt, rfl⟩ := List.getElem?_eq_some_iff.mp hm
    exact ⟨hlt, (mem_sortBy _ _ _).1 ho'⟩
  · rintro ⟨hlt, hm⟩
    refine ⟨c.cycles[k], k, ?_, o, (mem_sortBy _ _ _).2 hm, rfl, rfl⟩
    rw [List.mk_mem_zipIdx_iff_getElem?]
    exact List.getElem?_eq_getElem hlt

/-- **front**: exactly the points of the operations without predecessor, each once -/
theorem mem_front (c : Circ) (p : Nat × Nat) :
    p ∈ c.front ↔ ∃ k o, (k, o) ∈ c.iterCyc ∧ c.prev k o = [] ∧ p = (k, o.head) := by
  simp only [Circ.front, mem_dedupPts_iff, List.mem_filterMap, Prod.exists]
  constructor
  · rintro ⟨k, o, hm, h⟩
    split at h
    · rename_i he
      exact ⟨k, o, hm, by simpa using he, by simpa using h.symm⟩
    · simp at h
  · rintro ⟨k, o, hm, he, rfl⟩
    exact ⟨k, o, hm, by simp [he]⟩

/-- **rear**: exactly the points of the operations without successor, each once -/
theorem mem_rear (c : Circ) (p : Nat × Nat) :
    p ∈ c.rear ↔ ∃ k o, (k, o) ∈ c.iterCyc ∧ c.next k o = [] ∧ p = (k, o.head) := by
  simp only [Circ.rear, mem_dedupPts_iff, List.mem_filterMap, Prod.exists]
  constructor
  · rintro ⟨k, o, hm, h⟩
    split at h
    · rename_i he
      exact ⟨k, o, hm, by simpa using he, by simpa using h.symm⟩
    · simp at h
  · rintro ⟨k, o, hm, he, rfl⟩
    exact ⟨k, o, hm, by simp [he]⟩

theorem front_nodup (c : Circ) : c.front.Nodup := nodup_dedupPts _
theorem rear_nodup (c : Circ) : c.rear.Nodup := nodup_dedupPts _

/-! ## first / last point of a qudit = ends of its (indexed) timeline -/
/-- qudit `q`'s timeline with the cycle index of every entry -/
def tlF (q : Nat) : Cycle × Nat → Option (Nat × Op) :=
  fun (cy, i) => (cellOf cy q).map (fun o => (i, o))
def Circ.timelineIdx (c : Circ) (q : Nat) : List (Nat × Op) := c.cycles.zipIdx.filterMap (tlF q)

theorem firstPoint_eq (c : Circ) (q : Nat) :
    c.firstPoint q = (c.timelineIdx q).head?.map (fun x => (x.1, x.2.head)) := by
  unfold Circ.firstPoint Circ.timelineIdx
  rw [List.head?_filterMap, List.map_findSome?]
  congr 1
  funext x
  obtain ⟨cy, i⟩ := x
  simp [tlF, Option.map_map, Function.comp_def]

theorem lastPointOn_eq (c : Circ) (q : Nat) :
    c.lastPointOn q = (c.timelineIdx q).getLast?.map (fun x => (x.1, x.2.head)) := by
  unfold Circ.lastPointOn Circ.timelineIdx
  rw [List.getLast?_filterMap, List.map_findSome?]
  congr 1
  funext x
  obtain ⟨cy, i⟩ := x
  simp [tlF, Option.map_map, Function.comp_def]

/-- in a cycle of pairwise disjoint operations the ops on `q` are the cell's content -/
theorem proj_eq_cellOf (cy : Cycle) (q : Nat) (hp : cy.Pairwise Indep) :
    proj q cy = (cellOf cy q).toList := by
  induction cy with
  | nil => simp [proj, cellOf]
  | cons a t ih =>
    rw [List.pairwise_cons] at hp
    by_cases ha : a.on q = true
    · have hq : q ∈ a.loc := by simpa [Op.on] using ha
      have : proj q t = [] := by
        simp only [proj, List.filter_eq_nil_iff]
        intro x hx
        have := hp.1 x hx q hq
        simpa [Op.on] using this
      have e : proj q (a :: t) = a :: proj q t := by simp [proj, List.filter_cons, ha]
      rw [e, this]; simp [cellOf, List.find?_cons, ha]
    · have e : proj q (a :: t) = proj q t := by simp [proj, List.filter_cons, ha]
      rw [e, ih hp.2]; simp [cellOf, List.find?_cons, ha]

theorem timelineIdx_ops (c : Circ) (hinv : c.Inv) (q : Nat) :
    (c.timelineIdx q).map Prod.snd = c.timeline q := by
  unfold Circ.timelineIdx Circ.timeline Circ.ops
  have h2 := hinv.2.1
  revert h2
  generalize c.cycles = l
  have key : ∀ (l : List Cycle) (s : Nat), (∀ cy ∈ l, cy.Pairwise Indep) →
      ((l.zipIdx s).filterMap (tlF q)).map Prod.snd = proj q l.flatten := by
    intro l
    induction l with
    | nil => intro s _; simp [proj]
    | cons a t ih =>
      intro s h2
      simp only [List.zipIdx_cons, List.flatten_cons, proj_append]
      rw [proj_eq_cellOf a q (h2 a (by simp)), ← ih (s + 1) (fun cy hcy => h2 cy (by simp [hcy]))]
      cases hc : cellOf a q with
      | none => simp [List.filterMap_cons, tlF, hc]
      | some x => simp [List.filterMap_cons, tlF, hc]
  intro h2
  exact key l 0 h2

end BqVerif.Circ
