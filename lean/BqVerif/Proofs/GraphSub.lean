import BqVerif.Proofs.GraphBasic
/-!
`CouplingGraph.get_subgraph` (model: `G.subgraph`, after the fix 494efa1 of the permutation
check): `sorted(values) == list(range(k))` characterised, default renumbering, the
induced-subgraph specification for bijective renumberings, and the exact error cases
(the call succeeds iff the location is valid and non-empty and the renumbering is a bijection).
-/
namespace BqVerif.Graph

/-! ### `validLocation` -/

theorem length_eraseDups_le {α} [BEq α] [LawfulBEq α] :
    ∀ (l : List α), l.eraseDups.length ≤ l.length
  | [] => by simp
  | a :: as => by
    rw [List.eraseDups_cons]
    have h1 := List.length_filter_le (fun b => !b == a) as
    have ih := length_eraseDups_le (as.filter fun b => !b == a)
    simp only [List.length_cons]
    omega
termination_by l => l.length
decreasing_by
  have := List.length_filter_le (fun b => !b == a) as
  simp only [List.length_cons]; omega

theorem nodup_of_length_eraseDups {α} [BEq α] [LawfulBEq α] :
    ∀ (l : List α), l.eraseDups.length = l.length → l.Nodup
  | [], _ => by simp
  | a :: as, h => by
    rw [List.eraseDups_cons] at h
    have h1 := List.length_filter_le (fun b => !b == a) as
    have h2 := length_eraseDups_le (as.filter fun b => !b == a)
    simp only [List.length_cons] at h
    have hlen : (as.filter fun b => !b == a).length = as.length := by omega
    have hf : (as.filter fun b => !b == a) = as := by
      rw [List.filter_eq_self]
      intro b hb
      by_cases hb' : ((fun b => !b == a) b) = true
      · exact hb'
      · exfalso
        have := List.length_filter_lt_length_iff_exists (p := fun b => !b == a) (l := as)
        have hlt : (as.filter fun b => !b == a).length < as.length :=
          this.2 ⟨b, hb, hb'⟩
        omega
    rw [hf] at h
    have ih := nodup_of_length_eraseDups as (by omega)
    rw [List.nodup_cons]
    refine ⟨?_, ih⟩
    intro hmem
    have : as.filter (fun b => !b == a) = as := hf
    rw [List.filter_eq_self] at this
    have := this a hmem
    simp at this
termination_by l => l.length

theorem length_eraseDups_eq_iff {α} [BEq α] [LawfulBEq α] (l : List α) :
    l.eraseDups.length = l.length ↔ l.Nodup :=
  ⟨nodup_of_length_eraseDups l, fun h => by rw [eraseDups_eq_self_of_nodup l h]⟩

theorem validLocation_iff (loc : List Nat) (n : Nat) :
    validLocation loc n = true ↔ (∀ q ∈ loc, q < n) ∧ loc.Nodup := by
  unfold validLocation
  rw [Bool.and_eq_true, beq_iff_eq, length_eraseDups_eq_iff, List.all_eq_true]
  simp

/-! ### `lookup` and the default renumbering -/

theorem subgraph_default (g : G) (loc : List Nat) :
    g.subgraph loc none = g.subgraph loc (some loc.zipIdx) := rfl

theorem lookup_nil (a : Nat) : lookup [] a = 0 := rfl

theorem lookup_cons (p : Nat × Nat) (ren : List (Nat × Nat)) (a : Nat) :
    lookup (p :: ren) a = if p.1 = a then p.2 else lookup ren a := by
  unfold lookup
  rw [List.find?_cons]
  by_cases h : p.1 = a
  · simp [h]
  · have : (p.1 == a) = false := by simpa using h
    simp only [this, h, if_false]

theorem lookup_zipIdx_aux (loc : List Nat) (a k : Nat) (h : a ∈ loc) :
    lookup (loc.zipIdx k) a = loc.idxOf a + k := by
  induction loc generalizing k with
  | nil => simp at h
  | cons x xs ih =>
    rw [List.zipIdx_cons, lookup_cons, List.idxOf_cons]
    by_cases hx : x = a
    · simp [hx]
    · have : a ∈ xs := by
        rcases List.mem_cons.1 h with h | h
        · exact absurd h.symm hx
        · exact h
      have hb : (x == a) = false := by simpa using hx
      simp only [hx, hb, if_false, cond_false, ih _ this]; omega

theorem lookup_zipIdx (loc : List Nat) (a : Nat) (h : a ∈ loc) :
    lookup loc.zipIdx a = loc.idxOf a := by
  simpa using lookup_zipIdx_aux loc a 0 h

/-- the pair found by `lookup` -/
theorem lookup_mem (ren : List (Nat × Nat)) (a : Nat) (h : a ∈ ren.map (·.1)) :
    (a, lookup ren a) ∈ ren := by
  induction ren with
  | nil => simp at h
  | cons p ps ih =>
    rw [lookup_cons]
    by_cases hp : p.1 = a
    · simp [hp]; left; rw [← hp]
    · simp only [hp, if_false]
      simp only [List.map_cons, List.mem_cons] at h
      rcases h with h | h
      · exact absurd h.symm hp
      · exact List.mem_cons_of_mem _ (ih h)

theorem lookup_mem_vals (ren : List (Nat × Nat)) (a : Nat) (h : a ∈ ren.map (·.1)) :
    lookup ren a ∈ ren.map (·.2) :=
  List.mem_map.2 ⟨_, lookup_mem ren a h, rfl⟩

theorem lookup_of_mem (ren : List (Nat × Nat)) (hk : (ren.map (·.1)).Nodup) (a v : Nat)
    (h : (a, v) ∈ ren) : lookup ren a = v := by
  induction ren with
  | nil => simp at h
  | cons p ps ih =>
    rw [lookup_cons]
    simp only [List.map_cons, List.nodup_cons] at hk
    rcases List.mem_cons.1 h with h | h
    · simp [← h]
    · have : p.1 ≠ a := by
        intro e
        apply hk.1
        rw [e]
        exact List.mem_map.2 ⟨_, h, rfl⟩
      simp only [this, if_false]
      exact ih hk.2 h

/-- with duplicate-free values, a pair of the list is determined by its value -/
theorem eq_of_snd_eq (ren : List (Nat × Nat)) (hv : (ren.map (·.2)).Nodup) (p q : Nat × Nat)
    (hp : p ∈ ren) (hq : q ∈ ren) (h : p.2 = q.2) : p = q := by
  induction ren with
  | nil => simp at hp
  | cons r rs ih =>
    simp only [List.map_cons, List.nodup_cons] at hv
    rcases List.mem_cons.1 hp with hp | hp <;> rcases List.mem_cons.1 hq with hq | hq
    · rw [hp, hq]
    · exfalso; apply hv.1; rw [← hp, h]; exact List.mem_map.2 ⟨_, hq, rfl⟩
    · exfalso; apply hv.1; rw [← hq, ← h]; exact List.mem_map.2 ⟨_, hp, rfl⟩
    · exact ih hv.2 hp hq

theorem lookup_inj (ren : List (Nat × Nat)) (hv : (ren.map (·.2)).Nodup) (a b : Nat)
    (ha : a ∈ ren.map (·.1)) (hb : b ∈ ren.map (·.1)) (h : lookup ren a = lookup ren b) :
    a = b := by
  have := eq_of_snd_eq ren hv _ _ (lookup_mem ren a ha) (lookup_mem ren b hb) h
  exact (Prod.mk.inj this).1



/-! ### `sorted(...)`: insertion sort -/

theorem insertSorted_perm (x : Nat) (l : List Nat) : (insertSorted x l).Perm (x :: l) := by
  induction l with
  | nil => exact List.Perm.refl _
  | cons y ys ih =>
    unfold insertSorted
    split
    · exact List.Perm.refl _
    · exact (ih.cons y).trans (List.Perm.swap x y ys)

theorem sortNat_nil : sortNat [] = [] := rfl

theorem sortNat_cons (x : Nat) (l : List Nat) : sortNat (x :: l) = insertSorted x (sortNat l) := rfl

theorem sortNat_perm (l : List Nat) : (sortNat l).Perm l := by
  induction l with
  | nil => exact List.Perm.refl _
  | cons x xs ih =>
    rw [sortNat_cons]
    exact (insertSorted_perm x _).trans (ih.cons x)

theorem insertSorted_sorted (x : Nat) (l : List Nat) (h : l.Pairwise (· ≤ ·)) :
    (insertSorted x l).Pairwise (· ≤ ·) := by
  induction l with
  | nil => simp [insertSorted]
  | cons y ys ih =>
    rw [List.pairwise_cons] at h
    unfold insertSorted
    split
    · rename_i hxy
      rw [List.pairwise_cons]
      refine ⟨?_, List.pairwise_cons.2 h⟩
      intro b hb
      rcases List.mem_cons.1 hb with hb | hb
      · omega
      · have := h.1 b hb; omega
    · rename_i hxy
      rw [List.pairwise_cons]
      refine ⟨?_, ih h.2⟩
      intro b hb
      rcases List.mem_cons.1 ((insertSorted_perm x ys).mem_iff.1 hb) with hb | hb
      · omega
      · exact h.1 b hb

theorem sortNat_sorted (l : List Nat) : (sortNat l).Pairwise (· ≤ ·) := by
  induction l with
  | nil => exact List.Pairwise.nil
  | cons x xs ih => rw [sortNat_cons]; exact insertSorted_sorted x _ ih

/-- `sorted(vals) == list(range(k))` iff `vals` is a permutation of `0..k-1` -/
theorem sortNat_eq_range_iff (l : List Nat) (k : Nat) :
    sortNat l = List.range k ↔ l.Perm (List.range k) := by
  constructor
  · intro h
    rw [← h]
    exact (sortNat_perm l).symm
  · intro h
    exact List.Perm.eq_of_pairwise (le := (· ≤ ·)) (fun a b _ _ h1 h2 => Nat.le_antisymm h1 h2)
      (sortNat_sorted l) List.pairwise_le_range ((sortNat_perm l).trans h)

example : sortNat [2, 0, 1] = List.range 3 ∧ [2, 0, 1].Perm (List.range 3) := by decide
example : sortNat [2, 0, 2] ≠ List.range 3 ∧ ¬ [2, 0, 2].Perm (List.range 3) := by decide

/-! ### keys of the renumbering -/

/-- a list as long as a duplicate-free list with the same members is duplicate-free -/
theorem nodup_of_length_eq_of_mem_iff {α} [BEq α] [LawfulBEq α] (keys loc : List α)
    (hnd : loc.Nodup) (hlen : keys.length = loc.length) (hmem : ∀ q, q ∈ keys ↔ q ∈ loc) :
    keys.Nodup := by
  apply nodup_of_length_eraseDups
  have h1 := length_eraseDups_le keys
  have h2 : loc.length ≤ keys.eraseDups.length :=
    hnd.length_le_of_subset (fun q hq => List.mem_eraseDups.2 ((hmem q).2 hq))
  omega

/-- size check + key-set check, for a duplicate-free location: the keys are a permutation of it -/
theorem keys_perm_iff (keys loc : List Nat) (hnd : loc.Nodup) :
    (keys.length = loc.length ∧ ∀ q, q ∈ keys ↔ q ∈ loc) ↔ keys.Perm loc := by
  constructor
  · rintro ⟨hlen, hmem⟩
    exact (List.perm_ext_iff_of_nodup
      (nodup_of_length_eq_of_mem_iff keys loc hnd hlen hmem) hnd).2 hmem
  · intro h
    exact ⟨h.length_eq, fun q => h.mem_iff⟩

/-! ### unfolding `G.subgraph` -/

/-- the raw edge list handed to the constructor -/
def subRaw (g : G) (loc : List Nat) (r : List (Nat × Nat)) : List (Nat × Nat) :=
  loc.flatMap (fun a => ((g.adj a).filter loc.contains).map (fun b => (lookup r a, lookup r b)))

/-- the sequence of checks of the code, as written (Boolean form) -/
def checksB (g : G) (loc : List Nat) (r : List (Nat × Nat)) : Bool :=
  validLocation loc g.n && r.length == loc.length &&
  ((r.map (·.1)).all loc.contains && loc.all (r.map (·.1)).contains) &&
  (sortNat (r.map (·.2)) == List.range loc.length)

theorem subgraph_eq (g : G) (loc : List Nat) (r : List (Nat × Nat)) :
    g.subgraph loc (some r) =
      if checksB g loc r then mk? (subRaw g loc r) (some loc.length) else none := by
  unfold G.subgraph checksB subRaw
  simp only [bne]
  generalize validLocation loc g.n = b1
  generalize (r.length == loc.length) = b2
  generalize ((r.map (·.1)).all loc.contains && loc.all (r.map (·.1)).contains) = b3
  generalize (sortNat (r.map (·.2)) == List.range loc.length) = b4
  cases b1 <;> cases b2 <;> cases b3 <;> cases b4 <;> rfl

/-! ### the checks, as propositions -/

/-- All checks of `get_subgraph` pass. -/
def ChecksOK (g : G) (loc : List Nat) (r : List (Nat × Nat)) : Prop :=
  (loc.Nodup ∧ ∀ q ∈ loc, q < g.n) ∧ r.length = loc.length ∧
  (∀ q, q ∈ r.map (·.1) ↔ q ∈ loc) ∧ (r.map (·.2)).Perm (List.range loc.length)

theorem keysCheck_iff (keys loc : List Nat) :
    (keys.all loc.contains && loc.all keys.contains) = true ↔ ∀ q, q ∈ keys ↔ q ∈ loc := by
  simp only [Bool.and_eq_true, List.all_eq_true, List.contains_iff_mem]
  exact ⟨fun h q => ⟨h.1 q, h.2 q⟩, fun h => ⟨fun q => (h q).1, fun q => (h q).2⟩⟩

theorem checksB_iff (g : G) (loc : List Nat) (r : List (Nat × Nat)) :
    checksB g loc r = true ↔ ChecksOK g loc r := by
  unfold checksB ChecksOK
  rw [Bool.and_eq_true, Bool.and_eq_true, Bool.and_eq_true, validLocation_iff, keysCheck_iff,
    beq_iff_eq, beq_iff_eq, sortNat_eq_range_iff]
  constructor
  · rintro ⟨⟨⟨⟨h1, h1'⟩, h2⟩, h3⟩, h4⟩
    exact ⟨⟨h1', h1⟩, h2, h3, h4⟩
  · rintro ⟨⟨h1', h1⟩, h2, h3, h4⟩
    exact ⟨⟨⟨⟨h1, h1'⟩, h2⟩, h3⟩, h4⟩

/-! ### the raw edge list -/

theorem mem_subRaw (g : G) (hwf : g.WF) (loc : List Nat) (r : List (Nat × Nat)) (e : Nat × Nat) :
    e ∈ subRaw g loc r ↔
      ∃ a ∈ loc, ∃ b ∈ loc, g.hasEdge a b = true ∧ e = (lookup r a, lookup r b) := by
  unfold subRaw
  simp only [List.mem_flatMap, List.mem_map, List.mem_filter, List.contains_iff_mem,
    G.mem_adj_wf g hwf]
  constructor
  · rintro ⟨a, ha, b, ⟨hab, hb⟩, rfl⟩
    exact ⟨a, ha, b, hb, hab, rfl⟩
  · rintro ⟨a, ha, b, hb, hab, rfl⟩
    exact ⟨a, ha, b, ⟨hab, hb⟩, rfl⟩

theorem rawMax_lt (raw : List (Nat × Nat)) (k : Nat) (hk : 0 < k)
    (h : ∀ e ∈ raw, e.1 < k ∧ e.2 < k) : rawMax raw < k := by
  unfold rawMax
  rcases foldl_max_attained raw 0 with h0 | ⟨e, he, h1 | h1⟩
  · omega
  · have := h e he; omega
  · have := h e he; omega

theorem lookup_lt_of_checks {g : G} {loc : List Nat} {r : List (Nat × Nat)}
    (hc : ChecksOK g loc r) {a : Nat} (ha : a ∈ loc) : lookup r a < loc.length := by
  obtain ⟨_, _, hk, hv⟩ := hc
  exact List.mem_range.1 (hv.mem_iff.1 (lookup_mem_vals r a ((hk a).2 ha)))

theorem lookup_inj_of_checks {g : G} {loc : List Nat} {r : List (Nat × Nat)}
    (hc : ChecksOK g loc r) {a b : Nat} (ha : a ∈ loc) (hb : b ∈ loc)
    (h : lookup r a = lookup r b) : a = b := by
  obtain ⟨_, _, hk, hv⟩ := hc
  exact lookup_inj r (hv.nodup_iff.2 List.nodup_range) a b ((hk a).2 ha) ((hk b).2 hb) h

theorem subRaw_lt (g : G) (hwf : g.WF) (loc : List Nat) (r : List (Nat × Nat))
    (hc : ChecksOK g loc r) : ∀ e ∈ subRaw g loc r, e.1 < loc.length ∧ e.2 < loc.length := by
  intro e he
  obtain ⟨a, ha, b, hb, _, rfl⟩ := (mem_subRaw g hwf loc r e).1 he
  exact ⟨lookup_lt_of_checks hc ha, lookup_lt_of_checks hc hb⟩

/-- once the checks pass, no self loop reaches the constructor -/
theorem subRaw_noself (g : G) (hwf : g.WF) (loc : List Nat) (r : List (Nat × Nat))
    (hc : ChecksOK g loc r) : ∀ e ∈ subRaw g loc r, e.1 ≠ e.2 := by
  intro e he h
  obtain ⟨a, ha, b, hb, hab, rfl⟩ := (mem_subRaw g hwf loc r e).1 he
  exact (g.hasEdge_lt hwf hab).1 (lookup_inj_of_checks hc ha hb h)

theorem subgraph_none_of_not_checks (g : G) (loc : List Nat) (r : List (Nat × Nat))
    (hc : ¬ ChecksOK g loc r) : g.subgraph loc (some r) = none := by
  rw [subgraph_eq]
  have : checksB g loc r = false := by
    cases h : checksB g loc r
    · rfl
    · exact absurd ((checksB_iff g loc r).1 h) hc
  simp [this]

/-- the empty location: every check passes for the empty dict, and the constructor raises
(`CouplingGraph([], 0)`) -/
theorem subgraph_nil (g : G) (r : List (Nat × Nat)) : g.subgraph [] (some r) = none := by
  rw [subgraph_eq]
  split
  · rfl
  · rfl

theorem subgraph_some_of_checks (g : G) (hwf : g.WF) (loc : List Nat) (r : List (Nat × Nat))
    (hc : ChecksOK g loc r) (hne : loc ≠ []) :
    g.subgraph loc (some r) = some ⟨loc.length, ((subRaw g loc r).map norm).eraseDups⟩ := by
  rw [subgraph_eq, (checksB_iff g loc r).2 hc, if_pos rfl, mk?_some_iff]
  exact ⟨subRaw_noself g hwf loc r hc,
    rawMax_lt _ _ (List.length_pos_iff.2 hne) (subRaw_lt g hwf loc r hc), rfl⟩


/-! ### bijective renumbering: the induced subgraph -/

theorem checksOK_of_perm (g : G) (loc : List Nat) (ren : List (Nat × Nat))
    (hnd : loc.Nodup) (hlt : ∀ q ∈ loc, q < g.n)
    (hkeys : (ren.map (·.1)).Perm loc)
    (hvals : (ren.map (·.2)).Perm (List.range loc.length)) : ChecksOK g loc ren := by
  refine ⟨⟨hnd, hlt⟩, ?_, fun q => hkeys.mem_iff, hvals⟩
  have := hkeys.length_eq
  simpa using this

/-- bijective renumbering: the induced subgraph, renumbered -/
theorem subgraph_spec (g : G) (hwf : g.WF) (loc : List Nat) (ren : List (Nat × Nat))
    (hne : loc ≠ []) (hnd : loc.Nodup) (hlt : ∀ q ∈ loc, q < g.n)
    (hkeys : (ren.map (·.1)).Perm loc)
    (hvals : (ren.map (·.2)).Perm (List.range loc.length)) :
    ∃ h, g.subgraph loc (some ren) = some h ∧ h.n = loc.length ∧ h.WF ∧
      (∀ a b, a ∈ loc → b ∈ loc → h.hasEdge (lookup ren a) (lookup ren b) = g.hasEdge a b) ∧
      (∀ x y, h.hasEdge x y = true →
         ∃ a ∈ loc, ∃ b ∈ loc, x = lookup ren a ∧ y = lookup ren b ∧ g.hasEdge a b = true) := by
  have hc := checksOK_of_perm g loc ren hnd hlt hkeys hvals
  have hinj : ∀ a b, a ∈ loc → b ∈ loc → lookup ren a = lookup ren b → a = b :=
    fun a b ha hb h => lookup_inj_of_checks hc ha hb h
  refine ⟨_, subgraph_some_of_checks g hwf loc ren hc hne, rfl,
    wf_mk _ _ (subRaw_noself g hwf loc ren hc) (subRaw_lt g hwf loc ren hc), ?_, ?_⟩
  · intro a b ha hb
    rw [Bool.eq_iff_iff, hasEdge_mk]
    constructor
    · rintro ⟨e, he, h⟩
      obtain ⟨a', ha', b', hb', hab', rfl⟩ := (mem_subRaw g hwf loc ren e).1 he
      rcases h with h | h
      · have h := Prod.mk.inj h
        rw [← hinj _ _ ha' ha h.1, ← hinj _ _ hb' hb h.2]; exact hab'
      · have h := Prod.mk.inj h
        rw [← hinj _ _ ha' hb h.1, ← hinj _ _ hb' ha h.2, G.hasEdge_comm]; exact hab'
    · intro hab
      exact ⟨_, (mem_subRaw g hwf loc ren _).2 ⟨a, ha, b, hb, hab, rfl⟩, Or.inl rfl⟩
  · intro x y hxy
    rw [hasEdge_mk] at hxy
    obtain ⟨e, he, h⟩ := hxy
    obtain ⟨a, ha, b, hb, hab, rfl⟩ := (mem_subRaw g hwf loc ren e).1 he
    rcases h with h | h
    · have h := Prod.mk.inj h
      exact ⟨a, ha, b, hb, h.1.symm, h.2.symm, hab⟩
    · have h := Prod.mk.inj h
      exact ⟨b, hb, a, ha, h.2.symm, h.1.symm, by rw [G.hasEdge_comm]; exact hab⟩

example : ∃ h, (G.mk 4 [(0, 1), (1, 2), (2, 3)]).subgraph [3, 1, 2] (some [(1, 0), (2, 1), (3, 2)])
    = some h ∧ h = ⟨3, [(1, 2), (0, 1)]⟩ := by decide
/-- non-vacuity of `subgraph_spec` -/
example : let g : G := ⟨4, [(0, 1), (1, 2), (2, 3)]⟩
    let loc := [3, 1, 2]
    let ren := [(1, 0), (2, 1), (3, 2)]
    g.WF ∧ loc ≠ [] ∧ loc.Nodup ∧ (∀ q ∈ loc, q < g.n) ∧
    (ren.map (·.1)).Perm loc ∧ (ren.map (·.2)).Perm (List.range loc.length) := by
  refine ⟨by unfold G.WF; decide, by decide, by decide, by decide, ?_, ?_⟩ <;> decide


/-! ### the default renumbering -/

theorem idxOf_getElem_of_nodup (l : List Nat) (hnd : l.Nodup) (i : Nat) (hi : i < l.length) :
    l.idxOf l[i] = i := by
  induction l generalizing i with
  | nil => simp at hi
  | cons x xs ih =>
    rw [List.nodup_cons] at hnd
    cases i with
    | zero => simp
    | succ j =>
      simp only [List.getElem_cons_succ, List.idxOf_cons]
      have hj : j < xs.length := by simpa using hi
      have : x ≠ xs[j] := fun e => hnd.1 (e ▸ List.getElem_mem hj)
      have hb : (x == xs[j]) = false := by simpa using this
      rw [hb, cond_false, ih hnd.2 j hj]

/-- the default renumbering instance: vertex `loc[i]` becomes `i` -/
theorem subgraph_default_spec (g : G) (hwf : g.WF) (loc : List Nat)
    (hne : loc ≠ []) (hnd : loc.Nodup) (hlt : ∀ q ∈ loc, q < g.n) :
    ∃ h, g.subgraph loc none = some h ∧ h.n = loc.length ∧ h.WF ∧
      ∀ i j, i < loc.length → j < loc.length →
        h.hasEdge i j = g.hasEdge (loc.getD i 0) (loc.getD j 0) := by
  have hkeys : (loc.zipIdx.map (·.1)).Perm loc := by
    have : loc.zipIdx.map (·.1) = loc := List.zipIdx_map_fst 0 loc
    rw [this]
  have hvals : (loc.zipIdx.map (·.2)).Perm (List.range loc.length) := by
    have : loc.zipIdx.map (·.2) = List.range loc.length := by
      rw [List.range_eq_range']; exact List.zipIdx_map_snd 0 loc
    rw [this]
  obtain ⟨h, h1, h2, h3, h4, _⟩ := subgraph_spec g hwf loc loc.zipIdx hne hnd hlt hkeys hvals
  refine ⟨h, by rw [subgraph_default]; exact h1, h2, h3, ?_⟩
  intro i j hi hj
  have hgi : loc.getD i 0 = loc[i] := by simp [hi]
  have hgj : loc.getD j 0 = loc[j] := by simp [hj]
  have := h4 loc[i] loc[j] (List.getElem_mem hi) (List.getElem_mem hj)
  rw [lookup_zipIdx _ _ (List.getElem_mem hi), lookup_zipIdx _ _ (List.getElem_mem hj),
    idxOf_getElem_of_nodup loc hnd i hi, idxOf_getElem_of_nodup loc hnd j hj] at this
  rw [hgi, hgj]; exact this

/-- non-vacuity of `subgraph_default_spec` -/
example : let g : G := ⟨4, [(0, 1), (1, 2), (2, 3)]⟩
    let loc := [3, 1, 2]
    g.WF ∧ loc ≠ [] ∧ loc.Nodup ∧ (∀ q ∈ loc, q < g.n) ∧
      g.subgraph loc none = some ⟨3, [(0, 2), (1, 2)]⟩ := by
  refine ⟨by unfold G.WF; decide, by decide, by decide, by decide, by decide⟩


/-! ### exact error cases -/

/-- exact error cases: the call raises iff the location is invalid or empty, or the renumbering
is not a bijection `loc → [0,|loc|)` (wrong size, wrong key set, or values not a permutation of
`0..|loc|-1`).  In particular no renumbering that merges vertices is accepted any more.
(The hypothesis "keys of the dict are distinct" is not needed: it follows.) -/
theorem subgraph_none_iff (g : G) (hwf : g.WF) (loc : List Nat) (ren : List (Nat × Nat)) :
    g.subgraph loc (some ren) = none ↔
      (¬ (loc.Nodup ∧ ∀ q ∈ loc, q < g.n))                       -- TypeError: invalid location
      ∨ loc = []                                                  -- ValueError (constructor)
      ∨ ren.length ≠ loc.length                                   -- ValueError: size
      ∨ ¬ (∀ q, q ∈ ren.map (·.1) ↔ q ∈ loc)                      -- ValueError: keys
      ∨ ¬ (ren.map (·.2)).Perm (List.range loc.length) := by      -- ValueError: not a permutation
  constructor
  · intro hnone
    by_cases h1 : loc.Nodup ∧ ∀ q ∈ loc, q < g.n
    case neg => exact Or.inl h1
    by_cases h4 : loc = []
    case pos => exact Or.inr (Or.inl h4)
    by_cases h2 : ren.length = loc.length
    case neg => exact Or.inr (Or.inr (Or.inl h2))
    by_cases h3 : ∀ q, q ∈ ren.map (·.1) ↔ q ∈ loc
    case neg => exact Or.inr (Or.inr (Or.inr (Or.inl h3)))
    by_cases h5 : (ren.map (·.2)).Perm (List.range loc.length)
    case neg => exact Or.inr (Or.inr (Or.inr (Or.inr h5)))
    have := subgraph_some_of_checks g hwf loc ren ⟨h1, h2, h3, h5⟩ h4
    rw [hnone] at this
    exact absurd this (by simp)
  · rintro (h | h | h | h | h)
    · exact subgraph_none_of_not_checks g loc ren (fun hc => h hc.1)
    · rw [h]; exact subgraph_nil g ren
    · exact subgraph_none_of_not_checks g loc ren (fun hc => h hc.2.1)
    · exact subgraph_none_of_not_checks g loc ren (fun hc => h hc.2.2.1)
    · exact subgraph_none_of_not_checks g loc ren (fun hc => h hc.2.2.2)

/-- every disjunct of `subgraph_none_iff` is realised while the others are not; a passing case -/
example : (G.mk 3 [(0, 1)]).subgraph [0, 0] (some [(0, 0), (0, 1)]) = none := by decide
example : (G.mk 3 [(0, 1)]).subgraph [0, 3] (some [(0, 0), (3, 1)]) = none := by decide
example : (G.mk 3 [(0, 1)]).subgraph [] (some []) = none := by decide
example : (G.mk 3 [(0, 1)]).subgraph [0, 1] (some [(0, 0)]) = none := by decide
example : (G.mk 3 [(0, 1)]).subgraph [0, 1] (some [(0, 0), (2, 1)]) = none := by decide
example : (G.mk 3 [(0, 1)]).subgraph [0, 1] (some [(0, 1), (1, 2)]) = none := by decide
example : (G.mk 3 [(0, 1)]).subgraph [0, 1] (some [(0, 0), (1, 0)]) = none := by decide
example : (G.mk 3 [(0, 1)]).subgraph [0, 1, 2] (some [(0, 0), (1, 0), (2, 2)]) = none := by decide
example : (G.mk 3 [(0, 1)]).subgraph [0, 1] (some [(0, 1), (1, 0)]) = some ⟨2, [(0, 1)]⟩ := by
  decide

/-- success iff valid non-empty location and `ren` is (the graph of) a bijection -/
theorem subgraph_isSome_iff (g : G) (hwf : g.WF) (loc : List Nat) (ren : List (Nat × Nat)) :
    (g.subgraph loc (some ren)).isSome = true ↔
      loc ≠ [] ∧ loc.Nodup ∧ (∀ q ∈ loc, q < g.n) ∧ (ren.map (·.1)).Perm loc ∧
        (ren.map (·.2)).Perm (List.range loc.length) := by
  constructor
  · intro hs
    have hnn : ¬ g.subgraph loc (some ren) = none := by
      intro e; rw [e] at hs; simp at hs
    rw [subgraph_none_iff g hwf] at hnn
    have h1 : loc.Nodup ∧ ∀ q ∈ loc, q < g.n :=
      Classical.byContradiction fun h => hnn (Or.inl h)
    have h4 : loc ≠ [] := fun h => hnn (Or.inr (Or.inl h))
    have h2 : ren.length = loc.length :=
      Classical.byContradiction fun h => hnn (Or.inr (Or.inr (Or.inl h)))
    have h3 : ∀ q, q ∈ ren.map (·.1) ↔ q ∈ loc :=
      Classical.byContradiction fun h => hnn (Or.inr (Or.inr (Or.inr (Or.inl h))))
    have h5 : (ren.map (·.2)).Perm (List.range loc.length) :=
      Classical.byContradiction fun h => hnn (Or.inr (Or.inr (Or.inr (Or.inr h))))
    exact ⟨h4, h1.1, h1.2, (keys_perm_iff _ loc h1.1).1 ⟨by simpa using h2, h3⟩, h5⟩
  · rintro ⟨hne, hnd, hlt, hk, hv⟩
    obtain ⟨h, hh, _⟩ := subgraph_spec g hwf loc ren hne hnd hlt hk hv
    rw [hh]; rfl

/-- non-vacuity of `subgraph_isSome_iff`: both sides hold / both sides fail -/
example : ((G.mk 3 [(0, 1)]).subgraph [0, 1] (some [(0, 1), (1, 0)])).isSome = true := by decide
example : ((G.mk 3 [(0, 1)]).subgraph [0, 1] (some [(0, 1), (0, 0)])).isSome = false := by decide

/-- with the default renumbering the only errors are an invalid or empty location -/
theorem subgraph_default_none_iff (g : G) (hwf : g.WF) (loc : List Nat) :
    g.subgraph loc none = none ↔ ¬ (loc.Nodup ∧ ∀ q ∈ loc, q < g.n) ∨ loc = [] := by
  constructor
  · intro hnone
    by_cases h1 : loc.Nodup ∧ ∀ q ∈ loc, q < g.n
    case neg => exact Or.inl h1
    by_cases h4 : loc = []
    case pos => exact Or.inr h4
    obtain ⟨h, hh, _⟩ := subgraph_default_spec g hwf loc h4 h1.1 h1.2
    rw [hnone] at hh
    exact absurd hh (by simp)
  · intro h
    rw [subgraph_default, subgraph_none_iff g hwf]
    rcases h with h | h
    · exact Or.inl h
    · exact Or.inr (Or.inl h)

example : (G.mk 3 [(0, 1)]).subgraph [] none = none := by decide
example : (G.mk 3 [(0, 1)]).subgraph [1, 1] none = none := by decide
example : (G.mk 3 [(0, 1)]).subgraph [1, 3] none = none := by decide
example : (G.mk 3 [(0, 1)]).subgraph [1, 0] none = some ⟨2, [(0, 1)]⟩ := by decide

/-- the former weak-check witness (accepted by the old `min == 0 and max == len-1` test, merging
vertices 1 and 2) is now rejected -/
theorem subgraph_rejects_non_injective :
    (G.mk 3 [(0, 1)]).subgraph [0, 1, 2] (some [(0, 0), (1, 2), (2, 2)]) = none := by
  decide

/-! ### remaining non-vacuity instances -/
/-- `lookup_zipIdx` -/
example : (2 : Nat) ∈ [3, 1, 2] ∧ lookup [3, 1, 2].zipIdx 2 = 2 := by decide
/-- the guard `a ∈ loc` of `lookup_zipIdx` is needed: `lookup` defaults to 0, `idxOf` to the length -/
example : lookup [3, 1, 2].zipIdx 7 = 0 ∧ [3, 1, 2].idxOf 7 = 3 := by decide
/-- `subgraph_none_iff`, `subgraph_isSome_iff`, `subgraph_default_none_iff`
(graph of the examples above) -/
example : (G.mk 3 [(0, 1)]).WF := by unfold G.WF; decide

end BqVerif.Graph
