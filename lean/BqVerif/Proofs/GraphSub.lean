import BqVerif.Proofs.GraphBasic
/-!
`CouplingGraph.get_subgraph` (model: `G.subgraph`): default renumbering, the induced-subgraph
specification for bijective renumberings, the exact error cases, and a witness that the
"permutation" check of the code is too weak.
-/
namespace BqVerif.Graph

/-! ### `validLocation` -/

theorem length_eraseDups_le {α} [BEq α] [LawfulBEq α] :
    ∀ (l : List α), l.eraseDups.length ≤ l.length
  | [] => by simp
  | a :: as => by
    rw [List.eraseDups_cons]
    have h1 := List.length_filter_le (fun b => !b == a) as
    have ih := length_eraseDups_le (as.filter fun b => !b == a)
    simp only [List.length_cons]
    omega
termination_by l => l.length
decreasing_by
  have := List.length_filter_le (fun b => !b == a) as
  simp only [List.length_cons]; omega

theorem nodup_of_length_eraseDups {α} [BEq α] [LawfulBEq α] :
    ∀ (l : List α), l.eraseDups.length = l.length → l.Nodup
  | [], _ => by simp
  | a :: as, h => by
    rw [List.eraseDups_cons] at h
    have h1 := List.length_filter_le (fun b => !b == a) as
    have h2 := length_eraseDups_le (as.filter fun b => !b == a)
    simp only [List.length_cons] at h
    have hlen : (as.filter fun b => !b == a).length = as.length := by omega
    have hf : (as.filter fun b => !b == a) = as := by
      rw [List.filter_eq_self]
      intro b hb
      by_cases hb' : ((fun b => !b == a) b) = true
      · exact hb'
      · exfalso
        have := List.length_filter_lt_length_iff_exists (p := fun b => !b == a) (l := as)
        have hlt : (as.filter fun b => !b == a).length < as.length :=
          this.2 ⟨b, hb, hb'⟩
        omega
    rw [hf] at h
    have ih := nodup_of_length_eraseDups as (by omega)
    rw [List.nodup_cons]
    refine ⟨?_, ih⟩
    intro hmem
    have : as.filter (fun b => !b == a) = as := hf
    rw [List.filter_eq_self] at this
    have := this a hmem
    simp at this
termination_by l => l.length

theorem length_eraseDups_eq_iff {α} [BEq α] [LawfulBEq α] (l : List α) :
    l.eraseDups.length = l.length ↔ l.Nodup :=
  ⟨nodup_of_length_eraseDups l, fun h => by rw [eraseDups_eq_self_of_nodup l h]⟩

theorem validLocation_iff (loc : List Nat) (n : Nat) :
    validLocation loc n = true ↔ (∀ q ∈ loc, q < n) ∧ loc.Nodup := by
  unfold validLocation
  rw [Bool.and_eq_true, beq_iff_eq, length_eraseDups_eq_iff, List.all_eq_true]
  simp

/-! ### `lookup` and the default renumbering -/

theorem subgraph_default (g : G) (loc : List Nat) :
    g.subgraph loc none = g.subgraph loc (some loc.zipIdx) := rfl

theorem lookup_nil (a : Nat) : lookup [] a = 0 := rfl

theorem lookup_cons (p : Nat × Nat) (ren : List (Nat × Nat)) (a : Nat) :
    lookup (p :: ren) a = if p.1 = a then p.2 else lookup ren a := by
  unfold lookup
  rw [List.find?_cons]
  by_cases h : p.1 = a
  · simp [h]
  · have : (p.1 == a) = false := by simpa using h
    simp only [this, h, if_false]

theorem lookup_zipIdx_aux (loc : List Nat) (a k : Nat) (h : a ∈ loc) :
    lookup (loc.zipIdx k) a = loc.idxOf a + k := by
  induction loc generalizing k with
  | nil => simp at h
  | cons x xs ih =>
    rw [List.zipIdx_cons, lookup_cons, List.idxOf_cons]
    by_cases hx : x = a
    · simp [hx]
    · have : a ∈ xs := by
        rcases List.mem_cons.1 h with h | h
        · exact absurd h.symm hx
        · exact h
      have hb : (x == a) = false := by simpa using hx
      simp only [hx, hb, if_false, cond_false, ih _ this]; omega

theorem lookup_zipIdx (loc : List Nat) (a : Nat) (h : a ∈ loc) :
    lookup loc.zipIdx a = loc.idxOf a := by
  simpa using lookup_zipIdx_aux loc a 0 h

/-- the pair found by `lookup` -/
theorem lookup_mem (ren : List (Nat × Nat)) (a : Nat) (h : a ∈ ren.map (·.1)) :
    (a, lookup ren a) ∈ ren := by
  induction ren with
  | nil => simp at h
  | cons p ps ih =>
    rw [lookup_cons]
    by_cases hp : p.1 = a
    · simp [hp]; left; rw [← hp]
    · simp only [hp, if_false]
      simp only [List.map_cons, List.mem_cons] at h
      rcases h with h | h
      · exact absurd h.symm hp
      · exact List.mem_cons_of_mem _ (ih h)

theorem lookup_mem_vals (ren : List (Nat × Nat)) (a : Nat) (h : a ∈ ren.map (·.1)) :
    lookup ren a ∈ ren.map (·.2) :=
  List.mem_map.2 ⟨_, lookup_mem ren a h, rfl⟩

theorem lookup_of_mem (ren : List (Nat × Nat)) (hk : (ren.map (·.1)).Nodup) (a v : Nat)
    (h : (a, v) ∈ ren) : lookup ren a = v := by
  induction ren with
  | nil => simp at h
  | cons p ps ih =>
    rw [lookup_cons]
    simp only [List.map_cons, List.nodup_cons] at hk
    rcases List.mem_cons.1 h with h | h
    · simp [← h]
    · have : p.1 ≠ a := by
        intro e
        apply hk.1
        rw [e]
        exact List.mem_map.2 ⟨_, h, rfl⟩
      simp only [this, if_false]
      exact ih hk.2 h

/-- with duplicate-free values, a pair of the list is determined by its value -/
theorem eq_of_snd_eq (ren : List (Nat × Nat)) (hv : (ren.map (·.2)).Nodup) (p q : Nat × Nat)
    (hp : p ∈ ren) (hq : q ∈ ren) (h : p.2 = q.2) : p = q := by
  induction ren with
  | nil => simp at hp
  | cons r rs ih =>
    simp only [List.map_cons, List.nodup_cons] at hv
    rcases List.mem_cons.1 hp with hp | hp <;> rcases List.mem_cons.1 hq with hq | hq
    · rw [hp, hq]
    · exfalso; apply hv.1; rw [← hp, h]; exact List.mem_map.2 ⟨_, hq, rfl⟩
    · exfalso; apply hv.1; rw [← hq, ← h]; exact List.mem_map.2 ⟨_, hp, rfl⟩
    · exact ih hv.2 hp hq

theorem lookup_inj (ren : List (Nat × Nat)) (hv : (ren.map (·.2)).Nodup) (a b : Nat)
    (ha : a ∈ ren.map (·.1)) (hb : b ∈ ren.map (·.1)) (h : lookup ren a = lookup ren b) :
    a = b := by
  have := eq_of_snd_eq ren hv _ _ (lookup_mem ren a ha) (lookup_mem ren b hb) h
  exact (Prod.mk.inj this).1


/-! ### unfolding `G.subgraph` -/

/-- the raw edge list handed to the constructor -/
def subRaw (g : G) (loc : List Nat) (r : List (Nat × Nat)) : List (Nat × Nat) :=
  loc.flatMap (fun a => ((g.adj a).filter loc.contains).map (fun b => (lookup r a, lookup r b)))

/-- the sequence of checks of the code, as written (Boolean form) -/
def checksB (g : G) (loc : List Nat) (r : List (Nat × Nat)) : Bool :=
  validLocation loc g.n && r.length == loc.length &&
  ((r.map (·.1)).all loc.contains && loc.all (r.map (·.1)).contains) &&
  !loc.isEmpty &&
  ((r.map (·.2)).foldl min ((r.map (·.2)).headD 0) == 0 &&
    (r.map (·.2)).foldl max 0 == loc.length - 1)

theorem subgraph_eq (g : G) (loc : List Nat) (r : List (Nat × Nat)) :
    g.subgraph loc (some r) =
      if checksB g loc r then mk? (subRaw g loc r) (some loc.length) else none := by
  unfold G.subgraph checksB subRaw
  simp only [bne]
  generalize validLocation loc g.n = b1
  generalize (r.length == loc.length) = b2
  generalize ((r.map (·.1)).all loc.contains && loc.all (r.map (·.1)).contains) = b3
  generalize loc.isEmpty = b4
  generalize ((r.map (·.2)).foldl min ((r.map (·.2)).headD 0) == 0 &&
    (r.map (·.2)).foldl max 0 == loc.length - 1) = b5
  cases b1 <;> cases b2 <;> cases b3 <;> cases b4 <;> cases b5 <;> rfl


/-! ### the `min`/`max` folds of the "permutation" check -/

theorem foldl_min_le (l : List Nat) (m0 : Nat) :
    l.foldl min m0 ≤ m0 ∧ ∀ v ∈ l, l.foldl min m0 ≤ v := by
  induction l generalizing m0 with
  | nil => simp
  | cons x xs ih =>
    simp only [List.foldl_cons, List.mem_cons, forall_eq_or_imp]
    have := ih (min m0 x)
    exact ⟨by omega, by omega, this.2⟩

theorem foldl_min_mem (l : List Nat) (m0 : Nat) : l.foldl min m0 = m0 ∨ l.foldl min m0 ∈ l := by
  induction l generalizing m0 with
  | nil => simp
  | cons x xs ih =>
    simp only [List.foldl_cons, List.mem_cons]
    rcases ih (min m0 x) with h | h
    · rw [h]; omega
    · right; right; exact h

/-- `min(values) == 0` for a non-empty list of naturals: `0` occurs. -/
theorem foldl_min_head_eq_zero_iff (l : List Nat) (hne : l ≠ []) :
    l.foldl min (l.headD 0) = 0 ↔ 0 ∈ l := by
  cases l with
  | nil => exact absurd rfl hne
  | cons x xs =>
    simp only [List.headD_cons, List.foldl_cons, Nat.min_self, List.mem_cons]
    constructor
    · intro h
      rcases foldl_min_mem xs x with h' | h'
      · left; omega
      · right; rw [h] at h'; exact h'
    · intro h
      have := foldl_min_le xs x
      rcases h with h | h
      · omega
      · have := this.2 0 h; omega

theorem foldl_max_ge' (l : List Nat) (m0 : Nat) :
    m0 ≤ l.foldl max m0 ∧ ∀ v ∈ l, v ≤ l.foldl max m0 := by
  induction l generalizing m0 with
  | nil => simp
  | cons x xs ih =>
    simp only [List.foldl_cons, List.mem_cons, forall_eq_or_imp]
    have := ih (max m0 x)
    exact ⟨by omega, by omega, this.2⟩

theorem foldl_max_mem (l : List Nat) (m0 : Nat) : l.foldl max m0 = m0 ∨ l.foldl max m0 ∈ l := by
  induction l generalizing m0 with
  | nil => simp
  | cons x xs ih =>
    simp only [List.foldl_cons, List.mem_cons]
    rcases ih (max m0 x) with h | h
    · rw [h]; omega
    · right; right; exact h

/-- `max(values) == m` for a non-empty list of naturals: `m` occurs and bounds the list. -/
theorem foldl_max_eq_iff (l : List Nat) (hne : l ≠ []) (m : Nat) :
    l.foldl max 0 = m ↔ (∀ v ∈ l, v ≤ m) ∧ m ∈ l := by
  constructor
  · intro h
    have hge := (foldl_max_ge' l 0).2
    rw [h] at hge
    refine ⟨hge, ?_⟩
    rcases foldl_max_mem l 0 with h' | h'
    · cases l with
      | nil => exact absurd rfl hne
      | cons x xs =>
        have : x ≤ m := hge x (List.mem_cons_self)
        have : x = m := by omega
        rw [this]; exact List.mem_cons_self
    · rw [h] at h'; exact h'
  · rintro ⟨h1, h2⟩
    have hge := (foldl_max_ge' l 0).2 m h2
    rcases foldl_max_mem l 0 with h' | h'
    · omega
    · have := h1 _ h'; omega

/-! ### the checks, as propositions -/

/-- All checks of `get_subgraph` pass. -/
def ChecksOK (g : G) (loc : List Nat) (r : List (Nat × Nat)) : Prop :=
  (loc.Nodup ∧ ∀ q ∈ loc, q < g.n) ∧ r.length = loc.length ∧
  (∀ q, q ∈ r.map (·.1) ↔ q ∈ loc) ∧ loc ≠ [] ∧
  ((∀ v ∈ r.map (·.2), v ≤ loc.length - 1) ∧ 0 ∈ r.map (·.2) ∧ (loc.length - 1) ∈ r.map (·.2))

theorem keysCheck_iff (keys loc : List Nat) :
    (keys.all loc.contains && loc.all keys.contains) = true ↔ ∀ q, q ∈ keys ↔ q ∈ loc := by
  simp only [Bool.and_eq_true, List.all_eq_true, List.contains_iff_mem]
  exact ⟨fun h q => ⟨h.1 q, h.2 q⟩, fun h => ⟨fun q => (h q).1, fun q => (h q).2⟩⟩

theorem checksB_iff (g : G) (loc : List Nat) (r : List (Nat × Nat)) :
    checksB g loc r = true ↔ ChecksOK g loc r := by
  unfold checksB ChecksOK
  simp only [Bool.and_eq_true, validLocation_iff, beq_iff_eq, Bool.not_eq_true',
    List.isEmpty_eq_false_iff]
  constructor
  · rintro ⟨⟨⟨⟨⟨h1, h1'⟩, h2⟩, h3⟩, h4⟩, h5, h6⟩
    have hne : r.map (·.2) ≠ [] := by
      intro e
      have := congrArg List.length e
      simp only [List.length_map, List.length_nil] at this
      have : loc.length = 0 := by omega
      exact h4 (List.eq_nil_of_length_eq_zero this)
    rw [foldl_min_head_eq_zero_iff _ hne] at h5
    rw [foldl_max_eq_iff _ hne] at h6
    exact ⟨⟨h1', h1⟩, h2, (keysCheck_iff _ _).1 ((Bool.and_eq_true _ _).mpr h3), h4, h6.1, h5, h6.2⟩
  · rintro ⟨⟨h1', h1⟩, h2, h3, h4, h6, h5, h7⟩
    have hne : r.map (·.2) ≠ [] := List.ne_nil_of_mem h5
    refine ⟨⟨⟨⟨⟨h1, h1'⟩, h2⟩, (Bool.and_eq_true _ _).mp ((keysCheck_iff _ _).2 h3)⟩, h4⟩, ?_, ?_⟩
    · rw [foldl_min_head_eq_zero_iff _ hne]; exact h5
    · rw [foldl_max_eq_iff _ hne]; exact ⟨h6, h7⟩

end BqVerif.Graph
