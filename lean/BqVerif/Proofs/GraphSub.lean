import BqVerif.Proofs.GraphBasic
/-!
`CouplingGraph.get_subgraph` (model: `G.subgraph`): default renumbering, the induced-subgraph
specification for bijective renumberings, the exact error cases, and a witness that the
"permutation" check of the code is too weak.
-/
namespace BqVerif.Graph

/-! ### `validLocation` -/

theorem length_eraseDups_le {α} [BEq α] [LawfulBEq α] :
    ∀ (l : List α), l.eraseDups.length ≤ l.length
  | [] => by simp
  | a :: as => by
    rw [List.eraseDups_cons]
    have h1 := List.length_filter_le (fun b => !b == a) as
    have ih := length_eraseDups_le (as.filter fun b => !b == a)
    simp only [List.length_cons]
    omega
termination_by l => l.length
decreasing_by
  have := List.length_filter_le (fun b => !b == a) as
  simp only [List.length_cons]; omega

theorem nodup_of_length_eraseDups {α} [BEq α] [LawfulBEq α] :
    ∀ (l : List α), l.eraseDups.length = l.length → l.Nodup
  | [], _ => by simp
  | a :: as, h => by
    rw [List.eraseDups_cons] at h
    have h1 := List.length_filter_le (fun b => !b == a) as
    have h2 := length_eraseDups_le (as.filter fun b => !b == a)
    simp only [List.length_cons] at h
    have hlen : (as.filter fun b => !b == a).length = as.length := by omega
    have hf : (as.filter fun b => !b == a) = as := by
      rw [List.filter_eq_self]
      intro b hb
      by_cases hb' : ((fun b => !b == a) b) = true
      · exact hb'
      · exfalso
        have := List.length_filter_lt_length_iff_exists (p := fun b => !b == a) (l := as)
        have hlt : (as.filter fun b => !b == a).length < as.length :=
          this.2 ⟨b, hb, hb'⟩
        omega
    rw [hf] at h
    have ih := nodup_of_length_eraseDups as (by omega)
    rw [List.nodup_cons]
    refine ⟨?_, ih⟩
    intro hmem
    have : as.filter (fun b => !b == a) = as := hf
    rw [List.filter_eq_self] at this
    have := this a hmem
    simp at this
termination_by l => l.length

theorem length_eraseDups_eq_iff {α} [BEq α] [LawfulBEq α] (l : List α) :
    l.eraseDups.length = l.length ↔ l.Nodup :=
  ⟨nodup_of_length_eraseDups l, fun h => by rw [eraseDups_eq_self_of_nodup l h]⟩

theorem validLocation_iff (loc : List Nat) (n : Nat) :
    validLocation loc n = true ↔ (∀ q ∈ loc, q < n) ∧ loc.Nodup := by
  unfold validLocation
  rw [Bool.and_eq_true, beq_iff_eq, length_eraseDups_eq_iff, List.all_eq_true]
  simp

/-! ### `lookup` and the default renumbering -/

theorem subgraph_default (g : G) (loc : List Nat) :
    g.subgraph loc none = g.subgraph loc (some loc.zipIdx) := rfl

theorem lookup_nil (a : Nat) : lookup [] a = 0 := rfl

theorem lookup_cons (p : Nat × Nat) (ren : List (Nat × Nat)) (a : Nat) :
    lookup (p :: ren) a = if p.1 = a then p.2 else lookup ren a := by
  unfold lookup
  rw [List.find?_cons]
  by_cases h : p.1 = a
  · simp [h]
  · have : (p.1 == a) = false := by simpa using h
    simp only [this, h, if_false]

theorem lookup_zipIdx_aux (loc : List Nat) (a k : Nat) (h : a ∈ loc) :
    lookup (loc.zipIdx k) a = loc.idxOf a + k := by
  induction loc generalizing k with
  | nil => simp at h
  | cons x xs ih =>
    rw [List.zipIdx_cons, lookup_cons, List.idxOf_cons]
    by_cases hx : x = a
    · simp [hx]
    · have : a ∈ xs := by
        rcases List.mem_cons.1 h with h | h
        · exact absurd h.symm hx
        · exact h
      have hb : (x == a) = false := by simpa using hx
      simp only [hx, hb, if_false, cond_false, ih _ this]; omega

theorem lookup_zipIdx (loc : List Nat) (a : Nat) (h : a ∈ loc) :
    lookup loc.zipIdx a = loc.idxOf a := by
  simpa using lookup_zipIdx_aux loc a 0 h

/-- the pair found by `lookup` -/
theorem lookup_mem (ren : List (Nat × Nat)) (a : Nat) (h : a ∈ ren.map (·.1)) :
    (a, lookup ren a) ∈ ren := by
  induction ren with
  | nil => simp at h
  | cons p ps ih =>
    rw [lookup_cons]
    by_cases hp : p.1 = a
    · simp [hp]; left; rw [← hp]
    · simp only [hp, if_false]
      simp only [List.map_cons, List.mem_cons] at h
      rcases h with h | h
      · exact absurd h.symm hp
      · exact List.mem_cons_of_mem _ (ih h)

theorem lookup_mem_vals (ren : List (Nat × Nat)) (a : Nat) (h : a ∈ ren.map (·.1)) :
    lookup ren a ∈ ren.map (·.2) :=
  List.mem_map.2 ⟨_, lookup_mem ren a h, rfl⟩

theorem lookup_of_mem (ren : List (Nat × Nat)) (hk : (ren.map (·.1)).Nodup) (a v : Nat)
    (h : (a, v) ∈ ren) : lookup ren a = v := by
  induction ren with
  | nil => simp at h
  | cons p ps ih =>
    rw [lookup_cons]
    simp only [List.map_cons, List.nodup_cons] at hk
    rcases List.mem_cons.1 h with h | h
    · simp [← h]
    · have : p.1 ≠ a := by
        intro e
        apply hk.1
        rw [e]
        exact List.mem_map.2 ⟨_, h, rfl⟩
      simp only [this, if_false]
      exact ih hk.2 h

/-- with duplicate-free values, a pair of the list is determined by its value -/
theorem eq_of_snd_eq (ren : List (Nat × Nat)) (hv : (ren.map (·.2)).Nodup) (p q : Nat × Nat)
    (hp : p ∈ ren) (hq : q ∈ ren) (h : p.2 = q.2) : p = q := by
  induction ren with
  | nil => simp at hp
  | cons r rs ih =>
    simp only [List.map_cons, List.nodup_cons] at hv
    rcases List.mem_cons.1 hp with hp | hp <;> rcases List.mem_cons.1 hq with hq | hq
    · rw [hp, hq]
    · exfalso; apply hv.1; rw [← hp, h]; exact List.mem_map.2 ⟨_, hq, rfl⟩
    · exfalso; apply hv.1; rw [← hq, ← h]; exact List.mem_map.2 ⟨_, hp, rfl⟩
    · exact ih hv.2 hp hq

theorem lookup_inj (ren : List (Nat × Nat)) (hv : (ren.map (·.2)).Nodup) (a b : Nat)
    (ha : a ∈ ren.map (·.1)) (hb : b ∈ ren.map (·.1)) (h : lookup ren a = lookup ren b) :
    a = b := by
  have := eq_of_snd_eq ren hv _ _ (lookup_mem ren a ha) (lookup_mem ren b hb) h
  exact (Prod.mk.inj this).1


/-! ### unfolding `G.subgraph` -/

/-- the raw edge list handed to the constructor -/
def subRaw (g : G) (loc : List Nat) (r : List (Nat × Nat)) : List (Nat × Nat) :=
  loc.flatMap (fun a => ((g.adj a).filter loc.contains).map (fun b => (lookup r a, lookup r b)))

/-- the sequence of checks of the code, as written (Boolean form) -/
def checksB (g : G) (loc : List Nat) (r : List (Nat × Nat)) : Bool :=
  validLocation loc g.n && r.length == loc.length &&
  ((r.map (·.1)).all loc.contains && loc.all (r.map (·.1)).contains) &&
  !loc.isEmpty &&
  ((r.map (·.2)).foldl min ((r.map (·.2)).headD 0) == 0 &&
    (r.map (·.2)).foldl max 0 == loc.length - 1)

theorem subgraph_eq (g : G) (loc : List Nat) (r : List (Nat × Nat)) :
    g.subgraph loc (some r) =
      if checksB g loc r then mk? (subRaw g loc r) (some loc.length) else none := by
  unfold G.subgraph checksB subRaw
  simp only [bne]
  generalize validLocation loc g.n = b1
  generalize (r.length == loc.length) = b2
  generalize ((r.map (·.1)).all loc.contains && loc.all (r.map (·.1)).contains) = b3
  generalize loc.isEmpty = b4
  generalize ((r.map (·.2)).foldl min ((r.map (·.2)).headD 0) == 0 &&
    (r.map (·.2)).foldl max 0 == loc.length - 1) = b5
  cases b1 <;> cases b2 <;> cases b3 <;> cases b4 <;> cases b5 <;> rfl


/-! ### the `min`/`max` folds of the "permutation" check -/

theorem foldl_min_le (l : List Nat) (m0 : Nat) :
    l.foldl min m0 ≤ m0 ∧ ∀ v ∈ l, l.foldl min m0 ≤ v := by
  induction l generalizing m0 with
  | nil => simp
  | cons x xs ih =>
    simp only [List.foldl_cons, List.mem_cons, forall_eq_or_imp]
    have := ih (min m0 x)
    exact ⟨by omega, by omega, this.2⟩

theorem foldl_min_mem (l : List Nat) (m0 : Nat) : l.foldl min m0 = m0 ∨ l.foldl min m0 ∈ l := by
  induction l generalizing m0 with
  | nil => simp
  | cons x xs ih =>
    simp only [List.foldl_cons, List.mem_cons]
    rcases ih (min m0 x) with h | h
    · rw [h]; omega
    · right; right; exact h

/-- `min(values) == 0` for a non-empty list of naturals: `0` occurs. -/
theorem foldl_min_head_eq_zero_iff (l : List Nat) (hne : l ≠ []) :
    l.foldl min (l.headD 0) = 0 ↔ 0 ∈ l := by
  cases l with
  | nil => exact absurd rfl hne
  | cons x xs =>
    simp only [List.headD_cons, List.foldl_cons, Nat.min_self, List.mem_cons]
    constructor
    · intro h
      rcases foldl_min_mem xs x with h' | h'
      · left; omega
      · right; rw [h] at h'; exact h'
    · intro h
      have := foldl_min_le xs x
      rcases h with h | h
      · omega
      · have := this.2 0 h; omega

theorem foldl_max_ge' (l : List Nat) (m0 : Nat) :
    m0 ≤ l.foldl max m0 ∧ ∀ v ∈ l, v ≤ l.foldl max m0 := by
  induction l generalizing m0 with
  | nil => simp
  | cons x xs ih =>
    simp only [List.foldl_cons, List.mem_cons, forall_eq_or_imp]
    have := ih (max m0 x)
    exact ⟨by omega, by omega, this.2⟩

theorem foldl_max_mem (l : List Nat) (m0 : Nat) : l.foldl max m0 = m0 ∨ l.foldl max m0 ∈ l := by
  induction l generalizing m0 with
  | nil => simp
  | cons x xs ih =>
    simp only [List.foldl_cons, List.mem_cons]
    rcases ih (max m0 x) with h | h
    · rw [h]; omega
    · right; right; exact h

/-- `max(values) == m` for a non-empty list of naturals: `m` occurs and bounds the list. -/
theorem foldl_max_eq_iff (l : List Nat) (hne : l ≠ []) (m : Nat) :
    l.foldl max 0 = m ↔ (∀ v ∈ l, v ≤ m) ∧ m ∈ l := by
  constructor
  · intro h
    have hge := (foldl_max_ge' l 0).2
    rw [h] at hge
    refine ⟨hge, ?_⟩
    rcases foldl_max_mem l 0 with h' | h'
    · cases l with
      | nil => exact absurd rfl hne
      | cons x xs =>
        have : x ≤ m := hge x (List.mem_cons_self)
        have : x = m := by omega
        rw [this]; exact List.mem_cons_self
    · rw [h] at h'; exact h'
  · rintro ⟨h1, h2⟩
    have hge := (foldl_max_ge' l 0).2 m h2
    rcases foldl_max_mem l 0 with h' | h'
    · omega
    · have := h1 _ h'; omega

/-! ### the checks, as propositions -/

/-- All checks of `get_subgraph` pass. -/
def ChecksOK (g : G) (loc : List Nat) (r : List (Nat × Nat)) : Prop :=
  (loc.Nodup ∧ ∀ q ∈ loc, q < g.n) ∧ r.length = loc.length ∧
  (∀ q, q ∈ r.map (·.1) ↔ q ∈ loc) ∧ loc ≠ [] ∧
  ((∀ v ∈ r.map (·.2), v ≤ loc.length - 1) ∧ 0 ∈ r.map (·.2) ∧ (loc.length - 1) ∈ r.map (·.2))

theorem keysCheck_iff (keys loc : List Nat) :
    (keys.all loc.contains && loc.all keys.contains) = true ↔ ∀ q, q ∈ keys ↔ q ∈ loc := by
  simp only [Bool.and_eq_true, List.all_eq_true, List.contains_iff_mem]
  exact ⟨fun h q => ⟨h.1 q, h.2 q⟩, fun h => ⟨fun q => (h q).1, fun q => (h q).2⟩⟩

theorem checksB_iff (g : G) (loc : List Nat) (r : List (Nat × Nat)) :
    checksB g loc r = true ↔ ChecksOK g loc r := by
  unfold checksB ChecksOK
  simp only [Bool.and_eq_true, validLocation_iff, beq_iff_eq, Bool.not_eq_true',
    List.isEmpty_eq_false_iff]
  constructor
  · rintro ⟨⟨⟨⟨⟨h1, h1'⟩, h2⟩, h3⟩, h4⟩, h5, h6⟩
    have hne : r.map (·.2) ≠ [] := by
      intro e
      have := congrArg List.length e
      simp only [List.length_map, List.length_nil] at this
      have : loc.length = 0 := by omega
      exact h4 (List.eq_nil_of_length_eq_zero this)
    rw [foldl_min_head_eq_zero_iff _ hne] at h5
    rw [foldl_max_eq_iff _ hne] at h6
    exact ⟨⟨h1', h1⟩, h2, (keysCheck_iff _ _).1 ((Bool.and_eq_true _ _).mpr h3), h4, h6.1, h5, h6.2⟩
  · rintro ⟨⟨h1', h1⟩, h2, h3, h4, h6, h5, h7⟩
    have hne : r.map (·.2) ≠ [] := List.ne_nil_of_mem h5
    refine ⟨⟨⟨⟨⟨h1, h1'⟩, h2⟩, (Bool.and_eq_true _ _).mp ((keysCheck_iff _ _).2 h3)⟩, h4⟩, ?_, ?_⟩
    · rw [foldl_min_head_eq_zero_iff _ hne]; exact h5
    · rw [foldl_max_eq_iff _ hne]; exact ⟨h6, h7⟩


/-! ### the raw edge list -/

theorem mem_subRaw (g : G) (hwf : g.WF) (loc : List Nat) (r : List (Nat × Nat)) (e : Nat × Nat) :
    e ∈ subRaw g loc r ↔
      ∃ a ∈ loc, ∃ b ∈ loc, g.hasEdge a b = true ∧ e = (lookup r a, lookup r b) := by
  unfold subRaw
  simp only [List.mem_flatMap, List.mem_map, List.mem_filter, List.contains_iff_mem,
    G.mem_adj_wf g hwf]
  constructor
  · rintro ⟨a, ha, b, ⟨hab, hb⟩, rfl⟩
    exact ⟨a, ha, b, hb, hab, rfl⟩
  · rintro ⟨a, ha, b, hb, hab, rfl⟩
    exact ⟨a, ha, b, ⟨hab, hb⟩, rfl⟩

theorem rawMax_lt (raw : List (Nat × Nat)) (k : Nat) (hk : 0 < k)
    (h : ∀ e ∈ raw, e.1 < k ∧ e.2 < k) : rawMax raw < k := by
  unfold rawMax
  rcases foldl_max_attained raw 0 with h0 | ⟨e, he, h1 | h1⟩
  · omega
  · have := h e he; omega
  · have := h e he; omega

theorem lookup_lt_of_checks {g : G} {loc : List Nat} {r : List (Nat × Nat)}
    (hc : ChecksOK g loc r) {a : Nat} (ha : a ∈ loc) : lookup r a < loc.length := by
  obtain ⟨_, _, hk, hne, hle, _, _⟩ := hc
  have := hle _ (lookup_mem_vals r a ((hk a).2 ha))
  have : 0 < loc.length := List.length_pos_iff.2 hne
  omega

theorem subRaw_lt (g : G) (hwf : g.WF) (loc : List Nat) (r : List (Nat × Nat))
    (hc : ChecksOK g loc r) : ∀ e ∈ subRaw g loc r, e.1 < loc.length ∧ e.2 < loc.length := by
  intro e he
  obtain ⟨a, ha, b, hb, _, rfl⟩ := (mem_subRaw g hwf loc r e).1 he
  exact ⟨lookup_lt_of_checks hc ha, lookup_lt_of_checks hc hb⟩

/-- two adjacent vertices of `loc` receive the same number -/
def Merged (g : G) (loc : List Nat) (r : List (Nat × Nat)) : Prop :=
  ∃ a ∈ loc, ∃ b ∈ loc, g.hasEdge a b = true ∧ lookup r a = lookup r b

theorem subgraph_none_of_not_checks (g : G) (loc : List Nat) (r : List (Nat × Nat))
    (hc : ¬ ChecksOK g loc r) : g.subgraph loc (some r) = none := by
  rw [subgraph_eq]
  have : checksB g loc r = false := by
    cases h : checksB g loc r
    · rfl
    · exact absurd ((checksB_iff g loc r).1 h) hc
  simp [this]

theorem subgraph_some_of_checks (g : G) (hwf : g.WF) (loc : List Nat) (r : List (Nat × Nat))
    (hc : ChecksOK g loc r) (hm : ¬ Merged g loc r) :
    g.subgraph loc (some r) = some ⟨loc.length, ((subRaw g loc r).map norm).eraseDups⟩ := by
  rw [subgraph_eq, (checksB_iff g loc r).2 hc, if_pos rfl, mk?_some_iff]
  refine ⟨?_, ?_, rfl⟩
  · intro e he h
    obtain ⟨a, ha, b, hb, hab, rfl⟩ := (mem_subRaw g hwf loc r e).1 he
    exact hm ⟨a, ha, b, hb, hab, h⟩
  · exact rawMax_lt _ _ (List.length_pos_iff.2 hc.2.2.2.1) (subRaw_lt g hwf loc r hc)

theorem subgraph_none_of_merged (g : G) (hwf : g.WF) (loc : List Nat) (r : List (Nat × Nat))
    (hm : Merged g loc r) : g.subgraph loc (some r) = none := by
  rw [subgraph_eq]
  split
  · cases h : mk? (subRaw g loc r) (some loc.length) with
    | none => rfl
    | some h' =>
      exfalso
      obtain ⟨a, ha, b, hb, hab, e⟩ := hm
      exact ((mk?_some_iff _ _ _).1 h).1 (lookup r a, lookup r b)
        ((mem_subRaw g hwf loc r _).2 ⟨a, ha, b, hb, hab, rfl⟩) e
  · rfl


/-! ### bijective renumbering: the induced subgraph -/

theorem checksOK_of_perm (g : G) (loc : List Nat) (ren : List (Nat × Nat))
    (hne : loc ≠ []) (hnd : loc.Nodup) (hlt : ∀ q ∈ loc, q < g.n)
    (hkeys : (ren.map (·.1)).Perm loc)
    (hvals : (ren.map (·.2)).Perm (List.range loc.length)) : ChecksOK g loc ren := by
  have hpos : 0 < loc.length := List.length_pos_iff.2 hne
  refine ⟨⟨hnd, hlt⟩, ?_, fun q => hkeys.mem_iff, hne, ?_, ?_, ?_⟩
  · have := hkeys.length_eq
    simpa using this
  · intro v hv
    have := List.mem_range.1 (hvals.mem_iff.1 hv)
    omega
  · exact hvals.mem_iff.2 (List.mem_range.2 hpos)
  · exact hvals.mem_iff.2 (List.mem_range.2 (by omega))

/-- bijective renumbering: the induced subgraph, renumbered -/
theorem subgraph_spec (g : G) (hwf : g.WF) (loc : List Nat) (ren : List (Nat × Nat))
    (hne : loc ≠ []) (hnd : loc.Nodup) (hlt : ∀ q ∈ loc, q < g.n)
    (hkeys : (ren.map (·.1)).Perm loc)
    (hvals : (ren.map (·.2)).Perm (List.range loc.length)) :
    ∃ h, g.subgraph loc (some ren) = some h ∧ h.n = loc.length ∧ h.WF ∧
      (∀ a b, a ∈ loc → b ∈ loc → h.hasEdge (lookup ren a) (lookup ren b) = g.hasEdge a b) ∧
      (∀ x y, h.hasEdge x y = true →
         ∃ a ∈ loc, ∃ b ∈ loc, x = lookup ren a ∧ y = lookup ren b ∧ g.hasEdge a b = true) := by
  have hc := checksOK_of_perm g loc ren hne hnd hlt hkeys hvals
  have hvnd : (ren.map (·.2)).Nodup := hvals.nodup_iff.2 List.nodup_range
  have hinj : ∀ a b, a ∈ loc → b ∈ loc → lookup ren a = lookup ren b → a = b :=
    fun a b ha hb h => lookup_inj ren hvnd a b (hkeys.mem_iff.2 ha) (hkeys.mem_iff.2 hb) h
  have hm : ¬ Merged g loc ren := by
    rintro ⟨a, ha, b, hb, hab, e⟩
    exact (g.hasEdge_lt hwf hab).1 (hinj a b ha hb e)
  have hself : ∀ e ∈ subRaw g loc ren, e.1 ≠ e.2 := by
    intro e he h
    obtain ⟨a, ha, b, hb, hab, rfl⟩ := (mem_subRaw g hwf loc ren e).1 he
    exact hm ⟨a, ha, b, hb, hab, h⟩
  refine ⟨_, subgraph_some_of_checks g hwf loc ren hc hm, rfl,
    wf_mk _ _ hself (subRaw_lt g hwf loc ren hc), ?_, ?_⟩
  · intro a b ha hb
    rw [Bool.eq_iff_iff, hasEdge_mk]
    constructor
    · rintro ⟨e, he, h⟩
      obtain ⟨a', ha', b', hb', hab', rfl⟩ := (mem_subRaw g hwf loc ren e).1 he
      rcases h with h | h
      · have h := Prod.mk.inj h
        rw [← hinj _ _ ha' ha h.1, ← hinj _ _ hb' hb h.2]; exact hab'
      · have h := Prod.mk.inj h
        rw [← hinj _ _ ha' hb h.1, ← hinj _ _ hb' ha h.2, G.hasEdge_comm]; exact hab'
    · intro hab
      exact ⟨_, (mem_subRaw g hwf loc ren _).2 ⟨a, ha, b, hb, hab, rfl⟩, Or.inl rfl⟩
  · intro x y hxy
    rw [hasEdge_mk] at hxy
    obtain ⟨e, he, h⟩ := hxy
    obtain ⟨a, ha, b, hb, hab, rfl⟩ := (mem_subRaw g hwf loc ren e).1 he
    rcases h with h | h
    · have h := Prod.mk.inj h
      exact ⟨a, ha, b, hb, h.1.symm, h.2.symm, hab⟩
    · have h := Prod.mk.inj h
      exact ⟨b, hb, a, ha, h.2.symm, h.1.symm, by rw [G.hasEdge_comm]; exact hab⟩

example : ∃ h, (G.mk 4 [(0, 1), (1, 2), (2, 3)]).subgraph [3, 1, 2] (some [(1, 0), (2, 1), (3, 2)])
    = some h ∧ h = ⟨3, [(1, 2), (0, 1)]⟩ := by decide
/-- non-vacuity of `subgraph_spec` -/
example : let g : G := ⟨4, [(0, 1), (1, 2), (2, 3)]⟩
    let loc := [3, 1, 2]
    let ren := [(1, 0), (2, 1), (3, 2)]
    g.WF ∧ loc ≠ [] ∧ loc.Nodup ∧ (∀ q ∈ loc, q < g.n) ∧
    (ren.map (·.1)).Perm loc ∧ (ren.map (·.2)).Perm (List.range loc.length) := by
  refine ⟨by unfold G.WF; decide, by decide, by decide, by decide, ?_, ?_⟩ <;> decide


/-! ### the default renumbering -/

theorem idxOf_getElem_of_nodup (l : List Nat) (hnd : l.Nodup) (i : Nat) (hi : i < l.length) :
    l.idxOf l[i] = i := by
  induction l generalizing i with
  | nil => simp at hi
  | cons x xs ih =>
    rw [List.nodup_cons] at hnd
    cases i with
    | zero => simp
    | succ j =>
      simp only [List.getElem_cons_succ, List.idxOf_cons]
      have hj : j < xs.length := by simpa using hi
      have : x ≠ xs[j] := fun e => hnd.1 (e ▸ List.getElem_mem hj)
      have hb : (x == xs[j]) = false := by simpa using this
      rw [hb, cond_false, ih hnd.2 j hj]

/-- the default renumbering instance: vertex `loc[i]` becomes `i` -/
theorem subgraph_default_spec (g : G) (hwf : g.WF) (loc : List Nat)
    (hne : loc ≠ []) (hnd : loc.Nodup) (hlt : ∀ q ∈ loc, q < g.n) :
    ∃ h, g.subgraph loc none = some h ∧ h.n = loc.length ∧ h.WF ∧
      ∀ i j, i < loc.length → j < loc.length →
        h.hasEdge i j = g.hasEdge (loc.getD i 0) (loc.getD j 0) := by
  have hkeys : (loc.zipIdx.map (·.1)).Perm loc := by
    have : loc.zipIdx.map (·.1) = loc := List.zipIdx_map_fst 0 loc
    rw [this]
  have hvals : (loc.zipIdx.map (·.2)).Perm (List.range loc.length) := by
    have : loc.zipIdx.map (·.2) = List.range loc.length := by
      rw [List.range_eq_range']; exact List.zipIdx_map_snd 0 loc
    rw [this]
  obtain ⟨h, h1, h2, h3, h4, _⟩ := subgraph_spec g hwf loc loc.zipIdx hne hnd hlt hkeys hvals
  refine ⟨h, by rw [subgraph_default]; exact h1, h2, h3, ?_⟩
  intro i j hi hj
  have hgi : loc.getD i 0 = loc[i] := by simp [hi]
  have hgj : loc.getD j 0 = loc[j] := by simp [hj]
  have := h4 loc[i] loc[j] (List.getElem_mem hi) (List.getElem_mem hj)
  rw [lookup_zipIdx _ _ (List.getElem_mem hi), lookup_zipIdx _ _ (List.getElem_mem hj),
    idxOf_getElem_of_nodup loc hnd i hi, idxOf_getElem_of_nodup loc hnd j hj] at this
  rw [hgi, hgj]; exact this

/-- non-vacuity of `subgraph_default_spec` -/
example : let g : G := ⟨4, [(0, 1), (1, 2), (2, 3)]⟩
    let loc := [3, 1, 2]
    g.WF ∧ loc ≠ [] ∧ loc.Nodup ∧ (∀ q ∈ loc, q < g.n) ∧
      g.subgraph loc none = some ⟨3, [(0, 2), (1, 2)]⟩ := by
  refine ⟨by unfold G.WF; decide, by decide, by decide, by decide, by decide⟩

/-! ### the "permutation" check of the code is too weak -/

/-- `min(values) == 0 and max(values) == len - 1` accepts the non-injective renumbering
`{0:0, 1:2, 2:2}`: no exception, vertices 1 and 2 are merged into vertex 2 and the
returned graph has the isolated vertex 1. -/
theorem subgraph_weak_check_witness :
    (G.mk 3 [(0, 1)]).subgraph [0, 1, 2] (some [(0, 0), (1, 2), (2, 2)]) = some ⟨3, [(0, 2)]⟩ := by
  decide

/-- and when the merged vertices are adjacent the constructor raises (self loop) -/
theorem subgraph_weak_check_witness_raise :
    (G.mk 3 [(1, 2)]).subgraph [0, 1, 2] (some [(0, 0), (1, 2), (2, 2)]) = none := by
  decide


/-! ### exact error cases -/

/-- exact error cases: `none` iff one of the checks of the code fails, or all pass and two
adjacent vertices are merged (then the constructor raises).  (The hypothesis "keys of the dict
are distinct" is not needed.) -/
theorem subgraph_none_iff (g : G) (hwf : g.WF) (loc : List Nat) (ren : List (Nat × Nat)) :
    g.subgraph loc (some ren) = none ↔
      (¬ (loc.Nodup ∧ ∀ q ∈ loc, q < g.n))                       -- TypeError: invalid location
      ∨ ren.length ≠ loc.length                                   -- ValueError: size
      ∨ ¬ (∀ q, q ∈ ren.map (·.1) ↔ q ∈ loc)                      -- ValueError: keys
      ∨ loc = []                                                  -- ValueError from min() of empty
      ∨ ¬ ((∀ v ∈ ren.map (·.2), v ≤ loc.length - 1) ∧ 0 ∈ ren.map (·.2) ∧
            (loc.length - 1) ∈ ren.map (·.2))                     -- min = 0, max = len-1
      ∨ (∃ a ∈ loc, ∃ b ∈ loc, g.hasEdge a b = true ∧ lookup ren a = lookup ren b) := by
  constructor
  · intro hnone
    by_cases h1 : loc.Nodup ∧ ∀ q ∈ loc, q < g.n
    case neg => exact Or.inl h1
    by_cases h2 : ren.length = loc.length
    case neg => exact Or.inr (Or.inl h2)
    by_cases h3 : ∀ q, q ∈ ren.map (·.1) ↔ q ∈ loc
    case neg => exact Or.inr (Or.inr (Or.inl h3))
    by_cases h4 : loc = []
    case pos => exact Or.inr (Or.inr (Or.inr (Or.inl h4)))
    by_cases h5 : (∀ v ∈ ren.map (·.2), v ≤ loc.length - 1) ∧ 0 ∈ ren.map (·.2) ∧
            (loc.length - 1) ∈ ren.map (·.2)
    case neg => exact Or.inr (Or.inr (Or.inr (Or.inr (Or.inl h5))))
    by_cases h6 : Merged g loc ren
    case pos => exact Or.inr (Or.inr (Or.inr (Or.inr (Or.inr h6))))
    have := subgraph_some_of_checks g hwf loc ren ⟨h1, h2, h3, h4, h5⟩ h6
    rw [hnone] at this
    exact absurd this (by simp)
  · rintro (h | h | h | h | h | h)
    · exact subgraph_none_of_not_checks g loc ren (fun hc => h hc.1)
    · exact subgraph_none_of_not_checks g loc ren (fun hc => h hc.2.1)
    · exact subgraph_none_of_not_checks g loc ren (fun hc => h hc.2.2.1)
    · exact subgraph_none_of_not_checks g loc ren (fun hc => hc.2.2.2.1 h)
    · exact subgraph_none_of_not_checks g loc ren (fun hc => h hc.2.2.2.2)
    · exact subgraph_none_of_merged g hwf loc ren h

/-- every disjunct of `subgraph_none_iff` is realised while the earlier ones are not -/
example : (G.mk 3 [(0, 1)]).subgraph [0, 0] (some [(0, 0), (0, 1)]) = none := by decide
example : (G.mk 3 [(0, 1)]).subgraph [0, 3] (some [(0, 0), (3, 1)]) = none := by decide
example : (G.mk 3 [(0, 1)]).subgraph [0, 1] (some [(0, 0)]) = none := by decide
example : (G.mk 3 [(0, 1)]).subgraph [0, 1] (some [(0, 0), (2, 1)]) = none := by decide
example : (G.mk 3 [(0, 1)]).subgraph [] (some []) = none := by decide
example : (G.mk 3 [(0, 1)]).subgraph [0, 1] (some [(0, 1), (1, 2)]) = none := by decide
example : (G.mk 3 [(0, 1)]).subgraph [0, 1] (some [(0, 0), (1, 0)]) = none := by decide
example : (G.mk 3 [(0, 1)]).subgraph [0, 1, 2] (some [(0, 0), (1, 0), (2, 2)]) = none := by decide
example : (G.mk 3 [(0, 1)]).subgraph [0, 1] (some [(0, 1), (1, 0)]) = some ⟨2, [(0, 1)]⟩ := by
  decide

/-- the general (possibly non-injective) accepted case: the quotient graph -/
theorem subgraph_quotient_spec (g : G) (hwf : g.WF) (loc : List Nat) (ren : List (Nat × Nat))
    (hc : ChecksOK g loc ren)
    (hm : ¬ ∃ a ∈ loc, ∃ b ∈ loc, g.hasEdge a b = true ∧ lookup ren a = lookup ren b) :
    ∃ h, g.subgraph loc (some ren) = some h ∧ h.n = loc.length ∧ h.WF ∧
      ∀ x y, h.hasEdge x y = true ↔
        ∃ a ∈ loc, ∃ b ∈ loc, x = lookup ren a ∧ y = lookup ren b ∧ g.hasEdge a b = true := by
  have hself : ∀ e ∈ subRaw g loc ren, e.1 ≠ e.2 := by
    intro e he h
    obtain ⟨a, ha, b, hb, hab, rfl⟩ := (mem_subRaw g hwf loc ren e).1 he
    exact hm ⟨a, ha, b, hb, hab, h⟩
  refine ⟨_, subgraph_some_of_checks g hwf loc ren hc hm, rfl,
    wf_mk _ _ hself (subRaw_lt g hwf loc ren hc), ?_⟩
  intro x y
  rw [hasEdge_mk]
  constructor
  · rintro ⟨e, he, h⟩
    obtain ⟨a, ha, b, hb, hab, rfl⟩ := (mem_subRaw g hwf loc ren e).1 he
    rcases h with h | h
    · have h := Prod.mk.inj h
      exact ⟨a, ha, b, hb, h.1.symm, h.2.symm, hab⟩
    · have h := Prod.mk.inj h
      exact ⟨b, hb, a, ha, h.2.symm, h.1.symm, by rw [G.hasEdge_comm]; exact hab⟩
  · rintro ⟨a, ha, b, hb, rfl, rfl, hab⟩
    exact ⟨_, (mem_subRaw g hwf loc ren _).2 ⟨a, ha, b, hb, hab, rfl⟩, Or.inl rfl⟩

/-- non-vacuity of `subgraph_quotient_spec` (the instance of `subgraph_weak_check_witness`) -/
example : let g : G := ⟨3, [(0, 1)]⟩
    let loc := [0, 1, 2]
    let ren := [(0, 0), (1, 2), (2, 2)]
    g.WF ∧ ChecksOK g loc ren ∧
      ¬ ∃ a ∈ loc, ∃ b ∈ loc, g.hasEdge a b = true ∧ lookup ren a = lookup ren b := by
  refine ⟨by unfold G.WF; decide, (checksB_iff _ _ _).1 (by decide), by decide⟩

/-- with the default renumbering the only errors are an invalid or empty location -/
theorem subgraph_default_none_iff (g : G) (hwf : g.WF) (loc : List Nat) :
    g.subgraph loc none = none ↔ ¬ (loc.Nodup ∧ ∀ q ∈ loc, q < g.n) ∨ loc = [] := by
  constructor
  · intro hnone
    by_cases h1 : loc.Nodup ∧ ∀ q ∈ loc, q < g.n
    case neg => exact Or.inl h1
    by_cases h4 : loc = []
    case pos => exact Or.inr h4
    obtain ⟨h, hh, _⟩ := subgraph_default_spec g hwf loc h4 h1.1 h1.2
    rw [hnone] at hh
    exact absurd hh (by simp)
  · intro h
    rw [subgraph_default, subgraph_none_iff g hwf]
    rcases h with h | h
    · exact Or.inl h
    · exact Or.inr (Or.inr (Or.inr (Or.inl h)))


/-! ### remaining non-vacuity instances -/
/-- `lookup_zipIdx` -/
example : (2 : Nat) ∈ [3, 1, 2] ∧ lookup [3, 1, 2].zipIdx 2 = 2 := by decide
/-- the guard `a ∈ loc` of `lookup_zipIdx` is needed: `lookup` defaults to 0, `idxOf` to the length -/
example : lookup [3, 1, 2].zipIdx 7 = 0 ∧ [3, 1, 2].idxOf 7 = 3 := by decide
/-- `subgraph_none_iff`, `subgraph_default_none_iff` (graph of the examples above) -/
example : (G.mk 3 [(0, 1)]).WF := by unfold G.WF; decide

end BqVerif.Graph
