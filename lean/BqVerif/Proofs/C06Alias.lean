/-
Parameter writes alias through shared `Operation` objects (`writeAliases`).  When no object
occupies two grid entries (`Circ.OidsDistinct`) the model's `set_param` / `set_params` are the
positional versions of `C06Params.lean`, so all its theorems transfer.
-/
import BqVerif.Proofs.C06Params

namespace BqVerif.CircSim
open BqVerif.Tensor

variable {P α : Type}

theorem writeAliases_of_not_mem (oid : Nat) (f : GOp P α → GOp P α) (ops : List (Nat × GOp P α))
    (h : ∀ e ∈ ops, e.2.oid ≠ oid) : writeAliases oid f ops = ops := by
  induction ops with
  | nil => rfl
  | cons x xs ih =>
    have hx := h x (by simp)
    have := ih (fun e he => h e (by simp [he]))
    unfold writeAliases at this ⊢
    rw [List.map_cons, this]
    simp [hx]

theorem writeAliases_append (oid : Nat) (f : GOp P α → GOp P α) (a b : List (Nat × GOp P α)) :
    writeAliases oid f (a ++ b) = writeAliases oid f a ++ writeAliases oid f b := by
  simp [writeAliases]

theorem writeAliases_cons_self (f : GOp P α → GOp P α) (e : Nat × GOp P α)
    (ops : List (Nat × GOp P α)) :
    writeAliases e.2.oid f (e :: ops) = (e.1, f e.2) :: writeAliases e.2.oid f ops := by
  simp [writeAliases]

/-- the entry itself is the only alias when the oids are distinct -/
theorem writeAliases_at (f : GOp P α → GOp P α) (pre post : List (Nat × GOp P α))
    (e : Nat × GOp P α) (hd : ((pre ++ e :: post).map (·.2.oid)).Nodup) :
    writeAliases e.2.oid f (pre ++ e :: post) = pre ++ (e.1, f e.2) :: post := by
  rw [List.map_append, List.map_cons, List.nodup_append] at hd
  obtain ⟨_, h2, h3⟩ := hd
  rw [List.nodup_cons] at h2
  rw [writeAliases_append, writeAliases_cons_self,
    writeAliases_of_not_mem _ _ pre, writeAliases_of_not_mem _ _ post]
  · intro x hx hxe
    exact h2.1 (by rw [← hxe]; exact List.mem_map_of_mem hx)
  · intro x hx hxe
    exact h3 _ (List.mem_map_of_mem hx) _ (by simp) hxe

theorem writeAliases_eq_modifyAt (f : GOp P α → GOp P α) (cycle qudit : Nat) :
    ∀ (ops : List (Nat × GOp P α)) (e : Nat × GOp P α), (ops.map (·.2.oid)).Nodup →
      ops.find? (fun e => e.1 == cycle && e.2.loc.contains qudit) = some e →
      writeAliases e.2.oid f ops = modifyAt cycle qudit f ops := by
  intro ops
  induction ops with
  | nil => intro e _ h; simp at h
  | cons x xs ih =>
    intro e hd hfind
    rw [List.map_cons, List.nodup_cons] at hd
    rw [List.find?_cons] at hfind
    unfold modifyAt
    by_cases hx : (x.1 == cycle && x.2.loc.contains qudit) = true
    · rw [hx] at hfind
      simp only [Option.some.injEq] at hfind
      subst hfind
      rw [if_pos hx, writeAliases_cons_self, writeAliases_of_not_mem]
      intro y hy hyo
      exact hd.1 (by rw [← hyo]; exact List.mem_map_of_mem hy)
    · have hx' : (x.1 == cycle && x.2.loc.contains qudit) = false := by simpa using hx
      rw [hx'] at hfind
      have hmem : e ∈ xs := List.mem_of_find?_eq_some hfind
      have hne : x.2.oid ≠ e.2.oid := fun h => hd.1 (by rw [h]; exact List.mem_map_of_mem hmem)
      rw [if_neg hx, ← ih e hd.2 hfind]
      simp [writeAliases, hne]

theorem setParam_eq_val {c : Circ P α} (hd : c.OidsDistinct) (i : Int) (v : P) :
    c.setParam i v = c.setParamVal i v := by
  unfold Circ.setParam Circ.setParamVal
  cases h1 : c.getParamLocation i with
  | error e => rfl
  | ok r =>
    obtain ⟨cy, q, k⟩ := r
    simp only [bind, Except.bind]
    cases h2 : c.getOp cy q with
    | error e => rfl
    | ok op =>
      simp only
      unfold Circ.getOp at h2
      split at h2
      · cases h2
      · split at h2
        · rename_i e hfind
          simp only [Except.ok.injEq] at h2
          subst h2
          rw [writeAliases_eq_modifyAt _ cy q c.ops e hd hfind]
        · cases h2

theorem setParamsLoop_eq_val (ps : List P) :
    ∀ (todo : List (Nat × GOp P α)) (idx : Nat) (pre : List (Nat × GOp P α)),
      ((pre ++ todo).map (·.2.oid)).Nodup →
      setParamsLoop ps todo idx (pre ++ todo)
        = Except.map (fun l => pre ++ l) (setParamsLoopVal ps todo idx) := by
  intro todo
  induction todo with
  | nil => intro idx pre _; simp [setParamsLoop, setParamsLoopVal, Except.map]
  | cons e rest ih =>
    intro idx pre hd
    obtain ⟨cy, op⟩ := e
    rw [setParamsLoop, setParamsLoopVal]
    by_cases hs : ((ps.drop idx).take op.numParams).length ≠ op.numParams
    · rw [if_pos hs, if_pos hs]; rfl
    · rw [if_neg hs, if_neg hs]
      simp only [bind, Except.bind]
      have hw := writeAliases_at (fun o => { o with params := (ps.drop idx).take op.numParams })
        pre rest (cy, op) hd
      simp only at hw
      rw [hw]
      have hd' : (((pre ++ [(cy, { op with params := (ps.drop idx).take op.numParams })]) ++ rest).map
          (fun e : Nat × GOp P α => e.2.oid)).Nodup := by
        simpa using hd
      have := ih (idx + op.numParams)
        (pre ++ [(cy, { op with params := (ps.drop idx).take op.numParams })]) hd'
      rw [List.append_assoc, List.singleton_append] at this
      rw [this]
      cases setParamsLoopVal ps rest (idx + op.numParams) with
      | error e => rfl
      | ok l => simp [Except.map, pure, Except.pure]

theorem setParams_eq_val {c : Circ P α} (hd : c.OidsDistinct) (ps : List P) :
    c.setParams ps = c.setParamsVal ps := by
  unfold Circ.setParams Circ.setParamsVal
  have := setParamsLoop_eq_val ps c.ops 0 [] (by simpa [Circ.OidsDistinct] using hd)
  simp only [List.nil_append] at this
  rw [this]
  cases setParamsLoopVal ps c.ops 0 with
  | error e => rfl
  | ok l => simp [Except.map]

/-- `ValueError` on a length mismatch, aliasing or not. -/
theorem setParams_len_err (c : Circ P α) (ps : List P) (h : ps.length ≠ c.numParams) :
    c.setParams ps = .error .valueError := by
  unfold Circ.setParams
  simp [h, bind, Except.bind]
  rfl

end BqVerif.CircSim
