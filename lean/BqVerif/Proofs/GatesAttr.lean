import Mathlib.Tactic.Attr.Register
/-! simp set collecting the definitional unfoldings of the gate model (C18) -/
register_simp_attr gate_defs
