import BqVerif.Model.Control
import BqVerif.Proofs.Control
import BqVerif.Proofs.ForEach
import Mathlib.Data.List.Nodup
/-!
# ForEachBlockPass and the parameters of block operations

A block operation `o` of the model carries its own flat parameter vector `o.par`; the table
`Blocks` maps the gate id to the *structure* of the circuit frozen inside the `CircuitGate`
(`CircuitGate.__eq__` ignores nothing else, the frozen values play no role for the operation).
What the operation means is `expandOp bl o`: the body in iteration order, parameters taken from
`o.par`, relabelled through `o.loc`.

This file proves
* `setParams_iter`        the sub-circuit `setParams body ps` iterates as `distribute body.iter ps`
                          (so `subCircuit bl o` — what ForEachBlockPass hands to the body — is the
                          block's circuit WITH the operation's parameters: `expandOp_subCircuit`),
* `expandOp_writeback`    the operation written back for a result circuit `new`
                          (`CircuitGate(new)` interned into the table, parameters `new.params`, on
                          the block's location) expands to exactly `new`'s operations on that
                          location, whatever the table held before,
* `internBlock_*`         interning only adds a fresh name: names stay unique and every older name
                          keeps its body,
* `fePost_sem`            the invariant of the post-processing fold,
and, from these, `feFinish_identity_semantics`: when every body returns the circuit it was handed,
the full expansion of the circuit after the pass equals the one before, for all parameter vectors.
-/
namespace BqVerif.Circ

/-! ## sorting by a key that a map preserves -/
theorem insertBy_map (key : Op → Nat) (f : Op → Op) (hf : ∀ o, key (f o) = key o) (x : Op) (l : List Op) :
    insertBy key (f x) (l.map f) = (insertBy key x l).map f := by
  induction l with
  | nil => rfl
  | cons y ys ih =>
    simp only [List.map_cons, insertBy, hf]
    split
    · rfl
    · simp [ih]

theorem sortBy_map (key : Op → Nat) (f : Op → Op) (hf : ∀ o, key (f o) = key o) (l : List Op) :
    sortBy key (l.map f) = (sortBy key l).map f := by
  induction l with
  | nil => rfl
  | cons x xs ih =>
    simp only [sortBy, List.map_cons, List.foldr_cons] at ih ⊢
    rw [ih, insertBy_map key f hf]

theorem insertBy_of_le (key : Op → Nat) (x : Op) (l : List Op) (h : ∀ y ∈ l, key x ≤ key y) :
    insertBy key x l = x :: l := by
  cases l with
  | nil => rfl
  | cons y ys => simp [insertBy, h y (by simp)]

/-- a list whose keys are already in order is its own sort -/
theorem sortBy_of_sorted (key : Op → Nat) (l : List Op) (h : l.Pairwise (fun a b => key a ≤ key b)) :
    sortBy key l = l := by
  induction l with
  | nil => rfl
  | cons x xs ih =>
    rw [List.pairwise_cons] at h
    simp only [sortBy, List.foldr_cons] at ih ⊢
    rw [ih h.2, insertBy_of_le key x xs h.1]

theorem insertBy_sorted (key : Op → Nat) (x : Op) (l : List Op)
    (h : l.Pairwise (fun a b => key a ≤ key b)) :
    (insertBy key x l).Pairwise (fun a b => key a ≤ key b) := by
  induction l with
  | nil => simp [insertBy]
  | cons y ys ih =>
    rw [List.pairwise_cons] at h
    simp only [insertBy]
    split
    · rename_i hxy
      rw [List.pairwise_cons]
      refine ⟨?_, List.pairwise_cons.mpr h⟩
      intro z hz
      rcases List.mem_cons.mp hz with rfl | hz
      · exact hxy
      · exact Nat.le_trans hxy (h.1 z hz)
    · rename_i hxy
      rw [List.pairwise_cons]
      refine ⟨?_, ih h.2⟩
      intro z hz
      have hp : (insertBy key x ys).Perm (x :: ys) := insertBy_perm key x ys
      rcases List.mem_cons.mp (hp.mem_iff.mp hz) with rfl | hz
      · omega
      · exact h.1 z hz

theorem sortBy_sorted (key : Op → Nat) (l : List Op) :
    (sortBy key l).Pairwise (fun a b => key a ≤ key b) := by
  induction l with
  | nil => simp [sortBy]
  | cons x xs ih =>
    simp only [sortBy, List.foldr_cons] at ih ⊢
    exact insertBy_sorted key x _ ih

/-! ## `distribute` (= `set_params`) -/
/-- number of parameters of an operation list -/
def nPar (l : List Op) : Nat := (l.map (·.par.length)).sum

theorem distribute_append (l1 l2 : List Op) (ps : List Int) :
    distribute (l1 ++ l2) ps = distribute l1 ps ++ distribute l2 (ps.drop (nPar l1)) := by
  induction l1 generalizing ps with
  | nil => simp [distribute, nPar]
  | cons o os ih =>
    simp only [List.cons_append, distribute, ih, nPar, List.map_cons, List.sum_cons, List.drop_drop]

theorem distribute_length (l : List Op) (ps : List Int) : (distribute l ps).length = l.length := by
  induction l generalizing ps with
  | nil => rfl
  | cons o os ih => simp [distribute, ih]

/-- `set_params` changes parameters only: gates, locations, radixes stay -/
theorem distribute_forall₂ (l : List Op) (ps : List Int) :
    List.Forall₂ (fun a b => b.gid = a.gid ∧ b.loc = a.loc ∧ b.rad = a.rad) l (distribute l ps) := by
  induction l generalizing ps with
  | nil => exact .nil
  | cons o os ih => exact .cons ⟨rfl, rfl, rfl⟩ (ih _)

theorem pairwise_of_forall₂ {l l' : List Op} (key : Op → Nat)
    (h : List.Forall₂ (fun a b => key b = key a) l l')
    (hs : l.Pairwise (fun a b => key a ≤ key b)) : l'.Pairwise (fun a b => key a ≤ key b) := by
  induction h with
  | nil => exact .nil
  | @cons a b l l' hab hl ih =>
    rw [List.pairwise_cons] at hs ⊢
    refine ⟨?_, ih hs.2⟩
    intro z hz
    obtain ⟨y, hy, hyz⟩ : ∃ y ∈ l, key z = key y := by
      clear ih hs hab
      induction hl with
      | nil => cases hz
      | @cons a' b' m m' hab' _ ih' =>
        rcases List.mem_cons.mp hz with rfl | hz
        · exact ⟨a', by simp, hab'⟩
        · obtain ⟨y, hy, e⟩ := ih' hz
          exact ⟨y, by simp [hy], e⟩
    rw [hab, hyz]
    exact hs.1 y hy

theorem distribute_sorted (l : List Op) (ps : List Int)
    (hs : l.Pairwise (fun a b => a.head ≤ b.head)) :
    (distribute l ps).Pairwise (fun a b => a.head ≤ b.head) := by
  refine pairwise_of_forall₂ Op.head ?_ hs
  exact (distribute_forall₂ l ps).imp (fun {a b} h => by simp [Op.head, h.2.1])

/-- the re-association of the flat list into the cycles of the grid -/
theorem setParams_go_iter (cs : List Cycle) (ps : List Int)
    (hs : ∀ cy ∈ cs, cy.Pairwise (fun a b => a.head ≤ b.head)) :
    (setParams.go cs (distribute cs.flatten ps)).flatMap (sortBy Op.head) = distribute cs.flatten ps := by
  induction cs generalizing ps with
  | nil => simp [setParams.go, distribute]
  | cons cy rest ih =>
    simp only [List.flatten_cons, setParams.go, List.flatMap_cons, distribute_append]
    have hlen : (distribute cy ps).length = cy.length := distribute_length cy ps
    rw [List.take_left' hlen, List.drop_left' hlen]
    rw [ih _ (fun c hc => hs c (by simp [hc]))]
    rw [sortBy_of_sorted _ _ (distribute_sorted cy ps (hs cy (by simp)))]

/-- **what `set_params` yields iterates as the old circuit with the new parameters**: the
sub-circuit of a block is the gate's circuit carrying the OPERATION's parameters -/
theorem setParams_iter (body : Circ) (ps : List Int) :
    (setParams body ps).iter = distribute body.iter ps := by
  have h := setParams_go_iter (body.cycles.map (sortBy Op.head)) ps
    (by
      intro cy hcy
      obtain ⟨c0, _, rfl⟩ := List.mem_map.mp hcy
      exact sortBy_sorted Op.head c0)
  have hit : body.iter = (body.cycles.map (sortBy Op.head)).flatten := by
    simp [Circ.iter, List.flatMap_def]
  simp only [setParams, Circ.iter]
  rw [← hit] at h
  exact h

/-! ## zeroing and re-reading parameters -/
def Op.zero (o : Op) : Op := { o with par := o.par.map (fun _ => 0) }

theorem zeroParams_iter (c : Circ) : (Control.zeroParams c).iter = c.iter.map Op.zero := by
  simp only [Control.zeroParams, Circ.iter, List.flatMap_map, List.map_flatMap]
  congr 1
  funext cy
  exact sortBy_map Op.head Op.zero (fun o => rfl) cy

/-- reading the parameters of a list back into its zeroed structure gives the list -/
theorem distribute_zero (l : List Op) : distribute (l.map Op.zero) (l.flatMap (·.par)) = l := by
  induction l with
  | nil => rfl
  | cons o os ih =>
    simp only [List.map_cons, List.flatMap_cons, distribute, Op.zero, List.length_map]
    rw [List.take_left' rfl, List.drop_left' rfl, ih]

/-! ## the block table -/
def Blocks.KeysNodup (bl : Blocks) : Prop := (bl.map (·.1)).Nodup

/-- `bl'` knows every name of `bl` with the same body -/
def Blocks.Extends (bl' bl : Blocks) : Prop := ∀ g b, bl.body? g = some b → bl'.body? g = some b

theorem Blocks.Extends.refl (bl : Blocks) : bl.Extends bl := fun _ _ h => h
theorem Blocks.Extends.trans {a b c : Blocks} (h1 : a.Extends b) (h2 : b.Extends c) : a.Extends c :=
  fun g x h => h1 g x (h2 g x h)

theorem body?_of_mem {bl : Blocks} (hnd : bl.KeysNodup) {e : Nat × Circ} (he : e ∈ bl) :
    bl.body? e.1 = some e.2 := by
  induction bl with
  | nil => cases he
  | cons x xs ih =>
    simp only [Blocks.KeysNodup, List.map_cons, List.nodup_cons] at hnd
    simp only [Blocks.body?, List.find?_cons]
    rcases List.mem_cons.mp he with rfl | he
    · simp
    · have hne : (x.1 == e.1) = false := by
        simp only [beq_eq_false_iff_ne, ne_eq]
        intro h
        exact hnd.1 (List.mem_map.mpr ⟨e, he, h.symm⟩)
      simp only [hne]
      exact ih hnd.2 he

theorem le_foldl_max (bl : Blocks) (m : Nat) :
    m ≤ bl.foldl (fun m e => max m e.1) m ∧ ∀ e ∈ bl, e.1 ≤ bl.foldl (fun m e => max m e.1) m := by
  induction bl generalizing m with
  | nil => simp
  | cons x xs ih =>
    simp only [List.foldl_cons]
    obtain ⟨h1, h2⟩ := ih (max m x.1)
    refine ⟨by omega, ?_⟩
    intro e he
    rcases List.mem_cons.mp he with rfl | he
    · omega
    · exact h2 e he

end BqVerif.Circ

namespace BqVerif.Control
open BqVerif.Circ

theorem body?_append_fresh (bl : Blocks) (g : Nat) (z : Circ) (hg : ∀ e ∈ bl, e.1 ≠ g) :
    (bl ++ [(g, z)]).body? g = some z ∧ (bl ++ [(g, z)]).Extends bl := by
  constructor
  · simp only [Blocks.body?, List.find?_append]
    have : bl.find? (fun e => e.1 == g) = none := by
      simp only [List.find?_eq_none, beq_iff_eq]
      exact fun e he => hg e he
    simp [this]
  · intro g' b hb
    simp only [Blocks.body?, List.find?_append] at hb ⊢
    cases hf : bl.find? (fun e => e.1 == g') with
    | none => simp [hf] at hb
    | some e => simpa [hf] using hb

/-- interning a circuit: the returned name denotes its zeroed structure, names stay unique, older
names keep their bodies -/
theorem internBlock_spec (bl : Blocks) (hnd : bl.KeysNodup) (sub : Circ) :
    (internBlock bl sub).1.body? (internBlock bl sub).2 = some (zeroParams sub) ∧
    (internBlock bl sub).1.KeysNodup ∧ (internBlock bl sub).1.Extends bl := by
  unfold internBlock
  simp only
  cases hf : bl.find? (fun e => e.2 == zeroParams sub) with
  | some e =>
    simp only
    have hmem : e ∈ bl := List.mem_of_find?_eq_some hf
    have he : e.2 = zeroParams sub := by
      have := List.find?_some hf
      simpa using this
    exact ⟨by rw [body?_of_mem hnd hmem, he], hnd, Blocks.Extends.refl bl⟩
  | none =>
    simp only
    have hfresh : ∀ e ∈ bl, e.1 ≠ (bl.foldl (fun m e => max m e.1) 999) + 1 := by
      intro e he
      have := (le_foldl_max bl 999).2 e he
      omega
    obtain ⟨h1, h2⟩ := body?_append_fresh bl _ (zeroParams sub) hfresh
    refine ⟨h1, ?_, h2⟩
    simp only [Blocks.KeysNodup, List.map_append, List.map_cons, List.map_nil]
    rw [List.nodup_append]
    refine ⟨hnd, by simp, ?_⟩
    intro a ha b hb
    simp only [List.mem_singleton] at hb
    subst hb
    obtain ⟨e, he, rfl⟩ := List.mem_map.mp ha
    exact hfresh e he

/-- **what is written back means the result circuit.**  The operation ForEachBlockPass writes back for
a result `new` (`Operation(CircuitGate(new), op.location, new.params)`) expands to exactly the
operations of `new` on the block's location, in `new`'s iteration order with `new`'s parameters. -/
theorem expandOp_writeback (bl : Blocks) (hnd : bl.KeysNodup) (new : Circ) (loc : List Nat) :
    expandOp (internBlock bl new).1 (blockOpOf (internBlock bl new).2 new loc) =
      some (new.iter.map (·.mapLoc loc)) := by
  obtain ⟨h1, _, _⟩ := internBlock_spec bl hnd new
  simp only [expandOp, blockOpOf, h1, Option.map_some, zeroParams_iter, distribute_zero]

/-- **what the body is handed means the collected operation**, for every parameter vector of the
operation (the parameters frozen in the gate play no role) -/
theorem expandOp_subCircuit (bl : Blocks) (o : Op) (body : Circ) (hb : bl.body? o.gid = some body) :
    (subCircuit bl o).iter = distribute body.iter o.par ∧
    expandOp bl o = some ((subCircuit bl o).iter.map (·.mapLoc o.loc)) := by
  have h : (subCircuit bl o).iter = distribute body.iter o.par := by
    simp only [subCircuit, hb, setParams_iter]
  exact ⟨h, by simp only [expandOp, hb, Option.map_some, h]⟩

/-- identity body, one block: writing back the sub-circuit unchanged gives an operation with the
expansion of the original one -/
theorem expandOp_identity (bl0 bl : Blocks) (hnd : bl.KeysNodup) (o : Op) (body : Circ)
    (hb : bl0.body? o.gid = some body) :
    expandOp (internBlock bl (subCircuit bl0 o)).1
      (blockOpOf (internBlock bl (subCircuit bl0 o)).2 (subCircuit bl0 o) o.loc) = expandOp bl0 o := by
  rw [expandOp_writeback bl hnd, (expandOp_subCircuit bl0 o body hb).2]

theorem expandOp_extends {bl' bl : Blocks} (h : bl'.Extends bl) (o : Op) (l : List Op)
    (ho : expandOp bl o = some l) : expandOp bl' o = some l := by
  simp only [expandOp] at ho ⊢
  cases hb : bl.body? o.gid with
  | none => simp [hb] at ho
  | some body => rw [h _ _ hb]; simpa [hb] using ho


/-! ## one-level meaning of a circuit and the post-processing fold -/
/-- the operations an operation stands for: its expansion when it is a block, else itself -/
def expand1 (bl : Blocks) (o : Op) : List Op := (expandOp bl o).getD [o]

/-- names added later are block names (≥ 1000, as `internBlock` allocates them) -/
def NewAbove (bl' bl : Blocks) : Prop := ∀ g, (bl'.body? g).isSome → (bl.body? g).isSome ∨ 1000 ≤ g

theorem NewAbove.refl (bl : Blocks) : NewAbove bl bl := fun _ h => Or.inl h
theorem NewAbove.trans {a b c : Blocks} (h1 : NewAbove a b) (h2 : NewAbove b c) : NewAbove a c := by
  intro g hg
  rcases h1 g hg with h | h
  · exact h2 g h
  · exact Or.inr h

theorem internBlock_newAbove (bl : Blocks) (sub : Circ) : NewAbove (internBlock bl sub).1 bl := by
  unfold internBlock
  simp only
  cases hf : bl.find? (fun e => e.2 == zeroParams sub) with
  | some e => exact NewAbove.refl bl
  | none =>
    simp only
    intro g hg
    simp only [Blocks.body?, List.find?_append, Option.isSome_map] at hg ⊢
    cases hb : bl.find? (fun e => e.1 == g) with
    | some e => exact Or.inl (by simp)
    | none =>
      right
      simp only [hb, Option.none_or, List.find?_cons, List.find?_nil] at hg
      by_cases hgg : (bl.foldl (fun m e => max m e.1) 999) + 1 = g
      · have := (le_foldl_max bl 999).1
        omega
      · have hbeq : (List.foldl (fun m e => max m e.1) 999 bl + 1 == g) = false := by simpa using hgg
        rw [hbeq] at hg
        simp at hg

theorem getD_range_map (l : List Nat) : (List.range l.length).map (fun q => l.getD q 0) = l := by
  apply List.ext_getElem
  · simp
  · intro i h1 h2
    simp only [List.length_map, List.length_range] at h1
    simp [List.getD_eq_getElem?_getD, h1]

/-- what the body is handed means the collected operation, block or not -/
theorem subCircuit_expand1 (bl : Blocks) (o : Op) :
    (subCircuit bl o).iter.map (·.mapLoc o.loc) = expand1 bl o := by
  cases hb : bl.body? o.gid with
  | some body =>
    rw [expand1, (expandOp_subCircuit bl o body hb).2]; rfl
  | none =>
    simp only [expand1, expandOp, hb, Option.map_none, Option.getD_none, subCircuit, Circ.iter,
      List.flatMap_cons, List.flatMap_nil, List.append_nil]
    simp only [sortBy, List.foldr_cons, List.foldr_nil, insertBy, List.map_cons, List.map_nil,
      Op.mapLoc, getD_range_map]

theorem fePost_sem (env : Env) (cfg : FECfg) (model : MModel) :
    ∀ (jrs : List (BlockJob × Res)) (acc : FEPost), acc.w.blocks.KeysNodup →
      ∃ tg : List Tgt,
        (jrs.foldl (fePostStep env cfg model) acc).items = acc.items ++ tg.map Tgt.item ∧
        (tg.map Tgt.key).Sublist (jrs.map keyJ) ∧
        (∀ t ∈ tg, t.2.2.loc = t.2.1.loc) ∧
        (jrs.foldl (fePostStep env cfg model) acc).w.blocks.KeysNodup ∧
        (jrs.foldl (fePostStep env cfg model) acc).w.blocks.Extends acc.w.blocks ∧
        NewAbove (jrs.foldl (fePostStep env cfg model) acc).w.blocks acc.w.blocks ∧
        (∀ t ∈ tg, ∃ jr ∈ jrs, t.2.1 = jr.1.op ∧
          expandOp (jrs.foldl (fePostStep env cfg model) acc).w.blocks t.2.2 =
            some (jr.2.st.circ.iter.map (·.mapLoc jr.1.op.loc))) := by
  intro jrs
  induction jrs with
  | nil =>
    intro acc hnd
    exact ⟨[], by simp, by simp, by simp, hnd, Blocks.Extends.refl _, NewAbove.refl _, by simp⟩
  | cons jr jrs ih =>
    intro acc hnd
    simp only [List.foldl_cons]
    cases ha : feAccept env cfg model acc.w.blocks jr.2.st.circ jr.1.op with
    | none =>
      have hstep : fePostStep env cfg model acc jr = acc := by simp [fePostStep, ha]
      rw [hstep]
      obtain ⟨tg, h1, h2, h3, h4, h5, h6, h7⟩ := ih acc hnd
      refine ⟨tg, h1, by simpa using h2.cons _, h3, h4, h5, h6, ?_⟩
      intro t ht
      obtain ⟨jr', hj, hh⟩ := h7 t ht
      exact ⟨jr', by simp [hj], hh⟩
    | some b =>
      cases b with
      | false =>
        have hw : (fePostStep env cfg model acc jr).w = acc.w := by simp [fePostStep, ha]
        have hit : (fePostStep env cfg model acc jr).items = acc.items := by simp [fePostStep, ha]
        obtain ⟨tg, h1, h2, h3, h4, h5, h6, h7⟩ :=
          ih (fePostStep env cfg model acc jr) (by rw [hw]; exact hnd)
        rw [hw] at h5 h6
        refine ⟨tg, by rw [h1, hit], by simpa using h2.cons _, h3, h4, h5, h6, ?_⟩
        intro t ht
        obtain ⟨jr', hj, hh⟩ := h7 t ht
        exact ⟨jr', by simp [hj], hh⟩
      | true =>
        let ib := internBlock acc.w.blocks jr.2.st.circ
        let t0 : Tgt := (jr.1.cycle, jr.1.op, blockOpOf ib.2 jr.2.st.circ jr.1.op.loc)
        have hw : (fePostStep env cfg model acc jr).w.blocks = ib.1 := by simp [fePostStep, ha, ib]
        have hit : (fePostStep env cfg model acc jr).items = acc.items ++ [Tgt.item t0] := by
          simp [fePostStep, ha, Tgt.item, t0, ib]
        obtain ⟨hs1, hs2, hs3⟩ := internBlock_spec acc.w.blocks hnd jr.2.st.circ
        obtain ⟨tg, h1, h2, h3, h4, h5, h6, h7⟩ :=
          ih (fePostStep env cfg model acc jr) (by rw [hw]; exact hs2)
        rw [hw] at h5 h6
        refine ⟨t0 :: tg, by rw [h1, hit]; simp, ?_, ?_, h4, h5.trans hs3,
          h6.trans (internBlock_newAbove _ _), ?_⟩
        · simp only [List.map_cons]
          exact h2.cons_cons _
        · intro t ht
          rcases List.mem_cons.mp ht with rfl | ht
          · simp [t0, blockOpOf]
          · exact h3 t ht
        · intro t ht
          rcases List.mem_cons.mp ht with rfl | ht
          · refine ⟨jr, by simp, rfl, ?_⟩
            exact expandOp_extends h5 _ _ (expandOp_writeback acc.w.blocks hnd jr.2.st.circ jr.1.op.loc)
          · obtain ⟨jr', hj, hh⟩ := h7 t ht
            exact ⟨jr', by simp [hj], hh⟩

/-- replacing operations cycle by cycle by operations with the same first qudit and the same
one-level meaning does not change the one-level meaning of the circuit -/
theorem flatMap_subst (E1 E0 : Op → List Op) :
    ∀ (L : List Cycle) (g : Nat → Op → Op), (∀ k x, (g k x).head = x.head) →
      (∀ k, ∀ x ∈ L.flatten, E1 (g k x) = E0 x) →
      ((L.mapIdx (fun k cy => cy.map (g k))).flatMap (sortBy Op.head)).flatMap E1 =
        (L.flatMap (sortBy Op.head)).flatMap E0 := by
  intro L
  induction L with
  | nil => intro g _ _; rfl
  | cons cy L ih =>
    intro g hh he
    simp only [List.mapIdx_cons, List.flatMap_cons, List.flatMap_append]
    rw [ih (fun i => g (i + 1)) (fun k x => hh (k + 1) x)
      (fun k x hx => he (k + 1) x (by simp [hx]))]
    congr 1
    rw [sortBy_map Op.head (g 0) (hh 0), List.flatMap_map]
    apply List.flatMap_congr
    intro x hx
    exact he 0 x (by simp [(sortBy_perm Op.head cy).mem_iff.mp hx])

/-- **identity bodies, whole pass (post-processing part).**  If every job returned the circuit it was
handed, then — whatever the replace filter accepted — the circuit after the write-back has the
one-level meaning of the circuit before: block operations are replaced by operations (new gate
names) that expand to the same operations with the same parameters. -/
theorem feFinish_identity_semantics (env : Env) (cfg : FECfg) (s0 : St) (jobs : List BlockJob)
    (rs : List Res) (w1 : World) (bl0 : Blocks) (hinv : s0.circ.Inv)
    (hjobs : (jobs.map (fun j => (j.cycle, j.op))).Sublist s0.circ.iterCyc)
    (hlen : rs.length = jobs.length) (hno : firstRaised rs = none)
    (hnd : w1.blocks.KeysNodup) (hext : w1.blocks.Extends bl0) (hnew : NewAbove w1.blocks bl0)
    (hplain : ∀ x ∈ s0.circ.ops, bl0.body? x.gid = none → x.gid < 1000)
    (hid : ∀ jr ∈ jobs.zip rs, jr.2.st.circ = subCircuit bl0 jr.1.op) :
    (feFinish env cfg s0 jobs rs w1).out = .ok ∧
    (feFinish env cfg s0 jobs rs w1).w.blocks.Extends bl0 ∧
    (feFinish env cfg s0 jobs rs w1).st.circ.iter.flatMap
        (expand1 (feFinish env cfg s0 jobs rs w1).w.blocks) =
      s0.circ.iter.flatMap (expand1 bl0) := by
  obtain ⟨tg, h1, h2, h3, h4, h5, h6, h7⟩ :=
    fePost_sem env cfg s0.data.model (jobs.zip rs) ⟨w1, [], [], 0⟩ hnd
  have hkeys : (jobs.zip rs).map keyJ = jobs.map (fun j => (j.cycle, j.op)) := by
    have : (jobs.zip rs).map keyJ = ((jobs.zip rs).map Prod.fst).map (fun j => (j.cycle, j.op)) := by
      rw [List.map_map]; rfl
    rw [this, List.map_fst_zip (by omega)]
  have hbatch := sameLocBatch_of_targets s0.circ hinv tg (by rw [← hkeys] at hjobs; exact h2.trans hjobs) h3
  obtain ⟨r, hr1, hr2, hr3⟩ := batchReplace_sameLoc s0.circ tg hbatch
  simp only [List.nil_append] at h1
  have hfin : feFinish env cfg s0 jobs rs w1 =
      ⟨jobTraces rs (List.range rs.length),
        ⟨⟨s0.circ.radixes, s0.circ.cycles.mapIdx (fun k cy => cy.map (r k))⟩,
          (feAppendRec s0.data (.list (fePost env cfg s0.data.model w1 (jobs.zip rs)).recs)).updateErrorMul
            (fePost env cfg s0.data.model w1 (jobs.zip rs)).esum⟩,
        (fePost env cfg s0.data.model w1 (jobs.zip rs)).w, .ok⟩ := by
    unfold feFinish
    simp only [hno, fePost]
    rw [h1, hr3]
  rw [hfin]
  simp only [fePost]
  set blF := ((jobs.zip rs).foldl (fePostStep env cfg s0.data.model) ⟨w1, [], [], 0⟩).w.blocks with hblF
  have hextF : blF.Extends bl0 := h5.trans hext
  have hnewF : NewAbove blF bl0 := h6.trans hnew
  refine ⟨by first | rfl | trivial, hextF, ?_⟩
  simp only [Circ.iter]
  apply flatMap_subst
  · intro k x
    rcases hr1 k x with ⟨n, hmem, hy⟩ | ⟨_, hy⟩
    · rw [hy]
      have := h3 _ hmem
      simp only at this
      simp [Op.head, this]
    · rw [hy]
  · intro k x hx
    rcases hr1 k x with ⟨n, hmem, hy⟩ | ⟨_, hy⟩
    · rw [hy]
      obtain ⟨jr, hjr, hop, hexp⟩ := h7 _ hmem
      simp only at hop hexp
      rw [expand1, hexp, hid jr hjr, ← hop, Option.getD_some, subCircuit_expand1]
    · rw [hy]
      simp only [expand1, expandOp]
      cases hb : bl0.body? x.gid with
      | some body => rw [hextF _ _ hb]
      | none =>
        have hlt := hplain x hx hb
        cases hbF : blF.body? x.gid with
        | none => rfl
        | some b' =>
          rcases hnewF x.gid (by simp [hbF]) with h | h
          · simp [hb] at h
          · omega

/-! ## the jobs of an identity body -/
theorem subFinish_circ_blocks (w : World) (s : St) (r : Res) :
    (subFinish w s r).st.circ = r.st.circ ∧ (subFinish w s r).w.blocks = r.w.blocks := by
  unfold subFinish
  simp only
  split
  · exact ⟨rfl, rfl⟩
  · split
    · exact ⟨rfl, rfl⟩
    · split
      · exact ⟨rfl, rfl⟩
      · split <;> exact ⟨rfl, rfl⟩

theorem JobsRun.imp {α : Type} {sub sub' : World → α → Res → Prop}
    (h : ∀ w x r, sub w x r → sub' w x r) {w : World} {xs : List α} {rs : List Res} {w' : World}
    (hj : JobsRun sub w xs rs w') : JobsRun sub' w xs rs w' := by
  induction hj with
  | nil w => exact .nil w
  | cons h1 _ ih => exact .cons (h _ _ _ h1) ih

theorem jobsRun_identity {w : World} {jobs : List BlockJob} {rs : List Res} {w1 : World}
    (hj : JobsRun (fun w (j : BlockJob) r => r.st.circ = j.sub ∧ r.w.blocks = w.blocks) w jobs rs w1) :
    w1.blocks = w.blocks ∧ ∀ jr ∈ jobs.zip rs, jr.2.st.circ = jr.1.sub := by
  induction hj with
  | nil w => exact ⟨rfl, by simp⟩
  | cons h1 _ ih =>
    refine ⟨ih.1.trans h1.2, ?_⟩
    intro jr hjr
    simp only [List.zip_cons_cons, List.mem_cons] at hjr
    rcases hjr with rfl | hjr
    · exact h1.1
    · exact ih.2 jr hjr

theorem mapM_forall {α β : Type} (g : α → Except Err β) (P : β → Prop)
    (hg : ∀ a j, g a = .ok j → P j) :
    ∀ (l : List α) (js : List β), l.mapM g = .ok js → ∀ j ∈ js, P j := by
  intro l
  induction l with
  | nil =>
    intro js h
    simp only [List.mapM_nil] at h
    cases h; simp
  | cons a l ih =>
    intro js h
    rw [List.mapM_cons] at h
    cases hga : g a with
    | error e => rw [hga] at h; cases h
    | ok j =>
      rw [hga] at h
      cases hl : l.mapM g with
      | error e => rw [hl] at h; cases h
      | ok js' =>
        rw [hl] at h
        cases h
        intro j' hj'
        rcases List.mem_cons.mp hj' with rfl | hj'
        · exact hg a _ hga
        · exact ih js' hl j' hj'

/-- every job's sub-circuit is the block's circuit with the operation's parameters -/
theorem feJobs_sub (bl : Blocks) (cfg : FECfg) (s0 : St) (blocks : List (Nat × Op))
    (jobs : List BlockJob) (h : feJobs bl cfg s0 blocks = .ok jobs) :
    ∀ j ∈ jobs, j.sub = subCircuit bl j.op := by
  unfold feJobs at h
  refine mapM_forall _ _ ?_ _ _ h
  intro b j hb
  simp only at hb
  cases hsm : subModel s0.data s0.circ b.1.2 with
  | none => simp [hsm] at hb
  | some sm =>
    simp only [hsm] at hb
    cases hbd : blockData s0.data b.2 b.1.1 b.1.2 (subCircuit bl b.1.2) sm cfg.calcErr with
    | error e => simp [hbd] at hb
    | ok bd =>
      simp only [hbd, Except.ok.injEq] at hb
      subst hb; rfl

/-- **ForEachBlockPass with a body that changes nothing, end to end.**  Whatever parameters the
block operations carry (equal to the ones frozen in their gates or not), whatever the collection
and replace filters select: if the pass returns normally, the circuit it leaves has the one-level
meaning of the circuit it was given, and every gate name known before still means the same. -/
theorem forEach_identity_semantics (env : Env) (cfg : FECfg) (i : Nat) (w : World) (s : St) (r : Res)
    (hleaf : ∀ s', env.leaf i s' = (s', none)) (hinv : s.circ.Inv) (hnd : w.blocks.KeysNodup)
    (hplain : ∀ x ∈ s.circ.ops, w.blocks.body? x.gid = none → x.gid < 1000)
    (hrun : Runs env (.forEach cfg (.leaf i)) w s r) (hok : r.out = .ok) :
    r.w.blocks.Extends w.blocks ∧
    r.st.circ.iter.flatMap (expand1 r.w.blocks) = s.circ.iter.flatMap (expand1 w.blocks) := by
  have hroom : (feRoom s).circ = s.circ := by unfold feRoom; split <;> rfl
  rw [runs_forEach] at hrun
  by_cases hu : feUnknown env cfg
  · simp only [hu, if_true] at hrun
    rw [hrun] at hok; simp [Res.fail] at hok
  · simp only [hu, Bool.false_eq_true, if_false] at hrun
    by_cases he : (feBlocks env w.blocks cfg (feRoom s).circ).isEmpty
    · simp only [he, if_true] at hrun
      rw [hrun]
      exact ⟨Blocks.Extends.refl _, by simp [hroom]⟩
    · simp only [he, Bool.false_eq_true, if_false] at hrun
      cases hj : feJobs w.blocks cfg (feRoom s) (feBlocks env w.blocks cfg (feRoom s).circ) with
      | error e =>
        rw [hj] at hrun
        simp only at hrun
        rw [hrun] at hok; simp [Res.fail] at hok
      | ok jobs =>
        rw [hj] at hrun
        simp only at hrun
        obtain ⟨rs, w1, hjr, hr⟩ := hrun
        subst hr
        have hkeys := feJobs_keys _ _ _ _ _ hj
        have hsubs := feJobs_sub _ _ _ _ _ hj
        have hsub : (jobs.map (fun j => (j.cycle, j.op))).Sublist (feRoom s).circ.iterCyc := by
          rw [hkeys]; exact List.filter_sublist
        have hno := feFinish_ok_no_raise _ _ _ _ _ _ hok
        have hjr' : JobsRun (fun w (j : BlockJob) r => r.st.circ = j.sub ∧ r.w.blocks = w.blocks)
            w jobs rs w1 := by
          refine hjr.imp ?_
          rintro w' j r' ⟨r0, hr0, rfl⟩
          rw [runs_leaf] at hr0
          obtain ⟨e1, e2⟩ := subFinish_circ_blocks w' ⟨j.sub, j.bd⟩ r0
          rw [e1, e2, hr0]
          simp [leafM, hleaf]
        obtain ⟨hw1, hres⟩ := jobsRun_identity hjr'
        obtain ⟨_, h2, h3⟩ := feFinish_identity_semantics env cfg (feRoom s) jobs rs w1 w.blocks
          (by rw [hroom]; exact hinv) hsub hjr.length hno (by rw [hw1]; exact hnd)
          (by rw [hw1]; exact Blocks.Extends.refl _) (by rw [hw1]; exact NewAbove.refl _)
          (by rw [hroom]; exact hplain)
          (by
            intro jr hjr2
            rw [hres jr hjr2]
            exact hsubs jr.1 (List.of_mem_zip hjr2).1)
        exact ⟨h2, by rw [h3, hroom]⟩

end BqVerif.Control
