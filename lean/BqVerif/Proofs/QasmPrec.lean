import BqVerif.Model.QasmExpr
/-! # The Python-level parser is exactly the precedence grammar

`render ctx e` writes the tree `e` with the parentheses the grammar
`sum > term > factor('-', '**' right-assoc, binding tighter on its left) > atom` needs in a
context of level `ctx`.  `pyParse (render 0 e) = some e` for EVERY tree: the parser recovers
every tree from its minimal rendering, i.e. it implements precisely that precedence and
associativity (soundness + completeness of the recursive descent w.r.t. the grammar). -/
namespace BqVerif.Qasm

variable {V : Type}

def BOp.level : BOp → Nat
  | .add => 0 | .sub => 0 | .mul => 1 | .div => 1

def PE.prec : PE V → Nat
  | .bin op _ _ => op.level
  | .neg _ => 2
  | .pow _ _ => 2
  | _ => 3

def wrap (b : Bool) (ts : List (ETok V)) : List (ETok V) :=
  if b then .lp :: ts ++ [.rp] else ts

/-- minimal-parenthesis rendering in a context that accepts levels ≥ `ctx` -/
def render (ctx : Nat) : PE V → List (ETok V)
  | .lit s => [.lit s]
  | .val v => [.val v]
  | .name s => [.name s]
  | .call f e => .fn f :: .lp :: render 0 e ++ [.rp]
  | .neg e => wrap (decide (2 < ctx)) (.minus :: render 2 e)
  | .pow a b => wrap (decide (2 < ctx)) (render 3 a ++ .pow :: render 2 b)
  | .bin op l r =>
    wrap (decide (op.level < ctx)) (render op.level l ++ op.tok :: render (op.level + 1) r)

/-- fuel that suffices to read `e` back at its natural level -/
def PE.cost : PE V → Nat
  | .lit _ => 1
  | .val _ => 1
  | .name _ => 1
  | .call _ e => e.cost + 50
  | .neg e => e.cost + 50
  | .pow a b => a.cost + b.cost + 50
  | .bin _ l r => l.cost + r.cost + 50

theorem render_wrap (ctx : Nat) (hc : ctx ≤ 3) (e : PE V) :
    render ctx e = wrap (decide (e.prec < ctx)) (render 0 e) := by
  cases e with
  | lit s =>
    have : ¬ 3 < ctx := by omega
    simp [render, wrap, PE.prec, this]
  | val v =>
    have : ¬ 3 < ctx := by omega
    simp [render, wrap, PE.prec, this]
  | name s =>
    have : ¬ 3 < ctx := by omega
    simp [render, wrap, PE.prec, this]
  | call f e =>
    have : ¬ 3 < ctx := by omega
    simp [render, wrap, PE.prec, this]
  | neg e => by_cases h : 2 < ctx <;> simp [render, wrap, PE.prec, h]
  | pow a b => by_cases h : 2 < ctx <;> simp [render, wrap, PE.prec, h]
  | bin op l r => by_cases h : op.level < ctx <;> simp [render, wrap, PE.prec, h]

theorem render_of_le {ctx : Nat} (hc : ctx ≤ 3) {e : PE V} (h : ctx ≤ e.prec) :
    render ctx e = render 0 e := by
  rw [render_wrap ctx hc]
  have : ¬ e.prec < ctx := by omega
  simp [wrap, this]

theorem render_of_lt {ctx : Nat} (hc : ctx ≤ 3) {e : PE V} (h : e.prec < ctx) :
    render ctx e = .lp :: render 0 e ++ [.rp] := by
  rw [render_wrap ctx hc]; simp [wrap, h]

theorem prec_le_three (e : PE V) : e.prec ≤ 3 := by
  cases e <;> simp [PE.prec] <;> rename_i op _ _ <;> cases op <;> simp [BOp.level]

/-- tokens that continue a `power` / a `term` / a `sum` -/
def notPow : List (ETok V) → Prop
  | .pow :: _ => False
  | _ => True
def notMulish : List (ETok V) → Prop
  | .pow :: _ => False
  | .star :: _ => False
  | .slash :: _ => False
  | _ => True

theorem notPow_of_notMulish {ts : List (ETok V)} (h : notMulish ts) : notPow ts := by
  unfold notMulish at h; unfold notPow; split <;> simp_all

/-! ### one step of each loop -/

theorem pyTermLoop_stop (f : Nat) (acc : PE V) (rest : List (ETok V)) (h : notMulish rest) :
    pyTermLoop (f + 1) acc rest = some (acc, rest) := by
  unfold pyTermLoop
  split <;> simp_all [notMulish]

theorem pySumLoop_stop (f : Nat) (acc : PE V) (rest : List (ETok V))
    (h : ∀ r, rest ≠ .plus :: r) (h' : ∀ r, rest ≠ .minus :: r) :
    pySumLoop (f + 1) acc rest = some (acc, rest) := by
  unfold pySumLoop
  split <;> simp_all

/-! ### the four reading statements, with an explicit fuel budget `b` -/

def AtomOK (e : PE V) (b : Nat) : Prop :=
  ∀ f, b ≤ f → ∀ rest, pyAtom f (render 3 e ++ rest) = some (e, rest)
def FactorOK (e : PE V) (b : Nat) : Prop :=
  ∀ f, b ≤ f → ∀ rest, notPow rest → pyFactor f (render 2 e ++ rest) = some (e, rest)
def TermOK (e : PE V) (b : Nat) : Prop :=
  ∀ rest out g, notPow rest → (∀ f', g ≤ f' → pyTermLoop f' e rest = out) →
    ∀ f, g + b ≤ f → pyTerm f (render 1 e ++ rest) = out
def SumOK (e : PE V) (b : Nat) : Prop :=
  ∀ rest out g, notMulish rest → (∀ f', g ≤ f' → pySumLoop f' e rest = out) →
    ∀ f, g + b ≤ f → pySum f (render 0 e ++ rest) = out

/-- first token of something rendered as an atom -/
def atomHead : List (ETok V) → Prop
  | .lit _ :: _ => True
  | .val _ :: _ => True
  | .name _ :: _ => True
  | .fn _ :: .lp :: _ => True
  | .lp :: _ => True
  | _ => False

theorem atomHead_render3 (e : PE V) (rest : List (ETok V)) : atomHead (render 3 e ++ rest) := by
  cases e with
  | bin op l r => cases op <;> simp [render, wrap, atomHead, BOp.level]
  | _ => simp [render, wrap, atomHead]

theorem pyFactor_of_atomHead (f : Nat) (ts : List (ETok V)) (h : atomHead ts) :
    pyFactor (f + 1) ts = pyPower f ts := by
  unfold pyFactor
  split
  · simp [atomHead] at h
  · rfl

theorem factor_of_atom {e : PE V} {b : Nat} (hr : render 2 e = render 3 e) (ha : AtomOK e b) :
    FactorOK e (b + 2) := by
  intro f hf rest hrest
  obtain ⟨k, rfl⟩ : ∃ k, f = k + 2 := ⟨f - 2, by omega⟩
  rw [hr, pyFactor_of_atomHead _ _ (atomHead_render3 e rest)]
  unfold pyPower
  rw [ha k (by omega) rest]
  simp only [Option.bind_some]
  unfold notPow at hrest
  split <;> simp_all

theorem term_of_factor {e : PE V} {b : Nat} (hr : render 1 e = render 2 e) (hf : FactorOK e b) :
    TermOK e (b + 1) := by
  intro rest out g hrest hloop f hfu
  obtain ⟨k, rfl⟩ : ∃ k, f = k + 1 := ⟨f - 1, by omega⟩
  rw [hr]
  unfold pyTerm
  rw [hf k (by omega) rest hrest]
  simp only [Option.bind_some]
  exact hloop k (by omega)

theorem sum_of_term {e : PE V} {b : Nat} (hr : render 0 e = render 1 e) (ht : TermOK e b) :
    SumOK e (b + 2) := by
  intro rest out g hrest hloop f hfu
  obtain ⟨k, rfl⟩ : ∃ k, f = k + 1 := ⟨f - 1, by omega⟩
  have h := ht rest (some (e, rest)) 1 (notPow_of_notMulish hrest)
    (fun f' hf' => by
      obtain ⟨j, rfl⟩ : ∃ j, f' = j + 1 := ⟨f' - 1, by omega⟩
      exact pyTermLoop_stop j e rest hrest) k (by omega)
  rw [← hr] at h
  unfold pySum
  rw [h]
  simp only [Option.bind_some]
  exact hloop k (by omega)

theorem atom_of_sum {e : PE V} {b : Nat} (hr : render 3 e = .lp :: render 0 e ++ [.rp])
    (hs : SumOK e b) : AtomOK e (b + 3) := by
  intro f hf rest
  obtain ⟨k, rfl⟩ : ∃ k, f = k + 1 := ⟨f - 1, by omega⟩
  have h := hs (.rp :: rest) (some (e, .rp :: rest)) 1 (by simp [notMulish])
    (fun f' hf' => by
      obtain ⟨j, rfl⟩ : ∃ j, f' = j + 1 := ⟨f' - 1, by omega⟩
      exact pySumLoop_stop j e _ (by simp) (by simp)) k (by omega)
  rw [hr]
  simp only [List.cons_append, List.append_assoc, List.nil_append]
  unfold pyAtom
  simp [h]

theorem AtomOK.mono {e : PE V} {b b' : Nat} (h : AtomOK e b) (hb : b ≤ b') : AtomOK e b' :=
  fun f hf rest => h f (by omega) rest
theorem FactorOK.mono {e : PE V} {b b' : Nat} (h : FactorOK e b) (hb : b ≤ b') : FactorOK e b' :=
  fun f hf rest hr => h f (by omega) rest hr
theorem TermOK.mono {e : PE V} {b b' : Nat} (h : TermOK e b) (hb : b ≤ b') : TermOK e b' :=
  fun rest out g hr hl f hf => h rest out g hr hl f (by omega)
theorem SumOK.mono {e : PE V} {b b' : Nat} (h : SumOK e b) (hb : b ≤ b') : SumOK e b' :=
  fun rest out g hr hl f hf => h rest out g hr hl f (by omega)

/-- every context, with a uniform budget -/
structure All (e : PE V) : Prop where
  atom : AtomOK e (e.cost + 20)
  factor : FactorOK e (e.cost + 20)
  term : TermOK e (e.cost + 20)
  sum : SumOK e (e.cost + 20)

theorem all_of_atom {e : PE V} (hp : e.prec = 3) (h : AtomOK e e.cost) : All e := by
  have r23 : render 2 e = render 3 e := (render_of_le (ctx := 2) (by omega) (by omega)).trans (render_of_le (ctx := 3) (by omega) (by omega)).symm
  have r12 : render 1 e = render 2 e := (render_of_le (ctx := 1) (by omega) (by omega)).trans (render_of_le (ctx := 2) (by omega) (by omega)).symm
  have r01 : render 0 e = render 1 e := (render_of_le (ctx := 1) (by omega) (by omega)).symm
  have hf := factor_of_atom r23 h
  have ht := term_of_factor r12 hf
  have hs := sum_of_term r01 ht
  exact ⟨h.mono (by omega), hf.mono (by omega), ht.mono (by omega), hs.mono (by omega)⟩

theorem all_of_factor {e : PE V} (hp : e.prec = 2) (h : FactorOK e e.cost) : All e := by
  have r12 : render 1 e = render 2 e := (render_of_le (ctx := 1) (by omega) (by omega)).trans (render_of_le (ctx := 2) (by omega) (by omega)).symm
  have r01 : render 0 e = render 1 e := (render_of_le (ctx := 1) (by omega) (by omega)).symm
  have ht := term_of_factor r12 h
  have hs := sum_of_term r01 ht
  have ha := atom_of_sum (render_of_lt (ctx := 3) (by omega) (by omega)) hs
  exact ⟨ha.mono (by omega), h.mono (by omega), ht.mono (by omega), hs.mono (by omega)⟩

theorem all_of_term {e : PE V} (hp : e.prec = 1) (h : TermOK e e.cost) : All e := by
  have r01 : render 0 e = render 1 e := (render_of_le (ctx := 1) (by omega) (by omega)).symm
  have r23 : render 2 e = render 3 e := (render_of_lt (ctx := 2) (by omega) (by omega)).trans (render_of_lt (ctx := 3) (by omega) (by omega)).symm
  have hs := sum_of_term r01 h
  have ha := atom_of_sum (render_of_lt (ctx := 3) (by omega) (by omega)) hs
  have hf := factor_of_atom r23 ha
  exact ⟨ha.mono (by omega), hf.mono (by omega), h.mono (by omega), hs.mono (by omega)⟩

theorem all_of_sum {e : PE V} (hp : e.prec = 0) (h : SumOK e e.cost) : All e := by
  have r23 : render 2 e = render 3 e := (render_of_lt (ctx := 2) (by omega) (by omega)).trans (render_of_lt (ctx := 3) (by omega) (by omega)).symm
  have r12 : render 1 e = render 2 e := (render_of_lt (ctx := 1) (by omega) (by omega)).trans (render_of_lt (ctx := 2) (by omega) (by omega)).symm
  have ha := atom_of_sum (render_of_lt (ctx := 3) (by omega) (by omega)) h
  have hf := factor_of_atom r23 ha
  have ht := term_of_factor r12 hf
  exact ⟨ha.mono (by omega), hf.mono (by omega), ht.mono (by omega), h.mono (by omega)⟩

/-! ### the constructors -/

theorem atomOK_lit (s : String) : AtomOK (PE.lit s : PE V) 1 := by
  intro f hf rest
  obtain ⟨k, rfl⟩ : ∃ k, f = k + 1 := ⟨f - 1, by omega⟩
  simp [render, pyAtom]
theorem atomOK_val (v : V) : AtomOK (PE.val v) 1 := by
  intro f hf rest
  obtain ⟨k, rfl⟩ : ∃ k, f = k + 1 := ⟨f - 1, by omega⟩
  simp [render, pyAtom]
theorem atomOK_name (s : String) : AtomOK (PE.name s : PE V) 1 := by
  intro f hf rest
  obtain ⟨k, rfl⟩ : ∃ k, f = k + 1 := ⟨f - 1, by omega⟩
  simp [render, pyAtom]

theorem atomOK_call (g : Fn) {x : PE V} (hx : All x) : AtomOK (PE.call g x) (x.cost + 50) := by
  intro f hf rest
  obtain ⟨k, rfl⟩ : ∃ k, f = k + 1 := ⟨f - 1, by omega⟩
  have h := hx.sum (.rp :: rest) (some (x, .rp :: rest)) 1 (by simp [notMulish])
    (fun f' hf' => by
      obtain ⟨j, rfl⟩ : ∃ j, f' = j + 1 := ⟨f' - 1, by omega⟩
      exact pySumLoop_stop j x _ (by simp) (by simp)) k (by omega)
  simp only [render, List.cons_append, List.append_assoc, List.nil_append]
  unfold pyAtom
  simp [h]

theorem factorOK_neg {x : PE V} (hx : All x) : FactorOK (PE.neg x) (x.cost + 50) := by
  intro f hf rest hrest
  obtain ⟨k, rfl⟩ : ∃ k, f = k + 1 := ⟨f - 1, by omega⟩
  have h := hx.factor k (by omega) rest hrest
  simp only [render, wrap, Nat.lt_irrefl, decide_false, Bool.false_eq_true, if_false,
    List.cons_append]
  unfold pyFactor
  simp [h]

theorem factorOK_pow {a b : PE V} (ha : All a) (hb : All b) :
    FactorOK (PE.pow a b) (a.cost + b.cost + 50) := by
  intro f hf rest hrest
  obtain ⟨k, rfl⟩ : ∃ k, f = k + 2 := ⟨f - 2, by omega⟩
  have h1 := ha.atom k (by omega) (.pow :: render 2 b ++ rest)
  have h2 := hb.factor k (by omega) rest hrest
  simp only [render, wrap, Nat.lt_irrefl, decide_false, Bool.false_eq_true, if_false,
    List.append_assoc, List.cons_append]
  rw [pyFactor_of_atomHead _ _ (atomHead_render3 a _)]
  unfold pyPower
  simp only [List.cons_append] at h1
  rw [h1]
  simp [h2]

theorem termOK_bin {op : BOp} (hop : op.level = 1) {l r : PE V} (hl : All l) (hr : All r) :
    TermOK (PE.bin op l r) (l.cost + r.cost + 50) := by
  intro rest out g hrest hloop f hf
  have hrend : render 1 (PE.bin op l r) ++ rest
      = render 1 l ++ (op.tok :: render 2 r ++ rest) := by
    simp [render, wrap, hop]
  rw [hrend]
  refine hl.term _ out (g + r.cost + 21) ?_ ?_ f (by omega)
  · cases op <;> simp_all [BOp.level, BOp.tok, notPow]
  · intro f' hf'
    obtain ⟨j, rfl⟩ : ∃ j, f' = j + 1 := ⟨f' - 1, by omega⟩
    have h2 := hr.factor j (by omega) rest hrest
    have h3 := hloop j (by omega)
    cases op <;> simp_all [BOp.level, BOp.tok, pyTermLoop]

theorem sumOK_bin {op : BOp} (hop : op.level = 0) {l r : PE V} (hl : All l) (hr : All r) :
    SumOK (PE.bin op l r) (l.cost + r.cost + 50) := by
  intro rest out g hrest hloop f hf
  have hrend : render 0 (PE.bin op l r) ++ rest
      = render 0 l ++ (op.tok :: render 1 r ++ rest) := by
    simp [render, wrap, hop]
  rw [hrend]
  refine hl.sum _ out (g + r.cost + 23) ?_ ?_ f (by omega)
  · cases op <;> simp_all [BOp.level, BOp.tok, notMulish]
  · intro f' hf'
    obtain ⟨j, rfl⟩ : ∃ j, f' = j + 1 := ⟨f' - 1, by omega⟩
    have h2 := hr.term rest (some (r, rest)) 1 (notPow_of_notMulish hrest)
      (fun f'' hf'' => by
        obtain ⟨i, rfl⟩ : ∃ i, f'' = i + 1 := ⟨f'' - 1, by omega⟩
        exact pyTermLoop_stop i r rest hrest) j (by omega)
    have h3 := hloop j (by omega)
    cases op <;> simp_all [BOp.level, BOp.tok, pySumLoop]

/-- every tree is read back from its rendering, in every context -/
theorem all (e : PE V) : All e := by
  induction e with
  | lit s => exact all_of_atom rfl (atomOK_lit s)
  | val v => exact all_of_atom rfl (atomOK_val v)
  | name s => exact all_of_atom rfl (atomOK_name s)
  | call g x ih => exact all_of_atom rfl (atomOK_call g ih)
  | neg x ih => exact all_of_factor rfl (factorOK_neg ih)
  | pow a b iha ihb => exact all_of_factor rfl (factorOK_pow iha ihb)
  | bin op l r ihl ihr =>
    cases hop : op.level with
    | zero => exact all_of_sum (by simp [PE.prec, hop]) (sumOK_bin hop ihl ihr)
    | succ n =>
      have h1 : op.level = 1 := by cases op <;> simp_all [BOp.level]
      exact all_of_term (by simp [PE.prec, h1]) (termOK_bin h1 ihl ihr)

theorem cost_le_length (e : PE V) : ∀ ctx, e.cost + 50 ≤ 64 * (render ctx e).length := by
  induction e with
  | lit s => intro ctx; simp [render, PE.cost]
  | val v => intro ctx; simp [render, PE.cost]
  | name s => intro ctx; simp [render, PE.cost]
  | call g x ih => intro ctx; have := ih 0; simp [render, PE.cost]; omega
  | neg x ih =>
    intro ctx; have := ih 2
    by_cases h : 2 < ctx <;> simp [render, wrap, PE.cost, h] <;> omega
  | pow a b iha ihb =>
    intro ctx; have := iha 3; have := ihb 2
    by_cases h : 2 < ctx <;> simp [render, wrap, PE.cost, h] <;> omega
  | bin op l r ihl ihr =>
    intro ctx; have := ihl op.level; have := ihr (op.level + 1)
    by_cases h : op.level < ctx <;> simp [render, wrap, PE.cost, h] <;> omega

/-- **the parser is the precedence grammar**: every tree is recovered from its minimal
rendering -/
theorem pyParse_render (e : PE V) : pyParse (render 0 e) = some e := by
  have h := (all e).sum [] (some (e, [])) 1 (by simp [notMulish])
    (fun f' hf' => by
      obtain ⟨j, rfl⟩ : ∃ j, f' = j + 1 := ⟨f' - 1, by omega⟩
      exact pySumLoop_stop j e _ (by simp) (by simp))
    (exprFuel (render 0 e)) (by have := cost_le_length e 0; simp [exprFuel]; omega)
  simp only [List.append_nil] at h
  simp [pyParse, h]

end BqVerif.Qasm
