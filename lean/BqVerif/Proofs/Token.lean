import BqVerif.Model.Network
import BqVerif.Proofs.Worker
/-!
# Token counting on the flat network

`Tok a n` = how many *tokens* of the task address `a` exist in the network state `n`:
the task itself inside a SUBMIT / SUBMIT_BATCH message in some channel, in a worker's delayed
list or task table, or its RESULT message in some channel.
-/
namespace BqVerif.Runtime

def sumBy {α} (g : α → Nat) : List α → Nat
  | [] => 0
  | x :: xs => g x + sumBy g xs

theorem sumBy_append {α} (g : α → Nat) (l1 l2 : List α) :
    sumBy g (l1 ++ l2) = sumBy g l1 + sumBy g l2 := by
  induction l1 with
  | nil => simp [sumBy]
  | cons x xs ih => simp [sumBy, ih]; omega

theorem sumBy_filter_le {α} (g : α → Nat) (p : α → Bool) (l : List α) :
    sumBy g (l.filter p) ≤ sumBy g l := by
  induction l with
  | nil => simp [sumBy]
  | cons x xs ih =>
    simp only [List.filter_cons]
    split <;> simp only [sumBy] <;> omega

theorem sumBy_map {α β} (g : β → Nat) (f : α → β) (l : List α) :
    sumBy g (l.map f) = sumBy (fun x => g (f x)) l := by
  induction l with
  | nil => rfl
  | cons x xs ih => simp [sumBy, ih]

theorem sumBy_congr {α} (g h : α → Nat) (l : List α) (e : ∀ x ∈ l, g x = h x) :
    sumBy g l = sumBy h l := by
  induction l with
  | nil => rfl
  | cons x xs ih =>
    simp only [sumBy]
    rw [e x List.mem_cons_self, ih (fun y hy => e y (List.mem_cons_of_mem _ hy))]

theorem sumBy_le {α} (g h : α → Nat) (l : List α) (e : ∀ x ∈ l, g x ≤ h x) :
    sumBy g l ≤ sumBy h l := by
  induction l with
  | nil => exact Nat.le_refl _
  | cons x xs ih =>
    simp only [sumBy]
    have := e x List.mem_cons_self
    have := ih (fun y hy => e y (List.mem_cons_of_mem _ hy))
    omega

theorem sumBy_zero {α} (g : α → Nat) (l : List α) (e : ∀ x ∈ l, g x = 0) : sumBy g l = 0 := by
  induction l with
  | nil => rfl
  | cons x xs ih =>
    simp only [sumBy]
    rw [e x List.mem_cons_self, ih (fun y hy => e y (List.mem_cons_of_mem _ hy))]

theorem sumBy_reverse {α} (g : α → Nat) (l : List α) : sumBy g l.reverse = sumBy g l := by
  induction l with
  | nil => rfl
  | cons x xs ih => simp [sumBy, sumBy_append, ih]; omega

theorem sumBy_take_drop {α} (g : α → Nat) (k : Nat) (l : List α) :
    sumBy g (l.take k) + sumBy g (l.drop k) = sumBy g l := by
  rw [← sumBy_append, List.take_append_drop]

/-- occurrences of the address among tasks -/
def cntA (a : Addr) (ts : List Task) : Nat := sumBy (fun t => if t.addr = a then 1 else 0) ts

def tokMsg (a : Addr) : Msg → Nat
  | .submit t => if t.addr = a then 1 else 0
  | .batch ts => cntA a ts
  | .result a' _ _ => if a' = a then 1 else 0
  | _ => 0

def tokW (a : Addr) (w : Worker) : Nat := cntA a w.delayed + cntA a w.tasks

def tokMsgs (a : Addr) (ms : List Msg) : Nat := sumBy (tokMsg a) ms

def tokChans (a : Addr) (cs : List ((NodeId × NodeId) × List Msg)) : Nat :=
  sumBy (fun c => tokMsgs a c.2) cs

def Tok (a : Addr) (n : Net) : Nat := tokChans a n.chans + sumBy (tokW a) n.workers

def tokOut (a : Addr) (o : Out) : Nat := sumBy (fun dm => tokMsg a dm.2) o

-- ------------------------------------------------------------------ task tables
theorem cntA_append (a : Addr) (l1 l2 : List Task) : cntA a (l1 ++ l2) = cntA a l1 + cntA a l2 :=
  sumBy_append _ _ _

theorem cntA_filter_le (a : Addr) (p : Task → Bool) (l : List Task) : cntA a (l.filter p) ≤ cntA a l :=
  sumBy_filter_le _ _ _

theorem cntA_taskErase_le (a : Addr) (l : List Task) (b : Addr) : cntA a (taskErase l b) ≤ cntA a l :=
  cntA_filter_le _ _ _

theorem cntA_taskSet (a : Addr) (l : List Task) (t : Task) : cntA a (taskSet l t) = cntA a l := by
  unfold cntA taskSet
  rw [sumBy_map]
  apply sumBy_congr
  intro x _
  by_cases h : x.addr == t.addr
  · simp only [h, if_true]
    have : x.addr = t.addr := by simpa using h
    rw [this]
  · simp [h]

theorem cntA_dropLast_getLast (a : Addr) (l : List Task) (t : Task) (h : l.getLast? = some t) :
    cntA a l.dropLast + (if t.addr = a then 1 else 0) = cntA a l := by
  obtain ⟨ys, rfl⟩ := List.getLast?_eq_some_iff.mp h
  rw [List.dropLast_concat]
  simp [cntA, sumBy_append, sumBy]

theorem cntA_taskErase_self (a : Addr) (l : List Task) : cntA a (taskErase l a) = 0 := by
  unfold cntA taskErase
  apply sumBy_zero
  intro x hx
  simp only [List.mem_filter, bne_iff_ne, ne_eq] at hx
  simp [hx.2]

theorem cntA_pos_of_get (l : List Task) (b : Addr) (t : Task) (h : taskGet l b = some t) :
    0 < cntA t.addr l := by
  unfold taskGet at h
  induction l with
  | nil => simp at h
  | cons x xs ih =>
    simp only [List.find?_cons] at h
    simp only [cntA, sumBy]
    split at h
    · simp only [Option.some.injEq] at h; subst h; simp; omega
    · have := ih h; simp only [cntA] at this; omega

theorem taskGet_addr (l : List Task) (b : Addr) (t : Task) (h : taskGet l b = some t) : t.addr = b := by
  have := List.find?_some h
  simpa using this

theorem cntA_taskErase_other (a b : Addr) (l : List Task) (h : a ≠ b) :
    cntA a (taskErase l b) = cntA a l := by
  unfold cntA taskErase
  induction l with
  | nil => rfl
  | cons x xs ih =>
    simp only [List.filter_cons]
    by_cases hx : x.addr = b
    · simp only [hx, bne_self_eq_false, Bool.false_eq_true, if_false, sumBy]
      have : ¬ b = a := fun e => h e.symm
      simp [this, ih]
    · have : (x.addr != b) = true := by simpa using hx
      simp only [this, if_true, sumBy, ih]


-- ------------------------------------------------------------- worker: recv
theorem handleResult_tables (w : Worker) (a : Addr) (v : Val) :
    (w.handleResult a v).tasks = w.tasks ∧ (w.handleResult a v).delayed = w.delayed := by
  unfold Worker.handleResult
  split
  · exact ⟨rfl, rfl⟩
  · split
    · exact ⟨rfl, rfl⟩
    · dsimp only
      split
      · exact ⟨rfl, rfl⟩
      · split
        · exact ⟨rfl, rfl⟩
        · split <;> exact ⟨rfl, rfl⟩

theorem tokW_handleResult (b : Addr) (w : Worker) (a : Addr) (v : Val) :
    tokW b (w.handleResult a v) = tokW b w := by
  simp only [tokW, (handleResult_tables w a v).1, (handleResult_tables w a v).2]

theorem tokW_addTask_le (a : Addr) (w : Worker) (t : Task) :
    tokW a (w.addTask t) ≤ tokW a w + (if t.addr = a then 1 else 0) := by
  simp only [tokW, Worker.addTask, cntA_append]
  have := cntA_taskErase_le a w.tasks t.addr
  simp only [cntA, sumBy] at *
  omega

theorem tokW_handleCancel_le (a : Addr) (w : Worker) (b : Addr) : tokW a (w.handleCancel b) ≤ tokW a w := by
  simp only [tokW, Worker.handleCancel]
  have h1 := cntA_filter_le a (fun t => !t.descOf b) w.tasks
  have h2 := cntA_filter_le a (fun t => !t.descOf b) w.delayed
  omega

/-- an incoming message adds at most the tokens it carries -/
theorem tokW_recv_le (a : Addr) (w : Worker) (m : Msg) : tokW a (w.recv m) ≤ tokW a w + tokMsg a m := by
  cases m <;> simp only [Worker.recv, tokMsg] <;> try exact Nat.le_add_right _ _
  · rename_i t
    have := tokW_addTask_le a w t
    simpa [tokW] using this
  · rename_i ts
    split
    · exact Nat.le_add_right _ _
    · rename_i last hl
      have h1 := cntA_dropLast_getLast a ts last hl
      have h2 := tokW_addTask_le a { w with receipt := ts.head?.map (fun (x : Task) => x.addr) } last
      simp only [tokW, Worker.addTask, cntA_append] at h2 ⊢
      omega
  · rw [tokW_handleResult]; omega
  · split
    · have := tokW_handleCancel_le a w ‹Addr›
      simpa [tokW] using this
    · exact Nat.le_trans (tokW_handleCancel_le a w _) (Nat.le_add_right _ _)

-- ------------------------------------------------------------- worker: step
def phi (a : Addr) (w : Worker) (out : List Msg) : Nat := tokW a w + tokMsgs a out

/-- 1 iff `a` is an address this worker created between the two states -/
def ind (a : Addr) (w w' : Worker) : Nat :=
  if a.w = w.id ∧ w.counter ≤ a.m ∧ a.m < w'.counter then 1 else 0

theorem ind_trans (a : Addr) (w0 w1 w2 : Worker) (h1 : Mono w0 w1) (h2 : Mono w1 w2) :
    ind a w0 w1 + ind a w1 w2 ≤ ind a w0 w2 := by
  have c1 := h1.ctr
  have c2 := h2.ctr
  have i1 := h1.id
  simp only [ind]
  split <;> split <;> split <;> simp_all <;> omega

theorem tokMsgs_append (a : Addr) (l1 l2 : List Msg) : tokMsgs a (l1 ++ l2) = tokMsgs a l1 + tokMsgs a l2 :=
  sumBy_append _ _ _

theorem pick_tok (a : Addr) (fuel : Nat) (w : Worker) :
    phi a (Worker.pick fuel w).w (Worker.pick fuel w).out ≤ tokW a w := by
  induction fuel generalizing w with
  | zero => simp [Worker.pick, phi, tokMsgs, sumBy]
  | succ n ih =>
    simp only [Worker.pick]
    split
    · split
      · rename_i t ht
        refine Nat.le_trans (ih _) ?_
        have h1 := cntA_dropLast_getLast a w.delayed t ht
        have h2 := tokW_addTask_le a { w with delayed := w.delayed.dropLast } t
        simp only [tokW] at h2 ⊢
        omega
      · simp [phi, tokMsgs, sumBy, tokMsg, tokW]
    · split
      · exact Nat.le_trans (ih _) (by simp [tokW])
      · split
        · exact Nat.le_trans (ih _) (by simp [tokW])
        · split
          · exact Nat.le_trans (ih _) (by
              simp only [tokW]
              have := cntA_taskErase_le a w.tasks ‹Addr›
              omega)
          · simp [phi, tokMsgs, sumBy, tokW]

theorem desiredResult_tables (w w' : Worker) (t t' : Task) (v : Option Val)
    (h : desiredResult w t = .ok (w', t', v)) : w'.tasks = w.tasks ∧ w'.delayed = w.delayed := by
  unfold desiredResult at h
  split at h
  · simp only [Except.ok.injEq, Prod.mk.injEq] at h; rw [← h.1]; exact ⟨rfl, rfl⟩
  · split at h
    · simp at h
    · split at h
      · split at h
        · simp at h
        · simp only [Except.ok.injEq, Prod.mk.injEq] at h; rw [← h.1]; exact ⟨rfl, rfl⟩
      · split at h
        · simp at h
        · split at h
          · simp at h
          · simp only [Except.ok.injEq, Prod.mk.injEq] at h; rw [← h.1]; exact ⟨rfl, rfl⟩

theorem enumFrom_kids_cnt (a : Addr) (w : Worker) (t : Task) (m k : Nat) (i0 : Nat) (ps : List Nat) :
    cntA a ((enumFrom i0 ps).map (fun ip => mkChild w t m ip.1 ip.2 k))
      ≤ if a.w = w.id ∧ a.m = m ∧ i0 ≤ a.s ∧ a.s < i0 + ps.length then 1 else 0 := by
  induction ps generalizing i0 with
  | nil => simp [enumFrom, cntA, sumBy]
  | cons p ps ih =>
    simp only [enumFrom, List.map_cons, cntA, sumBy, List.length_cons]
    have := ih (i0 + 1)
    simp only [cntA] at this
    by_cases h : (mkChild w t m i0 p k).addr = a
    · have ha : a = ⟨w.id, m, i0⟩ := by rw [← h]; rfl
      subst ha
      simp only [mkChild, if_true] at this ⊢
      have h2 : ¬ (i0 + 1 ≤ i0 ∧ i0 < i0 + 1 + ps.length) := by omega
      simp only [h2, and_false, if_false] at this
      simp; omega
    · simp only [h, if_false, Nat.zero_add]
      refine Nat.le_trans this ?_
      split
      · rename_i h3
        rw [if_pos (by omega)]
        exact Nat.le_refl _
      · exact Nat.zero_le _


theorem tokMsgs_cancels (a : Addr) (id : Int) (m n : Nat) :
    tokMsgs a ((List.range n).map (fun i => Msg.cancel ⟨id, m, i⟩)) = 0 := by
  unfold tokMsgs
  apply sumBy_zero
  intro x hx
  simp only [List.mem_map] at hx
  obtain ⟨i, _, rfl⟩ := hx
  rfl

theorem phi_cancelBox (a : Addr) (r : Run) (m : Nat) (b : Box) :
    phi a (r.cancelBox m b).w (r.cancelBox m b).out = phi a r.w r.out := by
  simp only [phi, Run.cancelBox, tokW, tokMsgs_append, tokMsgs_cancels]
  omega

theorem runBody_tok' (a : Addr) (tbl : Table) (fuel : Nat) (r : Run) (w0 : Worker) (B : Nat)
    (hm : Mono w0 r.w) (h : phi a r.w r.out ≤ B + ind a w0 r.w) :
    phi a (runBody tbl fuel r).1.w (runBody tbl fuel r).1.out
      ≤ B + ind a w0 (runBody tbl fuel r).1.w := by
  induction fuel generalizing r with
  | zero => exact h
  | succ n ih =>
    simp only [runBody]
    split
    · -- submit
      apply ih
      · exact hm.trans (newBox_mono r.w _)
      · have hi := ind_trans a w0 r.w
          { r.w with counter := r.w.counter + 1, boxes := r.w.boxes ++ [(r.w.counter, Box.new none)] }
          hm (newBox_mono r.w _)
        simp only [phi, tokW, tokMsgs, sumBy_append, sumBy, tokMsg, mkChild] at h ⊢
        dsimp only at hi
        have : (if (⟨r.w.id, r.w.counter, 0⟩ : Addr) = a then 1 else 0)
            ≤ ind a r.w { r.w with counter := r.w.counter + 1,
                                   boxes := r.w.boxes ++ [(r.w.counter, Box.new none)] } := by
          simp only [ind]
          split
          · rename_i e; subst e; simp
          · exact Nat.zero_le _
        dsimp only at this
        omega
    · split
      · exact h
      · rename_i ps _ _
        apply ih
        · exact hm.trans (newBox_mono r.w _)
        · have hi := ind_trans a w0 r.w
            { r.w with counter := r.w.counter + 1,
                       boxes := r.w.boxes ++ [(r.w.counter, Box.new (some ps.length))] }
            hm (newBox_mono r.w _)
          have hk := enumFrom_kids_cnt a r.w r.t r.w.counter r.t.futs.length 0 ps
          simp only [phi, tokW, tokMsgs, sumBy_append, sumBy, tokMsg] at h ⊢
          dsimp only at hi
          have : (if a.w = r.w.id ∧ a.m = r.w.counter ∧ 0 ≤ a.s ∧ a.s < 0 + ps.length then 1 else 0)
              ≤ ind a r.w { r.w with counter := r.w.counter + 1,
                                     boxes := r.w.boxes ++ [(r.w.counter, Box.new (some ps.length))] } := by
            simp only [ind]
            split
            · rename_i e; rw [if_pos (by omega)]; exact Nat.le_refl _
            · exact Nat.zero_le _
          dsimp only at this
          omega
    · split
      · exact h
      · exact h
    · split
      · exact h
      · split
        · exact h
        · exact h
    · split
      · exact h
      · split
        · exact h
        · split
          · exact h
          · rename_i m _ _ b _ _
            apply ih
            · exact hm.trans (Mono.of_eq rfl (fun _ hk => (mem_keys_boxErase _ _ _ hk).1)
                (fun _ h => h) rfl)
            · have e := phi_cancelBox a
                { w := r.w, t := r.t, out := r.out, evs := r.evs ++ [Ev.cancel r.t.tag ‹Nat›] } m b
              exact Nat.le_trans (Nat.le_of_eq e) h
    · exact h
    · exact h

theorem runBody_tok (a : Addr) (tbl : Table) (fuel : Nat) (r : Run) :
    phi a (runBody tbl fuel r).1.w (runBody tbl fuel r).1.out
      ≤ phi a r.w r.out + ind a r.w (runBody tbl fuel r).1.w :=
  runBody_tok' a tbl fuel r r.w (phi a r.w r.out) (Mono.refl _) (Nat.le_add_right _ _)

theorem completionLoop_tok (a : Addr) (ms : List Nat) (r : Run) :
    phi a (completionLoop ms r).1.w (completionLoop ms r).1.out = phi a r.w r.out := by
  induction ms generalizing r with
  | nil => rfl
  | cons m ms ih =>
    simp only [completionLoop]
    split
    · split
      · rw [ih]; rfl
      · rw [ih, phi_cancelBox]
    · rfl

theorem processCompletion_tok (a : Addr) (r : Run) (v : Val) :
    phi a (processCompletion r v).1.w (processCompletion r v).1.out ≤ phi a r.w r.out := by
  unfold processCompletion
  split
  · exact Nat.le_refl _
  · rename_i x hx
    rw [completionLoop_tok]
    have hpos := cntA_pos_of_get _ _ _ hx
    have haddr := taskGet_addr _ _ _ hx
    rw [haddr] at hpos
    unfold completionEnter
    split
    · -- local result
      simp only [phi, tokW, tokMsgs, sumBy_append, sumBy, tokMsg,
        (handleResult_tables r.w r.t.addr v).1, (handleResult_tables r.w r.t.addr v).2]
      have := cntA_taskErase_le a r.w.tasks r.t.addr
      omega
    · simp only [phi, tokW, tokMsgs, sumBy_append, sumBy, tokMsg]
      by_cases e : r.t.addr = a
      · subst e
        have := cntA_taskErase_self r.t.addr r.w.tasks
        simp only [if_true]; omega
      · have := cntA_taskErase_other a r.t.addr r.w.tasks (fun h => e h.symm)
        simp only [e, if_false]; omega

theorem bubbleErr_tok (a : Addr) (w : Worker) (t : Task) (out : List Msg) (evs : List Ev) (cls : Nat)
    (isRt : Bool) :
    phi a (bubbleErr w t out evs cls isRt).w (bubbleErr w t out evs cls isRt).out = phi a w out := by
  unfold bubbleErr
  dsimp only
  split <;> simp [phi, tokW, cntA_taskSet, tokMsgs, sumBy_append, sumBy, tokMsg]

theorem processAwait_tables (r r' : Run) (m : Nat) (nxt : Bool) (h : processAwait r m nxt = some r') :
    r'.w.tasks = r.w.tasks ∧ r'.w.delayed = r.w.delayed ∧ r'.out = r.out ∧ r'.t.addr = r.t.addr := by
  unfold processAwait at h
  split at h
  · simp at h
  · simp only [Option.some.injEq] at h
    rw [← h]
    dsimp only
    split <;> exact ⟨rfl, rfl, rfl, rfl⟩

theorem finishStep_tok (a : Addr) (r : Run) (oc : Outcome) :
    phi a (finishStep r oc).w (finishStep r oc).out ≤ phi a r.w r.out := by
  cases oc with
  | awaitF m nxt =>
    simp only [finishStep]
    split
    · rename_i r1 hpa
      obtain ⟨h1, h2, h3, _⟩ := processAwait_tables _ _ _ _ hpa
      simp [phi, tokW, cntA_taskSet, h1, h2, h3]
    · split <;> simp [phi, tokW, cntA_taskSet, tokMsgs, sumBy_append, sumBy, tokMsg]
  | done v =>
    simp only [finishStep]
    have := processCompletion_tok a r v
    split
    · simp only [phi, tokW, tokMsgs, sumBy_append, sumBy, tokMsg] at this ⊢; omega
    · exact this
  | err cls isRt =>
    simp only [finishStep]
    rw [bubbleErr_tok]; exact Nat.le_refl _

theorem ind_le_of_mono (a : Addr) (w x y : Worker) (h : Mono x y) : ind a w x ≤ ind a w y := by
  have := h.ctr
  simp only [ind]
  split <;> split <;> simp_all <;> omega

theorem stepTask_tok (a : Addr) (tbl : Table) (w : Worker) (out : List Msg) (t0 : Task) :
    phi a (stepTask tbl w out t0).w (stepTask tbl w out t0).out
      ≤ phi a w out + ind a w (stepTask tbl w out t0).w := by
  unfold stepTask
  split
  · simp [phi, tokMsgs, sumBy_append, sumBy, tokMsg]
  · rename_i w1 t1 val hd
    obtain ⟨e1, e2⟩ := desiredResult_tables _ _ _ _ _ hd
    have hm1 := desiredResult_mono _ _ _ _ _ hd
    have hphi : phi a w1 out = phi a w out := by simp [phi, tokW, e1, e2]
    split
    · rw [bubbleErr_tok, hphi]; exact Nat.le_add_right _ _
    · dsimp only
      have hA := finishStep_tok a
        (runBody tbl ((tbl.getD t1.prog []).length + 2)
          { w := w1, t := (resume tbl t1 val).1, out := out, evs := (resume tbl t1 val).2 }).1
        (runBody tbl ((tbl.getD t1.prog []).length + 2)
          { w := w1, t := (resume tbl t1 val).1, out := out, evs := (resume tbl t1 val).2 }).2
      have hB := runBody_tok' a tbl ((tbl.getD t1.prog []).length + 2)
        { w := w1, t := (resume tbl t1 val).1, out := out, evs := (resume tbl t1 val).2 }
        w (phi a w out) hm1 (by rw [hphi]; exact Nat.le_add_right _ _)
      have hC := ind_le_of_mono a w _ _ (finishStep_mono
        (runBody tbl ((tbl.getD t1.prog []).length + 2)
          { w := w1, t := (resume tbl t1 val).1, out := out, evs := (resume tbl t1 val).2 }).1
        (runBody tbl ((tbl.getD t1.prog []).length + 2)
          { w := w1, t := (resume tbl t1 val).1, out := out, evs := (resume tbl t1 val).2 }).2)
      omega

/-- one loop iteration of a worker creates at most one token per address, and only for
    addresses `(id, m, ·)` with `m` at or above its mailbox counter -/
theorem step_tok (a : Addr) (tbl : Table) (w : Worker) :
    phi a (w.step tbl).w (w.step tbl).out ≤ tokW a w + ind a w (w.step tbl).w := by
  unfold Worker.step
  dsimp only
  have hp := pick_tok a w.pickFuel { w with blocked := false }
  have h00 : Mono w { w with blocked := false } := Mono.of_eq rfl (fun _ h => h) (fun _ h => h) rfl
  have hpm : Mono w (Worker.pick w.pickFuel { w with blocked := false }).w :=
    h00.trans (pick_mono w.pickFuel _)
  have h0 : tokW a { w with blocked := false } = tokW a w := rfl
  split
  · simp only [phi, tokMsgs, sumBy] at hp ⊢
    omega
  · rename_i t0 _
    have hs := stepTask_tok a tbl (Worker.pick w.pickFuel { w with blocked := false }).w
      (Worker.pick w.pickFuel { w with blocked := false }).out t0
    have hsm := stepTask_mono tbl (Worker.pick w.pickFuel { w with blocked := false }).w
      (Worker.pick w.pickFuel { w with blocked := false }).out t0
    have hi := ind_trans a w _ _ hpm hsm
    omega

end BqVerif.Runtime
