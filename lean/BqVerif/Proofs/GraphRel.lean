import BqVerif.Model.GraphRel
import BqVerif.Proofs.GraphConn
/-!
Relational specifications of `CouplingGraph.maximal_matching` and
`CouplingGraph.get_rooted_minimum_span` (model: `Model/GraphRel.lean`): meaning of the executable
checkers, and acceptance of the algorithm models for an arbitrary enumeration order.
-/
namespace BqVerif.Graph

/-! ### `eraseDups` and lengths -/

theorem length_eraseDups_le {α} [BEq α] [LawfulBEq α] :
    ∀ (l : List α), l.eraseDups.length ≤ l.length
  | [] => by simp
  | a :: as => by
    rw [List.eraseDups_cons]
    have h1 := List.length_filter_le (fun b => !b == a) as
    have : (as.filter fun b => !b == a).length < (a :: as).length := by simp; omega
    have ih := length_eraseDups_le (as.filter fun b => !b == a)
    simp only [List.length_cons]; omega
termination_by l => l.length

theorem nodup_of_length_eraseDups {α} [BEq α] [LawfulBEq α] :
    ∀ (l : List α), l.eraseDups.length = l.length → l.Nodup
  | [], _ => by simp
  | a :: as, h => by
    rw [List.eraseDups_cons] at h
    have h1 := List.length_filter_le (fun b => !b == a) as
    have h2 := length_eraseDups_le (as.filter fun b => !b == a)
    simp only [List.length_cons] at h
    have hf : (as.filter fun b => !b == a).length = as.length := by omega
    have hall := List.length_filter_eq_length_iff.1 hf
    have hf' : (as.filter fun b => !b == a) = as := List.filter_eq_self.2 hall
    rw [hf'] at h
    have ih := nodup_of_length_eraseDups as (by omega)
    rw [List.nodup_cons]
    refine ⟨fun hm => ?_, ih⟩
    have := hall a hm
    simp at this

theorem length_eraseDups_eq_iff {α} [BEq α] [LawfulBEq α] (l : List α) :
    l.eraseDups.length = l.length ↔ l.Nodup :=
  ⟨nodup_of_length_eraseDups l, fun h => by rw [eraseDups_eq_self_of_nodup l h]⟩

/-! ### maximal_matching -/

/-- the endpoints of a list of pairs -/
def ends (res : List (Nat × Nat)) : List Nat := res.flatMap (fun e => [e.1, e.2])

theorem mem_ends (res : List (Nat × Nat)) (v : Nat) :
    v ∈ ends res ↔ ∃ f ∈ res, f.1 = v ∨ f.2 = v := by
  simp only [ends, List.mem_flatMap, List.mem_cons, List.not_mem_nil, or_false]
  constructor
  · rintro ⟨f, hf, h | h⟩
    · exact ⟨f, hf, Or.inl h.symm⟩
    · exact ⟨f, hf, Or.inr h.symm⟩
  · rintro ⟨f, hf, h | h⟩
    · exact ⟨f, hf, Or.inl h.symm⟩
    · exact ⟨f, hf, Or.inr h.symm⟩

theorem length_ends (res : List (Nat × Nat)) : (ends res).length = 2 * res.length := by
  induction res with
  | nil => rfl
  | cons a as ih =>
    simp only [ends, List.flatMap_cons, List.length_append, List.length_cons, List.length_nil] at ih ⊢
    omega

theorem ends_cons (a : Nat × Nat) (as : List (Nat × Nat)) :
    ends (a :: as) = a.1 :: a.2 :: ends as := by
  simp [ends, List.flatMap_cons]

theorem ends_append (l₁ l₂ : List (Nat × Nat)) : ends (l₁ ++ l₂) = ends l₁ ++ ends l₂ := by
  simp [ends, List.flatMap_append]

/-- the endpoint list is duplicate free iff the pairs form a matching -/
theorem nodup_ends_iff (res : List (Nat × Nat)) :
    (ends res).Nodup ↔
      (res.Nodup ∧ ∀ e ∈ res, e.1 ≠ e.2) ∧
      (∀ e ∈ res, ∀ f ∈ res, e ≠ f → e.1 ≠ f.1 ∧ e.1 ≠ f.2 ∧ e.2 ≠ f.1 ∧ e.2 ≠ f.2) := by
  induction res with
  | nil => simp [ends]
  | cons a as ih =>
    rw [ends_cons, List.nodup_cons, List.nodup_cons, ih]
    simp only [List.mem_cons, mem_ends, not_or, not_exists, not_and, List.nodup_cons]
    constructor
    · rintro ⟨⟨h12, h1⟩, h2, ⟨hnd, hne⟩, hdis⟩
      refine ⟨⟨⟨fun hm => ?_, hnd⟩, ?_⟩, ?_⟩
      · exact (h1 a hm).1 rfl
      · rintro e (rfl | he)
        · exact h12
        · exact hne e he
      · rintro e (rfl | he) f (rfl | hf) hef
        · exact absurd rfl hef
        · have := h1 f hf; have := h2 f hf
          refine ⟨?_, ?_, ?_, ?_⟩ <;> omega
        · have := h1 e he; have := h2 e he
          refine ⟨?_, ?_, ?_, ?_⟩ <;> omega
        · exact hdis e he f hf hef
    · rintro ⟨⟨⟨hna, hnd⟩, hne⟩, hdis⟩
      have hane : ∀ f, f ∈ as → a ≠ f := fun f hf h => hna (h ▸ hf)
      refine ⟨⟨hne a (Or.inl rfl), fun f hf => ?_⟩, fun f hf => ?_,
        ⟨hnd, fun e he => hne e (Or.inr he)⟩,
        fun e he f hf hef => hdis e (Or.inr he) f (Or.inr hf) hef⟩
      · have := hdis a (Or.inl rfl) f (Or.inr hf) (hane f hf)
        exact ⟨fun h => this.1 h.symm, fun h => this.2.1 h.symm⟩
      · have := hdis a (Or.inl rfl) f (Or.inr hf) (hane f hf)
        exact ⟨fun h => this.2.2.1 h.symm, fun h => this.2.2.2 h.symm⟩

/-- meaning of the checker `validMatching` -/
theorem validMatching_iff (g : G) (ignored res : List (Nat × Nat)) :
    validMatching g ignored res = true ↔
      (∀ e ∈ res, e ∈ g.edges ∧ ignoredEdge ignored e = false) ∧
      (res.Nodup ∧ ∀ e ∈ res, e.1 ≠ e.2) ∧
      (∀ e ∈ res, ∀ f ∈ res, e ≠ f → e.1 ≠ f.1 ∧ e.1 ≠ f.2 ∧ e.2 ≠ f.1 ∧ e.2 ≠ f.2) ∧
      (∀ e ∈ g.edges, ignoredEdge ignored e = false → e.1 ≠ e.2 →
          ∃ f ∈ res, f.1 = e.1 ∨ f.2 = e.1 ∨ f.1 = e.2 ∨ f.2 = e.2) := by
  have hmid : ((res.flatMap (fun e => [e.1, e.2])).eraseDups.length == 2 * res.length) = true ↔
      (ends res).Nodup := by
    rw [beq_iff_eq, ← length_ends res, ← length_eraseDups_eq_iff]
    rfl
  unfold validMatching
  rw [Bool.and_eq_true, Bool.and_eq_true, hmid, nodup_ends_iff, List.all_eq_true, List.all_eq_true]
  constructor
  · rintro ⟨⟨h1, h2, h3⟩, h4⟩
    refine ⟨fun e he => ?_, h2, h3, fun e he hi hne => ?_⟩
    · have := h1 e he
      simpa using this
    · have := h4 e he
      simp only [Bool.or_eq_true, hi, Bool.false_eq_true, false_or, beq_iff_eq, hne,
        List.any_eq_true, or_assoc] at this
      exact this
  · rintro ⟨h1, h2, h3, h4⟩
    refine ⟨⟨fun e he => ?_, h2, h3⟩, fun e he => ?_⟩
    · have := h1 e he
      simpa using this
    · cases hi : ignoredEdge ignored e
      · by_cases hne : e.1 = e.2
        · simp [hne]
        · have := h4 e he hi hne
          simp only [Bool.or_eq_true, Bool.false_eq_true, false_or, beq_iff_eq, hne,
            List.any_eq_true, or_assoc]
          exact this
      · simp

/-! #### the greedy loop -/

/-- one iteration of the `for edge in edge_list` loop -/
def gStep (acc : List (Nat × Nat) × List Nat) (e : Nat × Nat) : List (Nat × Nat) × List Nat :=
  if !acc.2.contains e.1 && !acc.2.contains e.2 && e.1 != e.2
  then (acc.1 ++ [e], acc.2 ++ [e.1, e.2]) else acc

theorem greedyMatching_eq (el : List (Nat × Nat)) :
    greedyMatching el = (el.foldl gStep ([], [])).1 := rfl

theorem gStep_spec (acc : List (Nat × Nat) × List Nat) (e : Nat × Nat)
    (h1 : acc.2 = ends acc.1) (h2 : acc.2.Nodup) :
    (gStep acc e).2 = ends (gStep acc e).1 ∧ (gStep acc e).2.Nodup ∧
    (∀ f ∈ (gStep acc e).1, f ∈ acc.1 ∨ f = e) ∧ (∀ v ∈ acc.2, v ∈ (gStep acc e).2) ∧
    (e.1 ≠ e.2 → e.1 ∈ (gStep acc e).2 ∨ e.2 ∈ (gStep acc e).2) := by
  unfold gStep
  by_cases hc : (!acc.2.contains e.1 && !acc.2.contains e.2 && e.1 != e.2) = true
  · rw [if_pos hc]
    simp only [Bool.and_eq_true, Bool.not_eq_true', List.contains_eq_mem, decide_eq_false_iff_not,
      bne_iff_ne, ne_eq] at hc
    obtain ⟨⟨hc1, hc2⟩, hc3⟩ := hc
    refine ⟨?_, ?_, ?_, ?_, ?_⟩
    · simp only [ends_append, h1]
      simp [ends]
    · simp only [List.nodup_append, List.nodup_cons, List.mem_cons, List.not_mem_nil, or_false]
      refine ⟨h2, ⟨hc3, by simp⟩, ?_⟩
      rintro a ha b (rfl | rfl) hab
      · exact hc1 (hab ▸ ha)
      · exact hc2 (hab ▸ ha)
    · intro f hf
      simpa using hf
    · intro v hv
      simp [hv]
    · intro _
      simp
  · rw [if_neg hc]
    refine ⟨h1, h2, fun f hf => Or.inl hf, fun v hv => hv, fun hne => ?_⟩
    simp only [Bool.and_eq_true, Bool.not_eq_true', List.contains_eq_mem, decide_eq_false_iff_not,
      bne_iff_ne, ne_eq, not_and, Decidable.not_not] at hc
    by_cases h1' : e.1 ∈ acc.2
    · exact Or.inl h1'
    · by_cases h2' : e.2 ∈ acc.2
      · exact Or.inr h2'
      · exact absurd (hc ⟨h1', h2'⟩) hne

theorem gFold_inv (el : List (Nat × Nat)) : ∀ (acc : List (Nat × Nat) × List Nat),
    acc.2 = ends acc.1 → acc.2.Nodup →
    (el.foldl gStep acc).2 = ends (el.foldl gStep acc).1 ∧ (el.foldl gStep acc).2.Nodup ∧
    (∀ f ∈ (el.foldl gStep acc).1, f ∈ acc.1 ∨ f ∈ el) ∧
    (∀ v ∈ acc.2, v ∈ (el.foldl gStep acc).2) ∧
    (∀ e ∈ el, e.1 ≠ e.2 → e.1 ∈ (el.foldl gStep acc).2 ∨ e.2 ∈ (el.foldl gStep acc).2) := by
  induction el with
  | nil =>
    intro acc h1 h2
    exact ⟨h1, h2, fun f hf => Or.inl hf, fun v hv => hv, by simp⟩
  | cons e es ih =>
    intro acc h1 h2
    rw [List.foldl_cons]
    obtain ⟨s1, s2, s3, s4, s5⟩ := gStep_spec acc e h1 h2
    obtain ⟨r1, r2, r3, r4, r5⟩ := ih (gStep acc e) s1 s2
    refine ⟨r1, r2, fun f hf => ?_, fun v hv => r4 v (s4 v hv), ?_⟩
    · rcases r3 f hf with h | h
      · rcases s3 f h with h | h
        · exact Or.inl h
        · exact Or.inr (by simp [h])
      · exact Or.inr (by simp [h])
    · intro e' he' hne
      rw [List.mem_cons] at he'
      rcases he' with rfl | he'
      · rcases s5 hne with h | h
        · exact Or.inl (r4 _ h)
        · exact Or.inr (r4 _ h)
      · exact r5 e' he' hne

/-- the greedy loop over ANY list `el` returns a matching consisting of edges of `el` that is
maximal within `el` -/
theorem greedyMatching_spec (el : List (Nat × Nat)) :
    (∀ f ∈ greedyMatching el, f ∈ el) ∧ (ends (greedyMatching el)).Nodup ∧
    (∀ e ∈ el, e.1 ≠ e.2 → ∃ f ∈ greedyMatching el, f.1 = e.1 ∨ f.2 = e.1 ∨ f.1 = e.2 ∨ f.2 = e.2) := by
  obtain ⟨r1, r2, r3, _, r5⟩ := gFold_inv el ([], []) rfl (by simp)
  rw [greedyMatching_eq]
  refine ⟨fun f hf => ?_, r1 ▸ r2, fun e he hne => ?_⟩
  · rcases r3 f hf with h | h
    · simp at h
    · exact h
  · rw [r1] at r5
    rcases r5 e he hne with h | h
    · obtain ⟨f, hf, h⟩ := (mem_ends _ _).1 h
      rcases h with h | h
      · exact ⟨f, hf, Or.inl h⟩
      · exact ⟨f, hf, Or.inr (Or.inl h)⟩
    · obtain ⟨f, hf, h⟩ := (mem_ends _ _).1 h
      rcases h with h | h
      · exact ⟨f, hf, Or.inr (Or.inr (Or.inl h))⟩
      · exact ⟨f, hf, Or.inr (Or.inr (Or.inr h))⟩

theorem mem_candidateEdges (g : G) (ignored : List (Nat × Nat)) (e : Nat × Nat) :
    e ∈ candidateEdges g ignored ↔ e ∈ g.edges ∧ ignoredEdge ignored e = false := by
  simp [candidateEdges]

/-- whatever order the code enumerates the candidate edges in (set order of `self._edges`,
`shuffle`), its result is accepted by the checker.  (Only `∀ e, e ∈ el ↔ e ∈ candidateEdges`
is used, so `el` may even repeat edges.) -/
theorem greedyMatching_valid_of_mem (g : G) (ignored el : List (Nat × Nat))
    (hmem : ∀ e, e ∈ el ↔ e ∈ candidateEdges g ignored) :
    validMatching g ignored (greedyMatching el) = true := by
  obtain ⟨s1, s2, s3⟩ := greedyMatching_spec el
  rw [validMatching_iff]
  rw [nodup_ends_iff] at s2
  refine ⟨fun e he => (mem_candidateEdges g ignored e).1 ((hmem e).1 (s1 e he)), s2.1, s2.2,
    fun e he hi hne => s3 e ((hmem e).2 ((mem_candidateEdges g ignored e).2 ⟨he, hi⟩)) hne⟩

theorem greedyMatching_valid (g : G) (ignored el : List (Nat × Nat))
    (hperm : el.Perm (candidateEdges g ignored)) :
    validMatching g ignored (greedyMatching el) = true :=
  greedyMatching_valid_of_mem g ignored el (fun _ => hperm.mem_iff)

/-! ### get_rooted_minimum_span: the checker `validSpan` -/

/-- one step of the fold of `validSpan` -/
def sStep (g : G) (acc : Bool × List Nat) (pc : Nat × Nat) : Bool × List Nat :=
  (acc.1 && g.hasEdge pc.1 pc.2 && acc.2.contains pc.1 && !acc.2.contains pc.2 && pc.2 < g.n,
   acc.2 ++ [pc.2])

theorem validSpan_eq (g : G) (root : Nat) (res : List (Nat × Nat)) :
    validSpan g root res =
      (res.length + 1 == g.n && root < g.n && (res.foldl (sStep g) (true, [root])).1) := rfl

/-- recursive reading of the fold: every pair is an edge from a vertex already seen to a new
vertex `< n` -/
def SpanOK (g : G) : List Nat → List (Nat × Nat) → Prop
  | _, [] => True
  | seen, pc :: rest =>
    (g.hasEdge pc.1 pc.2 = true ∧ pc.1 ∈ seen ∧ pc.2 ∉ seen ∧ pc.2 < g.n) ∧
      SpanOK g (seen ++ [pc.2]) rest

theorem sFold_iff (g : G) (res : List (Nat × Nat)) : ∀ (b : Bool) (seen : List Nat),
    (res.foldl (sStep g) (b, seen)).1 = true ↔ b = true ∧ SpanOK g seen res := by
  induction res with
  | nil => intro b seen; simp [SpanOK]
  | cons pc rest ih =>
    intro b seen
    rw [List.foldl_cons]
    have hs : sStep g (b, seen) pc =
        (b && g.hasEdge pc.1 pc.2 && seen.contains pc.1 && !seen.contains pc.2 && pc.2 < g.n,
          seen ++ [pc.2]) := rfl
    rw [hs, ih]
    simp only [SpanOK, Bool.and_eq_true, Bool.not_eq_true', List.contains_eq_mem,
      decide_eq_true_eq, decide_eq_false_iff_not]
    constructor
    · rintro ⟨⟨⟨⟨⟨hb, h1⟩, h2⟩, h3⟩, h4⟩, h5⟩
      exact ⟨hb, ⟨h1, h2, h3, h4⟩, h5⟩
    · rintro ⟨hb, ⟨h1, h2, h3, h4⟩, h5⟩
      exact ⟨⟨⟨⟨⟨hb, h1⟩, h2⟩, h3⟩, h4⟩, h5⟩

/-- index form of `SpanOK` -/
theorem spanOK_iff (g : G) (res : List (Nat × Nat)) : ∀ (seen : List Nat),
    SpanOK g seen res ↔
      ∀ i (h : i < res.length), g.hasEdge res[i].1 res[i].2 = true ∧ res[i].2 < g.n ∧
        (res[i].1 ∈ seen ∨ ∃ j, j < i ∧ (res.getD j (0, 0)).2 = res[i].1) ∧
        res[i].2 ∉ seen ∧ ∀ j, j < i → (res.getD j (0, 0)).2 ≠ res[i].2 := by
  induction res with
  | nil => intro seen; simp [SpanOK]
  | cons pc rest ih =>
    intro seen
    simp only [SpanOK]
    rw [ih]
    constructor
    · rintro ⟨⟨h1, h2, h3, h4⟩, h5⟩ i hi
      cases i with
      | zero =>
        simp only [List.getElem_cons_zero]
        exact ⟨h1, h4, Or.inl h2, h3, fun j hj => absurd hj (Nat.not_lt_zero j)⟩
      | succ i =>
        simp only [List.getElem_cons_succ]
        have hi' : i < rest.length := by simpa using hi
        obtain ⟨a1, a2, a3, a4, a5⟩ := h5 i hi'
        refine ⟨a1, a2, ?_, fun hm => a4 (by simp [hm]), ?_⟩
        · rcases a3 with a3 | ⟨j, hj, a3⟩
          · rw [List.mem_append] at a3
            rcases a3 with a3 | a3
            · exact Or.inl a3
            · refine Or.inr ⟨0, by omega, ?_⟩
              simp only [List.mem_cons, List.not_mem_nil, or_false] at a3
              simp [a3]
          · exact Or.inr ⟨j + 1, by omega, by simpa using a3⟩
        · intro j hj
          cases j with
          | zero =>
            simp only [List.getD_cons_zero]
            intro h
            exact a4 (by simp [h])
          | succ j =>
            simp only [List.getD_cons_succ]
            exact a5 j (by omega)
    · intro h
      have h0 := h 0 (by simp)
      simp only [List.getElem_cons_zero] at h0
      obtain ⟨a1, a2, a3, a4, _⟩ := h0
      refine ⟨⟨a1, ?_, a4, a2⟩, fun i hi => ?_⟩
      · rcases a3 with a3 | ⟨j, hj, _⟩
        · exact a3
        · omega
      · have hs := h (i + 1) (by simpa using hi)
        simp only [List.getElem_cons_succ] at hs
        obtain ⟨b1, b2, b3, b4, b5⟩ := hs
        refine ⟨b1, b2, ?_, ?_, fun j hj => ?_⟩
        · rcases b3 with b3 | ⟨j, hj, b3⟩
          · exact Or.inl (by simp [b3])
          · cases j with
            | zero =>
              simp only [List.getD_cons_zero] at b3
              exact Or.inl (by simp [b3])
            | succ j =>
              simp only [List.getD_cons_succ] at b3
              exact Or.inr ⟨j, by omega, b3⟩
        · rw [List.mem_append]
          rintro (hm | hm)
          · exact b4 hm
          · simp only [List.mem_cons, List.not_mem_nil, or_false] at hm
            have := b5 0 (by omega)
            simp only [List.getD_cons_zero] at this
            exact this hm.symm
        · have := b5 (j + 1) (by omega)
          simpa using this

/-- meaning of the checker `validSpan`: `n - 1` pairs; the `i`-th pair is an edge of `g` whose
parent is the root or an earlier child and whose child is `< n`, not the root and not an
earlier child.  (`getD` is only evaluated at `j < i < res.length`.) -/
theorem validSpan_iff (g : G) (root : Nat) (res : List (Nat × Nat)) :
    validSpan g root res = true ↔
      res.length + 1 = g.n ∧ root < g.n ∧
      (∀ i (h : i < res.length), g.hasEdge res[i].1 res[i].2 = true ∧ res[i].2 < g.n ∧
        (res[i].1 = root ∨ ∃ j, j < i ∧ (res.getD j (0, 0)).2 = res[i].1) ∧
        res[i].2 ≠ root ∧ ∀ j, j < i → (res.getD j (0, 0)).2 ≠ res[i].2) := by
  rw [validSpan_eq, Bool.and_eq_true, Bool.and_eq_true, sFold_iff, spanOK_iff, beq_iff_eq,
    decide_eq_true_eq]
  simp only [true_and, List.mem_cons, List.not_mem_nil, or_false, and_assoc]

/-! #### consequences: a spanning tree -/

theorem spanOK_edges (g : G) (res : List (Nat × Nat)) : ∀ (seen : List Nat),
    SpanOK g seen res → ∀ pc ∈ res, g.hasEdge pc.1 pc.2 = true := by
  induction res with
  | nil => intro _ _ pc hpc; simp at hpc
  | cons a rest ih =>
    intro seen h pc hpc
    rw [List.mem_cons] at hpc
    rcases hpc with rfl | hpc
    · exact h.1.1
    · exact ih _ h.2 pc hpc

/-- the vertices met are pairwise different and `< n` -/
theorem spanOK_nodup (g : G) (res : List (Nat × Nat)) : ∀ (seen : List Nat),
    SpanOK g seen res → seen.Nodup → (∀ v ∈ seen, v < g.n) →
    (seen ++ res.map (·.2)).Nodup ∧ ∀ v ∈ seen ++ res.map (·.2), v < g.n := by
  induction res with
  | nil => intro seen _ h1 h2; simpa using ⟨h1, h2⟩
  | cons a rest ih =>
    intro seen h h1 h2
    have h1' : (seen ++ [a.2]).Nodup := by
      rw [List.nodup_append]
      refine ⟨h1, by simp, ?_⟩
      intro x hx y hy hxy
      simp only [List.mem_cons, List.not_mem_nil, or_false] at hy
      exact h.1.2.2.1 (hy ▸ hxy ▸ hx)
    have h2' : ∀ v ∈ seen ++ [a.2], v < g.n := by
      intro v hv
      rw [List.mem_append] at hv
      rcases hv with hv | hv
      · exact h2 v hv
      · simp only [List.mem_cons, List.not_mem_nil, or_false] at hv
        exact hv ▸ h.1.2.2.2
    have := ih (seen ++ [a.2]) h.2 h1' h2'
    simpa [List.append_assoc] using this

/-- induction along the listing: a property of the seen vertices that is passed from parent
to child holds for every vertex met -/
theorem spanOK_induct (g : G) (P : Nat → Prop) (res : List (Nat × Nat)) : ∀ (seen : List Nat),
    SpanOK g seen res → (∀ pc ∈ res, P pc.1 → P pc.2) → (∀ v ∈ seen, P v) →
    ∀ v ∈ seen ++ res.map (·.2), P v := by
  induction res with
  | nil => intro seen _ _ h v hv; exact h v (by simpa using hv)
  | cons a rest ih =>
    intro seen h hstep hseen v hv
    have hseen' : ∀ v ∈ seen ++ [a.2], P v := by
      intro v hv
      rw [List.mem_append] at hv
      rcases hv with hv | hv
      · exact hseen v hv
      · simp only [List.mem_cons, List.not_mem_nil, or_false] at hv
        exact hv ▸ hstep a (by simp) (hseen _ h.1.2.1)
    exact ih (seen ++ [a.2]) h.2 (fun pc hpc => hstep pc (by simp [hpc])) hseen' v
      (by simpa [List.append_assoc] using hv)

/-- the graph on the same vertices having exactly the listed pairs as edges -/
def treeOf (g : G) (res : List (Nat × Nat)) : G := ⟨g.n, res.map norm⟩

theorem treeOf_hasEdge_of_mem (g : G) (res : List (Nat × Nat)) {pc : Nat × Nat} (h : pc ∈ res) :
    (treeOf g res).hasEdge pc.1 pc.2 = true := by
  rw [G.hasEdge_iff]
  exact List.mem_map.2 ⟨pc, h, rfl⟩

/-- consequences of acceptance: every vertex is the root or a listed child, is connected to the
root using only the listed pairs (hence `g` is connected and the `n - 1` listed pairs form a
spanning tree), and no vertex is listed twice as a child. -/
theorem validSpan_spanning (g : G) (root : Nat) (res : List (Nat × Nat))
    (h : validSpan g root res = true) :
    (∀ v, v < g.n → v = root ∨ ∃ pc ∈ res, pc.2 = v) ∧
    (∀ v, v < g.n → Reach ⟨g.n, res.map norm⟩ root v) ∧
    (∀ v, v < g.n → Reach g root v) ∧ (res.map (·.2)).Nodup ∧ root ∉ res.map (·.2) := by
  rw [validSpan_eq, Bool.and_eq_true, Bool.and_eq_true, sFold_iff, beq_iff_eq,
    decide_eq_true_eq] at h
  obtain ⟨⟨hlen, hroot⟩, _, hok⟩ := h
  obtain ⟨hnd, hlt⟩ := spanOK_nodup g res [root] hok (by simp) (by simpa using hroot)
  have hfull : ∀ v, v < g.n → v ∈ [root] ++ res.map (·.2) :=
    nodup_lt_full hnd hlt (by simp; omega)
  have hnd' := hnd
  simp only [List.cons_append, List.nil_append, List.nodup_cons] at hnd'
  refine ⟨fun v hv => ?_, fun v hv => ?_, fun v hv => ?_, hnd'.2, hnd'.1⟩
  · have := hfull v hv
    simp only [List.cons_append, List.nil_append, List.mem_cons, List.mem_map] at this
    rcases this with h | ⟨pc, hpc, h⟩
    · exact Or.inl h
    · exact Or.inr ⟨pc, hpc, h⟩
  · exact spanOK_induct g (fun v => Reach (treeOf g res) root v) res [root] hok
      (fun pc hpc hp => Reach.step hp (treeOf_hasEdge_of_mem g res hpc))
      (fun v hv => by simp at hv; subst hv; exact Reach.refl _) v (hfull v hv)
  · exact spanOK_induct g (fun v => Reach g root v) res [root] hok
      (fun pc hpc hp => Reach.step hp (spanOK_edges g res _ hok pc hpc))
      (fun v hv => by simp at hv; subst hv; exact Reach.refl _) v (hfull v hv)

/-- the listed pairs are edges of `g` (in either orientation): the tree is a subgraph -/
theorem validSpan_subgraph (g : G) (root : Nat) (res : List (Nat × Nat))
    (h : validSpan g root res = true) (a b : Nat)
    (hab : (G.mk g.n (res.map norm)).hasEdge a b = true) : g.hasEdge a b = true := by
  rw [validSpan_eq, Bool.and_eq_true, Bool.and_eq_true, sFold_iff] at h
  rw [G.hasEdge_iff] at hab
  obtain ⟨pc, hpc, hn⟩ := List.mem_map.1 hab
  have := spanOK_edges g res _ h.2.2 pc hpc
  rw [G.hasEdge_iff] at this ⊢
  rw [← hn]
  exact this

/-! ### `validMinSpan`: the listed tree is a breadth-first tree -/

/-- walks of a given length -/
inductive Walk (g : G) (a : Nat) : Nat → Nat → Prop
  | refl : Walk g a 0 a
  | step {k b c : Nat} : Walk g a k b → g.hasEdge b c = true → Walk g a (k + 1) c

theorem Walk.reach {g : G} {k a b : Nat} (h : Walk g a k b) : Reach g a b := by
  induction h with
  | refl => exact Reach.refl _
  | step _ he ih => exact Reach.step ih he

theorem Reach.walk {g : G} {a b : Nat} (h : Reach g a b) : ∃ k, Walk g a k b := by
  induction h with
  | refl => exact ⟨0, Walk.refl⟩
  | step _ he ih => obtain ⟨k, hk⟩ := ih; exact ⟨k + 1, Walk.step hk he⟩

theorem lookup_append_of_mem (d x : List (Nat × Nat)) (q : Nat) (h : q ∈ d.map (·.1)) :
    lookup (d ++ x) q = lookup d q := by
  unfold lookup
  rw [List.find?_append]
  cases hf : d.find? (fun p => p.1 == q) with
  | some p => simp
  | none =>
    rw [List.find?_eq_none] at hf
    obtain ⟨p, hp, hpq⟩ := List.mem_map.1 h
    exact absurd (by simpa using hpq) (hf p hp)

theorem lookup_append_of_not_mem (d : List (Nat × Nat)) (q v : Nat) (h : q ∉ d.map (·.1)) :
    lookup (d ++ [(q, v)]) q = v := by
  unfold lookup
  rw [List.find?_append]
  have hf : d.find? (fun p => p.1 == q) = none := by
    rw [List.find?_eq_none]
    intro p hp hpq
    exact h (List.mem_map.2 ⟨p, hp, by simpa using hpq⟩)
  rw [hf]
  simp

/-- the fold of `spanDepths` from an arbitrary table -/
def depthsFrom (d : List (Nat × Nat)) (res : List (Nat × Nat)) : List (Nat × Nat) :=
  res.foldl (fun d pc => d ++ [(pc.2, lookup d pc.1 + 1)]) d

theorem spanDepths_eq (root : Nat) (res : List (Nat × Nat)) :
    spanDepths root res = depthsFrom [(root, 0)] res := rfl

theorem depthsFrom_cons (d : List (Nat × Nat)) (a : Nat × Nat) (rest : List (Nat × Nat)) :
    depthsFrom d (a :: rest) = depthsFrom (d ++ [(a.2, lookup d a.1 + 1)]) rest := rfl

/-- entries present at the start keep their depth -/
theorem lookup_depthsFrom_of_mem (res : List (Nat × Nat)) : ∀ (d : List (Nat × Nat)) (q : Nat),
    q ∈ d.map (·.1) → lookup (depthsFrom d res) q = lookup d q := by
  induction res with
  | nil => intro d q _; rfl
  | cons a rest ih =>
    intro d q hq
    rw [depthsFrom_cons, ih _ q (by simp [List.map_append]; exact Or.inl (by simpa using hq)),
      lookup_append_of_mem d _ q hq]

/-- every vertex met is joined to the root by a walk of `t` whose length is its table depth,
for any graph `t` containing the listed pairs -/
theorem spanOK_walk (g t : G) (root : Nat) (res : List (Nat × Nat)) :
    ∀ (seen : List Nat) (d : List (Nat × Nat)), SpanOK g seen res → seen = d.map (·.1) →
    (∀ pc ∈ res, t.hasEdge pc.1 pc.2 = true) →
    (∀ v ∈ seen, Walk t root (lookup d v) v) →
    ∀ v ∈ seen ++ res.map (·.2), Walk t root (lookup (depthsFrom d res) v) v := by
  induction res with
  | nil => intro seen d _ _ _ h v hv; exact h v (by simpa using hv)
  | cons a rest ih =>
    intro seen d hok hsd hedge hseen v hv
    rw [depthsFrom_cons]
    refine ih (seen ++ [a.2]) (d ++ [(a.2, lookup d a.1 + 1)]) hok.2 (by simp [hsd])
      (fun pc hpc => hedge pc (by simp [hpc])) ?_ v (by simpa [List.append_assoc] using hv)
    intro w hw
    rw [List.mem_append] at hw
    rcases hw with hw | hw
    · rw [lookup_append_of_mem d _ w (hsd ▸ hw)]
      exact hseen w hw
    · simp only [List.mem_cons, List.not_mem_nil, or_false] at hw
      subst hw
      rw [lookup_append_of_not_mem d _ _ (hsd ▸ hok.1.2.2.1)]
      exact Walk.step (hseen _ hok.1.2.1) (hedge a (by simp))

/-- meaning of the checker `validMinSpan` (with `dep v` the depth of `v` in the depth table) -/
theorem validMinSpan_iff (g : G) (root : Nat) (res : List (Nat × Nat)) :
    validMinSpan g root res = true ↔
      validSpan g root res = true ∧
      ∀ e ∈ g.edges, lookup (spanDepths root res) e.1 ≤ lookup (spanDepths root res) e.2 + 1 ∧
                     lookup (spanDepths root res) e.2 ≤ lookup (spanDepths root res) e.1 + 1 := by
  unfold validMinSpan
  rw [Bool.and_eq_true, List.all_eq_true]
  simp only [Bool.and_eq_true, decide_eq_true_eq]

/-- an accepted listing is a breadth-first tree: for every vertex `v` the table depth
`dep v` is the length of a walk from the root inside the listed tree (which is a subgraph of
`g`, so also a walk of `g`), and no walk of `g` from the root to `v` is shorter.  Hence
tree distance = graph distance = `dep v`. -/
theorem validMinSpan_dist (g : G) (root : Nat) (res : List (Nat × Nat))
    (h : validMinSpan g root res = true) (v : Nat) (hv : v < g.n) :
    Walk ⟨g.n, res.map norm⟩ root (lookup (spanDepths root res) v) v ∧
    Walk g root (lookup (spanDepths root res) v) v ∧
    ∀ k, Walk g root k v → lookup (spanDepths root res) v ≤ k := by
  rw [validMinSpan_iff] at h
  obtain ⟨hvs, hdep⟩ := h
  have hvs' := hvs
  rw [validSpan_eq, Bool.and_eq_true, Bool.and_eq_true, sFold_iff, beq_iff_eq,
    decide_eq_true_eq] at hvs'
  obtain ⟨⟨hlen, hroot⟩, _, hok⟩ := hvs'
  obtain ⟨hnd, hlt⟩ := spanOK_nodup g res [root] hok (by simp) (by simpa using hroot)
  have hfull : v ∈ [root] ++ res.map (·.2) := nodup_lt_full hnd hlt (by simp; omega) v hv
  have hbase : ∀ (t : G), ∀ w ∈ [root], Walk t root (lookup [(root, 0)] w) w := by
    intro t w hw
    simp only [List.mem_cons, List.not_mem_nil, or_false] at hw
    subst hw
    have : lookup [(w, 0)] w = 0 := by simp [lookup]
    rw [this]
    exact Walk.refl
  have hlow : ∀ k w, Walk g root k w → lookup (spanDepths root res) w ≤ k := by
    intro k w hk
    induction hk with
    | refl =>
      rw [spanDepths_eq, lookup_depthsFrom_of_mem res _ _ (by simp)]
      simp [lookup]
    | @step k b c _ he ih =>
      rw [G.hasEdge_iff] at he
      have hd := hdep _ he
      unfold norm at hd
      split at hd <;> simp only at hd <;> omega
  refine ⟨?_, ?_, fun k => hlow k v⟩
  · exact spanOK_walk g (treeOf g res) root res [root] [(root, 0)] hok rfl
      (fun pc hpc => treeOf_hasEdge_of_mem g res hpc) (hbase _) v hfull
  · exact spanOK_walk g g root res [root] [(root, 0)] hok rfl
      (spanOK_edges g res _ hok) (hbase _) v hfull

/-! ### non-vacuity -/
section examples

/-- the path 0 - 1 - 2 - 3 -/
private def p4 : G := ⟨4, [(0, 1), (1, 2), (2, 3)]⟩
/-- the 4-cycle with a chord -/
private def c4 : G := ⟨4, [(0, 1), (1, 2), (2, 3), (0, 3), (0, 2)]⟩

-- accepted matchings (the second one is maximal but not maximum)
example : validMatching p4 [] [(0, 1), (2, 3)] = true := by decide
example : validMatching p4 [] [(1, 2)] = true := by decide
-- rejected: not maximal ((2,3) could be added)
example : validMatching p4 [] [(0, 1)] = false := by decide
-- rejected: uses an edge that is ignored in the other orientation
example : validMatching p4 [(1, 0)] [(0, 1), (2, 3)] = false := by decide
-- with that edge ignored the remaining maximal matchings are accepted
example : validMatching p4 [(1, 0)] [(1, 2)] = true ∧ validMatching p4 [(1, 0)] [(2, 3)] = true := by
  decide
-- rejected: two edges sharing the vertex 1; an edge listed twice; a non-edge; a reversed edge
example : validMatching p4 [] [(0, 1), (1, 2)] = false := by decide
example : validMatching p4 [] [(0, 1), (0, 1), (2, 3)] = false := by decide
example : validMatching p4 [] [(0, 2), (1, 3)] = false := by decide
example : validMatching p4 [] [(1, 0), (2, 3)] = false := by decide
-- the greedy loop: the result depends on the enumeration order, both are accepted
example : greedyMatching [(0, 1), (1, 2), (2, 3)] = [(0, 1), (2, 3)] ∧
    greedyMatching [(1, 2), (0, 1), (2, 3)] = [(1, 2)] := by decide
example : [(1, 2), (0, 1), (2, 3)].Perm (candidateEdges p4 []) ∧
    validMatching p4 [] (greedyMatching [(1, 2), (0, 1), (2, 3)]) = true := by decide
example : [(2, 3), (1, 2)].Perm (candidateEdges p4 [(1, 0)]) ∧
    validMatching p4 [(1, 0)] (greedyMatching [(2, 3), (1, 2)]) = true := by decide

-- accepted spans of the path rooted at 1, in both depth-first orders
example : validSpan p4 1 [(1, 0), (1, 2), (2, 3)] = true := by decide
example : validSpan p4 1 [(1, 2), (2, 3), (1, 0)] = true := by decide
-- rejected: child (2,3) listed before its parent edge (1,2)
example : validSpan p4 1 [(2, 3), (1, 2), (1, 0)] = false := by decide
-- rejected: (1,3) is not an edge
example : validSpan p4 1 [(1, 3), (1, 2), (1, 0)] = false := by decide
-- rejected: vertex 3 missing; a vertex listed twice as a child; the root listed as a child
example : validSpan p4 1 [(1, 2), (1, 0)] = false := by decide
example : validSpan p4 1 [(1, 2), (1, 0), (1, 2)] = false := by decide
example : validSpan p4 1 [(1, 2), (2, 1), (1, 0)] = false := by decide
-- rejected: root out of range; a disconnected graph has no accepted span
example : validSpan p4 4 [(1, 0), (1, 2), (2, 3)] = false := by decide
example : validSpan ⟨3, [(0, 1)]⟩ 0 [(0, 1)] = false := by decide
-- one vertex: the empty list
example : validSpan ⟨1, []⟩ 0 [] = true := by decide

-- the real result for the chorded 4-cycle, root 1, is a breadth-first tree …
example : validMinSpan c4 1 [(1, 2), (1, 0), (0, 3)] = true := by decide
-- … whereas this spanning tree (accepted by `validSpan`) reaches 0 through 2: depth 2 instead of 1
example : validSpan c4 1 [(1, 2), (2, 0), (0, 3)] = true ∧
    validMinSpan c4 1 [(1, 2), (2, 0), (0, 3)] = false := by decide
example : spanDepths 1 [(1, 2), (1, 0), (0, 3)] = [(1, 0), (2, 1), (0, 1), (3, 2)] := by decide

end examples

end BqVerif.Graph
