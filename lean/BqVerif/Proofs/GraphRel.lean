import BqVerif.Model.GraphRel
import BqVerif.Proofs.GraphConn
/-!
Relational specifications of `CouplingGraph.maximal_matching` and
`CouplingGraph.get_rooted_minimum_span` (model: `Model/GraphRel.lean`): meaning of the executable
checkers, and acceptance of the algorithm models for an arbitrary enumeration order.
-/
namespace BqVerif.Graph

/-! ### `eraseDups` and lengths -/

theorem length_eraseDups_le {α} [BEq α] [LawfulBEq α] :
    ∀ (l : List α), l.eraseDups.length ≤ l.length
  | [] => by simp
  | a :: as => by
    rw [List.eraseDups_cons]
    have h1 := List.length_filter_le (fun b => !b == a) as
    have : (as.filter fun b => !b == a).length < (a :: as).length := by simp; omega
    have ih := length_eraseDups_le (as.filter fun b => !b == a)
    simp only [List.length_cons]; omega
termination_by l => l.length

theorem nodup_of_length_eraseDups {α} [BEq α] [LawfulBEq α] :
    ∀ (l : List α), l.eraseDups.length = l.length → l.Nodup
  | [], _ => by simp
  | a :: as, h => by
    rw [List.eraseDups_cons] at h
    have h1 := List.length_filter_le (fun b => !b == a) as
    have h2 := length_eraseDups_le (as.filter fun b => !b == a)
    simp only [List.length_cons] at h
    have hf : (as.filter fun b => !b == a).length = as.length := by omega
    have hall := List.length_filter_eq_length_iff.1 hf
    have hf' : (as.filter fun b => !b == a) = as := List.filter_eq_self.2 hall
    rw [hf'] at h
    have ih := nodup_of_length_eraseDups as (by omega)
    rw [List.nodup_cons]
    refine ⟨fun hm => ?_, ih⟩
    have := hall a hm
    simp at this

theorem length_eraseDups_eq_iff {α} [BEq α] [LawfulBEq α] (l : List α) :
    l.eraseDups.length = l.length ↔ l.Nodup :=
  ⟨nodup_of_length_eraseDups l, fun h => by rw [eraseDups_eq_self_of_nodup l h]⟩

/-! ### maximal_matching -/

/-- the endpoints of a list of pairs -/
def ends (res : List (Nat × Nat)) : List Nat := res.flatMap (fun e => [e.1, e.2])

theorem mem_ends (res : List (Nat × Nat)) (v : Nat) :
    v ∈ ends res ↔ ∃ f ∈ res, f.1 = v ∨ f.2 = v := by
  simp only [ends, List.mem_flatMap, List.mem_cons, List.not_mem_nil, or_false]
  constructor
  · rintro ⟨f, hf, h | h⟩
    · exact ⟨f, hf, Or.inl h.symm⟩
    · exact ⟨f, hf, Or.inr h.symm⟩
  · rintro ⟨f, hf, h | h⟩
    · exact ⟨f, hf, Or.inl h.symm⟩
    · exact ⟨f, hf, Or.inr h.symm⟩

theorem length_ends (res : List (Nat × Nat)) : (ends res).length = 2 * res.length := by
  induction res with
  | nil => rfl
  | cons a as ih =>
    simp only [ends, List.flatMap_cons, List.length_append, List.length_cons, List.length_nil] at ih ⊢
    omega

theorem ends_cons (a : Nat × Nat) (as : List (Nat × Nat)) :
    ends (a :: as) = a.1 :: a.2 :: ends as := by
  simp [ends, List.flatMap_cons]

theorem ends_append (l₁ l₂ : List (Nat × Nat)) : ends (l₁ ++ l₂) = ends l₁ ++ ends l₂ := by
  simp [ends, List.flatMap_append]

/-- the endpoint list is duplicate free iff the pairs form a matching -/
theorem nodup_ends_iff (res : List (Nat × Nat)) :
    (ends res).Nodup ↔
      (res.Nodup ∧ ∀ e ∈ res, e.1 ≠ e.2) ∧
      (∀ e ∈ res, ∀ f ∈ res, e ≠ f → e.1 ≠ f.1 ∧ e.1 ≠ f.2 ∧ e.2 ≠ f.1 ∧ e.2 ≠ f.2) := by
  induction res with
  | nil => simp [ends]
  | cons a as ih =>
    rw [ends_cons, List.nodup_cons, List.nodup_cons, ih]
    simp only [List.mem_cons, mem_ends, not_or, not_exists, not_and, List.nodup_cons]
    constructor
    · rintro ⟨⟨h12, h1⟩, h2, ⟨hnd, hne⟩, hdis⟩
      refine ⟨⟨⟨fun hm => ?_, hnd⟩, ?_⟩, ?_⟩
      · exact (h1 a hm).1 rfl
      · rintro e (rfl | he)
        · exact h12
        · exact hne e he
      · rintro e (rfl | he) f (rfl | hf) hef
        · exact absurd rfl hef
        · have := h1 f hf; have := h2 f hf
          refine ⟨?_, ?_, ?_, ?_⟩ <;> omega
        · have := h1 e he; have := h2 e he
          refine ⟨?_, ?_, ?_, ?_⟩ <;> omega
        · exact hdis e he f hf hef
    · rintro ⟨⟨⟨hna, hnd⟩, hne⟩, hdis⟩
      have hane : ∀ f, f ∈ as → a ≠ f := fun f hf h => hna (h ▸ hf)
      refine ⟨⟨hne a (Or.inl rfl), fun f hf => ?_⟩, fun f hf => ?_,
        ⟨hnd, fun e he => hne e (Or.inr he)⟩,
        fun e he f hf hef => hdis e (Or.inr he) f (Or.inr hf) hef⟩
      · have := hdis a (Or.inl rfl) f (Or.inr hf) (hane f hf)
        exact ⟨fun h => this.1 h.symm, fun h => this.2.1 h.symm⟩
      · have := hdis a (Or.inl rfl) f (Or.inr hf) (hane f hf)
        exact ⟨fun h => this.2.2.1 h.symm, fun h => this.2.2.2 h.symm⟩

/-- meaning of the checker `validMatching` -/
theorem validMatching_iff (g : G) (ignored res : List (Nat × Nat)) :
    validMatching g ignored res = true ↔
      (∀ e ∈ res, e ∈ g.edges ∧ ignoredEdge ignored e = false) ∧
      (res.Nodup ∧ ∀ e ∈ res, e.1 ≠ e.2) ∧
      (∀ e ∈ res, ∀ f ∈ res, e ≠ f → e.1 ≠ f.1 ∧ e.1 ≠ f.2 ∧ e.2 ≠ f.1 ∧ e.2 ≠ f.2) ∧
      (∀ e ∈ g.edges, ignoredEdge ignored e = false → e.1 ≠ e.2 →
          ∃ f ∈ res, f.1 = e.1 ∨ f.2 = e.1 ∨ f.1 = e.2 ∨ f.2 = e.2) := by
  have hmid : ((res.flatMap (fun e => [e.1, e.2])).eraseDups.length == 2 * res.length) = true ↔
      (ends res).Nodup := by
    rw [beq_iff_eq, ← length_ends res, ← length_eraseDups_eq_iff]
    rfl
  unfold validMatching
  rw [Bool.and_eq_true, Bool.and_eq_true, hmid, nodup_ends_iff, List.all_eq_true, List.all_eq_true]
  constructor
  · rintro ⟨⟨h1, h2, h3⟩, h4⟩
    refine ⟨fun e he => ?_, h2, h3, fun e he hi hne => ?_⟩
    · have := h1 e he
      simpa using this
    · have := h4 e he
      simp only [Bool.or_eq_true, hi, Bool.false_eq_true, false_or, beq_iff_eq, hne,
        List.any_eq_true, or_assoc] at this
      exact this
  · rintro ⟨h1, h2, h3, h4⟩
    refine ⟨⟨fun e he => ?_, h2, h3⟩, fun e he => ?_⟩
    · have := h1 e he
      simpa using this
    · cases hi : ignoredEdge ignored e
      · by_cases hne : e.1 = e.2
        · simp [hne]
        · have := h4 e he hi hne
          simp only [Bool.or_eq_true, Bool.false_eq_true, false_or, beq_iff_eq, hne,
            List.any_eq_true, or_assoc]
          exact this
      · simp

/-! #### the greedy loop -/

/-- one iteration of the `for edge in edge_list` loop -/
def gStep (acc : List (Nat × Nat) × List Nat) (e : Nat × Nat) : List (Nat × Nat) × List Nat :=
  if !acc.2.contains e.1 && !acc.2.contains e.2 && e.1 != e.2
  then (acc.1 ++ [e], acc.2 ++ [e.1, e.2]) else acc

theorem greedyMatching_eq (el : List (Nat × Nat)) :
    greedyMatching el = (el.foldl gStep ([], [])).1 := rfl

theorem gStep_spec (acc : List (Nat × Nat) × List Nat) (e : Nat × Nat)
    (h1 : acc.2 = ends acc.1) (h2 : acc.2.Nodup) :
    (gStep acc e).2 = ends (gStep acc e).1 ∧ (gStep acc e).2.Nodup ∧
    (∀ f ∈ (gStep acc e).1, f ∈ acc.1 ∨ f = e) ∧ (∀ v ∈ acc.2, v ∈ (gStep acc e).2) ∧
    (e.1 ≠ e.2 → e.1 ∈ (gStep acc e).2 ∨ e.2 ∈ (gStep acc e).2) := by
  unfold gStep
  by_cases hc : (!acc.2.contains e.1 && !acc.2.contains e.2 && e.1 != e.2) = true
  · rw [if_pos hc]
    simp only [Bool.and_eq_true, Bool.not_eq_true', List.contains_eq_mem, decide_eq_false_iff_not,
      bne_iff_ne, ne_eq] at hc
    obtain ⟨⟨hc1, hc2⟩, hc3⟩ := hc
    refine ⟨?_, ?_, ?_, ?_, ?_⟩
    · simp only [ends_append, h1]
      simp [ends]
    · simp only [List.nodup_append, List.nodup_cons, List.mem_cons, List.not_mem_nil, or_false]
      refine ⟨h2, ⟨hc3, by simp⟩, ?_⟩
      rintro a ha b (rfl | rfl) hab
      · exact hc1 (hab ▸ ha)
      · exact hc2 (hab ▸ ha)
    · intro f hf
      simpa using hf
    · intro v hv
      simp [hv]
    · intro _
      simp
  · rw [if_neg hc]
    refine ⟨h1, h2, fun f hf => Or.inl hf, fun v hv => hv, fun hne => ?_⟩
    simp only [Bool.and_eq_true, Bool.not_eq_true', List.contains_eq_mem, decide_eq_false_iff_not,
      bne_iff_ne, ne_eq, not_and, Decidable.not_not] at hc
    by_cases h1' : e.1 ∈ acc.2
    · exact Or.inl h1'
    · by_cases h2' : e.2 ∈ acc.2
      · exact Or.inr h2'
      · exact absurd (hc ⟨h1', h2'⟩) hne

theorem gFold_inv (el : List (Nat × Nat)) : ∀ (acc : List (Nat × Nat) × List Nat),
    acc.2 = ends acc.1 → acc.2.Nodup →
    (el.foldl gStep acc).2 = ends (el.foldl gStep acc).1 ∧ (el.foldl gStep acc).2.Nodup ∧
    (∀ f ∈ (el.foldl gStep acc).1, f ∈ acc.1 ∨ f ∈ el) ∧
    (∀ v ∈ acc.2, v ∈ (el.foldl gStep acc).2) ∧
    (∀ e ∈ el, e.1 ≠ e.2 → e.1 ∈ (el.foldl gStep acc).2 ∨ e.2 ∈ (el.foldl gStep acc).2) := by
  induction el with
  | nil =>
    intro acc h1 h2
    exact ⟨h1, h2, fun f hf => Or.inl hf, fun v hv => hv, by simp⟩
  | cons e es ih =>
    intro acc h1 h2
    rw [List.foldl_cons]
    obtain ⟨s1, s2, s3, s4, s5⟩ := gStep_spec acc e h1 h2
    obtain ⟨r1, r2, r3, r4, r5⟩ := ih (gStep acc e) s1 s2
    refine ⟨r1, r2, fun f hf => ?_, fun v hv => r4 v (s4 v hv), ?_⟩
    · rcases r3 f hf with h | h
      · rcases s3 f h with h | h
        · exact Or.inl h
        · exact Or.inr (by simp [h])
      · exact Or.inr (by simp [h])
    · intro e' he' hne
      rw [List.mem_cons] at he'
      rcases he' with rfl | he'
      · rcases s5 hne with h | h
        · exact Or.inl (r4 _ h)
        · exact Or.inr (r4 _ h)
      · exact r5 e' he' hne

/-- the greedy loop over ANY list `el` returns a matching consisting of edges of `el` that is
maximal within `el` -/
theorem greedyMatching_spec (el : List (Nat × Nat)) :
    (∀ f ∈ greedyMatching el, f ∈ el) ∧ (ends (greedyMatching el)).Nodup ∧
    (∀ e ∈ el, e.1 ≠ e.2 → ∃ f ∈ greedyMatching el, f.1 = e.1 ∨ f.2 = e.1 ∨ f.1 = e.2 ∨ f.2 = e.2) := by
  obtain ⟨r1, r2, r3, _, r5⟩ := gFold_inv el ([], []) rfl (by simp)
  rw [greedyMatching_eq]
  refine ⟨fun f hf => ?_, r1 ▸ r2, fun e he hne => ?_⟩
  · rcases r3 f hf with h | h
    · simp at h
    · exact h
  · rw [r1] at r5
    rcases r5 e he hne with h | h
    · obtain ⟨f, hf, h⟩ := (mem_ends _ _).1 h
      rcases h with h | h
      · exact ⟨f, hf, Or.inl h⟩
      · exact ⟨f, hf, Or.inr (Or.inl h)⟩
    · obtain ⟨f, hf, h⟩ := (mem_ends _ _).1 h
      rcases h with h | h
      · exact ⟨f, hf, Or.inr (Or.inr (Or.inl h))⟩
      · exact ⟨f, hf, Or.inr (Or.inr (Or.inr h))⟩

theorem mem_candidateEdges (g : G) (ignored : List (Nat × Nat)) (e : Nat × Nat) :
    e ∈ candidateEdges g ignored ↔ e ∈ g.edges ∧ ignoredEdge ignored e = false := by
  simp [candidateEdges]

/-- whatever order the code enumerates the candidate edges in (set order of `self._edges`,
`shuffle`), its result is accepted by the checker.  (Only `∀ e, e ∈ el ↔ e ∈ candidateEdges`
is used, so `el` may even repeat edges.) -/
theorem greedyMatching_valid_of_mem (g : G) (ignored el : List (Nat × Nat))
    (hmem : ∀ e, e ∈ el ↔ e ∈ candidateEdges g ignored) :
    validMatching g ignored (greedyMatching el) = true := by
  obtain ⟨s1, s2, s3⟩ := greedyMatching_spec el
  rw [validMatching_iff]
  rw [nodup_ends_iff] at s2
  refine ⟨fun e he => (mem_candidateEdges g ignored e).1 ((hmem e).1 (s1 e he)), s2.1, s2.2,
    fun e he hi hne => s3 e ((hmem e).2 ((mem_candidateEdges g ignored e).2 ⟨he, hi⟩)) hne⟩

theorem greedyMatching_valid (g : G) (ignored el : List (Nat × Nat))
    (hperm : el.Perm (candidateEdges g ignored)) :
    validMatching g ignored (greedyMatching el) = true :=
  greedyMatching_valid_of_mem g ignored el (fun _ => hperm.mem_iff)

end BqVerif.Graph
