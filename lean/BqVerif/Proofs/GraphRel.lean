import BqVerif.Model.GraphRel
import BqVerif.Proofs.GraphConn
/-!
Relational specifications of `CouplingGraph.maximal_matching` and
`CouplingGraph.get_rooted_minimum_span` (model: `Model/GraphRel.lean`): meaning of the executable
checkers, and acceptance of the algorithm models for an arbitrary enumeration order.
-/
namespace BqVerif.Graph

/-! ### `eraseDups` and lengths -/

theorem rel_length_eraseDups_le {α} [BEq α] [LawfulBEq α] :
    ∀ (l : List α), l.eraseDups.length ≤ l.length
  | [] => by simp
  | a :: as => by
    rw [List.eraseDups_cons]
    have h1 := List.length_filter_le (fun b => !b == a) as
    have : (as.filter fun b => !b == a).length < (a :: as).length := by simp; omega
    have ih := rel_length_eraseDups_le (as.filter fun b => !b == a)
    simp only [List.length_cons]; omega
termination_by l => l.length

theorem rel_nodup_of_length_eraseDups {α} [BEq α] [LawfulBEq α] :
    ∀ (l : List α), l.eraseDups.length = l.length → l.Nodup
  | [], _ => by simp
  | a :: as, h => by
    rw [List.eraseDups_cons] at h
    have h1 := List.length_filter_le (fun b => !b == a) as
    have h2 := rel_length_eraseDups_le (as.filter fun b => !b == a)
    simp only [List.length_cons] at h
    have hf : (as.filter fun b => !b == a).length = as.length := by omega
    have hall := List.length_filter_eq_length_iff.1 hf
    have hf' : (as.filter fun b => !b == a) = as := List.filter_eq_self.2 hall
    rw [hf'] at h
    have ih := rel_nodup_of_length_eraseDups as (by omega)
    rw [List.nodup_cons]
    refine ⟨fun hm => ?_, ih⟩
    have := hall a hm
    simp at this

theorem rel_length_eraseDups_eq_iff {α} [BEq α] [LawfulBEq α] (l : List α) :
    l.eraseDups.length = l.length ↔ l.Nodup :=
  ⟨rel_nodup_of_length_eraseDups l, fun h => by rw [eraseDups_eq_self_of_nodup l h]⟩

/-! ### maximal_matching -/

/-- the endpoints of a list of pairs -/
def ends (res : List (Nat × Nat)) : List Nat := res.flatMap (fun e => [e.1, e.2])

theorem mem_ends (res : List (Nat × Nat)) (v : Nat) :
    v ∈ ends res ↔ ∃ f ∈ res, f.1 = v ∨ f.2 = v := by
  simp only [ends, List.mem_flatMap, List.mem_cons, List.not_mem_nil, or_false]
  constructor
  · rintro ⟨f, hf, h | h⟩
    · exact ⟨f, hf, Or.inl h.symm⟩
    · exact ⟨f, hf, Or.inr h.symm⟩
  · rintro ⟨f, hf, h | h⟩
    · exact ⟨f, hf, Or.inl h.symm⟩
    · exact ⟨f, hf, Or.inr h.symm⟩

theorem length_ends (res : List (Nat × Nat)) : (ends res).length = 2 * res.length := by
  induction res with
  | nil => rfl
  | cons a as ih =>
    simp only [ends, List.flatMap_cons, List.length_append, List.length_cons, List.length_nil] at ih ⊢
    omega

theorem ends_cons (a : Nat × Nat) (as : List (Nat × Nat)) :
    ends (a :: as) = a.1 :: a.2 :: ends as := by
  simp [ends, List.flatMap_cons]

theorem ends_append (l₁ l₂ : List (Nat × Nat)) : ends (l₁ ++ l₂) = ends l₁ ++ ends l₂ := by
  simp [ends, List.flatMap_append]

/-- the endpoint list is duplicate free iff the pairs form a matching -/
theorem nodup_ends_iff (res : List (Nat × Nat)) :
    (ends res).Nodup ↔
      (res.Nodup ∧ ∀ e ∈ res, e.1 ≠ e.2) ∧
      (∀ e ∈ res, ∀ f ∈ res, e ≠ f → e.1 ≠ f.1 ∧ e.1 ≠ f.2 ∧ e.2 ≠ f.1 ∧ e.2 ≠ f.2) := by
  induction res with
  | nil => simp [ends]
  | cons a as ih =>
    rw [ends_cons, List.nodup_cons, List.nodup_cons, ih]
    simp only [List.mem_cons, mem_ends, not_or, not_exists, not_and, List.nodup_cons]
    constructor
    · rintro ⟨⟨h12, h1⟩, h2, ⟨hnd, hne⟩, hdis⟩
      refine ⟨⟨⟨fun hm => ?_, hnd⟩, ?_⟩, ?_⟩
      · exact (h1 a hm).1 rfl
      · rintro e (rfl | he)
        · exact h12
        · exact hne e he
      · rintro e (rfl | he) f (rfl | hf) hef
        · exact absurd rfl hef
        · have := h1 f hf; have := h2 f hf
          refine ⟨?_, ?_, ?_, ?_⟩ <;> omega
        · have := h1 e he; have := h2 e he
          refine ⟨?_, ?_, ?_, ?_⟩ <;> omega
        · exact hdis e he f hf hef
    · rintro ⟨⟨⟨hna, hnd⟩, hne⟩, hdis⟩
      have hane : ∀ f, f ∈ as → a ≠ f := fun f hf h => hna (h ▸ hf)
      refine ⟨⟨hne a (Or.inl rfl), fun f hf => ?_⟩, fun f hf => ?_,
        ⟨hnd, fun e he => hne e (Or.inr he)⟩,
        fun e he f hf hef => hdis e (Or.inr he) f (Or.inr hf) hef⟩
      · have := hdis a (Or.inl rfl) f (Or.inr hf) (hane f hf)
        exact ⟨fun h => this.1 h.symm, fun h => this.2.1 h.symm⟩
      · have := hdis a (Or.inl rfl) f (Or.inr hf) (hane f hf)
        exact ⟨fun h => this.2.2.1 h.symm, fun h => this.2.2.2 h.symm⟩

/-- meaning of the checker `validMatching` -/
theorem validMatching_iff (g : G) (ignored res : List (Nat × Nat)) :
    validMatching g ignored res = true ↔
      (∀ e ∈ res, e ∈ g.edges ∧ ignoredEdge ignored e = false) ∧
      (res.Nodup ∧ ∀ e ∈ res, e.1 ≠ e.2) ∧
      (∀ e ∈ res, ∀ f ∈ res, e ≠ f → e.1 ≠ f.1 ∧ e.1 ≠ f.2 ∧ e.2 ≠ f.1 ∧ e.2 ≠ f.2) ∧
      (∀ e ∈ g.edges, ignoredEdge ignored e = false → e.1 ≠ e.2 →
          ∃ f ∈ res, f.1 = e.1 ∨ f.2 = e.1 ∨ f.1 = e.2 ∨ f.2 = e.2) := by
  have hmid : ((res.flatMap (fun e => [e.1, e.2])).eraseDups.length == 2 * res.length) = true ↔
      (ends res).Nodup := by
    rw [beq_iff_eq, ← length_ends res, ← rel_length_eraseDups_eq_iff]
    rfl
  unfold validMatching
  rw [Bool.and_eq_true, Bool.and_eq_true, hmid, nodup_ends_iff, List.all_eq_true, List.all_eq_true]
  constructor
  · rintro ⟨⟨h1, h2, h3⟩, h4⟩
    refine ⟨fun e he => ?_, h2, h3, fun e he hi hne => ?_⟩
    · have := h1 e he
      simpa using this
    · have := h4 e he
      simp only [Bool.or_eq_true, hi, Bool.false_eq_true, false_or, beq_iff_eq, hne,
        List.any_eq_true, or_assoc] at this
      exact this
  · rintro ⟨h1, h2, h3, h4⟩
    refine ⟨⟨fun e he => ?_, h2, h3⟩, fun e he => ?_⟩
    · have := h1 e he
      simpa using this
    · cases hi : ignoredEdge ignored e
      · by_cases hne : e.1 = e.2
        · simp [hne]
        · have := h4 e he hi hne
          simp only [Bool.or_eq_true, Bool.false_eq_true, false_or, beq_iff_eq, hne,
            List.any_eq_true, or_assoc]
          exact this
      · simp

/-! #### the greedy loop -/

/-- one iteration of the `for edge in edge_list` loop -/
def gStep (acc : List (Nat × Nat) × List Nat) (e : Nat × Nat) : List (Nat × Nat) × List Nat :=
  if !acc.2.contains e.1 && !acc.2.contains e.2 && e.1 != e.2
  then (acc.1 ++ [e], acc.2 ++ [e.1, e.2]) else acc

theorem greedyMatching_eq (el : List (Nat × Nat)) :
    greedyMatching el = (el.foldl gStep ([], [])).1 := rfl

theorem gStep_spec (acc : List (Nat × Nat) × List Nat) (e : Nat × Nat)
    (h1 : acc.2 = ends acc.1) (h2 : acc.2.Nodup) :
    (gStep acc e).2 = ends (gStep acc e).1 ∧ (gStep acc e).2.Nodup ∧
    (∀ f ∈ (gStep acc e).1, f ∈ acc.1 ∨ f = e) ∧ (∀ v ∈ acc.2, v ∈ (gStep acc e).2) ∧
    (e.1 ≠ e.2 → e.1 ∈ (gStep acc e).2 ∨ e.2 ∈ (gStep acc e).2) := by
  unfold gStep
  by_cases hc : (!acc.2.contains e.1 && !acc.2.contains e.2 && e.1 != e.2) = true
  · rw [if_pos hc]
    simp only [Bool.and_eq_true, Bool.not_eq_true', List.contains_eq_mem, decide_eq_false_iff_not,
      bne_iff_ne, ne_eq] at hc
    obtain ⟨⟨hc1, hc2⟩, hc3⟩ := hc
    refine ⟨?_, ?_, ?_, ?_, ?_⟩
    · simp only [ends_append, h1]
      simp [ends]
    · simp only [List.nodup_append, List.nodup_cons, List.mem_cons, List.not_mem_nil, or_false]
      refine ⟨h2, ⟨hc3, by simp⟩, ?_⟩
      rintro a ha b (rfl | rfl) hab
      · exact hc1 (hab ▸ ha)
      · exact hc2 (hab ▸ ha)
    · intro f hf
      simpa using hf
    · intro v hv
      simp [hv]
    · intro _
      simp
  · rw [if_neg hc]
    refine ⟨h1, h2, fun f hf => Or.inl hf, fun v hv => hv, fun hne => ?_⟩
    simp only [Bool.and_eq_true, Bool.not_eq_true', List.contains_eq_mem, decide_eq_false_iff_not,
      bne_iff_ne, ne_eq, not_and, Decidable.not_not] at hc
    by_cases h1' : e.1 ∈ acc.2
    · exact Or.inl h1'
    · by_cases h2' : e.2 ∈ acc.2
      · exact Or.inr h2'
      · exact absurd (hc ⟨h1', h2'⟩) hne

theorem gFold_inv (el : List (Nat × Nat)) : ∀ (acc : List (Nat × Nat) × List Nat),
    acc.2 = ends acc.1 → acc.2.Nodup →
    (el.foldl gStep acc).2 = ends (el.foldl gStep acc).1 ∧ (el.foldl gStep acc).2.Nodup ∧
    (∀ f ∈ (el.foldl gStep acc).1, f ∈ acc.1 ∨ f ∈ el) ∧
    (∀ v ∈ acc.2, v ∈ (el.foldl gStep acc).2) ∧
    (∀ e ∈ el, e.1 ≠ e.2 → e.1 ∈ (el.foldl gStep acc).2 ∨ e.2 ∈ (el.foldl gStep acc).2) := by
  induction el with
  | nil =>
    intro acc h1 h2
    exact ⟨h1, h2, fun f hf => Or.inl hf, fun v hv => hv, by simp⟩
  | cons e es ih =>
    intro acc h1 h2
    rw [List.foldl_cons]
    obtain ⟨s1, s2, s3, s4, s5⟩ := gStep_spec acc e h1 h2
    obtain ⟨r1, r2, r3, r4, r5⟩ := ih (gStep acc e) s1 s2
    refine ⟨r1, r2, fun f hf => ?_, fun v hv => r4 v (s4 v hv), ?_⟩
    · rcases r3 f hf with h | h
      · rcases s3 f h with h | h
        · exact Or.inl h
        · exact Or.inr (by simp [h])
      · exact Or.inr (by simp [h])
    · intro e' he' hne
      rw [List.mem_cons] at he'
      rcases he' with rfl | he'
      · rcases s5 hne with h | h
        · exact Or.inl (r4 _ h)
        · exact Or.inr (r4 _ h)
      · exact r5 e' he' hne

/-- the greedy loop over ANY list `el` returns a matching consisting of edges of `el` that is
maximal within `el` -/
theorem greedyMatching_spec (el : List (Nat × Nat)) :
    (∀ f ∈ greedyMatching el, f ∈ el) ∧ (ends (greedyMatching el)).Nodup ∧
    (∀ e ∈ el, e.1 ≠ e.2 → ∃ f ∈ greedyMatching el, f.1 = e.1 ∨ f.2 = e.1 ∨ f.1 = e.2 ∨ f.2 = e.2) := by
  obtain ⟨r1, r2, r3, _, r5⟩ := gFold_inv el ([], []) rfl (by simp)
  rw [greedyMatching_eq]
  refine ⟨fun f hf => ?_, r1 ▸ r2, fun e he hne => ?_⟩
  · rcases r3 f hf with h | h
    · simp at h
    · exact h
  · rw [r1] at r5
    rcases r5 e he hne with h | h
    · obtain ⟨f, hf, h⟩ := (mem_ends _ _).1 h
      rcases h with h | h
      · exact ⟨f, hf, Or.inl h⟩
      · exact ⟨f, hf, Or.inr (Or.inl h)⟩
    · obtain ⟨f, hf, h⟩ := (mem_ends _ _).1 h
      rcases h with h | h
      · exact ⟨f, hf, Or.inr (Or.inr (Or.inl h))⟩
      · exact ⟨f, hf, Or.inr (Or.inr (Or.inr h))⟩

theorem mem_candidateEdges (g : G) (ignored : List (Nat × Nat)) (e : Nat × Nat) :
    e ∈ candidateEdges g ignored ↔ e ∈ g.edges ∧ ignoredEdge ignored e = false := by
  simp [candidateEdges]

/-- whatever order the code enumerates the candidate edges in (set order of `self._edges`,
`shuffle`), its result is accepted by the checker.  (Only `∀ e, e ∈ el ↔ e ∈ candidateEdges`
is used, so `el` may even repeat edges.) -/
theorem greedyMatching_valid_of_mem (g : G) (ignored el : List (Nat × Nat))
    (hmem : ∀ e, e ∈ el ↔ e ∈ candidateEdges g ignored) :
    validMatching g ignored (greedyMatching el) = true := by
  obtain ⟨s1, s2, s3⟩ := greedyMatching_spec el
  rw [validMatching_iff]
  rw [nodup_ends_iff] at s2
  refine ⟨fun e he => (mem_candidateEdges g ignored e).1 ((hmem e).1 (s1 e he)), s2.1, s2.2,
    fun e he hi hne => s3 e ((hmem e).2 ((mem_candidateEdges g ignored e).2 ⟨he, hi⟩)) hne⟩

theorem greedyMatching_valid (g : G) (ignored el : List (Nat × Nat))
    (hperm : el.Perm (candidateEdges g ignored)) :
    validMatching g ignored (greedyMatching el) = true :=
  greedyMatching_valid_of_mem g ignored el (fun _ => hperm.mem_iff)

/-- acceptance does not depend on the order in which the matching is listed (the code returns
`list(matching)` of a Python set: some permutation of the insertion order of the model) -/
theorem validMatching_perm (g : G) (ignored res res' : List (Nat × Nat)) (hp : res.Perm res') :
    validMatching g ignored res = validMatching g ignored res' := by
  have key : ∀ (r r' : List (Nat × Nat)), r.Perm r' →
      validMatching g ignored r = true → validMatching g ignored r' = true := by
    intro r r' hp h
    rw [validMatching_iff] at h ⊢
    obtain ⟨a1, ⟨a2, a3⟩, a4, a5⟩ := h
    refine ⟨fun e he => a1 e (hp.mem_iff.2 he), ⟨hp.nodup a2, fun e he => a3 e (hp.mem_iff.2 he)⟩,
      fun e he f hf => a4 e (hp.mem_iff.2 he) f (hp.mem_iff.2 hf), fun e he hi hne => ?_⟩
    obtain ⟨f, hf, h⟩ := a5 e he hi hne
    exact ⟨f, hp.mem_iff.1 hf, h⟩
  rw [Bool.eq_iff_iff]
  exact ⟨key res res' hp, key res' res hp.symm⟩

/-- hence every listing of the matching built by the code is accepted -/
theorem greedyMatching_valid_perm (g : G) (ignored el res : List (Nat × Nat))
    (hperm : el.Perm (candidateEdges g ignored)) (hres : res.Perm (greedyMatching el)) :
    validMatching g ignored res = true := by
  rw [validMatching_perm g ignored res _ hres]
  exact greedyMatching_valid g ignored el hperm

/-! ### get_rooted_minimum_span: the checker `validSpan` -/

/-- one step of the fold of `validSpan` -/
def sStep (g : G) (acc : Bool × List Nat) (pc : Nat × Nat) : Bool × List Nat :=
  (acc.1 && g.hasEdge pc.1 pc.2 && acc.2.contains pc.1 && !acc.2.contains pc.2 && pc.2 < g.n,
   acc.2 ++ [pc.2])

theorem validSpan_eq (g : G) (root : Nat) (res : List (Nat × Nat)) :
    validSpan g root res =
      (res.length + 1 == g.n && root < g.n && (res.foldl (sStep g) (true, [root])).1) := rfl

/-- recursive reading of the fold: every pair is an edge from a vertex already seen to a new
vertex `< n` -/
def SpanOK (g : G) : List Nat → List (Nat × Nat) → Prop
  | _, [] => True
  | seen, pc :: rest =>
    (g.hasEdge pc.1 pc.2 = true ∧ pc.1 ∈ seen ∧ pc.2 ∉ seen ∧ pc.2 < g.n) ∧
      SpanOK g (seen ++ [pc.2]) rest

theorem sFold_iff (g : G) (res : List (Nat × Nat)) : ∀ (b : Bool) (seen : List Nat),
    (res.foldl (sStep g) (b, seen)).1 = true ↔ b = true ∧ SpanOK g seen res := by
  induction res with
  | nil => intro b seen; simp [SpanOK]
  | cons pc rest ih =>
    intro b seen
    rw [List.foldl_cons]
    have hs : sStep g (b, seen) pc =
        (b && g.hasEdge pc.1 pc.2 && seen.contains pc.1 && !seen.contains pc.2 && pc.2 < g.n,
          seen ++ [pc.2]) := rfl
    rw [hs, ih]
    simp only [SpanOK, Bool.and_eq_true, Bool.not_eq_true', List.contains_eq_mem,
      decide_eq_true_eq, decide_eq_false_iff_not]
    constructor
    · rintro ⟨⟨⟨⟨⟨hb, h1⟩, h2⟩, h3⟩, h4⟩, h5⟩
      exact ⟨hb, ⟨h1, h2, h3, h4⟩, h5⟩
    · rintro ⟨hb, ⟨h1, h2, h3, h4⟩, h5⟩
      exact ⟨⟨⟨⟨⟨hb, h1⟩, h2⟩, h3⟩, h4⟩, h5⟩

/-- index form of `SpanOK` -/
theorem spanOK_iff (g : G) (res : List (Nat × Nat)) : ∀ (seen : List Nat),
    SpanOK g seen res ↔
      ∀ i (h : i < res.length), g.hasEdge res[i].1 res[i].2 = true ∧ res[i].2 < g.n ∧
        (res[i].1 ∈ seen ∨ ∃ j, j < i ∧ (res.getD j (0, 0)).2 = res[i].1) ∧
        res[i].2 ∉ seen ∧ ∀ j, j < i → (res.getD j (0, 0)).2 ≠ res[i].2 := by
  induction res with
  | nil => intro seen; simp [SpanOK]
  | cons pc rest ih =>
    intro seen
    simp only [SpanOK]
    rw [ih]
    constructor
    · rintro ⟨⟨h1, h2, h3, h4⟩, h5⟩ i hi
      cases i with
      | zero =>
        simp only [List.getElem_cons_zero]
        exact ⟨h1, h4, Or.inl h2, h3, fun j hj => absurd hj (Nat.not_lt_zero j)⟩
      | succ i =>
        simp only [List.getElem_cons_succ]
        have hi' : i < rest.length := by simpa using hi
        obtain ⟨a1, a2, a3, a4, a5⟩ := h5 i hi'
        refine ⟨a1, a2, ?_, fun hm => a4 (by simp [hm]), ?_⟩
        · rcases a3 with a3 | ⟨j, hj, a3⟩
          · rw [List.mem_append] at a3
            rcases a3 with a3 | a3
            · exact Or.inl a3
            · refine Or.inr ⟨0, by omega, ?_⟩
              simp only [List.mem_cons, List.not_mem_nil, or_false] at a3
              simp [a3]
          · exact Or.inr ⟨j + 1, by omega, by simpa using a3⟩
        · intro j hj
          cases j with
          | zero =>
            simp only [List.getD_cons_zero]
            intro h
            exact a4 (by simp [h])
          | succ j =>
            simp only [List.getD_cons_succ]
            exact a5 j (by omega)
    · intro h
      have h0 := h 0 (by simp)
      simp only [List.getElem_cons_zero] at h0
      obtain ⟨a1, a2, a3, a4, _⟩ := h0
      refine ⟨⟨a1, ?_, a4, a2⟩, fun i hi => ?_⟩
      · rcases a3 with a3 | ⟨j, hj, _⟩
        · exact a3
        · omega
      · have hs := h (i + 1) (by simpa using hi)
        simp only [List.getElem_cons_succ] at hs
        obtain ⟨b1, b2, b3, b4, b5⟩ := hs
        refine ⟨b1, b2, ?_, ?_, fun j hj => ?_⟩
        · rcases b3 with b3 | ⟨j, hj, b3⟩
          · exact Or.inl (by simp [b3])
          · cases j with
            | zero =>
              simp only [List.getD_cons_zero] at b3
              exact Or.inl (by simp [b3])
            | succ j =>
              simp only [List.getD_cons_succ] at b3
              exact Or.inr ⟨j, by omega, b3⟩
        · rw [List.mem_append]
          rintro (hm | hm)
          · exact b4 hm
          · simp only [List.mem_cons, List.not_mem_nil, or_false] at hm
            have := b5 0 (by omega)
            simp only [List.getD_cons_zero] at this
            exact this hm.symm
        · have := b5 (j + 1) (by omega)
          simpa using this

/-- meaning of the checker `validSpan`: `n - 1` pairs; the `i`-th pair is an edge of `g` whose
parent is the root or an earlier child and whose child is `< n`, not the root and not an
earlier child.  (`getD` is only evaluated at `j < i < res.length`.) -/
theorem validSpan_iff (g : G) (root : Nat) (res : List (Nat × Nat)) :
    validSpan g root res = true ↔
      res.length + 1 = g.n ∧ root < g.n ∧
      (∀ i (h : i < res.length), g.hasEdge res[i].1 res[i].2 = true ∧ res[i].2 < g.n ∧
        (res[i].1 = root ∨ ∃ j, j < i ∧ (res.getD j (0, 0)).2 = res[i].1) ∧
        res[i].2 ≠ root ∧ ∀ j, j < i → (res.getD j (0, 0)).2 ≠ res[i].2) := by
  rw [validSpan_eq, Bool.and_eq_true, Bool.and_eq_true, sFold_iff, spanOK_iff, beq_iff_eq,
    decide_eq_true_eq]
  simp only [true_and, List.mem_cons, List.not_mem_nil, or_false, and_assoc]

/-! #### consequences: a spanning tree -/

theorem spanOK_edges (g : G) (res : List (Nat × Nat)) : ∀ (seen : List Nat),
    SpanOK g seen res → ∀ pc ∈ res, g.hasEdge pc.1 pc.2 = true := by
  induction res with
  | nil => intro _ _ pc hpc; simp at hpc
  | cons a rest ih =>
    intro seen h pc hpc
    rw [List.mem_cons] at hpc
    rcases hpc with rfl | hpc
    · exact h.1.1
    · exact ih _ h.2 pc hpc

/-- the vertices met are pairwise different and `< n` -/
theorem spanOK_nodup (g : G) (res : List (Nat × Nat)) : ∀ (seen : List Nat),
    SpanOK g seen res → seen.Nodup → (∀ v ∈ seen, v < g.n) →
    (seen ++ res.map (·.2)).Nodup ∧ ∀ v ∈ seen ++ res.map (·.2), v < g.n := by
  induction res with
  | nil => intro seen _ h1 h2; simpa using ⟨h1, h2⟩
  | cons a rest ih =>
    intro seen h h1 h2
    have h1' : (seen ++ [a.2]).Nodup := by
      rw [List.nodup_append]
      refine ⟨h1, by simp, ?_⟩
      intro x hx y hy hxy
      simp only [List.mem_cons, List.not_mem_nil, or_false] at hy
      exact h.1.2.2.1 (hy ▸ hxy ▸ hx)
    have h2' : ∀ v ∈ seen ++ [a.2], v < g.n := by
      intro v hv
      rw [List.mem_append] at hv
      rcases hv with hv | hv
      · exact h2 v hv
      · simp only [List.mem_cons, List.not_mem_nil, or_false] at hv
        exact hv ▸ h.1.2.2.2
    have := ih (seen ++ [a.2]) h.2 h1' h2'
    simpa [List.append_assoc] using this

/-- induction along the listing: a property of the seen vertices that is passed from parent
to child holds for every vertex met -/
theorem spanOK_induct (g : G) (P : Nat → Prop) (res : List (Nat × Nat)) : ∀ (seen : List Nat),
    SpanOK g seen res → (∀ pc ∈ res, P pc.1 → P pc.2) → (∀ v ∈ seen, P v) →
    ∀ v ∈ seen ++ res.map (·.2), P v := by
  induction res with
  | nil => intro seen _ _ h v hv; exact h v (by simpa using hv)
  | cons a rest ih =>
    intro seen h hstep hseen v hv
    have hseen' : ∀ v ∈ seen ++ [a.2], P v := by
      intro v hv
      rw [List.mem_append] at hv
      rcases hv with hv | hv
      · exact hseen v hv
      · simp only [List.mem_cons, List.not_mem_nil, or_false] at hv
        exact hv ▸ hstep a (by simp) (hseen _ h.1.2.1)
    exact ih (seen ++ [a.2]) h.2 (fun pc hpc => hstep pc (by simp [hpc])) hseen' v
      (by simpa [List.append_assoc] using hv)

/-- the graph on the same vertices having exactly the listed pairs as edges -/
def treeOf (g : G) (res : List (Nat × Nat)) : G := ⟨g.n, res.map norm⟩

theorem treeOf_hasEdge_of_mem (g : G) (res : List (Nat × Nat)) {pc : Nat × Nat} (h : pc ∈ res) :
    (treeOf g res).hasEdge pc.1 pc.2 = true := by
  rw [G.hasEdge_iff]
  exact List.mem_map.2 ⟨pc, h, rfl⟩

/-- consequences of acceptance: every vertex is the root or a listed child, is connected to the
root using only the listed pairs (hence `g` is connected and the `n - 1` listed pairs form a
spanning tree), and no vertex is listed twice as a child. -/
theorem validSpan_spanning (g : G) (root : Nat) (res : List (Nat × Nat))
    (h : validSpan g root res = true) :
    (∀ v, v < g.n → v = root ∨ ∃ pc ∈ res, pc.2 = v) ∧
    (∀ v, v < g.n → Reach ⟨g.n, res.map norm⟩ root v) ∧
    (∀ v, v < g.n → Reach g root v) ∧ (res.map (·.2)).Nodup ∧ root ∉ res.map (·.2) := by
  rw [validSpan_eq, Bool.and_eq_true, Bool.and_eq_true, sFold_iff, beq_iff_eq,
    decide_eq_true_eq] at h
  obtain ⟨⟨hlen, hroot⟩, _, hok⟩ := h
  obtain ⟨hnd, hlt⟩ := spanOK_nodup g res [root] hok (by simp) (by simpa using hroot)
  have hfull : ∀ v, v < g.n → v ∈ [root] ++ res.map (·.2) :=
    nodup_lt_full hnd hlt (by simp; omega)
  have hnd' := hnd
  simp only [List.cons_append, List.nil_append, List.nodup_cons] at hnd'
  refine ⟨fun v hv => ?_, fun v hv => ?_, fun v hv => ?_, hnd'.2, hnd'.1⟩
  · have := hfull v hv
    simp only [List.cons_append, List.nil_append, List.mem_cons, List.mem_map] at this
    rcases this with h | ⟨pc, hpc, h⟩
    · exact Or.inl h
    · exact Or.inr ⟨pc, hpc, h⟩
  · exact spanOK_induct g (fun v => Reach (treeOf g res) root v) res [root] hok
      (fun pc hpc hp => Reach.step hp (treeOf_hasEdge_of_mem g res hpc))
      (fun v hv => by simp at hv; subst hv; exact Reach.refl _) v (hfull v hv)
  · exact spanOK_induct g (fun v => Reach g root v) res [root] hok
      (fun pc hpc hp => Reach.step hp (spanOK_edges g res _ hok pc hpc))
      (fun v hv => by simp at hv; subst hv; exact Reach.refl _) v (hfull v hv)

/-- the listed pairs are edges of `g` (in either orientation): the tree is a subgraph -/
theorem validSpan_subgraph (g : G) (root : Nat) (res : List (Nat × Nat))
    (h : validSpan g root res = true) (a b : Nat)
    (hab : (G.mk g.n (res.map norm)).hasEdge a b = true) : g.hasEdge a b = true := by
  rw [validSpan_eq, Bool.and_eq_true, Bool.and_eq_true, sFold_iff] at h
  rw [G.hasEdge_iff] at hab
  obtain ⟨pc, hpc, hn⟩ := List.mem_map.1 hab
  have := spanOK_edges g res _ h.2.2 pc hpc
  rw [G.hasEdge_iff] at this ⊢
  rw [← hn]
  exact this

/-! ### `validMinSpan`: the listed tree is a breadth-first tree -/

/-- walks of a given length -/
inductive Walk (g : G) (a : Nat) : Nat → Nat → Prop
  | refl : Walk g a 0 a
  | step {k b c : Nat} : Walk g a k b → g.hasEdge b c = true → Walk g a (k + 1) c

theorem Walk.reach {g : G} {k a b : Nat} (h : Walk g a k b) : Reach g a b := by
  induction h with
  | refl => exact Reach.refl _
  | step _ he ih => exact Reach.step ih he

theorem Reach.walk {g : G} {a b : Nat} (h : Reach g a b) : ∃ k, Walk g a k b := by
  induction h with
  | refl => exact ⟨0, Walk.refl⟩
  | step _ he ih => obtain ⟨k, hk⟩ := ih; exact ⟨k + 1, Walk.step hk he⟩

theorem lookup_append_of_mem (d x : List (Nat × Nat)) (q : Nat) (h : q ∈ d.map (·.1)) :
    lookup (d ++ x) q = lookup d q := by
  unfold lookup
  rw [List.find?_append]
  cases hf : d.find? (fun p => p.1 == q) with
  | some p => simp
  | none =>
    rw [List.find?_eq_none] at hf
    obtain ⟨p, hp, hpq⟩ := List.mem_map.1 h
    exact absurd (by simpa using hpq) (hf p hp)

theorem lookup_append_of_not_mem (d : List (Nat × Nat)) (q v : Nat) (h : q ∉ d.map (·.1)) :
    lookup (d ++ [(q, v)]) q = v := by
  unfold lookup
  rw [List.find?_append]
  have hf : d.find? (fun p => p.1 == q) = none := by
    rw [List.find?_eq_none]
    intro p hp hpq
    exact h (List.mem_map.2 ⟨p, hp, by simpa using hpq⟩)
  rw [hf]
  simp

/-- the fold of `spanDepths` from an arbitrary table -/
def depthsFrom (d : List (Nat × Nat)) (res : List (Nat × Nat)) : List (Nat × Nat) :=
  res.foldl (fun d pc => d ++ [(pc.2, lookup d pc.1 + 1)]) d

theorem spanDepths_eq (root : Nat) (res : List (Nat × Nat)) :
    spanDepths root res = depthsFrom [(root, 0)] res := rfl

theorem depthsFrom_cons (d : List (Nat × Nat)) (a : Nat × Nat) (rest : List (Nat × Nat)) :
    depthsFrom d (a :: rest) = depthsFrom (d ++ [(a.2, lookup d a.1 + 1)]) rest := rfl

/-- entries present at the start keep their depth -/
theorem lookup_depthsFrom_of_mem (res : List (Nat × Nat)) : ∀ (d : List (Nat × Nat)) (q : Nat),
    q ∈ d.map (·.1) → lookup (depthsFrom d res) q = lookup d q := by
  induction res with
  | nil => intro d q _; rfl
  | cons a rest ih =>
    intro d q hq
    rw [depthsFrom_cons, ih _ q (by simp [List.map_append]; exact Or.inl (by simpa using hq)),
      lookup_append_of_mem d _ q hq]

/-- every vertex met is joined to the root by a walk of `t` whose length is its table depth,
for any graph `t` containing the listed pairs -/
theorem spanOK_walk (g t : G) (root : Nat) (res : List (Nat × Nat)) :
    ∀ (seen : List Nat) (d : List (Nat × Nat)), SpanOK g seen res → seen = d.map (·.1) →
    (∀ pc ∈ res, t.hasEdge pc.1 pc.2 = true) →
    (∀ v ∈ seen, Walk t root (lookup d v) v) →
    ∀ v ∈ seen ++ res.map (·.2), Walk t root (lookup (depthsFrom d res) v) v := by
  induction res with
  | nil => intro seen d _ _ _ h v hv; exact h v (by simpa using hv)
  | cons a rest ih =>
    intro seen d hok hsd hedge hseen v hv
    rw [depthsFrom_cons]
    refine ih (seen ++ [a.2]) (d ++ [(a.2, lookup d a.1 + 1)]) hok.2 (by simp [hsd])
      (fun pc hpc => hedge pc (by simp [hpc])) ?_ v (by simpa [List.append_assoc] using hv)
    intro w hw
    rw [List.mem_append] at hw
    rcases hw with hw | hw
    · rw [lookup_append_of_mem d _ w (hsd ▸ hw)]
      exact hseen w hw
    · simp only [List.mem_cons, List.not_mem_nil, or_false] at hw
      subst hw
      rw [lookup_append_of_not_mem d _ _ (hsd ▸ hok.1.2.2.1)]
      exact Walk.step (hseen _ hok.1.2.1) (hedge a (by simp))

/-- meaning of the checker `validMinSpan` (with `dep v` the depth of `v` in the depth table) -/
theorem validMinSpan_iff (g : G) (root : Nat) (res : List (Nat × Nat)) :
    validMinSpan g root res = true ↔
      validSpan g root res = true ∧
      ∀ e ∈ g.edges, lookup (spanDepths root res) e.1 ≤ lookup (spanDepths root res) e.2 + 1 ∧
                     lookup (spanDepths root res) e.2 ≤ lookup (spanDepths root res) e.1 + 1 := by
  unfold validMinSpan
  rw [Bool.and_eq_true, List.all_eq_true]
  simp only [Bool.and_eq_true, decide_eq_true_eq]

/-- an accepted listing is a breadth-first tree: for every vertex `v` the table depth
`dep v` is the length of a walk from the root inside the listed tree (which is a subgraph of
`g`, so also a walk of `g`), and no walk of `g` from the root to `v` is shorter.  Hence
tree distance = graph distance = `dep v`. -/
theorem validMinSpan_dist (g : G) (root : Nat) (res : List (Nat × Nat))
    (h : validMinSpan g root res = true) (v : Nat) (hv : v < g.n) :
    Walk ⟨g.n, res.map norm⟩ root (lookup (spanDepths root res) v) v ∧
    Walk g root (lookup (spanDepths root res) v) v ∧
    ∀ k, Walk g root k v → lookup (spanDepths root res) v ≤ k := by
  rw [validMinSpan_iff] at h
  obtain ⟨hvs, hdep⟩ := h
  have hvs' := hvs
  rw [validSpan_eq, Bool.and_eq_true, Bool.and_eq_true, sFold_iff, beq_iff_eq,
    decide_eq_true_eq] at hvs'
  obtain ⟨⟨hlen, hroot⟩, _, hok⟩ := hvs'
  obtain ⟨hnd, hlt⟩ := spanOK_nodup g res [root] hok (by simp) (by simpa using hroot)
  have hfull : v ∈ [root] ++ res.map (·.2) := nodup_lt_full hnd hlt (by simp; omega) v hv
  have hbase : ∀ (t : G), ∀ w ∈ [root], Walk t root (lookup [(root, 0)] w) w := by
    intro t w hw
    simp only [List.mem_cons, List.not_mem_nil, or_false] at hw
    subst hw
    have : lookup [(w, 0)] w = 0 := by simp [lookup]
    rw [this]
    exact Walk.refl
  have hlow : ∀ k w, Walk g root k w → lookup (spanDepths root res) w ≤ k := by
    intro k w hk
    induction hk with
    | refl =>
      rw [spanDepths_eq, lookup_depthsFrom_of_mem res _ _ (by simp)]
      simp [lookup]
    | @step k b c _ he ih =>
      rw [G.hasEdge_iff] at he
      have hd := hdep _ he
      unfold norm at hd
      split at hd <;> simp only at hd <;> omega
  refine ⟨?_, ?_, fun k => hlow k v⟩
  · exact spanOK_walk g (treeOf g res) root res [root] [(root, 0)] hok rfl
      (fun pc hpc => treeOf_hasEdge_of_mem g res hpc) (hbase _) v hfull
  · exact spanOK_walk g g root res [root] [(root, 0)] hok rfl
      (spanOK_edges g res _ hok) (hbase _) v hfull

/-! ### the algorithm for an arbitrary iteration order: first loop (breadth-first search) -/

theorem spanOK_append (g : G) (r1 r2 : List (Nat × Nat)) : ∀ (seen : List Nat),
    SpanOK g seen (r1 ++ r2) ↔ SpanOK g seen r1 ∧ SpanOK g (seen ++ r1.map (·.2)) r2 := by
  induction r1 with
  | nil => intro seen; simp [SpanOK]
  | cons a rest ih =>
    intro seen
    simp only [List.cons_append, SpanOK, ih, List.map_cons, and_assoc]
    have : seen ++ [a.2] ++ rest.map (·.2) = seen ++ a.2 :: rest.map (·.2) := by simp
    rw [this]

/-- a star: one seen vertex `q` joined to new, pairwise different neighbours -/
theorem spanOK_star (g : G) (q : Nat) (l : List Nat) : ∀ (seen : List Nat),
    q ∈ seen → l.Nodup → (∀ v ∈ l, v ∉ seen ∧ v < g.n ∧ g.hasEdge q v = true) →
    SpanOK g seen (l.map (fun v => (q, v))) := by
  induction l with
  | nil => intro seen _ _ _; simp [SpanOK]
  | cons a rest ih =>
    intro seen hq hnd hall
    rw [List.nodup_cons] at hnd
    have ha := hall a (by simp)
    simp only [List.map_cons, SpanOK]
    refine ⟨⟨ha.2.2, hq, ha.1, ha.2.1⟩, ih _ (by simp [hq]) hnd.2 ?_⟩
    intro v hv
    have hv' := hall v (by simp [hv])
    refine ⟨?_, hv'.2⟩
    rw [List.mem_append]
    rintro (h | h)
    · exact hv'.1 h
    · simp only [List.mem_cons, List.not_mem_nil, or_false] at h
      exact hnd.1 (h ▸ hv)

/-- invariant of the first loop; `popped` (ghost) are the vertices already expanded -/
structure BInv (g : G) (root : Nat) (popped : List Nat) (mst : List (Nat × Nat))
    (seen frontier : List Nat) : Prop where
  seen_eq : seen = [root] ++ mst.map (·.2)
  ok : SpanOK g [root] mst
  split : seen = popped ++ frontier
  closed : ∀ v ∈ popped, ∀ u, u < g.n → g.hasEdge v u = true → u ∈ seen

theorem BInv.length_le {g : G} {root : Nat} {popped : List Nat} {mst : List (Nat × Nat)}
    {seen frontier : List Nat} (h : BInv g root popped mst seen frontier) (hroot : root < g.n) :
    seen.length ≤ g.n := by
  obtain ⟨hnd, hlt⟩ := spanOK_nodup g mst [root] h.ok (by simp) (by simpa using hroot)
  rw [h.seen_eq]
  exact nodup_lt_length_le hnd hlt

/-- the loop has finished in a state whose `seen` has `n` elements: the result is accepted -/
theorem BInv.done {g : G} {root : Nat} {popped : List Nat} {mst : List (Nat × Nat)}
    {seen frontier : List Nat} (h : BInv g root popped mst seen frontier) (hroot : root < g.n)
    (hlen : g.n ≤ seen.length) : SpanOK g [root] mst ∧ mst.length + 1 = g.n := by
  have := h.length_le hroot
  have h2 : seen.length = mst.length + 1 := by rw [h.seen_eq]; simp
  exact ⟨h.ok, by omega⟩

/-- an empty frontier in a connected graph: everything has been seen -/
theorem BInv.full {g : G} (hwf : g.WF) {root : Nat} {popped : List Nat} {mst : List (Nat × Nat)}
    {seen : List Nat} (h : BInv g root popped mst seen [])
    (hconn : ∀ v, v < g.n → Reach g root v) : g.n ≤ seen.length := by
  have hsp : seen = popped := by rw [h.split]; simp
  have hrs : root ∈ seen := by rw [h.seen_eq]; simp
  have hcl : ∀ w, Reach g root w → w ∈ seen := by
    intro w hw
    induction hw with
    | refl => exact hrs
    | step _ he ih => exact h.closed _ (hsp ▸ ih) _ (g.hasEdge_lt hwf he).2.2 he
  apply Classical.byContradiction
  intro hlt
  obtain ⟨v, hv, hvs⟩ := nodup_lt_missing (l := seen) (n := g.n) (by omega)
  exact hvs (hcl v (hconn v hv))

theorem spanBfs_cons (g : G) (ord : Nat → List Nat → List Nat) (fuel : Nat)
    (mst : List (Nat × Nat)) (seen : List Nat) (q : Nat) (fr : List Nat) :
    spanBfs g ord (fuel + 1) mst seen (q :: fr) =
      if seen.length < g.n then
        spanBfs g ord fuel
          (mst ++ (ord q ((g.adj q).filter (fun v => !seen.contains v))).map (fun v => (q, v)))
          (seen ++ ord q ((g.adj q).filter (fun v => !seen.contains v)))
          (fr ++ ord q ((g.adj q).filter (fun v => !seen.contains v)))
      else mst := rfl

theorem BInv.step {g : G} {root : Nat} {popped : List Nat} {mst : List (Nat × Nat)}
    {seen fr : List Nat} {q : Nat} (h : BInv g root popped mst seen (q :: fr))
    (un : List Nat) (hun : un.Perm ((g.adj q).filter (fun v => !seen.contains v))) :
    BInv g root (popped ++ [q]) (mst ++ un.map (fun v => (q, v))) (seen ++ un) (fr ++ un) where
  seen_eq := by
    rw [h.seen_eq]
    simp [List.map_append, Function.comp_def]
  ok := by
    rw [spanOK_append]
    refine ⟨h.ok, ?_⟩
    rw [← h.seen_eq]
    have hq : q ∈ seen := by rw [h.split]; simp
    have hnd : un.Nodup := hun.symm.nodup (List.Pairwise.filter _ (g.nodup_adj q))
    refine spanOK_star g q un seen hq hnd ?_
    intro v hv
    have := hun.mem_iff.1 hv
    simp only [List.mem_filter, G.mem_adj, Bool.not_eq_true', List.contains_eq_mem,
      decide_eq_false_iff_not] at this
    exact ⟨this.2, this.1.1, this.1.2⟩
  split := by rw [h.split]; simp
  closed := by
    intro v hv u hu he
    rw [List.mem_append] at hv ⊢
    rcases hv with hv | hv
    · exact Or.inl (h.closed v hv u hu he)
    · simp only [List.mem_cons, List.not_mem_nil, or_false] at hv
      subst hv
      by_cases hus : u ∈ seen
      · exact Or.inl hus
      · refine Or.inr (hun.mem_iff.2 ?_)
        simp only [List.mem_filter, G.mem_adj, Bool.not_eq_true', List.contains_eq_mem,
          decide_eq_false_iff_not]
        exact ⟨⟨hu, he⟩, hus⟩

/-- whatever the iteration orders, in a connected graph the first loop ends with a listing
`mst` of a spanning tree, parent before child -/
theorem spanBfs_spec (g : G) (hwf : g.WF) (ord : Nat → List Nat → List Nat)
    (hord : ∀ q l, (ord q l).Perm l) (root : Nat) (hroot : root < g.n)
    (hconn : ∀ v, v < g.n → Reach g root v) :
    ∀ (fuel : Nat) (popped : List Nat) (mst : List (Nat × Nat)) (seen frontier : List Nat),
      BInv g root popped mst seen frontier → g.n ≤ popped.length + fuel →
      SpanOK g [root] (spanBfs g ord fuel mst seen frontier) ∧
        (spanBfs g ord fuel mst seen frontier).length + 1 = g.n := by
  intro fuel
  induction fuel with
  | zero =>
    intro popped mst seen frontier h hf
    have : spanBfs g ord 0 mst seen frontier = mst := by unfold spanBfs; rfl
    rw [this]
    refine h.done hroot ?_
    have : seen.length = popped.length + frontier.length := by rw [h.split]; simp
    omega
  | succ fuel ih =>
    intro popped mst seen frontier h hf
    cases frontier with
    | nil =>
      have : spanBfs g ord (fuel + 1) mst seen [] = mst := by unfold spanBfs; rfl
      rw [this]
      exact h.done hroot (h.full hwf hconn)
    | cons q fr =>
      rw [spanBfs_cons]
      by_cases hlt : seen.length < g.n
      · rw [if_pos hlt]
        refine ih _ _ _ _ (h.step _ (hord q _)) ?_
        simp only [List.length_append, List.length_cons, List.length_nil]
        omega
      · rw [if_neg hlt]
        exact h.done hroot (by omega)

theorem bInv_init (g : G) (root : Nat) : BInv g root [] [] [root] [root] where
  seen_eq := rfl
  ok := trivial
  split := rfl
  closed := by simp

/-! ### the first loop builds a breadth-first tree -/

theorem depthsFrom_append (d : List (Nat × Nat)) (r1 r2 : List (Nat × Nat)) :
    depthsFrom d (r1 ++ r2) = depthsFrom (depthsFrom d r1) r2 := by
  simp [depthsFrom, List.foldl_append]

theorem depthsFrom_keys (res : List (Nat × Nat)) : ∀ (d : List (Nat × Nat)),
    (depthsFrom d res).map (·.1) = d.map (·.1) ++ res.map (·.2) := by
  induction res with
  | nil => intro d; simp [depthsFrom]
  | cons a rest ih => intro d; rw [depthsFrom_cons, ih]; simp

/-- in the depth table of a parent-before-child listing a child is one deeper than its parent -/
theorem depthsFrom_rec (g : G) (res : List (Nat × Nat)) : ∀ (seen : List Nat)
    (d : List (Nat × Nat)), SpanOK g seen res → seen = d.map (·.1) →
    ∀ pc ∈ res, lookup (depthsFrom d res) pc.2 = lookup (depthsFrom d res) pc.1 + 1 := by
  induction res with
  | nil => intro _ _ _ _ pc hpc; simp at hpc
  | cons a rest ih =>
    intro seen d hok hsd pc hpc
    rw [depthsFrom_cons]
    have hk : (d ++ [(a.2, lookup d a.1 + 1)]).map (·.1) = seen ++ [a.2] := by simp [hsd]
    rw [List.mem_cons] at hpc
    rcases hpc with rfl | hpc
    · rw [lookup_depthsFrom_of_mem rest _ pc.2 (by rw [hk]; simp),
        lookup_depthsFrom_of_mem rest _ pc.1 (by rw [hk]; simp [hok.1.2.1]),
        lookup_append_of_not_mem d _ _ (hsd ▸ hok.1.2.2.1),
        lookup_append_of_mem d _ _ (hsd ▸ hok.1.2.1)]
    · exact ih _ _ hok.2 hk.symm pc hpc

theorem spanDepths_root (root : Nat) (res : List (Nat × Nat)) :
    lookup (spanDepths root res) root = 0 := by
  rw [spanDepths_eq, lookup_depthsFrom_of_mem res _ _ (by simp)]
  simp [lookup]

/-- depth of `v` in the table of the listing `mst` -/
def depOf (root : Nat) (mst : List (Nat × Nat)) (v : Nat) : Nat := lookup (spanDepths root mst) v

/-- appending a star at `q`: old depths are kept, the new vertices are one deeper than `q` -/
theorem depOf_star (g : G) (root : Nat) (mst : List (Nat × Nat)) (q : Nat) (un : List Nat)
    (hok : SpanOK g [root] (mst ++ un.map (fun v => (q, v))))
    (hq : q ∈ [root] ++ mst.map (·.2)) :
    (∀ x ∈ [root] ++ mst.map (·.2),
      depOf root (mst ++ un.map (fun v => (q, v))) x = depOf root mst x) ∧
    (∀ u ∈ un, depOf root (mst ++ un.map (fun v => (q, v))) u = depOf root mst q + 1) := by
  have hkeys : (spanDepths root mst).map (·.1) = [root] ++ mst.map (·.2) := by
    rw [spanDepths_eq, depthsFrom_keys]; rfl
  have hold : ∀ x ∈ [root] ++ mst.map (·.2),
      depOf root (mst ++ un.map (fun v => (q, v))) x = depOf root mst x := by
    intro x hx
    unfold depOf
    rw [spanDepths_eq, depthsFrom_append, ← spanDepths_eq,
      lookup_depthsFrom_of_mem _ _ x (hkeys ▸ hx)]
  refine ⟨hold, fun u hu => ?_⟩
  rw [← hold q hq]
  unfold depOf
  rw [spanDepths_eq]
  exact depthsFrom_rec g _ [root] [(root, 0)] hok rfl (q, u)
    (by rw [List.mem_append]; right; exact List.mem_map.2 ⟨u, hu, rfl⟩)

/-- depth part of the invariant of the first loop -/
structure BDInv (g : G) (root : Nat) (popped : List Nat) (mst : List (Nat × Nat))
    (seen frontier : List Nat) : Prop where
  mono : seen.Pairwise (fun a b => depOf root mst a ≤ depOf root mst b)
  top : ∀ q, frontier.head? = some q → ∀ x ∈ seen, depOf root mst x ≤ depOf root mst q + 1
  near : ∀ v ∈ popped, ∀ u, u < g.n → g.hasEdge v u = true →
    depOf root mst u ≤ depOf root mst v + 1

theorem bdInv_init (g : G) (root : Nat) : BDInv g root [] [] [root] [root] where
  mono := by simp
  top := by
    intro q hq x hx
    simp only [List.head?_cons, Option.some.injEq] at hq
    simp only [List.mem_cons, List.not_mem_nil, or_false] at hx
    subst hq; subst hx; omega
  near := by simp

theorem BDInv.step {g : G} {root : Nat} {popped : List Nat} {mst : List (Nat × Nat)}
    {seen fr : List Nat} {q : Nat} (h : BInv g root popped mst seen (q :: fr))
    (hd : BDInv g root popped mst seen (q :: fr))
    (un : List Nat) (hun : un.Perm ((g.adj q).filter (fun v => !seen.contains v))) :
    BDInv g root (popped ++ [q]) (mst ++ un.map (fun v => (q, v))) (seen ++ un) (fr ++ un) := by
  have h' := h.step un hun
  have hqs : q ∈ seen := by rw [h.split]; simp
  obtain ⟨hold, hnew⟩ := depOf_star g root mst q un h'.ok (h.seen_eq ▸ hqs)
  rw [← h.seen_eq] at hold
  have htop := hd.top q rfl
  have hmono := hd.mono
  have hqfr : ∀ x ∈ fr, depOf root mst q ≤ depOf root mst x := by
    intro x hx
    rw [h.split, List.pairwise_append] at hmono
    have := hmono.2.1
    rw [List.pairwise_cons] at this
    exact this.1 x hx
  refine ⟨?_, ?_, ?_⟩
  · rw [List.pairwise_append]
    refine ⟨?_, ?_, ?_⟩
    · refine hmono.imp_of_mem ?_
      intro a b ha hb hab
      rw [hold a ha, hold b hb]; exact hab
    · refine List.pairwise_of_forall_mem_list ?_
      intro a ha b hb
      rw [hnew a ha, hnew b hb]
      exact Nat.le_refl _
    · intro a ha b hb
      rw [hold a ha, hnew b hb]
      exact htop a ha
  · intro q' hq' x hx
    have hq'm := List.mem_of_head? hq'
    have hq'ge : depOf root mst q ≤ depOf root (mst ++ un.map (fun v => (q, v))) q' := by
      rw [List.mem_append] at hq'm
      rcases hq'm with hm | hm
      · rw [hold q' (by rw [h.split]; simp [hm])]
        exact hqfr q' hm
      · rw [hnew q' hm]; omega
    rw [List.mem_append] at hx
    rcases hx with hx | hx
    · rw [hold x hx]
      have := htop x hx
      omega
    · rw [hnew x hx]
      omega
  · intro v hv u hu he
    rw [List.mem_append] at hv
    rcases hv with hv | hv
    · have hus := h.closed v hv u hu he
      have hvs : v ∈ seen := by rw [h.split]; simp [hv]
      rw [hold u hus, hold v hvs]
      exact hd.near v hv u hu he
    · simp only [List.mem_cons, List.not_mem_nil, or_false] at hv
      subst hv
      rw [hold v hqs]
      by_cases hus : u ∈ seen
      · rw [hold u hus]
        exact htop u hus
      · have : u ∈ un := by
          refine hun.mem_iff.2 ?_
          simp only [List.mem_filter, G.mem_adj, Bool.not_eq_true', List.contains_eq_mem,
            decide_eq_false_iff_not]
          exact ⟨⟨hu, he⟩, hus⟩
        rw [hnew u this]
        exact Nat.le_refl _

/-- once everything is seen, the depths of the two endpoints of every edge differ by ≤ 1 -/
theorem BDInv.done {g : G} {root : Nat} {popped : List Nat} {mst : List (Nat × Nat)}
    {seen frontier : List Nat} (h : BInv g root popped mst seen frontier)
    (hd : BDInv g root popped mst seen frontier) (hroot : root < g.n)
    (hlen : g.n ≤ seen.length) :
    ∀ u v, u < g.n → v < g.n → g.hasEdge u v = true →
      depOf root mst v ≤ depOf root mst u + 1 := by
  obtain ⟨hnd, hlt⟩ := spanOK_nodup g mst [root] h.ok (by simp) (by simpa using hroot)
  rw [← h.seen_eq] at hnd hlt
  have hle := nodup_lt_length_le hnd hlt
  have hfull := nodup_lt_full hnd hlt (by omega)
  intro u v hu hv he
  have hus := hfull u hu
  have hvs := hfull v hv
  have hmono := hd.mono
  rw [h.split] at hus hvs hmono
  rw [List.pairwise_append] at hmono
  rw [List.mem_append] at hus hvs
  rcases hus with hus | hus
  · exact hd.near u hus v hv he
  · rcases hvs with hvs | hvs
    · have := hmono.2.2 v hvs u hus
      omega
    · cases frontier with
      | nil => simp at hus
      | cons q fr =>
        have h1 := hd.top q rfl v (by rw [h.split]; simp [hvs])
        have h2 : depOf root mst q ≤ depOf root mst u := by
          rw [List.mem_cons] at hus
          rcases hus with rfl | hus
          · exact Nat.le_refl _
          · have := hmono.2.1
            rw [List.pairwise_cons] at this
            exact this.1 u hus
        omega

/-- whatever the iteration orders, the listing built by the first loop is a breadth-first
tree of a connected graph -/
theorem spanBfs_depth (g : G) (hwf : g.WF) (ord : Nat → List Nat → List Nat)
    (hord : ∀ q l, (ord q l).Perm l) (root : Nat) (hroot : root < g.n)
    (hconn : ∀ v, v < g.n → Reach g root v) :
    ∀ (fuel : Nat) (popped : List Nat) (mst : List (Nat × Nat)) (seen frontier : List Nat),
      BInv g root popped mst seen frontier → BDInv g root popped mst seen frontier →
      g.n ≤ popped.length + fuel →
      ∀ u v, u < g.n → v < g.n → g.hasEdge u v = true →
        depOf root (spanBfs g ord fuel mst seen frontier) v ≤
          depOf root (spanBfs g ord fuel mst seen frontier) u + 1 := by
  intro fuel
  induction fuel with
  | zero =>
    intro popped mst seen frontier h hd hf
    have : spanBfs g ord 0 mst seen frontier = mst := by unfold spanBfs; rfl
    rw [this]
    refine hd.done h hroot ?_
    have : seen.length = popped.length + frontier.length := by rw [h.split]; simp
    omega
  | succ fuel ih =>
    intro popped mst seen frontier h hd hf
    cases frontier with
    | nil =>
      have : spanBfs g ord (fuel + 1) mst seen [] = mst := by unfold spanBfs; rfl
      rw [this]
      exact hd.done h hroot (h.full hwf hconn)
    | cons q fr =>
      rw [spanBfs_cons]
      by_cases hlt : seen.length < g.n
      · rw [if_pos hlt]
        refine ih _ _ _ _ (h.step _ (hord q _)) (hd.step h _ (hord q _)) ?_
        simp only [List.length_append, List.length_cons, List.length_nil]
        omega
      · rw [if_neg hlt]
        exact hd.done h hroot (by omega)

/-! ### second loop (depth-first traversal of the tree) -/

theorem spanOK_child_not_seen (g : G) (res : List (Nat × Nat)) : ∀ (seen : List Nat),
    SpanOK g seen res → ∀ pc ∈ res, pc.2 ∉ seen := by
  induction res with
  | nil => intro _ _ pc hpc; simp at hpc
  | cons a rest ih =>
    intro seen h pc hpc
    rw [List.mem_cons] at hpc
    rcases hpc with rfl | hpc
    · exact h.1.2.2.1
    · exact fun hm => ih _ h.2 pc hpc (by simp [hm])

theorem spanOK_parent_mem (g : G) (res : List (Nat × Nat)) : ∀ (seen : List Nat),
    SpanOK g seen res → ∀ pc ∈ res, pc.1 ∈ seen ++ res.map (·.2) := by
  induction res with
  | nil => intro _ _ pc hpc; simp at hpc
  | cons a rest ih =>
    intro seen h pc hpc
    rw [List.mem_cons] at hpc
    rcases hpc with rfl | hpc
    · simp [h.1.2.1]
    · have := ih _ h.2 pc hpc
      simpa [List.append_assoc] using this

/-- no pair is listed in both orientations (and no self loop) -/
theorem spanOK_no_back (g : G) (res : List (Nat × Nat)) : ∀ (seen : List Nat),
    SpanOK g seen res → ∀ a b, (a, b) ∈ res → (b, a) ∈ res → False := by
  induction res with
  | nil => intro _ _ a b h; simp at h
  | cons x rest ih =>
    intro seen h a b h1 h2
    rw [List.mem_cons] at h1 h2
    have hx1 := h.1.2.1
    have hx2 := h.1.2.2.1
    rcases h1 with h1 | h1 <;> rcases h2 with h2 | h2
    · rw [← h1] at h2
      simp only [Prod.mk.injEq] at h2
      rw [← h1] at hx1 hx2
      exact hx2 (h2.1 ▸ hx1)
    · have := spanOK_child_not_seen g rest _ h.2 _ h2
      rw [← h1] at hx1
      exact this (by simp [hx1])
    · have := spanOK_child_not_seen g rest _ h.2 _ h1
      rw [← h2] at hx1
      exact this (by simp [hx1])
    · exact ih _ h.2 a b h1 h2

theorem rel_eq_of_snd_eq : ∀ (res : List (Nat × Nat)), (res.map (·.2)).Nodup →
    ∀ x ∈ res, ∀ y ∈ res, x.2 = y.2 → x = y := by
  intro res
  induction res with
  | nil => intro _ x hx; simp at hx
  | cons a rest ih =>
    intro hnd x hx y hy hxy
    rw [List.map_cons, List.nodup_cons] at hnd
    rw [List.mem_cons] at hx hy
    rcases hx with rfl | hx <;> rcases hy with rfl | hy
    · rfl
    · exact absurd (List.mem_map.2 ⟨y, hy, hxy.symm⟩) hnd.1
    · exact absurd (List.mem_map.2 ⟨x, hx, hxy⟩) hnd.1
    · exact ih hnd.2 x hx y hy hxy

/-- facts about a parent-before-child listing `M` of a spanning tree -/
structure TreeL (g : G) (root : Nat) (M : List (Nat × Nat)) : Prop where
  ok : SpanOK g [root] M
  len : M.length + 1 = g.n
  root_lt : root < g.n

namespace TreeL
variable {g : G} {root : Nat} {M : List (Nat × Nat)}

theorem nodup (h : TreeL g root M) : ([root] ++ M.map (·.2)).Nodup :=
  (spanOK_nodup g M [root] h.ok (by simp) (by simpa using h.root_lt)).1

theorem lt (h : TreeL g root M) : ∀ v ∈ [root] ++ M.map (·.2), v < g.n :=
  (spanOK_nodup g M [root] h.ok (by simp) (by simpa using h.root_lt)).2

theorem full (h : TreeL g root M) : ∀ v, v < g.n → v ∈ [root] ++ M.map (·.2) :=
  nodup_lt_full h.nodup h.lt (by simp; have := h.len; omega)

/-- a vertex has at most one parent -/
theorem parent_unique (h : TreeL g root M) {p p' c : Nat} (h1 : (p, c) ∈ M) (h2 : (p', c) ∈ M) :
    p = p' := by
  have hnd := h.nodup
  simp only [List.cons_append, List.nil_append, List.nodup_cons] at hnd
  have := rel_eq_of_snd_eq M hnd.2 _ h1 _ h2 rfl
  simpa using this

theorem child_ne_root (h : TreeL g root M) {p c : Nat} (h1 : (p, c) ∈ M) : c ≠ root := by
  have := spanOK_child_not_seen g M _ h.ok _ h1
  simpa using this

theorem no_back (h : TreeL g root M) {a b : Nat} (h1 : (a, b) ∈ M) (h2 : (b, a) ∈ M) : False :=
  spanOK_no_back g M _ h.ok a b h1 h2

end TreeL

theorem spanDfs_some (t : G) (ord : Nat → List Nat → List Nat) (fuel : Nat)
    (out : List (Nat × Nat)) (q : Nat) (i : Nat × Nat) (st : List (Nat × Option (Nat × Nat))) :
    spanDfs t ord (fuel + 1) out ((q, some i) :: st) =
      spanDfs t ord fuel (out ++ [i])
        ((((ord q (t.adj q)).filter (fun nb => nb != i.1)).map
          (fun nb => (nb, some (q, nb)))).reverse ++ st) := rfl

theorem spanDfs_none (t : G) (ord : Nat → List Nat → List Nat) (fuel : Nat)
    (out : List (Nat × Nat)) (q : Nat) (st : List (Nat × Option (Nat × Nat))) :
    spanDfs t ord (fuel + 1) out ((q, none) :: st) =
      spanDfs t ord fuel out
        ((((ord q (t.adj q)).filter (fun _ => true)).map
          (fun nb => (nb, some (q, nb)))).reverse ++ st) := rfl

/-- invariant of the second loop (after its first iteration): `out` is a parent-before-child
listing of tree edges; every stack entry is a tree edge from a visited vertex to an unvisited
one; every tree edge is listed, or waits on the stack, or its parent is still unvisited -/
structure DInv (g : G) (root : Nat) (M out : List (Nat × Nat))
    (st : List (Nat × Option (Nat × Nat))) : Prop where
  ok : SpanOK g [root] out
  sub : ∀ pc ∈ out, pc ∈ M
  entry : ∀ x ∈ st, ∃ p, x.2 = some (p, x.1) ∧ (p, x.1) ∈ M ∧
    p ∈ [root] ++ out.map (·.2) ∧ x.1 ∉ [root] ++ out.map (·.2)
  st_nodup : (st.map (·.1)).Nodup
  complete : ∀ pc ∈ M, pc ∈ out ∨ (pc.2, some pc) ∈ st ∨ pc.1 ∉ [root] ++ out.map (·.2)

section dfs
variable {g : G} {root : Nat} {M out : List (Nat × Nat)} {st : List (Nat × Option (Nat × Nat))}

theorem DInv.vis_nodup (h : DInv g root M out st) (hroot : root < g.n) :
    ([root] ++ out.map (·.2)).Nodup ∧ ∀ v ∈ [root] ++ out.map (·.2), v < g.n :=
  spanOK_nodup g out [root] h.ok (by simp) (by simpa using hroot)

/-- visited vertices and stack vertices are pairwise different vertices `< n` -/
theorem DInv.bound (hM : TreeL g root M) (h : DInv g root M out st) :
    1 + out.length + st.length ≤ g.n := by
  obtain ⟨hnd, hlt⟩ := h.vis_nodup hM.root_lt
  have hnd' : (([root] ++ out.map (·.2)) ++ st.map (·.1)).Nodup := by
    rw [List.nodup_append]
    refine ⟨hnd, h.st_nodup, ?_⟩
    intro a ha b hb hab
    obtain ⟨x, hx, hxb⟩ := List.mem_map.1 hb
    obtain ⟨p, _, _, _, hnv⟩ := h.entry x hx
    exact hnv (hxb ▸ hab ▸ ha)
  have hlt' : ∀ v ∈ ([root] ++ out.map (·.2)) ++ st.map (·.1), v < g.n := by
    intro v hv
    rw [List.mem_append] at hv
    rcases hv with hv | hv
    · exact hlt v hv
    · obtain ⟨x, hx, hxb⟩ := List.mem_map.1 hv
      obtain ⟨p, _, hpm, _, _⟩ := h.entry x hx
      exact hM.lt v (by
        rw [List.mem_append]; right
        exact List.mem_map.2 ⟨(p, x.1), hpm, hxb⟩)
  have := nodup_lt_length_le hnd' hlt'
  simp only [List.length_append, List.length_cons, List.length_nil, List.length_map] at this
  omega

/-- with an empty stack every tree edge has been listed -/
theorem DInv.finished (hM : TreeL g root M) (h : DInv g root M out []) :
    out.length + 1 = g.n ∧ ∀ pc ∈ M, pc ∈ out := by
  obtain ⟨hnd, hlt⟩ := h.vis_nodup hM.root_lt
  have hall : ∀ v ∈ [root] ++ M.map (·.2), v ∈ [root] ++ out.map (·.2) := by
    refine spanOK_induct g (fun v => v ∈ [root] ++ out.map (·.2)) M [root] hM.ok ?_ ?_
    · intro pc hpc hp
      rcases h.complete pc hpc with hc | hc | hc
      · rw [List.mem_append]; right
        exact List.mem_map.2 ⟨pc, hc, rfl⟩
      · simp at hc
      · exact absurd hp hc
    · intro v hv
      simp only [List.mem_cons, List.not_mem_nil, or_false] at hv
      simp [hv]
  have hle := nodup_lt_length_le hnd hlt
  have hge : g.n ≤ ([root] ++ out.map (·.2)).length := by
    apply Classical.byContradiction
    intro hlt'
    obtain ⟨v, hv, hvs⟩ := nodup_lt_missing (l := [root] ++ out.map (·.2)) (n := g.n) (by omega)
    exact hvs (hall v (hM.full v hv))
  simp only [List.length_append, List.length_cons, List.length_nil, List.length_map] at hle hge
  refine ⟨by omega, fun pc hpc => ?_⟩
  rcases h.complete pc hpc with hc | hc | hc
  · exact hc
  · simp at hc
  · exact absurd (hall _ (spanOK_parent_mem g M [root] hM.ok pc hpc)) hc

/-- one iteration: the top entry `(c, (p, c))` is listed and the children `nb` of `c` are
pushed -/
theorem DInv.push (hM : TreeL g root M) {c p : Nat} {inter : Option (Nat × Nat)}
    (h : DInv g root M out ((c, inter) :: st)) (hinter : inter = some (p, c))
    (nb : List Nat) (hnbnd : nb.Nodup) (hnb : ∀ u, u ∈ nb ↔ (c, u) ∈ M) :
    DInv g root M (out ++ [(p, c)]) ((nb.map (fun u => (u, some (c, u)))).reverse ++ st) := by
  obtain ⟨p', hp1, hpM', hpv', hcv⟩ := h.entry (c, inter) (by simp)
  have hpp : p' = p := by
    simp only [hinter, Option.some.injEq, Prod.mk.injEq] at hp1
    exact hp1.1.symm
  subst hpp
  have hpM : (p', c) ∈ M := hpM'
  have hstnd := h.st_nodup
  simp only [List.map_cons, List.nodup_cons] at hstnd
  have hvis' : ∀ v, v ∈ [root] ++ (out ++ [(p', c)]).map (·.2) ↔
      v ∈ [root] ++ out.map (·.2) ∨ v = c := by
    intro v; simp [List.map_append, or_assoc]
  -- children of `c` are unvisited
  have hchild : ∀ u, (c, u) ∈ M → u ∉ [root] ++ (out ++ [(p', c)]).map (·.2) := by
    intro u hu hm
    rw [hvis'] at hm
    rcases hm with hm | hm
    · rw [List.mem_append] at hm
      rcases hm with hm | hm
      · simp only [List.mem_cons, List.not_mem_nil, or_false] at hm
        exact hM.child_ne_root hu hm
      · obtain ⟨pc, hpc, hpcu⟩ := List.mem_map.1 hm
        have hpcM := h.sub pc hpc
        have : pc = (c, u) := by
          have h1 : (pc.1, u) ∈ M := by rw [← hpcu]; exact hpcM
          have := hM.parent_unique h1 hu
          rw [← this, ← hpcu]
        rw [this] at hpc
        exact hcv (spanOK_parent_mem g out _ h.ok _ hpc)
    · subst hm
      exact hM.no_back hu hu
  refine ⟨?_, ?_, ?_, ?_, ?_⟩
  · rw [spanOK_append]
    refine ⟨h.ok, ?_, trivial⟩
    refine ⟨spanOK_edges g M _ hM.ok _ hpM, hpv', hcv, ?_⟩
    exact hM.lt c (by rw [List.mem_append]; right; exact List.mem_map.2 ⟨_, hpM, rfl⟩)
  · intro pc hpc
    rw [List.mem_append] at hpc
    rcases hpc with hpc | hpc
    · exact h.sub pc hpc
    · simp only [List.mem_cons, List.not_mem_nil, or_false] at hpc
      exact hpc ▸ hpM
  · intro x hx
    rw [List.mem_append, List.mem_reverse, List.mem_map] at hx
    rcases hx with ⟨u, hu, rfl⟩ | hx
    · have huM := (hnb u).1 hu
      refine ⟨c, rfl, huM, ?_, hchild u huM⟩
      rw [hvis']; exact Or.inr rfl
    · obtain ⟨q, hq1, hq2, hq3, hq4⟩ := h.entry x (by simp [hx])
      refine ⟨q, hq1, hq2, ?_, ?_⟩
      · rw [hvis']; exact Or.inl hq3
      · rw [hvis']
        rintro (hm | hm)
        · exact hq4 hm
        · exact hstnd.1 (List.mem_map.2 ⟨x, hx, hm⟩)
  · rw [List.map_append, List.map_reverse, List.map_map]
    have hid : (nb.map ((fun x : Nat × Option (Nat × Nat) => x.1) ∘ fun u => (u, some (c, u)))) = nb := by
      simp [Function.comp_def]
    rw [hid, List.nodup_append]
    refine ⟨(List.reverse_perm nb).symm.nodup hnbnd, hstnd.2, ?_⟩
    intro a ha b hb hab
    rw [List.mem_reverse] at ha
    obtain ⟨x, hx, hxb⟩ := List.mem_map.1 hb
    obtain ⟨q, _, hq2, hq3, _⟩ := h.entry x (by simp [hx])
    have haM := (hnb a).1 ha
    have : q = c := by
      have h1 : (q, a) ∈ M := by rw [hab, ← hxb]; exact hq2
      exact hM.parent_unique h1 haM
    exact hcv (this ▸ hq3)
  · intro pc hpc
    rcases h.complete pc hpc with hc | hc | hc
    · exact Or.inl (by simp [hc])
    · rw [List.mem_cons] at hc
      rcases hc with hc | hc
      · left
        simp only [Prod.mk.injEq] at hc
        rw [hinter] at hc
        simp only [Option.some.injEq] at hc
        simp [hc.2]
      · exact Or.inr (Or.inl (by simp [hc]))
    · by_cases hpc1 : pc.1 = c
      · right; left
        have hcu : (c, pc.2) ∈ M := by rw [← hpc1]; exact hpc
        rw [List.mem_append, List.mem_reverse, List.mem_map]
        left
        refine ⟨pc.2, (hnb pc.2).2 hcu, ?_⟩
        rw [← hpc1]
      · right; right
        rw [hvis']
        rintro (hm | hm)
        · exact hc hm
        · exact hpc1 hm

end dfs

/-- the state after the first iteration (which pops `(root, None)`) -/
theorem dInv_init {g : G} {root : Nat} {M : List (Nat × Nat)} (hM : TreeL g root M)
    (nb : List Nat) (hnbnd : nb.Nodup) (hnb : ∀ u, u ∈ nb ↔ (root, u) ∈ M) :
    DInv g root M [] ((nb.map (fun u => (u, some (root, u)))).reverse ++ []) where
  ok := trivial
  sub := by simp
  entry := by
    intro x hx
    rw [List.append_nil, List.mem_reverse, List.mem_map] at hx
    obtain ⟨u, hu, rfl⟩ := hx
    have huM := (hnb u).1 hu
    refine ⟨root, rfl, huM, by simp, ?_⟩
    simpa using hM.child_ne_root huM
  st_nodup := by
    rw [List.append_nil, List.map_reverse, List.map_map]
    have hid : (nb.map ((fun x : Nat × Option (Nat × Nat) => x.1) ∘
        fun u => (u, some (root, u)))) = nb := by simp [Function.comp_def]
    rw [hid]
    exact (List.reverse_perm nb).symm.nodup hnbnd
  complete := by
    intro pc hpc
    by_cases h1 : pc.1 = root
    · right; left
      have hru : (root, pc.2) ∈ M := by rw [← h1]; exact hpc
      rw [List.append_nil, List.mem_reverse, List.mem_map]
      refine ⟨pc.2, (hnb pc.2).2 hru, ?_⟩
      rw [← h1]
    · right; right
      simpa using h1

/-- whatever the iteration order of the neighbour sets, the second loop lists every tree edge
exactly once, parent before child -/
theorem spanDfs_spec {g t : G} {root : Nat} {M : List (Nat × Nat)} (hM : TreeL g root M)
    (hadj : ∀ q u, u ∈ t.adj q ↔ (q, u) ∈ M ∨ (u, q) ∈ M)
    (ord : Nat → List Nat → List Nat) (hord : ∀ q l, (ord q l).Perm l) :
    ∀ (fuel : Nat) (out : List (Nat × Nat)) (st : List (Nat × Option (Nat × Nat))),
      DInv g root M out st → g.n ≤ out.length + fuel →
      SpanOK g [root] (spanDfs t ord fuel out st) ∧
        (spanDfs t ord fuel out st).length + 1 = g.n ∧
        (∀ pc, pc ∈ spanDfs t ord fuel out st ↔ pc ∈ M) := by
  intro fuel
  induction fuel with
  | zero =>
    intro out st h hf
    have := h.bound hM
    omega
  | succ fuel ih =>
    intro out st h hf
    cases st with
    | nil =>
      have : spanDfs t ord (fuel + 1) out [] = out := by unfold spanDfs; rfl
      rw [this]
      exact ⟨h.ok, (h.finished hM).1, fun pc => ⟨h.sub pc, (h.finished hM).2 pc⟩⟩
    | cons x st' =>
      obtain ⟨c, inter⟩ := x
      obtain ⟨p, hp1, hpM, _, _⟩ := h.entry (c, inter) (by simp)
      simp only at hp1 hpM
      subst hp1
      rw [spanDfs_some]
      refine ih _ _ (h.push hM rfl _ ?_ ?_) ?_
      · exact List.Pairwise.filter _ ((hord c _).symm.nodup (t.nodup_adj c))
      · intro u
        simp only [List.mem_filter, (hord c _).mem_iff, hadj, bne_iff_ne, ne_eq]
        constructor
        · rintro ⟨h1 | h1, h2⟩
          · exact h1
          · exact absurd (hM.parent_unique h1 hpM) h2
        · intro h1
          refine ⟨Or.inl h1, fun h2 => ?_⟩
          subst h2
          exact hM.no_back h1 hpM
      · simp only [List.length_append, List.length_cons, List.length_nil]
        omega

/-- neighbours in the graph `CouplingGraph(mst)` -/
theorem mem_adj_tree (M : List (Nat × Nat)) (q u : Nat) :
    u ∈ (G.mk (rawMax M + 1) (M.map norm).eraseDups).adj q ↔ (q, u) ∈ M ∨ (u, q) ∈ M := by
  rw [G.mem_adj, hasEdge_mk]
  constructor
  · rintro ⟨_, e, he, h | h⟩
    · exact Or.inl (h ▸ he)
    · exact Or.inr (h ▸ he)
  · rintro (h | h)
    · have := (rawMax_ge M _ h).2
      exact ⟨by simp only at this ⊢; omega, _, h, Or.inl rfl⟩
    · have := (rawMax_ge M _ h).1
      exact ⟨by simp only at this ⊢; omega, _, h, Or.inr rfl⟩

/-- two parent-before-child listings of the same set of pairs have the same depth table -/
theorem depOf_eq_of_same_tree (g : G) (root : Nat) (L1 L2 : List (Nat × Nat))
    (h1 : SpanOK g [root] L1) (h2 : SpanOK g [root] L2) (hsub : ∀ pc ∈ L1, pc ∈ L2) :
    ∀ v ∈ [root] ++ L1.map (·.2), depOf root L1 v = depOf root L2 v := by
  refine spanOK_induct g (fun v => depOf root L1 v = depOf root L2 v) L1 [root] h1 ?_ ?_
  · intro pc hpc hp
    have r1 := depthsFrom_rec g L1 [root] [(root, 0)] h1 rfl pc hpc
    have r2 := depthsFrom_rec g L2 [root] [(root, 0)] h2 rfl pc (hsub pc hpc)
    simp only [depOf, spanDepths_eq] at hp ⊢
    rw [r1, r2, hp]
  · intro v hv
    simp only [List.mem_cons, List.not_mem_nil, or_false] at hv
    subst hv
    simp only [depOf, spanDepths_root]

/-- **`get_rooted_minimum_span` for arbitrary iteration orders.**  For a well-formed connected
graph and a root `< n` the call does not raise, and whatever the orders `ord1`, `ord2` in
which the two loops iterate their sets, the result is accepted by `validMinSpan`: it lists a
breadth-first spanning tree rooted at `root`, parent before child. -/
theorem rootedSpan_minValid (g : G) (hwf : g.WF) (ord1 ord2 : Nat → List Nat → List Nat)
    (h1 : ∀ q l, (ord1 q l).Perm l) (h2 : ∀ q l, (ord2 q l).Perm l)
    (root : Nat) (hroot : root < g.n) (hconn : ∀ v, v < g.n → Reach g root v) :
    ∃ res, g.rootedSpan ord1 ord2 root = some res ∧ validMinSpan g root res = true := by
  obtain ⟨hok, hlen⟩ := spanBfs_spec g hwf ord1 h1 root hroot hconn g.n [] [] [root] [root]
    (bInv_init g root) (by simp)
  have hdepth := spanBfs_depth g hwf ord1 h1 root hroot hconn g.n [] [] [root] [root]
    (bInv_init g root) (bdInv_init g root) (by simp)
  generalize hMdef : spanBfs g ord1 g.n [] [root] [root] = M at hok hlen hdepth
  have hM : TreeL g root M := ⟨hok, hlen, hroot⟩
  have hmk : mk? M none = some ⟨rawMax M + 1, (M.map norm).eraseDups⟩ := by
    rw [mk?_none_some_iff]
    refine ⟨fun e he heq => ?_, rfl⟩
    have h1 : (e.1, e.2) ∈ M := he
    have h2 : (e.2, e.1) ∈ M := by
      have : (e.2, e.1) = (e.1, e.2) := by rw [heq]
      rw [this]; exact he
    exact hM.no_back h1 h2
  have hrt : ¬ root ≥ rawMax M + 1 := by
    cases hMc : M with
    | nil =>
      rw [hMc] at hlen
      simp at hlen
      omega
    | cons a rest =>
      have ha : a.1 ∈ [root] := by rw [hMc] at hok; exact hok.1.2.1
      simp only [List.mem_cons, List.not_mem_nil, or_false] at ha
      have := (rawMax_ge M a (by rw [hMc]; simp)).1
      rw [← hMc]
      omega
  refine ⟨spanDfs ⟨rawMax M + 1, (M.map norm).eraseDups⟩ ord2 (g.n + 1) [] [(root, none)], ?_, ?_⟩
  · unfold G.rootedSpan
    rw [if_neg (by omega)]
    simp only [hMdef, hmk, if_neg hrt]
  · rw [spanDfs_none]
    have hnb : ∀ u, u ∈ (ord2 root ((G.mk (rawMax M + 1) (M.map norm).eraseDups).adj root)).filter
        (fun _ => true) ↔ (root, u) ∈ M := by
      intro u
      simp only [List.mem_filter, and_true, (h2 root _).mem_iff, mem_adj_tree]
      constructor
      · rintro (h | h)
        · exact h
        · exact absurd rfl (hM.child_ne_root h)
      · exact Or.inl
    obtain ⟨r1, r2, r3⟩ := spanDfs_spec hM (mem_adj_tree M) ord2 h2 g.n [] _
      (dInv_init hM _ (List.Pairwise.filter _ ((h2 root _).symm.nodup (G.nodup_adj _ root))) hnb)
      (by simp)
    generalize spanDfs _ ord2 g.n [] _ = R at r1 r2 r3
    rw [validMinSpan_iff]
    refine ⟨?_, fun e he => ?_⟩
    · rw [validSpan_eq, Bool.and_eq_true, Bool.and_eq_true, sFold_iff, beq_iff_eq,
        decide_eq_true_eq]
      exact ⟨⟨r2, hroot⟩, rfl, r1⟩
    · have hdep := depOf_eq_of_same_tree g root M R hok r1 (fun pc hpc => (r3 pc).2 hpc)
      have he' := hwf e he
      have hed := g.hasEdge_of_mem hwf he
      have e1 := hdep e.1 (hM.full e.1 (by omega))
      have e2 := hdep e.2 (hM.full e.2 (by omega))
      have d1 := hdepth e.1 e.2 (by omega) (by omega) hed
      have d2 := hdepth e.2 e.1 (by omega) (by omega) (by rw [G.hasEdge_comm]; exact hed)
      simp only [depOf] at e1 e2 d1 d2
      omega

/-- corollary: the result is accepted by `validSpan` -/
theorem rootedSpan_valid (g : G) (hwf : g.WF) (ord1 ord2 : Nat → List Nat → List Nat)
    (h1 : ∀ q l, (ord1 q l).Perm l) (h2 : ∀ q l, (ord2 q l).Perm l)
    (root : Nat) (hroot : root < g.n) (hconn : ∀ v, v < g.n → Reach g root v) :
    ∃ res, g.rootedSpan ord1 ord2 root = some res ∧ validSpan g root res = true := by
  obtain ⟨res, hr, hv⟩ := rootedSpan_minValid g hwf ord1 ord2 h1 h2 root hroot hconn
  exact ⟨res, hr, ((validMinSpan_iff g root res).1 hv).1⟩

/-! ### non-vacuity -/
section examples

/-- the path 0 - 1 - 2 - 3 -/
private def p4 : G := ⟨4, [(0, 1), (1, 2), (2, 3)]⟩
/-- the 4-cycle with a chord -/
private def c4 : G := ⟨4, [(0, 1), (1, 2), (2, 3), (0, 3), (0, 2)]⟩

-- accepted matchings (the second one is maximal but not maximum)
example : validMatching p4 [] [(0, 1), (2, 3)] = true := by decide
example : validMatching p4 [] [(1, 2)] = true := by decide
-- rejected: not maximal ((2,3) could be added)
example : validMatching p4 [] [(0, 1)] = false := by decide
-- rejected: uses an edge that is ignored in the other orientation
example : validMatching p4 [(1, 0)] [(0, 1), (2, 3)] = false := by decide
-- with that edge ignored the remaining maximal matchings are accepted
example : validMatching p4 [(1, 0)] [(1, 2)] = true ∧ validMatching p4 [(1, 0)] [(2, 3)] = true := by
  decide
-- rejected: two edges sharing the vertex 1; an edge listed twice; a non-edge; a reversed edge
example : validMatching p4 [] [(0, 1), (1, 2)] = false := by decide
example : validMatching p4 [] [(0, 1), (0, 1), (2, 3)] = false := by decide
example : validMatching p4 [] [(0, 2), (1, 3)] = false := by decide
example : validMatching p4 [] [(1, 0), (2, 3)] = false := by decide
-- the greedy loop: the result depends on the enumeration order, both are accepted
example : greedyMatching [(0, 1), (1, 2), (2, 3)] = [(0, 1), (2, 3)] ∧
    greedyMatching [(1, 2), (0, 1), (2, 3)] = [(1, 2)] := by decide
example : [(1, 2), (0, 1), (2, 3)].Perm (candidateEdges p4 []) ∧
    validMatching p4 [] (greedyMatching [(1, 2), (0, 1), (2, 3)]) = true := by decide
example : [(2, 3), (1, 2)].Perm (candidateEdges p4 [(1, 0)]) ∧
    validMatching p4 [(1, 0)] (greedyMatching [(2, 3), (1, 2)]) = true := by decide

-- instance of `greedyMatching_valid_perm`: the matching listed in another order
example : validMatching p4 [] [(2, 3), (0, 1)] = true :=
  greedyMatching_valid_perm p4 [] [(0, 1), (1, 2), (2, 3)] _ (by decide) (by decide)

-- accepted spans of the path rooted at 1, in both depth-first orders
example : validSpan p4 1 [(1, 0), (1, 2), (2, 3)] = true := by decide
example : validSpan p4 1 [(1, 2), (2, 3), (1, 0)] = true := by decide
-- rejected: child (2,3) listed before its parent edge (1,2)
example : validSpan p4 1 [(2, 3), (1, 2), (1, 0)] = false := by decide
-- rejected: (1,3) is not an edge
example : validSpan p4 1 [(1, 3), (1, 2), (1, 0)] = false := by decide
-- rejected: vertex 3 missing; a vertex listed twice as a child; the root listed as a child
example : validSpan p4 1 [(1, 2), (1, 0)] = false := by decide
example : validSpan p4 1 [(1, 2), (1, 0), (1, 2)] = false := by decide
example : validSpan p4 1 [(1, 2), (2, 1), (1, 0)] = false := by decide
-- rejected: root out of range; a disconnected graph has no accepted span
example : validSpan p4 4 [(1, 0), (1, 2), (2, 3)] = false := by decide
example : validSpan ⟨3, [(0, 1)]⟩ 0 [(0, 1)] = false := by decide
-- one vertex: the empty list
example : validSpan ⟨1, []⟩ 0 [] = true := by decide

-- the real result for the chorded 4-cycle, root 1, is a breadth-first tree …
example : validMinSpan c4 1 [(1, 2), (1, 0), (0, 3)] = true := by decide
-- … whereas this spanning tree (accepted by `validSpan`) reaches 0 through 2: depth 2 instead of 1
example : validSpan c4 1 [(1, 2), (2, 0), (0, 3)] = true ∧
    validMinSpan c4 1 [(1, 2), (2, 0), (0, 3)] = false := by decide
example : spanDepths 1 [(1, 2), (1, 0), (0, 3)] = [(1, 0), (2, 1), (0, 1), (3, 2)] := by decide

-- the algorithm model: the result depends on the iteration orders …
example : c4.rootedSpan (fun _ l => l) (fun _ l => l) 1 = some [(1, 2), (1, 0), (0, 3)] := by
  decide
example : c4.rootedSpan (fun _ l => l.reverse) (fun _ l => l) 1 =
    some [(1, 2), (2, 3), (1, 0)] := by decide
example : c4.rootedSpan (fun _ l => l) (fun _ l => l.reverse) 1 =
    some [(1, 0), (0, 3), (1, 2)] := by decide
-- … the call raises for a root out of range and for an isolated root beyond the tree; for a
-- disconnected graph it otherwise returns silently the span of the component of the root
example : c4.rootedSpan (fun _ l => l) (fun _ l => l) 4 = none := by decide
example : (⟨3, [(0, 1)]⟩ : G).rootedSpan (fun _ l => l) (fun _ l => l) 2 = none := by decide
example : (⟨3, [(0, 1)]⟩ : G).rootedSpan (fun _ l => l) (fun _ l => l) 1 = some [(1, 0)] ∧
    validSpan ⟨3, [(0, 1)]⟩ 1 [(1, 0)] = false := by decide
-- the hypotheses of `rootedSpan_minValid` are satisfiable (here: reversed order in loop 1)
example : ∃ res, c4.rootedSpan (fun _ l => l.reverse) (fun _ l => l) 1 = some res ∧
    validMinSpan c4 1 res = true :=
  rootedSpan_minValid c4 (by unfold G.WF; decide) _ _ (fun _ l => List.reverse_perm l)
    (fun _ _ => List.Perm.refl _) 1 (by decide)
    (fun v hv => (isFullyConnected_iff_all_pairs c4 (by unfold G.WF; decide) (by decide)).1
      (by decide) 1 v (by decide) hv)
-- instance of `validSpan_spanning` / `validMinSpan_dist`: vertex 3 has distance 2 from 1
example : Reach c4 1 3 :=
  (validSpan_spanning c4 1 [(1, 2), (1, 0), (0, 3)] (by decide)).2.2.1 3 (by decide)
example : ∀ k, Walk c4 1 k 3 → 2 ≤ k :=
  (validMinSpan_dist c4 1 [(1, 2), (1, 0), (0, 3)] (by decide) 3 (by decide)).2.2

end examples

end BqVerif.Graph
