import BqVerif.Generated.QasmTable
/-! Decidable checks over the regenerated gate table (used by `C17_gate_table_*`). -/
namespace BqVerif.C17
open BqVerif.Qasm BqVerif.Qasm.Generated

/-- declared arities = the gate object's own -/
def arityOk (b : BuiltinDef) : Bool := b.np == b.gnp && b.nv == b.gnq

/-- table keys whose row is known to be wrong on the unchanged tree -/
def knownBadRows : List String := ["pxz"]

/-- a library gate is readable under its own spelling: some row has that key, the arities of
the spelling (`extra` = parameters written inside the spelling, as in `rxx(pi/2)`) and is
arity-correct -/
def readable (g : LibGate) : Bool :=
  gateDefs.any fun b => b.key == g.base && b.np == g.np + g.extra && b.nv == g.nq && arityOk b

/-- spellings known to be unreadable on the unchanged tree -/
def knownUnreadable : List String := ["pxz", "st", "diag", "mpry", "mprz"]

/-- one `h` on qubit 0 of a one-qubit circuit (summary form used by `C17_if_witness`) -/
def hOnQ0 : Option (Nat × List (String × List Nat × List Int)) := some (1, [("HGate", [0], [])])

end BqVerif.C17
