import BqVerif.Proofs.RouteSemDefs
/-
Trace lemma for `Sem`: two operation lists with the same per-qudit timelines (and no empty
location) denote the same element.  Port of `design_spikes/TraceLemma.lean` to the project's
`Circ.Op` / `Circ.proj` / `Sem`.
-/
namespace BqVerif.Route
open BqVerif.Circ (Op proj)

private theorem tr_on_iff (o : Op) (q : Nat) : o.on q = true ↔ q ∈ o.loc := by
  simp [BqVerif.Circ.Op.on]

private theorem tr_proj_cons_pos {q : Nat} {a : Op} (t : List Op) (h : q ∈ a.loc) :
    proj q (a :: t) = a :: proj q t := by
  have : a.on q = true := (tr_on_iff a q).2 h
  simp [proj, this]

private theorem tr_proj_cons_neg {q : Nat} {a : Op} (t : List Op) (h : q ∉ a.loc) :
    proj q (a :: t) = proj q t := by
  have : ¬ a.on q = true := fun h' => h ((tr_on_iff a q).1 h')
  simp [proj, this]

private theorem tr_mem_proj {q : Nat} {x : Op} {l : List Op} :
    x ∈ proj q l ↔ x ∈ l ∧ q ∈ x.loc := by
  simp [proj, List.mem_filter, tr_on_iff]

theorem Sem.den_comm_of_indep {M : Type} (S : Sem M) (a : Op) (pre : List Op)
    (h : ∀ x ∈ pre, ∀ q, q ∈ a.loc → q ∉ x.loc) :
    S.mul (S.den pre) (S.sem a) = S.mul (S.sem a) (S.den pre) := by
  induction pre with
  | nil => simp [Sem.den, S.one_mul, S.mul_one]
  | cons x t ih =>
    have hx := S.comm a x (h x (by simp))
    have ht := ih (fun y hy => h y (by simp [hy]))
    simp only [Sem.den]
    rw [S.mul_assoc, ht, ← S.mul_assoc, ← hx, S.mul_assoc]

theorem Sem.trace_equiv {M : Type} (S : Sem M) :
    ∀ (l1 l2 : List Op), (∀ o ∈ l1, o.loc ≠ []) → (∀ o ∈ l2, o.loc ≠ []) →
      (∀ q, proj q l1 = proj q l2) → S.den l1 = S.den l2 := by
  intro l1
  induction l1 with
  | nil =>
    intro l2 _ h2 hp
    cases l2 with
    | nil => rfl
    | cons b t =>
      exfalso
      have hb := h2 b (by simp)
      obtain ⟨q, hq⟩ := List.exists_mem_of_ne_nil _ hb
      have := hp q
      rw [tr_proj_cons_pos t hq] at this
      simp [proj] at this
  | cons a t ih =>
    intro l2 h1 h2 hp
    have ha := h1 a (by simp)
    obtain ⟨q0, hq0⟩ := List.exists_mem_of_ne_nil _ ha
    have hp0 := hp q0
    rw [tr_proj_cons_pos t hq0] at hp0
    have hsplit : ∃ pre post, l2 = pre ++ a :: post ∧ ∀ x ∈ pre, q0 ∉ x.loc := by
      clear ih h2 hp h1
      induction l2 with
      | nil => simp [proj] at hp0
      | cons b r ihr =>
        by_cases hb : q0 ∈ b.loc
        · rw [tr_proj_cons_pos r hb] at hp0
          injection hp0 with e1 e2
          exact ⟨[], r, by simp [e1], by simp⟩
        · rw [tr_proj_cons_neg r hb] at hp0
          obtain ⟨pre, post, he, hpre⟩ := ihr hp0
          exact ⟨b :: pre, post, by simp [he], by
            intro x hx
            rcases List.mem_cons.mp hx with rfl | hx
            · exact hb
            · exact hpre x hx⟩
    obtain ⟨pre, post, he, hpre⟩ := hsplit
    subst he
    have hind : ∀ x ∈ pre, ∀ q, q ∈ a.loc → q ∉ x.loc := by
      intro x hx q hqa hqx
      have hpq := hp q
      rw [tr_proj_cons_pos t hqa, proj_append] at hpq
      have hne : x ∈ proj q pre := tr_mem_proj.2 ⟨hx, hqx⟩
      cases hpp : proj q pre with
      | nil => rw [hpp] at hne; simp at hne
      | cons y ys =>
        rw [hpp] at hpq
        simp only [List.cons_append] at hpq
        injection hpq with hy _
        have hymem : y ∈ proj q pre := by rw [hpp]; simp
        have hy' : y ∈ pre := (tr_mem_proj.1 hymem).1
        have := hpre y hy'
        rw [← hy] at this
        exact this hq0
    have hrest : ∀ q, proj q t = proj q (pre ++ post) := by
      intro q
      have hpq := hp q
      by_cases hqa : q ∈ a.loc
      · have hnil : proj q pre = [] := by
          apply List.eq_nil_iff_forall_not_mem.2
          intro x hx
          have := tr_mem_proj.1 hx
          exact hind x this.1 q hqa this.2
        rw [tr_proj_cons_pos t hqa, proj_append, hnil, tr_proj_cons_pos post hqa] at hpq
        simp only [List.nil_append] at hpq
        injection hpq with _ e2
        rw [proj_append, hnil, e2]; simp
      · rw [tr_proj_cons_neg t hqa, proj_append, tr_proj_cons_neg post hqa] at hpq
        rw [proj_append, hpq]
    have h2' : ∀ o ∈ pre ++ post, o.loc ≠ [] := by
      intro o ho
      apply h2 o
      rcases List.mem_append.mp ho with h | h
      · exact List.mem_append.mpr (Or.inl h)
      · exact List.mem_append.mpr (Or.inr (by simp [h]))
    have := ih (pre ++ post) (fun o ho => h1 o (by simp [ho])) h2' hrest
    rw [S.den_append]
    simp only [Sem.den]
    rw [this, S.den_append, ← S.mul_assoc, ← S.mul_assoc, S.den_comm_of_indep a pre hind]

end BqVerif.Route
