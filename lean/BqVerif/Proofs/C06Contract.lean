/-
Closed form of the transpose / reshape / matmul / reshape / transpose pipeline
(`contractFront`, `contractBack` of `Model/Tensor.lean`).
-/
import BqVerif.Proofs.C06Digits
import BqVerif.Proofs.C06Argsort

set_option linter.unusedSectionVars false

namespace BqVerif.Tensor

/-! ### list helpers -/

theorem getD_map_range {f : Nat → Nat} {n a : Nat} (h : a < n) :
    ((List.range n).map f).getD a 0 = f a := by
  simp [List.getD_eq_getElem?_getD, h]

theorem getD_map_nat {l : List Nat} {f : Nat → Nat} {k : Nat} (h : k < l.length) :
    (l.map f).getD k 0 = f (l.getD k 0) := by
  simp [List.getD_eq_getElem?_getD, h]

theorem getD_append_left' {l1 l2 : List Nat} {k : Nat} (h : k < l1.length) :
    (l1 ++ l2).getD k 0 = l1.getD k 0 := by
  simp [List.getD_eq_getElem?_getD, List.getElem?_append_left h]

theorem getD_append_right' {l1 l2 : List Nat} {k : Nat} :
    (l1 ++ l2).getD (l1.length + k) 0 = l2.getD k 0 := by
  simp [List.getD_eq_getElem?_getD, List.getElem?_append_right]

theorem ext_getD {l1 l2 : List Nat} (hl : l1.length = l2.length)
    (h : ∀ a, a < l1.length → l1.getD a 0 = l2.getD a 0) : l1 = l2 := by
  apply List.ext_getElem hl
  intro i h1 h2
  have := h i h1
  simpa [List.getD_eq_getElem?_getD, h1, h2] using this

theorem pick_append (idx p q : List Nat) : pick idx (p ++ q) = pick idx p ++ pick idx q := by
  simp [pick]

theorem length_pick (idx p : List Nat) : (pick idx p).length = p.length := by simp [pick]

theorem length_scatter (perm j : List Nat) : (scatter perm j).length = perm.length := by
  simp [scatter]

theorem length_put (idx pos ds : List Nat) : (put idx pos ds).length = idx.length := by
  simp [put]

theorem getD_pick {idx p : List Nat} {k : Nat} (h : k < p.length) :
    (pick idx p).getD k 0 = idx.getD (p.getD k 0) 0 := by
  unfold pick; exact getD_map_nat h

/-! ### permutations -/

variable {perm : List Nat} {m : Nat}

theorem getD_lt_of_isPerm (h : isPerm perm m = true) {k : Nat} (hk : k < m) :
    perm.getD k 0 < m := by
  have hl := isPerm_length h
  have : perm.getD k 0 ∈ perm := by
    rw [List.getD_eq_getElem?_getD, List.getElem?_eq_getElem (by omega)]
    simp
  exact (isPerm_mem h _).1 this

/-- `scatter (argsort perm)` reads the digits in the order of `perm`. -/
theorem scatter_argsort (h : isPerm perm m = true) (idx : List Nat) :
    scatter (argsort perm) idx = pick idx perm := by
  have hl := isPerm_length h
  have hl' := isPerm_length (argsort_isPerm h)
  apply ext_getD
  · simp [length_scatter, length_pick, hl, hl']
  · intro a ha
    rw [length_scatter, hl'] at ha
    unfold scatter
    rw [hl', getD_map_range ha, idxOf_argsort h ha, getD_pick (by omega)]

theorem validIdx_pick {shape idx : List Nat} (hm : shape.length = m)
    (h : isPerm perm m = true) (hv : validIdx shape idx = true) :
    validIdx (perm.map (shape.getD · 0)) (pick idx perm) = true := by
  have hl := isPerm_length h
  rw [validIdx_iff] at hv ⊢
  refine ⟨by simp [length_pick], ?_⟩
  intro a ha
  simp only [List.length_map] at ha
  rw [getD_pick ha, getD_map_nat ha]
  exact hv.2 _ (by rw [hm]; exact getD_lt_of_isPerm h (by omega))

theorem validIdx_scatter {shape j : List Nat} (hm : shape.length = m)
    (h : isPerm perm m = true) (hv : validIdx (perm.map (shape.getD · 0)) j = true) :
    validIdx shape (scatter perm j) = true := by
  have hl := isPerm_length h
  rw [validIdx_iff] at hv ⊢
  refine ⟨by simp [length_scatter, hl, hm], ?_⟩
  intro a ha
  rw [hm] at ha
  unfold scatter
  rw [hl, getD_map_range ha]
  have hk := idxOf_lt_of_isPerm h ha
  have := hv.2 (perm.idxOf a) (by simp [hl, hk])
  rwa [getD_map_nat (by omega), getD_idxOf_of_isPerm h ha] at this

/-- Shape after transposing by `perm` and back by `argsort perm`. -/
theorem map_argsort_shape {shape : List Nat} (hm : shape.length = m) (h : isPerm perm m = true) :
    (argsort perm).map ((perm.map (shape.getD · 0)).getD · 0) = shape := by
  have hl := isPerm_length h
  have hl' := isPerm_length (argsort_isPerm h)
  apply ext_getD
  · simp [hl', hm]
  · intro a ha
    simp only [List.length_map, hl'] at ha
    rw [getD_map_nat (by omega), getD_argsort h ha,
      getD_map_nat (by rw [hl]; exact idxOf_lt_of_isPerm h ha), getD_idxOf_of_isPerm h ha]

/-- Scattering `ds` to the positions `sel` and the remaining digits of `idx` to `others`
rebuilds `idx` with the `sel` digits replaced. -/
theorem scatter_append_pick {sel others idx ds : List Nat}
    (h : isPerm (sel ++ others) m = true) (hidx : idx.length = m) (hds : ds.length = sel.length) :
    scatter (sel ++ others) (ds ++ pick idx others) = put idx sel ds := by
  have hl := isPerm_length h
  have hnd := isPerm_nodup h
  apply ext_getD
  · simp [length_scatter, length_put, hl, hidx]
  · intro a ha
    rw [length_scatter, hl] at ha
    unfold scatter put
    rw [hl, hidx, getD_map_range ha, getD_map_range ha]
    by_cases hs : a ∈ sel
    · have hk : sel.idxOf a < sel.length := List.idxOf_lt_length_of_mem hs
      rw [List.idxOf_append_of_mem hs, getD_append_left' (by omega)]
      simp [hs]
    · have ho : a ∈ others := by
        have := (isPerm_mem h a).2 ha
        simpa [hs] using this
      have hk : others.idxOf a < others.length := List.idxOf_lt_length_of_mem ho
      have : others.getD (others.idxOf a) 0 = a := by
        simp [List.getD_eq_getElem?_getD, hk]
      rw [List.idxOf_append_of_notMem hs, ← hds, getD_append_right', getD_pick hk, this]
      simp [hs]

/-- The same with the selected axes at the back. -/
theorem scatter_pick_append {sel others idx ds : List Nat}
    (h : isPerm (others ++ sel) m = true) (hidx : idx.length = m) :
    scatter (others ++ sel) (pick idx others ++ ds) = put idx sel ds := by
  have hl := isPerm_length h
  have hnd := isPerm_nodup h
  have hdisj := (List.nodup_append.1 hnd).2.2
  apply ext_getD
  · simp [length_scatter, length_put, hl, hidx]
  · intro a ha
    rw [length_scatter, hl] at ha
    unfold scatter put
    rw [hl, hidx, getD_map_range ha, getD_map_range ha]
    by_cases ho : a ∈ others
    · have hs : a ∉ sel := fun hs => hdisj a ho a hs rfl
      have hk : others.idxOf a < others.length := List.idxOf_lt_length_of_mem ho
      have : others.getD (others.idxOf a) 0 = a := by
        simp [List.getD_eq_getElem?_getD, hk]
      rw [List.idxOf_append_of_mem ho, getD_append_left' (by simp [length_pick, hk]),
        getD_pick hk, this]
      simp [hs]
    · have hs : a ∈ sel := by
        have := (isPerm_mem h a).2 ha
        simpa [ho] using this
      have hlp : (pick idx others).length = others.length := length_pick _ _
      rw [List.idxOf_append_of_notMem ho, ← hlp, getD_append_right']
      simp [hs]

end BqVerif.Tensor

namespace BqVerif.Tensor

/-! ### the primitives succeed -/

section
variable {α : Type} [Zero α]

theorem transpose_eq_ok {t : T α} {perm : List Nat} (h : isPerm perm t.shape.length = true) :
    t.transpose perm =
      .ok (ofFn (perm.map (t.shape.getD · 0)) (fun j => t.get (scatter perm j))) := by
  simp [T.transpose, h]

theorem reshapeL_eq_ok {t : T α} {L : Nat} (h0 : L ≠ 0) (hd : t.data.size % L = 0) :
    t.reshapeL L = .ok ⟨[L, t.data.size / L], t.data⟩ := by
  simp [T.reshapeL, h0, hd]

theorem reshapeR_eq_ok {t : T α} {R : Nat} (h0 : R ≠ 0) (hd : t.data.size % R = 0) :
    t.reshapeR R = .ok ⟨[t.data.size / R, R], t.data⟩ := by
  simp [T.reshapeR, h0, hd]

theorem reshape_eq_ok {t : T α} {shape : List Nat} (h : prod shape = t.data.size) :
    t.reshape shape = .ok ⟨shape, t.data⟩ := by
  simp [T.reshape, h]

theorem unravel_pair {L R k l : Nat} (hk : k < L) (hl : l < R) :
    unravel [L, R] (k * R + l) = [k, l] := by
  have hR : 0 < R := by omega
  simp only [unravel, prod, Nat.mul_one, Nat.div_one]
  have h1 : (k * R + l) / R = k := by
    rw [Nat.mul_comm, Nat.mul_add_div hR, Nat.div_eq_of_lt hl]; simp
  have h2 : (k * R + l) % R = l := by
    rw [Nat.mul_comm, Nat.mul_add_mod, Nat.mod_eq_of_lt hl]
  rw [h1, h2, Nat.mod_eq_of_lt hk, Nat.mod_eq_of_lt hl]

theorem mul_add_lt {k L l R : Nat} (hk : k < L) (hl : l < R) : k * R + l < L * R := by
  calc k * R + l < k * R + R := by omega
    _ = (k + 1) * R := by rw [Nat.add_mul]; simp
    _ ≤ L * R := Nat.mul_le_mul_right _ hk

theorem ravel_pair (L R k l : Nat) : ravel [L, R] [k, l] = k * R + l := by
  simp [ravel, prod]

variable [Add α] [Mul α]

theorem matmul_eq_ok {a b : T α} {m k n : Nat} (ha : a.shape = [m, k]) (hb : b.shape = [k, n]) :
    matmul a b = .ok (ofFn [m, n] (fun idx =>
        ((List.range k).map (fun l =>
          a.get [idx.getD 0 0, l] * b.get [l, idx.getD 1 0])).sum)) := by
  unfold matmul
  rw [ha, hb]
  simp

/-- Value at `idx` after contracting the axes `sel` (of dimensions `selShape`) with `m`
from the left: `Σ_x m[idx|sel, x] · t[idx with sel ↦ digits x]`. -/
def frontVal (t m : T α) (selShape sel idx : List Nat) : α :=
  ((List.range (prod selShape)).map (fun x =>
    m.get [ravel selShape (pick idx sel), x] * t.get (put idx sel (unravel selShape x)))).sum

/-- The same from the right: `Σ_x t[idx with sel ↦ digits x] · m[x, idx|sel]`. -/
def backVal (t m : T α) (selShape sel idx : List Nat) : α :=
  ((List.range (prod selShape)).map (fun x =>
    t.get (put idx sel (unravel selShape x)) * m.get [x, ravel selShape (pick idx sel)])).sum

theorem shape_entry_pos {shape : List Nat} (hpos : ∀ s ∈ shape, 0 < s) {l : List Nat}
    (hl : ∀ a ∈ l, a < shape.length) : ∀ s ∈ l.map (shape.getD · 0), 0 < s := by
  intro s hs
  obtain ⟨a, ha, rfl⟩ := List.mem_map.1 hs
  apply hpos
  have := hl a ha
  simp [List.getD_eq_getElem?_getD, this]

theorem validIdx_split {s1 s2 i1 i2 : List Nat} (hl : i1.length = s1.length)
    (h : validIdx (s1 ++ s2) (i1 ++ i2) = true) :
    validIdx s1 i1 = true ∧ validIdx s2 i2 = true := by
  induction s1 generalizing i1 with
  | nil => cases i1 <;> simp_all [validIdx]
  | cons s ss ih =>
    cases i1 with
    | nil => simp at hl
    | cons d ds =>
      simp only [List.length_cons, Nat.add_right_cancel_iff] at hl
      simp only [List.cons_append, validIdx, Bool.and_eq_true, decide_eq_true_eq] at h ⊢
      have := ih hl h.2
      exact ⟨⟨h.1, this.1⟩, this.2⟩


/-- Closed form of `contractFront` (the body of `apply_right`, `eval_apply_right`,
`StateVector.apply`). -/
theorem contractFront_spec {sh : List Nat} {t m : T α} {sel others : List Nat}
    (hpos : ∀ s ∈ t.shape, 0 < s)
    (hperm : isPerm (sel ++ others) t.shape.length = true)
    (hsh : ∀ a ∈ sel ++ others, sh.getD a 0 = t.shape.getD a 0)
    (hm : m.shape = [prod (sel.map (t.shape.getD · 0)), prod (sel.map (t.shape.getD · 0))]) :
    ∃ r, contractFront sh t m sel others = .ok r ∧ r.shape = t.shape ∧ r.WF ∧
      ∀ idx, validIdx t.shape idx = true →
        r.get idx = frontVal t m (sel.map (t.shape.getD · 0)) sel idx := by
  -- notation
  have hlen := isPerm_length hperm
  have hmem := isPerm_mem hperm
  have hsel_lt : ∀ a ∈ sel, a < t.shape.length := fun a ha => (hmem a).1 (by simp [ha])
  have hoth_lt : ∀ a ∈ others, a < t.shape.length := fun a ha => (hmem a).1 (by simp [ha])
  have hS1pos := shape_entry_pos hpos hsel_lt
  have hS2pos := shape_entry_pos hpos hoth_lt
  have hLpos := prod_pos hS1pos
  have hRpos := prod_pos hS2pos
  have hshsel : sel.map (sh.getD · 0) = sel.map (t.shape.getD · 0) :=
    List.map_congr_left (fun a ha => hsh a (by simp [ha]))
  have hshall : (sel ++ others).map (sh.getD · 0) = (sel ++ others).map (t.shape.getD · 0) :=
    List.map_congr_left (fun a ha => hsh a ha)
  have hSsplit : (sel ++ others).map (t.shape.getD · 0)
      = sel.map (t.shape.getD · 0) ++ others.map (t.shape.getD · 0) := List.map_append
  have hinv := argsort_isPerm hperm
  unfold contractFront
  simp only [hshsel, hshall]
  rw [transpose_eq_ok hperm]
  simp only [bind, Except.bind]
  have hsz : (ofFn ((sel ++ others).map (t.shape.getD · 0))
      (fun j => t.get (scatter (sel ++ others) j))).data.size
      = prod (sel.map (t.shape.getD · 0)) * prod (others.map (t.shape.getD · 0)) := by
    rw [ofFn_wf, ofFn_shape, hSsplit, prod_append]
  rw [reshapeL_eq_ok (Nat.pos_iff_ne_zero.1 hLpos) (by rw [hsz]; exact Nat.mul_mod_right _ _)]
  simp only [hsz, Nat.mul_div_cancel_left _ hLpos]
  rw [matmul_eq_ok hm rfl]
  simp only []
  rw [reshape_eq_ok (by rw [ofFn_wf, ofFn_shape, hSsplit, prod_append]; simp [prod])]
  dsimp only
  rw [transpose_eq_ok (by rw [List.length_map, hlen]; exact hinv)]
  refine ⟨_, rfl, ?_, ofFn_wf _ _, ?_⟩
  · rw [ofFn_shape]; exact map_argsort_shape rfl hperm
  · intro idx hv
    have hidxlen := validIdx_length hv
    rw [get_ofFn _ (by rw [map_argsort_shape rfl hperm]; exact hv), scatter_argsort hperm]
    -- the reshaped product read at `pick idx perm`
    have hvp := validIdx_pick rfl hperm hv
    rw [pick_append, hSsplit] at hvp
    obtain ⟨hv1, hv2⟩ := validIdx_split (by simp [length_pick]) hvp
    have hk := ravel_lt hv1
    have hl := ravel_lt hv2
    unfold T.get
    simp only [pick_append, hSsplit, ravel_append (show (pick idx sel).length =
      (sel.map (t.shape.getD · 0)).length by simp [length_pick])]
    rw [ofFn_data_getD _ _ (by
      simp only [prod, Nat.mul_one]
      exact mul_add_lt hk hl)]
    rw [unravel_pair hk hl]
    unfold frontVal
    congr 1
    apply List.map_congr_left
    intro x hx
    have hx' : x < prod (sel.map (t.shape.getD · 0)) := List.mem_range.1 hx
    simp only [List.getD_cons_zero, List.getD_cons_succ, ravel_pair]
    congr 1
    rw [ofFn_data_getD _ _ (by
      rw [prod_append]
      exact mul_add_lt hx' hl)]
    rw [unravel_append hx' hl, unravel_ravel hv2,
      scatter_append_pick hperm hidxlen (by simp [length_unravel])]
    rfl


/-- Closed form of `contractBack` (the body of `apply_left`, `eval_apply_left`). -/
theorem contractBack_spec {sh : List Nat} {t m : T α} {others sel : List Nat}
    (hpos : ∀ s ∈ t.shape, 0 < s)
    (hperm : isPerm (others ++ sel) t.shape.length = true)
    (hsh : ∀ a ∈ others ++ sel, sh.getD a 0 = t.shape.getD a 0)
    (hm : m.shape = [prod (sel.map (t.shape.getD · 0)), prod (sel.map (t.shape.getD · 0))]) :
    ∃ r, contractBack sh t m others sel = .ok r ∧ r.shape = t.shape ∧ r.WF ∧
      ∀ idx, validIdx t.shape idx = true →
        r.get idx = backVal t m (sel.map (t.shape.getD · 0)) sel idx := by
  have hlen := isPerm_length hperm
  have hmem := isPerm_mem hperm
  have hsel_lt : ∀ a ∈ sel, a < t.shape.length := fun a ha => (hmem a).1 (by simp [ha])
  have hoth_lt : ∀ a ∈ others, a < t.shape.length := fun a ha => (hmem a).1 (by simp [ha])
  have hS1pos := shape_entry_pos hpos hsel_lt
  have hS2pos := shape_entry_pos hpos hoth_lt
  have hRpos := prod_pos hS1pos
  have hLpos := prod_pos hS2pos
  have hshsel : sel.map (sh.getD · 0) = sel.map (t.shape.getD · 0) :=
    List.map_congr_left (fun a ha => hsh a (by simp [ha]))
  have hshall : (others ++ sel).map (sh.getD · 0) = (others ++ sel).map (t.shape.getD · 0) :=
    List.map_congr_left (fun a ha => hsh a ha)
  have hSsplit : (others ++ sel).map (t.shape.getD · 0)
      = others.map (t.shape.getD · 0) ++ sel.map (t.shape.getD · 0) := List.map_append
  have hinv := argsort_isPerm hperm
  unfold contractBack
  simp only [hshsel, hshall]
  rw [transpose_eq_ok hperm]
  simp only [bind, Except.bind]
  have hsz : (ofFn ((others ++ sel).map (t.shape.getD · 0))
      (fun j => t.get (scatter (others ++ sel) j))).data.size
      = prod (others.map (t.shape.getD · 0)) * prod (sel.map (t.shape.getD · 0)) := by
    rw [ofFn_wf, ofFn_shape, hSsplit, prod_append]
  rw [reshapeR_eq_ok (Nat.pos_iff_ne_zero.1 hRpos) (by rw [hsz]; exact Nat.mul_mod_left _ _)]
  simp only [hsz, Nat.mul_div_cancel _ hRpos]
  rw [matmul_eq_ok rfl hm]
  simp only []
  rw [reshape_eq_ok (by rw [ofFn_wf, ofFn_shape, hSsplit, prod_append]; simp [prod])]
  dsimp only
  rw [transpose_eq_ok (by rw [List.length_map, hlen]; exact hinv)]
  refine ⟨_, rfl, ?_, ofFn_wf _ _, ?_⟩
  · rw [ofFn_shape]; exact map_argsort_shape rfl hperm
  · intro idx hv
    have hidxlen := validIdx_length hv
    rw [get_ofFn _ (by rw [map_argsort_shape rfl hperm]; exact hv), scatter_argsort hperm]
    have hvp := validIdx_pick rfl hperm hv
    rw [pick_append, hSsplit] at hvp
    obtain ⟨hv2, hv1⟩ := validIdx_split (by simp [length_pick]) hvp
    have hk := ravel_lt hv1
    have hl := ravel_lt hv2
    unfold T.get
    simp only [pick_append, hSsplit, ravel_append (show (pick idx others).length =
      (others.map (t.shape.getD · 0)).length by simp [length_pick])]
    rw [ofFn_data_getD _ _ (by
      simp only [prod, Nat.mul_one]
      exact mul_add_lt hl hk)]
    rw [unravel_pair hl hk]
    unfold backVal
    congr 1
    apply List.map_congr_left
    intro x hx
    have hx' : x < prod (sel.map (t.shape.getD · 0)) := List.mem_range.1 hx
    simp only [List.getD_cons_zero, List.getD_cons_succ, ravel_pair]
    congr 1
    rw [ofFn_data_getD _ _ (by
      rw [prod_append]
      exact mul_add_lt hl hx')]
    rw [unravel_append hl hx', unravel_ravel hv2,
      scatter_pick_append hperm hidxlen]
    rfl

end
end BqVerif.Tensor
