import BqVerif.Proofs.Region
/-
`GreedyPartitioner.topo_sort` (model: `topoLoop` / `topoSort` in `Model/Region.lean`) for an
arbitrary dependency relation `dep`.  Core Lean only.
-/
namespace BqVerif.Region

/-- `selRev` (most recent first) is a legal selection history: distinct indices below `n`, and
    when `i` was selected every `j ≠ i` it depends on had been selected before -/
def Good (dep : Nat → Nat → Bool) (n : Nat) : List Nat → Prop
  | [] => True
  | i :: rest => Good dep n rest ∧ i < n ∧ i ∉ rest ∧ ∀ j, j < n → j ≠ i → dep i j = true → j ∈ rest

theorem pickNext_some (dep : Nat → Nat → Bool) (n : Nat) (sel : List Nat) (i : Nat)
    (h : pickNext dep n sel = some i) :
    i < n ∧ i ∉ sel ∧ ∀ j, j < n → j ≠ i → dep i j = true → j ∈ sel := by
  unfold pickNext at h
  have hm := List.mem_of_find?_eq_some h
  have hp := List.find?_some h
  simp only [List.mem_range] at hm
  simp only [Bool.and_eq_true, Bool.not_eq_true', List.all_eq_true, List.mem_range,
    Bool.or_eq_true, beq_iff_eq, List.contains_eq_mem, decide_eq_true_eq, decide_eq_false_iff_not] at hp
  refine ⟨hm, hp.1, ?_⟩
  intro j hj hne hd
  rcases hp.2 j hj with (h1 | h1) | h1
  · exact absurd h1 hne
  · rw [hd] at h1; cases h1
  · exact h1

theorem pickNext_none (dep : Nat → Nat → Bool) (n : Nat) (sel : List Nat)
    (h : pickNext dep n sel = none) :
    ∀ i, i < n → i ∉ sel → ∃ j, j < n ∧ j ≠ i ∧ j ∉ sel ∧ dep i j = true := by
  unfold pickNext at h
  intro i hi hns
  have := List.find?_eq_none.1 h i (List.mem_range.2 hi)
  simp only [Bool.and_eq_true, Bool.not_eq_true', List.all_eq_true, List.mem_range,
    Bool.or_eq_true, beq_iff_eq, List.contains_eq_mem, decide_eq_true_eq, decide_eq_false_iff_not,
    not_and] at this
  have hx := Classical.not_forall.1 (this hns)
  obtain ⟨j, hx⟩ := hx
  have hj : j < n := Classical.byContradiction fun hc => hx (fun h => absurd h hc)
  have hx' : ¬ ((j = i ∨ dep i j = false) ∨ j ∈ sel) := fun hc => hx (fun _ => hc)
  simp only [not_or] at hx'
  refine ⟨j, hj, hx'.1.1, hx'.2, ?_⟩
  cases hd : dep i j with
  | true => rfl
  | false => exact absurd hd hx'.1.2

theorem topoLoop_good (dep : Nat → Nat → Bool) (n : Nat) :
    ∀ (fuel : Nat) (sel out : List Nat), Good dep n sel → topoLoop dep n fuel sel = some out →
      Good dep n out ∧ out.length = sel.length + fuel
  | 0, sel, out, hg, h => by
    simp only [topoLoop, Option.some.injEq] at h
    subst h; exact ⟨hg, rfl⟩
  | fuel + 1, sel, out, hg, h => by
    simp only [topoLoop] at h
    cases hp : pickNext dep n sel with
    | none => simp [hp] at h
    | some i =>
      simp only [hp] at h
      obtain ⟨h1, h2, h3⟩ := pickNext_some dep n sel i hp
      have := topoLoop_good dep n fuel (i :: sel) out ⟨hg, h1, h2, h3⟩ h
      refine ⟨this.1, ?_⟩
      rw [this.2]; simp only [List.length_cons]; omega

theorem topoLoop_none (dep : Nat → Nat → Bool) (n : Nat) :
    ∀ (fuel : Nat) (sel : List Nat), topoLoop dep n fuel sel = none →
      ∃ sel', sel'.length < sel.length + fuel ∧ (∃ l, sel' = l ++ sel) ∧ pickNext dep n sel' = none
  | 0, sel, h => by simp [topoLoop] at h
  | fuel + 1, sel, h => by
    simp only [topoLoop] at h
    cases hp : pickNext dep n sel with
    | none => exact ⟨sel, by omega, ⟨[], rfl⟩, hp⟩
    | some i =>
      simp only [hp] at h
      obtain ⟨sel', h1, ⟨l, h2⟩, h3⟩ := topoLoop_none dep n fuel (i :: sel) h
      refine ⟨sel', by simp only [List.length_cons] at h1; omega, ⟨l ++ [i], by simp [h2]⟩, h3⟩

theorem Good.nodup {dep : Nat → Nat → Bool} {n : Nat} : ∀ {l : List Nat}, Good dep n l → l.Nodup
  | [], _ => List.nodup_nil
  | _ :: _, h => List.nodup_cons.2 ⟨h.2.2.1, Good.nodup h.1⟩

theorem Good.lt {dep : Nat → Nat → Bool} {n : Nat} : ∀ {l : List Nat}, Good dep n l → ∀ i ∈ l, i < n
  | [], _, _, hi => by cases hi
  | _ :: _, h, i, hi => by
    rcases List.mem_cons.1 hi with rfl | hi
    · exact h.2.1
    · exact Good.lt h.1 i hi

/-- in the returned order (`l.reverse`), whatever stands before position of `i` contains all its
    dependencies -/
theorem Good.order {dep : Nat → Nat → Bool} {n : Nat} : ∀ {l : List Nat}, Good dep n l →
    ∀ pre i post, l.reverse = pre ++ i :: post → ∀ j, j < n → j ≠ i → dep i j = true → j ∈ pre
  | [], _, pre, i, post, h => by simp at h
  | k :: rest, hg, pre, i, post, h => by
    rw [List.reverse_cons] at h
    rcases List.eq_nil_or_concat post with hp | ⟨post', x, hp⟩
    · subst hp
      have h' : rest.reverse ++ [k] = pre ++ [i] := h
      have := List.append_inj' h' rfl
      obtain ⟨e1, e2⟩ := this
      simp only [List.cons.injEq, and_true] at e2
      subst e2
      intro j hj hne hd
      rw [← e1, List.mem_reverse]
      exact hg.2.2.2 j hj hne hd
    · subst hp
      have h' : rest.reverse ++ [k] = (pre ++ i :: post') ++ [x] := by
        rw [h]; simp
      have := List.append_inj' h' rfl
      exact Good.order hg.1 pre i post' this.1

/-- a duplicate-free list of `n` indices below `n` contains every index below `n` -/
theorem nodup_full : ∀ (n : Nat) (l : List Nat), l.Nodup → (∀ i ∈ l, i < n) → l.length = n →
    ∀ i, i < n → i ∈ l
  | 0, _, _, _, _, i, hi => by omega
  | n + 1, l, hn, hlt, hlen, i, hi => by
    -- remove `n` from `l` (it must be there, else `l` fits below `n` and is too long)
    by_cases hmem : n ∈ l
    · by_cases hin : i = n
      · subst hin; exact hmem
      · have hl' : (l.erase n).Nodup := hn.erase n
        have hlt' : ∀ j ∈ l.erase n, j < n := by
          intro j hj
          have h1 := hlt j (List.mem_of_mem_erase hj)
          have h2 : j ≠ n := fun e => by
            subst e; exact (List.Nodup.mem_erase_iff hn).1 hj |>.1 rfl
          omega
        have hlen' : (l.erase n).length = n := by
          rw [List.length_erase_of_mem hmem]; omega
        have := nodup_full n (l.erase n) hl' hlt' hlen' i (by omega)
        exact List.mem_of_mem_erase this
    · exfalso
      have hlt' : ∀ j ∈ l, j < n := by
        intro j hj
        have h1 := hlt j hj
        have h2 : j ≠ n := fun e => hmem (e ▸ hj)
        omega
      -- a nodup list below n has length ≤ n
      have : ∀ (m : Nat) (l : List Nat), l.Nodup → (∀ j ∈ l, j < m) → l.length ≤ m := by
        intro m
        induction m with
        | zero =>
          intro l _ h
          cases l with
          | nil => simp
          | cons a t => exact absurd (h a (by simp)) (by omega)
        | succ m ih =>
          intro l hn h
          by_cases hm : m ∈ l
          · have := ih (l.erase m) (hn.erase m) (by
              intro j hj
              have h1 := h j (List.mem_of_mem_erase hj)
              have h2 : j ≠ m := fun e => by
                subst e; exact (List.Nodup.mem_erase_iff hn).1 hj |>.1 rfl
              omega)
            rw [List.length_erase_of_mem hm] at this; omega
          · have := ih l hn (by
              intro j hj
              have h1 := h j hj
              have h2 : j ≠ m := fun e => hm (e ▸ hj)
              omega)
            omega
      have := this n l hn hlt'
      omega

/-- **`topo_sort` is correct when it returns**: the output lists every index `< n` exactly once,
    and every index comes after all the (other) indices it depends on. -/
theorem topoSort_ok (dep : Nat → Nat → Bool) (n : Nat) (out : List Nat) (h : topoSort dep n = some out) :
    out.Nodup ∧ out.length = n ∧ (∀ i, i ∈ out ↔ i < n)
    ∧ ∀ pre i post, out = pre ++ i :: post → ∀ j, j < n → j ≠ i → dep i j = true → j ∈ pre := by
  unfold topoSort at h
  cases hl : topoLoop dep n n [] with
  | none => simp [hl] at h
  | some l =>
    simp only [hl, Option.map_some, Option.some.injEq] at h
    subst h
    obtain ⟨hg, hlen⟩ := topoLoop_good dep n n [] l trivial hl
    simp only [List.length_nil, Nat.zero_add] at hlen
    refine ⟨(List.reverse_perm l).nodup_iff.2 hg.nodup, by simpa using hlen, ?_, ?_⟩
    · intro i
      rw [List.mem_reverse]
      exact ⟨hg.lt i, nodup_full n l hg.nodup hg.lt hlen i⟩
    · intro pre i post he
      exact hg.order pre i post he

/-- **`topo_sort` raises only for a reason**: at the moment of the RuntimeError some region is
    still unselected and every unselected region depends on another unselected one (so the
    dependency relation has a cycle among them). -/
theorem topoSort_err (dep : Nat → Nat → Bool) (n : Nat) (h : topoSort dep n = none) :
    ∃ sel : List Nat, sel.length < n ∧
      ∀ i, i < n → i ∉ sel → ∃ j, j < n ∧ j ≠ i ∧ j ∉ sel ∧ dep i j = true := by
  unfold topoSort at h
  cases hl : topoLoop dep n n [] with
  | some l => simp [hl] at h
  | none =>
    obtain ⟨sel, h1, _, h3⟩ := topoLoop_none dep n n [] hl
    exact ⟨sel, by simpa using h1, pickNext_none dep n sel h3⟩

/-- with an acyclic relation given by a rank (`dep i j → rank j < rank i`) the sort never raises -/
theorem topoSort_total (dep : Nat → Nat → Bool) (n : Nat) (rank : Nat → Nat)
    (hr : ∀ i j, i < n → j < n → j ≠ i → dep i j = true → rank j < rank i) :
    ∃ out, topoSort dep n = some out := by
  cases h : topoSort dep n with
  | some out => exact ⟨out, rfl⟩
  | none =>
    exfalso
    obtain ⟨sel, hlen, hno⟩ := topoSort_err dep n h
    -- an unselected index exists; take one of least rank: it has an unselected dependency of smaller rank
    have hex : ∃ i, i < n ∧ i ∉ sel := by
      by_cases hc : ∃ i, i < n ∧ i ∉ sel
      · exact hc
      · exfalso
        simp only [not_exists, not_and, Decidable.not_not] at hc
        -- range n ⊆ sel with sel shorter than n: impossible
        have hsub : ∀ i ∈ List.range n, i ∈ sel := fun i hi => hc i (List.mem_range.1 hi)
        have := List.Nodup.length_le_of_subset (List.nodup_range (n := n)) hsub
        simp only [List.length_range] at this
        omega
    obtain ⟨i0, hi0, hs0⟩ := hex
    have key : ∀ (k : Nat) (i : Nat), i < n → i ∉ sel → rank i ≤ k → False := by
      intro k
      induction k with
      | zero =>
        intro i hi hs hk
        obtain ⟨j, hj, hne, _, hd⟩ := hno i hi hs
        have := hr i j hi hj hne hd
        omega
      | succ k ih =>
        intro i hi hs hk
        obtain ⟨j, hj, hne, hjs, hd⟩ := hno i hi hs
        have := hr i j hi hj hne hd
        exact ih j hj hjs (by omega)
    exact key (rank i0) i0 hi0 hs0 (Nat.le_refl _)

end BqVerif.Region
