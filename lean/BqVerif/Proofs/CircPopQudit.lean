import BqVerif.Proofs.CircQudit
import BqVerif.Proofs.CircViews
import BqVerif.Proofs.CircHistory
/-! `pop_qudit` keeps `Inv`: the `batch_pop` of all points on the qudit leaves no operation on
it, and the relabelling `q ↦ q - 1` above it is injective on the remaining qudits (C05). -/
namespace BqVerif.Circ

/-! ## cycles through `removeAt` -/
theorem getD_eraseIdx (l : List Cycle) (j t : Nat) :
    (l.eraseIdx j).getD t [] = if t < j then l.getD t [] else l.getD (t + 1) [] := by
  simp only [List.getD_eq_getElem?_getD, List.getElem?_eraseIdx]
  split <;> rfl

theorem getD_set (l : List Cycle) (j t : Nat) (x : Cycle) (h : j < l.length) :
    (l.set j x).getD t [] = if t = j then x else l.getD t [] := by
  simp only [List.getD_eq_getElem?_getD, List.getElem?_set]
  by_cases htj : t = j
  · subst htj; simp [h]
  · have : ¬ j = t := fun e => htj e.symm
    simp [htj, this]

theorem removeAt_getD (c : Circ) (j h t : Nat) :
    (c.removeAt j h).cycles.getD t [] =
      if ((c.cycles.getD j []).filter (fun o => !o.on h)).isEmpty then
        (if t < j then c.cycles.getD t [] else c.cycles.getD (t + 1) [])
      else (if t = j then (c.cycles.getD j []).filter (fun o => !o.on h) else c.cycles.getD t []) := by
  unfold Circ.removeAt; dsimp only
  split
  · exact getD_eraseIdx _ _ _
  · rename_i hne
    have hlt : j < c.cycles.length := by
      by_cases hlt : j < c.cycles.length
      · exact hlt
      · rw [getD_of_ge _ _ (Nat.le_of_not_lt hlt)] at hne; simp at hne
    exact getD_set _ _ _ _ hlt

/-- the state of the removal fold: cycles below `m` untouched, nothing on `k` from `m` on -/
def PopInvariant (c : Circ) (k : Nat) (acc : Circ) (m : Nat) : Prop :=
  (∀ t, t < m → acc.cycles.getD t [] = c.cycles.getD t []) ∧
  (∀ t, m ≤ t → occ (acc.cycles.getD t []) k = false)

theorem foldr_removeAt_clears (c : Circ) (k : Nat) (L : List (Nat × Op)) (m : Nat)
    (hs : (L.map Prod.fst).Pairwise (· < ·))
    (hL : ∀ x ∈ L, m ≤ x.1 ∧ x.1 < c.cycles.length ∧
      occ ((c.cycles.getD x.1 []).filter (fun y => !y.on x.2.head)) k = false)
    (hun : ∀ j, m ≤ j → j ∉ L.map Prod.fst → occ (c.cycles.getD j []) k = false) :
    PopInvariant c k (L.foldr (fun x acc => acc.removeAt x.1 x.2.head) c) m := by
  induction L generalizing m with
  | nil =>
    refine ⟨fun t _ => rfl, fun t ht => hun t ht (by simp)⟩
  | cons x rest ih =>
    simp only [List.map_cons, List.pairwise_cons] at hs
    obtain ⟨hm, hxlt, hgood⟩ := hL x (by simp)
    have ih' := ih (x.1 + 1) hs.2
      (fun y hy => ⟨by have := hs.1 y.1 (List.mem_map.mpr ⟨y, hy, rfl⟩); omega,
        (hL y (by simp [hy])).2⟩)
      (fun j hj hjn => hun j (by omega) (by
        simp only [List.map_cons, List.mem_cons, not_or]
        exact ⟨by omega, hjn⟩))
    simp only [List.foldr_cons]
    generalize (rest.foldr (fun x acc => acc.removeAt x.1 x.2.head) c) = acc at ih'
    obtain ⟨i1, i2⟩ := ih'
    have hacc_j : acc.cycles.getD x.1 [] = c.cycles.getD x.1 [] := i1 x.1 (by omega)
    refine ⟨?_, ?_⟩
    · intro t ht
      rw [removeAt_getD]
      split
      · have : t < x.1 := by omega
        simp only [this, if_true]; exact i1 t (by omega)
      · have : t ≠ x.1 := by omega
        simp only [this, if_false]; exact i1 t (by omega)
    · intro t ht
      rw [removeAt_getD]
      split
      · by_cases h1 : t < x.1
        · simp only [h1, if_true]
          rw [i1 t (by omega)]
          exact hun t ht (by
            simp only [List.map_cons, List.mem_cons, not_or]
            refine ⟨by omega, ?_⟩
            intro hmem
            have := hs.1 t hmem; omega)
        · simp only [h1, if_false]; exact i2 (t + 1) (by omega)
      · by_cases h1 : t = x.1
        · simp only [h1, if_true]; rw [hacc_j]; exact hgood
        · simp only [h1, if_false]
          by_cases h2 : t < x.1
          · rw [i1 t (by omega)]
            exact hun t ht (by
              simp only [List.map_cons, List.mem_cons, not_or]
              refine ⟨by omega, ?_⟩
              intro hmem
              have := hs.1 t hmem; omega)
          · exact i2 t (by omega)

/-! ## the points `pop_qudit` hands to `batch_pop` -/
def ptsQ (c : Circ) (k : Nat) : List (Int × Int) :=
  (List.range c.numCycles).filterMap (fun i =>
    if occ (c.cycles.getD i []) k then some ((i : Int), (k : Int)) else none)
def foundQ (c : Circ) (k : Nat) : List (Nat × Op) :=
  ((ptsQ c k).map (fun p => (normIdx c.numCycles p.1, normIdx c.numQudits p.2))).filterMap
    (fun (k, q) => (c.cell k q).map (fun o => (k, o)))
def sortedQ (c : Circ) (k : Nat) : List (Nat × Op) :=
  (List.range c.numCycles).flatMap (fun j =>
    (sortBy Op.head (((dedupOps (foundQ c k)).filter (·.1 == j)).map (·.2))).map (fun o => (j, o)))

theorem mem_ptsQ (c : Circ) (k : Nat) (p : Int × Int) :
    p ∈ ptsQ c k ↔ ∃ i, i < c.numCycles ∧ occ (c.cycles.getD i []) k = true ∧
      p = ((i : Int), (k : Int)) := by
  simp only [ptsQ, List.mem_filterMap, List.mem_range]
  constructor
  · rintro ⟨i, hi, h⟩
    split at h
    · rename_i ho; exact ⟨i, hi, ho, by simpa using h.symm⟩
    · simp at h
  · rintro ⟨i, hi, ho, rfl⟩
    exact ⟨i, hi, by rw [if_pos ho]⟩

theorem mem_foundQ (c : Circ) (k j : Nat) (o : Op) :
    (j, o) ∈ foundQ c k ↔ j < c.numCycles ∧ c.cell j k = some o := by
  simp only [foundQ, List.mem_filterMap, List.mem_map, Prod.exists, mem_ptsQ]
  constructor
  · rintro ⟨a, b, ⟨p1, p2, ⟨i, hi, _, hp⟩, hn⟩, hc⟩
    simp only [Prod.mk.injEq] at hp hn
    obtain ⟨rfl, rfl⟩ := hp
    rw [normIdx_nat', normIdx_nat'] at hn
    obtain ⟨rfl, rfl⟩ := hn
    simp only [Option.map_eq_some_iff, Prod.mk.injEq] at hc
    obtain ⟨o', hc, rfl, rfl⟩ := hc
    exact ⟨hi, hc⟩
  · rintro ⟨hj, hc⟩
    have hocc : occ (c.cycles.getD j []) k = true := by
      unfold Circ.cell at hc
      rw [occ_eq_true_iff]
      exact ⟨o, List.mem_of_find?_eq_some hc, by simpa [Op.on] using List.find?_some hc⟩
    refine ⟨j, k, ⟨(j : Int), (k : Int), ⟨j, hj, hocc, rfl⟩, ?_⟩, by simp [hc]⟩
    simp [normIdx_nat']
where
  normIdx_nat' (n k : Nat) : normIdx n (k : Int) = k := by unfold normIdx; simp

theorem mem_dedupOps (x : Nat × Op) (l : List (Nat × Op)) : x ∈ dedupOps l ↔ x ∈ l := by
  induction l with
  | nil => simp [dedupOps]
  | cons a t ih =>
    simp only [dedupOps]
    split
    · rename_i h
      have h' : a ∈ t := by simpa using h
      rw [ih]
      constructor
      · intro hp; exact List.mem_cons_of_mem _ hp
      · intro hp
        rcases List.mem_cons.mp hp with rfl | hp
        · exact h'
        · exact hp
    · simp only [List.mem_cons, ih]

theorem nodup_dedupOps (l : List (Nat × Op)) : (dedupOps l).Nodup := by
  induction l with
  | nil => simp [dedupOps]
  | cons a t ih =>
    simp only [dedupOps]
    split
    · exact ih
    · rename_i h
      have h' : a ∉ t := by simpa using h
      rw [List.nodup_cons]
      exact ⟨fun hm => h' ((mem_dedupOps a t).1 hm), ih⟩

/-- the ops of cycle `j` among the found ones: at most the one on `(j, k)` -/
theorem bucket_spec (c : Circ) (k j : Nat) :
    let U := ((dedupOps (foundQ c k)).filter (·.1 == j)).map (·.2)
    (∀ o, o ∈ U ↔ j < c.numCycles ∧ c.cell j k = some o) ∧ U.length ≤ 1 := by
  intro U
  have hmem : ∀ o, o ∈ U ↔ j < c.numCycles ∧ c.cell j k = some o := by
    intro o
    simp only [U, List.mem_map, List.mem_filter, mem_dedupOps, Prod.exists, beq_iff_eq]
    constructor
    · rintro ⟨a, b, ⟨hm, rfl⟩, rfl⟩; exact (mem_foundQ c k a b).1 hm
    · intro h; exact ⟨j, o, ⟨(mem_foundQ c k j o).2 h, rfl⟩, rfl⟩
  refine ⟨hmem, ?_⟩
  have hnd : U.Nodup := by
    apply List.Nodup.map_on _ ((nodup_dedupOps _).filter _)
    intro x hx y hy hxy
    have hx1 : x.1 = j := by simpa using (List.mem_filter.mp hx).2
    have hy1 : y.1 = j := by simpa using (List.mem_filter.mp hy).2
    exact Prod.ext (by rw [hx1, hy1]) hxy
  match hU : U, hnd, hmem with
  | [], _, _ => simp
  | [a], _, _ => simp
  | a :: b :: t, hnd, hmem =>
    exfalso
    have ha := (hmem a).1 (by simp)
    have hb := (hmem b).1 (by simp)
    rw [ha.2] at hb
    have : a = b := Option.some.inj hb.2
    rw [List.nodup_cons] at hnd
    exact hnd.1 (by simp [this])

theorem mem_sortedQ (c : Circ) (k j : Nat) (o : Op) :
    (j, o) ∈ sortedQ c k ↔ j < c.numCycles ∧ c.cell j k = some o := by
  simp only [sortedQ, List.mem_flatMap, List.mem_range, List.mem_map, Prod.mk.injEq]
  constructor
  · rintro ⟨j', _, o', ho', rfl, rfl⟩
    exact ((bucket_spec c k j').1 o').1 ((mem_sortBy _ _ _).1 ho')
  · intro h
    exact ⟨j, h.1, o, (mem_sortBy _ _ _).2 (((bucket_spec c k j).1 o).2 h), rfl, rfl⟩

theorem flatMap_range_sorted (n : Nat) (G : Nat → List (Nat × Op))
    (h1 : ∀ j, ∀ x ∈ G j, x.1 = j) (h2 : ∀ j, (G j).length ≤ 1) :
    (((List.range n).flatMap G).map Prod.fst).Pairwise (· < ·) ∧
      ∀ x ∈ (List.range n).flatMap G, x.1 < n := by
  induction n with
  | zero => simp
  | succ n ih =>
    rw [List.range_succ, List.flatMap_append, List.map_append]
    simp only [List.flatMap_cons, List.flatMap_nil, List.append_nil]
    constructor
    · rw [List.pairwise_append]
      refine ⟨ih.1, ?_, ?_⟩
      · match hG : G n, h2 n with
        | [], _ => simp
        | [a], _ => simp
      · intro a ha b hb
        rw [List.mem_map] at ha hb
        obtain ⟨x, hx, rfl⟩ := ha
        obtain ⟨y, hy, rfl⟩ := hb
        have := ih.2 x hx
        rw [h1 n y hy]; exact this
    · intro x hx
      rcases List.mem_append.mp hx with hx | hx
      · have := ih.2 x hx; omega
      · rw [h1 n x hx]; omega

theorem sortedQ_sorted (c : Circ) (k : Nat) : ((sortedQ c k).map Prod.fst).Pairwise (· < ·) := by
  apply (flatMap_range_sorted c.numCycles _ ?_ ?_).1
  · intro j x hx
    simp only [List.mem_map] at hx
    obtain ⟨o, _, rfl⟩ := hx; rfl
  · intro j
    rw [List.length_map, (sortBy_perm _ _).length_eq]
    exact (bucket_spec c k j).2

/-- **after the batch pop nothing sits on the qudit** -/
theorem batchPop_ptsQ_clears (c : Circ) (hinv : c.Inv) (k : Nat) (hk : k < c.numQudits)
    (hne : (ptsQ c k).isEmpty = false) :
    ∀ cy ∈ (c.batchPop (ptsQ c k)).1.cycles, occ cy k = false := by
  have hall : (ptsQ c k).all (fun p => c.cycleInRange p.1 && c.qubitInRange p.2) = true := by
    rw [List.all_eq_true]
    intro p hp
    obtain ⟨i, hi, _, rfl⟩ := (mem_ptsQ c k p).1 hp
    simp only [Circ.cycleInRange, Circ.qubitInRange, Bool.and_eq_true, decide_eq_true_eq]
    omega
  have hfound : (foundQ c k).isEmpty = false := by
    cases hp : ptsQ c k with
    | nil => rw [hp] at hne; simp at hne
    | cons p t =>
      obtain ⟨i, hi, hocc, _⟩ := (mem_ptsQ c k p).1 (by rw [hp]; simp)
      rw [occ_eq_true_iff] at hocc
      obtain ⟨o, ho, hq⟩ := hocc
      have hlt : i < c.cycles.length := hi
      rw [getD_of_lt _ _ hlt] at ho
      have := (mem_foundQ c k i o).2 ⟨hi, cell_of_mem c hinv i k o hlt ho hq⟩
      cases hf : foundQ c k with
      | nil => rw [hf] at this; simp at this
      | cons _ _ => rfl
  have hres : (c.batchPop (ptsQ c k)).1 =
      (sortedQ c k).foldr (fun x acc => acc.removeAt x.1 x.2.head) c := by
    unfold Circ.batchPop
    rw [hall]
    simp only [Bool.not_true, Bool.false_eq_true, if_false]
    have hf' : ((List.map (fun p => (normIdx c.numCycles p.1, normIdx c.numQudits p.2))
        (ptsQ c k)).filterMap (fun x => (c.cell x.1 x.2).map (fun o => (x.1, o)))).isEmpty
          = false := hfound
    rw [hf']
    simp only [Bool.false_eq_true, if_false]
    rw [List.foldl_reverse]
    rfl
  rw [hres]
  have hinvt := foldr_removeAt_clears c k (sortedQ c k) 0 (sortedQ_sorted c k) ?_ ?_
  · intro cy hcy
    obtain ⟨t, ht, rfl⟩ := List.getElem_of_mem hcy
    have := hinvt.2 t (Nat.zero_le _)
    rwa [getD_of_lt _ _ ht] at this
  · intro x hx
    obtain ⟨j, o⟩ := x
    obtain ⟨hj, hc⟩ := (mem_sortedQ c k j o).1 hx
    have hlt : j < c.cycles.length := hj
    refine ⟨Nat.zero_le _, hlt, ?_⟩
    obtain ⟨_, hmem, hq⟩ := cell_mem c j k o hc
    rw [getD_of_lt _ _ hlt, occ_eq_false_iff]
    intro y hy hky
    rw [List.mem_filter] at hy
    have hyo : y = o := by
      have := cell_of_mem c hinv j k y hlt hy.1 hky
      rw [hc] at this; exact (Option.some.inj this).symm
    subst hyo
    have hh := head_in_loc y (hinv.2.2 _ (List.getElem_mem hlt) y hmem).1
    have : y.on y.head = true := by simpa [Op.on] using hh
    simp [this] at hy
  · intro j _ hjn
    by_cases hlt : j < c.cycles.length
    · cases hocc : occ (c.cycles.getD j []) k with
      | false => rfl
      | true =>
        exfalso
        rw [occ_eq_true_iff] at hocc
        obtain ⟨o, ho, hq⟩ := hocc
        rw [getD_of_lt _ _ hlt] at ho
        have := (mem_sortedQ c k j o).2 ⟨hlt, cell_of_mem c hinv j k o hlt ho hq⟩
        exact hjn (List.mem_map.mpr ⟨(j, o), this, rfl⟩)
    · exact getD_occ_false_of_ge _ _ _ (Nat.le_of_not_lt hlt)
where
  head_in_loc (o : Op) (h : o.loc ≠ []) : o.head ∈ o.loc := by
    unfold Op.head
    cases hl : o.loc with
    | nil => exact absurd hl h
    | cons a t => simp

/-! ## the relabelling step -/
/-- `cycleOk_relabel` for a relabelling that is injective only on the qudits in use -/
theorem cycleOk_relabel_on (n n' : Nat) (rad rad' : List Nat) (f : Nat → Nat) (S : Nat → Prop)
    (hinj : ∀ a b, a < n → b < n → S a → S b → f a = f b → a = b)
    (hrange : ∀ a, a < n → S a → f a < n')
    (hrad : ∀ a, a < n → S a → rad'.getD (f a) 0 = rad.getD a 0)
    (cy : Cycle) (hok : CycleOk n rad cy) (hS : ∀ o ∈ cy, ∀ q ∈ o.loc, S q) :
    CycleOk n' rad' (cy.map (fun o => { o with loc := o.loc.map f })) := by
  obtain ⟨h1, h2, h3⟩ := hok
  refine ⟨by simpa using h1, ?_, ?_⟩
  · apply List.Pairwise.map _ _ (List.Pairwise.and_mem.mp h2)
    rintro a b ⟨ha, hb, hab⟩ q hqa hqb
    simp only [List.mem_map] at hqa hqb
    obtain ⟨x, hx, rfl⟩ := hqa
    obtain ⟨y, hy, hxy⟩ := hqb
    have hxn := (h3 a ha).2.2.1 x hx
    have hyn := (h3 b hb).2.2.1 y hy
    have := hinj y x hyn hxn (hS b hb y hy) (hS a ha x hx) hxy
    subst this
    exact hab y hx hy
  · intro o ho
    rw [List.mem_map] at ho
    obtain ⟨x, hx, rfl⟩ := ho
    obtain ⟨w1, w2, w3, w4⟩ := h3 x hx
    refine ⟨by simpa using w1, ?_, ?_, ?_⟩
    · dsimp only
      exact List.Nodup.map_on
        (fun a ha b hb hab => hinj a b (w3 a ha) (w3 b hb) (hS x hx a ha) (hS x hx b hb) hab) w2
    · intro q hq
      simp only [List.mem_map] at hq
      obtain ⟨a, ha, rfl⟩ := hq
      exact hrange a (w3 a ha) (hS x hx a ha)
    · dsimp only
      rw [w4, List.map_map]
      apply List.map_congr_left
      intro a ha
      simp only [Function.comp]
      exact (hrad a (w3 a ha) (hS x hx a ha)).symm

theorem getD_eraseIdx_shift (l : List Nat) (k a : Nat) (hak : a ≠ k) :
    (l.eraseIdx k).getD (if a < k then a else a - 1) 0 = l.getD a 0 := by
  simp only [List.getD_eq_getElem?_getD, List.getElem?_eraseIdx]
  by_cases h : a < k
  · simp [h]
  · have h1 : ¬ (a - 1 < k) := by omega
    have h2 : a - 1 + 1 = a := by omega
    simp [h, h1, h2]

/-- **pop_qudit keeps the invariant** -/
theorem popQudit_inv (c : Circ) (qi : Int) (hinv : c.Inv) : (c.popQudit qi).1.Inv := by
  unfold Circ.popQudit
  split
  · exact hinv
  · rename_i hr
    split
    · exact hinv
    · rename_i hn1
      have hr' : qi < (c.numQudits : Int) ∧ qi ≥ -(c.numQudits : Int) := by
        have : c.qubitInRange qi = true := by simpa using hr
        simpa [Circ.qubitInRange] using this
      have hpos : 0 < c.numQudits := by omega
      have hk : normIdx c.numQudits qi < c.numQudits := normIdx_lt _ _ hr'.1 hr'.2 hpos
      generalize normIdx c.numQudits qi = k at hk
      show Circ.Inv ⟨(if (ptsQ c k).isEmpty then c else (c.batchPop (ptsQ c k)).1).radixes.eraseIdx k,
        (if (ptsQ c k).isEmpty then c else (c.batchPop (ptsQ c k)).1).mapLocs
          (fun q => if q < k then q else q - 1)⟩
      generalize hc1 : (if (ptsQ c k).isEmpty then c else (c.batchPop (ptsQ c k)).1) = c1
      have h1inv : c1.Inv := by
        rw [← hc1]; split
        · exact hinv
        · exact batchPop_inv c _ hinv
      have h1rad : c1.radixes = c.radixes := by
        rw [← hc1]; split
        · rfl
        · exact step_radixes c (.batchPop (ptsQ c k))
      have h1clear : ∀ cy ∈ c1.cycles, occ cy k = false := by
        rw [← hc1]; split
        · rename_i he
          have he' : ptsQ c k = [] := by simpa using he
          intro cy hcy
          obtain ⟨t, ht, rfl⟩ := List.getElem_of_mem hcy
          cases hocc : occ c.cycles[t] k with
          | false => rfl
          | true =>
            exfalso
            have : ((t : Int), (k : Int)) ∈ ptsQ c k :=
              (mem_ptsQ c k _).2 ⟨t, ht, by rw [getD_of_lt _ _ ht]; exact hocc, rfl⟩
            rw [he'] at this; simp at this
        · rename_i he
          exact batchPop_ptsQ_clears c hinv k hk (by simpa using he)
      rw [inv_iff] at h1inv ⊢
      intro cy hcy
      simp only [Circ.mapLocs, List.mem_map] at hcy
      obtain ⟨cy0, hcy0, rfl⟩ := hcy
      have hok := h1inv cy0 hcy0
      have hn : c1.numQudits = c.numQudits := by simp [Circ.numQudits, h1rad]
      have hclr := h1clear cy0 hcy0
      rw [occ_eq_false_iff] at hclr
      have := cycleOk_relabel_on c1.numQudits (c1.numQudits - 1) c1.radixes
        (c1.radixes.eraseIdx k) (fun q => if q < k then q else q - 1) (fun q => q ≠ k)
        (fun a b _ _ ha hb h => by
          split at h <;> split at h <;> omega)
        (fun a ha hak => by split <;> omega)
        (fun a _ hak => getD_eraseIdx_shift c1.radixes k a hak) cy0 hok
        (fun o ho q hq hqk => hclr o ho (hqk ▸ hq))
      have hlen : (c1.radixes.eraseIdx k).length = c1.numQudits - 1 := by
        rw [List.length_eraseIdx_of_lt (by simp only [Circ.numQudits] at hn hk; omega)]
        rfl
      simp only [Circ.numQudits] at this ⊢
      simp only [Circ.numQudits] at hlen
      rw [hlen]
      exact this

end BqVerif.Circ
