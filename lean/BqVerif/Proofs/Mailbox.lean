import BqVerif.Model.Mailbox
/-! The mailbox (`WorkerMailbox`) refines the abstract future `slot → Option Val`. -/
namespace BqVerif.Runtime

/-- abstract future of a `map` with `n` slots -/
abbrev Fut := List (Option Val)

def Fut.create (n : Nat) : Fut := List.replicate n none
def Fut.deposit (f : Fut) (s : Nat) (v : Val) : Fut := f.set s (some v)
def Fut.filled (f : Fut) : Nat := (f.filter Option.isSome).length
def Fut.complete (f : Fut) : Bool := f.all Option.isSome && !f.isEmpty

theorem filled_set_none (f : Fut) (s : Nat) (v : Val) (hs : s < f.length) (he : f[s]? = some none) :
    Fut.filled (f.set s (some v)) = Fut.filled f + 1 := by
  induction f generalizing s with
  | nil => simp at hs
  | cons x xs ih =>
    cases s with
    | zero =>
      simp only [List.getElem?_cons_zero, Option.some.injEq] at he
      subst he
      simp [Fut.filled, List.filter]
    | succ s =>
      simp only [List.getElem?_cons_succ] at he
      have := ih s (by simpa using hs) he
      simp only [Fut.filled, List.set_cons_succ, List.filter_cons] at this ⊢
      split <;> simp_all <;> omega

theorem filled_le (f : Fut) : Fut.filled f ≤ f.length := List.length_filter_le _ _

theorem filled_eq_length_iff (f : Fut) : Fut.filled f = f.length ↔ f.all Option.isSome = true := by
  induction f with
  | nil => simp [Fut.filled]
  | cons x xs ih =>
    simp only [Fut.filled, List.filter_cons, List.all_cons, Bool.and_eq_true, List.length_cons] at ih ⊢
    cases hx : x.isSome
    · simp only [Bool.false_eq_true, if_false, false_and, iff_false]
      have := List.length_filter_le Option.isSome xs
      omega
    · simp only [if_true, List.length_cons, true_and]
      rw [← ih]; omega

/-- refinement relation between a `map` mailbox and the abstract future -/
structure Refines (b : Box) (f : Fut) : Prop where
  multi : b.single = false
  slots : b.slots = f
  num : b.num = Fut.filled f
  exp : b.expected = f.length

theorem Refines.create (n : Nat) : Refines (Box.new (some n)) (Fut.create n) := by
  refine ⟨rfl, rfl, ?_, by simp [Box.new, Fut.create]⟩
  simp only [Box.new, Fut.filled, Fut.create]
  induction n with
  | zero => rfl
  | succ n ih => simp [List.replicate_succ, List.filter_cons]

/-- `deposit_result` into an empty slot (E1) is the abstract deposit -/
theorem Refines.deposit {b : Box} {f : Fut} (h : Refines b f) (s : Nat) (v : Val)
    (hs : s < f.length) (he : f[s]? = some none) : Refines (b.deposit s v) (f.deposit s v) := by
  refine ⟨h.multi, ?_, ?_, ?_⟩
  · simp [Box.deposit, h.multi, h.slots, Fut.deposit]
  · simp only [Box.deposit, Fut.deposit]
    rw [filled_set_none f s v hs he, h.num]
  · simp [Box.deposit, Fut.deposit, h.exp]

/-- a mailbox is `ready` exactly when every slot of the future is filled -/
theorem Refines.ready_iff {b : Box} {f : Fut} (h : Refines b f) :
    b.ready = true ↔ f.complete = true := by
  simp only [Box.ready, Fut.complete, Bool.and_eq_true, decide_eq_true_eq, bne_iff_ne, ne_eq,
    Bool.not_eq_true', List.isEmpty_eq_false_iff]
  rw [h.exp, h.num]
  constructor
  · rintro ⟨h1, h2⟩
    have hle := filled_le f
    have heq : Fut.filled f = f.length := by omega
    refine ⟨(filled_eq_length_iff f).mp heq, ?_⟩
    intro hn; subst hn; simp [Fut.filled] at h2
  · rintro ⟨h1, h2⟩
    have heq := (filled_eq_length_iff f).mpr h1
    refine ⟨by omega, ?_⟩
    rw [heq]
    intro h0
    exact h2 (List.length_eq_zero_iff.mp h0)

/-- the value an awaiting task receives is the vector of slot values, in slot order -/
theorem Refines.value {b : Box} {f : Fut} (h : Refines b f) :
    b.value = [1, f.length] ++ (f.map encOpt).flatten := by
  simp [Box.value, h.multi, h.slots]

-- ------------------------------------------------------- next(): fresh batches
/-- operations on one mailbox as seen by `next()` -/
inductive BOp where
  | dep (s : Nat) (v : Val)     -- deposit_result
  | take                        -- get_new_results
deriving Repr

def Box.applyB (b : Box) : BOp → Box
  | .dep s v => b.deposit s v
  | .take => { b with fresh := some [] }

/-- all deposits, in arrival order -/
def depositsOf : List BOp → List (Nat × Val)
  | [] => []
  | .dep s v :: t => (s, v) :: depositsOf t
  | .take :: t => depositsOf t

/-- the batches handed out by `get_new_results`, concatenated, given the fresh list so far -/
def takenOf : List (Nat × Val) → List BOp → List (Nat × Val)
  | _, [] => []
  | fr, .dep s v :: t => takenOf (fr ++ [(s, v)]) t
  | fr, .take :: t => fr ++ takenOf [] t

def freshAfter : List (Nat × Val) → List BOp → List (Nat × Val)
  | fr, [] => fr
  | fr, .dep s v :: t => freshAfter (fr ++ [(s, v)]) t
  | _, .take :: t => freshAfter [] t

theorem fresh_run (b : Box) (ops : List BOp) :
    ((ops.foldl Box.applyB b).fresh.getD []) = freshAfter (b.fresh.getD []) ops := by
  induction ops generalizing b with
  | nil => rfl
  | cons op ops ih =>
    cases op with
    | dep s v => simp only [List.foldl_cons, freshAfter]; rw [ih]; simp [Box.applyB, Box.deposit]
    | take => simp only [List.foldl_cons, freshAfter]; rw [ih]; simp [Box.applyB]

/-- batches + what is still fresh = all deposits, in order: nothing lost, nothing twice -/
theorem batches_partition (fr : List (Nat × Val)) (ops : List BOp) :
    takenOf fr ops ++ freshAfter fr ops = fr ++ depositsOf ops := by
  induction ops generalizing fr with
  | nil => simp [takenOf, freshAfter, depositsOf]
  | cons op ops ih =>
    cases op with
    | dep s v => simp only [takenOf, freshAfter, depositsOf]; rw [ih]; simp
    | take => simp only [takenOf, freshAfter, depositsOf]; rw [List.append_assoc, ih]; simp

end BqVerif.Runtime
