/-
Circuit level: `get_unitary` is the ordered product of the embedded operation matrices,
`get_statevector` applies it to the vector, `get_unitary_and_grad` emits
`R_j · embed(∂_k U_j) · L_j`.  Stated with Mathlib's `Matrix (Fin d) (Fin d) α`.
-/
import BqVerif.Proofs.C06Embed
import BqVerif.Proofs.C06GradAlg
import BqVerif.Model.CircSim
import Mathlib.Data.Matrix.Mul

set_option linter.unusedSectionVars false

namespace BqVerif.CircSim
open BqVerif.Tensor BqVerif.C06Alg

variable {P α : Type} [Semiring α]

/-- The `d × d` matrix denoted by the flat array of `t` (`reshape((d, d))`). -/
def toMatrix (d : Nat) (t : T α) : Matrix (Fin d) (Fin d) α :=
  Matrix.of (fun r c : Fin d => t.entry d r c)

/-- `embed M loc` as a matrix: `M[r|loc, c|loc] · [r|rest = c|rest]`. -/
def embedMatrix (d : Nat) (rad : List Nat) (m : T α) (loc : List Nat) :
    Matrix (Fin d) (Fin d) α := Matrix.of (fun r c : Fin d => embedEntry rad m loc r c)

theorem mulEntry_eq_mul {d : Nat} (A B : Nat → Nat → α) (r c : Fin d) :
    mulEntry d A B r c
      = (Matrix.of (fun i j : Fin d => A i j) * Matrix.of (fun i j : Fin d => B i j)) r c := by
  rw [Matrix.mul_apply]
  simp only [mulEntry, list_sum_range, Matrix.of_apply]
  exact Finset.sum_range (fun k => A r k * B k c)

/-- `apply_right` in matrix form. -/
theorem applyRight_matrix (conj : α → α) {b : Builder α} {u : UM α} {loc : List Nat}
    (hb : b.WF) (hargs : ArgsOK b.radixes u loc) (inverse check : Bool) :
    ∃ b', b.applyRight conj u loc inverse check = .ok b' ∧ b'.radixes = b.radixes ∧ b'.WF ∧
      toMatrix (prod b.radixes) b'.tensor
        = embedMatrix (prod b.radixes) b.radixes (opMat conj u inverse) loc
            * toMatrix (prod b.radixes) b.tensor := by
  obtain ⟨b', hok, hrad, hwf, hent⟩ := applyRight_spec conj hb hargs inverse check
  refine ⟨b', hok, hrad, hwf, ?_⟩
  ext r c
  show b'.tensor.entry _ r c = _
  rw [hent r c r.2 c.2, mulEntry_eq_mul]
  rfl

/-- `apply_left` in matrix form. -/
theorem applyLeft_matrix (conj : α → α) {b : Builder α} {u : UM α} {loc : List Nat}
    (hb : b.WF) (hargs : ArgsOK b.radixes u loc) (inverse check : Bool) :
    ∃ b', b.applyLeft conj u loc inverse check = .ok b' ∧ b'.radixes = b.radixes ∧ b'.WF ∧
      toMatrix (prod b.radixes) b'.tensor
        = toMatrix (prod b.radixes) b.tensor
            * embedMatrix (prod b.radixes) b.radixes (opMat conj u inverse) loc := by
  obtain ⟨b', hok, hrad, hwf, hent⟩ := applyLeft_spec conj hb hargs inverse check
  refine ⟨b', hok, hrad, hwf, ?_⟩
  ext r c
  show b'.tensor.entry _ r c = _
  rw [hent r c r.2 c.2, mulEntry_eq_mul]
  rfl

/-- `eval_apply_right` in matrix form. -/
theorem evalApplyRight_matrix {b : Builder α} {m : T α} {loc : List Nat} (hb : b.WF)
    (hloc : isLocation loc b.radixes.length = true)
    (hm : m.shape = [prod (loc.map (b.radixes.getD · 0)), prod (loc.map (b.radixes.getD · 0))]) :
    ∃ e, b.evalApplyRight m loc = .ok e ∧ e.shape = [prod b.radixes, prod b.radixes] ∧ e.WF ∧
      toMatrix (prod b.radixes) e
        = embedMatrix (prod b.radixes) b.radixes m loc * toMatrix (prod b.radixes) b.tensor := by
  obtain ⟨e, hok, hsh, hwf, hent⟩ := evalApplyRight_spec hb hloc hm
  refine ⟨e, hok, hsh, hwf, ?_⟩
  ext r c
  show e.entry _ r c = _
  rw [hent r c r.2 c.2, mulEntry_eq_mul]
  rfl

/-- `eval_apply_left` in matrix form. -/
theorem evalApplyLeft_matrix {b : Builder α} {m : T α} {loc : List Nat} (hb : b.WF)
    (hloc : isLocation loc b.radixes.length = true)
    (hm : m.shape = [prod (loc.map (b.radixes.getD · 0)), prod (loc.map (b.radixes.getD · 0))]) :
    ∃ e, b.evalApplyLeft m loc = .ok e ∧ e.shape = [prod b.radixes, prod b.radixes] ∧ e.WF ∧
      toMatrix (prod b.radixes) e
        = toMatrix (prod b.radixes) b.tensor * embedMatrix (prod b.radixes) b.radixes m loc := by
  obtain ⟨e, hok, hsh, hwf, hent⟩ := evalApplyLeft_spec hb hloc hm
  refine ⟨e, hok, hsh, hwf, ?_⟩
  ext r c
  show e.entry _ r c = _
  rw [hent r c r.2 c.2, mulEntry_eq_mul]
  rfl

theorem get_pair_eq_entry {t : T α} {d : Nat} (h : t.shape = [d, d]) (r c : Nat) :
    t.get [r, c] = t.entry d r c := by
  unfold T.get T.entry
  rw [h, ravel_pair]

/-- `a @ b` of two `(d, d)` arrays is the matrix product. -/
theorem matmul_matrix {a b : T α} {d : Nat} (ha : a.shape = [d, d]) (hb : b.shape = [d, d]) :
    ∃ e, matmul a b = .ok e ∧ e.shape = [d, d] ∧ e.WF ∧
      toMatrix d e = toMatrix d a * toMatrix d b := by
  refine ⟨_, matmul_eq_ok ha hb, rfl, ofFn_wf _ _, ?_⟩
  ext r c
  have hlt : (r : Nat) * d + c < prod [d, d] := by
    simp only [prod, Nat.mul_one]; exact mul_add_lt r.2 c.2
  show (ofFn [d, d] _).data.getD (r * d + c) 0 = _
  rw [ofFn_data_getD _ _ hlt, unravel_pair r.2 c.2, Matrix.mul_apply, list_sum_range,
    Finset.sum_range]
  apply Finset.sum_congr rfl
  intro k _
  simp only [List.getD_cons_zero, List.getD_cons_succ]
  rw [get_pair_eq_entry ha, get_pair_eq_entry hb]
  rfl

theorem builder_new_wf {rad : List Nat} (hpos : ∀ s ∈ rad, 0 < s) :
    (Builder.new rad : Builder α).WF := by
  refine ⟨rfl, ?_, hpos⟩
  show (identity (prod rad) : T α).data.size = prod (rad ++ rad)
  rw [prod_append]
  have := ofFn_wf (α := α) [prod rad, prod rad]
    (fun idx => if idx.getD 0 0 = idx.getD 1 0 then (1 : α) else 0)
  unfold T.WF at this
  rw [ofFn_shape] at this
  simpa [prod, identity] using this

theorem builder_new_matrix (rad : List Nat) :
    toMatrix (prod rad) (Builder.new rad : Builder α).tensor = 1 := by
  ext r c
  have hlt : (r : Nat) * prod rad + c < prod [prod rad, prod rad] := by
    simp only [prod, Nat.mul_one]; exact mul_add_lt r.2 c.2
  show (identity (prod rad) : T α).data.getD (r * prod rad + c) 0 = _
  unfold identity
  rw [ofFn_data_getD _ _ hlt, unravel_pair r.2 c.2]
  simp [Matrix.one_apply, Fin.ext_iff]

theorem getUnitary_matrix (b : Builder α) :
    toMatrix (prod b.radixes) b.getUnitary = toMatrix (prod b.radixes) b.tensor := rfl


/-! ### the loops of `get_unitary` / `get_statevector` -/

/-- An operation fits a circuit with radixes `rad` (`check_valid_operation`) and its gate
returns arrays of the right shape. -/
structure OpOK (rad : List Nat) (op : GOp P α) : Prop where
  loc : isLocation op.loc rad.length = true
  radixes : op.radixes = op.loc.map (rad.getD · 0)
  unitary : ∀ ps, (op.unitary ps).shape = [prod op.radixes, prod op.radixes]
  grad : ∀ ps, ∀ g ∈ op.grad ps, g.shape = [prod op.radixes, prod op.radixes]
  params : op.params.length = op.numParams

/-- The parameters operation `op` is evaluated at when the loop index is `idx`: its slice
of the explicit vector, or its stored parameters. -/
def evalParams (explicit : Bool) (params : List P) (op : GOp P α) (idx : Nat) : List P :=
  if ((if explicit then (params.drop idx).take op.numParams else []) : List P).length ≠ 0
  then (if explicit then (params.drop idx).take op.numParams else []) else op.params

/-- The embedded operation matrices in iteration order. -/
def loopMats (d : Nat) (rad : List Nat) (explicit : Bool) (params : List P) :
    List (Nat × GOp P α) → Nat → List (Matrix (Fin d) (Fin d) α)
  | [], _ => []
  | (_, op) :: rest, idx =>
    embedMatrix d rad (op.unitary (evalParams explicit params op idx)) op.loc
      :: loopMats d rad explicit params rest (idx + op.numParams)

theorem evalParams_length {explicit : Bool} {params : List P} {op : GOp P α} {idx : Nat}
    (hp : op.params.length = op.numParams)
    (hs : explicit = true → idx + op.numParams ≤ params.length) :
    (evalParams explicit params op idx).length = op.numParams := by
  unfold evalParams
  cases explicit
  · simp [hp]
  · have := hs rfl
    simp only [if_true]
    split
    · simp; omega
    · exact hp

theorem getUnitary_eval {explicit : Bool} {params : List P} {op : GOp P α} {idx : Nat}
    (hp : op.params.length = op.numParams)
    (hs : explicit = true → idx + op.numParams ≤ params.length) :
    op.getUnitary (if explicit then (params.drop idx).take op.numParams else [])
      = .ok ⟨op.radixes, op.unitary (evalParams explicit params op idx)⟩ := by
  have hl := evalParams_length (params := params) (idx := idx) hp hs
  unfold GOp.getUnitary
  unfold evalParams at hl ⊢
  simp only [hl]
  simp

theorem getUnitaryAndGrad_eval {explicit : Bool} {params : List P} {op : GOp P α} {idx : Nat}
    (hp : op.params.length = op.numParams)
    (hs : explicit = true → idx + op.numParams ≤ params.length) :
    op.getUnitaryAndGrad (if explicit then (params.drop idx).take op.numParams else [])
      = .ok (⟨op.radixes, op.unitary (evalParams explicit params op idx)⟩,
             op.grad (evalParams explicit params op idx)) := by
  have hl := evalParams_length (params := params) (idx := idx) hp hs
  unfold GOp.getUnitaryAndGrad
  unfold evalParams at hl ⊢
  simp only [hl]
  simp

theorem opOK_args {rad : List Nat} {op : GOp P α} (h : OpOK rad op) (ps : List P) :
    ArgsOK rad (⟨op.radixes, op.unitary ps⟩ : UM α) op.loc :=
  ⟨h.loc, h.radixes, h.unitary ps⟩

/-- The `for op in self` loop of `get_unitary` multiplies the builder, from the left and in
iteration order, by the embedded matrix of every operation. -/
theorem unitaryLoop_spec (conj : α → α) (explicit : Bool) (params : List P) (rad : List Nat) :
    ∀ (ops : List (Nat × GOp P α)) (idx : Nat) (b : Builder α), b.radixes = rad → b.WF →
      (∀ e ∈ ops, OpOK rad e.2) →
      (explicit = true → idx + (ops.map (·.2.numParams)).sum ≤ params.length) →
      ∃ b', unitaryLoop conj explicit params ops idx b = .ok b' ∧ b'.radixes = rad ∧ b'.WF ∧
        toMatrix (prod rad) b'.tensor
          = prodRev (loopMats (prod rad) rad explicit params ops idx)
              * toMatrix (prod rad) b.tensor := by
  intro ops
  induction ops with
  | nil =>
    intro idx b hbr hb _ _
    exact ⟨b, rfl, hbr, hb, by simp [loopMats]⟩
  | cons e rest ih =>
    intro idx b hbr hb hops hs
    obtain ⟨cy, op⟩ := e
    have hop : OpOK rad op := hops (cy, op) (by simp)
    have hs1 : explicit = true → idx + op.numParams ≤ params.length := by
      intro he; have := hs he; simp only [List.map_cons, List.sum_cons] at this; omega
    have hargs := opOK_args hop (evalParams explicit params op idx)
    rw [← hbr] at hargs
    obtain ⟨b1, hok1, hrad1, hwf1, hmat1⟩ := applyRight_matrix conj hb hargs false true
    rw [hbr] at hrad1 hmat1
    obtain ⟨b', hok', hrad', hwf', hmat'⟩ := ih (idx + op.numParams) b1 hrad1 hwf1
      (fun e he => hops e (by simp [he]))
      (by intro he; have := hs he; simp only [List.map_cons, List.sum_cons] at this; omega)
    refine ⟨b', ?_, hrad', hwf', ?_⟩
    · rw [unitaryLoop]
      simp only [bind, Except.bind, getUnitary_eval hop.params hs1, hok1, hok']
    · rw [hmat', hmat1, loopMats, prodRev_cons, mul_assoc]
      rfl


/-- All operations of the circuit fit it. -/
def Circ.OpsOK (c : Circ P α) : Prop :=
  (∀ s ∈ c.radixes, 0 < s) ∧ ∀ e ∈ c.ops, OpOK c.radixes e.2

/-- **`get_unitary` is the ordered product of the embedded operation matrices**
(`U = E_n ⋯ E_2 E_1`, iteration order, qudit 0 most significant), with stored or with
explicit parameters. -/
theorem getUnitary_is_product (conj : α → α) (c : Circ P α) (hc : c.OpsOK) (params : List P)
    (hps : params = [] ∨ params.length = c.numParams) :
    ∃ U, c.getUnitary conj params = .ok U ∧ U.shape = [prod c.radixes, prod c.radixes] ∧
      toMatrix (prod c.radixes) U
        = prodRev (loopMats (prod c.radixes) c.radixes (params.length ≠ 0) params c.ops 0) := by
  obtain ⟨hpos, hops⟩ := hc
  obtain ⟨b', hok, hrad, hwf, hmat⟩ := unitaryLoop_spec conj (decide (params.length ≠ 0)) params
    c.radixes c.ops 0 (Builder.new c.radixes) rfl (builder_new_wf hpos) hops
    (by
      intro he
      rcases hps with h | h
      · subst h; simp at he
      · simp only [Nat.zero_add]; unfold Circ.numParams at h; omega)
  refine ⟨b'.getUnitary, ?_, ?_, ?_⟩
  · unfold Circ.getUnitary
    simp only [bind, Except.bind, hok]
    rcases hps with h | h
    · subst h; rfl
    · simp only [h, ne_eq, not_true_eq_false, if_false]
      split <;> rfl
  · show [prod b'.radixes, prod b'.radixes] = _
    rw [hrad]
  · have := getUnitary_matrix b'
    rw [hrad] at this
    rw [this, hmat, builder_new_matrix, mul_one]

/-! ### state vectors -/

/-- The vector denoted by a flat array. -/
def toVec (d : Nat) (v : T α) : Fin d → α := fun r => v.data.getD r 0

theorem svApply_vec (conj : α → α) {rad : List Nat} {vec : T α} {u : UM α} {loc : List Nat}
    (hpos : ∀ s ∈ rad, 0 < s) (hsize : vec.data.size = prod rad) (hargs : ArgsOK rad u loc)
    (inverse check : Bool) :
    ∃ v', svApply conj rad vec u loc inverse check = .ok v' ∧ v'.data.size = prod rad ∧
      toVec (prod rad) v' = Matrix.mulVec (embedMatrix (prod rad) rad (opMat conj u inverse) loc)
        (toVec (prod rad) vec) := by
  obtain ⟨v', hok, _, hsz, hent⟩ := svApply_spec conj hpos hsize hargs inverse check
  refine ⟨v', hok, hsz, ?_⟩
  funext r
  show v'.data.getD r 0 = _
  rw [hent r r.2, list_sum_range, Finset.sum_range]
  rfl

theorem stateLoop_spec (conj : α → α) (explicit : Bool) (params : List P) (rad : List Nat)
    (hpos : ∀ s ∈ rad, 0 < s) :
    ∀ (ops : List (Nat × GOp P α)) (idx : Nat) (v : T α), v.data.size = prod rad →
      (∀ e ∈ ops, OpOK rad e.2) →
      (explicit = true → idx + (ops.map (·.2.numParams)).sum ≤ params.length) →
      ∃ v', stateLoop conj rad explicit params ops idx v = .ok v' ∧ v'.data.size = prod rad ∧
        toVec (prod rad) v'
          = Matrix.mulVec (prodRev (loopMats (prod rad) rad explicit params ops idx))
              (toVec (prod rad) v) := by
  intro ops
  induction ops with
  | nil =>
    intro idx v hv _ _
    exact ⟨v, rfl, hv, by simp [loopMats]⟩
  | cons e rest ih =>
    intro idx v hv hops hs
    obtain ⟨cy, op⟩ := e
    have hop : OpOK rad op := hops (cy, op) (by simp)
    have hs1 : explicit = true → idx + op.numParams ≤ params.length := by
      intro he; have := hs he; simp only [List.map_cons, List.sum_cons] at this; omega
    have hargs := opOK_args hop (evalParams explicit params op idx)
    obtain ⟨v1, hok1, hsz1, hvec1⟩ := svApply_vec conj hpos hv hargs false true
    obtain ⟨v', hok', hsz', hvec'⟩ := ih (idx + op.numParams) v1 hsz1
      (fun e he => hops e (by simp [he]))
      (by intro he; have := hs he; simp only [List.map_cons, List.sum_cons] at this; omega)
    refine ⟨v', ?_, hsz', ?_⟩
    · rw [stateLoop]
      simp only [bind, Except.bind, getUnitary_eval hop.params hs1, hok1, hok']
    · rw [hvec', hvec1, loopMats, prodRev_cons, Matrix.mulVec_mulVec]
      rfl

/-- **`get_statevector` applies the ordered product to the input vector**: for a plain
vector (`sr = none`, interpreted with the circuit's radixes) and for a `StateVector` that
carries the circuit's radixes. -/
theorem getStatevector_is_product (conj : α → α) (c : Circ P α) (hc : c.OpsOK) (inState : T α)
    (hsize : inState.data.size = prod c.radixes) (sr : Option (List Nat))
    (hsr : sr.getD c.radixes = c.radixes) (params : List P)
    (hps : params = [] ∨ params.length = c.numParams) :
    ∃ v, c.getStatevector conj inState sr params = .ok v ∧
      toVec (prod c.radixes) v
        = Matrix.mulVec
            (prodRev (loopMats (prod c.radixes) c.radixes (params.length ≠ 0) params c.ops 0))
            (toVec (prod c.radixes) inState) := by
  obtain ⟨hpos, hops⟩ := hc
  obtain ⟨v', hok, hsz, hvec⟩ := stateLoop_spec conj (decide (params.length ≠ 0)) params
    c.radixes hpos c.ops 0 ⟨[inState.data.size], inState.data⟩ hsize hops
    (by
      intro he
      rcases hps with h | h
      · subst h; simp at he
      · simp only [Nat.zero_add]; unfold Circ.numParams at h; omega)
  refine ⟨v', ?_, ?_⟩
  · unfold Circ.getStatevector
    rw [hsize] at hok
    rcases hps with h | h
    · subst h
      simpa [bind, Except.bind, pure, Except.pure, hsize, hsr] using hok
    · rw [h] at hok
      simp only [bind, Except.bind, hsize, hsr, h, ne_eq, not_true_eq_false, if_false]
      split <;> simpa using hok
  · exact hvec

/-- A wrong dimension is a ValueError (for a plain vector: w.r.t. the circuit's radixes). -/
theorem getStatevector_dim_error (conj : α → α) (c : Circ P α) (inState : T α)
    (sr : Option (List Nat)) (hsize : prod (sr.getD c.radixes) ≠ inState.data.size)
    (params : List P) (hps : params = [] ∨ params.length = c.numParams) :
    c.getStatevector conj inState sr params = .error .valueError := by
  unfold Circ.getStatevector
  rcases hps with h | h
  · subst h
    simp [bind, Except.bind, hsize]
    rfl
  · simp only [bind, Except.bind, h, ne_eq, not_true_eq_false, if_false, hsize,
      not_false_eq_true, if_true]
    split <;> rfl

/-! ### the gradient loop -/

/-- A collected `(M, dM, location)` triple fits the circuit. -/
structure EntryOK (rad : List Nat) (x : UM α × List (T α) × List Nat) : Prop where
  args : ArgsOK rad x.1 x.2.2
  grads : ∀ g ∈ x.2.1, g.shape = [prod x.1.radixes, prod x.1.radixes]

/-- The ring elements the loop works with: `(E, F, dEs)` = embedded matrix, embedded
dagger, embedded derivative matrices. -/
def absEntry (conj : α → α) (d : Nat) (rad : List Nat) (x : UM α × List (T α) × List Nat) :
    Matrix (Fin d) (Fin d) α × Matrix (Fin d) (Fin d) α × List (Matrix (Fin d) (Fin d) α) :=
  (embedMatrix d rad x.1.mat x.2.2, embedMatrix d rad (dagger conj x.1.mat) x.2.2,
   x.2.1.map (fun g => embedMatrix d rad g x.2.2))

/-- What the first loop of `get_unitary_and_grad` collects. -/
def collSpec (explicit : Bool) (params : List P) :
    List (Nat × GOp P α) → Nat → List (UM α × List (T α) × List Nat)
  | [], _ => []
  | (_, op) :: rest, idx =>
    (⟨op.radixes, op.unitary (evalParams explicit params op idx)⟩,
      op.grad (evalParams explicit params op idx), op.loc)
      :: collSpec explicit params rest (idx + op.numParams)

theorem collectLoop_eq (explicit : Bool) (params : List P) :
    ∀ (ops : List (Nat × GOp P α)) (idx : Nat),
      (∀ e ∈ ops, e.2.params.length = e.2.numParams) →
      (explicit = true → idx + (ops.map (·.2.numParams)).sum ≤ params.length) →
      collectLoop explicit params ops idx = .ok (collSpec explicit params ops idx) := by
  intro ops
  induction ops with
  | nil => intro idx _ _; rfl
  | cons e rest ih =>
    intro idx hp hs
    obtain ⟨cy, op⟩ := e
    have hs1 : explicit = true → idx + op.numParams ≤ params.length := by
      intro he; have := hs he; simp only [List.map_cons, List.sum_cons] at this; omega
    rw [collectLoop]
    simp only [bind, Except.bind, getUnitaryAndGrad_eval (hp (cy, op) (by simp)) hs1,
      ih (idx + op.numParams) (fun e he => hp e (by simp [he]))
        (by intro he; have := hs he; simp only [List.map_cons, List.sum_cons] at this; omega)]
    rfl

theorem collSpec_ok {rad : List Nat} (explicit : Bool) (params : List P) :
    ∀ (ops : List (Nat × GOp P α)) (idx : Nat), (∀ e ∈ ops, OpOK rad e.2) →
      ∀ x ∈ collSpec explicit params ops idx, EntryOK rad x := by
  intro ops
  induction ops with
  | nil => intro idx _ x hx; simp [collSpec] at hx
  | cons e rest ih =>
    intro idx hops x hx
    obtain ⟨cy, op⟩ := e
    simp only [collSpec, List.mem_cons] at hx
    rcases hx with rfl | hx
    · have hop := hops (cy, op) (by simp)
      exact ⟨opOK_args hop _, fun g hg => hop.grad _ g hg⟩
    · exact ih _ (fun e he => hops e (by simp [he])) x hx

theorem collSpec_mats (d : Nat) (rad : List Nat) (explicit : Bool) (params : List P) :
    ∀ (ops : List (Nat × GOp P α)) (idx : Nat),
      (collSpec explicit params ops idx).map (fun x => embedMatrix d rad x.1.mat x.2.2)
        = loopMats d rad explicit params ops idx := by
  intro ops
  induction ops with
  | nil => intro idx; rfl
  | cons e rest ih => intro idx; obtain ⟨cy, op⟩ := e; simp [collSpec, loopMats, ih]

theorem rightLoop_spec (conj : α → α) (rad : List Nat) :
    ∀ (coll : List (UM α × List (T α) × List Nat)) (b : Builder α), b.radixes = rad → b.WF →
      (∀ x ∈ coll, EntryOK rad x) →
      ∃ b', rightLoop conj coll b = .ok b' ∧ b'.radixes = rad ∧ b'.WF ∧
        toMatrix (prod rad) b'.tensor
          = prodRev (coll.map (fun x => embedMatrix (prod rad) rad x.1.mat x.2.2))
              * toMatrix (prod rad) b.tensor := by
  intro coll
  induction coll with
  | nil => intro b hbr hb _; exact ⟨b, rfl, hbr, hb, by simp⟩
  | cons x rest ih =>
    intro b hbr hb hx
    obtain ⟨m, dm, loc⟩ := x
    have hargs := (hx (m, dm, loc) (by simp)).args
    simp only at hargs
    rw [← hbr] at hargs
    obtain ⟨b1, hok1, hrad1, hwf1, hmat1⟩ := applyRight_matrix conj hb hargs false true
    rw [hbr] at hrad1 hmat1
    obtain ⟨b', hok', hrad', hwf', hmat'⟩ := ih b1 hrad1 hwf1 (fun y hy => hx y (by simp [hy]))
    refine ⟨b', ?_, hrad', hwf', ?_⟩
    · rw [rightLoop]; simp only [bind, Except.bind, hok1, hok']
    · rw [hmat', hmat1, List.map_cons, prodRev_cons, mul_assoc]; rfl

theorem innerGradLoop_spec {rad : List Nat} {left : Builder α} (hl : left.WF)
    (hlr : left.radixes = rad) {rightU : T α} (hru : rightU.shape = [prod rad, prod rad])
    {loc : List Nat} (hloc : isLocation loc rad.length = true) :
    ∀ (dm : List (T α)),
      (∀ g ∈ dm, g.shape = [prod (loc.map (rad.getD · 0)), prod (loc.map (rad.getD · 0))]) →
      ∃ gs, innerGradLoop left rightU loc dm = .ok gs ∧
        gs.map (toMatrix (prod rad))
          = dm.map (fun g => toMatrix (prod rad) rightU
              * (embedMatrix (prod rad) rad g loc * toMatrix (prod rad) left.tensor)) := by
  intro dm
  induction dm with
  | nil => intro _; exact ⟨[], rfl, rfl⟩
  | cons g gs ih =>
    intro hg
    subst hlr
    obtain ⟨e, hok, hsh, _, hmat⟩ := evalApplyRight_matrix hl hloc (hg g (by simp))
    obtain ⟨f, hokf, _, _, hmatf⟩ := matmul_matrix hru hsh
    obtain ⟨tl, hoktl, hmtl⟩ := ih (fun g' hg' => hg g' (by simp [hg']))
    refine ⟨f :: tl, ?_, ?_⟩
    · rw [innerGradLoop]; simp only [bind, Except.bind, hok, hokf, hoktl]; rfl
    · simp only [List.map_cons, hmatf, hmat, hmtl]

/-- **The main loop of `get_unitary_and_grad` refines the abstract loop** over the ring of
`d × d` matrices: `right ← right · F_j`, emit `right · (dE · left)`, `left ← E_j · left`. -/
theorem gradLoop_refines (conj : α → α) (rad : List Nat) :
    ∀ (coll : List (UM α × List (T α) × List Nat)) (left right : Builder α),
      left.radixes = rad → left.WF → right.radixes = rad → right.WF →
      (∀ x ∈ coll, EntryOK rad x) →
      ∃ left' grads, gradLoop conj coll left right = .ok (left', grads) ∧
        left'.radixes = rad ∧ left'.WF ∧
        (toMatrix (prod rad) left'.tensor, grads.map (toMatrix (prod rad)))
          = gradLoopAbs (coll.map (absEntry conj (prod rad) rad))
              (toMatrix (prod rad) left.tensor) (toMatrix (prod rad) right.tensor) := by
  intro coll
  induction coll with
  | nil =>
    intro left right hlr hl _ _ _
    exact ⟨left, [], rfl, hlr, hl, rfl⟩
  | cons x rest ih =>
    intro left right hlr hl hrr hr hx
    obtain ⟨m, dm, loc⟩ := x
    have hxok := hx (m, dm, loc) (by simp)
    have hargs := hxok.args
    have hgr := hxok.grads
    simp only at hargs hgr
    obtain ⟨hloc, hmrad, hmshape⟩ := hargs
    -- right.apply_left(M, loc, inverse=True)
    have hargsR : ArgsOK right.radixes m loc := by rw [hrr]; exact ⟨hloc, hmrad, hmshape⟩
    obtain ⟨r1, hokr, hradr, hwfr, hmatr⟩ := applyLeft_matrix conj hr hargsR true true
    rw [hrr] at hradr hmatr
    -- the inner loop
    have hru : r1.getUnitary.shape = [prod rad, prod rad] := by
      show [prod r1.radixes, prod r1.radixes] = _
      rw [hradr]
    obtain ⟨gs, hokg, hmg⟩ := innerGradLoop_spec hl hlr hru hloc dm
      (by intro g hg; rw [← hmrad]; exact hgr g hg)
    -- left.apply_right(M, loc)
    have hargsL : ArgsOK left.radixes m loc := by rw [hlr]; exact ⟨hloc, hmrad, hmshape⟩
    obtain ⟨l1, hokl, hradl, hwfl, hmatl⟩ := applyRight_matrix conj hl hargsL false true
    rw [hlr] at hradl hmatl
    obtain ⟨left', tl, hok', hrad', hwf', habs⟩ := ih l1 r1 hradl hwfl hradr hwfr
      (fun y hy => hx y (by simp [hy]))
    refine ⟨left', gs ++ tl, ?_, hrad', hwf', ?_⟩
    · rw [gradLoop]
      simp only [bind, Except.bind, hokr, hokg, hokl, hok']
      rfl
    · have hru' : toMatrix (prod rad) r1.getUnitary = toMatrix (prod rad) r1.tensor := by
        have := getUnitary_matrix r1
        rwa [hradr] at this
      rw [List.map_cons, gradLoopAbs]
      simp only [absEntry, List.map_map]
      have h1 : toMatrix (prod rad) right.tensor * embedMatrix (prod rad) rad (dagger conj m.mat) loc
          = toMatrix (prod rad) r1.tensor := by
        rw [hmatr]; rfl
      have h2 : embedMatrix (prod rad) rad m.mat loc * toMatrix (prod rad) left.tensor
          = toMatrix (prod rad) l1.tensor := by
        rw [hmatl]; rfl
      rw [h1, h2, ← habs]
      simp only [List.map_append, hmg, hru']
      rfl


/-- **`get_unitary_and_grad`**: the returned unitary is the ordered product and the
gradient list is, in flat-parameter order, `R_j · (embed(∂_k U_j) · L_j)` with
`R_j = E_n ⋯ E_{j+1}` and `L_j = E_{j-1} ⋯ E_1` (`gradSpec … 1 1`), provided every
operation matrix is unitary in the sense `E_j · embed(U_j†) = 1` (the loop uses the
dagger as the inverse). -/
theorem getUnitaryAndGrad_spec (conj : α → α) (c : Circ P α) (hc : c.OpsOK) (params : List P)
    (hps : params = [] ∨ params.length = c.numParams)
    (hunit : ∀ x ∈ (collSpec (params.length ≠ 0) params c.ops 0).map
        (absEntry conj (prod c.radixes) c.radixes), x.1 * x.2.1 = 1) :
    ∃ U grads, c.getUnitaryAndGrad conj params = .ok (U, grads) ∧
      toMatrix (prod c.radixes) U
        = prodRev (loopMats (prod c.radixes) c.radixes (params.length ≠ 0) params c.ops 0) ∧
      grads.map (toMatrix (prod c.radixes))
        = gradSpec ((collSpec (params.length ≠ 0) params c.ops 0).map
            (absEntry conj (prod c.radixes) c.radixes)) 1 1 := by
  obtain ⟨hpos, hops⟩ := hc
  have hslice : decide (params.length ≠ 0) = true →
      0 + (c.ops.map (·.2.numParams)).sum ≤ params.length := by
    intro he
    rcases hps with h | h
    · subst h; simp at he
    · simp only [Nat.zero_add]; unfold Circ.numParams at h; omega
  have hcoll := collectLoop_eq (decide (params.length ≠ 0)) params c.ops 0
    (fun e he => (hops e he).params) hslice
  have hentries := collSpec_ok (rad := c.radixes) (decide (params.length ≠ 0)) params c.ops 0 hops
  obtain ⟨right, hokr, hradr, hwfr, hmatr⟩ := rightLoop_spec conj c.radixes _
    (Builder.new c.radixes) rfl (builder_new_wf hpos) hentries
  obtain ⟨left', grads, hokg, hradl, hwfl, habs⟩ := gradLoop_refines conj c.radixes _
    (Builder.new c.radixes) right rfl (builder_new_wf hpos) hradr hwfr hentries
  have hE : ((collSpec (decide (params.length ≠ 0)) params c.ops 0).map
      (absEntry conj (prod c.radixes) c.radixes)).map (·.1)
      = loopMats (prod c.radixes) c.radixes (decide (params.length ≠ 0)) params c.ops 0 := by
    rw [List.map_map, ← collSpec_mats]; rfl
  rw [hmatr, builder_new_matrix, mul_one, collSpec_mats, ← hE] at habs
  have hspec := gradLoopAbs_eq_gradSpec _ hunit (1 : Matrix (Fin (prod c.radixes))
    (Fin (prod c.radixes)) α) 1
  rw [one_mul] at hspec
  rw [hspec, mul_one, hE] at habs
  have h1 := congrArg Prod.fst habs
  have h2 := congrArg Prod.snd habs
  simp only at h1 h2
  refine ⟨left'.getUnitary, grads, ?_, ?_, h2⟩
  · unfold Circ.getUnitaryAndGrad
    simp only [bind, Except.bind, hcoll, hokr, hokg]
    rcases hps with h | h
    · subst h; rfl
    · simp only [h, ne_eq, not_true_eq_false, if_false]
      split <;> rfl
  · have := getUnitary_matrix left'
    rw [hradl] at this
    rw [this, h1]


/-! ### unitarity of the gates gives the hypothesis of the gradient theorem -/

theorem embedMatrix_mul {rad loc : List Nat} (hloc : isLocation loc rad.length = true)
    (hpos : ∀ s ∈ rad, 0 < s) {m1 m2 m12 : T α}
    (h1 : m1.shape = [prod (loc.map (rad.getD · 0)), prod (loc.map (rad.getD · 0))])
    (h2 : m2.shape = [prod (loc.map (rad.getD · 0)), prod (loc.map (rad.getD · 0))])
    (h12 : matmul m1 m2 = .ok m12) :
    embedMatrix (prod rad) rad m12 loc
      = embedMatrix (prod rad) rad m1 loc * embedMatrix (prod rad) rad m2 loc := by
  ext r c
  show embedEntry rad m12 loc r c = _
  rw [embedEntry_mul hloc hpos h1 h2 h12, mulEntry_eq_mul]
  rfl

theorem embedMatrix_identity {rad loc : List Nat} (hloc : isLocation loc rad.length = true)
    (hpos : ∀ s ∈ rad, 0 < s) :
    embedMatrix (prod rad) rad (identity (prod (loc.map (rad.getD · 0))) : T α) loc = 1 := by
  ext r c
  show embedEntry rad _ loc r c = _
  rw [embedEntry_identity hloc hpos r.2 c.2, Matrix.one_apply]
  simp [Fin.ext_iff]

/-- If `M · M† = I` for the gate matrix then `E · embed(M†) = 1` for the embedded ones. -/
theorem absEntry_unit (conj : α → α) {rad : List Nat} (hpos : ∀ s ∈ rad, 0 < s)
    {x : UM α × List (T α) × List Nat} (hx : EntryOK rad x)
    (hu : matmul x.1.mat (dagger conj x.1.mat) = .ok (identity (prod x.1.radixes))) :
    (absEntry conj (prod rad) rad x).1 * (absEntry conj (prod rad) rad x).2.1 = 1 := by
  obtain ⟨hloc, hrad, hshape⟩ := hx.args
  rw [hrad] at hshape hu
  show embedMatrix (prod rad) rad x.1.mat x.2.2
      * embedMatrix (prod rad) rad (dagger conj x.1.mat) x.2.2 = 1
  rw [← embedMatrix_mul hloc hpos hshape (dagger_shape conj hshape) hu,
    embedMatrix_identity hloc hpos]

/-- **`get_unitary_and_grad` for circuits of unitary gates** (`M(θ) · M(θ)† = I` for every
gate and parameter value): see `getUnitaryAndGrad_spec`. -/
theorem getUnitaryAndGrad_of_unitary_gates (conj : α → α) (c : Circ P α) (hc : c.OpsOK)
    (params : List P) (hps : params = [] ∨ params.length = c.numParams)
    (hgates : ∀ e ∈ c.ops, ∀ ps, matmul (e.2.unitary ps) (dagger conj (e.2.unitary ps))
      = .ok (identity (prod e.2.radixes))) :
    ∃ U grads, c.getUnitaryAndGrad conj params = .ok (U, grads) ∧
      toMatrix (prod c.radixes) U
        = prodRev (loopMats (prod c.radixes) c.radixes (params.length ≠ 0) params c.ops 0) ∧
      grads.map (toMatrix (prod c.radixes))
        = gradSpec ((collSpec (params.length ≠ 0) params c.ops 0).map
            (absEntry conj (prod c.radixes) c.radixes)) 1 1 := by
  apply getUnitaryAndGrad_spec conj c hc params hps
  have hall : ∀ (ops : List (Nat × GOp P α)) (idx : Nat), (∀ e ∈ ops, OpOK c.radixes e.2) →
      (∀ e ∈ ops, ∀ ps, matmul (e.2.unitary ps) (dagger conj (e.2.unitary ps))
        = .ok (identity (prod e.2.radixes))) →
      ∀ x ∈ (collSpec (decide (params.length ≠ 0)) params ops idx).map
        (absEntry conj (prod c.radixes) c.radixes), x.1 * x.2.1 = 1 := by
    intro ops idx hops hg x hx
    obtain ⟨y, hy, rfl⟩ := List.mem_map.1 hx
    have hyok := collSpec_ok (rad := c.radixes) _ params ops idx hops y hy
    apply absEntry_unit conj hc.1 hyok
    clear hx hyok
    induction ops generalizing idx with
    | nil => simp [collSpec] at hy
    | cons e rest ih =>
      obtain ⟨cy, op⟩ := e
      simp only [collSpec, List.mem_cons] at hy
      rcases hy with rfl | hy
      · exact hg (cy, op) (by simp) _
      · exact ih _ (fun e he => hops e (by simp [he])) (fun e he => hg e (by simp [he])) hy
  exact hall c.ops 0 hc.2 hgates

end BqVerif.CircSim
