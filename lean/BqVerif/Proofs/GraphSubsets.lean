import BqVerif.Proofs.GraphBasic
/-!
`CouplingGraph.get_subgraphs_of_size` / `_location_search` (graph.py lines 434-519):
the model `G.subgraphsOfSize` returns exactly the (sorted) vertex sets of size `k` that induce a
connected subgraph, without duplicates.

MODEL DEVIATION (reported, model left unchanged): the model keeps `path` as a *sorted* list, so a
location is identified with its vertex set.  Python builds `CircuitLocation(list(curr_path))` from a
`set[int]`, whose iteration order depends on the insertion history once hash slots collide
(vertices ≥ 8), and `CircuitLocation` equality is order sensitive.  Observed with the real code:
`CouplingGraph([(0,8)], 9).get_subgraphs_of_size(2) == [(0, 8), (8, 0)]` and
`CouplingGraph([(0,8),(0,16),(8,16)], 17).get_subgraphs_of_size(3)` returns all 6 orderings of
{0,8,16}.  So `subgraphsOfSize_nodup` (no vertex set returned twice) holds for the model but NOT for
the Python function on graphs with ≥ 9 qudits; soundness/completeness "as vertex sets" are unaffected.
-/
namespace BqVerif.Graph

/-- reachability inside the vertex set S (induced subgraph) -/
inductive ReachIn (g : G) (S : List Nat) : Nat → Nat → Prop
  | refl {a : Nat} : a ∈ S → ReachIn g S a a
  | step {a b c : Nat} : ReachIn g S a b → c ∈ S → g.hasEdge b c = true → ReachIn g S a c

def ConnectedOn (g : G) (S : List Nat) : Prop := ∀ a ∈ S, ∀ b ∈ S, ReachIn g S a b

/-! ### ReachIn -/
theorem ReachIn.mono {g : G} {S S' : List Nat} {a b : Nat} (h : ReachIn g S a b)
    (hs : ∀ x ∈ S, x ∈ S') : ReachIn g S' a b := by
  induction h with
  | refl ha => exact ReachIn.refl (hs _ ha)
  | step _ hc he ih => exact ReachIn.step ih (hs _ hc) he

theorem ReachIn.trans {g : G} {S : List Nat} {a b c : Nat} (h1 : ReachIn g S a b)
    (h2 : ReachIn g S b c) : ReachIn g S a c := by
  induction h2 with
  | refl _ => exact h1
  | step _ hc he ih => exact ReachIn.step ih hc he

/-- a walk inside `S` that starts in `C` and ends outside `C` crosses the boundary of `C`. -/
theorem ReachIn.exit {g : G} {S C : List Nat} {a b : Nat} (h : ReachIn g S a b)
    (ha : a ∈ C) (hb : b ∉ C) : ∃ u ∈ C, ∃ w ∈ S, w ∉ C ∧ g.hasEdge u w = true := by
  induction h with
  | refl _ => exact absurd ha hb
  | @step b' c _ hc he ih =>
    by_cases hb' : b' ∈ C
    · exact ⟨b', hb', c, hc, hb, he⟩
    · exact ih hb'

/-- adding a vertex adjacent to a connected set keeps it connected (sets as lists). -/
theorem connectedOn_insert {g : G} {S S' : List Nat} {v : Nat}
    (hS' : ∀ y, y ∈ S' ↔ y = v ∨ y ∈ S) (hc : ConnectedOn g S)
    (hadj : S = [] ∨ ∃ u ∈ S, g.hasEdge u v = true) : ConnectedOn g S' := by
  have hsub : ∀ x ∈ S, x ∈ S' := fun x hx => (hS' x).2 (Or.inr hx)
  have hv : v ∈ S' := (hS' v).2 (Or.inl rfl)
  intro a ha b hb
  rcases hadj with rfl | ⟨u, hu, hue⟩
  · have ha' : a = v := by simpa using (hS' a).1 ha
    have hb' : b = v := by simpa using (hS' b).1 hb
    subst ha'; subst hb'
    exact ReachIn.refl hv
  · have huv : ReachIn g S' u v := ReachIn.step (ReachIn.refl (hsub u hu)) hv hue
    have hvu : ReachIn g S' v u :=
      ReachIn.step (ReachIn.refl hv) (hsub u hu) (by rw [G.hasEdge_comm]; exact hue)
    rcases (hS' a).1 ha with rfl | ha' <;> rcases (hS' b).1 hb with rfl | hb'
    · exact ReachIn.refl hv
    · exact hvu.trans ((hc u hu b hb').mono hsub)
    · exact ((hc a ha' u hu).mono hsub).trans huv
    · exact (hc a ha' b hb').mono hsub

/-! ### insertSorted -/
theorem mem_insertSorted {x y : Nat} {l : List Nat} : y ∈ insertSorted x l ↔ y = x ∨ y ∈ l := by
  induction l with
  | nil => simp [insertSorted]
  | cons z zs ih =>
    unfold insertSorted
    split
    · simp
    · simp only [List.mem_cons, ih]
      constructor
      · rintro (h | h | h) <;> simp [h]
      · rintro (h | h | h) <;> simp [h]

theorem length_insertSorted (x : Nat) (l : List Nat) :
    (insertSorted x l).length = l.length + 1 := by
  induction l with
  | nil => simp [insertSorted]
  | cons z zs ih =>
    unfold insertSorted
    split <;> simp [ih]

theorem sorted_insertSorted {x : Nat} {l : List Nat} (hs : l.Pairwise (· < ·)) (hx : x ∉ l) :
    (insertSorted x l).Pairwise (· < ·) := by
  induction l with
  | nil => simp [insertSorted]
  | cons z zs ih =>
    rw [List.pairwise_cons] at hs
    simp only [List.mem_cons, not_or] at hx
    unfold insertSorted
    split
    · rename_i hle
      have hlt : x < z := by omega
      rw [List.pairwise_cons]
      refine ⟨?_, List.pairwise_cons.2 hs⟩
      intro a ha
      rcases List.mem_cons.1 ha with rfl | ha
      · exact hlt
      · exact Nat.lt_trans hlt (hs.1 a ha)
    · rename_i hle
      rw [List.pairwise_cons]
      refine ⟨?_, ih hs.2 hx.2⟩
      intro a ha
      rcases mem_insertSorted.1 ha with rfl | ha
      · omega
      · exact hs.1 a ha

theorem nodup_of_sorted {l : List Nat} (h : l.Pairwise (· < ·)) : l.Nodup :=
  List.Pairwise.imp (fun hab => Nat.ne_of_lt hab) h

/-- two strictly sorted lists, one contained in the other, of the same length, are equal -/
theorem sorted_eq_of_subset_of_length {l₁ l₂ : List Nat} (h₁ : l₁.Pairwise (· < ·))
    (h₂ : l₂.Pairwise (· < ·)) (hsub : ∀ x ∈ l₁, x ∈ l₂) (hlen : l₁.length = l₂.length) :
    l₁ = l₂ := by
  have hsup : ∀ x ∈ l₂, x ∈ l₁ := by
    intro b hb
    apply Classical.byContradiction
    intro hnb
    have hnd : (b :: l₁).Nodup := List.nodup_cons.2 ⟨hnb, nodup_of_sorted h₁⟩
    have hss : (b :: l₁) ⊆ l₂ := by
      intro x hx
      rcases List.mem_cons.1 hx with rfl | hx
      · exact hb
      · exact hsub x hx
    have := hnd.length_le_of_subset hss
    simp at this
    omega
  have hperm : l₁.Perm l₂ :=
    (List.perm_ext_iff_of_nodup (nodup_of_sorted h₁) (nodup_of_sorted h₂)).2
      (fun a => ⟨hsub a, hsup a⟩)
  exact List.Perm.eq_of_pairwise (le := (· < ·))
    (fun a b _ _ hab hba => absurd hab (Nat.lt_asymm hba)) h₁ h₂ hperm

/-! ### generic fold invariant -/
theorem foldl_inv {α β} (P : β → Prop) (f : β → α → β) (l : List α)
    (h : ∀ b, ∀ a ∈ l, P b → P (f b a)) (b : β) (hb : P b) : P (l.foldl f b) := by
  induction l generalizing b with
  | nil => exact hb
  | cons x xs ih =>
    rw [List.foldl_cons]
    exact ih (fun b a ha => h b a (List.mem_cons_of_mem _ ha)) _ (h b x List.mem_cons_self hb)

/-! ### locSearch: monotone, duplicate free -/
theorem locSearch_mono (g : G) (fuel : Nat) (acc : List (List Nat)) (path : List Nat)
    (v limit : Nat) (S : List Nat) (hS : S ∈ acc) : S ∈ locSearch g fuel acc path v limit := by
  induction fuel generalizing acc path v with
  | zero => exact hS
  | succ fuel ih =>
    unfold locSearch
    split
    · exact hS
    · simp only []
      split
      · split
        · exact hS
        · exact List.mem_append_left _ hS
      · exact foldl_inv (fun acc => S ∈ acc) _ _ (fun b a _ hb => ih b _ a hb) acc hS

theorem locSearch_nodup (g : G) (fuel : Nat) (acc : List (List Nat)) (path : List Nat)
    (v limit : Nat) (hacc : acc.Nodup) : (locSearch g fuel acc path v limit).Nodup := by
  induction fuel generalizing acc path v with
  | zero => exact hacc
  | succ fuel ih =>
    unfold locSearch
    split
    · exact hacc
    · simp only []
      split
      · split
        · exact hacc
        · rename_i hnc
          rw [List.nodup_append]
          refine ⟨hacc, by simp, ?_⟩
          intro a ha b hb
          simp only [List.mem_singleton] at hb
          subst hb
          intro hab
          subst hab
          exact hnc (by simpa using ha)
      · exact foldl_inv (fun acc => acc.Nodup) _ _ (fun b a _ hb => ih b _ a hb) acc hacc

/-! ### soundness -/
/-- what is claimed of every returned location -/
def GoodLoc (g : G) (k : Nat) (S : List Nat) : Prop :=
  S.length = k ∧ S.Pairwise (· < ·) ∧ (∀ v ∈ S, v < g.n) ∧ ConnectedOn g S

theorem mem_frontier {g : G} {cur : List Nat} {nb : Nat} :
    nb ∈ (cur.flatMap g.adj).eraseDups.filter (fun q => !cur.contains q) ↔
      nb ∉ cur ∧ nb < g.n ∧ ∃ u ∈ cur, g.hasEdge u nb = true := by
  simp only [List.mem_filter, List.mem_eraseDups, List.mem_flatMap, G.mem_adj,
    List.contains_eq_mem, Bool.not_eq_eq_eq_not, Bool.not_true, decide_eq_false_iff_not]
  constructor
  · rintro ⟨⟨u, hu, hlt, he⟩, hn⟩
    exact ⟨hn, hlt, u, hu, he⟩
  · rintro ⟨hn, hlt, u, hu, he⟩
    exact ⟨⟨u, hu, hlt, he⟩, hn⟩

theorem locSearch_sound (g : G) (fuel : Nat) (acc : List (List Nat)) (path : List Nat)
    (v limit : Nat) (hacc : ∀ S ∈ acc, GoodLoc g limit S)
    (hps : path.Pairwise (· < ·)) (hpn : ∀ u ∈ path, u < g.n) (hpc : ConnectedOn g path)
    (hv : v < g.n) (hadj : path = [] ∨ ∃ u ∈ path, g.hasEdge u v = true) :
    ∀ S ∈ locSearch g fuel acc path v limit, GoodLoc g limit S := by
  induction fuel generalizing acc path v with
  | zero => exact hacc
  | succ fuel ih =>
    unfold locSearch
    split
    · exact hacc
    · rename_i hnc
      have hvp : v ∉ path := by simpa using hnc
      have hcs : (insertSorted v path).Pairwise (· < ·) := sorted_insertSorted hps hvp
      have hcn : ∀ u ∈ insertSorted v path, u < g.n := by
        intro u hu
        rcases mem_insertSorted.1 hu with rfl | hu
        · exact hv
        · exact hpn u hu
      have hcc : ConnectedOn g (insertSorted v path) :=
        connectedOn_insert (fun y => mem_insertSorted) hpc hadj
      simp only []
      split
      · rename_i hlen
        split
        · exact hacc
        · intro S hS
          rcases List.mem_append.1 hS with hS | hS
          · exact hacc S hS
          · simp only [List.mem_singleton] at hS
            subst hS
            exact ⟨by simpa using hlen, hcs, hcn, hcc⟩
      · refine foldl_inv (fun acc => ∀ S ∈ acc, GoodLoc g limit S) _ _ ?_ acc hacc
        intro b nb hnb hb
        rw [mem_frontier] at hnb
        exact ih b _ nb hb hcs hcn hcc hnb.2.1 (Or.inr hnb.2.2)

/-! ### completeness -/
theorem locSearch_complete (g : G) (S : List Nat) (k : Nat) (hlen : S.length = k)
    (hSs : S.Pairwise (· < ·)) (hSn : ∀ v ∈ S, v < g.n) (hSc : ConnectedOn g S)
    (d : Nat) : ∀ (fuel : Nat) (acc : List (List Nat)) (path : List Nat) (v : Nat),
      path.Pairwise (· < ·) → (∀ u ∈ path, u ∈ S) → v ∈ S → v ∉ path →
      path.length + 1 + d = k → d + 1 ≤ fuel → S ∈ locSearch g fuel acc path v k := by
  induction d with
  | zero =>
    intro fuel acc path v hps hpS hvS hvp hd hfuel
    obtain ⟨fuel, rfl⟩ : ∃ f, fuel = f + 1 := ⟨fuel - 1, by omega⟩
    unfold locSearch
    have hnc : ¬ (path.contains v = true) := by simpa using hvp
    rw [if_neg hnc]
    simp only []
    have hcl : (insertSorted v path).length = k := by rw [length_insertSorted]; omega
    have hcur : insertSorted v path = S := by
      apply sorted_eq_of_subset_of_length (sorted_insertSorted hps hvp) hSs
      · intro x hx
        rcases mem_insertSorted.1 hx with rfl | hx
        · exact hvS
        · exact hpS x hx
      · rw [hcl, hlen]
    rw [if_pos (by simpa using hcl)]
    split
    · rename_i hc
      rw [hcur] at hc
      simpa using hc
    · rw [hcur]; simp
  | succ d ih =>
    intro fuel acc path v hps hpS hvS hvp hd hfuel
    obtain ⟨fuel, rfl⟩ : ∃ f, fuel = f + 1 := ⟨fuel - 1, by omega⟩
    unfold locSearch
    have hnc : ¬ (path.contains v = true) := by simpa using hvp
    rw [if_neg hnc]
    simp only []
    have hcl : (insertSorted v path).length = path.length + 1 := length_insertSorted v path
    have hne : ¬ (((insertSorted v path).length == k) = true) := by
      simp only [beq_iff_eq]; omega
    rw [if_neg hne]
    have hcs : (insertSorted v path).Pairwise (· < ·) := sorted_insertSorted hps hvp
    have hcS : ∀ x ∈ insertSorted v path, x ∈ S := by
      intro x hx
      rcases mem_insertSorted.1 hx with rfl | hx
      · exact hvS
      · exact hpS x hx
    -- some vertex of S is missing from cur
    have hex : ∃ b ∈ S, b ∉ insertSorted v path := by
      apply Classical.byContradiction
      intro hno
      have hss : S ⊆ insertSorted v path := by
        intro x hx
        apply Classical.byContradiction
        intro hx'
        exact hno ⟨x, hx, hx'⟩
      have := (nodup_of_sorted hSs).length_le_of_subset hss
      omega
    obtain ⟨b, hbS, hbc⟩ := hex
    have hvc : v ∈ insertSorted v path := mem_insertSorted.2 (Or.inl rfl)
    obtain ⟨u, hu, w, hwS, hwc, he⟩ := (hSc v hvS b hbS).exit hvc hbc
    have hwf : w ∈ ((insertSorted v path).flatMap g.adj).eraseDups.filter
        (fun q => !(insertSorted v path).contains q) :=
      mem_frontier.2 ⟨hwc, hSn w hwS, u, hu, he⟩
    obtain ⟨l1, l2, hl⟩ := List.append_of_mem hwf
    rw [hl, List.foldl_append, List.foldl_cons]
    refine foldl_inv (fun acc => S ∈ acc) _ _
      (fun b a _ hb => locSearch_mono g _ b _ a _ S hb) _ ?_
    exact ih fuel _ _ w hcs hcS hwS hwc (by omega) (by omega)

/-! ### final theorems -/
theorem subgraphsOfSize_none_iff (g : G) (k : Nat) :
    g.subgraphsOfSize k = none ↔ k = 0 ∨ g.n < k := by
  unfold G.subgraphsOfSize
  split
  · rename_i h
    simpa using h
  · rename_i h
    simpa using h

theorem subgraphsOfSize_eq {g : G} {k : Nat} {res : List (List Nat)}
    (h : g.subgraphsOfSize k = some res) :
    (k ≠ 0 ∧ k ≤ g.n) ∧
    res = (List.range g.n).foldl (fun acc q => locSearch g (k + 1) acc [] q k) [] := by
  unfold G.subgraphsOfSize at h
  split at h
  · exact absurd h (by simp)
  · rename_i hc
    simp only [Option.some.injEq] at h
    refine ⟨?_, h.symm⟩
    simp at hc
    omega

/-- soundness (no well-formedness needed): every returned location is a sorted k-subset of the
vertices that is connected on its own -/
theorem subgraphsOfSize_sound' (g : G) (k : Nat) (res : List (List Nat))
    (h : g.subgraphsOfSize k = some res) :
    ∀ S ∈ res, S.length = k ∧ S.Pairwise (· < ·) ∧ (∀ v ∈ S, v < g.n) ∧ ConnectedOn g S := by
  obtain ⟨_, rfl⟩ := subgraphsOfSize_eq h
  refine foldl_inv (fun acc => ∀ S ∈ acc, GoodLoc g k S) _ _ ?_ [] (by simp)
  intro b q hq hb
  exact locSearch_sound g _ b [] q k hb List.Pairwise.nil (by simp) (by intro a ha; simp at ha)
    (List.mem_range.1 hq) (Or.inl rfl)

/-- soundness: every returned location is a sorted k-subset of the vertices that is connected on
its own (the hypothesis `g.WF` is not used by the proof, see `subgraphsOfSize_sound'`) -/
theorem subgraphsOfSize_sound (g : G) (_hwf : g.WF) (k : Nat) (res : List (List Nat))
    (h : g.subgraphsOfSize k = some res) :
    ∀ S ∈ res, S.length = k ∧ S.Pairwise (· < ·) ∧ (∀ v ∈ S, v < g.n) ∧ ConnectedOn g S :=
  subgraphsOfSize_sound' g k res h

/-- completeness (no well-formedness needed): every connected k-subset (as a sorted list) is
returned -/
theorem subgraphsOfSize_complete' (g : G) (k : Nat) (res : List (List Nat))
    (h : g.subgraphsOfSize k = some res) :
    ∀ S : List Nat, S.length = k → S.Pairwise (· < ·) → (∀ v ∈ S, v < g.n) → ConnectedOn g S →
      S ∈ res := by
  obtain ⟨⟨hk, _⟩, rfl⟩ := subgraphsOfSize_eq h
  intro S hlen hSs hSn hSc
  match S, hlen with
  | [], hlen => simp at hlen; omega
  | q :: T, hlen =>
    have hq : q ∈ List.range g.n := List.mem_range.2 (hSn q List.mem_cons_self)
    obtain ⟨l1, l2, hl⟩ := List.append_of_mem hq
    rw [hl, List.foldl_append, List.foldl_cons]
    refine foldl_inv (fun acc => (q :: T) ∈ acc) _ _
      (fun b a _ hb => locSearch_mono g _ b _ a _ _ hb) _ ?_
    exact locSearch_complete g (q :: T) k hlen hSs hSn hSc (k - 1) (k + 1) _ [] q
      List.Pairwise.nil (by simp) List.mem_cons_self (by simp) (by simp; omega) (by omega)

/-- completeness: every connected k-subset (as a sorted list) is returned (the hypothesis `g.WF`
is not used by the proof, see `subgraphsOfSize_complete'`) -/
theorem subgraphsOfSize_complete (g : G) (_hwf : g.WF) (k : Nat) (res : List (List Nat))
    (h : g.subgraphsOfSize k = some res) :
    ∀ S : List Nat, S.length = k → S.Pairwise (· < ·) → (∀ v ∈ S, v < g.n) → ConnectedOn g S →
      S ∈ res :=
  subgraphsOfSize_complete' g k res h

/-- the result has no duplicates (it models a Python set) -/
theorem subgraphsOfSize_nodup (g : G) (k : Nat) (res : List (List Nat))
    (h : g.subgraphsOfSize k = some res) : res.Nodup := by
  obtain ⟨_, rfl⟩ := subgraphsOfSize_eq h
  exact foldl_inv (fun acc => acc.Nodup) _ _
    (fun b a _ hb => locSearch_nodup g _ b _ a _ hb) [] List.nodup_nil

/-- membership in the result, as one equivalence -/
theorem mem_subgraphsOfSize_iff (g : G) (k : Nat) (res : List (List Nat))
    (h : g.subgraphsOfSize k = some res) (S : List Nat) :
    S ∈ res ↔ S.length = k ∧ S.Pairwise (· < ·) ∧ (∀ v ∈ S, v < g.n) ∧ ConnectedOn g S :=
  ⟨subgraphsOfSize_sound' g k res h S,
   fun ⟨h1, h2, h3, h4⟩ => subgraphsOfSize_complete' g k res h S h1 h2 h3 h4⟩

/-! ### non-vacuity: the path 0-1-2 plus the isolated vertex 3 -/
def exG : G := ⟨4, [(0, 1), (1, 2)]⟩

theorem exG_wf : exG.WF := by unfold G.WF; decide
example : exG.subgraphsOfSize 2 = some [[0, 1], [1, 2]] := by decide
example : exG.subgraphsOfSize 3 = some [[0, 1, 2]] := by decide
example : exG.subgraphsOfSize 1 = some [[0], [1], [2], [3]] := by decide
example : exG.subgraphsOfSize 4 = some [] := by decide
-- `none_iff`: both error branches occur
example : exG.subgraphsOfSize 0 = none ∧ exG.subgraphsOfSize 5 = none := by decide
-- the hypotheses of `sound` / `nodup` hold for `k = 2`, `res = [[0,1],[1,2]]`
example : ∀ S ∈ [[0, 1], [1, 2]], S.length = 2 ∧ S.Pairwise (· < ·) ∧ (∀ v ∈ S, v < exG.n) ∧
    ConnectedOn exG S :=
  subgraphsOfSize_sound exG exG_wf 2 _ (by decide)
example : [[0, 1], [1, 2]].Nodup := subgraphsOfSize_nodup exG 2 _ (by decide)
-- the hypotheses of `complete` are satisfiable: `[1,2]` is a connected sorted 2-subset
theorem exG_conn12 : ConnectedOn exG [1, 2] := by
  have e12 : exG.hasEdge 1 2 = true := by decide
  have e21 : exG.hasEdge 2 1 = true := by decide
  intro a ha b hb
  simp only [List.mem_cons, List.not_mem_nil, or_false] at ha hb
  rcases ha with rfl | rfl <;> rcases hb with rfl | rfl
  · exact ReachIn.refl (by simp)
  · exact ReachIn.step (ReachIn.refl (by simp)) (by simp) e12
  · exact ReachIn.step (ReachIn.refl (by simp)) (by simp) e21
  · exact ReachIn.refl (by simp)
example : [1, 2] ∈ [[0, 1], [1, 2]] :=
  subgraphsOfSize_complete exG exG_wf 2 _ (by decide) [1, 2] rfl (by decide) (by decide)
    exG_conn12
-- and the specification really excludes something: `[0,2]` and `[2,3]` are not connected on their own
example : ¬ ConnectedOn exG [0, 2] := fun hc =>
  absurd ((mem_subgraphsOfSize_iff exG 2 [[0, 1], [1, 2]] (by decide) [0, 2]).2
    ⟨rfl, by decide, by decide, hc⟩) (by decide)
example : ¬ ConnectedOn exG [2, 3] := fun hc =>
  absurd ((mem_subgraphsOfSize_iff exG 2 [[0, 1], [1, 2]] (by decide) [2, 3]).2
    ⟨rfl, by decide, by decide, hc⟩) (by decide)

end BqVerif.Graph
