import BqVerif.Model.Pickle
/-!
Helper lemmas for C16 (`Props/C16.lean`): grouping of an iteration into runs, the sorted
iteration as concatenation of its key classes, `mkOp ∘ marshal`, `rebuild` of a payload made of
well-formed blocks, and what "same cycles up to the order inside a cycle" preserves.
Core Lean only.
-/
namespace BqVerif.Circ

def blocksFrom {α : Type} (i : Nat) : List (List α) → List (Nat × α)
  | [] => []
  | b :: bs => b.map (fun x => (i, x)) ++ blocksFrom (i + 1) bs

theorem appendLast_snoc {α : Type} (acc : List (List α)) (g : List α) (x : α) :
    appendLast (acc ++ [g]) x = acc ++ [g ++ [x]] := by
  induction acc with
  | nil => rfl
  | cons a acc ih =>
    cases acc with
    | nil => simp [appendLast]
    | cons b acc' =>
      simp only [List.cons_append] at ih ⊢
      simp [appendLast, ih]

theorem foldl_groupStep_same {α : Type} (k : Nat) (xs : List α) (acc : List (List α)) (g : List α) :
    (xs.map (fun x => (k, x))).foldl groupStep (some k, acc ++ [g]) = (some k, acc ++ [g ++ xs]) := by
  induction xs generalizing g with
  | nil => simp
  | cons x xs ih =>
    simp only [List.map_cons, List.foldl_cons]
    have : groupStep (some k, acc ++ [g]) (k, x) = (some k, acc ++ [g ++ [x]]) := by
      simp [groupStep, appendLast_snoc]
    rw [this, ih]; simp

theorem foldl_groupStep_blocks {α : Type} (bs : List (List α)) (hne : ∀ b ∈ bs, b ≠ [])
    (i : Nat) (last : Option Nat) (hl : ∀ j, last = some j → j < i) (acc : List (List α)) :
    ∃ last', (blocksFrom i bs).foldl groupStep (last, acc) = (last', acc ++ bs) ∧
      ∀ j, last' = some j → j < i + bs.length := by
  induction bs generalizing i last acc with
  | nil => exact ⟨last, by simp [blocksFrom], by simpa using hl⟩
  | cons b bs ih =>
    have hb : b ≠ [] := hne b (by simp)
    obtain ⟨x, xs, rfl⟩ := List.exists_cons_of_ne_nil hb
    simp only [blocksFrom, List.map_cons, List.cons_append, List.foldl_cons, List.foldl_append]
    have h1 : groupStep (last, acc) (i, x) = (some i, acc ++ [[x]]) := by
      have : (last == some i) = false := by
        cases last with
        | none => rfl
        | some j => have := hl j rfl; simp; omega
      simp [groupStep, this]
    rw [h1, foldl_groupStep_same]
    obtain ⟨l', h2, h3⟩ := ih (fun b hb => hne b (by simp [hb])) (i + 1) (some i)
      (by intro j hj; cases hj; omega) (acc ++ [[x] ++ xs])
    refine ⟨l', ?_, ?_⟩
    · rw [h2]; simp
    · intro j hj; have := h3 j hj; simp; omega

theorem groupRuns_blocks {α : Type} (bs : List (List α)) (hne : ∀ b ∈ bs, b ≠ []) :
    groupRuns (blocksFrom 0 bs) = bs := by
  obtain ⟨l', h, _⟩ := foldl_groupStep_blocks bs hne 0 none (by simp) []
  simp [groupRuns, h]



theorem blocksFrom_map {α β : Type} (f : α → β) (i : Nat) (bs : List (List α)) :
    (blocksFrom i bs).map (fun x => (x.1, f x.2)) = blocksFrom i (bs.map (List.map f)) := by
  induction bs generalizing i with
  | nil => rfl
  | cons b bs ih => simp [blocksFrom, ih, Function.comp_def]

theorem zipIdx_flatMap_blocks {α β : Type} (f : List α → List β) (l : List (List α)) (i : Nat) :
    (l.zipIdx i).flatMap (fun (p : List α × Nat) => (f p.1).map (fun o => (p.2, o)))
      = blocksFrom i (l.map f) := by
  induction l generalizing i with
  | nil => rfl
  | cons a l ih => simp [List.zipIdx_cons, blocksFrom, ih]

theorem iterCyc_blocks (c : Circ) : c.iterCyc = blocksFrom 0 (c.cycles.map (sortBy Op.head)) := by
  unfold Circ.iterCyc
  exact zipIdx_flatMap_blocks (sortBy Op.head) c.cycles 0

/-! sortBy is a permutation -/
theorem insertBy_perm (key : Op → Nat) (x : Op) (l : List Op) : (insertBy key x l).Perm (x :: l) := by
  induction l with
  | nil => exact List.Perm.refl _
  | cons y ys ih =>
    simp only [insertBy]
    split
    · exact List.Perm.refl _
    · exact ((List.Perm.cons y ih).trans (List.Perm.swap x y ys))

theorem sortBy_perm (key : Op → Nat) (l : List Op) : (sortBy key l).Perm l := by
  induction l with
  | nil => exact List.Perm.refl _
  | cons x xs ih =>
    simp only [sortBy, List.foldr_cons]
    exact (insertBy_perm key x _).trans (List.Perm.cons x ih)

theorem sortBy_ne_nil (key : Op → Nat) (l : List Op) (h : l ≠ []) : sortBy key l ≠ [] := by
  intro h0
  have := (sortBy_perm key l).length_eq
  rw [h0] at this
  cases l with
  | nil => exact h rfl
  | cons a b => simp at this

theorem nodupL_iff (l : List Nat) : nodupL l = true ↔ l.Nodup := by
  induction l with
  | nil => simp [nodupL]
  | cons x xs ih => simp [nodupL, ih, List.nodup_cons]

theorem indep_symm {a b : Op} (h : Indep a b) : Indep b a := by
  intro q hq hq'; exact h q hq' hq



theorem getElem?_idxOf_of_mem (l : List GateId) (g : GateId) (h : g ∈ l) : l[l.idxOf g]? = some g := by
  induction l with
  | nil => cases h
  | cons a l ih =>
    by_cases hag : a = g
    · subst hag; simp
    · have hm : g ∈ l := by
        rcases List.mem_cons.1 h with h | h
        · exact absurd h.symm hag
        · exact h
      have hb : (a == g) = false := by simpa using hag
      simp [List.idxOf_cons, hb, ih hm]

theorem mkOp_marshal (tbl : List GateId) (o : Op) (n : Nat) (rad : List Nat)
    (hw : o.WF n rad) (hg : o.gate ∈ tbl) : mkOp tbl (marshal tbl o) = .ok o := by
  obtain ⟨_, hnd, _, hrad⟩ := hw
  have hlen : o.loc.length = o.rad.length := by rw [hrad]; simp
  unfold mkOp marshal
  simp only [getElem?_idxOf_of_mem tbl o.gate hg]
  have h1 : nodupL o.loc = true := (nodupL_iff _).2 hnd
  simp only [h1, Op.gate]
  by_cases hp : o.par = []
  · simp [hp, hlen]
    cases o; simp_all
  · have : o.par.isEmpty = false := by simpa using hp
    simp [this, hlen]

theorem modify_length_append (cs : List Cycle) (pre : Cycle) (f : Cycle → Cycle) :
    (cs ++ [pre]).modify cs.length f = cs ++ [f pre] := by
  induction cs with
  | nil => simp [List.modify]
  | cons a cs ih => simp [ih]

theorem getD_length_append (cs : List Cycle) (pre : Cycle) : (cs ++ [pre]).getD cs.length [] = pre := by
  simp [List.getD]

theorem appendAtCycle_ok (rad : List Nat) (cs : List Cycle) (pre : Cycle) (o : Op)
    (hq : ∀ q ∈ o.loc, q < rad.length) (hd : ∀ p ∈ pre, Indep p o) :
    Circ.appendAtCycle ⟨rad, cs ++ [pre]⟩ cs.length o = .ok ⟨rad, cs ++ [pre ++ [o]]⟩ := by
  unfold Circ.appendAtCycle
  have h1 : (cs.length < (⟨rad, cs ++ [pre]⟩ : Circ).numCycles) := by simp [Circ.numCycles]
  have h2 : o.loc.all (fun q => decide (q < (⟨rad, cs ++ [pre]⟩ : Circ).numQudits)) = true := by
    rw [List.all_eq_true]; intro x hx; exact decide_eq_true (hq x hx)
  have h3 : (⟨rad, cs ++ [pre]⟩ : Circ).unoccupied cs.length o.loc = true := by
    unfold Circ.unoccupied
    simp only [getD_length_append]
    rw [List.all_eq_true]
    intro q hq'
    simp only [occ, Bool.not_eq_true', List.any_eq_false]
    intro p hp
    simp only [Op.on, List.contains_eq_mem, decide_eq_true_eq]
    intro hqp
    exact hd p hp q hqp hq'
  simp [h1, h2, h3, modify_length_append]

theorem appendGroup_ok (tbl : List GateId) (rad : List Nat) (cs : List Cycle) (ops : List Op)
    (pre : Cycle) (hw : ∀ o ∈ ops, o.WF rad.length rad) (hg : ∀ o ∈ ops, o.gate ∈ tbl)
    (hp : (pre ++ ops).Pairwise Indep) :
    Circ.appendGroup tbl cs.length ⟨rad, cs ++ [pre]⟩ (ops.map (marshal tbl))
      = .ok ⟨rad, cs ++ [pre ++ ops]⟩ := by
  induction ops generalizing pre with
  | nil => simp [Circ.appendGroup]
  | cons o ops ih =>
    have hwo := hw o (by simp)
    simp only [List.map_cons, Circ.appendGroup, mkOp_marshal tbl o _ _ hwo (hg o (by simp))]
    have hd : ∀ p ∈ pre, Indep p o := by
      intro p hp'
      have := List.pairwise_append.1 hp
      exact this.2.2 p hp' o (by simp)
    rw [appendAtCycle_ok rad cs pre o hwo.2.2.1 hd]
    simp only
    have := ih (pre ++ [o]) (fun x hx => hw x (by simp [hx])) (fun x hx => hg x (by simp [hx]))
      (by simpa using hp)
    simpa using this

theorem rebuildCycles_ok (tbl : List GateId) (rad : List Nat) (gs : List (List Op)) (cs : List Cycle)
    (hw : ∀ g ∈ gs, ∀ o ∈ g, o.WF rad.length rad) (hg : ∀ g ∈ gs, ∀ o ∈ g, o.gate ∈ tbl)
    (hp : ∀ g ∈ gs, g.Pairwise Indep) :
    Circ.rebuildCycles tbl ⟨rad, cs⟩ cs.length (gs.map (List.map (marshal tbl)))
      = .ok ⟨rad, cs ++ gs⟩ := by
  induction gs generalizing cs with
  | nil => simp [Circ.rebuildCycles]
  | cons g gs ih =>
    simp only [List.map_cons, Circ.rebuildCycles]
    have := appendGroup_ok tbl rad cs g [] (hw g (by simp)) (hg g (by simp)) (by simpa using hp g (by simp))
    simp only [List.nil_append] at this
    rw [this]
    simp only
    have := ih (cs ++ [g]) (fun x hx => hw x (by simp [hx])) (fun x hx => hg x (by simp [hx]))
      (fun x hx => hp x (by simp [hx]))
    simpa using this



/-! ## a sorted iteration is the concatenation of its key classes -/
def keyBlocks {α : Type} (it : List (Nat × α)) (i n : Nat) : List (List α) :=
  (List.range' i n).map (fun k => (it.filter (fun x => x.1 == k)).map (·.2))

theorem sorted_split {α : Type} (it : List (Nat × α)) (i : Nat)
    (hs : (it.map (·.1)).Pairwise (· ≤ ·)) (hlo : ∀ x ∈ it, i ≤ x.1) :
    it = it.filter (fun x => x.1 == i) ++ it.filter (fun x => !(x.1 == i)) := by
  induction it with
  | nil => rfl
  | cons x rest ih =>
    simp only [List.map_cons, List.pairwise_cons] at hs
    have hrest := ih hs.2 (fun y hy => hlo y (by simp [hy]))
    by_cases hx : x.1 = i
    · have h1 : (x.1 == i) = true := by simpa using hx
      simp only [List.filter_cons, h1]
      simp only [Bool.not_true, Bool.false_eq_true, if_false, if_true, List.cons_append]
      exact congrArg _ hrest
    · have h1 : (x.1 == i) = false := by simpa using hx
      have hxi : i < x.1 := by have := hlo x (by simp); omega
      have hnil : (rest.filter (fun y => y.1 == i)) = [] := by
        rw [List.filter_eq_nil_iff]
        intro y hy
        have := hs.1 y.1 (by simp; exact ⟨y.2, hy⟩)
        simp; omega
      have hall : (rest.filter (fun y => !(y.1 == i))) = rest := by
        rw [List.filter_eq_self]
        intro y hy
        have := hs.1 y.1 (by simp; exact ⟨y.2, hy⟩)
        simp; omega
      simp [h1, hnil, hall]

theorem filter_key_map {α : Type} (it : List (Nat × α)) (i : Nat) :
    ((it.filter (fun x => x.1 == i)).map (·.2)).map (fun x => (i, x)) = it.filter (fun x => x.1 == i) := by
  induction it with
  | nil => rfl
  | cons x rest ih =>
    by_cases hx : x.1 = i
    · have h1 : (x.1 == i) = true := by simpa using hx
      simp only [List.filter_cons, h1, if_true, List.map_cons, ih]
      congr 1
      cases x; simp_all
    · have h1 : (x.1 == i) = false := by simpa using hx
      simp [h1, ih]

theorem sorted_eq_blocks {α : Type} (n : Nat) (it : List (Nat × α)) (i : Nat)
    (hs : (it.map (·.1)).Pairwise (· ≤ ·)) (hlo : ∀ x ∈ it, i ≤ x.1) (hhi : ∀ x ∈ it, x.1 < i + n) :
    it = blocksFrom i (keyBlocks it i n) := by
  induction n generalizing it i with
  | zero =>
    cases it with
    | nil => rfl
    | cons x rest =>
      have h1 := hlo x (by simp); have h2 := hhi x (by simp); omega
  | succ n ih =>
    have hsplit := sorted_split it i hs hlo
    let it' := it.filter (fun x => !(x.1 == i))
    have hs' : (it'.map (·.1)).Pairwise (· ≤ ·) := by
      have : (it'.map (·.1)).Sublist (it.map (·.1)) := (List.filter_sublist).map _
      exact hs.sublist this
    have hlo' : ∀ x ∈ it', i + 1 ≤ x.1 := by
      intro x hx
      have hx' := List.mem_filter.1 hx
      have := hlo x hx'.1
      have h2 : x.1 ≠ i := by simpa using hx'.2
      omega
    have hhi' : ∀ x ∈ it', x.1 < i + 1 + n := by
      intro x hx
      have := hhi x (List.mem_filter.1 hx).1
      omega
    have hih := ih it' (i + 1) hs' hlo' hhi'
    have hkb : keyBlocks it' (i + 1) n = keyBlocks it (i + 1) n := by
      unfold keyBlocks
      apply List.map_congr_left
      intro k hk
      have hk' : i + 1 ≤ k := (List.mem_range'_1.1 hk).1
      congr 1
      show List.filter _ (List.filter _ it) = _
      rw [List.filter_filter]
      apply List.filter_congr
      intro x _
      by_cases hxk : x.1 = k
      · have : x.1 ≠ i := by omega
        simp [hxk]; omega
      · simp [hxk]
    have hkb0 : keyBlocks it i (n + 1)
        = ((it.filter (fun x => x.1 == i)).map (·.2)) :: keyBlocks it (i + 1) n := by
      simp [keyBlocks, List.range'_succ]
    rw [hkb0, blocksFrom, filter_key_map, ← hkb, ← hih]
    exact hsplit

theorem sortedNat_pairwise (l : List Nat) (h : sortedNat l = true) : l.Pairwise (· ≤ ·) := by
  induction l with
  | nil => exact List.Pairwise.nil
  | cons a t ih =>
    cases t with
    | nil => simp
    | cons b t' =>
      simp only [sortedNat, Bool.and_eq_true, decide_eq_true_eq] at h
      have hp := ih h.2
      rw [List.pairwise_cons]
      refine ⟨?_, hp⟩
      intro x hx
      rcases List.mem_cons.1 hx with rfl | hx
      · exact h.1
      · have := (List.pairwise_cons.1 hp).1 x hx
        omega

theorem permOpsL_perm (l1 l2 : List Op) (h : Circ.iterOkB.permOpsL l1 l2 = true) : l1.Perm l2 := by
  induction l1 generalizing l2 with
  | nil =>
    simp only [Circ.iterOkB.permOpsL, List.isEmpty_iff] at h
    subst h; exact List.Perm.refl _
  | cons x xs ih =>
    simp only [Circ.iterOkB.permOpsL, Bool.and_eq_true, List.contains_eq_mem, decide_eq_true_eq] at h
    have h1 := ih _ h.2
    exact (List.Perm.cons x h1).trans (List.perm_cons_erase h.1).symm



theorem pairwise_indep_perm {l1 l2 : List Op} (hp : l1.Perm l2) :
    l1.Pairwise Indep ↔ l2.Pairwise Indep :=
  hp.pairwise_iff (fun h => indep_symm h)

/-- at most one operation of a cycle sits on a given qudit -/
theorem filter_on_le_one (cy : List Op) (q : Nat) (hp : cy.Pairwise Indep) :
    cy.filter (·.on q) = [] ∨ ∃ a, cy.filter (·.on q) = [a] := by
  have hsub : (cy.filter (·.on q)).Pairwise Indep := hp.sublist List.filter_sublist
  have hall : ∀ x ∈ cy.filter (·.on q), x.on q = true := fun x hx => (List.mem_filter.1 hx).2
  generalize cy.filter (·.on q) = f at hsub hall
  match f, hsub, hall with
  | [], _, _ => exact Or.inl rfl
  | [a], _, _ => exact Or.inr ⟨a, rfl⟩
  | a :: b :: t, hsub, hall =>
    exfalso
    have ha := hall a (by simp)
    have hb := hall b (by simp)
    have hab := (List.pairwise_cons.1 hsub).1 b (by simp)
    simp only [Op.on, List.contains_eq_mem, decide_eq_true_eq] at ha hb
    exact hab q ha hb

theorem filter_on_perm (b cy : List Op) (q : Nat) (hperm : b.Perm cy) (hp : cy.Pairwise Indep) :
    b.filter (·.on q) = cy.filter (·.on q) := by
  have hf : (b.filter (·.on q)).Perm (cy.filter (·.on q)) := hperm.filter _
  rcases filter_on_le_one cy q hp with h | ⟨a, h⟩
  · rw [h] at hf ⊢; exact hf.eq_nil
  · rw [h] at hf ⊢; exact List.perm_singleton.1 hf

theorem find_on_perm (b cy : List Op) (q : Nat) (hperm : b.Perm cy) (hp : cy.Pairwise Indep) :
    b.find? (·.on q) = cy.find? (·.on q) := by
  rw [← List.head?_filter, ← List.head?_filter, filter_on_perm b cy q hperm hp]

/-- cycle lists that agree cycle by cycle up to the order inside a cycle -/
inductive PermCycles : List Cycle → List Cycle → Prop
  | nil : PermCycles [] []
  | cons {a b : Cycle} {l1 l2 : List Cycle} : a.Perm b → PermCycles l1 l2 → PermCycles (a :: l1) (b :: l2)

/-- same radixes, same cycles as multisets, in the same order -/
def SameLayout (c' c : Circ) : Prop :=
  c'.radixes = c.radixes ∧ PermCycles c'.cycles c.cycles

theorem forall₂_perm_getD {l1 l2 : List Cycle} (h : PermCycles l1 l2) (k : Nat) :
    (l1.getD k []).Perm (l2.getD k []) := by
  induction h generalizing k with
  | nil => simp
  | cons hab _ ih =>
    cases k with
    | zero => simpa using hab
    | succ k => simpa using ih k

theorem forall₂_perm_length {l1 l2 : List Cycle} (h : PermCycles l1 l2) :
    l1.length = l2.length := by
  induction h with
  | nil => rfl
  | cons _ _ ih => simp [ih]

theorem forall₂_perm_mem {l1 l2 : List Cycle} (h : PermCycles l1 l2) :
    ∀ b ∈ l1, ∃ cy ∈ l2, b.Perm cy := by
  induction h with
  | nil => simp
  | cons hab _ ih =>
    intro b hb
    rcases List.mem_cons.1 hb with rfl | hb
    · exact ⟨_, by simp, hab⟩
    · obtain ⟨cy, hcy, hp⟩ := ih b hb
      exact ⟨cy, by simp [hcy], hp⟩

theorem sameLayout_inv {c' c : Circ} (h : SameLayout c' c) (hi : c.Inv) : c'.Inv := by
  obtain ⟨hr, hc⟩ := h
  obtain ⟨h1, h2, h3⟩ := hi
  refine ⟨?_, ?_, ?_⟩
  · intro b hb
    obtain ⟨cy, hcy, hp⟩ := forall₂_perm_mem hc b hb
    intro h0; subst h0
    exact h1 cy hcy hp.symm.eq_nil
  · intro b hb
    obtain ⟨cy, hcy, hp⟩ := forall₂_perm_mem hc b hb
    exact (pairwise_indep_perm hp).2 (h2 cy hcy)
  · intro b hb o ho
    obtain ⟨cy, hcy, hp⟩ := forall₂_perm_mem hc b hb
    have := h3 cy hcy o (hp.mem_iff.1 ho)
    simpa [Circ.numQudits, hr] using this

theorem sameLayout_cell {c' c : Circ} (h : SameLayout c' c) (hi : c.Inv) (k q : Nat) :
    c'.cell k q = c.cell k q := by
  unfold Circ.cell
  have hp := forall₂_perm_getD h.2 k
  apply find_on_perm _ _ q hp
  by_cases hk : k < c.cycles.length
  · have : c.cycles.getD k [] ∈ c.cycles := by
      simp [List.getD, List.getElem?_eq_getElem hk]
    exact hi.2.1 _ this
  · have : c.cycles.getD k [] = [] := by
      simp [List.getD, List.getElem?_eq_none (Nat.le_of_not_lt hk)]
    rw [this]; exact List.Pairwise.nil

theorem sameLayout_timeline {c' c : Circ} (h : SameLayout c' c) (hi : c.Inv) (q : Nat) :
    c'.timeline q = c.timeline q := by
  unfold Circ.timeline proj Circ.ops
  have h2 := hi.2.1
  have hc := h.2
  generalize c'.cycles = l1 at hc
  generalize c.cycles = l2 at hc h2
  induction hc with
  | nil => rfl
  | cons hab _ ih =>
    simp only [List.flatten_cons, List.filter_append]
    rw [filter_on_perm _ _ q hab (h2 _ (by simp)), ih (fun cy hcy => h2 cy (by simp [hcy]))]



end BqVerif.Circ
