import BqVerif.Model.CircBlocks
import BqVerif.Proofs.Region
/-
Bridge between the region algebra (`Model/Region.lean`) and the regions the fold / straighten
validators of C04 quantify over (`BqVerif.Circ.Region`, `Region.covers`).
-/
namespace BqVerif.Region

/-- the same region in the representation of `Model/CircBlocks.lean` -/
def toCirc (r : Region) : BqVerif.Circ.Region := r.map (fun p => (p.1, (p.2.lo, p.2.hi)))

theorem covers_eq_hasPt (r : Region) (hw : Region.wf r = true) (k q : Nat) :
    BqVerif.Circ.Region.covers (toCirc r) k q = Region.hasPt r k q := by
  have hn := Region.nodup_of_wf r hw
  rw [Bool.eq_iff_iff, Region.hasPt_iff]
  simp only [BqVerif.Circ.Region.covers, toCirc, List.any_map, List.any_eq_true, Function.comp_def,
    Bool.and_eq_true, beq_iff_eq, decide_eq_true_eq]
  constructor
  · rintro ⟨p, hp, ⟨rfl, h1⟩, h2⟩
    exact ⟨p.2, Region.get_of_mem r p.1 p.2 hn hp, by rw [Iv.mem_iff]; exact ⟨h1, h2⟩⟩
  · rintro ⟨a, ha, hm⟩
    have := (Iv.mem_iff _ _).1 hm
    exact ⟨(q, a), Region.get_some_mem r q a ha, ⟨rfl, this.1⟩, this.2⟩

end BqVerif.Region
