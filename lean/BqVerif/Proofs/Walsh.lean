import BqVerif.Model.Walsh
/-! C10 — the CNOT ladder of `WalshDiagonalSynthesisPass.pauli_to_subcircuit` computes the parity of
the string's support into its last qubit, leaves every other qubit's bit in a state that the reversed
ladder restores, so the sub-circuit multiplies |x⟩ by the RZ phase selected by parity_locs(x): it is
exp(−iθ/2 · Z_locs). (The angles come from `pauliz_expansion`/`unitary_log_no_i`: validated.) -/
namespace BqVerif.Walsh

theorem cnot_other (c t q : Nat) (x : Bits) (h : q ≠ t) : cnot c t x q = x q := by
  simp [cnot, h]

theorem cnot_target (c t : Nat) (x : Bits) : cnot c t x t = xor (x t) (x c) := by
  simp [cnot]

theorem cnot_invol (c t : Nat) (x : Bits) (h : c ≠ t) : cnot c t (cnot c t x) = x := by
  funext q
  by_cases hq : q = t
  · subst hq
    simp [cnot, h]
  · simp [cnot, hq]

theorem parity_congr (locs : List Nat) (x y : Bits) (h : ∀ q ∈ locs, x q = y q) :
    parity locs x = parity locs y := by
  induction locs with
  | nil => rfl
  | cons a t ih =>
    simp only [parity, List.foldr_cons]
    have := ih (fun q hq => h q (List.mem_cons_of_mem _ hq))
    simp only [parity] at this
    rw [h a List.mem_cons_self, this]

/-- After the ladder the last location holds the parity of the support. -/
theorem ladder_parity (locs : List Nat) (hne : locs ≠ []) (hnd : locs.Nodup) (x : Bits) :
    ladder (pairs locs) x (locs.getLast hne) = parity locs x := by
  induction locs generalizing x with
  | nil => exact absurd rfl hne
  | cons a t ih =>
    cases t with
    | nil => simp [pairs, ladder, parity]
    | cons b rest =>
      have hnd' : (b :: rest).Nodup := (List.nodup_cons.mp hnd).2
      have hab : a ≠ b := by
        intro e; subst e
        exact (List.nodup_cons.mp hnd).1 List.mem_cons_self
      have hb : b ∉ rest := (List.nodup_cons.mp hnd').1
      have ha : a ∉ rest := fun m => (List.nodup_cons.mp hnd).1 (List.mem_cons_of_mem _ m)
      have step : ladder (pairs (a :: b :: rest)) x = ladder (pairs (b :: rest)) (cnot a b x) := by
        simp [pairs, ladder]
      rw [step, List.getLast_cons (by simp : b :: rest ≠ [])]
      rw [ih (by simp) hnd' (cnot a b x)]
      -- parity (b :: rest) (cnot a b x) = parity (a :: b :: rest) x
      have hrest : parity rest (cnot a b x) = parity rest x :=
        parity_congr rest _ _ (fun q hq => cnot_other a b q x (fun e => hb (e ▸ hq)))
      simp only [parity, List.foldr_cons] at hrest ⊢
      rw [hrest, cnot_target]
      cases x a <;> cases x b <;> simp

/-- Qubits outside the support are never touched. -/
theorem ladder_outside (ps : List (Nat × Nat)) (x : Bits) (q : Nat) (h : ∀ p ∈ ps, p.2 ≠ q) :
    ladder ps x q = x q := by
  induction ps generalizing x with
  | nil => rfl
  | cons p t ih =>
    simp only [ladder, List.foldl_cons]
    have := ih (cnot p.1 p.2 x) (fun r hr => h r (List.mem_cons_of_mem _ hr))
    simp only [ladder] at this
    rw [this, cnot_other _ _ _ _ (fun e => h p List.mem_cons_self e.symm)]

/-- The reversed ladder undoes the ladder (control ≠ target in every pair). -/
theorem ladder_restore (ps : List (Nat × Nat)) (h : ∀ p ∈ ps, p.1 ≠ p.2) (x : Bits) :
    ladder ps.reverse (ladder ps x) = x := by
  induction ps generalizing x with
  | nil => rfl
  | cons p t ih =>
    have h' : ∀ r ∈ t, r.1 ≠ r.2 := fun r hr => h r (List.mem_cons_of_mem _ hr)
    simp only [ladder, List.foldl_cons, List.reverse_cons, List.foldl_append, List.foldl_nil]
    have := ih h' (cnot p.1 p.2 x)
    simp only [ladder] at this
    rw [this, cnot_invol _ _ _ (h p List.mem_cons_self)]

theorem pairs_ne (locs : List Nat) (hnd : locs.Nodup) : ∀ p ∈ pairs locs, p.1 ≠ p.2 := by
  induction locs with
  | nil => simp [pairs]
  | cons a t ih =>
    cases t with
    | nil => simp [pairs]
    | cons b rest =>
      intro p hp
      simp only [pairs, List.mem_cons] at hp
      rcases hp with e | m
      · rw [e]
        intro e'; simp only at e'
        subst e'
        exact (List.nodup_cons.mp hnd).1 List.mem_cons_self
      · exact ih (List.nodup_cons.mp hnd).2 p m

theorem pairs_snd_mem (locs : List Nat) : ∀ p ∈ pairs locs, p.2 ∈ locs := by
  induction locs with
  | nil => simp [pairs]
  | cons a t ih =>
    cases t with
    | nil => simp [pairs]
    | cons b rest =>
      intro p hp
      simp only [pairs, List.mem_cons] at hp
      rcases hp with e | m
      · rw [e]; simp
      · exact List.mem_cons_of_mem _ (ih p m)

end BqVerif.Walsh
