import BqVerif.Proofs.Rules
/-! C10 — the parameterised single-qubit decompositions. The target is a general element of SU(2),
`su2Mat A B c s = [[Ā c, −B̄ s], [B s, A c]]` with A = e^{ia}, B = e^{ib} (a = arg u₁₁, b = arg u₁₀),
c = |u₀₀|, s = |u₁₀|, written through the half-sum / half-difference points
P = e^{i(a+b)/2} = pc + i·ps, M = e^{i(a−b)/2} = mc + i·ms, so that A = P·M, B = P·M̄ (every pair of
unit complex numbers A, B is of this form: take P² = AB and M = A·P̄). The hypotheses `v*` say which
half-angle point each free parameter of the generated rule carries — these are the formulas of the
code (`U3Gate.calc_params`; `ZXZXZDecomposition.run`: l = a − b, t = θ + π, p = a + b + π), which
the harness checks against the parameters the real pass emits. The conclusion is equality up to the
explicit unit phase `ph` (`ph * phc = 1`, phc the complex conjugate). The linear-combination
certificates were computed with sympy (division by the Gröbner basis of the defining equations).
The U1 variants are the RZ variants times F = e^{i(l+t+p)/2} (`U1(θ) = e^{iθ/2}·RZ(θ)`), and so are
their certificates. -/
namespace BqVerif.Rules
set_option linter.unusedSimpArgs false
set_option linter.unusedVariables false
open Generated
variable {R : Type} [CommRing R] (K : Consts R)

/-- Target of the parameterised rules. -/
def su2Target (pc ps mc ms c s : R) : Mat R :=
  su2Mat K (pc * mc - ps * ms) (pc * ms + ps * mc) (pc * mc + ps * ms) (ps * mc - pc * ms) c s


set_option maxHeartbeats 4000000 in
set_option maxRecDepth 20000 in
/-- The generated replacement circuit of `U3Decomposition` evaluated symbolically. -/
theorem eval_U3Decomposition (pc ps mc ms c s : R)
    (v0c : K.vc 0 = c) (v0s : K.vs 0 = s) (v1c : K.vc 1 = pc) (v1s : K.vs 1 = ps) (v2c : K.vc 2 = mc) (v2s : K.vs 2 = ms) :
    evalRule K rule_U3Decomposition = some
      [[c,
        -K.i^2*ms^2*s - 2*K.i*mc*ms*s - mc^2*s],
       [K.i^2*ps^2*s + 2*K.i*pc*ps*s + pc^2*s,
        K.i^4*c*ms^2*ps^2 + 2*K.i^3*c*mc*ms*ps^2 + 2*K.i^3*c*ms^2*pc*ps + K.i^2*c*mc^2*ps^2 + 4*K.i^2*c*mc*ms*pc*ps + K.i^2*c*ms^2*pc^2 + 2*K.i*c*mc^2*pc*ps + 2*K.i*c*mc*ms*pc^2 + c*mc^2*pc^2]] := by
  simp (config := {decide := true}) [evalRule, rule_U3Decomposition, evalOps, opMat, gateMat, gateMatCS,
      angCS, halfCS, locOk, embed1_0, mmul2, ident2, v0c, v0s, v1c, v1s, v2c, v2s]
  <;> (try (repeat' constructor)) <;> ring1

set_option maxHeartbeats 4000000 in
set_option maxRecDepth 20000 in
theorem rule_U3Decomposition (hK : Valid K) (pc ps mc ms c s : R)
    (hp : pc * pc + ps * ps = 1) (hm : mc * mc + ms * ms = 1) (hc : c * c + s * s = 1)
    (v0c : K.vc 0 = c) (v0s : K.vs 0 = s) (v1c : K.vc 1 = pc) (v1s : K.vs 1 = ps) (v2c : K.vc 2 = mc) (v2s : K.vs 2 = ms) :
    ∃ ph phc : R, ph * phc = 1 ∧
      evalRule K rule_U3Decomposition = some (smul ph (su2Target K pc ps mc ms c s)) := by
  refine ⟨K.i*mc*ps + K.i*ms*pc + mc*pc - ms*ps, -K.i*mc*ps - K.i*ms*pc + mc*pc - ms*ps, ?_, ?_⟩
  · linear_combination (-mc^2*ps^2 - 2*mc*ms*pc*ps - ms^2*pc^2) * hK.ii + (mc^2 + ms^2) * hp + (1) * hm
  · rw [eval_U3Decomposition K pc ps mc ms c s v0c v0s v1c v1s v2c v2s]
    simp only [smul, su2Target, su2Mat, List.map_cons, List.map_nil, Option.some.injEq,
      List.cons.injEq, and_true]
    refine ⟨⟨?_, ?_⟩, ?_, ?_⟩
    · linear_combination (c*mc^2*ps^2 + 2*c*mc*ms*pc*ps + c*ms^2*pc^2) * hK.ii + (-c*mc^2 - c*ms^2) * hp + (-c) * hm
    · linear_combination (-mc^2*ps^2*s + ms^2*pc^2*s - ms^2*s) * hK.ii + (2*K.i*mc*ms*s + mc^2*s - ms^2*s) * hp
    · linear_combination (-mc^2*ps^2*s + ms^2*pc^2*s + ps^2*s) * hK.ii + (-mc^2*s - ms^2*s + s) * hp + (-2*K.i*pc*ps*s + 2*ps^2*s - s) * hm
    · linear_combination (K.i^2*c*ms^2*ps^2 + 2*K.i*c*mc*ms*ps^2 + 2*K.i*c*ms^2*pc*ps + 2*c*mc*ms*pc*ps - c*ms^2*ps^2) * hK.ii

set_option maxHeartbeats 4000000 in
set_option maxRecDepth 20000 in
/-- The generated replacement circuit of `ZXZXZ_rx_rz` evaluated symbolically. -/
theorem eval_ZXZXZ_rx_rz (pc ps mc ms c s : R)
    (v0c : K.vc 0 = mc) (v0s : K.vs 0 = ms) (v1c : K.vc 1 = -s) (v1s : K.vs 1 = c) (v2c : K.vc 2 = -ps) (v2s : K.vs 2 = pc) :
    evalRule K rule_ZXZXZ_rx_rz = some
      [[K.h^2*K.i^5*c*ms*pc - K.h^2*K.i^4*c*mc*pc + K.h^2*K.i^4*c*ms*ps - K.h^2*K.i^4*ms*pc*s - K.h^2*K.i^3*c*mc*ps - K.h^2*K.i^3*c*ms*pc + K.h^2*K.i^3*mc*pc*s - K.h^2*K.i^3*ms*ps*s + K.h^2*K.i^2*c*mc*pc - K.h^2*K.i^2*c*ms*ps + K.h^2*K.i^2*mc*ps*s - K.h^2*K.i^2*ms*pc*s + K.h^2*K.i*c*mc*ps + K.h^2*K.i*mc*pc*s - K.h^2*K.i*ms*ps*s + K.h^2*mc*ps*s,
        -2*K.h^2*K.i^3*ms*pc*s - 2*K.h^2*K.i^2*mc*pc*s - 2*K.h^2*K.i^2*ms*ps*s - 2*K.h^2*K.i*mc*ps*s],
       [-2*K.h^2*K.i^3*ms*pc*s + 2*K.h^2*K.i^2*mc*pc*s + 2*K.h^2*K.i^2*ms*ps*s - 2*K.h^2*K.i*mc*ps*s,
        -K.h^2*K.i^5*c*ms*pc - K.h^2*K.i^4*c*mc*pc + K.h^2*K.i^4*c*ms*ps - K.h^2*K.i^4*ms*pc*s + K.h^2*K.i^3*c*mc*ps + K.h^2*K.i^3*c*ms*pc - K.h^2*K.i^3*mc*pc*s + K.h^2*K.i^3*ms*ps*s + K.h^2*K.i^2*c*mc*pc - K.h^2*K.i^2*c*ms*ps + K.h^2*K.i^2*mc*ps*s - K.h^2*K.i^2*ms*pc*s - K.h^2*K.i*c*mc*ps - K.h^2*K.i*mc*pc*s + K.h^2*K.i*ms*ps*s + K.h^2*mc*ps*s]] := by
  simp (config := {decide := true}) [evalRule, rule_ZXZXZ_rx_rz, evalOps, opMat, gateMat, gateMatCS,
      angCS, halfCS, locOk, embed1_0, mmul2, ident2, v0c, v0s, v1c, v1s, v2c, v2s]
  <;> (try (repeat' constructor)) <;> ring1

set_option maxHeartbeats 4000000 in
set_option maxRecDepth 20000 in
theorem rule_ZXZXZ_rx_rz (hK : Valid K) (pc ps mc ms c s : R)
    (hp : pc * pc + ps * ps = 1) (hm : mc * mc + ms * ms = 1) (hc : c * c + s * s = 1)
    (v0c : K.vc 0 = mc) (v0s : K.vs 0 = ms) (v1c : K.vc 1 = -s) (v1s : K.vs 1 = c) (v2c : K.vc 2 = -ps) (v2s : K.vs 2 = pc) :
    ∃ ph phc : R, ph * phc = 1 ∧
      evalRule K rule_ZXZXZ_rx_rz = some (smul ph (su2Target K pc ps mc ms c s)) := by
  refine ⟨-1, -1, ?_, ?_⟩
  · linear_combination (0 : R) * hc
  · rw [eval_ZXZXZ_rx_rz K pc ps mc ms c s v0c v0s v1c v1s v2c v2s]
    simp only [smul, su2Target, su2Mat, List.map_cons, List.map_nil, Option.some.injEq,
      List.cons.injEq, and_true]
    refine ⟨⟨?_, ?_⟩, ?_, ?_⟩
    · linear_combination (K.h^2*K.i^3*c*ms*pc - K.h^2*K.i^2*c*mc*pc + K.h^2*K.i^2*c*ms*ps - K.h^2*K.i^2*ms*pc*s - K.h^2*K.i*c*mc*ps - 2*K.h^2*K.i*c*ms*pc + K.h^2*K.i*mc*pc*s - K.h^2*K.i*ms*ps*s + 2*K.h^2*c*mc*pc - 2*K.h^2*c*ms*ps + K.h^2*mc*ps*s) * hK.ii + (K.i*c*mc*ps + K.i*c*ms*pc - c*mc*pc + c*ms*ps) * hK.hh
    · linear_combination (-2*K.h^2*K.i*ms*pc*s - 2*K.h^2*mc*pc*s - 2*K.h^2*ms*ps*s) * hK.ii + (-K.i*mc*ps*s + K.i*ms*pc*s + mc*pc*s + ms*ps*s) * hK.hh
    · linear_combination (-2*K.h^2*K.i*ms*pc*s + 2*K.h^2*mc*pc*s + 2*K.h^2*ms*ps*s) * hK.ii + (-K.i*mc*ps*s + K.i*ms*pc*s - mc*pc*s - ms*ps*s) * hK.hh
    · linear_combination (-K.h^2*K.i^3*c*ms*pc - K.h^2*K.i^2*c*mc*pc + K.h^2*K.i^2*c*ms*ps - K.h^2*K.i^2*ms*pc*s + K.h^2*K.i*c*mc*ps + 2*K.h^2*K.i*c*ms*pc - K.h^2*K.i*mc*pc*s + K.h^2*K.i*ms*ps*s + 2*K.h^2*c*mc*pc - 2*K.h^2*c*ms*ps + K.h^2*mc*ps*s) * hK.ii + (-K.i*c*mc*ps - K.i*c*ms*pc - c*mc*pc + c*ms*ps) * hK.hh

set_option maxHeartbeats 4000000 in
set_option maxRecDepth 20000 in
/-- The generated replacement circuit of `ZXZXZ_sx_rz` evaluated symbolically. -/
theorem eval_ZXZXZ_sx_rz (pc ps mc ms c s : R)
    (v0c : K.vc 0 = mc) (v0s : K.vs 0 = ms) (v1c : K.vc 1 = -s) (v1s : K.vs 1 = c) (v2c : K.vc 2 = -ps) (v2s : K.vs 2 = pc) :
    evalRule K rule_ZXZXZ_sx_rz = some
      [[-4*K.h^4*K.i^4*c*ms*pc - 2*K.h^4*K.i^4*ms*pc*s + 4*K.h^4*K.i^3*c*mc*pc - 4*K.h^4*K.i^3*c*ms*ps + 2*K.h^4*K.i^3*mc*pc*s - 2*K.h^4*K.i^3*ms*ps*s + 4*K.h^4*K.i^2*c*mc*ps + 2*K.h^4*K.i^2*mc*ps*s - 2*K.h^4*K.i^2*ms*pc*s + 2*K.h^4*K.i*mc*pc*s - 2*K.h^4*K.i*ms*ps*s + 2*K.h^4*mc*ps*s,
        -2*K.h^4*K.i^4*ms*pc*s - 2*K.h^4*K.i^3*mc*pc*s - 2*K.h^4*K.i^3*ms*ps*s - 2*K.h^4*K.i^2*mc*ps*s + 2*K.h^4*K.i^2*ms*pc*s + 2*K.h^4*K.i*mc*pc*s + 2*K.h^4*K.i*ms*ps*s + 2*K.h^4*mc*ps*s],
       [-2*K.h^4*K.i^4*ms*pc*s + 2*K.h^4*K.i^3*mc*pc*s + 2*K.h^4*K.i^3*ms*ps*s - 2*K.h^4*K.i^2*mc*ps*s + 2*K.h^4*K.i^2*ms*pc*s - 2*K.h^4*K.i*mc*pc*s - 2*K.h^4*K.i*ms*ps*s + 2*K.h^4*mc*ps*s,
        4*K.h^4*K.i^4*c*ms*pc - 2*K.h^4*K.i^4*ms*pc*s + 4*K.h^4*K.i^3*c*mc*pc - 4*K.h^4*K.i^3*c*ms*ps - 2*K.h^4*K.i^3*mc*pc*s + 2*K.h^4*K.i^3*ms*ps*s - 4*K.h^4*K.i^2*c*mc*ps + 2*K.h^4*K.i^2*mc*ps*s - 2*K.h^4*K.i^2*ms*pc*s - 2*K.h^4*K.i*mc*pc*s + 2*K.h^4*K.i*ms*ps*s + 2*K.h^4*mc*ps*s]] := by
  simp (config := {decide := true}) [evalRule, rule_ZXZXZ_sx_rz, evalOps, opMat, gateMat, gateMatCS,
      angCS, halfCS, locOk, embed1_0, mmul2, ident2, v0c, v0s, v1c, v1s, v2c, v2s]
  <;> (try (repeat' constructor)) <;> ring1

set_option maxHeartbeats 4000000 in
set_option maxRecDepth 20000 in
theorem rule_ZXZXZ_sx_rz (hK : Valid K) (pc ps mc ms c s : R)
    (hp : pc * pc + ps * ps = 1) (hm : mc * mc + ms * ms = 1) (hc : c * c + s * s = 1)
    (v0c : K.vc 0 = mc) (v0s : K.vs 0 = ms) (v1c : K.vc 1 = -s) (v1s : K.vs 1 = c) (v2c : K.vc 2 = -ps) (v2s : K.vs 2 = pc) :
    ∃ ph phc : R, ph * phc = 1 ∧
      evalRule K rule_ZXZXZ_sx_rz = some (smul ph (su2Target K pc ps mc ms c s)) := by
  refine ⟨-K.i, K.i, ?_, ?_⟩
  · linear_combination (-1) * hK.ii
  · rw [eval_ZXZXZ_sx_rz K pc ps mc ms c s v0c v0s v1c v1s v2c v2s]
    simp only [smul, su2Target, su2Mat, List.map_cons, List.map_nil, Option.some.injEq,
      List.cons.injEq, and_true]
    refine ⟨⟨?_, ?_⟩, ?_, ?_⟩
    · linear_combination (-4*K.h^4*K.i^2*c*ms*pc - 2*K.h^4*K.i^2*ms*pc*s + 4*K.h^4*K.i*c*mc*pc - 4*K.h^4*K.i*c*ms*ps + 2*K.h^4*K.i*mc*pc*s - 2*K.h^4*K.i*ms*ps*s + 4*K.h^4*c*mc*ps + 4*K.h^4*c*ms*pc + 2*K.h^4*mc*ps*s - c*mc*ps - c*ms*pc) * hK.ii + (-2*K.h^2*K.i*c*mc*pc + 2*K.h^2*K.i*c*ms*ps - 2*K.h^2*c*mc*ps - 2*K.h^2*c*ms*pc - K.i*c*mc*pc + K.i*c*ms*ps - c*mc*ps - c*ms*pc) * hK.hh
    · linear_combination (-2*K.h^4*K.i^2*ms*pc*s - 2*K.h^4*K.i*mc*pc*s - 2*K.h^4*K.i*ms*ps*s - 2*K.h^4*mc*ps*s + 4*K.h^4*ms*pc*s + mc*ps*s - ms*pc*s) * hK.ii + (2*K.h^2*K.i*mc*pc*s + 2*K.h^2*K.i*ms*ps*s + 2*K.h^2*mc*ps*s - 2*K.h^2*ms*pc*s + K.i*mc*pc*s + K.i*ms*ps*s + mc*ps*s - ms*pc*s) * hK.hh
    · linear_combination (-2*K.h^4*K.i^2*ms*pc*s + 2*K.h^4*K.i*mc*pc*s + 2*K.h^4*K.i*ms*ps*s - 2*K.h^4*mc*ps*s + 4*K.h^4*ms*pc*s + mc*ps*s - ms*pc*s) * hK.ii + (-2*K.h^2*K.i*mc*pc*s - 2*K.h^2*K.i*ms*ps*s + 2*K.h^2*mc*ps*s - 2*K.h^2*ms*pc*s - K.i*mc*pc*s - K.i*ms*ps*s + mc*ps*s - ms*pc*s) * hK.hh
    · linear_combination (4*K.h^4*K.i^2*c*ms*pc - 2*K.h^4*K.i^2*ms*pc*s + 4*K.h^4*K.i*c*mc*pc - 4*K.h^4*K.i*c*ms*ps - 2*K.h^4*K.i*mc*pc*s + 2*K.h^4*K.i*ms*ps*s - 4*K.h^4*c*mc*ps - 4*K.h^4*c*ms*pc + 2*K.h^4*mc*ps*s + c*mc*ps + c*ms*pc) * hK.ii + (-2*K.h^2*K.i*c*mc*pc + 2*K.h^2*K.i*c*ms*ps + 2*K.h^2*c*mc*ps + 2*K.h^2*c*ms*pc - K.i*c*mc*pc + K.i*c*ms*ps + c*mc*ps + c*ms*pc) * hK.hh

set_option maxHeartbeats 4000000 in
set_option maxRecDepth 20000 in
/-- The generated replacement circuit of `ZXZXZ_rx_u1` evaluated symbolically. -/
theorem eval_ZXZXZ_rx_u1 (pc ps mc ms c s : R)
    (v0c : K.vc 0 = mc) (v0s : K.vs 0 = ms) (v1c : K.vc 1 = -s) (v1s : K.vs 1 = c) (v2c : K.vc 2 = -ps) (v2s : K.vs 2 = pc) :
    evalRule K rule_ZXZXZ_rx_u1 = some
      [[K.h * K.h + (-(K.i * K.h)) * ((-s + K.i * c) * (-s + K.i * c)) * (-(K.i * K.h)),
        (K.h * (-(K.i * K.h)) + (-(K.i * K.h)) * ((-s + K.i * c) * (-s + K.i * c)) * K.h) * ((mc + K.i * ms) * (mc + K.i * ms))],
       [((-ps + K.i * pc) * (-ps + K.i * pc)) * ((-(K.i * K.h)) * K.h + K.h * ((-s + K.i * c) * (-s + K.i * c)) * (-(K.i * K.h))),
        ((-ps + K.i * pc) * (-ps + K.i * pc)) * (((-(K.i * K.h)) * (-(K.i * K.h)) + K.h * ((-s + K.i * c) * (-s + K.i * c)) * K.h) * ((mc + K.i * ms) * (mc + K.i * ms)))]] := by
  simp (config := {decide := true}) [evalRule, rule_ZXZXZ_rx_u1, evalOps, opMat, gateMat, gateMatCS,
      angCS, halfCS, locOk, embed1_0, mmul2, ident2, v0c, v0s, v1c, v1s, v2c, v2s]
  <;> (try (repeat' constructor)) <;> ring1

set_option maxHeartbeats 4000000 in
set_option maxRecDepth 20000 in
theorem rule_ZXZXZ_rx_u1 (hK : Valid K) (pc ps mc ms c s : R)
    (hp : pc * pc + ps * ps = 1) (hm : mc * mc + ms * ms = 1) (hc : c * c + s * s = 1)
    (v0c : K.vc 0 = mc) (v0s : K.vs 0 = ms) (v1c : K.vc 1 = -s) (v1s : K.vs 1 = c) (v2c : K.vc 2 = -ps) (v2s : K.vs 2 = pc) :
    ∃ ph phc : R, ph * phc = 1 ∧
      evalRule K rule_ZXZXZ_rx_u1 = some (smul ph (su2Target K pc ps mc ms c s)) := by
  refine ⟨((mc + K.i * ms) * (-s + K.i * c) * (-ps + K.i * pc)) * (-1), ((mc - K.i * ms) * (-s - K.i * c) * (-ps - K.i * pc)) * (-1), ?_, ?_⟩
  · linear_combination (-K.i^4*c^2*ms^2*pc^2 + K.i^2*c^2*mc^2*pc^2 + K.i^2*c^2*ms^2*pc^2 + K.i^2*c^2*ms^2*ps^2 + K.i^2*ms^2*pc^2*s^2 - c^2*mc^2*pc^2 - c^2*mc^2*ps^2 - c^2*ms^2*pc^2 - c^2*ms^2*ps^2 - mc^2*pc^2*s^2 - ms^2*pc^2*s^2 - ms^2*ps^2*s^2) * hK.ii + (c^2*mc^2 + c^2*ms^2 + mc^2*s^2 + ms^2*s^2) * hp + (c^2 + s^2) * hm + (1) * hc
  · rw [eval_ZXZXZ_rx_u1 K pc ps mc ms c s v0c v0s v1c v1s v2c v2s]
    simp only [smul, su2Target, su2Mat, List.map_cons, List.map_nil, Option.some.injEq,
      List.cons.injEq, and_true]
    refine ⟨⟨?_, ?_⟩, ?_, ?_⟩
    · linear_combination ((mc + K.i * ms) * (-s + K.i * c) * (-ps + K.i * pc)) * (K.h^2*K.i^3*c*ms*pc - K.h^2*K.i^2*c*mc*pc + K.h^2*K.i^2*c*ms*ps - K.h^2*K.i^2*ms*pc*s - K.h^2*K.i*c*mc*ps - 2*K.h^2*K.i*c*ms*pc + K.h^2*K.i*mc*pc*s - K.h^2*K.i*ms*ps*s + 2*K.h^2*c*mc*pc - 2*K.h^2*c*ms*ps + K.h^2*mc*ps*s) * hK.ii + ((mc + K.i * ms) * (-s + K.i * c) * (-ps + K.i * pc)) * (K.i*c*mc*ps + K.i*c*ms*pc - c*mc*pc + c*ms*ps) * hK.hh + (-K.h^2*K.i^6*c^2*ms^2*pc^2 + 2*K.h^2*K.i^5*c*ms^2*pc^2*s + K.h^2*K.i^4*c^2*mc^2*pc^2 + 2*K.h^2*K.i^4*c^2*ms^2*pc^2 + K.h^2*K.i^4*c^2*ms^2*ps^2 - K.h^2*K.i^4*ms^2*pc^2*s^2 - 2*K.h^2*K.i^3*c*mc^2*pc^2*s - 2*K.h^2*K.i^3*c*ms^2*pc^2*s - 2*K.h^2*K.i^3*c*ms^2*ps^2*s - 2*K.h^2*K.i^2*c^2*mc^2*pc^2 - K.h^2*K.i^2*c^2*mc^2*ps^2 - 2*K.h^2*K.i^2*c^2*ms^2*pc^2 - 2*K.h^2*K.i^2*c^2*ms^2*ps^2 + K.h^2*K.i^2*c^2 + K.h^2*K.i^2*mc^2*pc^2*s^2 + K.h^2*K.i^2*ms^2*ps^2*s^2 + 2*K.h^2*K.i*c*mc^2*pc^2*s + 2*K.h^2*K.i*c*mc^2*ps^2*s + 2*K.h^2*K.i*c*ms^2*pc^2*s + 2*K.h^2*K.i*c*ms^2*ps^2*s - 2*K.h^2*K.i*c*s + 2*K.h^2*c^2*mc^2*pc^2 + 2*K.h^2*c^2*mc^2*ps^2 + 2*K.h^2*c^2*ms^2*pc^2 + 2*K.h^2*c^2*ms^2*ps^2 - K.h^2*c^2 - K.h^2*mc^2*ps^2*s^2 + K.h^2*s^2) * hK.ii + (-2*K.h^2*K.i*c*mc^2*s - 2*K.h^2*K.i*c*ms^2*s - 2*K.h^2*c^2*mc^2 - 2*K.h^2*c^2*ms^2) * hp + (-2*K.h^2*K.i*c*s - 2*K.h^2*c^2) * hm + (-K.h^2) * hc
    · linear_combination ((mc + K.i * ms) * (-s + K.i * c) * (-ps + K.i * pc)) * (-2*K.h^2*K.i*ms*pc*s - 2*K.h^2*mc*pc*s - 2*K.h^2*ms*ps*s) * hK.ii + ((mc + K.i * ms) * (-s + K.i * c) * (-ps + K.i * pc)) * (-K.i*mc*ps*s + K.i*ms*pc*s + mc*pc*s + ms*ps*s) * hK.hh + (2*K.h^2*K.i^4*c*ms^2*pc^2*s - K.h^2*K.i^3*c^2*ms^2 + 4*K.h^2*K.i^3*c*mc*ms*pc^2*s - 2*K.h^2*K.i^3*ms^2*pc^2*s^2 - 2*K.h^2*K.i^2*c^2*mc*ms + 2*K.h^2*K.i^2*c*mc^2*pc^2*s - 2*K.h^2*K.i^2*c*ms^2*pc^2*s - 2*K.h^2*K.i^2*c*ms^2*ps^2*s + 2*K.h^2*K.i^2*c*ms^2*s - 4*K.h^2*K.i^2*mc*ms*pc^2*s^2 - K.h^2*K.i*c^2*mc^2 + K.h^2*K.i*c^2*ms^2 - 4*K.h^2*K.i*c*mc*ms*pc^2*s - 4*K.h^2*K.i*c*mc*ms*ps^2*s + 4*K.h^2*K.i*c*mc*ms*s - 2*K.h^2*K.i*mc^2*pc^2*s^2 + 2*K.h^2*K.i*ms^2*pc^2*s^2 + 2*K.h^2*K.i*ms^2*ps^2*s^2 - K.h^2*K.i*ms^2*s^2 - K.h^2*K.i*ms^2 + 2*K.h^2*c^2*mc*ms - 2*K.h^2*c*mc^2*pc^2*s - 2*K.h^2*c*mc^2*ps^2*s + 2*K.h^2*c*mc^2*s + 2*K.h^2*c*ms^2*pc^2*s + 2*K.h^2*c*ms^2*ps^2*s - 2*K.h^2*c*ms^2*s + 4*K.h^2*mc*ms*pc^2*s^2 + 4*K.h^2*mc*ms*ps^2*s^2 - 2*K.h^2*mc*ms*s^2 - 2*K.h^2*mc*ms) * hK.ii + (4*K.h^2*K.i*c*mc*ms*s + 2*K.h^2*K.i*mc^2*s^2 - 2*K.h^2*K.i*ms^2*s^2 + 2*K.h^2*c*mc^2*s - 2*K.h^2*c*ms^2*s - 4*K.h^2*mc*ms*s^2) * hp + (K.h^2*K.i*c^2 + K.h^2*K.i*s^2 - K.h^2*K.i) * hm + (-2*K.h^2*K.i*ms^2 + K.h^2*K.i - 2*K.h^2*mc*ms) * hc
    · linear_combination ((mc + K.i * ms) * (-s + K.i * c) * (-ps + K.i * pc)) * (-2*K.h^2*K.i*ms*pc*s + 2*K.h^2*mc*pc*s + 2*K.h^2*ms*ps*s) * hK.ii + ((mc + K.i * ms) * (-s + K.i * c) * (-ps + K.i * pc)) * (-K.i*mc*ps*s + K.i*ms*pc*s - mc*pc*s - ms*ps*s) * hK.hh + (2*K.h^2*K.i^4*c*ms^2*pc^2*s - K.h^2*K.i^3*c^2*pc^2 - 4*K.h^2*K.i^3*c*ms^2*pc*ps*s - 2*K.h^2*K.i^3*ms^2*pc^2*s^2 + 2*K.h^2*K.i^2*c^2*pc*ps - 2*K.h^2*K.i^2*c*mc^2*pc^2*s - 2*K.h^2*K.i^2*c*ms^2*pc^2*s + 2*K.h^2*K.i^2*c*ms^2*ps^2*s + 2*K.h^2*K.i^2*c*pc^2*s + 4*K.h^2*K.i^2*ms^2*pc*ps*s^2 + K.h^2*K.i*c^2*pc^2 - K.h^2*K.i*c^2*ps^2 + 4*K.h^2*K.i*c*mc^2*pc*ps*s + 4*K.h^2*K.i*c*ms^2*pc*ps*s - 4*K.h^2*K.i*c*pc*ps*s + 2*K.h^2*K.i*mc^2*pc^2*s^2 + 2*K.h^2*K.i*ms^2*pc^2*s^2 - 2*K.h^2*K.i*ms^2*ps^2*s^2 - K.h^2*K.i*pc^2*s^2 - K.h^2*K.i*pc^2 - 2*K.h^2*c^2*pc*ps + 2*K.h^2*c*mc^2*pc^2*s - 2*K.h^2*c*mc^2*ps^2*s + 2*K.h^2*c*ms^2*pc^2*s - 2*K.h^2*c*ms^2*ps^2*s - 2*K.h^2*c*pc^2*s + 2*K.h^2*c*ps^2*s - 4*K.h^2*mc^2*pc*ps*s^2 - 4*K.h^2*ms^2*pc*ps*s^2 + 2*K.h^2*pc*ps*s^2 + 2*K.h^2*pc*ps) * hK.ii + (-K.h^2*K.i*c^2 - 2*K.h^2*K.i*mc^2*s^2 - 2*K.h^2*K.i*ms^2*s^2 + K.h^2*K.i*s^2 + K.h^2*K.i - 2*K.h^2*c*mc^2*s - 2*K.h^2*c*ms^2*s + 2*K.h^2*c*s) * hp + (-4*K.h^2*K.i*c*pc*ps*s + 4*K.h^2*K.i*ps^2*s^2 - 2*K.h^2*K.i*s^2 + 4*K.h^2*c*ps^2*s - 2*K.h^2*c*s + 4*K.h^2*pc*ps*s^2) * hm + (2*K.h^2*K.i*ps^2 - K.h^2*K.i + 2*K.h^2*pc*ps) * hc
    · linear_combination ((mc + K.i * ms) * (-s + K.i * c) * (-ps + K.i * pc)) * (-K.h^2*K.i^3*c*ms*pc - K.h^2*K.i^2*c*mc*pc + K.h^2*K.i^2*c*ms*ps - K.h^2*K.i^2*ms*pc*s + K.h^2*K.i*c*mc*ps + 2*K.h^2*K.i*c*ms*pc - K.h^2*K.i*mc*pc*s + K.h^2*K.i*ms*ps*s + 2*K.h^2*c*mc*pc - 2*K.h^2*c*ms*ps + K.h^2*mc*ps*s) * hK.ii + ((mc + K.i * ms) * (-s + K.i * c) * (-ps + K.i * pc)) * (-K.i*c*mc*ps - K.i*c*ms*pc - c*mc*pc + c*ms*ps) * hK.hh + (K.h^2*K.i^6*c^2*ms^2*pc^2 + 2*K.h^2*K.i^5*c^2*mc*ms*pc^2 - 2*K.h^2*K.i^5*c^2*ms^2*pc*ps + K.h^2*K.i^4*c^2*mc^2*pc^2 - 4*K.h^2*K.i^4*c^2*mc*ms*pc*ps - K.h^2*K.i^4*c^2*ms^2*pc^2 + K.h^2*K.i^4*c^2*ms^2*ps^2 - K.h^2*K.i^4*ms^2*pc^2*s^2 + K.h^2*K.i^4*ms^2*pc^2 - 2*K.h^2*K.i^3*c^2*mc^2*pc*ps - 2*K.h^2*K.i^3*c^2*mc*ms*pc^2 + 2*K.h^2*K.i^3*c^2*mc*ms*ps^2 + 2*K.h^2*K.i^3*c^2*ms^2*pc*ps - 2*K.h^2*K.i^3*mc*ms*pc^2*s^2 + 2*K.h^2*K.i^3*mc*ms*pc^2 + 2*K.h^2*K.i^3*ms^2*pc*ps*s^2 - 2*K.h^2*K.i^3*ms^2*pc*ps - K.h^2*K.i^2*c^2*mc^2*pc^2 + K.h^2*K.i^2*c^2*mc^2*ps^2 + 4*K.h^2*K.i^2*c^2*mc*ms*pc*ps + K.h^2*K.i^2*c^2*ms^2*pc^2 - K.h^2*K.i^2*c^2*ms^2*ps^2 - K.h^2*K.i^2*mc^2*pc^2*s^2 + K.h^2*K.i^2*mc^2*pc^2 + 4*K.h^2*K.i^2*mc*ms*pc*ps*s^2 - 4*K.h^2*K.i^2*mc*ms*pc*ps + K.h^2*K.i^2*ms^2*pc^2*s^2 - K.h^2*K.i^2*ms^2*pc^2 - K.h^2*K.i^2*ms^2*ps^2*s^2 + K.h^2*K.i^2*ms^2*ps^2 + 2*K.h^2*K.i*c^2*mc^2*pc*ps + 2*K.h^2*K.i*c^2*mc*ms*pc^2 - 2*K.h^2*K.i*c^2*mc*ms*ps^2 - 2*K.h^2*K.i*c^2*ms^2*pc*ps + 2*K.h^2*K.i*mc^2*pc*ps*s^2 - 2*K.h^2*K.i*mc^2*pc*ps + 2*K.h^2*K.i*mc*ms*pc^2*s^2 - 2*K.h^2*K.i*mc*ms*pc^2 - 2*K.h^2*K.i*mc*ms*ps^2*s^2 + 2*K.h^2*K.i*mc*ms*ps^2 - 2*K.h^2*K.i*ms^2*pc*ps*s^2 + 2*K.h^2*K.i*ms^2*pc*ps + K.h^2*c^2*mc^2*pc^2 - K.h^2*c^2*mc^2*ps^2 - 4*K.h^2*c^2*mc*ms*pc*ps - K.h^2*c^2*ms^2*pc^2 + K.h^2*c^2*ms^2*ps^2 + K.h^2*mc^2*pc^2*s^2 - K.h^2*mc^2*pc^2 - K.h^2*mc^2*ps^2*s^2 + K.h^2*mc^2*ps^2 - 4*K.h^2*mc*ms*pc*ps*s^2 + 4*K.h^2*mc*ms*pc*ps - K.h^2*ms^2*pc^2*s^2 + K.h^2*ms^2*pc^2 + K.h^2*ms^2*ps^2*s^2 - K.h^2*ms^2*ps^2) * hK.ii + (-2*K.h^2*K.i*c^2*mc*ms - 2*K.h^2*K.i*mc*ms*s^2 + 2*K.h^2*K.i*mc*ms - K.h^2*c^2*mc^2 + K.h^2*c^2*ms^2 - K.h^2*mc^2*s^2 + K.h^2*mc^2 + K.h^2*ms^2*s^2 - K.h^2*ms^2) * hp + (-2*K.h^2*K.i*c^2*pc*ps - 2*K.h^2*K.i*pc*ps*s^2 + 2*K.h^2*K.i*pc*ps + 2*K.h^2*c^2*ps^2 - K.h^2*c^2 + 2*K.h^2*ps^2*s^2 - 2*K.h^2*ps^2 - K.h^2*s^2 + K.h^2) * hm + (4*K.h^2*K.i*mc*ms*ps^2 - 2*K.h^2*K.i*mc*ms + 4*K.h^2*K.i*ms^2*pc*ps - 2*K.h^2*K.i*pc*ps + 4*K.h^2*mc*ms*pc*ps - 4*K.h^2*ms^2*ps^2 + 2*K.h^2*ms^2 + 2*K.h^2*ps^2 - K.h^2) * hc

set_option maxHeartbeats 4000000 in
set_option maxRecDepth 20000 in
/-- The generated replacement circuit of `ZXZXZ_sx_u1` evaluated symbolically. -/
theorem eval_ZXZXZ_sx_u1 (pc ps mc ms c s : R)
    (v0c : K.vc 0 = mc) (v0s : K.vs 0 = ms) (v1c : K.vc 1 = -s) (v1s : K.vs 1 = c) (v2c : K.vc 2 = -ps) (v2s : K.vs 2 = pc) :
    evalRule K rule_ZXZXZ_sx_u1 = some
      [[(K.h * K.h * (1 + K.i)) * (K.h * K.h * (1 + K.i)) + (K.h * K.h * (1 - K.i)) * ((-s + K.i * c) * (-s + K.i * c)) * (K.h * K.h * (1 - K.i)),
        ((K.h * K.h * (1 + K.i)) * (K.h * K.h * (1 - K.i)) + (K.h * K.h * (1 - K.i)) * ((-s + K.i * c) * (-s + K.i * c)) * (K.h * K.h * (1 + K.i))) * ((mc + K.i * ms) * (mc + K.i * ms))],
       [((-ps + K.i * pc) * (-ps + K.i * pc)) * ((K.h * K.h * (1 - K.i)) * (K.h * K.h * (1 + K.i)) + (K.h * K.h * (1 + K.i)) * ((-s + K.i * c) * (-s + K.i * c)) * (K.h * K.h * (1 - K.i))),
        ((-ps + K.i * pc) * (-ps + K.i * pc)) * (((K.h * K.h * (1 - K.i)) * (K.h * K.h * (1 - K.i)) + (K.h * K.h * (1 + K.i)) * ((-s + K.i * c) * (-s + K.i * c)) * (K.h * K.h * (1 + K.i))) * ((mc + K.i * ms) * (mc + K.i * ms)))]] := by
  simp (config := {decide := true}) [evalRule, rule_ZXZXZ_sx_u1, evalOps, opMat, gateMat, gateMatCS,
      angCS, halfCS, locOk, embed1_0, mmul2, ident2, v0c, v0s, v1c, v1s, v2c, v2s]
  <;> (try (repeat' constructor)) <;> ring1

set_option maxHeartbeats 4000000 in
set_option maxRecDepth 20000 in
theorem rule_ZXZXZ_sx_u1 (hK : Valid K) (pc ps mc ms c s : R)
    (hp : pc * pc + ps * ps = 1) (hm : mc * mc + ms * ms = 1) (hc : c * c + s * s = 1)
    (v0c : K.vc 0 = mc) (v0s : K.vs 0 = ms) (v1c : K.vc 1 = -s) (v1s : K.vs 1 = c) (v2c : K.vc 2 = -ps) (v2s : K.vs 2 = pc) :
    ∃ ph phc : R, ph * phc = 1 ∧
      evalRule K rule_ZXZXZ_sx_u1 = some (smul ph (su2Target K pc ps mc ms c s)) := by
  refine ⟨((mc + K.i * ms) * (-s + K.i * c) * (-ps + K.i * pc)) * (-K.i), ((mc - K.i * ms) * (-s - K.i * c) * (-ps - K.i * pc)) * (K.i), ?_, ?_⟩
  · linear_combination (K.i^6*c^2*ms^2*pc^2 - K.i^4*c^2*mc^2*pc^2 - K.i^4*c^2*ms^2*pc^2 - K.i^4*c^2*ms^2*ps^2 - K.i^4*ms^2*pc^2*s^2 + K.i^2*c^2*mc^2*pc^2 + K.i^2*c^2*mc^2*ps^2 + K.i^2*c^2*ms^2*pc^2 + K.i^2*c^2*ms^2*ps^2 + K.i^2*mc^2*pc^2*s^2 + K.i^2*ms^2*pc^2*s^2 + K.i^2*ms^2*ps^2*s^2 - c^2*mc^2*pc^2 - c^2*mc^2*ps^2 - c^2*ms^2*pc^2 - c^2*ms^2*ps^2 - mc^2*pc^2*s^2 - mc^2*ps^2*s^2 - ms^2*pc^2*s^2 - ms^2*ps^2*s^2) * hK.ii + (c^2*mc^2 + c^2*ms^2 + mc^2*s^2 + ms^2*s^2) * hp + (c^2 + s^2) * hm + (1) * hc
  · rw [eval_ZXZXZ_sx_u1 K pc ps mc ms c s v0c v0s v1c v1s v2c v2s]
    simp only [smul, su2Target, su2Mat, List.map_cons, List.map_nil, Option.some.injEq,
      List.cons.injEq, and_true]
    refine ⟨⟨?_, ?_⟩, ?_, ?_⟩
    · linear_combination ((mc + K.i * ms) * (-s + K.i * c) * (-ps + K.i * pc)) * (-4*K.h^4*K.i^2*c*ms*pc - 2*K.h^4*K.i^2*ms*pc*s + 4*K.h^4*K.i*c*mc*pc - 4*K.h^4*K.i*c*ms*ps + 2*K.h^4*K.i*mc*pc*s - 2*K.h^4*K.i*ms*ps*s + 4*K.h^4*c*mc*ps + 4*K.h^4*c*ms*pc + 2*K.h^4*mc*ps*s - c*mc*ps - c*ms*pc) * hK.ii + ((mc + K.i * ms) * (-s + K.i * c) * (-ps + K.i * pc)) * (-2*K.h^2*K.i*c*mc*pc + 2*K.h^2*K.i*c*ms*ps - 2*K.h^2*c*mc*ps - 2*K.h^2*c*ms*pc - K.i*c*mc*pc + K.i*c*ms*ps - c*mc*ps - c*ms*pc) * hK.hh + (4*K.h^4*K.i^5*c^2*ms^2*pc^2 + 2*K.h^4*K.i^5*c*ms^2*pc^2*s - 4*K.h^4*K.i^4*c*ms^2*pc^2*s - 2*K.h^4*K.i^4*ms^2*pc^2*s^2 - 4*K.h^4*K.i^3*c^2*mc^2*pc^2 - 4*K.h^4*K.i^3*c^2*ms^2*pc^2 - 4*K.h^4*K.i^3*c^2*ms^2*ps^2 - 2*K.h^4*K.i^3*c*mc^2*pc^2*s - 2*K.h^4*K.i^3*c*ms^2*ps^2*s + K.h^4*K.i^2*c^2 + 4*K.h^4*K.i^2*c*mc^2*pc^2*s + 4*K.h^4*K.i^2*c*ms^2*pc^2*s + 4*K.h^4*K.i^2*c*ms^2*ps^2*s + 2*K.h^4*K.i^2*mc^2*pc^2*s^2 + 2*K.h^4*K.i^2*ms^2*ps^2*s^2 + 4*K.h^4*K.i*c^2*mc^2*pc^2 + 4*K.h^4*K.i*c^2*mc^2*ps^2 + 4*K.h^4*K.i*c^2*ms^2*pc^2 + 4*K.h^4*K.i*c^2*ms^2*ps^2 - 2*K.h^4*K.i*c^2 + 2*K.h^4*K.i*c*mc^2*ps^2*s - 2*K.h^4*K.i*c*s - 4*K.h^4*c*mc^2*pc^2*s - 4*K.h^4*c*mc^2*ps^2*s - 4*K.h^4*c*ms^2*pc^2*s - 4*K.h^4*c*ms^2*ps^2*s + 4*K.h^4*c*s - 2*K.h^4*mc^2*ps^2*s^2 + K.h^4*s^2 + K.h^4) * hK.ii + (-4*K.h^4*K.i*c^2*mc^2 - 4*K.h^4*K.i*c^2*ms^2 + 4*K.h^4*c*mc^2*s + 4*K.h^4*c*ms^2*s) * hp + (-4*K.h^4*K.i*c^2 + 4*K.h^4*c*s) * hm + (-2*K.h^4*K.i) * hc
    · linear_combination ((mc + K.i * ms) * (-s + K.i * c) * (-ps + K.i * pc)) * (-2*K.h^4*K.i^2*ms*pc*s - 2*K.h^4*K.i*mc*pc*s - 2*K.h^4*K.i*ms*ps*s - 2*K.h^4*mc*ps*s + 4*K.h^4*ms*pc*s + mc*ps*s - ms*pc*s) * hK.ii + ((mc + K.i * ms) * (-s + K.i * c) * (-ps + K.i * pc)) * (2*K.h^2*K.i*mc*pc*s + 2*K.h^2*K.i*ms*ps*s + 2*K.h^2*mc*ps*s - 2*K.h^2*ms*pc*s + K.i*mc*pc*s + K.i*ms*ps*s + mc*ps*s - ms*pc*s) * hK.hh + (2*K.h^4*K.i^5*c*ms^2*pc^2*s - K.h^4*K.i^4*c^2*ms^2 + 4*K.h^4*K.i^4*c*mc*ms*pc^2*s - 2*K.h^4*K.i^4*ms^2*pc^2*s^2 - 2*K.h^4*K.i^3*c^2*mc*ms + 2*K.h^4*K.i^3*c*mc^2*pc^2*s - 4*K.h^4*K.i^3*c*ms^2*pc^2*s - 2*K.h^4*K.i^3*c*ms^2*ps^2*s + 2*K.h^4*K.i^3*c*ms^2*s - 4*K.h^4*K.i^3*mc*ms*pc^2*s^2 - K.h^4*K.i^2*c^2*mc^2 + 2*K.h^4*K.i^2*c^2*ms^2 - 8*K.h^4*K.i^2*c*mc*ms*pc^2*s - 4*K.h^4*K.i^2*c*mc*ms*ps^2*s + 4*K.h^4*K.i^2*c*mc*ms*s - 2*K.h^4*K.i^2*mc^2*pc^2*s^2 + 4*K.h^4*K.i^2*ms^2*pc^2*s^2 + 2*K.h^4*K.i^2*ms^2*ps^2*s^2 - K.h^4*K.i^2*ms^2*s^2 - K.h^4*K.i^2*ms^2 + 4*K.h^4*K.i*c^2*mc*ms - 4*K.h^4*K.i*c*mc^2*pc^2*s - 2*K.h^4*K.i*c*mc^2*ps^2*s + 2*K.h^4*K.i*c*mc^2*s + 4*K.h^4*K.i*c*ms^2*pc^2*s + 4*K.h^4*K.i*c*ms^2*ps^2*s - 4*K.h^4*K.i*c*ms^2*s + 8*K.h^4*K.i*mc*ms*pc^2*s^2 + 4*K.h^4*K.i*mc*ms*ps^2*s^2 - 2*K.h^4*K.i*mc*ms*s^2 - 2*K.h^4*K.i*mc*ms + 2*K.h^4*c^2*mc^2 - 2*K.h^4*c^2*ms^2 + 8*K.h^4*c*mc*ms*pc^2*s + 8*K.h^4*c*mc*ms*ps^2*s - 8*K.h^4*c*mc*ms*s + 4*K.h^4*mc^2*pc^2*s^2 + 2*K.h^4*mc^2*ps^2*s^2 - K.h^4*mc^2*s^2 - K.h^4*mc^2 - 4*K.h^4*ms^2*pc^2*s^2 - 4*K.h^4*ms^2*ps^2*s^2 + 2*K.h^4*ms^2*s^2 + 2*K.h^4*ms^2) * hK.ii + (4*K.h^4*K.i*c*mc^2*s - 4*K.h^4*K.i*c*ms^2*s - 8*K.h^4*K.i*mc*ms*s^2 - 8*K.h^4*c*mc*ms*s - 4*K.h^4*mc^2*s^2 + 4*K.h^4*ms^2*s^2) * hp + (-2*K.h^4*c^2 - 2*K.h^4*s^2 + 2*K.h^4) * hm + (-4*K.h^4*K.i*mc*ms + 4*K.h^4*ms^2 - 2*K.h^4) * hc
    · linear_combination ((mc + K.i * ms) * (-s + K.i * c) * (-ps + K.i * pc)) * (-2*K.h^4*K.i^2*ms*pc*s + 2*K.h^4*K.i*mc*pc*s + 2*K.h^4*K.i*ms*ps*s - 2*K.h^4*mc*ps*s + 4*K.h^4*ms*pc*s + mc*ps*s - ms*pc*s) * hK.ii + ((mc + K.i * ms) * (-s + K.i * c) * (-ps + K.i * pc)) * (-2*K.h^2*K.i*mc*pc*s - 2*K.h^2*K.i*ms*ps*s + 2*K.h^2*mc*ps*s - 2*K.h^2*ms*pc*s - K.i*mc*pc*s - K.i*ms*ps*s + mc*ps*s - ms*pc*s) * hK.hh + (2*K.h^4*K.i^5*c*ms^2*pc^2*s - K.h^4*K.i^4*c^2*pc^2 - 4*K.h^4*K.i^4*c*ms^2*pc*ps*s - 2*K.h^4*K.i^4*ms^2*pc^2*s^2 + 2*K.h^4*K.i^3*c^2*pc*ps - 2*K.h^4*K.i^3*c*mc^2*pc^2*s - 4*K.h^4*K.i^3*c*ms^2*pc^2*s + 2*K.h^4*K.i^3*c*ms^2*ps^2*s + 2*K.h^4*K.i^3*c*pc^2*s + 4*K.h^4*K.i^3*ms^2*pc*ps*s^2 + 2*K.h^4*K.i^2*c^2*pc^2 - K.h^4*K.i^2*c^2*ps^2 + 4*K.h^4*K.i^2*c*mc^2*pc*ps*s + 8*K.h^4*K.i^2*c*ms^2*pc*ps*s - 4*K.h^4*K.i^2*c*pc*ps*s + 2*K.h^4*K.i^2*mc^2*pc^2*s^2 + 4*K.h^4*K.i^2*ms^2*pc^2*s^2 - 2*K.h^4*K.i^2*ms^2*ps^2*s^2 - K.h^4*K.i^2*pc^2*s^2 - K.h^4*K.i^2*pc^2 - 4*K.h^4*K.i*c^2*pc*ps + 4*K.h^4*K.i*c*mc^2*pc^2*s - 2*K.h^4*K.i*c*mc^2*ps^2*s + 4*K.h^4*K.i*c*ms^2*pc^2*s - 4*K.h^4*K.i*c*ms^2*ps^2*s - 4*K.h^4*K.i*c*pc^2*s + 2*K.h^4*K.i*c*ps^2*s - 4*K.h^4*K.i*mc^2*pc*ps*s^2 - 8*K.h^4*K.i*ms^2*pc*ps*s^2 + 2*K.h^4*K.i*pc*ps*s^2 + 2*K.h^4*K.i*pc*ps - 2*K.h^4*c^2*pc^2 + 2*K.h^4*c^2*ps^2 - 8*K.h^4*c*mc^2*pc*ps*s - 8*K.h^4*c*ms^2*pc*ps*s + 8*K.h^4*c*pc*ps*s - 4*K.h^4*mc^2*pc^2*s^2 + 2*K.h^4*mc^2*ps^2*s^2 - 4*K.h^4*ms^2*pc^2*s^2 + 4*K.h^4*ms^2*ps^2*s^2 + 2*K.h^4*pc^2*s^2 + 2*K.h^4*pc^2 - K.h^4*ps^2*s^2 - K.h^4*ps^2) * hK.ii + (-4*K.h^4*K.i*c*mc^2*s - 4*K.h^4*K.i*c*ms^2*s + 4*K.h^4*K.i*c*s + 2*K.h^4*c^2 + 4*K.h^4*mc^2*s^2 + 4*K.h^4*ms^2*s^2 - 2*K.h^4*s^2 - 2*K.h^4) * hp + (8*K.h^4*K.i*c*ps^2*s - 4*K.h^4*K.i*c*s + 8*K.h^4*K.i*pc*ps*s^2 + 8*K.h^4*c*pc*ps*s - 8*K.h^4*ps^2*s^2 + 4*K.h^4*s^2) * hm + (4*K.h^4*K.i*pc*ps - 4*K.h^4*ps^2 + 2*K.h^4) * hc
    · linear_combination ((mc + K.i * ms) * (-s + K.i * c) * (-ps + K.i * pc)) * (4*K.h^4*K.i^2*c*ms*pc - 2*K.h^4*K.i^2*ms*pc*s + 4*K.h^4*K.i*c*mc*pc - 4*K.h^4*K.i*c*ms*ps - 2*K.h^4*K.i*mc*pc*s + 2*K.h^4*K.i*ms*ps*s - 4*K.h^4*c*mc*ps - 4*K.h^4*c*ms*pc + 2*K.h^4*mc*ps*s + c*mc*ps + c*ms*pc) * hK.ii + ((mc + K.i * ms) * (-s + K.i * c) * (-ps + K.i * pc)) * (-2*K.h^2*K.i*c*mc*pc + 2*K.h^2*K.i*c*ms*ps + 2*K.h^2*c*mc*ps + 2*K.h^2*c*ms*pc - K.i*c*mc*pc + K.i*c*ms*ps + c*mc*ps + c*ms*pc) * hK.hh + (K.h^4*K.i^6*c^2*ms^2*pc^2 + 2*K.h^4*K.i^5*c^2*mc*ms*pc^2 - 2*K.h^4*K.i^5*c^2*ms^2*pc^2 - 2*K.h^4*K.i^5*c^2*ms^2*pc*ps + K.h^4*K.i^4*c^2*mc^2*pc^2 - 4*K.h^4*K.i^4*c^2*mc*ms*pc^2 - 4*K.h^4*K.i^4*c^2*mc*ms*pc*ps + 4*K.h^4*K.i^4*c^2*ms^2*pc*ps + K.h^4*K.i^4*c^2*ms^2*ps^2 - K.h^4*K.i^4*ms^2*pc^2*s^2 + K.h^4*K.i^4*ms^2*pc^2 - 2*K.h^4*K.i^3*c^2*mc^2*pc^2 - 2*K.h^4*K.i^3*c^2*mc^2*pc*ps + 8*K.h^4*K.i^3*c^2*mc*ms*pc*ps + 2*K.h^4*K.i^3*c^2*mc*ms*ps^2 + 2*K.h^4*K.i^3*c^2*ms^2*pc^2 - 2*K.h^4*K.i^3*c^2*ms^2*ps^2 - 2*K.h^4*K.i^3*mc*ms*pc^2*s^2 + 2*K.h^4*K.i^3*mc*ms*pc^2 + 2*K.h^4*K.i^3*ms^2*pc^2*s^2 - 2*K.h^4*K.i^3*ms^2*pc^2 + 2*K.h^4*K.i^3*ms^2*pc*ps*s^2 - 2*K.h^4*K.i^3*ms^2*pc*ps + 4*K.h^4*K.i^2*c^2*mc^2*pc*ps + K.h^4*K.i^2*c^2*mc^2*ps^2 + 4*K.h^4*K.i^2*c^2*mc*ms*pc^2 - 4*K.h^4*K.i^2*c^2*mc*ms*ps^2 - 4*K.h^4*K.i^2*c^2*ms^2*pc*ps - K.h^4*K.i^2*mc^2*pc^2*s^2 + K.h^4*K.i^2*mc^2*pc^2 + 4*K.h^4*K.i^2*mc*ms*pc^2*s^2 - 4*K.h^4*K.i^2*mc*ms*pc^2 + 4*K.h^4*K.i^2*mc*ms*pc*ps*s^2 - 4*K.h^4*K.i^2*mc*ms*pc*ps - 4*K.h^4*K.i^2*ms^2*pc*ps*s^2 + 4*K.h^4*K.i^2*ms^2*pc*ps - K.h^4*K.i^2*ms^2*ps^2*s^2 + K.h^4*K.i^2*ms^2*ps^2 + 2*K.h^4*K.i*c^2*mc^2*pc^2 - 2*K.h^4*K.i*c^2*mc^2*ps^2 - 8*K.h^4*K.i*c^2*mc*ms*pc*ps - 2*K.h^4*K.i*c^2*ms^2*pc^2 + 2*K.h^4*K.i*c^2*ms^2*ps^2 + 2*K.h^4*K.i*mc^2*pc^2*s^2 - 2*K.h^4*K.i*mc^2*pc^2 + 2*K.h^4*K.i*mc^2*pc*ps*s^2 - 2*K.h^4*K.i*mc^2*pc*ps - 8*K.h^4*K.i*mc*ms*pc*ps*s^2 + 8*K.h^4*K.i*mc*ms*pc*ps - 2*K.h^4*K.i*mc*ms*ps^2*s^2 + 2*K.h^4*K.i*mc*ms*ps^2 - 2*K.h^4*K.i*ms^2*pc^2*s^2 + 2*K.h^4*K.i*ms^2*pc^2 + 2*K.h^4*K.i*ms^2*ps^2*s^2 - 2*K.h^4*K.i*ms^2*ps^2 - 4*K.h^4*c^2*mc^2*pc*ps - 4*K.h^4*c^2*mc*ms*pc^2 + 4*K.h^4*c^2*mc*ms*ps^2 + 4*K.h^4*c^2*ms^2*pc*ps - 4*K.h^4*mc^2*pc*ps*s^2 + 4*K.h^4*mc^2*pc*ps - K.h^4*mc^2*ps^2*s^2 + K.h^4*mc^2*ps^2 - 4*K.h^4*mc*ms*pc^2*s^2 + 4*K.h^4*mc*ms*pc^2 + 4*K.h^4*mc*ms*ps^2*s^2 - 4*K.h^4*mc*ms*ps^2 + 4*K.h^4*ms^2*pc*ps*s^2 - 4*K.h^4*ms^2*pc*ps) * hK.ii + (-2*K.h^4*K.i*c^2*mc^2 + 2*K.h^4*K.i*c^2*ms^2 - 2*K.h^4*K.i*mc^2*s^2 + 2*K.h^4*K.i*mc^2 + 2*K.h^4*K.i*ms^2*s^2 - 2*K.h^4*K.i*ms^2 + 4*K.h^4*c^2*mc*ms + 4*K.h^4*mc*ms*s^2 - 4*K.h^4*mc*ms) * hp + (4*K.h^4*K.i*c^2*ps^2 - 2*K.h^4*K.i*c^2 + 4*K.h^4*K.i*ps^2*s^2 - 4*K.h^4*K.i*ps^2 - 2*K.h^4*K.i*s^2 + 2*K.h^4*K.i + 4*K.h^4*c^2*pc*ps + 4*K.h^4*pc*ps*s^2 - 4*K.h^4*pc*ps) * hm + (8*K.h^4*K.i*mc*ms*pc*ps - 8*K.h^4*K.i*ms^2*ps^2 + 4*K.h^4*K.i*ms^2 + 4*K.h^4*K.i*ps^2 - 2*K.h^4*K.i - 8*K.h^4*mc*ms*ps^2 + 4*K.h^4*mc*ms - 8*K.h^4*ms^2*pc*ps + 4*K.h^4*pc*ps) * hc

end BqVerif.Rules
