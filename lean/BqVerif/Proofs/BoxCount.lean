import BqVerif.Proofs.WakeNet
/-!
# Deposits and outstanding tokens of a mailbox

Worker-level facts for the second environment assumption of the wake discipline: apart from
`_handle_result`, nothing changes `num_results` / `expected_num_results` of an existing mailbox;
new mailboxes start empty; tokens created by a loop iteration belong to slots of the mailbox
created with them.
-/
namespace BqVerif.Runtime

/-- mailboxes of `w'` are mailboxes of `w` with the same counters, or new and empty -/
def BoxKeep (w w' : Worker) : Prop :=
  ∀ k b', boxGet w'.boxes k = some b' →
    (∃ b, boxGet w.boxes k = some b ∧ b'.num = b.num ∧ b'.expected = b.expected)
    ∨ (w.counter ≤ k ∧ b'.num = 0)

theorem BoxKeep.refl (w : Worker) : BoxKeep w w := fun _ b' h => Or.inl ⟨b', h, rfl, rfl⟩

theorem BoxKeep.trans {a b c : Worker} (h1 : BoxKeep a b) (h2 : BoxKeep b c) (hc : a.counter ≤ b.counter) :
    BoxKeep a c := by
  intro k x hx
  rcases h2 k x hx with ⟨y, hy, e1, e2⟩ | ⟨e1, e2⟩
  · rcases h1 k y hy with ⟨z, hz, f1, f2⟩ | ⟨f1, f2⟩
    · exact Or.inl ⟨z, hz, e1.trans f1, e2.trans f2⟩
    · exact Or.inr ⟨f1, e1.trans f2⟩
  · exact Or.inr ⟨Nat.le_trans hc e1, e2⟩

theorem BoxKeep.of_eq {w w' : Worker} (h : w'.boxes = w.boxes) : BoxKeep w w' :=
  fun _ b' hb => Or.inl ⟨b', h ▸ hb, rfl, rfl⟩

/-- removing mailboxes -/
theorem BoxKeep.filter (w w' : Worker) (q : Nat → Bool) (h : w'.boxes = w.boxes.filter (fun p => q p.1)) :
    BoxKeep w w' := by
  intro k b' hb
  rw [h] at hb
  exact Or.inl ⟨b', (boxGet_filter_some _ _ _ _ hb).1, rfl, rfl⟩

theorem BoxKeep.set (w w' : Worker) (m : Nat) (b nb : Box) (hb : boxGet w.boxes m = some b)
    (h : w'.boxes = boxSet w.boxes m nb) (hn : nb.num = b.num) (he : nb.expected = b.expected) :
    BoxKeep w w' := by
  intro k b' hk
  rw [h] at hk
  rcases boxGet_boxSet_cases _ _ _ _ _ hk with ⟨rfl, rfl⟩ | ⟨_, hk'⟩
  · exact Or.inl ⟨b, hb, hn, he⟩
  · exact Or.inl ⟨b', hk', rfl, rfl⟩

theorem pick_boxes (fuel : Nat) (w : Worker) : (Worker.pick fuel w).w.boxes = w.boxes := by
  induction fuel generalizing w with
  | zero => rfl
  | succ n ih =>
    simp only [Worker.pick]
    split
    · split
      · rw [ih]; rfl
      · rfl
    · split
      · rw [ih]
      · split
        · rw [ih]
        · split
          · rw [ih]
          · rfl

theorem desiredResult_keep (w w' : Worker) (t t' : Task) (v : Option Val)
    (h : desiredResult w t = .ok (w', t', v)) : BoxKeep w w' := by
  unfold desiredResult at h
  split at h
  · simp only [Except.ok.injEq, Prod.mk.injEq] at h; rw [← h.1]; exact BoxKeep.refl w
  · split at h
    · simp at h
    · rename_i m _ _ b hb
      split at h
      · split at h
        · simp at h
        · simp only [Except.ok.injEq, Prod.mk.injEq] at h
          rw [← h.1]
          exact BoxKeep.set w _ m b _ hb rfl rfl rfl
      · split at h
        · simp at h
        · split at h
          · simp at h
          · simp only [Except.ok.injEq, Prod.mk.injEq] at h
            rw [← h.1]
            exact BoxKeep.filter w _ (fun x => x != m) rfl

theorem runBody_keep (tbl : Table) (fuel : Nat) (r : Run) (w0 : Worker) (hk : BoxKeep w0 r.w)
    (hc : w0.counter ≤ r.w.counter) (hf : Fresh r.w) :
    BoxKeep w0 (runBody tbl fuel r).1.w := by
  induction fuel generalizing r with
  | zero => exact hk
  | succ n ih =>
    have hnew : ∀ (nb : Box), nb.num = 0 →
        BoxKeep w0 { r.w with counter := r.w.counter + 1, boxes := r.w.boxes ++ [(r.w.counter, nb)] } := by
      intro nb hz k b' hb
      have hb' : boxGet (r.w.boxes ++ [(r.w.counter, nb)]) k = some b' := hb
      rw [boxGet_append] at hb'
      cases hg : boxGet r.w.boxes k with
      | some b => rw [hg] at hb'; exact hk k b' (by rw [hg, ← Option.some.inj hb'])
      | none =>
        rw [hg] at hb'
        by_cases e : r.w.counter = k
        · simp only [e, if_true, Option.some.injEq] at hb'
          exact Or.inr ⟨e ▸ hc, hb' ▸ hz⟩
        · simp [e] at hb'
    simp only [runBody]
    split
    · exact ih _ (hnew _ rfl) (Nat.le_succ_of_le hc) ((newBox_mono r.w _).fresh hf)
    · split
      · exact hk
      · exact ih _ (hnew _ rfl) (Nat.le_succ_of_le hc) ((newBox_mono r.w _).fresh hf)
    · split <;> exact hk
    · split
      · exact hk
      · split <;> exact hk
    · split
      · exact hk
      · split
        · exact hk
        · split
          · exact hk
          · rename_i k _ _ m _ _ b _ _
            refine ih _ ?_ hc ?_
            · exact BoxKeep.trans hk (BoxKeep.filter r.w _ (fun x => x != m) rfl) hc
            · exact (cancelBox_mono { w := r.w, t := r.t, out := r.out, evs := r.evs ++ [Ev.cancel r.t.tag k] } m b).fresh hf
    · exact hk
    · exact hk

theorem deposit_counts (b : Box) (s : Nat) (v : Val) :
    (b.deposit s v).num = b.num + 1 ∧ (b.deposit s v).expected = b.expected := ⟨rfl, rfl⟩

/-- `_handle_result`: one mailbox gets one more result, nothing else changes -/
theorem handleResult_boxes (w : Worker) (a : Addr) (v : Val) :
    ∀ k b', boxGet (w.handleResult a v).boxes k = some b' →
      ∃ b, boxGet w.boxes k = some b ∧ b'.expected = b.expected ∧
        (b'.num = b.num ∨ (k = a.m ∧ a.w = w.id ∧ b'.num = b.num + 1)) := by
  intro k b' hk
  unfold Worker.handleResult at hk
  split at hk
  · exact ⟨b', hk, rfl, Or.inl rfl⟩
  · rename_i hid
    have hid' : a.w = w.id := by simpa using hid
    split at hk
    · exact ⟨b', hk, rfl, Or.inl rfl⟩
    · rename_i b hb
      have key : ∀ (nb : Box), nb.num = b.num + 1 → nb.expected = b.expected →
          boxGet (boxSet w.boxes a.m nb) k = some b' →
          ∃ b0, boxGet w.boxes k = some b0 ∧ b'.expected = b0.expected ∧
            (b'.num = b0.num ∨ (k = a.m ∧ a.w = w.id ∧ b'.num = b0.num + 1)) := by
        intro nb h1 h2 hk'
        rcases boxGet_boxSet_cases _ _ _ _ _ hk' with ⟨rfl, rfl⟩ | ⟨_, hk''⟩
        · exact ⟨b, hb, h2, Or.inr ⟨rfl, hid', h1⟩⟩
        · exact ⟨b', hk'', rfl, Or.inl rfl⟩
      dsimp only at hk
      split at hk
      · exact key (b.deposit a.s v) rfl rfl hk
      · split at hk
        · exact key (b.deposit a.s v) rfl rfl hk
        · split at hk
          · exact key { (b.deposit a.s v) with dest := none } rfl rfl hk
          · exact key (b.deposit a.s v) rfl rfl hk

theorem recv_boxes (w : Worker) (msg : Msg) :
    ∀ k b', boxGet (w.recv msg).boxes k = some b' →
      ∃ b, boxGet w.boxes k = some b ∧ b'.expected = b.expected ∧
        (b'.num = b.num ∨ (∃ a v by_, msg = .result a v by_ ∧ k = a.m ∧ a.w = w.id ∧ b'.num = b.num + 1)) := by
  intro k b' hk
  have same : boxGet w.boxes k = some b' →
      ∃ b, boxGet w.boxes k = some b ∧ b'.expected = b.expected ∧
        (b'.num = b.num ∨ (∃ a v by_, msg = .result a v by_ ∧ k = a.m ∧ a.w = w.id ∧ b'.num = b.num + 1)) :=
    fun h => ⟨b', h, rfl, Or.inl rfl⟩
  cases msg with
  | result a v by_ =>
    obtain ⟨b, h1, h2, h3⟩ := handleResult_boxes w a v k b' hk
    refine ⟨b, h1, h2, ?_⟩
    rcases h3 with h3 | h3
    · exact Or.inl h3
    · exact Or.inr ⟨a, v, by_, rfl, h3⟩
  | cancel a =>
    simp only [Worker.recv] at hk
    have hk' : boxGet (eraseBoxes w.boxes ((w.tasks.filter (·.descOf a)).map (·.owned)).flatten) k = some b' := by
      split at hk <;> exact hk
    exact same (boxGet_eraseBoxes_some _ _ _ _ hk').1
  | submit t => exact same hk
  | batch ts =>
    simp only [Worker.recv] at hk
    split at hk <;> exact same hk
  | shutdown => exact same hk
  | eof => exact same hk
  | error _ _ => exact same hk
  | sysError _ => exact same hk
  | waiting _ _ => exact same hk
  | update _ => exact same hk
  | cSubmit _ _ => exact same hk
  | cRequest _ => exact same hk
  | cStatus _ => exact same hk
  | cCancel _ => exact same hk
  | cDisconnect => exact same hk
  | sResult _ => exact same hk
  | sStatus _ => exact same hk
  | sCancelAck => exact same hk
  | sError _ => exact same hk

theorem completionLoop_keep (ms : List Nat) (r : Run) : BoxKeep r.w (completionLoop ms r).1.w := by
  induction ms generalizing r with
  | nil => exact BoxKeep.refl _
  | cons m ms ih =>
    simp only [completionLoop]
    split
    · split
      · exact BoxKeep.trans (BoxKeep.filter r.w _ (fun x => x != m) rfl) (ih _) (Nat.le_refl _)
      · exact BoxKeep.trans (BoxKeep.filter r.w (r.cancelBox m _).w (fun x => x != m) rfl) (ih _) (Nat.le_refl _)
    · exact BoxKeep.refl _

theorem completionLoop_counter (ms : List Nat) (r : Run) : (completionLoop ms r).1.w.counter = r.w.counter := by
  induction ms generalizing r with
  | nil => rfl
  | cons m ms ih =>
    simp only [completionLoop]
    split
    · split
      · rw [ih]
      · rw [ih]; rfl
    · rfl

theorem noTokP_outP (a : Addr) (id : Int) (c0 : Nat) (hcr : ¬ (id = a.w ∧ c0 ≤ a.m)) :
    OutP (fun msg => tokMsg a msg = 0) id c0 none where
  sub := by
    intro t _ h1 h2
    simp only [tokMsg]
    split
    · rename_i e; exact absurd ⟨by rw [← e]; exact h1.symm, by rw [← e]; exact h2⟩ hcr
    · rfl
  batch := by
    intro ts hts
    simp only [tokMsg]
    apply sumBy_zero
    intro t ht
    split
    · rename_i e
      exact absurd ⟨by rw [← e]; exact (hts t ht).2.1.symm, by rw [← e]; exact (hts t ht).2.2⟩ hcr
    · rfl
  cancel := by intro _; rfl
  waiting := by intro _ _; rfl
  error := by intro _ _; rfl
  sysError := by intro _; rfl
  update := by intro _; rfl
  result := by intro _ _ _ h; cases h

/-- what a loop iteration does to the mailboxes: kept, new and empty, or - a local return of
    the task `a0` - one more result in the mailbox of `a0`, whose token is gone afterwards -/
def BoxStep (w w' : Worker) (out : List Msg) : Prop :=
  ∀ k b', boxGet w'.boxes k = some b' →
    (∃ b, boxGet w.boxes k = some b ∧ b'.num = b.num ∧ b'.expected = b.expected)
    ∨ (w.counter ≤ k ∧ b'.num = 0)
    ∨ (∃ b a0, boxGet w.boxes k = some b ∧ b'.num = b.num + 1 ∧ b'.expected = b.expected ∧ k = a0.m
        ∧ a0.w = w.id ∧ 0 < tokW a0 w ∧ tokW a0 w' + tokMsgs a0 out = 0)

theorem BoxStep.of_keep {w w' : Worker} {out : List Msg} (h : BoxKeep w w') : BoxStep w w' out := by
  intro k b' hb
  rcases h k b' hb with h1 | h1
  · exact Or.inl h1
  · exact Or.inr (Or.inl h1)

theorem tokMsgs_zero_of (a : Addr) (l : List Msg) (h : ∀ msg ∈ l, tokMsg a msg = 0) : tokMsgs a l = 0 :=
  sumBy_zero _ _ h

theorem handleResult_counter (w : Worker) (a : Addr) (v : Val) : (w.handleResult a v).counter = w.counter := by
  unfold Worker.handleResult
  split
  · rfl
  · split
    · rfl
    · dsimp only
      split
      · rfl
      · split
        · rfl
        · split <;> rfl

theorem completionEnter_local (r : Run) (v : Val) (h : r.t.addr.w = r.w.id) :
    (completionEnter r v).w.boxes = (r.w.handleResult r.t.addr v).boxes
    ∧ (completionEnter r v).w.tasks = taskErase r.w.tasks r.t.addr
    ∧ (completionEnter r v).w.delayed = r.w.delayed
    ∧ (completionEnter r v).w.counter = r.w.counter
    ∧ (completionEnter r v).out = r.out ++ [Msg.update (-1)] := by
  obtain ⟨t1, t2⟩ := handleResult_tables r.w r.t.addr v
  unfold completionEnter
  rw [if_pos h]
  exact ⟨rfl, by show taskErase (r.w.handleResult r.t.addr v).tasks _ = _; rw [t1], t2,
    handleResult_counter _ _ _, rfl⟩

theorem completionEnter_remote (r : Run) (v : Val) (h : ¬ r.t.addr.w = r.w.id) :
    (completionEnter r v).w.boxes = r.w.boxes ∧ (completionEnter r v).w.counter = r.w.counter := by
  unfold completionEnter
  rw [if_neg h]
  exact ⟨rfl, rfl⟩

/-- `_process_task_completion` -/
theorem processCompletion_boxstep (r : Run) (v : Val) (w : Worker) (K2 : BoxKeep w r.w)
    (hctr : w.counter ≤ r.w.counter) (hidr : r.w.id = w.id) (hpos : 0 < tokW r.t.addr w)
    (hd0 : cntA r.t.addr r.w.delayed = 0)
    (hcr : ¬ (w.id = r.t.addr.w ∧ w.counter ≤ r.t.addr.m))
    (hbo : ∀ msg ∈ r.out, tokMsg r.t.addr msg = 0) :
    BoxStep w (processCompletion r v).1.w (processCompletion r v).1.out := by
  unfold processCompletion
  split
  · exact BoxStep.of_keep K2
  · have L := completionLoop_keep r.t.owned (completionEnter r v)
    have Lc := completionLoop_counter r.t.owned (completionEnter r v)
    obtain ⟨l1, l2, _⟩ := completionLoop_fixed r.t.owned (completionEnter r v)
    by_cases hloc : r.t.addr.w = r.w.id
    · obtain ⟨c1, c2, c3, c4, c5⟩ := completionEnter_local r v hloc
      have hlo := completionLoop_outP (noTokP_outP r.t.addr w.id w.counter hcr) r.t.owned (completionEnter r v)
        (by rw [c5]; exact outP_append hbo _ rfl)
      intro k b' hb
      rcases L k b' hb with ⟨bE, hbE, e1, e2⟩ | ⟨e1, e2⟩
      · rw [c1] at hbE
        obtain ⟨b1, hb1, f1, f2⟩ := handleResult_boxes r.w r.t.addr v k bE hbE
        rcases K2 k b1 hb1 with ⟨b0, hb0, g1, g2⟩ | ⟨g1, g2⟩
        · rcases f2 with f2 | ⟨f2, f3, f4⟩
          · exact Or.inl ⟨b0, hb0, by rw [e1, f2, g1], by rw [e2, f1, g2]⟩
          · right; right
            refine ⟨b0, r.t.addr, hb0, by rw [e1, f4, g1], by rw [e2, f1, g2], f2, by rw [f3, hidr], hpos, ?_⟩
            have ht : cntA r.t.addr (completionLoop r.t.owned (completionEnter r v)).1.w.tasks = 0 := by
              rw [l1, c2]; exact cntA_taskErase_self _ _
            have hdl : cntA r.t.addr (completionLoop r.t.owned (completionEnter r v)).1.w.delayed = 0 := by
              rw [l2, c3]; exact hd0
            have hz := tokMsgs_zero_of r.t.addr _ hlo
            simp only [tokW]
            omega
        · rcases f2 with f2 | ⟨f2, f3, f4⟩
          · exact Or.inr (Or.inl ⟨g1, by rw [e1, f2, g2]⟩)
          · exfalso
            apply hcr
            exact ⟨by rw [f3, hidr], by rw [← f2]; exact g1⟩
      · rw [c4] at e1
        exact Or.inr (Or.inl ⟨Nat.le_trans hctr e1, e2⟩)
    · obtain ⟨c1, c4⟩ := completionEnter_remote r v hloc
      apply BoxStep.of_keep
      exact BoxKeep.trans K2 (BoxKeep.trans (BoxKeep.of_eq c1) L (Nat.le_of_eq c4.symm)) hctr

theorem stepTask_boxstep (tbl : Table) (w : Worker) (out : List Msg) (t0 : Task) (hf : Fresh w)
    (hmem : taskGet w.tasks t0.addr = some t0) (hd0 : cntA t0.addr w.delayed = 0)
    (hcr : ¬ (w.id = t0.addr.w ∧ w.counter ≤ t0.addr.m))
    (hout : ∀ msg ∈ out, tokMsg t0.addr msg = 0) :
    BoxStep w (stepTask tbl w out t0).w (stepTask tbl w out t0).out := by
  have hpos : 0 < tokW t0.addr w := by
    have := cntA_pos_of_mem _ _ (taskGet_mem _ _ _ hmem)
    simp only [tokW]; omega
  unfold stepTask
  split
  · exact BoxStep.of_keep (BoxKeep.refl w)
  · rename_i w1 t1 val hd
    have K1 := desiredResult_keep w w1 t0 t1 val hd
    have M1 := desiredResult_mono w w1 t0 t1 val hd
    obtain ⟨er, ea, eid⟩ := desiredResult_fixed w w1 t0 t1 val hd
    obtain ⟨et, edl⟩ := desiredResult_tables w w1 t0 t1 val hd
    split
    · apply BoxStep.of_keep
      simp only [bubbleErr]
      split <;> exact K1
    · have hfix := runBody_fixed tbl ((tbl.getD t1.prog []).length + 2)
        { w := w1, t := (resume tbl t1 val).1, out := out, evs := (resume tbl t1 val).2 }
      have K2 := runBody_keep tbl ((tbl.getD t1.prog []).length + 2)
        { w := w1, t := (resume tbl t1 val).1, out := out, evs := (resume tbl t1 val).2 } w K1 M1.ctr
        (M1.fresh hf)
      have M2 := runBody_mono tbl ((tbl.getD t1.prog []).length + 2)
        { w := w1, t := (resume tbl t1 val).1, out := out, evs := (resume tbl t1 val).2 }
      have hP : OutP (fun msg => tokMsg t0.addr msg = 0)
          ({ w := w1, t := (resume tbl t1 val).1, out := out, evs := (resume tbl t1 val).2 } : Run).w.id
          w.counter none := by
        show OutP _ w1.id w.counter none
        rw [eid]; exact noTokP_outP t0.addr w.id w.counter hcr
      have hbo := runBody_outP tbl ((tbl.getD t1.prog []).length + 2)
        { w := w1, t := (resume tbl t1 val).1, out := out, evs := (resume tbl t1 val).2 } hP M1.ctr hout
      have haddr : (runBody tbl ((tbl.getD t1.prog []).length + 2)
        { w := w1, t := (resume tbl t1 val).1, out := out, evs := (resume tbl t1 val).2 }).1.t.addr = t0.addr := by
        rw [hfix.2.2.2.1]; exact (resume_fields tbl t1 val).1.trans ea
      have hdl : (runBody tbl ((tbl.getD t1.prog []).length + 2)
        { w := w1, t := (resume tbl t1 val).1, out := out, evs := (resume tbl t1 val).2 }).1.w.delayed = w.delayed := by
        rw [hfix.2.1]; exact edl
      have hidr : (runBody tbl ((tbl.getD t1.prog []).length + 2)
        { w := w1, t := (resume tbl t1 val).1, out := out, evs := (resume tbl t1 val).2 }).1.w.id = w.id := by
        rw [hfix.2.2.2.2]; exact eid
      have hctr : w.counter ≤ (runBody tbl ((tbl.getD t1.prog []).length + 2)
        { w := w1, t := (resume tbl t1 val).1, out := out, evs := (resume tbl t1 val).2 }).1.w.counter :=
        Nat.le_trans M1.ctr M2.ctr
      generalize (runBody tbl ((tbl.getD t1.prog []).length + 2)
        { w := w1, t := (resume tbl t1 val).1, out := out, evs := (resume tbl t1 val).2 }) = rb
        at K2 hbo haddr hdl hidr hctr
      dsimp only
      cases hoc : rb.2 with
      | awaitF m nxt =>
        apply BoxStep.of_keep
        simp only [finishStep]
        split
        · rename_i r1 h1
          refine BoxKeep.trans K2 ?_ hctr
          unfold processAwait at h1
          split at h1
          · simp at h1
          · rename_i b hb
            simp only [Option.some.injEq] at h1
            rw [← h1]
            dsimp only
            split
            · exact BoxKeep.set rb.1.w _ m b _ hb rfl rfl rfl
            · exact BoxKeep.set rb.1.w _ m b _ hb rfl rfl rfl
        · split <;> exact K2
      | err cls isRt =>
        apply BoxStep.of_keep
        simp only [finishStep, bubbleErr]
        split <;> exact K2
      | done v =>
        have key := processCompletion_boxstep rb.1 v w K2 hctr hidr (by rw [haddr]; exact hpos)
          (by rw [haddr, hdl]; exact hd0) (by rw [haddr]; exact hcr) (by rw [haddr]; exact hbo)
        simp only [finishStep]
        split
        · intro k b' hb
          rcases key k b' hb with h1 | h1 | ⟨b, a0, h1, h2, h3, h4, h5, h6, h7⟩
          · exact Or.inl h1
          · exact Or.inr (Or.inl h1)
          · refine Or.inr (Or.inr ⟨b, a0, h1, h2, h3, h4, h5, h6, ?_⟩)
            simp only [tokMsgs, sumBy_append, sumBy, tokMsg, tokW] at h7 ⊢
            omega
        · exact key

/-- one iteration of the main loop -/
theorem step_boxstep (tbl : Table) (w : Worker) (hf : Fresh w)
    (hu : ∀ b, cntA b w.tasks + cntA b w.delayed ≤ 1)
    (hcr : ∀ a, 0 < tokW a w → ¬ (w.id = a.w ∧ w.counter ≤ a.m)) :
    BoxStep w (w.step tbl).w (w.step tbl).out := by
  have hb := pick_boxes w.pickFuel { w with blocked := false }
  have hm := pick_mono w.pickFuel { w with blocked := false }
  have hrs := pick_rs w.pickFuel { w with blocked := false }
  unfold Worker.step
  dsimp only
  split
  · exact BoxStep.of_keep (BoxKeep.of_eq hb)
  · rename_i t0 ht0
    have hmem := pick_task_mem _ _ _ ht0
    have hpos1 : 0 < cntA t0.addr (Worker.pick w.pickFuel { w with blocked := false }).w.tasks :=
      cntA_pos_of_mem _ _ (taskGet_mem _ _ _ hmem)
    have htok := hrs.tok t0.addr
    have hu0 := hu t0.addr
    have hposw : 0 < tokW t0.addr w := by
      simp only [tokW] at htok ⊢
      omega
    have hd0 : cntA t0.addr (Worker.pick w.pickFuel { w with blocked := false }).w.delayed = 0 := by
      simp only [tokW] at htok
      omega
    have hcr0 := hcr t0.addr hposw
    have hfp : Fresh (Worker.pick w.pickFuel { w with blocked := false }).w := by
      intro k hk
      have : k ∈ keys w.boxes := by rw [← show ({ w with blocked := false } : Worker).boxes = w.boxes from rfl, ← hb]; exact hk
      exact Nat.lt_of_lt_of_le (hf k this) hm.ctr
    have key := stepTask_boxstep tbl (Worker.pick w.pickFuel { w with blocked := false }).w
      (Worker.pick w.pickFuel { w with blocked := false }).out t0 hfp hmem hd0
      (by intro hc; apply hcr0; exact ⟨by rw [← hm.id]; exact hc.1, Nat.le_trans hm.ctr hc.2⟩)
      (pick_outP (noTokP_outP t0.addr w.id w.counter hcr0) _ _)
    intro k b' hk
    rcases key k b' hk with ⟨b, h1, h2, h3⟩ | ⟨h1, h2⟩ | ⟨b, a0, h1, h2, h3, h4, h5, h6, h7⟩
    · exact Or.inl ⟨b, by rw [hb] at h1; exact h1, h2, h3⟩
    · exact Or.inr (Or.inl ⟨Nat.le_trans hm.ctr h1, h2⟩)
    · refine Or.inr (Or.inr ⟨b, a0, by rw [hb] at h1; exact h1, h2, h3, h4, by rw [h5]; exact hm.id, ?_, h7⟩)
      exact Nat.lt_of_lt_of_le h6 (hrs.tok a0)

-- ------------------------------------------------------- slots of created tokens
def Msg.tasks : Msg → List Task
  | .submit t => [t]
  | .batch ts => ts
  | _ => []

/-- every mailbox of `w'` is a mailbox of `w` with the same `expected_num_results` -/
def ExpKeep (w w' : Worker) : Prop :=
  ∀ k b', boxGet w'.boxes k = some b' → ∃ b, boxGet w.boxes k = some b ∧ b'.expected = b.expected

theorem ExpKeep.refl (w : Worker) : ExpKeep w w := fun _ b' h => ⟨b', h, rfl⟩

theorem ExpKeep.trans {a b c : Worker} (h1 : ExpKeep a b) (h2 : ExpKeep b c) : ExpKeep a c := by
  intro k x hx
  obtain ⟨y, hy, e⟩ := h2 k x hx
  obtain ⟨z, hz, f⟩ := h1 k y hy
  exact ⟨z, hz, e.trans f⟩

theorem ExpKeep.of_eq {w w' : Worker} (h : w'.boxes = w.boxes) : ExpKeep w w' :=
  fun _ b' hb => ⟨b', h ▸ hb, rfl⟩

theorem ExpKeep.filter (w w' : Worker) (q : Nat → Bool) (h : w'.boxes = w.boxes.filter (fun p => q p.1)) :
    ExpKeep w w' := by
  intro k b' hb
  rw [h] at hb
  exact ⟨b', (boxGet_filter_some _ _ _ _ hb).1, rfl⟩

theorem ExpKeep.set (w w' : Worker) (m : Nat) (b nb : Box) (hb : boxGet w.boxes m = some b)
    (h : w'.boxes = boxSet w.boxes m nb) (he : nb.expected = b.expected) : ExpKeep w w' := by
  intro k b' hk
  rw [h] at hk
  rcases boxGet_boxSet_cases _ _ _ _ _ hk with ⟨rfl, rfl⟩ | ⟨_, hk'⟩
  · exact ⟨b, hb, he⟩
  · exact ⟨b', hk', rfl⟩

theorem completionLoop_expkeep (ms : List Nat) (r : Run) : ExpKeep r.w (completionLoop ms r).1.w := by
  induction ms generalizing r with
  | nil => exact ExpKeep.refl _
  | cons m ms ih =>
    simp only [completionLoop]
    split
    · split
      · exact (ExpKeep.filter r.w _ (fun x => x != m) rfl).trans (ih _)
      · exact (ExpKeep.filter r.w (r.cancelBox m _).w (fun x => x != m) rfl).trans (ih _)
    · exact ExpKeep.refl _

theorem finishStep_expkeep (r : Run) (oc : Outcome) : ExpKeep r.w (finishStep r oc).w := by
  cases oc with
  | awaitF m nxt =>
    simp only [finishStep]
    split
    · rename_i r1 h1
      unfold processAwait at h1
      split at h1
      · simp at h1
      · rename_i b hb
        simp only [Option.some.injEq] at h1
        rw [← h1]
        dsimp only
        split
        · exact ExpKeep.set r.w _ m b _ hb rfl rfl
        · exact ExpKeep.set r.w _ m b _ hb rfl rfl
    · split <;> exact ExpKeep.refl _
  | err cls isRt =>
    simp only [finishStep, bubbleErr]
    split <;> exact ExpKeep.refl _
  | done v =>
    have key : ExpKeep r.w (processCompletion r v).1.w := by
      unfold processCompletion
      split
      · exact ExpKeep.refl _
      · refine ExpKeep.trans ?_ (completionLoop_expkeep _ _)
        by_cases hloc : r.t.addr.w = r.w.id
        · obtain ⟨c1, _⟩ := completionEnter_local r v hloc
          intro k b' hk
          rw [c1] at hk
          obtain ⟨b, h1, h2, _⟩ := handleResult_boxes r.w r.t.addr v k b' hk
          exact ⟨b, h1, h2⟩
        · exact ExpKeep.of_eq (completionEnter_remote r v hloc).1
    simp only [finishStep]
    split
    · exact key.trans (ExpKeep.of_eq rfl)
    · exact key

/-- tasks in the output were created below the counter, for a slot of their mailbox -/
def SJ (r : Run) : Prop :=
  ∀ msg ∈ r.out, ∀ t ∈ msg.tasks, t.addr.m < r.w.counter ∧
    ∀ b, boxGet r.w.boxes t.addr.m = some b → t.addr.s < b.expected

theorem mem_enumFrom {α} (j : Nat) (l : List α) (p : Nat × α) (h : p ∈ enumFrom j l) :
    j ≤ p.1 ∧ p.1 < j + l.length := by
  induction l generalizing j with
  | nil => simp [enumFrom] at h
  | cons x xs ih =>
    simp only [enumFrom, List.mem_cons] at h
    rcases h with rfl | h
    · simp
    · have := ih (j + 1) h
      simp only [List.length_cons]
      omega

theorem runBody_sj (tbl : Table) (fuel : Nat) (r : Run) (hf : Fresh r.w) (h : SJ r) :
    SJ (runBody tbl fuel r).1 := by
  induction fuel generalizing r with
  | zero => exact h
  | succ n ih =>
    have hnone : boxGet r.w.boxes r.w.counter = none := by
      rw [boxGet_none_iff]
      intro hk
      exact Nat.lt_irrefl _ (hf _ hk)
    -- a new mailbox with `e` expected results and a message whose tasks use slots below `e`
    have hnew : ∀ (nb : Box) (msg : Msg) (t' : Task) (ev : List Ev),
        (∀ t ∈ msg.tasks, t.addr.m = r.w.counter ∧ t.addr.s < nb.expected) →
        SJ { w := { r.w with counter := r.w.counter + 1, boxes := r.w.boxes ++ [(r.w.counter, nb)] },
             t := t', out := r.out ++ [msg], evs := ev } := by
      intro nb msg t' ev hmsg x hx t ht
      rcases List.mem_append.1 hx with hx | hx
      · obtain ⟨h1, h2⟩ := h x hx t ht
        refine ⟨Nat.lt_succ_of_lt h1, ?_⟩
        intro b hb
        have hb' : boxGet (r.w.boxes ++ [(r.w.counter, nb)]) t.addr.m = some b := hb
        rw [boxGet_append] at hb'
        cases hg : boxGet r.w.boxes t.addr.m with
        | some b0 => rw [hg] at hb'; exact h2 b (by rw [hg, ← Option.some.inj hb'])
        | none =>
          rw [hg] at hb'
          have : r.w.counter ≠ t.addr.m := fun e => Nat.lt_irrefl _ (e ▸ h1)
          simp [this] at hb'
      · simp only [List.mem_singleton] at hx
        subst hx
        obtain ⟨e1, e2⟩ := hmsg t ht
        refine ⟨by show t.addr.m < r.w.counter + 1; omega, ?_⟩
        intro b hb
        have hb' : boxGet (r.w.boxes ++ [(r.w.counter, nb)]) t.addr.m = some b := hb
        rw [boxGet_append, e1, hnone] at hb'
        simp only [if_true, Option.some.injEq] at hb'
        rw [← hb']; exact e2
    simp only [runBody]
    split
    · refine ih _ ((newBox_mono r.w _).fresh hf) (hnew (Box.new none) _ _ _ ?_)
      intro t ht
      simp only [Msg.tasks, List.mem_singleton] at ht
      subst ht
      exact ⟨rfl, Nat.lt_succ_self 0⟩
    · split
      · exact h
      · rename_i ps _ _
        refine ih _ ((newBox_mono r.w _).fresh hf) (hnew (Box.new (some ps.length)) _ _ _ ?_)
        intro t ht
        simp only [Msg.tasks, List.mem_map] at ht
        obtain ⟨ip, hip, rfl⟩ := ht
        have := mem_enumFrom 0 ps ip hip
        exact ⟨rfl, by show ip.1 < ps.length; omega⟩
    · split <;> exact h
    · split
      · exact h
      · split <;> exact h
    · split
      · exact h
      · split
        · exact h
        · split
          · exact h
          · rename_i k _ _ m _ _ b _ _
            refine ih _ ((cancelBox_mono { w := r.w, t := r.t, out := r.out, evs := r.evs ++ [Ev.cancel r.t.tag k] } m b).fresh hf) ?_
            intro x hx t ht
            have hx' : x ∈ r.out ++ (List.range b.expected).map (fun i => Msg.cancel ⟨r.w.id, m, i⟩) := hx
            rcases List.mem_append.1 hx' with hx' | hx'
            · obtain ⟨h1, h2⟩ := h x hx' t ht
              refine ⟨h1, ?_⟩
              intro b2 hb2
              exact h2 b2 (boxGet_boxErase_some _ _ _ _ hb2).1
            · obtain ⟨i, _, rfl⟩ := List.mem_map.1 hx'
              cases ht
    · exact h
    · exact h

theorem cancelBox_out_sub (r : Run) (m : Nat) (b : Box) :
    ∀ msg ∈ (r.cancelBox m b).out, msg ∈ r.out ∨ msg.tasks = [] := by
  intro msg hm
  simp only [Run.cancelBox, List.mem_append, List.mem_map] at hm
  rcases hm with hm | ⟨i, _, rfl⟩
  · exact Or.inl hm
  · exact Or.inr rfl

theorem completionLoop_out_sub (ms : List Nat) (r : Run) :
    ∀ msg ∈ (completionLoop ms r).1.out, msg ∈ r.out ∨ msg.tasks = [] := by
  induction ms generalizing r with
  | nil => intro msg h; exact Or.inl h
  | cons m ms ih =>
    simp only [completionLoop]
    split
    · split
      · exact ih _
      · intro msg hm
        rcases ih _ msg hm with h | h
        · exact cancelBox_out_sub r m _ msg h
        · exact Or.inr h
    · intro msg h; exact Or.inl h

theorem finishStep_out_sub (r : Run) (oc : Outcome) :
    ∀ msg ∈ (finishStep r oc).out, msg ∈ r.out ∨ msg.tasks = [] := by
  have app : ∀ (l : List Msg) (x : Msg), x.tasks = [] → (∀ msg ∈ l, msg ∈ r.out ∨ msg.tasks = []) →
      ∀ msg ∈ l ++ [x], msg ∈ r.out ∨ msg.tasks = [] := by
    intro l x hx hl msg hm
    rcases List.mem_append.1 hm with hm | hm
    · exact hl msg hm
    · simp only [List.mem_singleton] at hm; subst hm; exact Or.inr hx
  have base : ∀ msg ∈ r.out, msg ∈ r.out ∨ msg.tasks = [] := fun _ h => Or.inl h
  cases oc with
  | awaitF m nxt =>
    simp only [finishStep]
    split
    · rename_i r1 h1
      rw [(processAwait_tables r r1 m nxt h1).2.2.1]; exact base
    · split
      · exact base
      · exact app _ _ rfl base
  | err cls isRt =>
    simp only [finishStep, bubbleErr]
    split
    · exact base
    · exact app _ _ rfl base
  | done v =>
    have key : ∀ msg ∈ (processCompletion r v).1.out, msg ∈ r.out ∨ msg.tasks = [] := by
      unfold processCompletion
      split
      · exact base
      · intro msg hm
        rcases completionLoop_out_sub _ _ msg hm with h | h
        · revert h
          unfold completionEnter
          split
          · intro h; exact app _ _ rfl base msg h
          · intro h; exact app _ _ rfl base msg h
        · exact Or.inr h
    simp only [finishStep]
    split
    · exact app _ _ rfl key
    · exact key

theorem pick_out_notasks (fuel : Nat) (w : Worker) : ∀ msg ∈ (Worker.pick fuel w).out, msg.tasks = [] := by
  induction fuel generalizing w with
  | zero => intro msg h; simp [Worker.pick] at h
  | succ n ih =>
    simp only [Worker.pick]
    split
    · split
      · exact ih _
      · intro msg h
        simp only [List.mem_singleton] at h
        subst h; rfl
    · split
      · exact ih _
      · split
        · exact ih _
        · split
          · exact ih _
          · intro msg h; simp at h

theorem stepTask_slots (tbl : Table) (w : Worker) (out : List Msg) (t0 : Task) (hf : Fresh w)
    (hout : ∀ msg ∈ out, msg.tasks = []) :
    ∀ msg ∈ (stepTask tbl w out t0).out, ∀ t ∈ msg.tasks,
      ∀ b, boxGet (stepTask tbl w out t0).w.boxes t.addr.m = some b → t.addr.s < b.expected := by
  have none_of : ∀ (l : List Msg) (x : Msg), x.tasks = [] → (∀ msg ∈ l, msg.tasks = []) →
      ∀ msg ∈ l ++ [x], msg.tasks = [] := by
    intro l x hx hl msg hm
    rcases List.mem_append.1 hm with hm | hm
    · exact hl msg hm
    · simp only [List.mem_singleton] at hm; subst hm; exact hx
  unfold stepTask
  split
  · intro msg hm t ht
    rw [none_of _ _ rfl hout msg hm] at ht; cases ht
  · rename_i w1 t1 val hd
    have M1 := desiredResult_mono w w1 t0 t1 val hd
    split
    · simp only [bubbleErr]
      split
      · intro msg hm t ht
        rw [hout msg hm] at ht; cases ht
      · intro msg hm t ht
        rw [none_of _ _ rfl hout msg hm] at ht; cases ht
    · have h0 : SJ { w := w1, t := (resume tbl t1 val).1, out := out, evs := (resume tbl t1 val).2 } := by
        intro msg hm t ht
        rw [hout msg hm] at ht; cases ht
      have hsj := runBody_sj tbl ((tbl.getD t1.prog []).length + 2) _ (M1.fresh hf) h0
      generalize (runBody tbl ((tbl.getD t1.prog []).length + 2)
        { w := w1, t := (resume tbl t1 val).1, out := out, evs := (resume tbl t1 val).2 }) = rb at hsj
      dsimp only
      intro msg hm t ht b hb
      rcases finishStep_out_sub rb.1 rb.2 msg hm with h1 | h1
      · obtain ⟨b0, hb0, e⟩ := finishStep_expkeep rb.1 rb.2 _ b hb
        rw [e]
        exact (hsj msg h1 t ht).2 b0 hb0
      · rw [h1] at ht; cases ht

/-- tokens created by a loop iteration belong to slots of the mailbox created with them -/
theorem step_slots (tbl : Table) (w : Worker) (hf : Fresh w) :
    ∀ msg ∈ (w.step tbl).out, ∀ t ∈ msg.tasks,
      ∀ b, boxGet (w.step tbl).w.boxes t.addr.m = some b → t.addr.s < b.expected := by
  have hb := pick_boxes w.pickFuel { w with blocked := false }
  have hm := pick_mono w.pickFuel { w with blocked := false }
  unfold Worker.step
  dsimp only
  split
  · intro msg hmsg t ht
    rw [pick_out_notasks _ _ msg hmsg] at ht; cases ht
  · rename_i t0 ht0
    apply stepTask_slots
    · intro k hk
      have : k ∈ keys w.boxes := by
        rw [← show ({ w with blocked := false } : Worker).boxes = w.boxes from rfl, ← hb]; exact hk
      exact Nat.lt_of_lt_of_le (hf k this) hm.ctr
    · exact pick_out_notasks _ _

end BqVerif.Runtime
