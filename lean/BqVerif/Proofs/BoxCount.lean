import BqVerif.Proofs.WakeNet
/-!
# Deposits and outstanding tokens of a mailbox

Worker-level facts for the second environment assumption of the wake discipline: apart from
`_handle_result`, nothing changes `num_results` / `expected_num_results` of an existing mailbox;
new mailboxes start empty; tokens created by a loop iteration belong to slots of the mailbox
created with them.
-/
namespace BqVerif.Runtime

/-- mailboxes of `w'` are mailboxes of `w` with the same counters, or new and empty -/
def BoxKeep (w w' : Worker) : Prop :=
  ∀ k b', boxGet w'.boxes k = some b' →
    (∃ b, boxGet w.boxes k = some b ∧ b'.num = b.num ∧ b'.expected = b.expected)
    ∨ (w.counter ≤ k ∧ b'.num = 0)

theorem BoxKeep.refl (w : Worker) : BoxKeep w w := fun _ b' h => Or.inl ⟨b', h, rfl, rfl⟩

theorem BoxKeep.trans {a b c : Worker} (h1 : BoxKeep a b) (h2 : BoxKeep b c) (hc : a.counter ≤ b.counter) :
    BoxKeep a c := by
  intro k x hx
  rcases h2 k x hx with ⟨y, hy, e1, e2⟩ | ⟨e1, e2⟩
  · rcases h1 k y hy with ⟨z, hz, f1, f2⟩ | ⟨f1, f2⟩
    · exact Or.inl ⟨z, hz, e1.trans f1, e2.trans f2⟩
    · exact Or.inr ⟨f1, e1.trans f2⟩
  · exact Or.inr ⟨Nat.le_trans hc e1, e2⟩

theorem BoxKeep.of_eq {w w' : Worker} (h : w'.boxes = w.boxes) : BoxKeep w w' :=
  fun _ b' hb => Or.inl ⟨b', h ▸ hb, rfl, rfl⟩

/-- removing mailboxes -/
theorem BoxKeep.filter (w w' : Worker) (q : Nat → Bool) (h : w'.boxes = w.boxes.filter (fun p => q p.1)) :
    BoxKeep w w' := by
  intro k b' hb
  rw [h] at hb
  exact Or.inl ⟨b', (boxGet_filter_some _ _ _ _ hb).1, rfl, rfl⟩

theorem BoxKeep.set (w w' : Worker) (m : Nat) (b nb : Box) (hb : boxGet w.boxes m = some b)
    (h : w'.boxes = boxSet w.boxes m nb) (hn : nb.num = b.num) (he : nb.expected = b.expected) :
    BoxKeep w w' := by
  intro k b' hk
  rw [h] at hk
  rcases boxGet_boxSet_cases _ _ _ _ _ hk with ⟨rfl, rfl⟩ | ⟨_, hk'⟩
  · exact Or.inl ⟨b, hb, hn, he⟩
  · exact Or.inl ⟨b', hk', rfl, rfl⟩

theorem pick_boxes (fuel : Nat) (w : Worker) : (Worker.pick fuel w).w.boxes = w.boxes := by
  induction fuel generalizing w with
  | zero => rfl
  | succ n ih =>
    simp only [Worker.pick]
    split
    · split
      · rw [ih]; rfl
      · rfl
    · split
      · rw [ih]
      · split
        · rw [ih]
        · split
          · rw [ih]
          · rfl

theorem desiredResult_keep (w w' : Worker) (t t' : Task) (v : Option Val)
    (h : desiredResult w t = .ok (w', t', v)) : BoxKeep w w' := by
  unfold desiredResult at h
  split at h
  · simp only [Except.ok.injEq, Prod.mk.injEq] at h; rw [← h.1]; exact BoxKeep.refl w
  · split at h
    · simp at h
    · rename_i m _ _ b hb
      split at h
      · split at h
        · simp at h
        · simp only [Except.ok.injEq, Prod.mk.injEq] at h
          rw [← h.1]
          exact BoxKeep.set w _ m b _ hb rfl rfl rfl
      · split at h
        · simp at h
        · split at h
          · simp at h
          · simp only [Except.ok.injEq, Prod.mk.injEq] at h
            rw [← h.1]
            exact BoxKeep.filter w _ (fun x => x != m) rfl

theorem runBody_keep (tbl : Table) (fuel : Nat) (r : Run) (w0 : Worker) (hk : BoxKeep w0 r.w)
    (hc : w0.counter ≤ r.w.counter) (hf : Fresh r.w) :
    BoxKeep w0 (runBody tbl fuel r).1.w := by
  induction fuel generalizing r with
  | zero => exact hk
  | succ n ih =>
    have hnew : ∀ (nb : Box), nb.num = 0 →
        BoxKeep w0 { r.w with counter := r.w.counter + 1, boxes := r.w.boxes ++ [(r.w.counter, nb)] } := by
      intro nb hz k b' hb
      have hb' : boxGet (r.w.boxes ++ [(r.w.counter, nb)]) k = some b' := hb
      rw [boxGet_append] at hb'
      cases hg : boxGet r.w.boxes k with
      | some b => rw [hg] at hb'; exact hk k b' (by rw [hg, ← Option.some.inj hb'])
      | none =>
        rw [hg] at hb'
        by_cases e : r.w.counter = k
        · simp only [e, if_true, Option.some.injEq] at hb'
          exact Or.inr ⟨e ▸ hc, hb' ▸ hz⟩
        · simp [e] at hb'
    simp only [runBody]
    split
    · exact ih _ (hnew _ rfl) (Nat.le_succ_of_le hc) ((newBox_mono r.w _).fresh hf)
    · split
      · exact hk
      · exact ih _ (hnew _ rfl) (Nat.le_succ_of_le hc) ((newBox_mono r.w _).fresh hf)
    · split <;> exact hk
    · split
      · exact hk
      · split <;> exact hk
    · split
      · exact hk
      · split
        · exact hk
        · split
          · exact hk
          · rename_i k _ _ m _ _ b _ _
            refine ih _ ?_ hc ?_
            · exact BoxKeep.trans hk (BoxKeep.filter r.w _ (fun x => x != m) rfl) hc
            · exact (cancelBox_mono { w := r.w, t := r.t, out := r.out, evs := r.evs ++ [Ev.cancel r.t.tag k] } m b).fresh hf
    · exact hk
    · exact hk

theorem deposit_counts (b : Box) (s : Nat) (v : Val) :
    (b.deposit s v).num = b.num + 1 ∧ (b.deposit s v).expected = b.expected := ⟨rfl, rfl⟩

/-- `_handle_result`: one mailbox gets one more result, nothing else changes -/
theorem handleResult_boxes (w : Worker) (a : Addr) (v : Val) :
    ∀ k b', boxGet (w.handleResult a v).boxes k = some b' →
      ∃ b, boxGet w.boxes k = some b ∧ b'.expected = b.expected ∧
        (b'.num = b.num ∨ (k = a.m ∧ a.w = w.id ∧ b'.num = b.num + 1)) := by
  intro k b' hk
  unfold Worker.handleResult at hk
  split at hk
  · exact ⟨b', hk, rfl, Or.inl rfl⟩
  · rename_i hid
    have hid' : a.w = w.id := by simpa using hid
    split at hk
    · exact ⟨b', hk, rfl, Or.inl rfl⟩
    · rename_i b hb
      have key : ∀ (nb : Box), nb.num = b.num + 1 → nb.expected = b.expected →
          boxGet (boxSet w.boxes a.m nb) k = some b' →
          ∃ b0, boxGet w.boxes k = some b0 ∧ b'.expected = b0.expected ∧
            (b'.num = b0.num ∨ (k = a.m ∧ a.w = w.id ∧ b'.num = b0.num + 1)) := by
        intro nb h1 h2 hk'
        rcases boxGet_boxSet_cases _ _ _ _ _ hk' with ⟨rfl, rfl⟩ | ⟨_, hk''⟩
        · exact ⟨b, hb, h2, Or.inr ⟨rfl, hid', h1⟩⟩
        · exact ⟨b', hk'', rfl, Or.inl rfl⟩
      dsimp only at hk
      split at hk
      · exact key (b.deposit a.s v) rfl rfl hk
      · split at hk
        · exact key (b.deposit a.s v) rfl rfl hk
        · split at hk
          · exact key { (b.deposit a.s v) with dest := none } rfl rfl hk
          · exact key (b.deposit a.s v) rfl rfl hk

theorem recv_boxes (w : Worker) (msg : Msg) :
    ∀ k b', boxGet (w.recv msg).boxes k = some b' →
      ∃ b, boxGet w.boxes k = some b ∧ b'.expected = b.expected ∧
        (b'.num = b.num ∨ (∃ a v by_, msg = .result a v by_ ∧ k = a.m ∧ a.w = w.id ∧ b'.num = b.num + 1)) := by
  intro k b' hk
  have same : boxGet w.boxes k = some b' →
      ∃ b, boxGet w.boxes k = some b ∧ b'.expected = b.expected ∧
        (b'.num = b.num ∨ (∃ a v by_, msg = .result a v by_ ∧ k = a.m ∧ a.w = w.id ∧ b'.num = b.num + 1)) :=
    fun h => ⟨b', h, rfl, Or.inl rfl⟩
  cases msg with
  | result a v by_ =>
    obtain ⟨b, h1, h2, h3⟩ := handleResult_boxes w a v k b' hk
    refine ⟨b, h1, h2, ?_⟩
    rcases h3 with h3 | h3
    · exact Or.inl h3
    · exact Or.inr ⟨a, v, by_, rfl, h3⟩
  | cancel a =>
    simp only [Worker.recv] at hk
    have hk' : boxGet (eraseBoxes w.boxes ((w.tasks.filter (·.descOf a)).map (·.owned)).flatten) k = some b' := by
      split at hk <;> exact hk
    exact same (boxGet_eraseBoxes_some _ _ _ _ hk').1
  | submit t => exact same hk
  | batch ts =>
    simp only [Worker.recv] at hk
    split at hk <;> exact same hk
  | shutdown => exact same hk
  | eof => exact same hk
  | error _ _ => exact same hk
  | sysError _ => exact same hk
  | waiting _ _ => exact same hk
  | update _ => exact same hk
  | cSubmit _ _ => exact same hk
  | cRequest _ => exact same hk
  | cStatus _ => exact same hk
  | cCancel _ => exact same hk
  | cDisconnect => exact same hk
  | sResult _ => exact same hk
  | sStatus _ => exact same hk
  | sCancelAck => exact same hk
  | sError _ => exact same hk

theorem completionLoop_keep (ms : List Nat) (r : Run) : BoxKeep r.w (completionLoop ms r).1.w := by
  induction ms generalizing r with
  | nil => exact BoxKeep.refl _
  | cons m ms ih =>
    simp only [completionLoop]
    split
    · split
      · exact BoxKeep.trans (BoxKeep.filter r.w _ (fun x => x != m) rfl) (ih _) (Nat.le_refl _)
      · exact BoxKeep.trans (BoxKeep.filter r.w (r.cancelBox m _).w (fun x => x != m) rfl) (ih _) (Nat.le_refl _)
    · exact BoxKeep.refl _

theorem completionLoop_counter (ms : List Nat) (r : Run) : (completionLoop ms r).1.w.counter = r.w.counter := by
  induction ms generalizing r with
  | nil => rfl
  | cons m ms ih =>
    simp only [completionLoop]
    split
    · split
      · rw [ih]
      · rw [ih]; rfl
    · rfl

theorem noTokP_outP (a : Addr) (id : Int) (c0 : Nat) (hcr : ¬ (id = a.w ∧ c0 ≤ a.m)) :
    OutP (fun msg => tokMsg a msg = 0) id c0 none where
  sub := by
    intro t _ h1 h2
    simp only [tokMsg]
    split
    · rename_i e; exact absurd ⟨by rw [← e]; exact h1.symm, by rw [← e]; exact h2⟩ hcr
    · rfl
  batch := by
    intro ts hts
    simp only [tokMsg]
    apply sumBy_zero
    intro t ht
    split
    · rename_i e
      exact absurd ⟨by rw [← e]; exact (hts t ht).2.1.symm, by rw [← e]; exact (hts t ht).2.2⟩ hcr
    · rfl
  cancel := by intro _; rfl
  waiting := by intro _ _; rfl
  error := by intro _ _; rfl
  sysError := by intro _; rfl
  update := by intro _; rfl
  result := by intro _ _ _ h; cases h

/-- what a loop iteration does to the mailboxes: kept, new and empty, or - a local return of
    the task `a0` - one more result in the mailbox of `a0`, whose token is gone afterwards -/
def BoxStep (w w' : Worker) (out : List Msg) : Prop :=
  ∀ k b', boxGet w'.boxes k = some b' →
    (∃ b, boxGet w.boxes k = some b ∧ b'.num = b.num ∧ b'.expected = b.expected)
    ∨ (w.counter ≤ k ∧ b'.num = 0)
    ∨ (∃ b a0, boxGet w.boxes k = some b ∧ b'.num = b.num + 1 ∧ b'.expected = b.expected ∧ k = a0.m
        ∧ a0.w = w.id ∧ 0 < tokW a0 w ∧ tokW a0 w' + tokMsgs a0 out = 0)

theorem BoxStep.of_keep {w w' : Worker} {out : List Msg} (h : BoxKeep w w') : BoxStep w w' out := by
  intro k b' hb
  rcases h k b' hb with h1 | h1
  · exact Or.inl h1
  · exact Or.inr (Or.inl h1)

theorem tokMsgs_zero_of (a : Addr) (l : List Msg) (h : ∀ msg ∈ l, tokMsg a msg = 0) : tokMsgs a l = 0 :=
  sumBy_zero _ _ h

theorem handleResult_counter (w : Worker) (a : Addr) (v : Val) : (w.handleResult a v).counter = w.counter := by
  unfold Worker.handleResult
  split
  · rfl
  · split
    · rfl
    · dsimp only
      split
      · rfl
      · split
        · rfl
        · split <;> rfl

theorem completionEnter_local (r : Run) (v : Val) (h : r.t.addr.w = r.w.id) :
    (completionEnter r v).w.boxes = (r.w.handleResult r.t.addr v).boxes
    ∧ (completionEnter r v).w.tasks = taskErase r.w.tasks r.t.addr
    ∧ (completionEnter r v).w.delayed = r.w.delayed
    ∧ (completionEnter r v).w.counter = r.w.counter
    ∧ (completionEnter r v).out = r.out ++ [Msg.update (-1)] := by
  obtain ⟨t1, t2⟩ := handleResult_tables r.w r.t.addr v
  unfold completionEnter
  rw [if_pos h]
  exact ⟨rfl, by show taskErase (r.w.handleResult r.t.addr v).tasks _ = _; rw [t1], t2,
    handleResult_counter _ _ _, rfl⟩

theorem completionEnter_remote (r : Run) (v : Val) (h : ¬ r.t.addr.w = r.w.id) :
    (completionEnter r v).w.boxes = r.w.boxes ∧ (completionEnter r v).w.counter = r.w.counter := by
  unfold completionEnter
  rw [if_neg h]
  exact ⟨rfl, rfl⟩

/-- `_process_task_completion` -/
theorem processCompletion_boxstep (r : Run) (v : Val) (w : Worker) (K2 : BoxKeep w r.w)
    (hctr : w.counter ≤ r.w.counter) (hidr : r.w.id = w.id) (hpos : 0 < tokW r.t.addr w)
    (hd0 : cntA r.t.addr r.w.delayed = 0)
    (hcr : ¬ (w.id = r.t.addr.w ∧ w.counter ≤ r.t.addr.m))
    (hbo : ∀ msg ∈ r.out, tokMsg r.t.addr msg = 0) :
    BoxStep w (processCompletion r v).1.w (processCompletion r v).1.out := by
  unfold processCompletion
  split
  · exact BoxStep.of_keep K2
  · have L := completionLoop_keep r.t.owned (completionEnter r v)
    have Lc := completionLoop_counter r.t.owned (completionEnter r v)
    obtain ⟨l1, l2, _⟩ := completionLoop_fixed r.t.owned (completionEnter r v)
    by_cases hloc : r.t.addr.w = r.w.id
    · obtain ⟨c1, c2, c3, c4, c5⟩ := completionEnter_local r v hloc
      have hlo := completionLoop_outP (noTokP_outP r.t.addr w.id w.counter hcr) r.t.owned (completionEnter r v)
        (by rw [c5]; exact outP_append hbo _ rfl)
      intro k b' hb
      rcases L k b' hb with ⟨bE, hbE, e1, e2⟩ | ⟨e1, e2⟩
      · rw [c1] at hbE
        obtain ⟨b1, hb1, f1, f2⟩ := handleResult_boxes r.w r.t.addr v k bE hbE
        rcases K2 k b1 hb1 with ⟨b0, hb0, g1, g2⟩ | ⟨g1, g2⟩
        · rcases f2 with f2 | ⟨f2, f3, f4⟩
          · exact Or.inl ⟨b0, hb0, by rw [e1, f2, g1], by rw [e2, f1, g2]⟩
          · right; right
            refine ⟨b0, r.t.addr, hb0, by rw [e1, f4, g1], by rw [e2, f1, g2], f2, by rw [f3, hidr], hpos, ?_⟩
            have ht : cntA r.t.addr (completionLoop r.t.owned (completionEnter r v)).1.w.tasks = 0 := by
              rw [l1, c2]; exact cntA_taskErase_self _ _
            have hdl : cntA r.t.addr (completionLoop r.t.owned (completionEnter r v)).1.w.delayed = 0 := by
              rw [l2, c3]; exact hd0
            have hz := tokMsgs_zero_of r.t.addr _ hlo
            simp only [tokW]
            omega
        · rcases f2 with f2 | ⟨f2, f3, f4⟩
          · exact Or.inr (Or.inl ⟨g1, by rw [e1, f2, g2]⟩)
          · exfalso
            apply hcr
            exact ⟨by rw [f3, hidr], by rw [← f2]; exact g1⟩
      · rw [c4] at e1
        exact Or.inr (Or.inl ⟨Nat.le_trans hctr e1, e2⟩)
    · obtain ⟨c1, c4⟩ := completionEnter_remote r v hloc
      apply BoxStep.of_keep
      exact BoxKeep.trans K2 (BoxKeep.trans (BoxKeep.of_eq c1) L (Nat.le_of_eq c4.symm)) hctr

theorem stepTask_boxstep (tbl : Table) (w : Worker) (out : List Msg) (t0 : Task) (hf : Fresh w)
    (hmem : taskGet w.tasks t0.addr = some t0) (hd0 : cntA t0.addr w.delayed = 0)
    (hcr : ¬ (w.id = t0.addr.w ∧ w.counter ≤ t0.addr.m))
    (hout : ∀ msg ∈ out, tokMsg t0.addr msg = 0) :
    BoxStep w (stepTask tbl w out t0).w (stepTask tbl w out t0).out := by
  have hpos : 0 < tokW t0.addr w := by
    have := cntA_pos_of_mem _ _ (taskGet_mem _ _ _ hmem)
    simp only [tokW]; omega
  unfold stepTask
  split
  · exact BoxStep.of_keep (BoxKeep.refl w)
  · rename_i w1 t1 val hd
    have K1 := desiredResult_keep w w1 t0 t1 val hd
    have M1 := desiredResult_mono w w1 t0 t1 val hd
    obtain ⟨er, ea, eid⟩ := desiredResult_fixed w w1 t0 t1 val hd
    obtain ⟨et, edl⟩ := desiredResult_tables w w1 t0 t1 val hd
    split
    · apply BoxStep.of_keep
      simp only [bubbleErr]
      split <;> exact K1
    · have hfix := runBody_fixed tbl ((tbl.getD t1.prog []).length + 2)
        { w := w1, t := (resume tbl t1 val).1, out := out, evs := (resume tbl t1 val).2 }
      have K2 := runBody_keep tbl ((tbl.getD t1.prog []).length + 2)
        { w := w1, t := (resume tbl t1 val).1, out := out, evs := (resume tbl t1 val).2 } w K1 M1.ctr
        (M1.fresh hf)
      have M2 := runBody_mono tbl ((tbl.getD t1.prog []).length + 2)
        { w := w1, t := (resume tbl t1 val).1, out := out, evs := (resume tbl t1 val).2 }
      have hP : OutP (fun msg => tokMsg t0.addr msg = 0)
          ({ w := w1, t := (resume tbl t1 val).1, out := out, evs := (resume tbl t1 val).2 } : Run).w.id
          w.counter none := by
        show OutP _ w1.id w.counter none
        rw [eid]; exact noTokP_outP t0.addr w.id w.counter hcr
      have hbo := runBody_outP tbl ((tbl.getD t1.prog []).length + 2)
        { w := w1, t := (resume tbl t1 val).1, out := out, evs := (resume tbl t1 val).2 } hP M1.ctr hout
      have haddr : (runBody tbl ((tbl.getD t1.prog []).length + 2)
        { w := w1, t := (resume tbl t1 val).1, out := out, evs := (resume tbl t1 val).2 }).1.t.addr = t0.addr := by
        rw [hfix.2.2.2.1]; exact (resume_fields tbl t1 val).1.trans ea
      have hdl : (runBody tbl ((tbl.getD t1.prog []).length + 2)
        { w := w1, t := (resume tbl t1 val).1, out := out, evs := (resume tbl t1 val).2 }).1.w.delayed = w.delayed := by
        rw [hfix.2.1]; exact edl
      have hidr : (runBody tbl ((tbl.getD t1.prog []).length + 2)
        { w := w1, t := (resume tbl t1 val).1, out := out, evs := (resume tbl t1 val).2 }).1.w.id = w.id := by
        rw [hfix.2.2.2.2]; exact eid
      have hctr : w.counter ≤ (runBody tbl ((tbl.getD t1.prog []).length + 2)
        { w := w1, t := (resume tbl t1 val).1, out := out, evs := (resume tbl t1 val).2 }).1.w.counter :=
        Nat.le_trans M1.ctr M2.ctr
      generalize (runBody tbl ((tbl.getD t1.prog []).length + 2)
        { w := w1, t := (resume tbl t1 val).1, out := out, evs := (resume tbl t1 val).2 }) = rb
        at K2 hbo haddr hdl hidr hctr
      dsimp only
      cases hoc : rb.2 with
      | awaitF m nxt =>
        apply BoxStep.of_keep
        simp only [finishStep]
        split
        · rename_i r1 h1
          refine BoxKeep.trans K2 ?_ hctr
          unfold processAwait at h1
          split at h1
          · simp at h1
          · rename_i b hb
            simp only [Option.some.injEq] at h1
            rw [← h1]
            dsimp only
            split
            · exact BoxKeep.set rb.1.w _ m b _ hb rfl rfl rfl
            · exact BoxKeep.set rb.1.w _ m b _ hb rfl rfl rfl
        · split <;> exact K2
      | err cls isRt =>
        apply BoxStep.of_keep
        simp only [finishStep, bubbleErr]
        split <;> exact K2
      | done v =>
        have key := processCompletion_boxstep rb.1 v w K2 hctr hidr (by rw [haddr]; exact hpos)
          (by rw [haddr, hdl]; exact hd0) (by rw [haddr]; exact hcr) (by rw [haddr]; exact hbo)
        simp only [finishStep]
        split
        · intro k b' hb
          rcases key k b' hb with h1 | h1 | ⟨b, a0, h1, h2, h3, h4, h5, h6, h7⟩
          · exact Or.inl h1
          · exact Or.inr (Or.inl h1)
          · refine Or.inr (Or.inr ⟨b, a0, h1, h2, h3, h4, h5, h6, ?_⟩)
            simp only [tokMsgs, sumBy_append, sumBy, tokMsg, tokW] at h7 ⊢
            omega
        · exact key

end BqVerif.Runtime
