import BqVerif.Model.QasmElab
/-! Parenthesis-free expressions: the text the reader builds is the text of the program. -/
namespace BqVerif.Qasm

variable {V : Type}

/-- no parenthesised sub-expression, and every substituted value prints without a sign -/
def QE.plain (A : Arith V) : QE V → Bool
  | .num _ => true
  | .id _ => true
  | .pidx _ => true
  | .val v => !A.isNeg v
  | .paren _ => false
  | .usub e => e.plain A
  | .pow a b => a.plain A && b.plain A
  | .call _ e => e.plain A
  | .bin _ l r => l.plain A && r.plain A

/-- the functions `eval_locals` lacks are not used -/
def PE.noMissingFn : PE V → Bool
  | .lit _ => true
  | .val _ => true
  | .name _ => true
  | .neg e => e.noMissingFn
  | .bin _ l r => l.noMissingFn && r.noMissingFn
  | .pow a b => a.noMissingFn && b.noMissingFn
  | .call f e => f != .exp && f != .sqrt && e.noMissingFn

theorem flatten_eq_spec (A : Arith V) (e : QE V) (h : e.plain A = true) :
    flatten A e = flattenSpec A e := by
  induction e with
  | num s => rfl
  | id s => rfl
  | pidx i => rfl
  | val v => simp [QE.plain] at h; simp [flatten, flattenSpec, valToks, h]
  | paren e _ => simp [QE.plain] at h
  | usub e ih => simp [QE.plain] at h; simp [flatten, flattenSpec, ih h]
  | pow a b iha ihb =>
    simp [QE.plain] at h; simp [flatten, flattenSpec, iha h.1, ihb h.2]
  | call f e ih => simp [QE.plain] at h; simp [flatten, flattenSpec, ih h]
  | bin op l r ihl ihr =>
    simp [QE.plain] at h; simp [flatten, flattenSpec, ihl h.1, ihr h.2]

theorem eval_eq_spec (A : Arith V) (e : PE V) (h : e.noMissingFn = true) :
    e.eval A = e.evalSpec A := by
  induction e with
  | lit s => rfl
  | val v => rfl
  | name s => rfl
  | neg e ih => simp [PE.noMissingFn] at h; simp [PE.eval, PE.evalSpec, ih h]
  | bin op l r ihl ihr =>
    simp [PE.noMissingFn] at h; simp [PE.eval, PE.evalSpec, ihl h.1, ihr h.2]
  | pow a b iha ihb =>
    simp [PE.noMissingFn] at h; simp [PE.eval, PE.evalSpec, iha h.1, ihb h.2]
  | call f e ih =>
    cases f <;> simp_all [PE.eval, PE.evalSpec, PE.noMissingFn]

end BqVerif.Qasm
