import BqVerif.Model.PickleKey
import BqVerif.Proofs.PickleMain
/-!
C16 (strengthening round): `__reduce__` through a dictionary keyed by `key`.
If `key` separates the gates of the circuit the keyed payload IS the payload of
`Circ.reduceWith` for a listing of the gate set, so the round-trip theorems apply; and if every
operation comes back through the table, `key` separates the gates (necessity, per operation).
-/
namespace BqVerif.Circ

variable {K : Type} [DecidableEq K]

theorem keyInsert_sub (key : GateId → K) (tbl : List GateId) (g e : GateId)
    (h : e ∈ keyInsert key tbl g) : e ∈ tbl ∨ e = g := by
  unfold keyInsert at h
  split at h
  · exact Or.inl h
  · rcases List.mem_append.1 h with h | h
    · exact Or.inl h
    · exact Or.inr (by simpa using h)

theorem keyInsert_mono (key : GateId → K) (tbl : List GateId) (g e : GateId) (h : e ∈ tbl) :
    e ∈ keyInsert key tbl g := by
  unfold keyInsert
  split
  · exact h
  · exact List.mem_append_left _ h

theorem keyInsert_cover (key : GateId → K) (tbl : List GateId) (g : GateId) :
    ∃ e ∈ keyInsert key tbl g, key e = key g := by
  unfold keyInsert
  split
  · rename_i h
    obtain ⟨e, he, hk⟩ := List.any_eq_true.1 h
    exact ⟨e, he, by simpa using hk⟩
  · exact ⟨g, by simp, rfl⟩

theorem foldl_keyInsert_sub (key : GateId → K) (gs : List GateId) :
    ∀ acc e, e ∈ gs.foldl (keyInsert key) acc → e ∈ acc ∨ e ∈ gs := by
  induction gs with
  | nil => intro acc e h; exact Or.inl h
  | cons g t ih =>
    intro acc e h
    rcases ih _ e h with h | h
    · rcases keyInsert_sub key acc g e h with h | h
      · exact Or.inl h
      · exact Or.inr (by simp [h])
    · exact Or.inr (by simp [h])

theorem foldl_keyInsert_mono (key : GateId → K) (gs : List GateId) :
    ∀ acc e, e ∈ acc → e ∈ gs.foldl (keyInsert key) acc := by
  induction gs with
  | nil => intro acc e h; exact h
  | cons g t ih => intro acc e h; exact ih _ e (keyInsert_mono key acc g e h)

theorem foldl_keyInsert_cover (key : GateId → K) (gs : List GateId) :
    ∀ acc g, g ∈ gs → ∃ e ∈ gs.foldl (keyInsert key) acc, key e = key g := by
  induction gs with
  | nil => intro acc g h; cases h
  | cons a t ih =>
    intro acc g h
    rcases List.mem_cons.1 h with rfl | h
    · obtain ⟨e, he, hk⟩ := keyInsert_cover key acc g
      exact ⟨e, foldl_keyInsert_mono key t _ e he, hk⟩
    · exact ih _ g h

/-- the stored gates are gates of the list -/
theorem keyTable_sub (key : GateId → K) (gs : List GateId) (e : GateId)
    (h : e ∈ keyTable key gs) : e ∈ gs := by
  rcases foldl_keyInsert_sub key gs [] e h with h | h
  · cases h
  · exact h

/-- every gate has a slot with its key -/
theorem keyTable_cover (key : GateId → K) (gs : List GateId) (g : GateId) (h : g ∈ gs) :
    ∃ e ∈ keyTable key gs, key e = key g := foldl_keyInsert_cover key gs [] g h

/-- with a separating key every gate is itself stored -/
theorem mem_keyTable_of_inj (key : GateId → K) (gs : List GateId)
    (hinj : ∀ a ∈ gs, ∀ b ∈ gs, key a = key b → a = b) (g : GateId) (h : g ∈ gs) :
    g ∈ keyTable key gs := by
  obtain ⟨e, he, hk⟩ := keyTable_cover key gs g h
  rw [← hinj e (keyTable_sub key gs e he) g h hk]; exact he

theorem findIdx_congr_mem {α : Type} (p q : α → Bool) (l : List α) (h : ∀ x ∈ l, p x = q x) :
    l.findIdx p = l.findIdx q := by
  induction l with
  | nil => rfl
  | cons a t ih =>
    simp only [List.findIdx_cons]
    rw [h a (by simp), ih (fun x hx => h x (by simp [hx]))]

/-- the dictionary lookup is the list lookup when no other stored gate has the key of `g` -/
theorem keyIdx_eq_idxOf (key : GateId → K) (tbl : List GateId) (g : GateId)
    (h : ∀ e ∈ tbl, key e = key g → e = g) : keyIdx key tbl g = tbl.idxOf g := by
  unfold keyIdx List.idxOf
  apply findIdx_congr_mem
  intro e he
  by_cases hk : key e = key g
  · have := h e he hk; subst this
    show (key e == key e) = (e == e)
    simp
  · have hne : e ≠ g := fun hh => hk (by rw [hh])
    show (key e == key g) = (e == g)
    rw [beq_eq_false_iff_ne.2 hk, beq_eq_false_iff_ne.2 hne]

theorem marshalKey_eq_marshal (key : GateId → K) (gs : List GateId)
    (hinj : ∀ a ∈ gs, ∀ b ∈ gs, key a = key b → a = b) (o : Op) (ho : o.gate ∈ gs) :
    marshalKey key (keyTable key gs) o = marshal (keyTable key gs) o := by
  unfold marshalKey marshal
  rw [keyIdx_eq_idxOf key _ o.gate
    (fun e he hk => hinj e (keyTable_sub key gs e he) o.gate ho hk)]

/-- **separating key ⇒ the keyed payload is the payload for a listing of the gate set** -/
theorem reduceKey_eq_reduceWith (c : Circ) (key : GateId → K) (hinj : c.KeyInj key)
    (it : List (Nat × Op)) (hit : ∀ x ∈ it, x.2 ∈ c.ops) :
    c.reduceKey key it = c.reduceWith (keyTable key c.gates) it := by
  unfold Circ.reduceKey Circ.reduceWith
  congr 2
  apply List.map_congr_left
  intro x hx
  rw [marshalKey_eq_marshal key c.gates hinj x.2 (List.mem_map.2 ⟨x.2, hit x hx, rfl⟩)]

theorem keyTable_lists (c : Circ) (key : GateId → K) (hinj : c.KeyInj key) :
    ∀ o ∈ c.ops, o.gate ∈ keyTable key c.gates :=
  fun o ho => mem_keyTable_of_inj key c.gates hinj o.gate (List.mem_map.2 ⟨o, ho, rfl⟩)

theorem mem_iterCyc_ops' (c : Circ) : ∀ x ∈ c.iterCyc, x.2 ∈ c.ops := by
  intro x hx
  simp only [Circ.iterCyc, List.mem_flatMap, List.mem_map, Prod.exists] at hx
  obtain ⟨cy, i, hm, o, ho, rfl⟩ := hx
  have hcy : cy ∈ c.cycles := by
    rw [List.mk_mem_zipIdx_iff_getElem?] at hm
    exact List.mem_of_getElem? hm
  exact List.mem_flatten.2 ⟨cy, hcy, (sortBy_perm _ _).mem_iff.1 ho⟩

theorem keyInjB_iff (c : Circ) (key : GateId → K) : c.keyInjB key = true ↔ c.KeyInj key := by
  simp only [Circ.keyInjB, Circ.KeyInj, List.all_eq_true, Bool.or_eq_true, Bool.not_eq_true',
    beq_eq_false_iff_ne, beq_iff_eq, ne_eq]
  constructor
  · intro h a ha b hb hk
    rcases h a ha b hb with h | h
    · exact absurd hk h
    · exact h
  · intro h a ha b hb
    by_cases hk : key a = key b
    · exact Or.inr (h a ha b hb hk)
    · exact Or.inl hk

/-- what `Operation(gate_table[i], …)` returns carries the gate stored in slot `i` -/
theorem mkOp_ok_gate (tbl : List GateId) (m : MOp) (o : Op) (h : mkOp tbl m = .ok o) :
    tbl[m.gi]? = some o.gate := by
  unfold mkOp at h
  split at h
  · cases h
  · rename_i g hg
    simp only at h
    repeat' split at h
    all_goals try (cases h)
    all_goals (rw [hg]; cases g; simp_all [Op.gate])

/-- **necessity, per operation**: if every operation of the circuit comes back as itself through
the dictionary-keyed table (whatever the table holds), the key separates the circuit's gates. -/
theorem keyInj_of_roundtrip (c : Circ) (key : GateId → K) (tbl : List GateId)
    (h : ∀ o ∈ c.ops, mkOp tbl (marshalKey key tbl o) = .ok o) : c.KeyInj key := by
  intro a ha b hb hk
  obtain ⟨oa, hoa, rfl⟩ := List.mem_map.1 ha
  obtain ⟨ob, hob, rfl⟩ := List.mem_map.1 hb
  have h1 := mkOp_ok_gate tbl _ oa (h oa hoa)
  have h2 := mkOp_ok_gate tbl _ ob (h ob hob)
  have hidx : keyIdx key tbl oa.gate = keyIdx key tbl ob.gate := by
    unfold keyIdx; rw [hk]
  simp only [marshalKey] at h1 h2
  rw [hidx, h2] at h1
  exact (Option.some.inj h1).symm

end BqVerif.Circ
