import Mathlib.Algebra.BigOperators.Group.List.Basic
import BqVerif.Model.Circ
/-! S1, the trace lemma: two operation lists with the same per-qudit timelines have the same
product in every monoid where operations on disjoint locations commute. This turns the
combinatorial comparison "every qudit sees the same operation sequence" into "same unitary"
for circuits of any width. (Ported from design_spikes/TraceLemma.lean.) -/
namespace BqVerif.Circ

theorem proj_cons_on (q : Nat) (a : Op) (t : List Op) (h : q ∈ a.loc) :
    proj q (a :: t) = a :: proj q t := by simp [proj, Op.on, List.filter_cons, h]
theorem proj_cons_off (q : Nat) (a : Op) (t : List Op) (h : q ∉ a.loc) :
    proj q (a :: t) = proj q t := by simp [proj, Op.on, List.filter_cons, h]
theorem mem_proj (q : Nat) (x : Op) (l : List Op) : x ∈ proj q l ↔ x ∈ l ∧ q ∈ x.loc := by
  simp [proj, Op.on, List.mem_filter]
theorem proj_app (q : Nat) (a b : List Op) : proj q (a ++ b) = proj q a ++ proj q b := by
  simp [proj]

variable {M : Type} [Monoid M]

theorem prod_comm_of_indep (sem : Op → M)
    (hc : ∀ a b, Indep a b → sem a * sem b = sem b * sem a)
    (a : Op) (pre : List Op) (h : ∀ x ∈ pre, Indep a x) :
    (pre.map sem).prod * sem a = sem a * (pre.map sem).prod := by
  induction pre with
  | nil => simp
  | cons x t ih =>
    have hx := hc a x (h x (by simp))
    have ht := ih (fun y hy => h y (by simp [hy]))
    simp only [List.map_cons, List.prod_cons]
    rw [mul_assoc, ht, ← mul_assoc, ← hx, mul_assoc]

theorem trace_equiv (sem : Op → M)
    (hc : ∀ a b, Indep a b → sem a * sem b = sem b * sem a) :
    ∀ (l1 l2 : List Op), (∀ o ∈ l1, o.loc ≠ []) → (∀ o ∈ l2, o.loc ≠ []) →
      (∀ q, proj q l1 = proj q l2) → (l1.map sem).prod = (l2.map sem).prod := by
  intro l1
  induction l1 with
  | nil =>
    intro l2 _ h2 hp
    cases l2 with
    | nil => rfl
    | cons b t =>
      exfalso
      have hb := h2 b (by simp)
      obtain ⟨q, hq⟩ := List.exists_mem_of_ne_nil _ hb
      have := hp q
      rw [proj_cons_on _ _ _ hq] at this; simp [proj] at this
  | cons a t ih =>
    intro l2 h1 h2 hp
    have ha := h1 a (by simp)
    obtain ⟨q0, hq0⟩ := List.exists_mem_of_ne_nil _ ha
    -- a is the head of proj q0 l2
    have hp0 := hp q0
    have hhead : proj q0 (a :: t) = a :: proj q0 t := proj_cons_on _ _ _ hq0
    rw [hhead] at hp0
    -- split l2 at the first element containing q0
    have hsplit : ∃ pre post, l2 = pre ++ a :: post ∧ ∀ x ∈ pre, q0 ∉ x.loc := by
      clear ih h2 hp h1 hhead
      induction l2 with
      | nil => simp [proj] at hp0
      | cons b r ihr =>
        by_cases hb : q0 ∈ b.loc
        · have : proj q0 (b :: r) = b :: proj q0 r := proj_cons_on _ _ _ hb
          rw [this] at hp0
          injection hp0 with h1 h2
          exact ⟨[], r, by simp [h1], by simp⟩
        · have : proj q0 (b :: r) = proj q0 r := proj_cons_off _ _ _ hb
          rw [this] at hp0
          obtain ⟨pre, post, he, hpre⟩ := ihr hp0
          exact ⟨b :: pre, post, by simp [he], by
            intro x hx
            rcases List.mem_cons.mp hx with rfl | hx
            · exact hb
            · exact hpre x hx⟩
    obtain ⟨pre, post, he, hpre⟩ := hsplit
    subst he
    -- nothing in pre touches a
    have hind : ∀ x ∈ pre, Indep a x := by
      intro x hx q hqa hqx
      -- the first element of l2 containing q must be a
      have hpq := hp q
      have h1' : proj q (a :: t) = a :: proj q t := proj_cons_on _ _ _ hqa
      rw [h1'] at hpq
      -- proj q pre is nonempty and its head y satisfies y = a, but q0 ∉ y.loc
      have : proj q (pre ++ a :: post) = proj q pre ++ proj q (a :: post) := proj_app _ _ _
      rw [this] at hpq
      have hne : x ∈ proj q pre := (mem_proj _ _ _).2 ⟨hx, hqx⟩
      cases hpp : proj q pre with
      | nil => rw [hpp] at hne; simp at hne
      | cons y ys =>
        rw [hpp] at hpq
        simp only [List.cons_append] at hpq
        injection hpq with hy _
        have hymem : y ∈ proj q pre := by rw [hpp]; simp
        have hy' : y ∈ pre := ((mem_proj _ _ _).1 hymem).1
        have := hpre y hy'
        rw [← hy] at this
        exact this hq0
    -- rest projections agree
    have hrest : ∀ q, proj q t = proj q (pre ++ post) := by
      intro q
      have hpq := hp q
      have happ : proj q (pre ++ a :: post) = proj q pre ++ proj q (a :: post) := proj_app _ _ _
      have happ2 : proj q (pre ++ post) = proj q pre ++ proj q post := proj_app _ _ _
      by_cases hqa : q ∈ a.loc
      · have hnil : proj q pre = [] := by
          simp only [proj, List.filter_eq_nil_iff, Op.on]
          intro x hx
          have := hind x hx q hqa
          simpa using this
        have e1 : proj q (a :: t) = a :: proj q t := proj_cons_on _ _ _ hqa
        have e2 : proj q (a :: post) = a :: proj q post := proj_cons_on _ _ _ hqa
        rw [e1, happ, hnil, e2] at hpq
        simp only [List.nil_append] at hpq
        injection hpq with _ h2
        rw [happ2, hnil, h2]; simp
      · have e1 : proj q (a :: t) = proj q t := proj_cons_off _ _ _ hqa
        have e2 : proj q (a :: post) = proj q post := proj_cons_off _ _ _ hqa
        rw [e1, happ, e2] at hpq
        rw [happ2, hpq]
    have h2' : ∀ o ∈ pre ++ post, o.loc ≠ [] := by
      intro o ho
      apply h2 o
      rcases List.mem_append.mp ho with h | h
      · exact List.mem_append.mpr (Or.inl h)
      · exact List.mem_append.mpr (Or.inr (by simp [h]))
    have := ih (pre ++ post) (fun o ho => h1 o (by simp [ho])) h2' hrest
    simp only [List.map_cons, List.prod_cons, List.map_append, List.prod_append]
    rw [this, List.map_append, List.prod_append, ← mul_assoc, ← mul_assoc,
      prod_comm_of_indep sem hc a pre hind]



end BqVerif.Circ
