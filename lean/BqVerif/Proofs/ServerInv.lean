import BqVerif.Proofs.Server
/-! C13: preservation of the table invariant by submit / box updates / connect / disconnect. -/
namespace BqVerif.Server

theorem Inv.fresh_counter {s : Srv} (h : Inv s) :
    get? s.m2t s.counter = none ∧ get? s.boxes s.counter = none := by
  constructor
  · cases hm : get? s.m2t s.counter with
    | none => rfl
    | some t =>
      obtain ⟨c, hc⟩ := h.mt _ _ hm
      exact absurd (h.tk _ _ _ hc).2.2 (Nat.lt_irrefl _)
  · cases hb : get? s.boxes s.counter with
    | none => rfl
    | some b =>
      obtain ⟨t, c, ts, x, _, _⟩ := h.bx _ _ hb
      exact absurd (h.tk _ _ _ x).2.2 (Nat.lt_irrefl _)

theorem Inv.afterSubmit {s : Srv} (h : Inv s) {c ts t} (hc : get? s.clients c = some ts)
    (hf : get? s.tasks t = none) : Inv (afterSubmit s c ts t) := by
  have hts : t ∉ ts := by
    intro ht
    obtain ⟨m, b, h1, _⟩ := h.clSub c ts t hc ht
    rw [hf] at h1; cases h1
  obtain ⟨fm, fb⟩ := h.fresh_counter
  have hcl : c ∉ s.closed := by
    intro x; have := h.closed c x; rw [hc] at this; cases this
  obtain ⟨i1, i2, i3, i4, i5, i6, i7, i8⟩ := h
  constructor
  · exact i1.set _ _
  · intro c' ts' hc'
    simp only [BqVerif.Server.afterSubmit, Srv.emit, get?_set] at hc'
    by_cases e : c = c'
    · subst e; simp at hc'; subst hc'
      exact List.nodup_cons.mpr ⟨hts, i2 _ _ hc⟩
    · simp [e] at hc'; exact i2 _ _ hc'
  · intro c' ts' t' hc' ht'
    simp only [BqVerif.Server.afterSubmit, Srv.emit, get?_set] at hc' ⊢
    by_cases e : c = c'
    · subst e; simp at hc'; subst hc'
      rcases List.mem_cons.mp ht' with e2 | e2
      · subst e2; exact ⟨s.counter, ⟨none, false⟩, by simp, by simp⟩
      · obtain ⟨m, b, x, y⟩ := i3 _ _ _ hc e2
        have n1 : t ≠ t' := by intro e3; subst e3; rw [hf] at x; cases x
        have n2 : s.counter ≠ m := by intro e3; subst e3; rw [fb] at y; cases y
        exact ⟨m, b, by simp [n1, x], by simp [n2, y]⟩
    · simp [e] at hc'
      obtain ⟨m, b, x, y⟩ := i3 _ _ _ hc' ht'
      have n1 : t ≠ t' := by intro e3; subst e3; rw [hf] at x; cases x
      have n2 : s.counter ≠ m := by intro e3; subst e3; rw [fb] at y; cases y
      exact ⟨m, b, by simp [n1, x], by simp [n2, y]⟩
  · intro t' m' c' ht'
    simp only [BqVerif.Server.afterSubmit, Srv.emit, get?_set] at ht' ⊢
    by_cases e : t = t'
    · subst e; simp at ht'; obtain ⟨e1, e2⟩ := ht'; subst e1; subst e2
      simp
    · simp [e] at ht'
      obtain ⟨⟨ts', x⟩, y, z⟩ := i4 _ _ _ ht'
      have n2 : s.counter ≠ m' := Nat.ne_of_gt z
      refine ⟨?_, by simp [n2, y], Nat.lt_succ_of_lt z⟩
      by_cases e2 : c = c'
      · simp [e2]
      · simp [e2, x]
  · intro m' t' hm'
    simp only [BqVerif.Server.afterSubmit, Srv.emit, get?_set] at hm' ⊢
    by_cases e : s.counter = m'
    · subst e; simp at hm'; subst hm'; exact ⟨c, by simp⟩
    · simp [e] at hm'
      obtain ⟨c', x⟩ := i5 _ _ hm'
      have n1 : t ≠ t' := by intro e3; subst e3; rw [hf] at x; cases x
      exact ⟨c', by simp [n1, x]⟩
  · intro m' b' hb'
    simp only [BqVerif.Server.afterSubmit, Srv.emit, get?_set] at hb' ⊢
    by_cases e : s.counter = m'
    · subst e
      exact ⟨t, c, t :: ts, by simp, by simp, by simp⟩
    · simp [e] at hb'
      obtain ⟨t', c', ts', x, y, z⟩ := i6 _ _ hb'
      have n1 : t ≠ t' := by intro e3; subst e3; rw [hf] at x; cases x
      by_cases e2 : c = c'
      · subst e2; rw [hc] at y; cases y
        exact ⟨t', c, t :: ts, by simp [n1, x], by simp, by simp [z]⟩
      · exact ⟨t', c', ts', by simp [n1, x], by simp [e2, y], z⟩
  · intro c' hc'
    simp only [BqVerif.Server.afterSubmit, Srv.emit, get?_set]
    have : c ≠ c' := by intro e; subst e; exact hcl hc'
    simp [this]; exact i7 c' hc'
  · exact i8

/-- overwriting an existing mailbox keeps the invariant -/
theorem Inv.setBox {s : Srv} (h : Inv s) {m b} (b' : Box) (hb : get? s.boxes m = some b) :
    Inv { s with boxes := set s.boxes m b' } := by
  refine h.ext rfl (fun _ => rfl) (fun _ => rfl) ?_ rfl rfl rfl
  intro m'
  simp only [get?_set]
  by_cases e : m = m'
  · subst e; simp [hb]
  · simp [e]

theorem Inv.connect {s : Srv} (h : Inv s) {c} (hc : get? s.clients c = none) (hcl : c ∉ s.closed) :
    Inv { s with clients := set s.clients c [] } := by
  obtain ⟨i1, i2, i3, i4, i5, i6, i7, i8⟩ := h
  constructor
  · exact i1
  · intro c' ts' hc'
    simp only [get?_set] at hc'
    by_cases e : c = c'
    · simp [e] at hc'; subst hc'; exact List.nodup_nil
    · simp [e] at hc'; exact i2 _ _ hc'
  · intro c' ts' t' hc' ht'
    simp only [get?_set] at hc'
    by_cases e : c = c'
    · simp [e] at hc'; subst hc'; cases ht'
    · simp [e] at hc'; exact i3 _ _ _ hc' ht'
  · intro t' m' c' ht'
    obtain ⟨⟨ts', x⟩, y⟩ := i4 _ _ _ ht'
    refine ⟨?_, y⟩
    simp only [get?_set]
    by_cases e : c = c'
    · simp [e]
    · simp [e, x]
  · exact i5
  · intro m' b' hb'
    obtain ⟨t', c', ts', x, y, z⟩ := i6 _ _ hb'
    have : c ≠ c' := by intro e; subst e; rw [hc] at y; cases y
    exact ⟨t', c', ts', x, by simp [get?_set, this, y], z⟩
  · intro c' hc'
    have : c ≠ c' := by intro e; subst e; exact hcl hc'
    simp [get?_set, this]; exact i7 c' hc'
  · exact i8

end BqVerif.Server
