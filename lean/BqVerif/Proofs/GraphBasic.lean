import BqVerif.Model.Graph
/-!
Shared basic facts about the model `BqVerif.Graph` used by all `Proofs/Graph*.lean` files:
`eraseDups` is duplicate free, `norm`, `hasEdge` symmetry, adjacency membership, the
constructor `mk?`, and the reachability relation `Reach`.
-/
namespace BqVerif.Graph

/-! ### eraseDups -/
theorem length_filter_le' {α} (p : α → Bool) (l : List α) : (l.filter p).length ≤ l.length :=
  List.length_filter_le p l

theorem nodup_eraseDups {α} [BEq α] [LawfulBEq α] : ∀ (l : List α), l.eraseDups.Nodup
  | [] => by simp
  | a :: as => by
    rw [List.eraseDups_cons]
    have : (as.filter fun b => !b == a).length < (a :: as).length := by
      have := List.length_filter_le (fun b => !b == a) as
      simp; omega
    have ih := nodup_eraseDups (as.filter fun b => !b == a)
    rw [List.nodup_cons]
    refine ⟨?_, ih⟩
    intro h
    rw [List.mem_eraseDups, List.mem_filter] at h
    simp at h
termination_by l => l.length

theorem eraseDups_eq_self_of_nodup {α} [BEq α] [LawfulBEq α] :
    ∀ (l : List α), l.Nodup → l.eraseDups = l
  | [], _ => by simp
  | a :: as, h => by
    rw [List.nodup_cons] at h
    rw [List.eraseDups_cons]
    have hf : (as.filter fun b => !b == a) = as := by
      rw [List.filter_eq_self]
      intro b hb
      have : b ≠ a := fun e => h.1 (e ▸ hb)
      simp [this]
    rw [hf, eraseDups_eq_self_of_nodup as h.2]

/-! ### norm / hasEdge -/
theorem norm_comm (a b : Nat) : norm (a, b) = norm (b, a) := by
  unfold norm
  by_cases h1 : a ≤ b <;> by_cases h2 : b ≤ a <;> simp [h1, h2]
  · have : a = b := by omega
    subst this; exact ⟨rfl, rfl⟩
  · omega

theorem norm_le (e : Nat × Nat) : (norm e).1 ≤ (norm e).2 := by
  unfold norm; split <;> simp_all <;> omega

theorem norm_of_le {a b : Nat} (h : a ≤ b) : norm (a, b) = (a, b) := by simp [norm, h]
theorem norm_of_lt {a b : Nat} (h : b < a) : norm (a, b) = (b, a) := by
  simp [norm]; omega

theorem norm_idem (e : Nat × Nat) : norm (norm e) = norm e := by
  unfold norm; split <;> simp_all <;> omega

/-- `norm e = norm e'` iff the two pairs are equal as unordered pairs. -/
theorem norm_eq_iff (a b c d : Nat) :
    norm (a, b) = norm (c, d) ↔ (a = c ∧ b = d) ∨ (a = d ∧ b = c) := by
  unfold norm
  by_cases h1 : a ≤ b <;> by_cases h2 : c ≤ d <;> simp [h1, h2] <;> omega

theorem G.hasEdge_iff (g : G) (a b : Nat) : g.hasEdge a b = true ↔ norm (a, b) ∈ g.edges := by
  simp [G.hasEdge]

theorem G.hasEdge_comm (g : G) (a b : Nat) : g.hasEdge a b = g.hasEdge b a := by
  simp [G.hasEdge, norm_comm a b]

theorem G.hasEdge_lt (g : G) (hwf : g.WF) {a b : Nat} (h : g.hasEdge a b = true) :
    a ≠ b ∧ a < g.n ∧ b < g.n := by
  rw [G.hasEdge_iff] at h
  have := hwf _ h
  unfold norm at this
  split at this <;> simp at this <;> omega

theorem G.not_hasEdge_self (g : G) (hwf : g.WF) (a : Nat) : g.hasEdge a a = false := by
  cases h : g.hasEdge a a
  · rfl
  · exact absurd rfl (g.hasEdge_lt hwf h).1

/-- For a well-formed graph membership of the (normalised) pair decides `hasEdge`. -/
theorem G.hasEdge_of_mem (g : G) (hwf : g.WF) {e : Nat × Nat} (h : e ∈ g.edges) :
    g.hasEdge e.1 e.2 = true := by
  rw [G.hasEdge_iff]
  have := hwf e h
  rw [norm_of_le (by omega)]
  exact h

theorem G.mem_adj (g : G) (v u : Nat) : u ∈ g.adj v ↔ u < g.n ∧ g.hasEdge v u = true := by
  simp [G.adj]

theorem G.nodup_adj (g : G) (v : Nat) : (g.adj v).Nodup := by
  unfold G.adj
  exact List.Pairwise.filter _ List.nodup_range

theorem G.mem_adj_wf (g : G) (hwf : g.WF) (v u : Nat) : u ∈ g.adj v ↔ g.hasEdge v u = true := by
  rw [G.mem_adj]
  exact ⟨fun h => h.2, fun h => ⟨(g.hasEdge_lt hwf h).2.2, h⟩⟩

/-! ### the constructor -/
def rawMax (raw : List (Nat × Nat)) : Nat := raw.foldl (fun m e => max m (max e.1 e.2)) 0

theorem foldl_max_ge (raw : List (Nat × Nat)) (m0 : Nat) :
    m0 ≤ raw.foldl (fun m e => max m (max e.1 e.2)) m0 ∧
    ∀ e ∈ raw, e.1 ≤ raw.foldl (fun m e => max m (max e.1 e.2)) m0 ∧
               e.2 ≤ raw.foldl (fun m e => max m (max e.1 e.2)) m0 := by
  induction raw generalizing m0 with
  | nil => simp
  | cons x xs ih =>
    simp only [List.foldl_cons, List.mem_cons, forall_eq_or_imp]
    have := ih (max m0 (max x.1 x.2))
    refine ⟨by omega, ⟨by omega, by omega⟩, fun e he => this.2 e he⟩

/-- the fold either stays at its start value or is attained by an endpoint. -/
theorem foldl_max_attained (raw : List (Nat × Nat)) (m0 : Nat) :
    raw.foldl (fun m e => max m (max e.1 e.2)) m0 = m0 ∨
    ∃ e ∈ raw, raw.foldl (fun m e => max m (max e.1 e.2)) m0 = e.1 ∨
               raw.foldl (fun m e => max m (max e.1 e.2)) m0 = e.2 := by
  induction raw generalizing m0 with
  | nil => simp
  | cons x xs ih =>
    simp only [List.foldl_cons, List.mem_cons, exists_eq_or_imp]
    rcases ih (max m0 (max x.1 x.2)) with h | ⟨e, he, h⟩
    · rw [h]
      by_cases h1 : max m0 (max x.1 x.2) = m0
      · left; exact h1
      · right; left; omega
    · right; right; exact ⟨e, he, h⟩

theorem rawMax_ge (raw : List (Nat × Nat)) : ∀ e ∈ raw, e.1 ≤ rawMax raw ∧ e.2 ≤ rawMax raw :=
  (foldl_max_ge raw 0).2

/-- Complete description of the constructor. -/
theorem mk?_eq (raw : List (Nat × Nat)) (num : Option Nat) :
    mk? raw num =
      if raw.any (fun e => e.1 == e.2) then none else
      match num with
      | some k => if rawMax raw + 1 > k then none else some ⟨k, (raw.map norm).eraseDups⟩
      | none => some ⟨rawMax raw + 1, (raw.map norm).eraseDups⟩ := rfl

theorem anySelf_eq_false_iff (raw : List (Nat × Nat)) :
    raw.any (fun e => e.1 == e.2) = false ↔ ∀ e ∈ raw, e.1 ≠ e.2 := by
  rw [List.any_eq_false]
  constructor
  · intro h e he; have := h e he; simpa using this
  · intro h e he; have := h e he; simpa using this

theorem mk?_some_iff (raw : List (Nat × Nat)) (k : Nat) (h : G) :
    mk? raw (some k) = some h ↔
      (∀ e ∈ raw, e.1 ≠ e.2) ∧ rawMax raw < k ∧ h = ⟨k, (raw.map norm).eraseDups⟩ := by
  rw [mk?_eq, ← anySelf_eq_false_iff]
  cases h1 : raw.any (fun e => e.1 == e.2)
  · by_cases h2 : rawMax raw + 1 > k
    · simp [h2]; omega
    · simp [h2]
      constructor
      · intro h; exact ⟨by omega, h.symm⟩
      · intro h; exact h.2.symm
  · simp

theorem mk?_none_some_iff (raw : List (Nat × Nat)) (h : G) :
    mk? raw none = some h ↔
      (∀ e ∈ raw, e.1 ≠ e.2) ∧ h = ⟨rawMax raw + 1, (raw.map norm).eraseDups⟩ := by
  rw [mk?_eq, ← anySelf_eq_false_iff]
  cases h1 : raw.any (fun e => e.1 == e.2)
  · simp
    exact eq_comm
  · simp

/-- edges of a constructed graph -/
theorem hasEdge_mk (k : Nat) (raw : List (Nat × Nat)) (a b : Nat) :
    (G.mk k (raw.map norm).eraseDups).hasEdge a b = true ↔
      ∃ e ∈ raw, (e = (a, b) ∨ e = (b, a)) := by
  rw [G.hasEdge_iff]
  simp only [List.mem_eraseDups, List.mem_map]
  constructor
  · rintro ⟨⟨c, d⟩, he, hn⟩
    refine ⟨(c, d), he, ?_⟩
    rw [norm_eq_iff] at hn
    rcases hn with ⟨h1, h2⟩ | ⟨h1, h2⟩
    · left; rw [h1, h2]
    · right; rw [h1, h2]
  · rintro ⟨e, he, h | h⟩
    · exact ⟨e, he, by rw [h]⟩
    · exact ⟨e, he, by rw [h, norm_comm]⟩

theorem wf_mk (k : Nat) (raw : List (Nat × Nat)) (h1 : ∀ e ∈ raw, e.1 ≠ e.2)
    (h2 : ∀ e ∈ raw, e.1 < k ∧ e.2 < k) : (G.mk k (raw.map norm).eraseDups).WF := by
  intro e he
  simp only [List.mem_eraseDups, List.mem_map] at he
  obtain ⟨e', he', rfl⟩ := he
  have := h1 e' he'
  have := h2 e' he'
  unfold norm
  split <;> simp <;> omega

/-! ### reachability -/
/-- reflexive transitive closure of `hasEdge` -/
inductive Reach (g : G) : Nat → Nat → Prop
  | refl (a : Nat) : Reach g a a
  | step {a b c : Nat} : Reach g a b → g.hasEdge b c = true → Reach g a c

theorem Reach.trans {g : G} {a b c : Nat} (h1 : Reach g a b) (h2 : Reach g b c) : Reach g a c := by
  induction h2 with
  | refl => exact h1
  | step _ he ih => exact Reach.step ih he

theorem Reach.single {g : G} {a b : Nat} (h : g.hasEdge a b = true) : Reach g a b :=
  Reach.step (Reach.refl a) h

theorem Reach.symm {g : G} {a b : Nat} (h : Reach g a b) : Reach g b a := by
  induction h with
  | refl => exact Reach.refl _
  | step _ he ih => exact Reach.trans (Reach.single (by rw [G.hasEdge_comm]; exact he)) ih

theorem Reach.head {g : G} {a b c : Nat} (he : g.hasEdge a b = true) (h : Reach g b c) :
    Reach g a c := Reach.trans (Reach.single he) h

theorem Reach.lt {g : G} (hwf : g.WF) {a b : Nat} (h : Reach g a b) (ha : a < g.n) : b < g.n := by
  induction h with
  | refl => exact ha
  | step _ he _ => exact (g.hasEdge_lt hwf he).2.2

end BqVerif.Graph
