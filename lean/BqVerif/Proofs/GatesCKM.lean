import BqVerif.Model.GatesCKM
import BqVerif.Proofs.GatesComposed
/-! CKMGate / CKMdgGate: unitarity (product of three unitary rotations) and the gradient as
first-order coefficient (product rule). -/
namespace BqVerif.Gates
open Matrix
set_option linter.unusedSectionVars false
set_option linter.unusedVariables false

section unitary
variable {R : Type} [CommRing R] [StarRing R]

macro "entries3" : tactic => `(tactic|
  (ext i j
   fin_cases i <;> fin_cases j <;>
     simp [toM, ckmU1, ckmU2, ckmU3, Ang.e, Ang.en, Matrix.mul_apply, Fin.sum_univ_three, *] <;>
     grind))

theorem unitary_ckmU1 (c : Ang R) (hc : c.Valid) : IsUnitary 3 (ckmU1 c) := by
  gate_hyps; unfold IsUnitary; entries3
theorem unitary_ckmU2 (K : Consts R) (hK : K.Valid) (a d : Ang R) (ha : a.Valid) (hd : d.Valid) :
    IsUnitary 3 (ckmU2 K a d) := by
  gate_hyps; unfold IsUnitary; entries3
theorem unitary_ckmU3 (b : Ang R) (hb : b.Valid) : IsUnitary 3 (ckmU3 b) := by
  gate_hyps; unfold IsUnitary; entries3

theorem unitary_ckm (K : Consts R) (hK : K.Valid) (a b c d : Ang R)
    (ha : a.Valid) (hb : b.Valid) (hc : c.Valid) (hd : d.Valid) : IsUnitary 3 (ckm K a b c d) :=
  ((unitary_ckmU1 c hc).mulM (unitary_ckmU2 K hK a d ha hd)).mulM (unitary_ckmU3 b hb)

theorem neg_valid (a : Ang R) (ha : a.Valid) : a.neg.Valid := by
  obtain ⟨h1, h2, h3⟩ := ha
  exact ⟨by simp [Ang.neg]; linear_combination h1, by simp [Ang.neg, h2], by simp [Ang.neg, h3]⟩

theorem unitary_ckmdg (K : Consts R) (hK : K.Valid) (a b c d : Ang R)
    (ha : a.Valid) (hb : b.Valid) (hc : c.Valid) (hd : d.Valid) : IsUnitary 3 (ckmdg K a b c d) :=
  unitary_ckm K hK _ _ _ _ (neg_valid a ha) (neg_valid b hb) (neg_valid c hc) (neg_valid d hd)
end unitary

section grad
variable {R : Type} [CommRing R]

theorem smulM_def (s : R) (A : M R) : smulM s A = fun i j => s * A i j := rfl

theorem mulM_smulM_left (n : Nat) (s : R) (A B : M R) :
    mulM n (smulM s A) B = smulM s (mulM n A B) := by
  funext i j; simp [mulM, smulM, sumTo_eq, Finset.mul_sum, mul_assoc]

theorem mulM_smulM_right (n : Nat) (s : R) (A B : M R) :
    mulM n A (smulM s B) = smulM s (mulM n A B) := by
  funext i j; simp [mulM, smulM, sumTo_eq, Finset.mul_sum]; apply Finset.sum_congr rfl; intros; ring

/-- the three factors, displaced -/
theorem ckmU1_shift (c : Ang R) (ε : R) : ckmU1 (c.shift 1 ε) = addM (ckmU1 c) (smulM ε (ckmU1' c)) := by
  funext i j
  rcases i with _ | _ | _ | i <;> rcases j with _ | _ | _ | j <;>
    simp [ckmU1, ckmU1', addM, smulM, Ang.shift] <;> ring
theorem ckmU3_shift (b : Ang R) (ε : R) : ckmU3 (b.shift 1 ε) = addM (ckmU3 b) (smulM ε (ckmU3' b)) := by
  funext i j
  rcases i with _ | _ | _ | i <;> rcases j with _ | _ | _ | j <;>
    simp [ckmU3, ckmU3', addM, smulM, Ang.shift] <;> ring
theorem ckmU2_shift_a (K : Consts R) (a d : Ang R) (ε : R) :
    ckmU2 K (a.shift 1 ε) d = addM (ckmU2 K a d) (smulM ε (ckmU2a K a d)) := by
  funext i j
  rcases i with _ | _ | _ | i <;> rcases j with _ | _ | _ | j <;>
    simp [ckmU2, ckmU2a, addM, smulM, Ang.shift] <;> ring
theorem ckmU2_shift_d (K : Consts R) (a d : Ang R) (ε : R) :
    ckmU2 K a (d.shift 1 ε) = addM (ckmU2 K a d) (smulM ε (ckmU2d K a d)) := by
  funext i j
  rcases i with _ | _ | _ | i <;> rcases j with _ | _ | _ | j <;>
    simp [ckmU2, ckmU2d, addM, smulM, Ang.shift, Ang.e, Ang.en, Ang.de, Ang.den] <;> ring

/-- the four gradient matrices of `CKMGate` are the first-order coefficients (no `ε² = 0`
needed: every parameter occurs in one factor, linearly) -/
theorem grad_ckm (K : Consts R) (a b c d : Ang R) (ε : R) :
    ckm K (a.shift 1 ε) b c d = addM (ckm K a b c d) (smulM ε (ckm_g0 K a b c d)) ∧
    ckm K a (b.shift 1 ε) c d = addM (ckm K a b c d) (smulM ε (ckm_g1 K a b c d)) ∧
    ckm K a b (c.shift 1 ε) d = addM (ckm K a b c d) (smulM ε (ckm_g2 K a b c d)) ∧
    ckm K a b c (d.shift 1 ε) = addM (ckm K a b c d) (smulM ε (ckm_g3 K a b c d)) := by
  refine ⟨?_, ?_, ?_, ?_⟩
  · simp only [ckm, ckm_g0, ckmU2_shift_a, mulM_addM_left, mulM_addM_right, mulM_smulM_left,
      mulM_smulM_right]
  · simp only [ckm, ckm_g1, ckmU3_shift, mulM_addM_left, mulM_addM_right, mulM_smulM_left,
      mulM_smulM_right]
  · simp only [ckm, ckm_g2, ckmU1_shift, mulM_addM_left, mulM_addM_right, mulM_smulM_left,
      mulM_smulM_right]
  · simp only [ckm, ckm_g3, ckmU2_shift_d, mulM_addM_left, mulM_addM_right, mulM_smulM_left,
      mulM_smulM_right]

theorem neg_shift (a : Ang R) (ε : R) : (a.shift 1 ε).neg = a.neg.shift 1 (-ε) := by
  simp only [Ang.neg, Ang.shift, Ang.mk.injEq]
  constructor <;> ring

theorem smulM_neg (ε : R) (A : M R) : smulM (-ε) A = smulM ε (negM A) := by
  funext i j; simp [smulM, negM]

/-- `CKMdgGate`: parameter `p0` (the other three are analogous): the gradient is minus the CKM
gradient at the negated parameters -/
theorem grad_ckmdg (K : Consts R) (a b c d : Ang R) (ε : R) :
    ckmdg K (a.shift 1 ε) b c d =
      addM (ckmdg K a b c d) (smulM ε (negM (ckm_g0 K a.neg b.neg c.neg d.neg))) ∧
    ckmdg K a (b.shift 1 ε) c d =
      addM (ckmdg K a b c d) (smulM ε (negM (ckm_g1 K a.neg b.neg c.neg d.neg))) ∧
    ckmdg K a b (c.shift 1 ε) d =
      addM (ckmdg K a b c d) (smulM ε (negM (ckm_g2 K a.neg b.neg c.neg d.neg))) ∧
    ckmdg K a b c (d.shift 1 ε) =
      addM (ckmdg K a b c d) (smulM ε (negM (ckm_g3 K a.neg b.neg c.neg d.neg))) := by
  obtain ⟨h0, h1, h2, h3⟩ := grad_ckm K a.neg b.neg c.neg d.neg (-ε)
  simp only [ckmdg, neg_shift, ← smulM_neg]
  exact ⟨h0, h1, h2, h3⟩
end grad

end BqVerif.Gates
