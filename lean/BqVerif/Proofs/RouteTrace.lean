import BqVerif.Proofs.RoutePerm
import BqVerif.Proofs.GraphSubsets
import BqVerif.Proofs.GraphConn
/-
C09: the invariant of the routing machine `BqVerif.Route.step`.
-/
namespace BqVerif.Route
open BqVerif.Circ (Op proj disjointL nodupL)
open BqVerif.Graph

/-! ### relabelling -/
theorem relab_relab (f g : Nat → Nat) (o : Op) : relab f (relab g o) = relab (f ∘ g) o := by
  simp [relab, List.map_map]

theorem relab_congr {f g : Nat → Nat} {o : Op} (h : ∀ q ∈ o.loc, f q = g q) :
    relab f o = relab g o := by
  unfold relab
  congr 1
  exact List.map_congr_left h

theorem relab_id_on {f : Nat → Nat} {o : Op} (h : ∀ q ∈ o.loc, f q = q) : relab f o = o := by
  have : relab f o = relab id o := relab_congr (by simpa using h)
  rw [this]; simp [relab]

theorem idxOf_piAt {π : List Nat} (hnd : π.Nodup) {q : Nat} (hq : q < π.length) :
    π.idxOf (piAt π q) = q := by
  have : piAt π q = π[q] := by simp [piAt, hq]
  rw [this]
  exact idxOf_getElem_of_nodup π hnd q hq

theorem piAt_mem {π : List Nat} {q : Nat} (hq : q < π.length) : piAt π q ∈ π := by
  have : piAt π q = π[q] := by simp [piAt, hq]
  rw [this]; exact List.getElem_mem hq

theorem piAt_idxOf {π : List Nat} {x : Nat} (hx : x ∈ π) : piAt π (π.idxOf x) = x := by
  have h := List.idxOf_lt_length_of_mem hx
  have : piAt π (π.idxOf x) = π[π.idxOf x] := by simp [piAt, h]
  rw [this]; exact List.getElem_idxOf h

/-- un-relabelling an operation that was placed through `π` -/
theorem relab_idxOf_piAt {π : List Nat} (hnd : π.Nodup) {o : Op} (h : ∀ q ∈ o.loc, q < π.length) :
    relab (π.idxOf ·) (relab (piAt π) o) = o := by
  rw [relab_relab]
  exact relab_id_on (fun q hq => by simpa using idxOf_piAt hnd (h q hq))

/-! ### unroute -/
theorem unroute_append (π : List Nat) (l1 l2 : List Em) :
    unroute π (l1 ++ l2) =
      ((unroute π l1).1 ++ (unroute (unroute π l1).2 l2).1, (unroute (unroute π l1).2 l2).2) := by
  induction l1 generalizing π with
  | nil => simp [unroute]
  | cons e r ih =>
    cases e with
    | gate o => simp [unroute, ih]
    | swap a b => simp [unroute, ih]
    | vswap a b => simp [unroute, ih]

theorem unroute_gate (π : List Nat) (o : Op) :
    unroute π [.gate o] = ([relab (π.idxOf ·) o], π) := by simp [unroute]
theorem unroute_swap (π : List Nat) (a b : Nat) :
    unroute π [.swap a b] = ([], π.map (swapFn a b)) := by simp [unroute]
theorem unroute_vswap (π : List Nat) (a b : Nat) :
    unroute π [.vswap a b] = ([], π.map (swapFn a b)) := by simp [unroute]

/-! ### the front -/
theorem proj_append (q : Nat) (a b : List Op) : proj q (a ++ b) = proj q a ++ proj q b := by
  simp [proj]

theorem proj_nil_of_disjoint {q : Nat} {o : Op} {A : List Op} (hq : o.on q = true)
    (h : ∀ p ∈ A, disjointL p.loc o.loc = true) : proj q A = [] := by
  simp only [proj, List.filter_eq_nil_iff]
  intro p hp hpq
  have hd := h p hp
  simp only [disjointL, List.all_eq_true] at hd
  simp only [Op.on] at hq hpq
  have hq' : q ∈ p.loc := by simpa using hpq
  have := hd q hq'
  simp at this
  exact this (by simpa using hq)

/-- executing a front operation: moving it before the operations it is disjoint from does
not change any qudit's timeline -/
theorem proj_move_front (q : Nat) (L A B : List Op) (o : Op)
    (h : ∀ p ∈ A, disjointL p.loc o.loc = true) :
    proj q ((L ++ [o]) ++ (A ++ B)) = proj q (L ++ (A ++ o :: B)) := by
  simp only [proj_append]
  by_cases hq : o.on q = true
  · rw [proj_nil_of_disjoint hq h]
    have : proj q (o :: B) = o :: proj q B := by simp [proj, hq]
    have h1 : proj q [o] = [o] := by simp [proj, hq]
    rw [this, h1]; simp
  · have : proj q (o :: B) = proj q B := by simp [proj, hq]
    have h1 : proj q [o] = [] := by simp [proj, hq]
    rw [this, h1]; simp

theorem split_at {α} (l : List α) (i : Nat) (o : α) (h : l[i]? = some o) :
    l = l.take i ++ o :: l.drop (i + 1) := by
  have hi : i < l.length := by
    rcases Nat.lt_or_ge i l.length with h' | h'
    · exact h'
    · rw [List.getElem?_eq_none h'] at h; cases h
  have ho : l[i] = o := by
    rw [List.getElem?_eq_getElem hi] at h; exact Option.some.inj h
  rw [← ho, ← List.drop_eq_getElem_cons hi, List.take_append_drop]

theorem inFront_spec {rem : List Op} {i : Nat} {o : Op} (h : rem[i]? = some o)
    (hf : inFront rem i = true) : ∀ p ∈ rem.take i, disjointL p.loc o.loc = true := by
  unfold inFront at hf
  rw [h] at hf
  simpa [List.all_eq_true] using hf

/-! ### well-formedness predicates -/
/-- `π` is a permutation of `0..n-1` (as a list: logical ↦ physical) -/
def PermN (n : Nat) (π : List Nat) : Prop := π.Nodup ∧ π.length = n ∧ ∀ x ∈ π, x < n

theorem PermN.range (n : Nat) : PermN n (List.range n) :=
  ⟨List.nodup_range, List.length_range, fun x hx => List.mem_range.1 hx⟩

theorem PermN.mem {n : Nat} {π : List Nat} (h : PermN n π) {x : Nat} (hx : x < n) : x ∈ π :=
  nodup_lt_full h.1 h.2.2 h.2.1 x hx

theorem PermN.perm {n : Nat} {π : List Nat} (h : PermN n π) : π.Perm (List.range n) :=
  perm_range_of_nodup h.1 h.2.2 h.2.1

theorem PermN.swap {n : Nat} {π : List Nat} (h : PermN n π) {a b : Nat} (ha : a ∈ π) (hb : b ∈ π) :
    PermN n (π.map (swapFn a b)) :=
  ⟨map_swapFn_nodup a b h.1, by simp [h.2.1], fun x hx => h.2.2 x ((mem_map_swapFn ha hb x).1 hx)⟩

/-- every location of the input is duplicate free and inside `0..n-1` -/
def OpsWF (n : Nat) (ops : List Op) : Prop := ∀ o ∈ ops, o.loc.Nodup ∧ ∀ q ∈ o.loc, q < n

/-- what the coupling clause says about one emitted item -/
def EmOK (free : Nat → Bool) (g : G) : Em → Prop
  | .gate o => free o.gid = true ∨ o.loc.length = 1 ∨
      (o.loc.Nodup ∧ (∀ q ∈ o.loc, q < g.n) ∧ ConnectedOn g o.loc)
  | .swap a b => g.hasEdge a b = true
  | .vswap _ _ => True

/-! ### `_can_exe` -/
/-- Reach inside the default subgraph is reach inside the vertex set -/
theorem reach_sub_reachIn {g h : G} {loc : List Nat}
    (hn : h.n = loc.length) (hwf : h.WF)
    (hedge : ∀ i j, i < loc.length → j < loc.length →
      h.hasEdge i j = g.hasEdge (loc.getD i 0) (loc.getD j 0))
    {a b : Nat} (ha : a < loc.length) (hr : Reach h a b) :
    ReachIn g loc (loc.getD a 0) (loc.getD b 0) := by
  induction hr with
  | refl =>
    refine ReachIn.refl ?_
    have : loc.getD a 0 = loc[a] := by simp [ha]
    rw [this]; exact List.getElem_mem ha
  | step hab he ih =>
    rename_i b c
    have hb : b < loc.length := hn ▸ Reach.lt hwf hab (hn ▸ ha)
    have hc : c < loc.length := hn ▸ (h.hasEdge_lt hwf he).2.2
    have hcm : loc.getD c 0 ∈ loc := by
      have : loc.getD c 0 = loc[c] := by simp [hc]
      rw [this]; exact List.getElem_mem hc
    refine ReachIn.step ih hcm ?_
    rw [← hedge b c hb hc]; exact he

theorem subgraph_connected_connectedOn {g : G} (hwf : g.WF) {loc : List Nat} {h : G}
    (hs : g.subgraph loc none = some h) (hc : h.isFullyConnected = true) :
    loc.Nodup ∧ (∀ q ∈ loc, q < g.n) ∧ ConnectedOn g loc := by
  have hnn : ¬ (g.subgraph loc none = none) := by rw [hs]; simp
  rw [subgraph_default_none_iff g hwf loc] at hnn
  have h1 : loc.Nodup ∧ ∀ q ∈ loc, q < g.n := by
    by_cases h' : loc.Nodup ∧ ∀ q ∈ loc, q < g.n
    · exact h'
    · exact absurd (Or.inl h') hnn
  have h2 : loc ≠ [] := fun e => hnn (Or.inr e)
  obtain ⟨h', hs', hn, hwf', hedge⟩ := subgraph_default_spec g hwf loc h2 h1.1 h1.2
  rw [hs] at hs'
  have : h = h' := Option.some.inj hs'
  subst this
  have hpos : 1 ≤ h.n := by
    rw [hn]; cases loc with
    | nil => exact absurd rfl h2
    | cons _ _ => simp
  have hall := (isFullyConnected_iff_all_pairs h hwf' hpos).1 hc
  refine ⟨h1.1, h1.2, ?_⟩
  intro a ha b hb
  have hia := List.idxOf_lt_length_of_mem ha
  have hib := List.idxOf_lt_length_of_mem hb
  have hr := hall (loc.idxOf a) (loc.idxOf b) (hn ▸ hia) (hn ▸ hib)
  have := reach_sub_reachIn hn hwf' hedge hia hr
  have ea : loc.getD (loc.idxOf a) 0 = a := by
    have : loc.getD (loc.idxOf a) 0 = loc[loc.idxOf a] := by simp [hia]
    rw [this]; exact List.getElem_idxOf hia
  have eb : loc.getD (loc.idxOf b) 0 = b := by
    have : loc.getD (loc.idxOf b) 0 = loc[loc.idxOf b] := by simp [hib]
    rw [this]; exact List.getElem_idxOf hib
  rw [ea, eb] at this
  exact this

theorem canExe_ok {free : Nat → Bool} {g : G} (hwf : g.WF) {π : List Nat} {o : Op}
    (h : canExe free g π o = some true) : EmOK free g (.gate (relab (piAt π) o)) := by
  unfold canExe at h
  unfold EmOK
  by_cases hf : free o.gid = true
  · left; simpa [relab] using hf
  · by_cases h1 : o.loc.length = 1
    · right; left; simpa [relab] using h1
    · right; right
      cases hs : g.subgraph (o.loc.map (piAt π)) none with
      | none => simp [hf, h1, hs] at h
      | some hsub =>
        have hc : hsub.isFullyConnected = true := by
          simpa [hf, h1, hs] using h
        simpa [relab] using subgraph_connected_connectedOn hwf hs hc

/-- two distinct vertices forming a connected set are adjacent -/
theorem connectedOn_pair {g : G} {x y : Nat} (hxy : x ≠ y) (h : ConnectedOn g [x, y]) :
    g.hasEdge x y = true := by
  have hr := h x (by simp) y (by simp)
  -- any walk inside {x,y} from x that ends in y uses the edge
  have key : ∀ a b, ReachIn g [x, y] a b → a = x → (b = x ∨ g.hasEdge x y = true) := by
    intro a b hab
    induction hab with
    | refl _ => intro h; exact Or.inl h
    | step hab' hc he ih =>
      intro hax
      rename_i b' c
      rcases ih hax with hb | hb
      · have : c = x ∨ c = y := by simpa using hc
        rcases this with hcx | hcy
        · exact Or.inl hcx
        · right; rw [← hb, ← hcy]; exact he
      · exact Or.inr hb
  rcases key x y hr rfl with h' | h'
  · exact absurd h'.symm hxy
  · exact h'

/-- the qudit labels an emitted item mentions -/
def Em.labels : Em → List Nat
  | .gate o => o.loc
  | .swap a b => [a, b]
  | .vswap a b => [a, b]

/-! ### the invariant -/
structure Inv (free : Nat → Bool) (g : G) (n : Nat) (ops0 : List Op) (s : St) : Prop where
  perm : PermN n s.pi
  bound : ∀ e ∈ s.out, ∀ x ∈ e.labels, x < n
  un : ∃ L, unroute (List.range n) s.out = (L, s.pi) ∧ (L ++ s.rem).Perm ops0 ∧
        ∀ q, proj q (L ++ s.rem) = proj q ops0
  ok : ∀ e ∈ s.out, EmOK free g e

theorem inv_init (free : Nat → Bool) (g : G) (n : Nat) (ops : List Op) :
    Inv free g n ops (init n ops) :=
  ⟨PermN.range n, by simp [init], ⟨[], by simp [init, unroute], by simp [init], by simp [init]⟩,
    by simp [init]⟩

theorem Inv.remWF {free g n ops0 s} (hw : OpsWF n ops0) (h : Inv free g n ops0 s) :
    OpsWF n s.rem := by
  obtain ⟨L, _, hp, _⟩ := h.un
  intro o ho
  exact hw o (hp.subset (List.mem_append_right _ ho))

/-- the common part of `exec`-like moves: remove a front operation, emit it through `π'`
(the assignment current when it is emitted) -/
theorem inv_exec {free g n ops0} (hw : OpsWF n ops0) {s : St} (h : Inv free g n ops0 s)
    {i : Nat} {o : Op} (hi : s.rem[i]? = some o) (hf : inFront s.rem i = true)
    (hok : EmOK free g (.gate (relab (piAt s.pi) o))) :
    Inv free g n ops0 ⟨removeAt s.rem i, s.pi, s.out ++ [.gate (relab (piAt s.pi) o)]⟩ := by
  obtain ⟨L, hun, hperm, hproj⟩ := h.un
  have hsplit := split_at s.rem i o hi
  have hdis := inFront_spec hi hf
  have howf : o.loc.Nodup ∧ ∀ q ∈ o.loc, q < n :=
    h.remWF hw o (by rw [hsplit]; simp)
  refine ⟨h.perm, ?_, ⟨L ++ [o], ?_, ?_, ?_⟩, ?_⟩
  · intro e he x hx
    rcases List.mem_append.1 he with he | he
    · exact h.bound e he x hx
    · have : e = .gate (relab (piAt s.pi) o) := by simpa using he
      rw [this] at hx
      simp only [Em.labels, relab, List.mem_map] at hx
      obtain ⟨q, hq, rfl⟩ := hx
      exact h.perm.2.2 _ (piAt_mem (by rw [h.perm.2.1]; exact howf.2 q hq))
  · rw [unroute_append, hun]
    simp only [unroute_gate]
    rw [relab_idxOf_piAt h.perm.1 (fun q hq => by rw [h.perm.2.1]; exact howf.2 q hq)]
  · refine List.Perm.trans ?_ hperm
    rw [hsplit]
    simp only [removeAt]
    have e1 : (s.rem.take i ++ o :: s.rem.drop (i + 1)).take i = s.rem.take i := by
      rw [← hsplit]
    have e2 : (s.rem.take i ++ o :: s.rem.drop (i + 1)).drop (i + 1) = s.rem.drop (i + 1) := by
      rw [← hsplit]
    rw [e1, e2]
    simp only [List.append_assoc]
    refine List.Perm.append_left L ?_
    simp only [List.singleton_append]
    exact List.perm_middle.symm
  · intro q
    rw [← hproj q]
    have e : removeAt s.rem i = s.rem.take i ++ s.rem.drop (i + 1) := rfl
    rw [e]
    conv => rhs; rw [hsplit]
    have e1 : (s.rem.take i ++ o :: s.rem.drop (i + 1)).take i = s.rem.take i := by
      rw [← hsplit]
    have e2 : (s.rem.take i ++ o :: s.rem.drop (i + 1)).drop (i + 1) = s.rem.drop (i + 1) := by
      rw [← hsplit]
    exact proj_move_front q L (s.rem.take i) (s.rem.drop (i + 1)) o hdis
  · intro e he
    rcases List.mem_append.1 he with he | he
    · exact h.ok e he
    · have : e = .gate (relab (piAt s.pi) o) := by simpa using he
      rw [this]; exact hok

theorem inv_swap {free g n ops0} {s : St} (h : Inv free g n ops0 s) {a b : Nat}
    {π' : List Nat} (hs : applySwap s.pi a b = some π') (e : Em)
    (he : e = .swap a b ∨ e = .vswap a b) (hok : EmOK free g e) :
    Inv free g n ops0 { s with pi := π', out := s.out ++ [e] } := by
  have hmem : a ∈ s.pi ∧ b ∈ s.pi := by
    rw [← applySwap_isSome_iff, hs]; rfl
  have hπ' : π' = s.pi.map (swapFn a b) := by
    rw [applySwap_eq_map h.perm.1 hmem.1 hmem.2] at hs
    exact (Option.some.inj hs).symm
  obtain ⟨L, hun, hperm, hproj⟩ := h.un
  refine ⟨hπ' ▸ h.perm.swap hmem.1 hmem.2, ?_, ⟨L, ?_, hperm, hproj⟩, ?_⟩
  · intro e' he' x hx
    rcases List.mem_append.1 he' with he' | he'
    · exact h.bound e' he' x hx
    · have : e' = e := by simpa using he'
      rw [this] at hx
      have hx' : x = a ∨ x = b := by
        rcases he with rfl | rfl <;> simpa [Em.labels] using hx
      rcases hx' with rfl | rfl
      · exact h.perm.2.2 _ hmem.1
      · exact h.perm.2.2 _ hmem.2
  · rw [unroute_append, hun]
    rcases he with rfl | rfl
    · simp [unroute_swap, hπ']
    · simp [unroute_vswap, hπ']
  · intro e' he'
    rcases List.mem_append.1 he' with he' | he'
    · exact h.ok e' he'
    · have : e' = e := by simpa using he'
      rw [this]; exact hok

theorem inv_unswap {free g n ops0} {s : St} (h : Inv free g n ops0 s) {a b : Nat}
    {π' : List Nat} (hs : applySwap s.pi a b = some π')
    (hl : s.out.getLast? = some (.swap a b)) :
    Inv free g n ops0 { s with pi := π', out := s.out.dropLast } := by
  have hmem : a ∈ s.pi ∧ b ∈ s.pi := by
    rw [← applySwap_isSome_iff, hs]; rfl
  have hπ' : π' = s.pi.map (swapFn a b) := by
    rw [applySwap_eq_map h.perm.1 hmem.1 hmem.2] at hs
    exact (Option.some.inj hs).symm
  obtain ⟨L, hun, hperm, hproj⟩ := h.un
  have hout : s.out = s.out.dropLast ++ [.swap a b] := by
    have hne : s.out ≠ [] := by
      intro e; rw [e] at hl; simp at hl
    have := List.dropLast_concat_getLast hne
    rw [List.getLast?_eq_some_getLast hne] at hl
    rw [Option.some.inj hl] at this
    exact this.symm
  rw [hout, unroute_append] at hun
  simp only [unroute_swap, List.append_nil] at hun
  have hL : (unroute (List.range n) s.out.dropLast).1 = L := congrArg Prod.fst hun
  have hP : (unroute (List.range n) s.out.dropLast).2.map (swapFn a b) = s.pi :=
    congrArg Prod.snd hun
  have hπ'' : π' = (unroute (List.range n) s.out.dropLast).2 := by
    rw [hπ', ← hP, map_swapFn_map_swapFn]
  refine ⟨hπ' ▸ h.perm.swap hmem.1 hmem.2,
    fun e he => h.bound e (List.dropLast_subset _ he), ⟨L, ?_, hperm, hproj⟩, ?_⟩
  · show unroute (List.range n) s.out.dropLast = (L, π')
    rw [hπ'', ← hL]
  · intro e he
    exact h.ok e (List.dropLast_subset _ he)

/-! ### moves -/
def Move.isSabre : Move → Bool
  | .exec _ => true
  | .swap _ _ => true
  | .unswap _ _ => true
  | _ => false

theorem inv_vswaps {free g n ops0} (S : List (Nat × Nat)) {s : St} (h : Inv free g n ops0 s)
    {π' : List Nat} (hs : applySwaps S s.pi = some π') :
    Inv free g n ops0 { s with pi := π', out := s.out ++ S.map (fun e => .vswap e.1 e.2) } := by
  induction S generalizing s with
  | nil =>
    simp only [applySwaps] at hs
    have : π' = s.pi := (Option.some.inj hs).symm
    subst this
    simpa using h
  | cons e S ih =>
    obtain ⟨a, b⟩ := e
    simp only [applySwaps] at hs
    cases h1 : applySwap s.pi a b with
    | none => simp [h1] at hs
    | some π1 =>
      rw [h1] at hs
      simp only [Option.bind_some] at hs
      have hi := inv_swap h h1 (.vswap a b) (Or.inr rfl) trivial
      have := ih hi hs
      simpa [List.append_assoc] using this

/-- the values `pi` takes on a block are only permuted by `_apply_perm` with a rearrangement of
the block's own location -/
theorem permRes_vals {p π : List Nat} {loc : List Nat} (hnd : p.Nodup)
    (hlt : ∀ q ∈ p, q < π.length) (hp : sortNat p = sortNat loc) :
    ∀ x, x ∈ loc.map (piAt (permRes p π)) ↔ x ∈ loc.map (piAt π) := by
  have hpl : p.Perm loc := ((sortNat_perm p).symm.trans (hp ▸ sortNat_perm loc))
  have hmem : ∀ q, q ∈ p ↔ q ∈ loc := fun q => hpl.mem_iff
  have hsm : ∀ q, q ∈ sortNat p ↔ q ∈ p := fun q => (sortNat_perm p).mem_iff
  intro x
  simp only [List.mem_map]
  constructor
  · rintro ⟨q, hq, rfl⟩
    -- q = (sortNat p)[i]
    have hqs : q ∈ sortNat p := (hsm q).2 ((hmem q).2 hq)
    have hi := List.idxOf_lt_length_of_mem hqs
    have hi' : (sortNat p).idxOf q < p.length := by rw [← sortNat_length p]; exact hi
    have e : (sortNat p).getD ((sortNat p).idxOf q) 0 = q := by
      rw [getD_of_lt hi]; exact List.getElem_idxOf hi
    have := permRes_at hnd hlt _ hi'
    rw [e] at this
    refine ⟨p.getD ((sortNat p).idxOf q) 0, ?_, this.symm⟩
    rw [getD_of_lt hi']
    exact (hmem _).1 (List.getElem_mem hi')
  · rintro ⟨q, hq, rfl⟩
    have hqp : q ∈ p := (hmem q).2 hq
    have hi := List.idxOf_lt_length_of_mem hqp
    have e : p.getD (p.idxOf q) 0 = q := by
      rw [getD_of_lt hi]; exact List.getElem_idxOf hi
    have := permRes_at hnd hlt _ hi
    rw [e] at this
    have hi' : p.idxOf q < (sortNat p).length := by rw [sortNat_length p]; exact hi
    refine ⟨(sortNat p).getD (p.idxOf q) 0, ?_, this⟩
    rw [getD_of_lt hi']
    exact (hmem _).1 ((hsm _).1 (List.getElem_mem hi'))

theorem connectedOn_congr {g : G} {S S' : List Nat} (h : ∀ x, x ∈ S' ↔ x ∈ S)
    (hc : ConnectedOn g S) : ConnectedOn g S' := by
  intro a ha b hb
  exact (hc a ((h a).1 ha) b ((h b).1 hb)).mono (fun x hx => (h x).2 hx)

theorem nodup_map_piAt {π : List Nat} (hnd : π.Nodup) {l : List Nat} (hl : l.Nodup)
    (hlt : ∀ q ∈ l, q < π.length) : (l.map (piAt π)).Nodup := by
  refine nodup_map_of_inj_on ?_ hl
  intro x hx y hy hxy
  have h1 := idxOf_piAt hnd (hlt x hx)
  have h2 := idxOf_piAt hnd (hlt y hy)
  rw [hxy] at h1
  rw [← h1, h2]

theorem applyPerm_some {p π π' : List Nat} (h : applyPerm p π = some π') :
    (∀ q ∈ p, q < π.length) ∧ π' = permRes p π := by
  rw [applyPerm_eq] at h
  by_cases hc : p.all (· < π.length) = true
  · rw [if_pos hc] at h
    exact ⟨by simpa using hc, (Option.some.inj h).symm⟩
  · rw [if_neg hc] at h; cases h

theorem nodupL_iff (l : List Nat) : nodupL l = true ↔ l.Nodup := by
  induction l with
  | nil => simp [nodupL]
  | cons a l ih => simp [nodupL, ih]

/-- every move preserves the invariant -/
theorem inv_step {free : Nat → Bool} {g : G} {n : Nat} {ops0 : List Op} (hwf : g.WF)
    (hw : OpsWF n ops0) {s s' : St} (h : Inv free g n ops0 s) (m : Move)
    (hs : step free g s m = some s') : Inv free g n ops0 s' := by
  cases m with
  | exec i =>
    simp only [step] at hs
    cases hi : s.rem[i]? with
    | none => simp [hi] at hs
    | some o =>
      simp only [hi] at hs
      split at hs
      · rename_i hc
        simp only [Bool.and_eq_true, beq_iff_eq] at hc
        have := inv_exec hw h hi hc.1 (canExe_ok hwf hc.2)
        rw [← Option.some.inj hs]; exact this
      · cases hs
  | swap a b =>
    simp only [step] at hs
    split at hs
    · rename_i he
      cases h1 : applySwap s.pi a b with
      | none => simp [h1] at hs
      | some π' =>
        simp only [h1] at hs
        rw [← Option.some.inj hs]
        exact inv_swap h h1 (.swap a b) (Or.inl rfl) he
    · cases hs
  | unswap a b =>
    simp only [step] at hs
    split at hs
    · rename_i hl
      cases h1 : applySwap s.pi a b with
      | none => simp [h1] at hs
      | some π' =>
        simp only [h1] at hs
        rw [← Option.some.inj hs]
        exact inv_unswap h h1 (by simpa using hl)
    · cases hs
  | pamBarrier i =>
    simp only [step] at hs
    cases hi : s.rem[i]? with
    | none => simp [hi] at hs
    | some o =>
      simp only [hi] at hs
      split at hs
      · rename_i hc
        simp only [Bool.and_eq_true] at hc
        have hok : EmOK free g (.gate (relab (piAt s.pi) o)) := by
          unfold EmOK; left; simpa [relab] using hc.2
        have := inv_exec hw h hi hc.1 hok
        rw [← Option.some.inj hs]; exact this
      · cases hs
  | perm i p1 p2 s1 s2 =>
    simp only [step] at hs
    cases hi : s.rem[i]? with
    | none => simp [hi] at hs
    | some o =>
      simp only [hi] at hs
      split at hs
      · rename_i hc
        simp only [Bool.and_eq_true, beq_iff_eq] at hc
        obtain ⟨⟨⟨⟨hfr, hce⟩, hp1⟩, hp2⟩, hlnd⟩ := hc
        cases h1 : applyPerm p1 s.pi with
        | none => simp [h1] at hs
        | some π1 =>
          simp only [h1] at hs
          cases h2 : applyPerm p2 π1 with
          | none => simp [h2] at hs
          | some π2 =>
            simp only [h2] at hs
            split at hs
            · rename_i hg
              simp only [Bool.and_eq_true, beq_iff_eq] at hg
              obtain ⟨⟨⟨hs1, hs2⟩, _⟩, _⟩ := hg
              rw [← Option.some.inj hs]
              -- virtual swaps S1
              have hA := inv_vswaps s1 h hs1
              -- the block, emitted through π1
              have hlocnd : o.loc.Nodup := (nodupL_iff _).1 hlnd
              have hp1nd : p1.Nodup := by
                have : p1.Perm o.loc := (sortNat_perm p1).symm.trans (hp1 ▸ sortNat_perm o.loc)
                exact this.nodup_iff.2 hlocnd
              obtain ⟨hlt1, hπ1⟩ := applyPerm_some h1
              have hok0 := canExe_ok hwf hce
              have hok : EmOK free g (.gate (relab (piAt π1) o)) := by
                unfold EmOK at hok0 ⊢
                rcases hok0 with hf | hl | ⟨_, hb, hcn⟩
                · left; simpa [relab] using hf
                · right; left; simpa [relab] using hl
                · right; right
                  have hvals := permRes_vals (π := s.pi) (loc := o.loc) hp1nd hlt1 hp1
                  have howf : ∀ q ∈ o.loc, q < n := by
                    have hrw := h.remWF hw o (by rw [split_at s.rem i o hi]; simp)
                    exact hrw.2
                  refine ⟨?_, ?_, ?_⟩
                  · simp only [relab]
                    exact nodup_map_piAt hA.perm.1 hlocnd
                      (fun q hq => by rw [hA.perm.2.1]; exact howf q hq)
                  · intro q hq
                    simp only [relab] at hq hb
                    rw [hπ1] at hq
                    exact hb q ((hvals q).1 hq)
                  · simp only [relab] at hcn ⊢
                    rw [hπ1]
                    exact connectedOn_congr hvals hcn
              have hB := inv_exec hw hA hi hfr hok
              have hC := inv_vswaps s2 hB hs2
              exact hC
            · cases hs
      · cases hs

theorem inv_run {free : Nat → Bool} {g : G} {n : Nat} {ops0 : List Op} (hwf : g.WF)
    (hw : OpsWF n ops0) (moves : List Move) {s s' : St} (h : Inv free g n ops0 s)
    (hr : run free g s moves = some s') :
    Inv free g n ops0 s' := by
  induction moves generalizing s with
  | nil =>
    simp only [run] at hr
    rw [← Option.some.inj hr]; exact h
  | cons m ms ih =>
    simp only [run] at hr
    cases h1 : step free g s m with
    | none => simp [h1] at hr
    | some s1 =>
      rw [h1] at hr
      simp only [Option.bind_some] at hr
      exact ih (inv_step hwf hw h m h1) hr

/-- gate identity without the location -/
def strip (o : Op) : Nat × List Int × List Nat := (o.gid, o.par, o.rad)

def gatesOf : List Em → List Op
  | [] => []
  | .gate o :: r => o :: gatesOf r
  | _ :: r => gatesOf r

theorem unroute_strip (π : List Nat) (l : List Em) :
    (unroute π l).1.map strip = (gatesOf l).map strip := by
  induction l generalizing π with
  | nil => simp [unroute, gatesOf]
  | cons e r ih =>
    cases e with
    | gate o => simp [unroute, gatesOf, ih, strip, relab]
    | swap a b => simp [unroute, gatesOf, ih]
    | vswap a b => simp [unroute, gatesOf, ih]

end BqVerif.Route
