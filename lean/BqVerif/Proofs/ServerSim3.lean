import BqVerif.Proofs.ServerSim2
/-! C13: every handler commutes with the abstraction relation and answers as the automaton. -/
namespace BqVerif.Server

theorem openFor_cases {st : TaskSt} {c : Conn} (h : st.openFor c = true) :
    (∃ w, st = .running c w) ∨ (∃ v, st = .done c v) := by
  cases st with
  | running o w => simp [TaskSt.openFor] at h; subst h; exact Or.inl ⟨w, rfl⟩
  | done o v => simp [TaskSt.openFor] at h; subst h; exact Or.inr ⟨v, rfl⟩
  | _ => simp [TaskSt.openFor] at h

theorem spec_request_notOpen {a : Abs} {c : Conn} {t : Tid} (h : (a.task t).openFor c = false) :
    spec a (.request c t) = (a.drop c, [.errorTo c 0, .close c]) := by
  simp only [spec]
  cases hst : a.task t with
  | running o w =>
    have : o ≠ c := by intro e; subst e; simp [hst, TaskSt.openFor] at h
    simp [this]
  | done o v =>
    have : o ≠ c := by intro e; subst e; simp [hst, TaskSt.openFor] at h
    simp [this]
  | _ => rfl

theorem statusOf_spec {s : Srv} {a : Abs} (h : Inv s) (r : R s a) {c ts} (t : Tid)
    (hc : get? s.clients c = some ts) : statusOf s ts t = (a.task t).statusFor c := by
  have mi := r.mine_iff h t hc
  by_cases ht : t ∈ ts
  · rcases openFor_cases (mi.mpr ht) with ⟨w, hst⟩ | ⟨v, hst⟩
    · have rt := r.task t; rw [hst] at rt
      obtain ⟨m, ts', h1, _, _, h4⟩ := rt
      simp [statusOf, ht, h1, h4, hst, TaskSt.statusFor]
    · have rt := r.task t; rw [hst] at rt
      obtain ⟨m, ts', h1, _, _, h4⟩ := rt
      simp [statusOf, ht, h1, h4, hst, TaskSt.statusFor]
  · have no : (a.task t).openFor c = false := by
      cases hx : (a.task t).openFor c with
      | false => rfl
      | true => exact absurd (mi.mp hx) ht
    simp only [statusOf, ht, if_false]
    cases hst : a.task t with
    | running o w =>
      have : o ≠ c := by intro e; subst e; simp [hst, TaskSt.openFor] at no
      simp [TaskSt.statusFor, this]
    | done o v =>
      have : o ≠ c := by intro e; subst e; simp [hst, TaskSt.openFor] at no
      simp [TaskSt.statusFor, this]
    | _ => rfl

theorem clientReplies_nil : clientReplies [] = [] := rfl

/-- closes goals of the form `clientReplies s'.out = [..]` -/
macro "replies" : tactic =>
  `(tactic| ((try simp [*, clientReplies, Srv.emit, Out.reply?, afterCancel, afterDeliver, afterSubmit,
      spec, absEv]) <;> (try rfl)))

/-- `handle_message` without the reset of the per-step log -/
def handle (s : Srv) : Ev → Except Err Srv
  | .connect c => .ok { s with clients := set s.clients c [] }
  | .hello c => handleConnect s c
  | .submit c t => handleNewCompTask s c t
  | .request c t => handleRequest s c t
  | .status c t => handleStatus s c t
  | .cancel c t => handleCancel s c t
  | .disconnect c => handleDisconnect s c
  | .result m v => handleResult s m v
  | .error m msg => handleError s m msg
  | .log m msg => routeUp s m (fun c => .logTo c msg)

theorem step_eq_handle (s : Srv) (e : Ev) : step s e = handle { s with out := [] } e := by
  cases e <;> rfl

theorem sim_handle {s : Srv} {a : Abs} (h0 : Inv s) (r0 : R s a) (ho : s.out = []) (e : Ev)
    (hw : wf s e = true) {s' : Srv} (hs : handle s e = .ok s') :
    R s' (spec a (absEv s e)).1 ∧ clientReplies s'.out = (spec a (absEv s e)).2 := by
  cases e with
  | connect c =>
    simp only [wf, Bool.and_eq_true, Option.isNone_iff_eq_none] at hw
    simp only [handle] at hs; cases hs
    exact ⟨r0.connect hw.1, by simp [ho, clientReplies, spec, absEv]⟩
  | hello c =>
    simp only [handle, handleConnect] at hs; cases hs
    exact ⟨r0.congr rfl rfl rfl, by replies⟩
  | submit c t =>
    simp only [wf, Bool.and_eq_true, Option.isNone_iff_eq_none] at hw
    obtain ⟨ts, hc⟩ := wf_client hw.1
    have e1 := handleNewCompTask_eq h0 hc hw.2
    simp only [handle] at hs; rw [e1] at hs; cases hs
    exact ⟨r0.submit h0 hc hw.2, by simp [afterSubmit, Srv.emit, ho, clientReplies, Out.reply?, spec, absEv]⟩
  | status c t =>
    obtain ⟨ts, hc⟩ := wf_client (by simpa [wf] using hw)
    have e1 := handleStatus_eq h0 t hc
    simp only [handle] at hs; rw [e1] at hs; cases hs
    refine ⟨r0.congr rfl rfl rfl, ?_⟩
    simp [spec, absEv, Srv.emit, ho, clientReplies, Out.reply?, statusOf_spec h0 r0 t hc]
  | cancel c t =>
    obtain ⟨ts, hc⟩ := wf_client (by simpa [wf] using hw)
    have mi := r0.mine_iff h0 t hc
    simp only [handle] at hs
    rcases handleCancel_eq h0 t hc with ⟨ht, e1⟩ | ⟨ht, m, b, h1, _, e1⟩
    · rw [e1] at hs; cases hs
      have no : (a.task t).openFor c = false := by
        cases hx : (a.task t).openFor c with
        | false => rfl
        | true => exact absurd (mi.mp hx) ht
      simp only [spec, absEv, no]
      exact ⟨r0.congr rfl rfl rfl, by replies⟩
    · rw [e1] at hs; cases hs
      simp only [spec, absEv, mi.mpr ht, if_true]
      have cl : ClosedLike s (afterCancel s c ts t m) c ts t m :=
        ⟨rfl, fun c' => by simp [afterCancel, Srv.emit, get?_set],
          fun m' => by simp [afterCancel, Srv.emit, get?_del]⟩
      exact ⟨r0.close h0 hc ht h1 cl _ (Or.inr rfl), by replies⟩
  | request c t =>
    obtain ⟨ts, hc⟩ := wf_client (by simpa [wf] using hw)
    have mi := r0.mine_iff h0 t hc
    simp only [handle] at hs
    by_cases ht : t ∈ ts
    · obtain ⟨m, b, h1, h2, e1⟩ := handleRequest_mine h0 hc ht
      rw [e1] at hs
      rcases openFor_cases (mi.mpr ht) with ⟨w, hst⟩ | ⟨v, hst⟩
      · have rt := r0.task t; rw [hst] at rt
        obtain ⟨m', ts', x1, x2, x3, x4⟩ := rt
        rw [h1] at x1; cases x1
        rw [h2] at x4; cases x4
        simp only at hs; cases hs
        simp only [spec, absEv, hst, if_true]
        refine ⟨r0.setBox h0 _ _ h1 ⟨m, ts, h1, hc, ht, by simp [get?_set]⟩, by replies⟩
      · have rt := r0.task t; rw [hst] at rt
        obtain ⟨m', ts', x1, x2, x3, x4⟩ := rt
        rw [h1] at x1; cases x1
        rw [h2] at x4; cases x4
        simp only at hs; cases hs
        simp only [spec, absEv, hst, if_true]
        have cl : ClosedLike s (afterDeliver s c ts t m v) c ts t m :=
          ⟨rfl, fun c' => by simp [afterDeliver, Srv.emit, get?_set],
            fun m' => by simp [afterDeliver, Srv.emit, get?_del]⟩
        exact ⟨r0.close h0 hc ht h1 cl _ (Or.inl rfl), by replies⟩
    · have no : (a.task t).openFor c = false := by
        cases hx : (a.task t).openFor c with
        | false => rfl
        | true => exact absurd (mi.mp hx) ht
      rw [handleRequest_notMine h0 hc ht] at hs
      obtain ⟨s'', e2, p⟩ := handleDisconnect_post (h0.emit (.errorNow c 0)) (c := c) (ts := ts) hc
      rw [e2] at hs; cases hs
      simp only [absEv, spec_request_notOpen no]
      have r1 : R (s.emit (.errorNow c 0)) a := r0.congr rfl rfl rfl
      refine ⟨r1.disc (h0.emit _) p, ?_⟩
      rw [p.replies]; replies
  | disconnect c =>
    obtain ⟨ts, hc⟩ := wf_client (by simpa [wf] using hw)
    obtain ⟨s'', e2, p⟩ := handleDisconnect_post h0 (c := c) (ts := ts) hc
    simp only [handle] at hs; rw [e2] at hs; cases hs
    simp only [absEv, spec]
    refine ⟨r0.disc h0 p, ?_⟩
    rw [p.replies]; replies
  | result m v =>
    simp only [handle] at hs
    simp only [absEv]
    rcases handleResult_eq h0 m v with
      ⟨hb, e1⟩ | ⟨b, t, c, ts, hb, hm, h1, hc, ht, e1⟩
    · rw [e1] at hs; cases hs
      cases hm : get? s.m2t m with
      | none => exact ⟨r0, by replies⟩
      | some t =>
        obtain ⟨c, h1⟩ := h0.mt m t hm
        have rt := r0.task t
        simp only [spec]
        cases hst : a.task t with
        | unknown => rw [hst] at rt; simp only [TaskRel] at rt; rw [h1] at rt; cases rt
        | running o w =>
          rw [hst] at rt
          obtain ⟨m', ts', x1, _, _, x4⟩ := rt
          rw [h1] at x1; cases x1; rw [hb] at x4; cases x4
        | done o v0 =>
          rw [hst] at rt
          obtain ⟨m', ts', x1, _, _, x4⟩ := rt
          rw [h1] at x1; cases x1; rw [hb] at x4; cases x4
        | delivered o => exact ⟨r0, by replies⟩
        | cancelled o => exact ⟨r0, by replies⟩
    · rw [e1] at hs; cases hs
      have hm' : get? s.m2t m = some t := hm
      have mi := r0.mine_iff h0 t hc
      simp only [hm', spec]
      rcases openFor_cases (mi.mpr ht) with ⟨w, hst⟩ | ⟨v0, hst⟩
      · have rt := r0.task t; rw [hst] at rt
        obtain ⟨m', ts', x1, x2, x3, x4⟩ := rt
        rw [h1] at x1; cases x1
        rw [hb] at x4; cases x4
        cases w with
        | false =>
          simp only [hst, afterResult]
          refine ⟨r0.setBox h0 _ _ h1 ⟨m, ts, h1, hc, ht, by simp [get?_set]⟩, by replies⟩
        | true =>
          have cl : ClosedLike s (afterResult s m ⟨none, true⟩ v t c ts) c ts t m :=
            ⟨rfl, fun c' => by simp [afterResult, Srv.emit, get?_set],
              fun m' => by
                simp only [afterResult, Srv.emit, get?_del, get?_set, if_true]
                by_cases e : m = m' <;> simp [e]⟩
          simp only [hst]
          exact ⟨r0.close h0 hc ht h1 cl _ (Or.inl rfl), by simp [afterResult]; replies⟩
      · have rt := r0.task t; rw [hst] at rt
        obtain ⟨m', ts', x1, x2, x3, x4⟩ := rt
        rw [h1] at x1; cases x1
        rw [hb] at x4; cases x4
        simp only [hst, afterResult]
        refine ⟨r0.setBox h0 _ _ h1 ⟨m, ts, h1, hc, ht, by simp [get?_set]⟩, by replies⟩
  | error m msg =>
    simp only [handle] at hs
    simp only [absEv]
    rcases handleError_eq h0 m msg with ⟨hb, e1⟩ | ⟨b, t, c, ts, hb, hm, h1, hc, ht, e1⟩
    · rw [e1] at hs; cases hs
      cases hm : get? s.m2t m with
      | none => simp only [spec]; exact ⟨r0, by replies⟩
      | some t =>
        obtain ⟨c, h1⟩ := h0.mt m t hm
        have rt := r0.task t
        simp only [spec]
        cases hst : a.task t with
        | unknown => rw [hst] at rt; simp only [TaskRel] at rt; rw [h1] at rt; cases rt
        | running o w =>
          rw [hst] at rt
          obtain ⟨m', ts', x1, _, _, x4⟩ := rt
          rw [h1] at x1; cases x1; rw [hb] at x4; cases x4
        | done o v0 =>
          rw [hst] at rt
          obtain ⟨m', ts', x1, _, _, x4⟩ := rt
          rw [h1] at x1; cases x1; rw [hb] at x4; cases x4
        | delivered o => exact ⟨r0, by replies⟩
        | cancelled o => exact ⟨r0, by replies⟩
    · rw [e1] at hs; cases hs
      have hm' : get? s.m2t m = some t := hm
      have mi := r0.mine_iff h0 t hc
      simp only [hm', spec]
      rcases openFor_cases (mi.mpr ht) with ⟨w, hst⟩ | ⟨v0, hst⟩
      · simp only [hst]; exact ⟨r0.congr rfl rfl rfl, by replies⟩
      · simp only [hst]; exact ⟨r0.congr rfl rfl rfl, by replies⟩
  | log m msg =>
    simp only [handle] at hs
    simp only [absEv]
    rcases routeUp_eq h0 m (fun c => .logTo c msg) with
      ⟨hm, e1⟩ | ⟨t, c, hm, h1, e1⟩
    · rw [e1] at hs; cases hs
      have hm' : get? s.m2t m = none := hm
      simp only [hm', spec]; exact ⟨r0, by replies⟩
    · rw [e1] at hs; cases hs
      have hm' : get? s.m2t m = some t := hm
      have ow := (r0.task t).owner
      rw [h1] at ow; simp at ow
      simp only [hm', spec, ow]
      exact ⟨r0.congr rfl rfl rfl, by replies⟩

theorem sim_step {s : Srv} {a : Abs} (h : Inv s) (r : R s a) (e : Ev) (hw : wf s e = true)
    {s' : Srv} (hs : step s e = .ok s') :
    R s' (spec a (absEv s e)).1 ∧ clientReplies s'.out = (spec a (absEv s e)).2 := by
  rw [step_eq_handle] at hs
  have := sim_handle (s := { s with out := [] }) h.clearOut (r.congr rfl rfl rfl) rfl e
    (by cases e <;> exact hw) hs
  cases e <;> exact this

end BqVerif.Server
