import BqVerif.Model.Crash
/-
C14 - the potential argument: every transition leaves every node's weight at most where it was, up to the accounted
growth; a critical delivery lowers the weight of the employee it reads by at least one.
-/
namespace BqVerif.Crash

@[simp] theorem upd_apply {α : Type} (f : Nat → α) (i j : Nat) (v : α) :
    upd f i v j = if j = i then v else f j := rfl

/-! ### what the shutdown functions do to the fields the weight reads -/

@[simp] theorem baseShutdown_alive (t : Topo) (s : State) (p : Nat) :
    (baseShutdown t s p).alive = s.alive := rfl
@[simp] theorem baseShutdown_running (t : Topo) (s : State) (p : Nat) :
    (baseShutdown t s p).running = upd s.running p false := rfl
@[simp] theorem baseShutdown_outbox (t : Topo) (s : State) (p : Nat) :
    (baseShutdown t s p).outbox = s.outbox := rfl
@[simp] theorem baseShutdown_upOpen (t : Topo) (s : State) (p : Nat) :
    (baseShutdown t s p).upOpen = s.upOpen := rfl
@[simp] theorem baseShutdown_toClient (t : Topo) (s : State) (p : Nat) :
    (baseShutdown t s p).toClient = s.toClient := rfl
@[simp] theorem baseShutdown_copen (t : Topo) (s : State) (p : Nat) :
    (baseShutdown t s p).copen = s.copen := rfl

@[simp] theorem finishShutdown_alive (s : State) (p : Nat) :
    (finishShutdown s p).alive = s.alive := rfl
@[simp] theorem finishShutdown_running (s : State) (p : Nat) :
    (finishShutdown s p).running = s.running := rfl
@[simp] theorem finishShutdown_toClient (s : State) (p : Nat) :
    (finishShutdown s p).toClient = s.toClient := rfl

@[simp] theorem shutdownNode_alive (t : Topo) (s : State) (p : Nat) :
    (shutdownNode t s p).alive = s.alive := rfl
@[simp] theorem shutdownNode_running (t : Topo) (s : State) (p : Nat) :
    (shutdownNode t s p).running = upd s.running p false := rfl
@[simp] theorem shutdownNode_toClient (t : Topo) (s : State) (p : Nat) :
    (shutdownNode t s p).toClient = s.toClient := rfl

theorem shutdownNode_outbox (t : Topo) (s : State) (p : Nat) :
    (shutdownNode t s p).outbox =
      if p != 0 && s.upOpen p then upd s.outbox p (s.outbox p ++ [.shutdown]) else s.outbox := rfl

theorem shutdownNode_outbox_len (t : Topo) (s : State) (p i : Nat) :
    ((shutdownNode t s p).outbox i).length ≤ (s.outbox i).length + (if i = p then 1 else 0) := by
  rw [shutdownNode_outbox]
  split
  · by_cases h : i = p <;> simp [h]
  · split <;> omega

@[simp] theorem systemError_alive (t : Topo) (s : State) (p : Nat) :
    (systemError t s p).alive = s.alive := by
  unfold systemError; split <;> (try split) <;> rfl
@[simp] theorem systemError_running (t : Topo) (s : State) (p : Nat) :
    (systemError t s p).running = upd s.running p false := by
  unfold systemError; split <;> (try split) <;> rfl

theorem systemError_outbox_len (t : Topo) (s : State) (p i : Nat) :
    ((systemError t s p).outbox i).length ≤ (s.outbox i).length + (if i = p then 2 else 0) := by
  unfold systemError
  split
  · have := shutdownNode_outbox_len t
      { s with toClient := fun c => if s.copen c then s.toClient c ++ [.error] else s.toClient c,
               syslog := upd s.syslog p (s.syslog p + 1) } p i
    simp only at this ⊢
    split at this <;> split <;> omega
  · split
    · have := shutdownNode_outbox_len t
        { s with outbox := upd s.outbox p (s.outbox p ++ [.sysError]),
                 syslog := upd s.syslog p (s.syslog p + 1) } p i
      simp only [upd_apply] at this ⊢
      by_cases h : i = p
      · simp only [h, if_true, List.length_append, List.length_singleton] at this ⊢; omega
      · simp only [h, if_false] at this ⊢; omega
    · have := shutdownNode_outbox_len t { s with syslog := upd s.syslog p (s.syslog p + 1) } p i
      simp only at this ⊢
      split at this <;> split <;> omega

@[simp] theorem put_alive (s : State) (p : Nat) (l : List (Dest × Msg)) : (s.put p l).alive = s.alive := rfl
@[simp] theorem put_running (s : State) (p : Nat) (l : List (Dest × Msg)) : (s.put p l).running = s.running := rfl
@[simp] theorem put_outbox (s : State) (p : Nat) (l : List (Dest × Msg)) : (s.put p l).outbox = s.outbox := rfl
@[simp] theorem put_toClient (s : State) (p : Nat) (l : List (Dest × Msg)) : (s.put p l).toClient = s.toClient := rfl

/-! ### weight bookkeeping -/

/-- `s'` differs from `s`, as far as weights go, by: more nodes gone, and node `i`'s channel
longer by at most `g i` if it stays, by at most `g i + 2` if it goes. -/
structure WLe (s s' : State) (g : Nat → Nat) : Prop where
  alive : ∀ i, s'.alive i = true → s.alive i = true
  running : ∀ i, s'.running i = true → s.running i = true
  len : ∀ i, (s'.outbox i).length + 2 * b2n (!(s'.gone i)) ≤ (s.outbox i).length + 2 * b2n (!(s.gone i)) + g i

theorem WLe.gone {s s' : State} {g : Nat → Nat} (h : WLe s s' g) (i : Nat) (hg : s.gone i = true) :
    s'.gone i = true := by
  have ha := h.alive i
  have hr := h.running i
  unfold State.gone at *
  cases h1 : s'.alive i <;> cases h2 : s'.running i <;> simp_all

theorem WLe.weight {t : Topo} {s s' : State} {g : Nat → Nat} (h : WLe s s' g) (i : Nat) :
    weight t s' i ≤ weight t s i + g i := by
  have hl := h.len i
  have hp := h.gone (t.parent i)
  unfold Crash.weight
  cases h1 : s.gone (t.parent i) <;> cases h2 : s'.gone (t.parent i) <;> simp_all [b2n] <;> omega

theorem WLe.refl (s : State) : WLe s s (fun _ => 0) := ⟨fun _ h => h, fun _ h => h, fun _ => by omega⟩

theorem WLe.trans {s s' s'' : State} {g g' : Nat → Nat} (h : WLe s s' g) (h' : WLe s' s'' g') :
    WLe s s'' (fun i => g i + g' i) :=
  ⟨fun i x => h.alive i (h'.alive i x), fun i x => h.running i (h'.running i x),
   fun i => by have := h.len i; have := h'.len i; omega⟩

theorem WLe.mono {s s' : State} {g g' : Nat → Nat} (h : WLe s s' g) (hg : ∀ i, g i ≤ g' i) : WLe s s' g' :=
  ⟨h.alive, h.running, fun i => by have := h.len i; have := hg i; omega⟩

/-- only fields the weight does not read changed -/
theorem WLe.of_eq {s s' : State} (ha : s'.alive = s.alive) (hr : s'.running = s.running)
    (ho : s'.outbox = s.outbox) : WLe s s' (fun _ => 0) :=
  ⟨fun i h => by rw [← ha]; exact h, fun i h => by rw [← hr]; exact h,
   fun i => by unfold State.gone; rw [ha, hr, ho]; omega⟩

/-- a node that was not gone shuts down, writing at most two messages upstream -/
theorem WLe.of_shut {s s' : State} {p : Nat} (hp : s.gone p = false)
    (ha : s'.alive = s.alive) (hr : s'.running = upd s.running p false)
    (ho : ∀ i, (s'.outbox i).length ≤ (s.outbox i).length + (if i = p then 2 else 0)) :
    WLe s s' (fun _ => 0) := by
  refine ⟨fun i h => by rw [← ha]; exact h, fun i h => ?_, fun i => ?_⟩
  · rw [hr] at h; simp only [upd_apply] at h; split at h <;> simp_all
  · have := ho i
    unfold State.gone at *
    rw [ha, hr]
    simp only [upd_apply]
    by_cases h : i = p
    · subst h
      simp only [if_true] at this ⊢
      cases h1 : s.alive i <;> cases h2 : s.running i <;> simp_all [b2n] <;> omega
    · simp only [h, if_false] at this ⊢; omega

theorem wle_shutdownNode (t : Topo) {s : State} {p : Nat} (hp : s.gone p = false) :
    WLe s (shutdownNode t s p) (fun _ => 0) :=
  WLe.of_shut hp rfl rfl (fun i => by
    have := shutdownNode_outbox_len t s p i
    split at this <;> split <;> omega)

theorem wle_systemError (t : Topo) {s : State} {p : Nat} (hp : s.gone p = false) :
    WLe s (systemError t s p) (fun _ => 0) :=
  WLe.of_shut hp (systemError_alive t s p) (systemError_running t s p) (systemError_outbox_len t s p)

/-- the strict part: after `p` (parent of `e`) went, `e`'s weight is one lower -/
theorem weight_child_of_gone {t : Topo} {s s' : State} {g : Nat → Nat} (h : WLe s s' g) {e : Nat}
    (hp : s.gone (t.parent e) = false) (hp' : s'.gone (t.parent e) = true) :
    weight t s' e + 1 ≤ weight t s e + g e := by
  have hl := h.len e
  unfold Crash.weight
  simp_all [b2n]
  omega

/-- the strict part: one message of `e` was consumed -/
theorem weight_pop {t : Topo} {s s' : State} {g : Nat → Nat} (h : WLe s s' g) {e : Nat}
    (hl : (s'.outbox e).length + 1 + 2 * b2n (!(s'.gone e)) ≤ (s.outbox e).length + 2 * b2n (!(s.gone e))) :
    weight t s' e + 1 ≤ weight t s e := by
  have hp := h.gone (t.parent e)
  unfold Crash.weight
  cases h1 : s.gone (t.parent e) <;> cases h2 : s'.gone (t.parent e) <;> simp_all [b2n] <;> omega

/-! ### sums over the path -/

theorem sumMap_le {f f' : Nat → Nat} {n : Nat} (l : List Nat)
    (h : ∀ i, f' i ≤ f i + (if i = n then 1 else 0)) : sumMap f' l ≤ sumMap f l + l.count n := by
  induction l with
  | nil => simp [sumMap]
  | cons x xs ih =>
    have := h x
    simp only [sumMap, List.count_cons]
    by_cases hx : x = n
    · subst hx
      simp only [if_true, beq_self_eq_true] at this ⊢; omega
    · have hb : (x == n) = false := by simpa using hx
      simp only [hx, if_false, hb] at this ⊢
      have e : (if false = true then 1 else 0) = 0 := by simp
      omega

theorem sumMap_le0 {f f' : Nat → Nat} (l : List Nat) (h : ∀ i, f' i ≤ f i) : sumMap f' l ≤ sumMap f l := by
  induction l with
  | nil => simp [sumMap]
  | cons x xs ih => have := h x; simp only [sumMap]; omega

theorem sumMap_lt {f f' : Nat → Nat} {e : Nat} (l : List Nat) (he : e ∈ l)
    (h : ∀ i, f' i ≤ f i) (hs : f' e + 1 ≤ f e) : sumMap f' l + 1 ≤ sumMap f l := by
  induction l with
  | nil => cases he
  | cons x xs ih =>
    simp only [sumMap]
    have hx := h x
    rcases List.mem_cons.mp he with rfl | hm
    · have := sumMap_le0 (f := f) (f' := f') xs h; omega
    · have := ih hm; omega

end BqVerif.Crash
