import BqVerif.Proofs.CostModel
/-!
Model-level consequences: the cost formulas of `Model/Cost.lean` (Gaussian rationals) satisfy the
general theorems of `Proofs/CostAlg.lean`.
-/
namespace BqVerif.Cost
open BqVerif.NumC19 BqVerif.CostAlg Matrix

theorem hsInner_eq {n m : Nat} (T U : Mat n m) : hsInner T U = hs T.toM U.toM := by
  unfold hsInner hs
  rw [Mat.trace_toM, Mat.mul_toM, Mat.dagger_toM]

theorem natCast_GQ (n : Nat) : ((n : GQ)) = ⟨(n : Rat), 0⟩ := by
  induction n with
  | zero => rfl
  | succ k ih =>
    rw [Nat.cast_succ, ih]
    ext <;> simp

/-- a model matrix has orthonormal columns -/
def IsoM {n m : Nat} (A : Mat n m) : Prop := Mat.mul (Mat.dagger A) A = Mat.one m

theorem IsoM.toM {n m : Nat} {A : Mat n m} (h : IsoM A) : A.toMᴴ * A.toM = 1 := by
  have := congrArg Mat.toM h
  rwa [Mat.mul_toM, Mat.dagger_toM, Mat.one_toM] at this

theorem isoM_one (n : Nat) : IsoM (Mat.one n) := by
  have : (Mat.mul (Mat.dagger (Mat.one n)) (Mat.one n)).toM = (Mat.one n).toM := by
    rw [Mat.mul_toM, Mat.dagger_toM, Mat.one_toM]; simp
  exact this

theorem hs_self_of_iso {n m : Nat} {A : Mat n m} (h : IsoM A) : hs A.toM A.toM = ((m : Nat) : GQ) := by
  unfold hs; rw [h.toM, trace_one, Fintype.card_fin]

theorem mul_star_GQ (t : GQ) : t * star t = ⟨t.absSq, 0⟩ := by
  ext
  · simp [GQ.absSq]
  · simp; ring

/-- `costGap t K = 0` says `|t|² = K²`. -/
theorem costGap_eq_zero_iff (t : GQ) (K : Rat) (hK : K ≠ 0) :
    costGap t K = 0 ↔ t.absSq = K * K := by
  unfold costGap
  have hKK : K * K ≠ 0 := mul_ne_zero hK hK
  constructor
  · intro h
    have : t.absSq / (K * K) = 1 := by linarith
    rwa [div_eq_one_iff_eq hKK] at this
  · intro h; rw [h, div_self hKK]; ring

/-- general form: two model matrices of squared Frobenius norm `K` -/
theorem costGap_zero_iff_phase {n m : Nat} (A B : Mat n m) (K : Nat) (hK : 0 < K)
    (hA : hsInner A A = ((K : Nat) : GQ)) (hB : hsInner B B = ((K : Nat) : GQ)) :
    costGap (hsInner A B) K = 0 ↔ ∃ l : GQ, l.absSq = 1 ∧ ∀ i j, B i j = l * A i j := by
  have hKq : (K : Rat) ≠ 0 := by exact_mod_cast (Nat.pos_iff_ne_zero.mp hK)
  rw [costGap_eq_zero_iff _ _ hKq]
  rw [hsInner_eq] at hA hB ⊢
  have hc : ((K : Nat) : GQ) * ⟨1 / (K : Rat), 0⟩ = 1 := by
    rw [natCast_GQ]; ext
    · simp only [GQ.mul_re, GQ.one_re, mul_zero, sub_zero, one_div]
      exact mul_inv_cancel₀ hKq
    · simp only [GQ.mul_im, GQ.one_im, mul_zero, zero_mul, add_zero]
  have key := frob_eq_iff (definite_GQ (n := n) (m := m)) A.toM B.toM ((K : Nat) : GQ)
    ⟨1 / (K : Rat), 0⟩ hc (by rw [natCast_GQ]; ext <;> simp) (by ext <;> simp) hA hB
  have h1 : (hs A.toM B.toM).absSq = (K : Rat) * K ↔
      hs A.toM B.toM * star (hs A.toM B.toM) = ((K : Nat) : GQ) * ((K : Nat) : GQ) := by
    rw [mul_star_GQ, natCast_GQ]
    constructor
    · intro h; ext <;> simp [h]
    · intro h; have := congrArg GQ.re h; simpa using this
  rw [h1, key]
  constructor
  · rintro ⟨l, hl, hBA⟩
    refine ⟨l, ?_, fun i j => ?_⟩
    · have := congrArg GQ.re hl; rw [mul_star_GQ] at this; simpa using this
    · exact congrFun (congrFun hBA i) j
  · rintro ⟨l, hl, hBA⟩
    refine ⟨l, ?_, ?_⟩
    · rw [mul_star_GQ, hl]; rfl
    · funext i j
      exact hBA i j

/-- `gradNum` is `−Re(t̄·∂t)`, half of the expression in `CostAlg.grad_cost`. -/
theorem gradNum_eq (t dt : GQ) :
    2 * gradNum t dt = -((star t * dt + t * star dt).re) := by
  unfold gradNum; simp; ring

theorem stateGrad_eq (t dt : GQ) :
    stateGrad t dt = -((star t * dt + t * star dt).re) := by
  unfold stateGrad; simp; ring

end BqVerif.Cost
