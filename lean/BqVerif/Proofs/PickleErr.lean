import Mathlib.Tactic.Ring
import Mathlib.Tactic.Linarith
import Mathlib.Algebra.Order.Ring.Rat
import BqVerif.Model.Pickle
/-! `PassData.update_error_mul`: algebra of `1 - (1 - a)(1 - b)` over ℚ. -/
namespace BqVerif.Circ

theorem errMul_comm (a b : Rat) : errMul a b = errMul b a := by unfold errMul; ring
theorem errMul_assoc (a b c : Rat) : errMul (errMul a b) c = errMul a (errMul b c) := by
  unfold errMul; ring
theorem errMul_zero (a : Rat) : errMul a 0 = a := by unfold errMul; ring
theorem errMul_one (a : Rat) : errMul a 1 = 1 := by unfold errMul; ring
theorem errMul_range (a b : Rat) (ha : 0 ≤ a) (ha1 : a ≤ 1) (hb : 0 ≤ b) (hb1 : b ≤ 1) :
    0 ≤ errMul a b ∧ errMul a b ≤ 1 := by
  unfold errMul
  constructor <;> nlinarith [mul_nonneg (sub_nonneg.2 ha1) (sub_nonneg.2 hb1), mul_nonneg ha hb]
theorem errMul_mono (a a' b : Rat) (h : a ≤ a') (hb1 : b ≤ 1) : errMul a b ≤ errMul a' b := by
  unfold errMul; nlinarith [mul_nonneg (sub_nonneg.2 h) (sub_nonneg.2 hb1)]
theorem errMul_ge (a b : Rat) (ha1 : a ≤ 1) (hb : 0 ≤ b) : a ≤ errMul a b := by
  unfold errMul; nlinarith [mul_nonneg (sub_nonneg.2 ha1) hb]
/-- union-bound comparison: the multiplicative update never exceeds the additive one -/
theorem errMul_le_add (a b : Rat) (ha : 0 ≤ a) (hb : 0 ≤ b) : errMul a b ≤ a + b := by
  unfold errMul; nlinarith [mul_nonneg ha hb]

end BqVerif.Circ
