/-
Parameter bookkeeping of `Circuit` (used by `Props/C06.lean`): `get_param_location`,
`get_param`, `set_param`, `set_params`, `freeze_param` against the flat vector
`Circuit.params`, and "explicit parameters = store them, then evaluate" for
`get_unitary`, `get_statevector`, `get_unitary_and_grad`.
-/
import BqVerif.Model.CircSim

namespace BqVerif.CircSim
open BqVerif.Tensor

variable {P α : Type}

/-! ### value semantics of the parameter writes

`Circ.setParam` / `Circ.setParams` of the model write through every grid entry that holds the
same `Operation` object (`oid`).  When no object occupies two entries (`Circ.OidsDistinct`) they
coincide with the following purely positional versions (`C06Alias.lean`), about which the
theorems of this file are stated. -/

/-- `set_param` when the addressed operation object occupies one grid entry only. -/
def Circ.setParamVal (c : Circ P α) (i : Int) (v : P) : Except Err (Circ P α) := do
  let (cycle, qudit, k) ← c.getParamLocation i
  let op ← c.getOp cycle qudit
  if k < op.params.length then
    pure { c with ops := modifyAt cycle qudit (fun o => { o with params := o.params.set k v }) c.ops }
  else throw .indexError

/-- The loop of `set_params`, positional. -/
def setParamsLoopVal (params : List P) :
    List (Nat × GOp P α) → Nat → Except Err (List (Nat × GOp P α))
  | [], _ => .ok []
  | (cycle, op) :: rest, idx => do
    let slice := (params.drop idx).take op.numParams
    if slice.length ≠ op.numParams then throw .valueError
    let rest' ← setParamsLoopVal params rest (idx + op.numParams)
    pure ((cycle, { op with params := slice }) :: rest')

/-- `set_params`, positional. -/
def Circ.setParamsVal (c : Circ P α) (params : List P) : Except Err (Circ P α) := do
  if params.length ≠ c.numParams then throw .valueError
  let ops ← setParamsLoopVal params c.ops 0
  pure { c with ops := ops }

theorem paramLocLoop_ok (i : Nat) (ops : List (Nat × GOp P α)) (count : Nat)
    (hc : count ≤ i) (hi : i < count + (ops.flatMap (·.2.params)).length) :
    ∃ cy op k pre post, ops = pre ++ (cy, op) :: post ∧
      paramLocLoop i ops count = .ok (cy, op.loc.headD 0, k) ∧ k < op.params.length ∧
      i = count + (pre.flatMap (·.2.params)).length + k := by
  induction ops generalizing count with
  | nil => simp at hi; omega
  | cons e rest ih =>
    obtain ⟨cy, op⟩ := e
    by_cases h : count + op.params.length > i
    · refine ⟨cy, op, i - count, [], rest, rfl, ?_, by omega, by simp; omega⟩
      simp only [paramLocLoop, h, if_true]
      congr 3; omega
    · simp only [List.flatMap_cons, List.length_append] at hi
      obtain ⟨cy', op', k, pre, post, h1, h2, h3, h4⟩ := ih (count + op.params.length) (by omega) (by omega)
      refine ⟨cy', op', k, (cy, op) :: pre, post, by simp [h1], ?_, h3, ?_⟩
      · simp only [paramLocLoop, h, if_false]; exact h2
      · simp only [List.flatMap_cons, List.length_append]; omega

theorem paramLocLoop_err (i : Nat) (ops : List (Nat × GOp P α)) (count : Nat)
    (hi : count + (ops.flatMap (·.2.params)).length ≤ i) :
    paramLocLoop i ops count = .error .indexError := by
  induction ops generalizing count with
  | nil => rfl
  | cons e rest ih =>
    obtain ⟨cy, op⟩ := e
    simp only [List.flatMap_cons, List.length_append] at hi
    have h : ¬ (count + op.params.length > i) := by omega
    simp only [paramLocLoop, h, if_false]
    exact ih _ (by omega)

theorem getParamLocation_ok (c : Circ P α) (i : Nat) (hi : i < c.params.length) :
    ∃ cy op k, c.getParamLocation (i : Int) = .ok (cy, op.loc.headD 0, k) ∧ (cy, op) ∈ c.ops ∧
      k < op.params.length ∧ op.params[k]? = c.params[i]? ∧
      (∃ pre post, c.ops = pre ++ (cy, op) :: post ∧ i = (pre.flatMap (·.2.params)).length + k) := by
  obtain ⟨cy, op, k, pre, post, h1, h2, h3, h4⟩ := paramLocLoop_ok i c.ops 0 (by omega) (by simpa [Circ.params] using hi)
  refine ⟨cy, op, k, ?_, by simp [h1], h3, ?_, pre, post, h1, by omega⟩
  · unfold Circ.getParamLocation
    have : ¬ ((i : Int) < 0) := by omega
    simp only [this, if_false, Int.toNat_natCast]; exact h2
  · unfold Circ.params
    rw [h1, List.flatMap_append, List.flatMap_cons]
    have : i = (pre.flatMap (·.2.params)).length + k := by omega
    rw [this, List.getElem?_append_right (by omega), Nat.add_sub_cancel_left,
      List.getElem?_append_left h3]

theorem getParamLocation_err (c : Circ P α) (i : Int)
    (hi : i < 0 ∨ (c.params.length : Int) ≤ i) : c.getParamLocation i = .error .indexError := by
  unfold Circ.getParamLocation
  by_cases h : i < 0
  · simp [h]
  · simp only [h, if_false]
    apply paramLocLoop_err
    unfold Circ.params at hi
    omega

theorem getParamLocation_ok_iff (c : Circ P α) (i : Int) :
    (∃ r, c.getParamLocation i = .ok r) ↔ (0 ≤ i ∧ i < c.params.length) := by
  constructor
  · rintro ⟨r, hr⟩
    by_cases h : i < 0 ∨ (c.params.length : Int) ≤ i
    · rw [getParamLocation_err c i h] at hr; cases hr
    · omega
  · rintro ⟨h0, h1⟩
    obtain ⟨n, rfl⟩ := Int.eq_ofNat_of_zero_le h0
    obtain ⟨cy, op, k, h, _⟩ := getParamLocation_ok c n (by omega)
    exact ⟨_, h⟩


/-! ### `getOp`, `modifyAt` at a known position -/

/-- The predicate `getOp` / `modifyAt` search with. -/
def hit (cycle qudit : Nat) (e : Nat × GOp P α) : Bool := e.1 == cycle && e.2.loc.contains qudit

theorem hit_iff {cycle qudit : Nat} {e : Nat × GOp P α} :
    hit cycle qudit e = true ↔ e.1 = cycle ∧ qudit ∈ e.2.loc := by
  simp [hit]

/-- Under the disjointness clause of `WF` nothing before an entry hits one of its qudits. -/
theorem no_hit_before {pre post : List (Nat × GOp P α)} {cy : Nat} {op : GOp P α} {q : Nat}
    (hp : (pre ++ (cy, op) :: post).Pairwise (fun a b => a.1 = b.1 → ∀ q, q ∈ a.2.loc → q ∉ b.2.loc))
    (hq : q ∈ op.loc) : ∀ e ∈ pre, hit cy q e = false := by
  intro e he
  rw [List.pairwise_append] at hp
  have h := hp.2.2 e he (cy, op) (by simp)
  cases hh : hit cy q e with
  | false => rfl
  | true =>
    obtain ⟨h1, h2⟩ := hit_iff.1 hh
    exact absurd hq (h h1 q h2)

theorem find?_at {pre post : List (Nat × GOp P α)} {cy : Nat} {op : GOp P α} {q : Nat}
    (hpre : ∀ e ∈ pre, hit cy q e = false) (hq : q ∈ op.loc) :
    (pre ++ (cy, op) :: post).find? (hit cy q) = some (cy, op) := by
  induction pre with
  | nil =>
    have : hit cy q (cy, op) = true := hit_iff.2 ⟨rfl, hq⟩
    simp [this]
  | cons a pre ih =>
    have ha : hit cy q a = false := hpre a (by simp)
    simp only [List.cons_append, List.find?, ha]
    exact ih (fun e he => hpre e (by simp [he]))

theorem modifyAt_at (f : GOp P α → GOp P α) {pre post : List (Nat × GOp P α)} {cy : Nat}
    {op : GOp P α} {q : Nat}
    (hpre : ∀ e ∈ pre, hit cy q e = false) (hq : q ∈ op.loc) :
    modifyAt cy q f (pre ++ (cy, op) :: post) = pre ++ (cy, f op) :: post := by
  induction pre with
  | nil =>
    have : hit cy q (cy, op) = true := hit_iff.2 ⟨rfl, hq⟩
    simp only [hit] at this
    simp only [List.nil_append, modifyAt, this, if_true]
  | cons a pre ih =>
    have ha : hit cy q a = false := hpre a (by simp)
    simp only [hit] at ha
    simp only [List.cons_append, modifyAt, ha]
    simp only [Bool.false_eq_true, if_false]
    rw [ih (fun e he => hpre e (by simp [he]))]

theorem getOp_at {c : Circ P α} (hwf : c.WF) {pre post : List (Nat × GOp P α)} {cy : Nat}
    {op : GOp P α} {q : Nat} (h : c.ops = pre ++ (cy, op) :: post) (hq : q ∈ op.loc) :
    c.getOp cy q = .ok op := by
  have hmem : (cy, op) ∈ c.ops := by simp [h]
  obtain ⟨h1, -, h3, -⟩ := hwf.1 _ hmem
  have h3 := h3 q hq
  have hp := hwf.2
  rw [h] at hp
  have hf := find?_at (post := post) (no_hit_before hp hq) hq
  unfold Circ.getOp
  simp only at h1 h3
  have hf' : List.find? (fun e => e.1 == cy && e.2.loc.contains q) c.ops = some (cy, op) := by
    rw [h]; exact hf
  simp only [h1, h3, hf', decide_true, Bool.and_self, Bool.not_true, Bool.false_eq_true, if_false]

theorem getOp_of_mem {c : Circ P α} {cy : Nat} {op : GOp P α} {q : Nat}
    (hwf : c.WF) (h : (cy, op) ∈ c.ops) (hq : q ∈ op.loc) : c.getOp cy q = .ok op := by
  obtain ⟨pre, post, h⟩ := List.append_of_mem h
  exact getOp_at hwf h hq

theorem headD_mem {l : List Nat} (h : l ≠ []) : l.headD 0 ∈ l := by
  cases l with
  | nil => exact absurd rfl h
  | cons a l => simp

/-! ### `get_param` -/

theorem getParam_eq {c : Circ P α} (hwf : c.WF) (i : Nat) (hi : i < c.params.length) :
    c.getParam (i : Int) = .ok (c.params[i]) := by
  obtain ⟨cy, op, k, h1, h2, h3, h4, pre, post, h5, h6⟩ := getParamLocation_ok c i hi
  have hq := headD_mem (hwf.1 _ h2).2.1
  have hop := getOp_at hwf h5 hq
  have h4' : op.params[k]? = some c.params[i] := by rw [h4]; exact List.getElem?_eq_getElem hi
  unfold Circ.getParam
  rw [h1]
  simp only [bind, Except.bind]
  rw [hop]
  simp only [h4']
  rfl

theorem getParam_err (c : Circ P α) (i : Int) (hi : i < 0 ∨ (c.params.length : Int) ≤ i) :
    c.getParam i = .error .indexError := by
  unfold Circ.getParam
  rw [getParamLocation_err c i hi]
  rfl

/-- `get_param` succeeds exactly on `0 ≤ i < len(params)`. -/
theorem getParam_ok_iff {c : Circ P α} (hwf : c.WF) (i : Int) :
    (∃ p, c.getParam i = .ok p) ↔ (0 ≤ i ∧ i < c.params.length) := by
  constructor
  · rintro ⟨r, hr⟩
    by_cases h : i < 0 ∨ (c.params.length : Int) ≤ i
    · rw [getParam_err c i h] at hr; cases hr
    · omega
  · rintro ⟨h0, h1⟩
    obtain ⟨n, rfl⟩ := Int.eq_ofNat_of_zero_le h0
    exact ⟨_, getParam_eq hwf n (by omega)⟩

/-! ### transferring `WF` along a shape-preserving update -/

theorem WF_of_shape {c c' : Circ P α} (hwf : c.WF) (hr : c'.radixes = c.radixes)
    (hn : c'.numCycles = c.numCycles)
    (hm : c'.ops.map (fun e => (e.1, e.2.loc)) = c.ops.map (fun e => (e.1, e.2.loc)))
    (hl : ∀ e ∈ c'.ops, e.2.params.length = e.2.numParams) : c'.WF := by
  constructor
  · intro e he
    have : (e.1, e.2.loc) ∈ c.ops.map (fun e => (e.1, e.2.loc)) := by
      rw [← hm]; exact List.mem_map.2 ⟨e, he, rfl⟩
    obtain ⟨e0, he0, heq⟩ := List.mem_map.1 this
    obtain ⟨h1, h2, h3, -⟩ := hwf.1 e0 he0
    have e1 : e0.1 = e.1 := (Prod.mk.inj heq).1
    have e2 : e0.2.loc = e.2.loc := (Prod.mk.inj heq).2
    rw [hr, hn, ← e1, ← e2]
    exact ⟨h1, h2, h3, hl e he⟩
  · have h := hwf.2
    have key : ∀ l : List (Nat × GOp P α),
        l.Pairwise (fun a b => a.1 = b.1 → ∀ q, q ∈ a.2.loc → q ∉ b.2.loc) ↔
        (l.map (fun e => (e.1, e.2.loc))).Pairwise
          (fun (a b : Nat × List Nat) => a.1 = b.1 → ∀ q, q ∈ a.2 → q ∉ b.2) := by
      intro l; rw [List.pairwise_map]
    rw [key] at h ⊢
    rw [hm]; exact h

theorem shape_of_shape3 {l l' : List (Nat × GOp P α)}
    (h : l'.map (fun e => (e.1, e.2.loc, e.2.numParams)) = l.map (fun e => (e.1, e.2.loc, e.2.numParams))) :
    l'.map (fun e => (e.1, e.2.loc)) = l.map (fun e => (e.1, e.2.loc)) := by
  have := congrArg (List.map (fun (x : Nat × List Nat × Nat) => (x.1, x.2.1))) h
  simpa [List.map_map, Function.comp_def] using this

/-! ### `set_param` -/

theorem setParam_params {c : Circ P α} (hwf : c.WF) (i : Nat) (hi : i < c.params.length) (v : P) :
    ∃ c', c.setParamVal (i : Int) v = .ok c' ∧ c'.params = c.params.set i v ∧
      c'.radixes = c.radixes ∧ c'.numCycles = c.numCycles ∧
      c'.ops.map (fun e => (e.1, e.2.loc, e.2.numParams))
        = c.ops.map (fun e => (e.1, e.2.loc, e.2.numParams)) ∧ c'.WF := by
  obtain ⟨cy, op, k, h1, h2, h3, h4, pre, post, h5, h6⟩ := getParamLocation_ok c i hi
  have hq := headD_mem (hwf.1 _ h2).2.1
  have hop := getOp_at hwf h5 hq
  have hp := hwf.2
  rw [h5] at hp
  have hmod := modifyAt_at (fun o => { o with params := o.params.set k v }) (post := post)
    (no_hit_before hp hq) hq
  have hshape : (pre ++ (cy, { op with params := op.params.set k v }) :: post).map
      (fun e => (e.1, e.2.loc, e.2.numParams)) = c.ops.map (fun e => (e.1, e.2.loc, e.2.numParams)) := by
    rw [h5]; simp
  refine ⟨{ c with ops := pre ++ (cy, { op with params := op.params.set k v }) :: post }, ?_, ?_,
    rfl, rfl, hshape, ?_⟩
  · unfold Circ.setParamVal
    rw [h1]
    simp only [bind, Except.bind]
    rw [hop]
    simp only [h3, if_true, h5, hmod]
    rfl
  · unfold Circ.params
    simp only [h5, List.flatMap_append, List.flatMap_cons]
    rw [h6, List.set_append_right _ _ (by omega), Nat.add_sub_cancel_left,
      List.set_append_left _ _ h3]
  · refine WF_of_shape hwf rfl rfl (shape_of_shape3 hshape) ?_
    intro e he
    simp only [List.mem_append, List.mem_cons] at he
    have hall := hwf.1
    rw [h5] at hall
    rcases he with he | rfl | he
    · exact (hall e (by simp [he])).2.2.2
    · have := (hall (cy, op) (by simp)).2.2.2
      simpa using this
    · exact (hall e (by simp [he])).2.2.2

theorem setParam_err (c : Circ P α) (i : Int) (v : P)
    (hi : i < 0 ∨ (c.params.length : Int) ≤ i) : c.setParamVal i v = .error .indexError := by
  unfold Circ.setParamVal
  rw [getParamLocation_err c i hi]
  rfl


/-! ### `set_params` -/

theorem setParamsLoop_cons (ps : List P) (cy : Nat) (op : GOp P α) (rest : List (Nat × GOp P α))
    (idx : Nat) :
    setParamsLoopVal ps ((cy, op) :: rest) idx =
      if ((ps.drop idx).take op.numParams).length = op.numParams then
        (match setParamsLoopVal ps rest (idx + op.numParams) with
          | .ok r' => .ok ((cy, { op with params := (ps.drop idx).take op.numParams }) :: r')
          | .error e => .error e)
      else .error .valueError := by
  simp only [setParamsLoopVal]
  by_cases h : ((ps.drop idx).take op.numParams).length = op.numParams
  · simp only [h, ne_eq, not_true_eq_false, if_false, if_true]
    cases setParamsLoopVal ps rest (idx + op.numParams) <;> rfl
  · simp only [h, ne_eq, not_false_eq_true, if_true, if_false]
    rfl

/-- What a successful `setParamsLoopVal` returns, without any hypothesis on the input. -/
theorem setParamsLoop_inv (ps : List P) (ops : List (Nat × GOp P α)) (idx : Nat)
    (r : List (Nat × GOp P α)) (h : setParamsLoopVal ps ops idx = .ok r) :
    r.map (fun e => (e.1, e.2.loc, e.2.numParams)) = ops.map (fun e => (e.1, e.2.loc, e.2.numParams)) ∧
    (∀ e ∈ r, e.2.params.length = e.2.numParams) := by
  induction ops generalizing idx r with
  | nil => simp only [setParamsLoopVal] at h; cases h; simp
  | cons e rest ih =>
    obtain ⟨cy, op⟩ := e
    rw [setParamsLoop_cons] at h
    split at h
    · rename_i hlen
      split at h
      · rename_i r' hr'
        cases h
        obtain ⟨i1, i2⟩ := ih _ _ hr'
        refine ⟨by simp [i1], ?_⟩
        intro e he
        rcases List.mem_cons.1 he with rfl | he
        · exact hlen
        · exact i2 e he
      · cases h
    · cases h

theorem setParamsLoop_ok (ps : List P) (ops : List (Nat × GOp P α)) (idx : Nat)
    (hb : idx + (ops.map (·.2.numParams)).sum ≤ ps.length) :
    ∃ r, setParamsLoopVal ps ops idx = .ok r ∧
      r.flatMap (·.2.params) = (ps.drop idx).take (ops.map (·.2.numParams)).sum := by
  induction ops generalizing idx with
  | nil => exact ⟨[], rfl, by simp⟩
  | cons e rest ih =>
    obtain ⟨cy, op⟩ := e
    simp only [List.map_cons, List.sum_cons] at hb
    obtain ⟨r', hr', hp'⟩ := ih (idx + op.numParams) (by omega)
    have hlen : ((ps.drop idx).take op.numParams).length = op.numParams := by
      simp only [List.length_take, List.length_drop]; omega
    refine ⟨(cy, { op with params := (ps.drop idx).take op.numParams }) :: r', ?_, ?_⟩
    · rw [setParamsLoop_cons, if_pos hlen, hr']
    · simp only [List.flatMap_cons, List.map_cons, List.sum_cons, hp', List.take_add, List.drop_drop]

theorem setParams_roundtrip' (c : Circ P α) (ps : List P) (h : ps.length = c.numParams) :
    ∃ c', c.setParamsVal ps = .ok c' ∧ c'.params = ps ∧ c'.numParams = c.numParams ∧
      (∀ e ∈ c'.ops, e.2.params.length = e.2.numParams) ∧
      c'.radixes = c.radixes ∧ c'.numCycles = c.numCycles ∧
      c'.ops.map (fun e => (e.1, e.2.loc, e.2.numParams))
        = c.ops.map (fun e => (e.1, e.2.loc, e.2.numParams)) := by
  obtain ⟨r, hr, hp⟩ := setParamsLoop_ok ps c.ops 0 (by unfold Circ.numParams at h; omega)
  obtain ⟨i1, i2⟩ := setParamsLoop_inv _ _ _ _ hr
  refine ⟨{ c with ops := r }, ?_, ?_, ?_, i2, rfl, rfl, i1⟩
  · unfold Circ.setParamsVal
    have : ¬ (ps.length ≠ c.numParams) := by omega
    simp only [this, if_false, bind, Except.bind, hr]
    rfl
  · unfold Circ.params
    simp only [hp, List.drop_zero]
    apply List.take_of_length_le
    unfold Circ.numParams at h; omega
  · unfold Circ.numParams
    have := congrArg (List.map (fun (x : Nat × List Nat × Nat) => x.2.2)) i1
    simp only [List.map_map, Function.comp_def] at this
    exact congrArg List.sum this

theorem setParams_roundtrip (c : Circ P α) (ps : List P) (h : ps.length = c.numParams) :
    ∃ c', c.setParamsVal ps = .ok c' ∧ c'.params = ps ∧ c'.numParams = c.numParams ∧
      (∀ e ∈ c'.ops, e.2.params.length = e.2.numParams) := by
  obtain ⟨c', h1, h2, h3, h4, -⟩ := setParams_roundtrip' c ps h
  exact ⟨c', h1, h2, h3, h4⟩

theorem setParams_err (c : Circ P α) (ps : List P) (h : ps.length ≠ c.numParams) :
    c.setParamsVal ps = .error .valueError := by
  unfold Circ.setParamsVal
  simp only [h, ne_eq, not_false_eq_true, if_true]
  rfl

/-- Inversion of a successful `set_params`. -/
theorem setParams_inv {c c' : Circ P α} {ps : List P} (h : c.setParamsVal ps = .ok c') :
    ps.length = c.numParams ∧ setParamsLoopVal ps c.ops 0 = .ok c'.ops ∧
      c'.radixes = c.radixes ∧ c'.numCycles = c.numCycles := by
  by_cases hl : ps.length = c.numParams
  · unfold Circ.setParamsVal at h
    have : ¬ (ps.length ≠ c.numParams) := by omega
    simp only [this, if_false, bind, Except.bind] at h
    cases hr : setParamsLoopVal ps c.ops 0 with
    | error e => rw [hr] at h; cases h
    | ok r =>
      rw [hr] at h
      cases h
      exact ⟨hl, rfl, rfl, rfl⟩
  · rw [setParams_err c ps hl] at h; cases h

theorem setParams_wf {c c' : Circ P α} {ps : List P} (hwf : c.WF) (h : c.setParamsVal ps = .ok c') :
    c'.WF := by
  obtain ⟨-, h2, h3, h4⟩ := setParams_inv h
  obtain ⟨i1, i2⟩ := setParamsLoop_inv _ _ _ _ h2
  exact WF_of_shape hwf h3 h4 (shape_of_shape3 i1) i2

theorem numParams_eq_params_length {c : Circ P α} (hwf : c.WF) : c.numParams = c.params.length := by
  have h := hwf.1
  unfold Circ.numParams Circ.params
  generalize c.ops = ops at h
  induction ops with
  | nil => rfl
  | cons e rest ih =>
    simp only [List.map_cons, List.sum_cons, List.flatMap_cons, List.length_append]
    rw [ih (fun e he => h e (by simp [he])), (h e (by simp)).2.2.2]


/-! ### `freeze_param` -/

theorem insertIdx_eraseIdx_getElem {β : Type} (l : List β) (k : Nat) (h : k < l.length) :
    (l.eraseIdx k).insertIdx k l[k] = l := by
  induction l generalizing k with
  | nil => simp at h
  | cons a l ih =>
    cases k with
    | zero => simp
    | succ k =>
      simp only [List.eraseIdx_cons_succ, List.insertIdx_succ_cons, List.getElem_cons_succ]
      rw [ih k (by simpa using h)]

theorem freezeGate_unitary (op : GOp P α) (k : Nat) (hk : k < op.params.length) (v : P)
    (hv : op.params[k]? = some v) (gid : Nat) :
    (freezeGate op k v gid).unitary (freezeGate op k v gid).params = op.unitary op.params := by
  have : v = op.params[k] := by
    rw [List.getElem?_eq_getElem hk] at hv; exact (Option.some.inj hv).symm
  subst this
  simp only [freezeGate]
  rw [insertIdx_eraseIdx_getElem _ _ hk]

/-- With the stored parameters, the frozen operation evaluates to the same matrix
(`WF`: `len(op.params) = gate.num_params`). -/
theorem freezeGate_getUnitary (op : GOp P α) (k : Nat) (hk : k < op.params.length) (v : P)
    (hv : op.params[k]? = some v) (gid : Nat) (hlen : op.params.length = op.numParams) :
    (freezeGate op k v gid).getUnitary [] = op.getUnitary [] := by
  have hu := freezeGate_unitary op k hk v hv gid
  have hl : (freezeGate op k v gid).params.length = (freezeGate op k v gid).numParams := by
    simp only [freezeGate, List.length_eraseIdx_of_lt hk, hlen]
  unfold GOp.getUnitary
  simp only [List.length_nil, ne_eq, not_true_eq_false, if_false, hl, hlen, hu]
  rfl

/-- Complete description of a successful `freeze_param`. -/
theorem freezeParam_spec {c : Circ P α} (hwf : c.WF) (i : Nat) (hi : i < c.params.length)
    (gid : Nat) :
    ∃ cy op k v pre post, c.ops = pre ++ (cy, op) :: post ∧ k < op.params.length ∧
      op.params[k]? = some v ∧ i = (pre.flatMap (·.2.params)).length + k ∧
      c.freezeParam (i : Int) gid
        = .ok { c with ops := pre ++ (cy, freezeGate op k v gid) :: post } := by
  obtain ⟨cy, op, k, h1, h2, h3, h4, pre, post, h5, h6⟩ := getParamLocation_ok c i hi
  have hq := headD_mem (hwf.1 _ h2).2.1
  have hop := getOp_at hwf h5 hq
  have hp := hwf.2
  rw [h5] at hp
  have hv : op.params[k]? = some op.params[k] := List.getElem?_eq_getElem h3
  have hmod := modifyAt_at (fun o => freezeGate o k op.params[k] gid) (post := post)
    (no_hit_before hp hq) hq
  refine ⟨cy, op, k, op.params[k], pre, post, h5, h3, hv, h6, ?_⟩
  unfold Circ.freezeParam
  rw [h1]
  simp only [bind, Except.bind]
  rw [hop]
  simp only [hv, h5, hmod]
  rfl

theorem freezeParam_params {c : Circ P α} (hwf : c.WF) (i : Nat) (hi : i < c.params.length)
    (gid : Nat) :
    ∃ c', c.freezeParam (i : Int) gid = .ok c' ∧ c'.params = c.params.eraseIdx i ∧ c'.WF := by
  obtain ⟨cy, op, k, v, pre, post, h5, h3, hv, h6, h⟩ := freezeParam_spec hwf i hi gid
  refine ⟨_, h, ?_, ?_⟩
  · unfold Circ.params
    simp only [h5, List.flatMap_append, List.flatMap_cons]
    rw [h6, List.eraseIdx_append_of_length_le (by omega), Nat.add_sub_cancel_left,
      List.eraseIdx_append_of_lt_length h3]
    rfl
  · refine WF_of_shape hwf rfl rfl (by rw [h5]; simp [freezeGate]) ?_
    intro e he
    simp only [List.mem_append, List.mem_cons] at he
    have hall := hwf.1
    rw [h5] at hall
    rcases he with he | rfl | he
    · exact (hall e (by simp [he])).2.2.2
    · have := (hall (cy, op) (by simp)).2.2.2
      simp only at this
      simp only [freezeGate, List.length_eraseIdx_of_lt h3, this]
    · exact (hall e (by simp [he])).2.2.2

theorem freezeParam_err (c : Circ P α) (i : Int) (gid : Nat)
    (hi : i < 0 ∨ (c.params.length : Int) ≤ i) : c.freezeParam i gid = .error .indexError := by
  unfold Circ.freezeParam
  rw [getParamLocation_err c i hi]
  rfl

section sim
variable [Zero α] [One α] [Add α] [Mul α] (conj : α → α)

omit [One α] in
theorem unitaryLoop_cons (e : Bool) (ps : List P) (cy : Nat) (op : GOp P α)
    (rest : List (Nat × GOp P α)) (idx : Nat) (b : Builder α) :
    unitaryLoop conj e ps ((cy, op) :: rest) idx b =
      (op.getUnitary (if e then (ps.drop idx).take op.numParams else [])) >>= fun u =>
        b.applyRight conj u op.loc >>= fun b' =>
          unitaryLoop conj e ps rest (idx + op.numParams) b' := rfl

omit [One α] in
/-- Stored-parameter evaluation only looks at `op.get_unitary()` and `op.location`. -/
theorem unitaryLoop_false_congr (ops ops' : List (Nat × GOp P α))
    (h : ops.map (fun e => (e.2.getUnitary [], e.2.loc)) = ops'.map (fun e => (e.2.getUnitary [], e.2.loc)))
    (ps ps' : List P) (idx idx' : Nat) (b : Builder α) :
    unitaryLoop conj false ps ops idx b = unitaryLoop conj false ps' ops' idx' b := by
  induction ops generalizing ops' idx idx' b with
  | nil =>
    cases ops' with
    | nil => rfl
    | cons _ _ => simp at h
  | cons e rest ih =>
    cases ops' with
    | nil => simp at h
    | cons e' rest' =>
      obtain ⟨cy, op⟩ := e
      obtain ⟨cy', op'⟩ := e'
      simp only [List.map_cons, List.cons.injEq, Prod.mk.injEq] at h
      obtain ⟨⟨hu, hl⟩, hr⟩ := h
      simp only [unitaryLoop_cons, Bool.false_eq_true, if_false, hu, hl]
      cases op'.getUnitary [] with
      | error e => rfl
      | ok u =>
        simp only [bind, Except.bind]
        cases b.applyRight conj u op'.loc with
        | error e => rfl
        | ok b' => exact ih rest' hr _ _ b'

theorem freezeParam_getUnitary {c : Circ P α} (hwf : c.WF) (i : Nat) (hi : i < c.params.length)
    (gid : Nat) (c' : Circ P α) (h : c.freezeParam (i : Int) gid = .ok c') :
    c'.getUnitary conj [] = c.getUnitary conj [] := by
  obtain ⟨cy, op, k, v, pre, post, h5, h3, hv, h6, h'⟩ := freezeParam_spec hwf i hi gid
  rw [h'] at h
  cases h
  have hlen : op.params.length = op.numParams := (hwf.1 (cy, op) (by simp [h5])).2.2.2
  have hg := freezeGate_getUnitary op k h3 v hv gid hlen
  unfold Circ.getUnitary
  have hcongr := unitaryLoop_false_congr conj
    (pre ++ (cy, freezeGate op k v gid) :: post) c.ops
    (by rw [h5]; simp only [List.map_append, List.map_cons, hg]; rfl)
    ([] : List P) [] 0 0 (Builder.new c.radixes)
  simp only [List.length_nil, ne_eq, not_true_eq_false, if_false, decide_false, hcongr]

end sim


/-! ### explicit parameters = store, then evaluate -/

/-- `op.get_unitary(slice)` is `op.get_unitary()` after `op.params = slice`. -/
theorem getUnitary_stored_slice (op : GOp P α) (slice : List P)
    (hs : slice.length = op.numParams) (hlen : op.params.length = op.numParams) :
    ({ op with params := slice } : GOp P α).getUnitary [] = op.getUnitary slice := by
  unfold GOp.getUnitary
  by_cases h0 : slice.length = 0
  · have h1 : op.params = slice := by
      rw [List.length_eq_zero_iff.1 h0]
      exact List.length_eq_zero_iff.1 (by omega)
    simp only [List.length_nil, ne_eq, not_true_eq_false, if_false, h0, h1]
  · simp only [List.length_nil, ne_eq, not_true_eq_false, if_false, h0, not_false_eq_true, if_true]

theorem getUnitaryAndGrad_stored_slice (op : GOp P α) (slice : List P)
    (hs : slice.length = op.numParams) (hlen : op.params.length = op.numParams) :
    ({ op with params := slice } : GOp P α).getUnitaryAndGrad [] = op.getUnitaryAndGrad slice := by
  unfold GOp.getUnitaryAndGrad
  by_cases h0 : slice.length = 0
  · have h1 : op.params = slice := by
      rw [List.length_eq_zero_iff.1 h0]
      exact List.length_eq_zero_iff.1 (by omega)
    simp only [List.length_nil, ne_eq, not_true_eq_false, if_false, h0, h1]
  · simp only [List.length_nil, ne_eq, not_true_eq_false, if_false, h0, not_false_eq_true, if_true]

/-- Inversion of one step of `setParamsLoopVal`. -/
theorem setParamsLoop_cons_ok {ps : List P} {cy : Nat} {op : GOp P α}
    {rest r : List (Nat × GOp P α)} {idx : Nat}
    (h : setParamsLoopVal ps ((cy, op) :: rest) idx = .ok r) :
    ((ps.drop idx).take op.numParams).length = op.numParams ∧
    ∃ r', setParamsLoopVal ps rest (idx + op.numParams) = .ok r' ∧
      r = (cy, { op with params := (ps.drop idx).take op.numParams }) :: r' := by
  rw [setParamsLoop_cons] at h
  split at h
  · rename_i hlen
    split at h
    · rename_i r' hr'
      cases h
      exact ⟨hlen, r', hr', rfl⟩
    · cases h
  · cases h

section sim
variable [Zero α] [One α] [Add α] [Mul α] (conj : α → α)

omit [One α] in
theorem unitaryLoop_set (ps : List P) (ops r : List (Nat × GOp P α)) (idx : Nat)
    (hlen : ∀ e ∈ ops, e.2.params.length = e.2.numParams)
    (h : setParamsLoopVal ps ops idx = .ok r) (ps' : List P) (idx' : Nat) (b : Builder α) :
    unitaryLoop conj false ps' r idx' b = unitaryLoop conj true ps ops idx b := by
  induction ops generalizing r idx idx' b with
  | nil => simp only [setParamsLoopVal] at h; cases h; rfl
  | cons e rest ih =>
    obtain ⟨cy, op⟩ := e
    obtain ⟨hs, r', hr', rfl⟩ := setParamsLoop_cons_ok h
    have hg := getUnitary_stored_slice op _ hs (hlen (cy, op) (by simp))
    simp only [unitaryLoop_cons, Bool.false_eq_true, if_false, if_true, hg]
    cases op.getUnitary ((ps.drop idx).take op.numParams) with
    | error e => rfl
    | ok u =>
      simp only [bind, Except.bind]
      cases b.applyRight conj u op.loc with
      | error e => rfl
      | ok b' => exact ih r' _ (fun e he => hlen e (by simp [he])) hr' _ b'

omit [One α] in
theorem stateLoop_cons (sr : List Nat) (e : Bool) (ps : List P) (cy : Nat) (op : GOp P α)
    (rest : List (Nat × GOp P α)) (idx : Nat) (v : T α) :
    stateLoop conj sr e ps ((cy, op) :: rest) idx v =
      (op.getUnitary (if e then (ps.drop idx).take op.numParams else [])) >>= fun u =>
        svApply conj sr v u op.loc >>= fun v' =>
          stateLoop conj sr e ps rest (idx + op.numParams) v' := rfl

omit [One α] in
theorem stateLoop_set (sr : List Nat) (ps : List P) (ops r : List (Nat × GOp P α)) (idx : Nat)
    (hlen : ∀ e ∈ ops, e.2.params.length = e.2.numParams)
    (h : setParamsLoopVal ps ops idx = .ok r) (ps' : List P) (idx' : Nat) (v : T α) :
    stateLoop conj sr false ps' r idx' v = stateLoop conj sr true ps ops idx v := by
  induction ops generalizing r idx idx' v with
  | nil => simp only [setParamsLoopVal] at h; cases h; rfl
  | cons e rest ih =>
    obtain ⟨cy, op⟩ := e
    obtain ⟨hs, r', hr', rfl⟩ := setParamsLoop_cons_ok h
    have hg := getUnitary_stored_slice op _ hs (hlen (cy, op) (by simp))
    simp only [stateLoop_cons, Bool.false_eq_true, if_false, if_true, hg]
    cases op.getUnitary ((ps.drop idx).take op.numParams) with
    | error e => rfl
    | ok u =>
      simp only [bind, Except.bind]
      cases svApply conj sr v u op.loc with
      | error e => rfl
      | ok v' => exact ih r' _ (fun e he => hlen e (by simp [he])) hr' _ v'

omit [Zero α] [One α] [Add α] [Mul α] in
theorem collectLoop_cons (e : Bool) (ps : List P) (cy : Nat) (op : GOp P α)
    (rest : List (Nat × GOp P α)) (idx : Nat) :
    collectLoop e ps ((cy, op) :: rest) idx =
      (op.getUnitaryAndGrad (if e then (ps.drop idx).take op.numParams else [])) >>= fun md =>
        collectLoop e ps rest (idx + op.numParams) >>= fun tl =>
          pure ((md.1, md.2, op.loc) :: tl) := rfl

omit [Zero α] [One α] [Add α] [Mul α] in
theorem collectLoop_set (ps : List P) (ops r : List (Nat × GOp P α)) (idx : Nat)
    (hlen : ∀ e ∈ ops, e.2.params.length = e.2.numParams)
    (h : setParamsLoopVal ps ops idx = .ok r) (ps' : List P) (idx' : Nat) :
    collectLoop (α := α) false ps' r idx' = collectLoop true ps ops idx := by
  induction ops generalizing r idx idx' with
  | nil => simp only [setParamsLoopVal] at h; cases h; rfl
  | cons e rest ih =>
    obtain ⟨cy, op⟩ := e
    obtain ⟨hs, r', hr', rfl⟩ := setParamsLoop_cons_ok h
    have hg := getUnitaryAndGrad_stored_slice op _ hs (hlen (cy, op) (by simp))
    simp only [collectLoop_cons, Bool.false_eq_true, if_false, if_true, hg]
    rw [ih r' _ (fun e he => hlen e (by simp [he])) hr']

theorem explicit_eq_stored_unitary {c : Circ P α} (hwf : c.WF) (ps : List P) (hne : ps ≠ [])
    (c' : Circ P α) (h : c.setParamsVal ps = .ok c') :
    c'.getUnitary conj [] = c.getUnitary conj ps := by
  obtain ⟨hl, hloop, hr, -⟩ := setParams_inv h
  have h1 : ps.length ≠ 0 := fun h => hne (List.length_eq_zero_iff.1 h)
  have h2 : ¬ (ps.length ≠ c.numParams) := fun h => h hl
  have h3 : ¬ (([] : List P).length ≠ 0) := by simp
  unfold Circ.getUnitary
  rw [if_pos h1, if_neg h2, if_neg h3, decide_eq_true h1, decide_eq_false h3, hr,
    unitaryLoop_set conj ps c.ops c'.ops 0 (fun e he => (hwf.1 e he).2.2.2) hloop]

omit [One α] in
theorem explicit_eq_stored_state {c : Circ P α} (hwf : c.WF) (ps : List P) (hne : ps ≠ [])
    (c' : Circ P α) (h : c.setParamsVal ps = .ok c') (v : T α) (sr : Option (List Nat)) :
    c'.getStatevector conj v sr [] = c.getStatevector conj v sr ps := by
  obtain ⟨hl, hloop, hr, -⟩ := setParams_inv h
  have h1 : ps.length ≠ 0 := fun h => hne (List.length_eq_zero_iff.1 h)
  have h2 : ¬ (ps.length ≠ c.numParams) := fun h => h hl
  have h3 : ¬ (([] : List P).length ≠ 0) := by simp
  have key : ∀ sr x, stateLoop conj sr false [] c'.ops 0 x = stateLoop conj sr true ps c.ops 0 x :=
    fun sr x => stateLoop_set conj sr ps c.ops c'.ops 0 (fun e he => (hwf.1 e he).2.2.2) hloop _ _ _
  unfold Circ.getStatevector
  rw [if_pos h1, if_neg h2, if_neg h3, decide_eq_true h1, decide_eq_false h3, hr]
  simp only [key]

theorem explicit_eq_stored_grad {c : Circ P α} (hwf : c.WF) (ps : List P) (hne : ps ≠ [])
    (c' : Circ P α) (h : c.setParamsVal ps = .ok c') :
    c'.getUnitaryAndGrad conj [] = c.getUnitaryAndGrad conj ps := by
  obtain ⟨hl, hloop, hr, -⟩ := setParams_inv h
  have h1 : ps.length ≠ 0 := fun h => hne (List.length_eq_zero_iff.1 h)
  have h2 : ¬ (ps.length ≠ c.numParams) := fun h => h hl
  have h3 : ¬ (([] : List P).length ≠ 0) := by simp
  unfold Circ.getUnitaryAndGrad
  rw [if_pos h1, if_neg h2, if_neg h3, decide_eq_true h1, decide_eq_false h3, hr,
    collectLoop_set ps c.ops c'.ops 0 (fun e he => (hwf.1 e he).2.2.2) hloop]

end sim
end BqVerif.CircSim
