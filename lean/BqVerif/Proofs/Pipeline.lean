/-
Generic soundness of the abstract interpreter of `Model/Pipeline.lean` (`Pipe_sound`).

For ANY concrete state type `S`, any concretisation `γ : AState → S → Prop` that is monotone for
the order of the domain and accepts `top`, and any concrete big-step semantics of the control
constructs over leaf / predicate / foreach / wrapper semantics that satisfy their contracts, every
execution of a workflow tree from a state described by `a` ends in a state described by
`ainterp p a`.  Loops are handled by the stability test that `iter` performs.
-/
import BqVerif.Model.Pipeline

namespace BqVerif.Pipeline

/-! ### The order of the abstract domain -/

/-- Field-by-field equalities of abstract states: Boolean algebra or linear arithmetic. -/
local macro "fields" : tactic =>
  `(tactic| (repeat' apply And.intro) <;>
    first | rfl | omega | (simp [Bool.or_comm, Bool.or_assoc, Bool.or_left_comm]; done))

theorem AState.join_idem_left (a b : AState) : a.join (a.join b) = a.join b := by
  cases a; cases b
  simp only [AState.join, AState.mk.injEq, cap]
  fields

theorem AState.join_comm (a b : AState) : a.join b = b.join a := by
  cases a; cases b
  simp only [AState.join, AState.mk.injEq, cap]
  fields

theorem AState.join_assoc (a b d : AState) : (a.join b).join d = a.join (b.join d) := by
  cases a; cases b; cases d
  simp only [AState.join, AState.mk.injEq, cap]
  fields

theorem AState.join_top (a : AState) : a.join AState.top = AState.top := by
  cases a
  simp only [AState.join, AState.top, AState.mk.injEq, cap]
  fields

theorem AState.le_join_left (a b : AState) : a.le (a.join b) :=
  AState.join_idem_left a b

theorem AState.le_join_right (a b : AState) : b.le (a.join b) := by
  unfold AState.le
  rw [AState.join_comm a b]
  exact AState.join_idem_left b a

theorem AState.le_of_stable {a x : AState} (hs : a.join x = a) : x.le a := by
  unfold AState.le
  rw [AState.join_comm]; exact hs

theorem AState.le_trans {a b d : AState} (h1 : a.le b) (h2 : b.le d) : a.le d := by
  unfold AState.le at *
  rw [← h2, ← AState.join_assoc, h1]

theorem AState.le_top (a : AState) : a.le AState.top := AState.join_top a

/-! ### What `iter` returns -/

theorem iter_spec (f : AState → AState) :
    ∀ (n : Nat) (a r : AState), iter n f a = some r →
      (∀ (P : AState → Prop), (∀ x y, x.le y → P x → P y) → P a → P r) ∧ r.join (f r) = r := by
  intro n
  induction n with
  | zero => intro a r h; simp [iter] at h
  | succ n ih =>
    intro a r h
    simp only [iter] at h
    split at h
    · rename_i hs
      injection h with h; subst h
      exact ⟨fun _ _ pa => pa, hs⟩
    · obtain ⟨h1, h2⟩ := ih _ _ h
      refine ⟨fun P mono pa => h1 P mono (mono _ _ (AState.le_join_left a (f a)) pa), h2⟩

theorem iter_stable (f : AState → AState) (n : Nat) (r : AState) (hs : r.join (f r) = r) :
    iter (n + 1) f r = some r := by
  simp [iter, hs]

/-! ### Concrete big-step semantics of workflow trees -/

section Sound

variable {S : Type}
variable (leafSem : LeafKind → Opts → S → S → Prop)
variable (predSem : Pred → S → Bool → S → Prop)
variable (feSem : Opts → (S → S → Prop) → S → S → Prop)
variable (wrapSem : LeafKind → Opts → (S → S → Prop) → S → S → Prop)

/-- Big-step execution of a workflow tree: `Workflow.run` (sequence), `IfThenElsePass.run`,
`WhileLoopPass.run`, `DoWhileLoopPass.run`; ForEachBlockPass and the wrapper passes run their
body through `feSem` / `wrapSem` on some relation `R` all of whose steps are executions of the
body; predicates may change the state (ChangePredicate stores a hash). -/
inductive Exec : Pass → S → S → Prop
  | skip {s} : Exec .skip s s
  | leaf {k o s s'} : leafSem k o s s' → Exec (.leaf k o) s s'
  | seq {p q s s1 s2} : Exec p s s1 → Exec q s1 s2 → Exec (.seq p q) s s2
  | ifT {pr t e s s1 s2} : predSem pr s true s1 → Exec t s1 s2 → Exec (.ifte pr t e) s s2
  | ifF {pr t e s s1 s2} : predSem pr s false s1 → Exec e s1 s2 → Exec (.ifte pr t e) s s2
  | whileF {pr b s s1} : predSem pr s false s1 → Exec (.while_ pr b) s s1
  | whileT {pr b s s1 s2 s3} : predSem pr s true s1 → Exec b s1 s2 →
      Exec (.while_ pr b) s2 s3 → Exec (.while_ pr b) s s3
  | doF {pr b s s1 s2} : Exec b s s1 → predSem pr s1 false s2 → Exec (.dowhile pr b) s s2
  | doT {pr b s s1 s2 s3} : Exec b s s1 → predSem pr s1 true s2 →
      Exec (.dowhile pr b) s2 s3 → Exec (.dowhile pr b) s s3
  | foreach {o b s s'} (R : S → S → Prop) : (∀ t t', R t t' → Exec b t t') → feSem o R s s' →
      Exec (.foreach o b) s s'
  | choiceL {p q s s'} : Exec p s s' → Exec (.choice p q) s s'
  | choiceR {p q s s'} : Exec q s s' → Exec (.choice p q) s s'
  | wrap {k o i s s'} (R : S → S → Prop) : (∀ t t', R t t' → Exec i t t') → wrapSem k o R s s' →
      Exec (.wrap k o i) s s'

variable (c : Cfg) (h : Hyps) (γ : AState → S → Prop)

/-- What the concrete semantics must satisfy: the contracts the calculus assumes. -/
structure Contracts : Prop where
  mono : ∀ a b s, a.le b → γ a s → γ b s
  top : ∀ s, γ AState.top s
  leaf : ∀ k o a s s', γ a s → leafSem k o s s' → γ (post c h k o a) s'
  pred : ∀ pr a s b s', γ a s → predSem pr s b s' →
    γ (assume c pr b a) s' ∧ ∀ v, aeval c pr a = some v → v = b
  fe : ∀ o (R : S → S → Prop) (F : AState → AState) a s s',
    (∀ x t t', γ x t → R t t' → γ (F x) t') → γ a s → feSem o R s s' →
      γ (feExit c h o a (joinAll a ((feEnter c o a).map F))) s'
  wrap : ∀ k o (R : S → S → Prop) (F : AState → AState) a s s',
    (∀ x t t', γ x t → R t t' → γ (F x) t') → γ a s → wrapSem k o R s s' →
      γ (wrapExit c k o a (F a)) s'

theorem Pipe_sound_aux (C : Contracts leafSem predSem feSem wrapSem c h γ)
    {p : Pass} {s s' : S} (hx : Exec leafSem predSem feSem wrapSem p s s') :
    ∀ a, γ a s → γ (ainterp c h p a) s' := by
  induction hx with
  | skip => intro a ha; simpa [ainterp] using ha
  | leaf hl => intro a ha; simpa [ainterp] using C.leaf _ _ _ _ _ ha hl
  | seq _ _ ih1 ih2 => intro a ha; simpa [ainterp] using ih2 _ (ih1 _ ha)
  | ifT hp _ ih =>
    intro a ha
    obtain ⟨h1, h2⟩ := C.pred _ _ _ _ _ ha hp
    simp only [ainterp]
    split
    · exact ih _ h1
    · rename_i he; exact absurd (h2 _ he) (by decide)
    · exact C.mono _ _ _ (AState.le_join_left _ _) (ih _ h1)
  | ifF hp _ ih =>
    intro a ha
    obtain ⟨h1, h2⟩ := C.pred _ _ _ _ _ ha hp
    simp only [ainterp]
    split
    · rename_i he; exact absurd (h2 _ he) (by decide)
    · exact ih _ h1
    · exact C.mono _ _ _ (AState.le_join_right _ _) (ih _ h1)
  | whileF hp =>
    intro a ha
    simp only [ainterp]
    split
    · rename_i inv hi
      obtain ⟨h1, _⟩ := iter_spec _ _ _ _ hi
      have hinv := h1 (fun x => γ x _) (fun x y hxy hx => C.mono x y _ hxy hx) ha
      exact (C.pred _ _ _ _ _ hinv hp).1
    · exact C.top _
  | whileT hp _ _ ihb ihw =>
    intro a ha
    simp only [ainterp]
    split
    · rename_i inv hi
      obtain ⟨h1, h2⟩ := iter_spec _ _ _ _ hi
      have hinv := h1 (fun x => γ x _) (fun x y hxy hx => C.mono x y _ hxy hx) ha
      have hb := ihb _ (C.pred _ _ _ _ _ hinv hp).1
      have hinv2 := C.mono _ _ _ (AState.le_of_stable h2) hb
      have := ihw _ hinv2
      simp only [ainterp] at this
      have hst : iter loopFuel (fun x => ainterp c h _ (assume c _ true x)) inv = some inv :=
        iter_stable _ _ _ h2
      rw [hst] at this
      exact this
    · exact C.top _
  | doF _ hp ihb =>
    intro a ha
    simp only [ainterp]
    split
    · rename_i inv hi
      obtain ⟨h1, _⟩ := iter_spec _ _ _ _ hi
      have hinv := h1 (fun x => γ x _) (fun x y hxy hx => C.mono x y _ hxy hx) ha
      exact (C.pred _ _ _ _ _ (ihb _ hinv) hp).1
    · exact C.top _
  | doT _ hp _ ihb ihw =>
    intro a ha
    simp only [ainterp]
    split
    · rename_i inv hi
      obtain ⟨h1, h2⟩ := iter_spec _ _ _ _ hi
      have hinv := h1 (fun x => γ x _) (fun x y hxy hx => C.mono x y _ hxy hx) ha
      have hb := (C.pred _ _ _ _ _ (ihb _ hinv) hp).1
      have hinv2 := C.mono _ _ _ (AState.le_of_stable h2) hb
      have := ihw _ hinv2
      simp only [ainterp] at this
      have hst : iter loopFuel (fun x => assume c _ true (ainterp c h _ x)) inv = some inv :=
        iter_stable _ _ _ h2
      rw [hst] at this
      exact this
    · exact C.top _
  | foreach R _ hf ih =>
    intro a ha
    simp only [ainterp]
    exact C.fe _ R _ _ _ _ (fun x t t' hx hr => ih t t' hr x hx) ha hf
  | choiceL _ ih =>
    intro a ha; simp only [ainterp]
    exact C.mono _ _ _ (AState.le_join_left _ _) (ih _ ha)
  | choiceR _ ih =>
    intro a ha; simp only [ainterp]
    exact C.mono _ _ _ (AState.le_join_right _ _) (ih _ ha)
  | wrap R _ hw ih =>
    intro a ha
    simp only [ainterp]
    exact C.wrap _ _ R _ _ _ _ (fun x t t' hx hr => ih t t' hr x hx) ha hw

end Sound

end BqVerif.Pipeline
