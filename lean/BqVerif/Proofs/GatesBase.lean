import BqVerif.Model.Gates
import Mathlib.Tactic.Ring
import Mathlib.Tactic.LinearCombination
import Mathlib.Tactic.FinCases
import Mathlib.Data.Matrix.Mul
import Mathlib.LinearAlgebra.Matrix.ConjTranspose
import Mathlib.Algebra.Star.Basic
import Mathlib.Algebra.BigOperators.Fin
/-! Shared vocabulary for the C18 proofs: the view of a model matrix as a Mathlib
`Matrix`, the hypotheses on constants and angles, and the entrywise tactic. -/
namespace BqVerif.Gates
open Matrix

variable {R : Type} [CommRing R] [StarRing R]

/-- conjugation of the carrier is `star` -/
instance : Conj R := ⟨star⟩

/-- the `n × n` matrix denoted by a model matrix -/
def toM (n : Nat) (f : M R) : Matrix (Fin n) (Fin n) R := fun i j => f i j

/-- `U·U† = 1` -/
def IsUnitary (n : Nat) (f : M R) : Prop := toM n f * (toM n f)ᴴ = 1

/-- a real point of the unit circle -/
structure Ang.Valid (a : Ang R) : Prop where
  circ : a.c * a.c + a.s * a.s = 1
  rc : star a.c = a.c
  rs : star a.s = a.s

/-- `i² = -1`, `ī = -i`, `2·½ = 1`, `(1/√2)² = ½`, all real but `i` -/
structure Consts.Valid (K : Consts R) : Prop where
  ii : K.i * K.i = -1
  si : star K.i = -K.i
  hh : K.h + K.h = 1
  sh : star K.h = K.h
  rr : K.r * K.r = K.h
  sr : star K.r = K.r

end BqVerif.Gates
