import BqVerif.Model.Gates
import BqVerif.Proofs.GatesAttr
import Mathlib.Tactic.Ring
import Mathlib.Tactic.LinearCombination
import Mathlib.Tactic.FinCases
import Mathlib.Data.Matrix.Mul
import Mathlib.LinearAlgebra.Matrix.ConjTranspose
import Mathlib.Algebra.Star.Basic
import Mathlib.Algebra.BigOperators.Fin
/-! Shared vocabulary for the C18 proofs: the view of a model matrix as a Mathlib
`Matrix`, the hypotheses on constants and angles, and the entrywise tactic. -/
namespace BqVerif.Gates
open Matrix

/-- conjugation of the carrier is `star` -/
instance {R : Type} [Star R] : Conj R := ⟨star⟩

/-- the `n × n` matrix denoted by a model matrix -/
def toM {α : Type} (n : Nat) (f : M α) : Matrix (Fin n) (Fin n) α := fun i j => f i j

variable {R : Type} [CommRing R] [StarRing R]

/-- `U·U† = 1` -/
def IsUnitary (n : Nat) (f : M R) : Prop := toM n f * (toM n f)ᴴ = 1

/-- a real point of the unit circle -/
structure Ang.Valid (a : Ang R) : Prop where
  circ : a.c * a.c + a.s * a.s = 1
  rc : star a.c = a.c
  rs : star a.s = a.s

/-- `i² = -1`, `ī = -i`, `2·½ = 1`, `(1/√2)² = ½`, everything real but `i` -/
structure Consts.Valid (K : Consts R) : Prop where
  ii : K.i * K.i = -1
  si : star K.i = -K.i
  hh : K.h + K.h = 1
  sh : star K.h = K.h
  rr : K.r * K.r = K.h
  sr : star K.r = K.r

attribute [gate_defs] toM IsUnitary Ang.e Ang.en Ang.de Ang.den Ang.neg Ang.add Ang.shift
  Ang.zero eye zeroM addM subM smulM mono diag listAt listAtA zeta8 zeta8c
  u3 u3_g0 u3_g1 u3_g2 u2 u2_g0 u2_g1 u1 u1_g0 rx rx_g0 ry ry_g0 rz rz_g0
  u1q u1q_g0 u1q_g1 pxz pxz_g0 pxz_g1 pxz_g2 rxx rxx_g0 ryy ryy_g0 rzz rzz_g0
  cp cp_g0 crx crx_g0 cry cry_g0 crz crz_g0 cu cu_g0 cu_g1 cu_g2 cu_g3
  fsim fsim_g0 fsim_g1 ccp ccp_g0
  hGate h4Gate sx sxdg ch sqrtISwap sqrtCNOT ecr xxGate yyGate zzGate bGate
  xGate yGate zGate sGate sdgGate tGate tdgGate sqrtTGate cxGate cyGate czGate csGate ctGate
  swapGate iswapGate sycamore ccxGate itoffoli rccx rc3x cpiGate

/-- Entrywise proof of a matrix identity between model matrices of size 2, 4 or 8:
split into entries, unfold the model, expand the finite sums, and close every
polynomial identity with `grind` (commutative-ring reasoning modulo the hypotheses
in context: `i² = -1`, circle equations, …). -/
macro "gate_entries" : tactic => `(tactic|
  (ext i j
   fin_cases i <;> fin_cases j <;>
     simp [gate_defs, Matrix.mul_apply, Matrix.add_apply, Matrix.smul_apply, smul_eq_mul,
       Fin.sum_univ_two, Fin.sum_univ_four, Fin.sum_univ_eight, *] <;>
     grind))

/-- open every `Consts.Valid` / `Ang.Valid` hypothesis into its fields -/
macro "gate_hyps" : tactic => `(tactic|
  ((repeat (cases ‹Consts.Valid _›)); (repeat (cases ‹Ang.Valid _›))))

end BqVerif.Gates
