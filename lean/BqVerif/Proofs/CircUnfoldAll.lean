import BqVerif.Proofs.CircUnfoldSem
/-! `unfold_all` keeps the denotation: each rebuild round is one level of flattening. -/
namespace BqVerif.Circ

/-- every block operation of `c` stands on the radixes of its body -/
def Fits (b : Blocks) (c : Circ) : Prop :=
  ∀ o ∈ c.ops, ∀ body, b.body? o.gid = some body → body.radixes = o.rad
/-- the table is hereditarily well-formed: bodies are `Inv` circuits whose blocks fit -/
def Blocks.HF (b : Blocks) : Prop :=
  ∀ gid body, b.body? gid = some body → body.Inv ∧ Fits b body

theorem Blocks.HF.ok {b : Blocks} (h : b.HF) : b.Ok :=
  fun gid body hb => bodyOk_of_inv body (h gid body hb).1

/-- what one rebuild round appends for operation `o` -/
def expandRound (b : Blocks) (o : Op) : List Op :=
  match b.body? o.gid with
  | some body => (setParams body o.par).iter.map (·.mapLoc o.loc)
  | none => [o]
/-- the same with the body in `ops` order: one level of `flattenOps` -/
def expandFlat (b : Blocks) (o : Op) : List Op :=
  match b.body? o.gid with
  | some body => (distribute body.iter o.par).map (·.mapLoc o.loc)
  | none => [o]

theorem flattenOps_one (b : Blocks) (l : List Op) : flattenOps b 1 l = l.flatMap (expandFlat b) := by
  simp only [flattenOps]
  congr 1
  funext o
  simp only [expandOp, expandFlat]
  cases b.body? o.gid <;> rfl

def roundStep (b : Blocks) (acc : Circ) (o : Op) : Circ :=
  match b.body? o.gid with
  | some body => (acc.appendCircuit (setParams body o.par) o.loc).1
  | none => (acc.appendCore o).1

theorem roundStep_timeline (b : Blocks) (hb : b.HF) (acc : Circ) (o : Op)
    (hwf : o.WF acc.numQudits acc.radixes)
    (hfit : ∀ body, b.body? o.gid = some body → body.radixes = o.rad) (q : Nat) :
    (roundStep b acc o).radixes = acc.radixes ∧
      (roundStep b acc o).timeline q = acc.timeline q ++ proj q (expandRound b o) := by
  unfold roundStep expandRound
  cases hbody : b.body? o.gid with
  | none =>
    dsimp only
    refine ⟨appendCore_radixes acc o, ?_⟩
    rw [appendCore_timeline, proj_single]
  | some body =>
    dsimp only
    refine ⟨appendCircuit_radixes acc _ o.loc, ?_⟩
    obtain ⟨w1, w2, w3, w4⟩ := hwf
    have hbinv := (hb _ body hbody).1
    have hsubinv := setParams_inv body o.par hbinv
    have hsubq : (setParams body o.par).numQudits = o.loc.length := by
      show body.radixes.length = o.loc.length
      rw [hfit body hbody, w4]; simp
    have hsubr : (setParams body o.par).radixes = o.loc.map (acc.radixes.getD · 0) := by
      show body.radixes = _
      rw [hfit body hbody, w4]
    rw [appendCircuit_eq acc _ o.loc hsubq]
    exact (append_fold_timeline _ acc (by
      intro y hy
      rw [List.mem_map] at hy
      obtain ⟨x, hx, rfl⟩ := hy
      exact checkValid_mapLoc acc _ o.loc x
        (mem_ops_wf _ hsubinv x ((mem_iter _ x).1 hx)) hsubq w3 hsubr) q).2

theorem round_fold_timeline (b : Blocks) (hb : b.HF) (R : List Nat) (l : List Op) (acc : Circ)
    (hR : acc.radixes = R) (hl : ∀ o ∈ l, o.WF R.length R)
    (hfit : ∀ o ∈ l, ∀ body, b.body? o.gid = some body → body.radixes = o.rad) (q : Nat) :
    (l.foldl (roundStep b) acc).timeline q = acc.timeline q ++ proj q (l.flatMap (expandRound b)) := by
  induction l generalizing acc with
  | nil => simp [proj]
  | cons a t ih =>
    simp only [List.foldl_cons, List.flatMap_cons, proj_append]
    have hwf : a.WF acc.numQudits acc.radixes := by
      have := hl a (by simp)
      simpa [Circ.numQudits, hR] using this
    obtain ⟨h1, h2⟩ := roundStep_timeline b hb acc a hwf (hfit a (by simp)) q
    rw [ih (roundStep b acc a) (by rw [h1, hR]) (fun o ho => hl o (by simp [ho]))
      (fun o ho => hfit o (by simp [ho])), h2, List.append_assoc]

theorem proj_expand_eq (b : Blocks) (hb : b.HF) (n : Nat) (R : List Nat) (o : Op) (hwf : o.WF n R)
    (hfit : ∀ body, b.body? o.gid = some body → body.radixes = o.rad) (q : Nat) :
    proj q (expandRound b o) = proj q (expandFlat b o) := by
  unfold expandRound expandFlat
  cases hbody : b.body? o.gid with
  | none => rfl
  | some body =>
    dsimp only
    obtain ⟨w1, w2, w3, w4⟩ := hwf
    have hbinv := (hb _ body hbody).1
    have hsubinv := setParams_inv body o.par hbinv
    have hsubq : (setParams body o.par).numQudits = o.loc.length := by
      show body.radixes.length = o.loc.length
      rw [hfit body hbody, w4]; simp
    have hinj : ∀ a b, a < o.loc.length → b < o.loc.length →
        o.loc.getD a 0 = o.loc.getD b 0 → a = b := by
      intro a b' ha hb' hab
      have h1 := idxOf_getD_of_nodup o.loc a ha w2
      have h2 := idxOf_getD_of_nodup o.loc b' hb' w2
      rw [hab] at h1; omega
    have hlt : ∀ x ∈ (setParams body o.par).ops, ∀ i ∈ x.loc, i < o.loc.length := by
      intro x hx i hi
      have := (mem_ops_wf _ hsubinv x hx).2.2.1 i hi
      omega
    rw [← setParams_ops body o.par]
    exact proj_map_relabel_congr (fun i => o.loc.getD i 0) o.loc.length hinj _ _
      (fun x hx => hlt x ((mem_iter _ x).1 hx)) hlt
      (fun q' => by rw [proj_iter _ hsubinv]; rfl) q

theorem proj_flatMap_congr (f g : Op → List Op) (l : List Op)
    (h : ∀ o ∈ l, ∀ q, proj q (f o) = proj q (g o)) (q : Nat) :
    proj q (l.flatMap f) = proj q (l.flatMap g) := by
  induction l with
  | nil => rfl
  | cons a t ih =>
    simp only [List.flatMap_cons, proj_append]
    rw [h a (by simp) q, ih (fun o ho => h o (by simp [ho]))]

theorem expandFlat_ne (b : Blocks) (hb : b.HF) (o : Op) (ho : o.loc ≠ []) :
    ∀ x ∈ expandFlat b o, x.loc ≠ [] := by
  unfold expandFlat
  cases hbody : b.body? o.gid with
  | none => intro x hx; simp only [List.mem_singleton] at hx; subst hx; exact ho
  | some body =>
    intro x hx
    dsimp only at hx
    rw [List.mem_map] at hx
    obtain ⟨y, hy, rfl⟩ := hx
    obtain ⟨z, hz, e1, _⟩ := mem_distribute _ _ y hy
    have := (mem_ops_wf body (hb _ body hbody).1 z ((mem_iter body z).1 hz)).1
    simpa [Op.mapLoc, e1] using this

theorem expandFlat_fits (b : Blocks) (hb : b.HF) (o : Op)
    (hfit : ∀ body, b.body? o.gid = some body → body.radixes = o.rad) :
    ∀ x ∈ expandFlat b o, ∀ body, b.body? x.gid = some body → body.radixes = x.rad := by
  unfold expandFlat
  cases hbody : b.body? o.gid with
  | none => intro x hx; simp only [List.mem_singleton] at hx; subst hx; exact hfit
  | some body =>
    intro x hx
    dsimp only at hx
    rw [List.mem_map] at hx
    obtain ⟨y, hy, rfl⟩ := hx
    obtain ⟨z, hz, _, e2, e3⟩ := mem_distribute _ _ y hy
    have := (hb _ body hbody).2 z ((mem_iter body z).1 hz)
    intro body' hb'
    have h1 : (y.mapLoc o.loc).gid = z.gid := e3
    have h2 : (y.mapLoc o.loc).rad = z.rad := e2
    rw [h1] at hb'
    rw [h2]; exact this body' hb'

variable {M : Type} [Monoid M]

/-- **one rebuild round of `unfold_all`** keeps `Inv`, the fitting of blocks, and the unitary -/
theorem unfoldRound_same_den (sem : Op → M)
    (hcomm : ∀ a b, Indep a b → sem a * sem b = sem b * sem a) (b : Blocks) (hb : b.HF)
    (hblock : ∀ o inner, expandOp b o = some inner → sem o = den sem inner)
    (c : Circ) (hinv : c.Inv) (hfit : Fits b c) :
    (c.unfoldRound b).Inv ∧ (c.unfoldRound b).radixes = c.radixes ∧ Fits b (c.unfoldRound b) ∧
      den sem (c.unfoldRound b).iter = den sem c.iter := by
  obtain ⟨hinvU, hradU⟩ := unfoldRound_inv c b hb.ok hinv
  have hwf : ∀ o ∈ c.iter, o.WF c.radixes.length c.radixes :=
    fun o ho => mem_ops_wf c hinv o ((mem_iter c o).1 ho)
  have hfit' : ∀ o ∈ c.iter, ∀ body, b.body? o.gid = some body → body.radixes = o.rad :=
    fun o ho => hfit o ((mem_iter c o).1 ho)
  have htl : ∀ q, (c.unfoldRound b).timeline q = proj q (c.iter.flatMap (expandFlat b)) := by
    intro q
    have e : c.unfoldRound b = c.iter.foldl (roundStep b) ⟨c.radixes, []⟩ := rfl
    rw [e, round_fold_timeline b hb c.radixes c.iter ⟨c.radixes, []⟩ rfl hwf hfit' q]
    have : (Circ.mk c.radixes []).timeline q = [] := rfl
    rw [this, List.nil_append]
    exact proj_flatMap_congr _ _ _
      (fun o ho q' => proj_expand_eq b hb _ _ o (hwf o ho) (hfit' o ho) q') q
  have hmemU : ∀ x ∈ (c.unfoldRound b).ops, x ∈ c.iter.flatMap (expandFlat b) := by
    intro x hx
    obtain ⟨q, hq⟩ := List.exists_mem_of_ne_nil _ (mem_ops_wf _ hinvU x hx).1
    have : x ∈ (c.unfoldRound b).timeline q := by
      simp only [Circ.timeline, proj, List.mem_filter, Op.on, List.contains_eq_mem,
        decide_eq_true_eq]
      exact ⟨hx, hq⟩
    rw [htl q] at this
    exact (List.mem_filter.mp this).1
  refine ⟨hinvU, hradU, ?_, ?_⟩
  · intro x hx
    have := hmemU x hx
    rw [List.mem_flatMap] at this
    obtain ⟨o, ho, hxo⟩ := this
    exact expandFlat_fits b hb o (hfit' o ho) x hxo
  · have h1 : den sem (c.unfoldRound b).iter = den sem (c.iter.flatMap (expandFlat b)) := by
      apply trace_equiv sem hcomm _ _ (inv_iter_locs _ hinvU).1
      · intro x hx
        rw [List.mem_flatMap] at hx
        obtain ⟨o, ho, hxo⟩ := hx
        exact expandFlat_ne b hb o (hwf o ho).1 x hxo
      · intro q; rw [proj_iter _ hinvU, htl q]
    rw [h1, ← flattenOps_one, den_flattenOps sem b hblock]

/-- **unfold_all keeps the unitary**, for any number of rounds -/
theorem unfoldAll_same_den (sem : Op → M)
    (hcomm : ∀ a b, Indep a b → sem a * sem b = sem b * sem a) (b : Blocks) (hb : b.HF)
    (hblock : ∀ o inner, expandOp b o = some inner → sem o = den sem inner)
    (fuel : Nat) (c : Circ) (hinv : c.Inv) (hfit : Fits b c) :
    (c.unfoldAll b fuel).Inv ∧ den sem (c.unfoldAll b fuel).iter = den sem c.iter := by
  induction fuel generalizing c with
  | zero => exact ⟨hinv, rfl⟩
  | succ fuel ih =>
    unfold Circ.unfoldAll
    split
    · obtain ⟨h1, _, h3, h4⟩ := unfoldRound_same_den sem hcomm b hb hblock c hinv hfit
      obtain ⟨h5, h6⟩ := ih (c.unfoldRound b) h1 h3
      exact ⟨h5, by rw [h6, h4]⟩
    · exact ⟨hinv, rfl⟩

end BqVerif.Circ
