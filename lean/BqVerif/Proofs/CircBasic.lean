import BqVerif.Model.Circ
/-! Basic lemmas about the list-of-cycles model: occupancy, last-occupied cycle,
`findAvailable`. -/
namespace BqVerif.Circ

theorem occ_eq_false_iff (cy : Cycle) (q : Nat) :
    occ cy q = false ↔ ∀ o ∈ cy, q ∉ o.loc := by
  simp [occ, Op.on]

theorem occ_eq_true_iff (cy : Cycle) (q : Nat) :
    occ cy q = true ↔ ∃ o ∈ cy, q ∈ o.loc := by
  simp [occ, Op.on]

theorem getD_of_lt (l : List Cycle) (t : Nat) (h : t < l.length) : l.getD t [] = l[t] := by
  simp [List.getD_eq_getElem?_getD, List.getElem?_eq_getElem h]
theorem getD_of_ge (l : List Cycle) (t : Nat) (h : l.length ≤ t) : l.getD t [] = [] := by
  simp [List.getD_eq_getElem?_getD, List.getElem?_eq_none h]

/-- after the last occupied cycle nothing sits on `q` -/
theorem lastOnFrom_none (l : List Cycle) (i q : Nat) (h : lastOnFrom l i q = none) :
    ∀ cy ∈ l, occ cy q = false := by
  induction l generalizing i with
  | nil => simp
  | cons cy rest ih =>
    simp only [lastOnFrom] at h
    split at h
    · simp at h
    · rename_i hr
      split at h
      · simp at h
      · rename_i hocc
        intro c hc
        rcases List.mem_cons.mp hc with rfl | hc
        · simpa using hocc
        · exact ih (i + 1) hr c hc

theorem lastOnFrom_some (l : List Cycle) (i q j : Nat) (h : lastOnFrom l i q = some j) :
    i ≤ j ∧ j < i + l.length ∧ occ (l.getD (j - i) []) q = true ∧
      ∀ t, j - i < t → occ (l.getD t []) q = false := by
  induction l generalizing i with
  | nil => simp [lastOnFrom] at h
  | cons cy rest ih =>
    simp only [lastOnFrom] at h
    split at h
    · rename_i k hk
      injection h with h; subst h
      obtain ⟨h1, h2, h3, h4⟩ := ih (i + 1) hk
      refine ⟨by omega, by simp; omega, ?_, ?_⟩
      · have : k - i = (k - (i + 1)) + 1 := by omega
        rw [this]; simpa using h3
      · intro t ht
        cases t with
        | zero => omega
        | succ t => simpa using h4 t (by omega)
    · rename_i hr
      split at h
      · rename_i hocc
        injection h with h; subst h
        refine ⟨Nat.le_refl _, by simp, by simpa using hocc, ?_⟩
        intro t ht
        cases t with
        | zero => omega
        | succ t =>
          have := lastOnFrom_none rest (i + 1) q hr
          simp only [List.getD_cons_succ]
          by_cases hlt : t < rest.length
          · rw [getD_of_lt _ _ hlt]; exact this _ (List.getElem_mem hlt)
          · rw [getD_of_ge _ _ (Nat.le_of_not_lt hlt)]; simp [occ]
      · simp at h

theorem getD_occ_false_of_ge (l : List Cycle) (t q : Nat) (h : l.length ≤ t) :
    occ (l.getD t []) q = false := by
  rw [getD_of_ge _ _ h]; simp [occ]

/-- `findAvailable` lies after the last occupied cycle of every qudit of the location -/
theorem foldl_max_ge (c : Circ) (loc : List Nat) (m0 : Nat) :
    m0 ≤ loc.foldl c.availStep m0 ∧
    ∀ q ∈ loc, ∀ k, c.lastOn q = some k → k + 1 ≤ loc.foldl c.availStep m0 := by
  induction loc generalizing m0 with
  | nil => simp
  | cons a t ih =>
    simp only [List.foldl_cons]
    constructor
    · have h0 : m0 ≤ c.availStep m0 a := by
        unfold Circ.availStep; split
        · exact Nat.le_max_left _ _
        · exact Nat.le_refl _
      exact Nat.le_trans h0 (ih _).1
    · intro q hq k hk
      rcases List.mem_cons.mp hq with rfl | hq
      · have h0 : k + 1 ≤ c.availStep m0 q := by
          unfold Circ.availStep; rw [hk]; exact Nat.le_max_right _ _
        exact Nat.le_trans h0 (ih _).1
      · exact (ih _).2 q hq k hk

theorem findAvailable_free (c : Circ) (loc : List Nat) (q : Nat) (hq : q ∈ loc) :
    ∀ t, c.findAvailable loc ≤ t → occ (c.cycles.getD t []) q = false := by
  intro t ht
  unfold Circ.findAvailable at ht
  split at ht
  · rename_i he
    have : c.cycles = [] := by simpa using he
    simp [this, occ]
  · cases hl : c.lastOn q with
    | none =>
      have := lastOnFrom_none c.cycles 0 q hl
      by_cases hlt : t < c.cycles.length
      · rw [getD_of_lt _ _ hlt]; exact this _ (List.getElem_mem hlt)
      · exact getD_occ_false_of_ge _ _ _ (Nat.le_of_not_lt hlt)
    | some k =>
      have h1 := (foldl_max_ge c loc 0).2 q hq k hl
      have h2 := (lastOnFrom_some c.cycles 0 q k hl).2.2.2
      exact h2 t (by omega)

theorem findAvailable_le (c : Circ) (loc : List Nat) : c.findAvailable loc ≤ c.numCycles := by
  unfold Circ.findAvailable
  split
  · omega
  · -- every contribution is (last occupied index)+1 ≤ length
    have key : ∀ (l : List Nat) (m0 : Nat), m0 ≤ c.numCycles →
        l.foldl c.availStep m0 ≤ c.numCycles := by
      intro l
      induction l with
      | nil => intro m0 h; simpa using h
      | cons a t ih =>
        intro m0 h
        simp only [List.foldl_cons]
        apply ih
        unfold Circ.availStep
        cases hq : c.lastOn a with
        | none => simpa using h
        | some k =>
          have := (lastOnFrom_some c.cycles 0 a k hq).2.1
          simp only [Circ.numCycles] at *
          omega
    exact key loc 0 (Nat.zero_le _)

end BqVerif.Circ
