import BqVerif.Model.QasmSyn
import BqVerif.Proofs.QasmSubst
/-! Every expression tree of a parsed program is a source tree (no `PARAM_IDX`, no spliced
value): those nodes only arise inside `replace_param_ids` / `replace_param_indices`. -/
namespace BqVerif.Qasm

variable {V : Type}

theorem q_source : ∀ f,
    (∀ (ts : List (ETok V)) q rest, qExp f ts = some (q, rest) → q.source = true) ∧
    (∀ acc (ts : List (ETok V)) q rest, acc.source = true → qExpLoop f acc ts = some (q, rest) →
      q.source = true) ∧
    (∀ (ts : List (ETok V)) q rest, qMul f ts = some (q, rest) → q.source = true) ∧
    (∀ acc (ts : List (ETok V)) q rest, acc.source = true → qMulLoop f acc ts = some (q, rest) →
      q.source = true) ∧
    (∀ (ts : List (ETok V)) q rest, qPrim f ts = some (q, rest) → q.source = true) ∧
    (∀ (ts : List (ETok V)) q rest, qAtom f ts = some (q, rest) → q.source = true) := by
  intro f
  induction f with
  | zero =>
    refine ⟨?_, ?_, ?_, ?_, ?_, ?_⟩ <;> intros <;>
      simp_all [qExp, qExpLoop, qMul, qMulLoop, qPrim, qAtom]
  | succ f ih =>
    obtain ⟨ihE, ihEL, ihM, ihML, ihP, ihA⟩ := ih
    refine ⟨?_, ?_, ?_, ?_, ?_, ?_⟩
    · intro ts q rest h
      simp only [qExp, Option.bind_eq_some_iff] at h
      obtain ⟨p, hp, hl⟩ := h
      exact ihEL p.1 p.2 q rest (ihM ts p.1 p.2 (by simpa using hp)) hl
    · intro acc ts q rest hacc h
      unfold qExpLoop at h
      split at h
      · rename_i ts'
        simp only [Option.bind_eq_some_iff] at h
        obtain ⟨p, hp, hl⟩ := h
        have := ihM ts' p.1 p.2 (by simpa using hp)
        exact ihEL _ p.2 q rest (by simp [QE.source, hacc, this]) hl
      · rename_i ts'
        simp only [Option.bind_eq_some_iff] at h
        obtain ⟨p, hp, hl⟩ := h
        have := ihM ts' p.1 p.2 (by simpa using hp)
        exact ihEL _ p.2 q rest (by simp [QE.source, hacc, this]) hl
      · simp only [Option.some.injEq, Prod.mk.injEq] at h
        obtain ⟨rfl, _⟩ := h
        exact hacc
    · intro ts q rest h
      simp only [qMul, Option.bind_eq_some_iff] at h
      obtain ⟨p, hp, hl⟩ := h
      exact ihML p.1 p.2 q rest (ihP ts p.1 p.2 (by simpa using hp)) hl
    · intro acc ts q rest hacc h
      unfold qMulLoop at h
      split at h
      · rename_i ts'
        simp only [Option.bind_eq_some_iff] at h
        obtain ⟨p, hp, hl⟩ := h
        have := ihP ts' p.1 p.2 (by simpa using hp)
        exact ihML _ p.2 q rest (by simp [QE.source, hacc, this]) hl
      · rename_i ts'
        simp only [Option.bind_eq_some_iff] at h
        obtain ⟨p, hp, hl⟩ := h
        have := ihP ts' p.1 p.2 (by simpa using hp)
        exact ihML _ p.2 q rest (by simp [QE.source, hacc, this]) hl
      · simp only [Option.some.injEq, Prod.mk.injEq] at h
        obtain ⟨rfl, _⟩ := h
        exact hacc
    · intro ts q rest h
      simp only [qPrim, Option.bind_eq_some_iff] at h
      obtain ⟨p, hp, hm⟩ := h
      have ha := ihA ts p.1 p.2 (by simpa using hp)
      split at hm
      · rename_i r hr
        simp only [Option.bind_eq_some_iff, Option.some.injEq, Prod.mk.injEq] at hm
        obtain ⟨p2, hp2, rfl, _⟩ := hm
        have hb := ihP r p2.1 p2.2 (by simpa using hp2)
        simp [QE.source, ha, hb]
      · simp only [Option.some.injEq] at hm
        subst hm
        exact ha
    · intro ts q rest h
      unfold qAtom at h
      split at h
      · rename_i ts'
        simp only [Option.bind_eq_some_iff] at h
        obtain ⟨p, hp, hm⟩ := h
        have := ihE ts' p.1 p.2 (by simpa using hp)
        split at hm
        · simp only [Option.some.injEq, Prod.mk.injEq] at hm
          obtain ⟨rfl, _⟩ := hm
          simpa [QE.source] using this
        · simp at hm
      · rename_i ts'
        simp only [Option.bind_eq_some_iff, Option.some.injEq, Prod.mk.injEq] at h
        obtain ⟨p, hp, rfl, _⟩ := h
        simpa [QE.source] using ihE ts' p.1 p.2 (by simpa using hp)
      · rename_i g ts'
        simp only [Option.bind_eq_some_iff] at h
        obtain ⟨p, hp, hm⟩ := h
        have := ihE ts' p.1 p.2 (by simpa using hp)
        split at hm
        · simp only [Option.some.injEq, Prod.mk.injEq] at hm
          obtain ⟨rfl, _⟩ := hm
          simpa [QE.source] using this
        · simp at hm
      · simp only [Option.some.injEq, Prod.mk.injEq] at h
        obtain ⟨rfl, _⟩ := h
        rfl
      · simp only [Option.some.injEq, Prod.mk.injEq] at h
        obtain ⟨rfl, _⟩ := h
        rfl
      · simp at h

theorem larkParse_source (ts : List (ETok V)) (q : QE V) (h : larkParse ts = some q) :
    q.source = true := by
  unfold larkParse at h
  split at h
  · rename_i e hq
    simp only [Option.some.injEq] at h
    subst h
    exact (q_source (exprFuel ts)).1 ts _ [] hq
  · simp at h

theorem pExpSeg_source (seg : List Tok) (q : QE V) (h : pExpSeg seg = some q) :
    q.source = true := by
  unfold pExpSeg at h
  simp only [Option.bind_eq_some_iff] at h
  obtain ⟨ts, _, hq⟩ := h
  exact larkParse_source ts q hq

theorem mapM_source (segs : List (List Tok)) (qs : List (QE V))
    (h : segs.mapM pExpSeg = some qs) : ∀ q ∈ qs, q.source = true := by
  induction segs generalizing qs with
  | nil => simp at h; subst h; simp
  | cons s ss ih =>
    simp only [List.mapM_cons, Option.pure_def, Option.bind_eq_bind, Option.bind_eq_some_iff,
      Option.some.injEq] at h
    obtain ⟨q, hq, qs', hqs', rfl⟩ := h
    intro x hx
    simp only [List.mem_cons] at hx
    rcases hx with rfl | hx
    · exact pExpSeg_source s x hq
    · exact ih qs' hqs' x hx

theorem pParams_source (ts : List Tok) (qs : List (QE V)) (r : List Tok)
    (h : pParams ts = some (qs, r)) : ∀ q ∈ qs, q.source = true := by
  unfold pParams at h
  split at h
  · simp only [Option.some.injEq, Prod.mk.injEq] at h
    obtain ⟨rfl, _⟩ := h
    simp
  · split at h
    · rename_i segs r' _
      simp only [Option.map_eq_some_iff, Prod.mk.injEq] at h
      obtain ⟨qs', hqs', rfl, _⟩ := h
      exact mapM_source segs qs' hqs'
    · simp at h

/-- the parameter expressions of a gate application are source trees -/
def GCall.src : GCall V → Prop
  | .gate _ ps _ => ∀ q ∈ ps, q.source = true
  | .u ps _ => ∀ q ∈ ps, q.source = true
  | .cx _ _ => True

def BStmt.src : BStmt V → Prop
  | .call c => c.src
  | .barrier => True

def Stmt.src : Stmt V → Prop
  | .gatedecl _ _ _ body => ∀ b ∈ body, b.src
  | .call c => c.src
  | _ => True

theorem pGateRest_src (name : String) (ts : List Tok) (c : GCall V) (r : List Tok)
    (h : pGateRest name ts = some (c, r)) : c.src := by
  unfold pGateRest at h
  simp only at h
  split at h
  · rename_i params r' hps
    split at h
    · simp only [Option.some.injEq, Prod.mk.injEq] at h
      obtain ⟨rfl, _⟩ := h
      simp only [GCall.src]
      split at hps
      · exact pParams_source _ _ _ hps
      · simp only [Option.some.injEq, Prod.mk.injEq] at hps
        obtain ⟨rfl, _⟩ := hps
        simp
    · simp at h
  · simp at h

theorem pCall_src (ts : List Tok) (c : GCall V) (r : List Tok) (h : pCall ts = some (c, r)) :
    c.src := by
  unfold pCall at h
  split at h
  · -- U
    unfold pURest at h
    split at h
    · simp at h
    · split at h
      · rename_i params r' hps
        split at h
        · simp only [Option.some.injEq, Prod.mk.injEq] at h
          obtain ⟨rfl, _⟩ := h
          exact pParams_source _ _ _ hps
        · simp at h
      · simp at h
    · simp at h
  · -- CX
    unfold pCXRest at h
    split at h
    · split at h
      · simp only [Option.some.injEq, Prod.mk.injEq] at h
        obtain ⟨rfl, _⟩ := h
        trivial
      · simp at h
    · simp at h
  · exact pGateRest_src _ _ c r h
  · simp at h

theorem pBody_src : ∀ (f : Nat) (first : Bool) (ts : List Tok) (body : List (BStmt V))
    (r : List Tok), pBody f first ts = some (body, r) → ∀ b ∈ body, b.src
  | 0, _, _, _, _, h => by simp [pBody] at h
  | f + 1, first, ts, body, r, h => by
    unfold pBody at h
    split at h
    · simp at h
    · simp only [Option.some.injEq, Prod.mk.injEq] at h
      obtain ⟨rfl, _⟩ := h
      simp
    · rename_i f' heq hnb
      obtain rfl : f = f' := Nat.succ.inj heq
      simp only at h
      split at h
      · rename_i st r' hitem
        split at h
        · rename_i ss r'' hrest
          simp only [Option.some.injEq, Prod.mk.injEq] at h
          obtain ⟨rfl, _⟩ := h
          have ih := pBody_src f false r' ss r'' hrest
          intro b hb
          simp only [List.mem_cons] at hb
          rcases hb with rfl | hb
          · -- the item itself
            split at hitem
            · split at hitem
              · split at hitem
                · simp only [Option.some.injEq, Prod.mk.injEq] at hitem
                  obtain ⟨rfl, _⟩ := hitem
                  trivial
                · simp at hitem
              · simp only [Option.map_eq_some_iff, Prod.mk.injEq] at hitem
                obtain ⟨p, hp, rfl, _⟩ := hitem
                exact pGateRest_src _ _ p.1 p.2 (by simpa using hp)
            · split at hitem
              · simp only [Option.map_eq_some_iff, Prod.mk.injEq] at hitem
                obtain ⟨p, hp, rfl, _⟩ := hitem
                exact pGateRest_src _ _ p.1 p.2 (by simpa using hp)
              · split at hitem
                · simp only [Option.some.injEq, Prod.mk.injEq] at hitem
                  obtain ⟨rfl, _⟩ := hitem
                  trivial
                · simp at hitem
            · simp only [Option.map_eq_some_iff, Prod.mk.injEq] at hitem
              obtain ⟨p, hp, rfl, _⟩ := hitem
              exact pCall_src _ p.1 p.2 (by simpa using hp)
          · exact ih b hb
        · simp at h
      · simp at h

theorem pQop_src (ts : List Tok) (st : Stmt V) (r : List Tok) (h : pQop ts = some (st, r)) :
    st.src := by
  unfold pQop at h
  split at h
  · split at h
    · split at h
      · simp only [Option.some.injEq, Prod.mk.injEq] at h
        obtain ⟨rfl, _⟩ := h
        trivial
      · simp at h
    · simp at h
  · split at h
    · simp only [Option.some.injEq, Prod.mk.injEq] at h
      obtain ⟨rfl, _⟩ := h
      trivial
    · simp at h
  · simp only [Option.map_eq_some_iff, Prod.mk.injEq] at h
    obtain ⟨p, hp, rfl, _⟩ := h
    exact pCall_src _ p.1 p.2 (by simpa using hp)

theorem pStmt_src (ts : List Tok) (st : Stmt V) (r : List Tok) (h : pStmt ts = some (st, r)) :
    st.src := by
  unfold pStmt at h
  split at h
  · simp only [Option.some.injEq, Prod.mk.injEq] at h; obtain ⟨rfl, _⟩ := h; trivial
  · split at h
    · simp only [Option.some.injEq, Prod.mk.injEq] at h; obtain ⟨rfl, _⟩ := h; trivial
    · simp at h
  · split at h
    · simp only [Option.some.injEq, Prod.mk.injEq] at h; obtain ⟨rfl, _⟩ := h; trivial
    · simp at h
  · -- gate
    split at h
    · split at h
      · split at h
        · rename_i body r3 hbody
          simp only [Option.some.injEq, Prod.mk.injEq] at h
          obtain ⟨rfl, _⟩ := h
          exact pBody_src _ _ _ body r3 hbody
        · simp at h
      · simp at h
    · simp at h
  · -- opaque
    split at h
    · split at h
      · simp only [Option.some.injEq, Prod.mk.injEq] at h; obtain ⟨rfl, _⟩ := h; trivial
      · simp at h
    · simp at h
  · simp at h
  · split at h
    · simp only [Option.some.injEq, Prod.mk.injEq] at h; obtain ⟨rfl, _⟩ := h; trivial
    · simp at h
  · exact pQop_src _ st r h

theorem pProgram_src : ∀ (f : Nat) (ts : List Tok) (ss : List (Stmt V)) (r : List Tok),
    pProgram f ts = some (ss, r) → ∀ st ∈ ss, st.src
  | 0, _, _, _, h => by simp [pProgram] at h
  | f + 1, ts, ss, r, h => by
    unfold pProgram at h
    split at h
    · simp at h
    · simp only [Option.some.injEq, Prod.mk.injEq] at h
      obtain ⟨rfl, _⟩ := h
      simp
    · rename_i f' heq hne
      obtain rfl : f = f' := Nat.succ.inj heq
      split at h
      · rename_i st r' hst
        split at h
        · rename_i ss' r'' hrest
          simp only [Option.some.injEq, Prod.mk.injEq] at h
          obtain ⟨rfl, _⟩ := h
          intro x hx
          simp only [List.mem_cons] at hx
          rcases hx with rfl | hx
          · exact pStmt_src _ x r' hst
          · exact pProgram_src f r' ss' r'' hrest x hx
        · simp at h
      · simp at h

/-- every parameter expression of a parsed program is a source tree -/
theorem parseProgram_src (ts : List Tok) (ss : List (Stmt V)) (h : parseProgram ts = some ss) :
    ∀ st ∈ ss, st.src := by
  unfold parseProgram at h
  split at h
  · split at h
    · rename_i ss' hp
      split at h
      · simp at h
      · simp only [Option.some.injEq] at h
        subst h
        exact pProgram_src _ _ ss' [] hp
    · simp at h
  · simp at h

end BqVerif.Qasm
