import BqVerif.Proofs.RetOnce
/-! Network level of "every task returns at most once" (mirrors `StartOnceNet.lean`). -/
namespace BqVerif.Runtime

def PsiT (a : Addr) (n : Net) : Nat := TokT a n + freshA a n

theorem TokT_post_le (a : Addr) (n : Net) (s d : NodeId) (m : Msg) :
    TokT a (n.post s d m) ≤ TokT a n + tokMsgU a m := by
  unfold Net.post
  split
  · have := tokChansU_chanSet a n.chans (s, d) (chanGet n.chans (s, d) ++ [m])
    simp only [TokT, tokMsgsU, sumBy_append, sumBy] at this ⊢
    omega
  · exact Nat.le_add_right _ _

theorem TokT_postAll_le (a : Addr) (n : Net) (s : NodeId) (o : Out) :
    TokT a (n.postAll s o) ≤ TokT a n + tokOutU a o := by
  unfold Net.postAll
  induction o generalizing n with
  | nil => simp [tokOutU, sumBy]
  | cons dm t ih =>
    simp only [List.foldl_cons, tokOutU, sumBy]
    have h1 := ih (n.post s dm.1 dm.2)
    have h2 := TokT_post_le a n s dm.1 dm.2
    simp only [tokOutU] at h1
    omega

theorem TokT_pop (a : Addr) (n : Net) (k : NodeId × NodeId) (m : Msg) (rest : List Msg)
    (h : chanGet n.chans k = m :: rest) :
    TokT a { n with chans := chanSet n.chans k rest } + tokMsgU a m = TokT a n := by
  have := tokChansU_chanSet a n.chans k rest
  rw [h] at this
  simp only [TokT, tokMsgsU, sumBy] at this ⊢
  omega


/-- generic step: same hypotheses as `GInv.step`, plus the bound on unstarted tokens -/
theorem PsiT_step {n n' : Net} (a : Addr) (rets : Nat)
    (hctrW : ∀ w' ∈ n'.workers, ∃ w ∈ n.workers, w.id = w'.id ∧ w.counter ≤ w'.counter)
    (hctrS : n.server.counter ≤ n'.server.counter)
    (δ : Nat) (htok : TokT a n' + rets ≤ TokT a n + δ) (hδ1 : δ ≤ 1)
    (hδ : 0 < δ → freshA a n = 1 ∧ (a.w = -1 → a.m < n'.server.counter)
      ∧ (∀ w' ∈ n'.workers, a.w = w'.id → a.m < w'.counter)) :
    PsiT a n' + rets ≤ PsiT a n := by
  have hmono : freshA a n' ≤ freshA a n := by
    simp only [freshA]
    split
    · rename_i h'
      have hgoal : (a.w = -1 ∧ n.server.counter ≤ a.m)
          ∨ (n.workers.any (fun w => w.id == a.w && decide (w.counter ≤ a.m))) = true := by
        rcases h' with ⟨h1, h2⟩ | h2
        · exact Or.inl ⟨h1, by omega⟩
        · right
          simp only [List.any_eq_true, Bool.and_eq_true, beq_iff_eq, decide_eq_true_eq] at h2 ⊢
          obtain ⟨w', hw', e, hc⟩ := h2
          obtain ⟨w, hw, e2, hc2⟩ := hctrW w' hw'
          exact ⟨w, hw, by rw [e2]; exact e, by omega⟩
      rw [if_pos hgoal]
      exact Nat.le_refl _
    · exact Nat.zero_le _
  by_cases hd : 0 < δ
  · obtain ⟨f1, f2, f3⟩ := hδ hd
    have f0 : freshA a n' = 0 := by
      simp only [freshA]
      rw [if_neg]
      intro h'
      rcases h' with ⟨h1, h2⟩ | h2
      · have := f2 h1; omega
      · simp only [List.any_eq_true, Bool.and_eq_true, beq_iff_eq, decide_eq_true_eq] at h2
        obtain ⟨w', hw', e, hc⟩ := h2
        have := f3 w' hw' e.symm
        omega
    simp only [PsiT]; omega
  · simp only [PsiT]; omega



theorem TokT_setWorker_post (a : Addr) (n : Net) (w w' : Worker) (src : NodeId) (o : Out)
    (hn : (n.workers.map (·.id)).Nodup) (hw : w ∈ n.workers) (hid : w'.id = w.id) :
    TokT a (({ n with workers := setWorker n.workers w' } : Net).postAll src o) + tokW a w
      ≤ TokT a n + tokW a w' + tokOutU a o := by
  have h1 := TokT_postAll_le a ({ n with workers := setWorker n.workers w' } : Net) src o
  have h2 := sumBy_setWorker (tokW a) n.workers w w' hn hw hid
  simp only [TokT] at h1 ⊢
  omega

theorem TokT_setWorker (a : Addr) (n : Net) (w w' : Worker)
    (hn : (n.workers.map (·.id)).Nodup) (hw : w ∈ n.workers) (hid : w'.id = w.id) :
    TokT a ({ n with workers := setWorker n.workers w' } : Net) + tokW a w = TokT a n + tokW a w' := by
  have h2 := sumBy_setWorker (tokW a) n.workers w w' hn hw hid
  simp only [TokT]
  omega

theorem TokT_workerStep_le (a : Addr) (n : Net) (w w' : Worker) (out : List Msg) (boss src : NodeId)
    (hn : (n.workers.map (·.id)).Nodup) (hw : w ∈ n.workers) (hid : w'.id = w.id) :
    TokT a (({ n with workers := setWorker n.workers w' } : Net).postAll src
        (out.map (fun m => (boss, m)))) + tokW a w
      ≤ TokT a n + tokW a w' + tokMsgsU a out := by
  have := TokT_setWorker_post a n w w' src (out.map (fun m => (boss, m))) hn hw hid
  rw [tokOutU_map_boss] at this
  exact this

theorem PsiT_of_le {n n' : Net} (a : Addr)
    (hctrW : ∀ w' ∈ n'.workers, ∃ w ∈ n.workers, w.id = w'.id ∧ w.counter ≤ w'.counter)
    (hctrS : n.server.counter ≤ n'.server.counter) (htok : TokT a n' ≤ TokT a n) :
    PsiT a n' + 0 ≤ PsiT a n :=
  PsiT_step a 0 hctrW hctrS 0 (by omega) (by omega) (fun h => absurd h (Nat.lt_irrefl 0))

theorem PsiT_workerStep {n : Net} (h : GInv n) (id : Int) (a : Addr) :
    PsiT a (n.workerStep id).net + retsOf a (n.workerStep id).evs ≤ PsiT a n := by
  unfold Net.workerStep
  split
  · simp [retsOf, sumBy]
  · rename_i w hf
    obtain ⟨hw, hwid⟩ := find_worker_mem _ _ _ hf
    split
    · simp [retsOf, sumBy]
    · dsimp only
      have hmono := step_mono n.tbl w
      have hid' : (if (w.step n.tbl).w.mainDead then { (w.step n.tbl).w with alive := false }
          else (w.step n.tbl).w).id = w.id := by split <;> simp [hmono.id]
      refine PsiT_step a _ ?_ ?_ (ind a w (w.step n.tbl).w) ?_ ?_ ?_
      · intro w'' hw''
        rw [(postAll_fields _ _ _).1] at hw''
        rcases mem_setWorker _ _ _ hw'' with rfl | ⟨hm, _⟩
        · refine ⟨w, hw, hid'.symm, ?_⟩
          split <;> exact hmono.ctr
        · exact ⟨w'', hm, rfl, Nat.le_refl _⟩
      · rw [(postAll_fields _ _ _).2.1]; exact Nat.le_refl _
      · have hst := step_T a n.tbl w
        have e : tokW a (if (w.step n.tbl).w.mainDead then { (w.step n.tbl).w with alive := false }
            else (w.step n.tbl).w) = tokW a (w.step n.tbl).w := by split <;> rfl
        have key : ∀ X : Nat,
            X + tokW a w ≤ TokT a n + tokW a (if (w.step n.tbl).w.mainDead
                then { (w.step n.tbl).w with alive := false } else (w.step n.tbl).w)
              + tokMsgsU a (w.step n.tbl).out →
            X + retsOf a (w.step n.tbl).evs ≤ TokT a n + ind a w (w.step n.tbl).w := by
          intro X hX
          rw [e] at hX
          omega
        refine key _ ?_
        exact TokT_workerStep_le a n w _ _ _ _ h.ids hw hid'
      · simp only [ind]; split <;> omega
      · intro ha
        simp only [ind] at ha
        split at ha
        · rename_i hc
          obtain ⟨h1, h2, h3⟩ := hc
          refine ⟨?_, ?_, ?_⟩
          · simp only [freshA]
            rw [if_pos]
            right
            simp only [List.any_eq_true, Bool.and_eq_true, beq_iff_eq, decide_eq_true_eq]
            exact ⟨w, hw, h1.symm, h2⟩
          · intro hneg
            have := h.pos w hw
            omega
          · intro w'' hw'' haw
            rw [(postAll_fields _ _ _).1] at hw''
            rcases mem_setWorker _ _ _ hw'' with rfl | ⟨_, hne⟩
            · split <;> exact h3
            · exfalso
              apply hne
              rw [← haw, h1, hid']
        · omega


theorem PsiT_clientSend {n : Net} (j : Nat) (m : Option Msg) (dies : Bool) (a : Addr)
    (hwf : ∀ msg, m = some msg → ∀ a, tokMsg a msg = 0) :
    PsiT a (n.clientSend j m dies).net + retsOf a (n.clientSend j m dies).evs ≤ PsiT a n := by
  have hev : retsOf a (n.clientSend j m dies).evs = 0 := rfl
  rw [hev]
  cases m with
  | none =>
    simp only [Net.clientSend]
    split
    · exact PsiT_of_le a (same_workers_ctr _) (Nat.le_refl _) (Nat.le_refl _)
    · exact Nat.le_refl _
  | some msg =>
    have base : PsiT a (n.post (.client j) .server msg) + 0 ≤ PsiT a n := by
      apply PsiT_of_le
      · rw [(post_fields _ _ _ _).1]; exact same_workers_ctr _
      · rw [(post_fields _ _ _ _).2.1]; exact Nat.le_refl _
      · have := TokT_post_le a n (.client j) .server msg
        have h0 := tokMsgU_le a msg
        rw [hwf msg rfl a] at h0
        omega
    simp only [Net.clientSend]
    split
    · exact Nat.le_trans (PsiT_of_le a (same_workers_ctr _) (Nat.le_refl _) (Nat.le_refl _)) base
    · exact base

theorem PsiT_deliver {n : Net} (h : GInv n) (src dst : NodeId) (asg ord : List Nat) (died : Bool)
    (a : Addr) :
    PsiT a (n.deliver src dst asg ord died).net + retsOf a (n.deliver src dst asg ord died).evs
      ≤ PsiT a n := by
  have hev : retsOf a (n.deliver src dst asg ord died).evs = 0 := by
    unfold Net.deliver
    split
    · rfl
    · dsimp only
      split
      · split
        · rfl
        · split <;> rfl
      · split
        · rfl
        · split <;> rfl
      · split <;> rfl
      · split
        · rfl
        · split <;> rfl
  rw [hev]
  cases hk : chanGet n.chans (src, dst) with
  | nil => simp only [Net.deliver, hk]; exact Nat.le_refl _
  | cons m rest =>
    have hpop := TokT_pop a n (src, dst) m rest hk
    have h0 : PsiT a ({ n with chans := chanSet n.chans (src, dst) rest } : Net) + 0 ≤ PsiT a n :=
      PsiT_of_le a (same_workers_ctr _) (Nat.le_refl _) (by omega)
    have g0 := h.pop (src, dst) m rest hk
    cases dst with
    | wrk id =>
      simp only [Net.deliver, hk]
      split
      · exact h0
      · rename_i w hf
        obtain ⟨hw, hwid⟩ := find_worker_mem _ _ _ hf
        split
        · exact h0
        · have hmono := recv_mono w m
          apply PsiT_of_le
          · intro w'' hw''
            rcases mem_setWorker _ _ _ hw'' with rfl | ⟨hm, _⟩
            · exact ⟨w, hw, hmono.id.symm, hmono.ctr⟩
            · exact ⟨w'', hm, rfl, Nat.le_refl _⟩
          · exact Nat.le_refl _
          · have h1 := TokT_setWorker a { n with chans := chanSet n.chans (src, .wrk id) rest } w (w.recv m)
              g0.ids hw hmono.id
            have h2 := tokW_recv_leU a w m
            have e : ({ ({ n with chans := chanSet n.chans (src, .wrk id) rest } : Net) with
                workers := setWorker ({ n with chans := chanSet n.chans (src, .wrk id) rest } : Net).workers
                  (w.recv m) } : Net)
                = { n with chans := chanSet n.chans (src, .wrk id) rest,
                           workers := setWorker n.workers (w.recv m) } := rfl
            rw [e] at h1
            dsimp only
            omega
    | client j =>
      simp only [Net.deliver, hk]
      split
      · exact h0
      · split
        · refine Nat.le_trans ?_ h0
          apply PsiT_of_le
          · rw [(post_fields _ _ _ _).1]; exact same_workers_ctr _
          · rw [(post_fields _ _ _ _).2.1]; exact Nat.le_refl _
          · have := TokT_post_le a ({ ({ n with chans := chanSet n.chans (src, .client j) rest } : Net) with
              deadClients := n.deadClients ++ [j] } : Net) (.client j) .server .eof
            simp only [tokMsgU, Nat.add_zero] at this
            exact Nat.le_trans this (Nat.le_of_eq rfl)
        · exact h0
    | mgr i =>
      have : n.mgrs[i]? = none := by rw [h.flat]; rfl
      simp only [Net.deliver, hk, this]
      exact h0
    | server =>
      simp only [Net.deliver, hk]
      split
      · exact h0
      · have htok := handle_tokU a n.server src m asg ord
        have htokF := handle_tok a n.server src m asg ord
        have hctr := handle_counter n.server src m asg ord
        refine PsiT_step a 0 ?_ ?_
          (if isClient src then hTokU a (n.server.handle src m asg ord) else 0) ?_ ?_ ?_
        · rw [(postAll_fields _ _ _).1]; exact same_workers_ctr _
        · rw [(postAll_fields _ _ _).2.1]; exact hctr.1
        · have final : TokT a (({ ({ n with chans := chanSet n.chans (src, .server) rest } : Net) with server := (n.server.handle src m asg ord).st } : Net).postAll .server ((n.server.handle src m asg ord).direct ++ flushServer (n.server.handle src m asg ord).st (n.server.handle src m asg ord).queued)) + 0
              ≤ TokT a n + (if isClient src then hTokU a (n.server.handle src m asg ord) else 0) := by
            have h1 := TokT_postAll_le a ({ ({ n with chans := chanSet n.chans (src, .server) rest } : Net) with server := (n.server.handle src m asg ord).st } : Net) .server ((n.server.handle src m asg ord).direct ++ flushServer (n.server.handle src m asg ord).st (n.server.handle src m asg ord).queued)
            have e : TokT a ({ ({ n with chans := chanSet n.chans (src, .server) rest } : Net) with server := (n.server.handle src m asg ord).st } : Net) = TokT a ({ n with chans := chanSet n.chans (src, .server) rest } : Net) := rfl
            have h2 := tokOutU_flush_le a (n.server.handle src m asg ord).st (n.server.handle src m asg ord).queued
            rw [tokOutU_append, e] at h1
            have hh : hTokU a (n.server.handle src m asg ord)
                = tokOutU a (n.server.handle src m asg ord).direct
                  + tokOutU a (n.server.handle src m asg ord).queued := rfl
            by_cases hc : isClient src = true
            · simp only [hc, if_true] at htok ⊢
              dsimp only at h1 ⊢
              omega
            · have hc' : isClient src = false := by simpa using hc
              simp only [hc', Bool.false_eq_true, if_false, Nat.add_zero] at htok ⊢
              dsimp only at h1 ⊢
              omega
          exact final
        · split
          · rename_i hc
            simp only [hc, if_true] at htok
            refine Nat.le_trans htok ?_
            split <;> omega
          · exact Nat.zero_le _
        · intro ha
          split at ha
          · rename_i hc
            simp only [hc, if_true] at htok htokF
            have ha' : a = ⟨-1, n.server.counter, 0⟩ := by
              by_cases e : a = ⟨-1, n.server.counter, 0⟩
              · exact e
              · simp only [e, if_false] at htok; omega
            have hF : 0 < hTok a (n.server.handle src m asg ord) :=
              Nat.lt_of_lt_of_le ha (hTokU_le a _)
            refine ⟨?_, ?_, ?_⟩
            · simp only [freshA]
              rw [if_pos]
              left
              rw [ha']
              exact ⟨rfl, Nat.le_refl _⟩
            · intro _
              rw [(postAll_fields _ _ _).2.1]
              have := hctr.2 a hc hF
              rw [ha']
              exact this
            · intro w' hw' haw
              rw [(postAll_fields _ _ _).1] at hw'
              have := h.pos w' hw'
              rw [ha'] at haw
              simp at haw
              omega
          · omega

theorem PsiT_apply {n : Net} (h : GInv n) (t : Tr) (hwf : t.wf) (a : Addr) :
    PsiT a (n.apply t).net + retsOf a (n.apply t).evs ≤ PsiT a n := by
  cases t with
  | deliver s d asg ord died => exact PsiT_deliver h s d asg ord died a
  | step id => exact PsiT_workerStep h id a
  | client j m dies =>
    apply PsiT_clientSend j m dies a
    intro msg hm b
    subst hm
    exact hwf b

theorem PsiT_exec {n : Net} (h : GInv n) (trs : List Tr) (hwf : ∀ t ∈ trs, t.wf) (a : Addr) :
    PsiT a (n.exec trs) + retsOf a (n.execEvs trs) ≤ PsiT a n := by
  induction trs generalizing n with
  | nil => simp [Net.exec, Net.execEvs, retsOf, sumBy]
  | cons t ts ih =>
    have h1 := PsiT_apply h t (hwf t List.mem_cons_self) a
    have h2 := ih (h.apply t (hwf t List.mem_cons_self)) (fun t' ht' => hwf t' (List.mem_cons_of_mem _ ht'))
    simp only [Net.exec, List.foldl_cons, Net.execEvs, retsOf_append] at h2 ⊢
    omega

theorem TokT_init (a : Addr) (tbl : Table) (att : Bool) (nw nc : Nat) :
    TokT a (Net.initFlat tbl att nw nc) = 0 := by
  simp only [TokT, Net.initFlat, tokChansU, sumBy, Nat.zero_add]
  apply sumBy_zero
  intro w hw
  simp only [mkWorkers, List.mem_map] at hw
  obtain ⟨i, _, rfl⟩ := hw
  simp [tokW, cntA, sumBy]

/-- **every task returns at most once**, in every run of the flat network -/
theorem rets_at_most_once (tbl : Table) (att : Bool) (nw nc : Nat) (trs : List Tr)
    (hwf : ∀ t ∈ trs, t.wf) (a : Addr) :
    retsOf a ((Net.initFlat tbl att nw nc).execEvs trs) ≤ 1 := by
  have h := PsiT_exec (GInv.init tbl att nw nc) trs hwf a
  have h1 := freshA_le_one a (Net.initFlat tbl att nw nc)
  simp only [PsiT, TokT_init] at h
  omega


end BqVerif.Runtime

namespace BqVerif.Runtime

theorem retsOf_pos_of_mem (a : Addr) (H : List Ev) (tag : List Nat) (v : Val)
    (h : Ev.ret a tag v ∈ H) : 0 < retsOf a H := by
  have := le_sumBy_of_mem (isRet a) H _ h
  simp only [isRet, if_true] at this
  exact this

/-- at most one `ret` event per address ⇒ the returned value is unique -/
theorem ret_unique (a : Addr) (H : List Ev) (hle : retsOf a H ≤ 1) (t t' : List Nat) (v v' : Val)
    (h1 : Ev.ret a t v ∈ H) (h2 : Ev.ret a t' v' ∈ H) : v = v' := by
  induction H with
  | nil => simp at h1
  | cons e es ih =>
    simp only [retsOf, sumBy] at hle
    rcases List.mem_cons.mp h1 with e1 | m1
    · rcases List.mem_cons.mp h2 with e2 | m2
      · rw [← e1] at e2; simp only [Ev.ret.injEq] at e2; exact e2.2.2.symm
      · have := retsOf_pos_of_mem a es t' v' m2
        rw [← e1] at hle
        simp only [isRet, if_true, retsOf] at hle this
        omega
    · rcases List.mem_cons.mp h2 with e2 | m2
      · have := retsOf_pos_of_mem a es t v m1
        rw [← e2] at hle
        simp only [isRet, if_true, retsOf] at hle this
        omega
      · exact ih (by simp only [retsOf]; omega) m1 m2

end BqVerif.Runtime
