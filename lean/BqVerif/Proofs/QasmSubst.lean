import BqVerif.Model.QasmSpec
/-! # Formal parameters: splicing `(value)` into the text = binding in the tree

`replace_param_ids` + `replace_param_indices` + `eval_exp_recurse` splice the actual values
into the Python text as parenthesised atoms `(v)`.  That is the same as parsing the body
expression once and binding the formals in the tree (`PE.evalEnvSpec`) — for every value. -/
namespace BqVerif.Qasm

variable {V : Type}

def PE.bindEnv (σ : Env V) : PE V → PE V
  | .lit s => .lit s
  | .val v => .val v
  | .name s => match σ s with
    | some v => .val v
    | none => .name s
  | .neg e => .neg (e.bindEnv σ)
  | .bin op l r => .bin op (l.bindEnv σ) (r.bindEnv σ)
  | .pow a b => .pow (a.bindEnv σ) (b.bindEnv σ)
  | .call f e => .call f (e.bindEnv σ)

/-- **substitution lemma**: evaluating the tree with the values put in = evaluating the tree
under the binding -/
theorem eval_bindEnv (A : Arith V) (σ : Env V) (e : PE V) :
    (e.bindEnv σ).eval A = e.evalEnvSpec A σ := by
  induction e with
  | lit s => rfl
  | val v => rfl
  | name s =>
    simp only [PE.bindEnv, PE.evalEnvSpec]
    cases σ s <;> simp [PE.eval]
  | neg e ih => simp [PE.bindEnv, PE.evalEnvSpec, PE.eval, ih]
  | bin op l r ihl ihr =>
    simp only [PE.bindEnv, PE.evalEnvSpec, PE.eval, ihl, ihr]
    cases PE.evalEnvSpec A σ l <;> cases PE.evalEnvSpec A σ r <;> rfl
  | pow a b iha ihb =>
    simp only [PE.bindEnv, PE.evalEnvSpec, PE.eval, iha, ihb]
    cases PE.evalEnvSpec A σ a <;> cases PE.evalEnvSpec A σ b <;> rfl
  | call f e ih => simp [PE.bindEnv, PE.evalEnvSpec, PE.eval, ih]

theorem evalEnvSpec_noEnv (A : Arith V) (e : PE V) : e.evalEnvSpec A noEnv = e.eval A := by
  induction e with
  | lit s => rfl
  | val v => rfl
  | name s => simp [PE.evalEnvSpec, PE.eval, noEnv]
  | neg e ih => simp [PE.evalEnvSpec, PE.eval, ih]
  | bin op l r ihl ihr =>
    simp only [PE.evalEnvSpec, PE.eval, ihl, ihr]
    cases PE.eval A l <;> cases PE.eval A r <;> rfl
  | pow a b iha ihb =>
    simp only [PE.evalEnvSpec, PE.eval, iha, ihb]
    cases PE.eval A a <;> cases PE.eval A b <;> rfl
  | call f e ih => simp [PE.evalEnvSpec, PE.eval, ih]

/-- the spliced text: every bound name becomes the three tokens `(` `v` `)` -/
def tsubst (σ : Env V) : List (ETok V) → List (ETok V)
  | [] => []
  | .name s :: ts =>
    (match σ s with
     | some v => .lp :: .val v :: .rp :: tsubst σ ts
     | none => .name s :: tsubst σ ts)
  | .lit s :: ts => .lit s :: tsubst σ ts
  | .val v :: ts => .val v :: tsubst σ ts
  | .fn g :: ts => .fn g :: tsubst σ ts
  | .lp :: ts => .lp :: tsubst σ ts
  | .rp :: ts => .rp :: tsubst σ ts
  | .plus :: ts => .plus :: tsubst σ ts
  | .minus :: ts => .minus :: tsubst σ ts
  | .star :: ts => .star :: tsubst σ ts
  | .slash :: ts => .slash :: tsubst σ ts
  | .pow :: ts => .pow :: tsubst σ ts

theorem tsubst_append (σ : Env V) (a b : List (ETok V)) :
    tsubst σ (a ++ b) = tsubst σ a ++ tsubst σ b := by
  induction a with
  | nil => rfl
  | cons t ts ih =>
    cases t <;> simp [tsubst, ih]
    rename_i s
    cases σ s <;> simp

theorem tsubst_length_ge (σ : Env V) (ts : List (ETok V)) :
    ts.length ≤ (tsubst σ ts).length := by
  induction ts with
  | nil => simp [tsubst]
  | cons t ts ih =>
    cases t <;> simp [tsubst] <;> try omega
    rename_i s
    cases σ s <;> simp <;> omega

theorem tsubst_eq_of_length (σ : Env V) (ts : List (ETok V))
    (h : (tsubst σ ts).length = ts.length) : tsubst σ ts = ts := by
  induction ts with
  | nil => rfl
  | cons t ts ih =>
    have hge := tsubst_length_ge σ ts
    cases t with
    | name s =>
      simp only [tsubst] at h ⊢
      cases hs : σ s with
      | some v => simp [hs] at h; omega
      | none => simp [hs] at h ⊢; exact ih h
    | _ => simp only [tsubst, List.length_cons, Nat.add_right_cancel_iff] at h ⊢
           rw [ih h]

/-! ## fuel monotonicity -/

theorem py_mono : ∀ f,
    (∀ (ts : List (ETok V)) r, pySum f ts = some r → pySum (f + 1) ts = some r) ∧
    (∀ acc (ts : List (ETok V)) r, pySumLoop f acc ts = some r →
      pySumLoop (f + 1) acc ts = some r) ∧
    (∀ (ts : List (ETok V)) r, pyTerm f ts = some r → pyTerm (f + 1) ts = some r) ∧
    (∀ acc (ts : List (ETok V)) r, pyTermLoop f acc ts = some r →
      pyTermLoop (f + 1) acc ts = some r) ∧
    (∀ (ts : List (ETok V)) r, pyFactor f ts = some r → pyFactor (f + 1) ts = some r) ∧
    (∀ (ts : List (ETok V)) r, pyPower f ts = some r → pyPower (f + 1) ts = some r) ∧
    (∀ (ts : List (ETok V)) r, pyAtom f ts = some r → pyAtom (f + 1) ts = some r) := by
  intro f
  induction f with
  | zero => simp [pySum, pySumLoop, pyTerm, pyTermLoop, pyFactor, pyPower, pyAtom]
  | succ f ih =>
    obtain ⟨ihS, ihSL, ihT, ihTL, ihF, ihP, ihA⟩ := ih
    refine ⟨?_, ?_, ?_, ?_, ?_, ?_, ?_⟩
    · intro ts r h
      simp only [pySum, Option.bind_eq_some_iff] at h
      obtain ⟨p, hp, hl⟩ := h
      simp only [pySum, ihT ts p hp, Option.bind_some, ihSL _ _ r hl]
    · intro acc ts r h
      unfold pySumLoop at h ⊢
      split at h
      · simp only [Option.bind_eq_some_iff] at h
        obtain ⟨p, hp, hl⟩ := h
        simp only [ihT _ p hp, Option.bind_some, ihSL _ _ r hl]
      · simp only [Option.bind_eq_some_iff] at h
        obtain ⟨p, hp, hl⟩ := h
        simp only [ihT _ p hp, Option.bind_some, ihSL _ _ r hl]
      · exact h
    · intro ts r h
      simp only [pyTerm, Option.bind_eq_some_iff] at h
      obtain ⟨p, hp, hl⟩ := h
      simp only [pyTerm, ihF ts p hp, Option.bind_some, ihTL _ _ r hl]
    · intro acc ts r h
      unfold pyTermLoop at h ⊢
      split at h
      · simp only [Option.bind_eq_some_iff] at h
        obtain ⟨p, hp, hl⟩ := h
        simp only [ihF _ p hp, Option.bind_some, ihTL _ _ r hl]
      · simp only [Option.bind_eq_some_iff] at h
        obtain ⟨p, hp, hl⟩ := h
        simp only [ihF _ p hp, Option.bind_some, ihTL _ _ r hl]
      · exact h
    · intro ts r h
      unfold pyFactor at h ⊢
      split at h
      · simp only [Option.bind_eq_some_iff] at h
        obtain ⟨p, hp, hl⟩ := h
        simp only [ihF _ p hp, Option.bind_some, hl]
      · exact ihP ts r h
    · intro ts r h
      simp only [pyPower, Option.bind_eq_some_iff] at h
      obtain ⟨p, hp, hm⟩ := h
      simp only [pyPower, ihA ts p hp, Option.bind_some]
      split at hm
      · rename_i r' hr'
        simp only [Option.bind_eq_some_iff] at hm
        obtain ⟨q, hq, hqr⟩ := hm
        simp only [hr', ihF _ q hq, Option.bind_some, hqr]
      · first
          | exact hm
          | (rename_i hne
             split
             · rename_i r' hr'
               exact absurd hr' (hne r')
             · exact hm)
    · intro ts r h
      unfold pyAtom at h ⊢
      split at h
      · simp only [Option.bind_eq_some_iff] at h
        obtain ⟨p, hp, hm⟩ := h
        simp only [ihS _ p hp, Option.bind_some, hm]
      · simp only [Option.bind_eq_some_iff] at h
        obtain ⟨p, hp, hm⟩ := h
        simp only [ihS _ p hp, Option.bind_some, hm]
      · exact h
      · exact h
      · exact h
      · exact h

theorem pySum_mono (f k : Nat) (ts : List (ETok V)) (r : PE V × List (ETok V))
    (h : pySum f ts = some r) : pySum (f + k) ts = some r := by
  induction k with
  | zero => exact h
  | succ k ih => exact (py_mono (f + k)).1 ts r ih

/-! ## the parser on the spliced text -/

/-- a parenthesised value is an atom -/
theorem pySum_val (k : Nat) (v : V) (T : List (ETok V)) :
    pySum (k + 5) (.val v :: .rp :: T) = some (.val v, .rp :: T) := by
  simp [pySum, pyTerm, pyFactor, pyPower, pyAtom, pyTermLoop, pySumLoop]

/-- an operator / closing token at the head of the spliced text was there before -/
theorem tsubst_head (σ : Env V) (ts : List (ETok V)) (t : ETok V)
    (ht : t = .plus ∨ t = .minus ∨ t = .star ∨ t = .slash ∨ t = .pow ∨ t = .rp)
    (r : List (ETok V)) (h : tsubst σ ts = t :: r) : ∃ ts', ts = t :: ts' ∧ r = tsubst σ ts' := by
  cases ts with
  | nil => simp [tsubst] at h
  | cons a ts' =>
    cases a with
    | name s =>
      simp only [tsubst] at h
      cases hs : σ s <;> simp only [hs, List.cons.injEq] at h <;>
        rcases ht with rfl | rfl | rfl | rfl | rfl | rfl <;> simp at h
    | _ =>
      simp only [tsubst, List.cons.injEq] at h
      obtain ⟨rfl, rfl⟩ := h
      exact ⟨ts', rfl, rfl⟩

theorem pyFactor_minus (k : Nat) (ts : List (ETok V)) :
    pyFactor (k + 1) (.minus :: ts) = (pyFactor k ts).bind fun p => some (.neg p.1, p.2) := by
  rw [pyFactor]

/-- result of a parse step, carried through the splicing -/
def sres (σ : Env V) (r : PE V × List (ETok V)) : PE V × List (ETok V) :=
  (r.1.bindEnv σ, tsubst σ r.2)

set_option maxHeartbeats 800000 in
theorem py_shift (σ : Env V) : ∀ f,
    (∀ (ts : List (ETok V)) r, pySum f ts = some r →
      pySum (f + 6) (tsubst σ ts) = some (sres σ r)) ∧
    (∀ acc (ts : List (ETok V)) r, pySumLoop f acc ts = some r →
      pySumLoop (f + 6) (acc.bindEnv σ) (tsubst σ ts) = some (sres σ r)) ∧
    (∀ (ts : List (ETok V)) r, pyTerm f ts = some r →
      pyTerm (f + 6) (tsubst σ ts) = some (sres σ r)) ∧
    (∀ acc (ts : List (ETok V)) r, pyTermLoop f acc ts = some r →
      pyTermLoop (f + 6) (acc.bindEnv σ) (tsubst σ ts) = some (sres σ r)) ∧
    (∀ (ts : List (ETok V)) r, pyFactor f ts = some r →
      pyFactor (f + 6) (tsubst σ ts) = some (sres σ r)) ∧
    (∀ (ts : List (ETok V)) r, pyPower f ts = some r →
      pyPower (f + 6) (tsubst σ ts) = some (sres σ r)) ∧
    (∀ (ts : List (ETok V)) r, pyAtom f ts = some r →
      pyAtom (f + 6) (tsubst σ ts) = some (sres σ r)) := by
  intro f
  induction f with
  | zero => simp [pySum, pySumLoop, pyTerm, pyTermLoop, pyFactor, pyPower, pyAtom]
  | succ f ih =>
    obtain ⟨ihS, ihSL, ihT, ihTL, ihF, ihP, ihA⟩ := ih
    have hf : f + 1 + 6 = (f + 6) + 1 := by omega
    refine ⟨?_, ?_, ?_, ?_, ?_, ?_, ?_⟩
    · intro ts r h
      simp only [pySum, Option.bind_eq_some_iff] at h
      obtain ⟨p, hp, hl⟩ := h
      rw [hf]
      simp only [pySum, ihT ts p hp, Option.bind_some]
      exact ihSL p.1 p.2 r hl
    · intro acc ts r h
      rw [hf]
      unfold pySumLoop at h
      split at h
      · rename_i ts'
        simp only [Option.bind_eq_some_iff] at h
        obtain ⟨p, hp, hl⟩ := h
        simp only [tsubst]
        unfold pySumLoop
        simp only [ihT ts' p hp, Option.bind_some]
        simpa [sres, PE.bindEnv] using ihSL (.bin .add acc p.1) p.2 r hl
      · rename_i ts'
        simp only [Option.bind_eq_some_iff] at h
        obtain ⟨p, hp, hl⟩ := h
        simp only [tsubst]
        unfold pySumLoop
        simp only [ihT ts' p hp, Option.bind_some]
        simpa [sres, PE.bindEnv] using ihSL (.bin .sub acc p.1) p.2 r hl
      · rename_i h1 h2
        simp only [Option.some.injEq] at h
        subst h
        unfold pySumLoop
        split
        · rename_i x hx
          obtain ⟨ts', rfl, _⟩ := tsubst_head σ ts .plus (by simp) x hx
          exact absurd rfl (h1 ts')
        · rename_i x hx
          obtain ⟨ts', rfl, _⟩ := tsubst_head σ ts .minus (by simp) x hx
          exact absurd rfl (h2 ts')
        · rfl
    · intro ts r h
      simp only [pyTerm, Option.bind_eq_some_iff] at h
      obtain ⟨p, hp, hl⟩ := h
      rw [hf]
      simp only [pyTerm, ihF ts p hp, Option.bind_some]
      exact ihTL p.1 p.2 r hl
    · intro acc ts r h
      rw [hf]
      unfold pyTermLoop at h
      split at h
      · rename_i ts'
        simp only [Option.bind_eq_some_iff] at h
        obtain ⟨p, hp, hl⟩ := h
        simp only [tsubst]
        unfold pyTermLoop
        simp only [ihF ts' p hp, Option.bind_some]
        simpa [sres, PE.bindEnv] using ihTL (.bin .mul acc p.1) p.2 r hl
      · rename_i ts'
        simp only [Option.bind_eq_some_iff] at h
        obtain ⟨p, hp, hl⟩ := h
        simp only [tsubst]
        unfold pyTermLoop
        simp only [ihF ts' p hp, Option.bind_some]
        simpa [sres, PE.bindEnv] using ihTL (.bin .div acc p.1) p.2 r hl
      · rename_i h1 h2
        simp only [Option.some.injEq] at h
        subst h
        unfold pyTermLoop
        split
        · rename_i x hx
          obtain ⟨ts', rfl, _⟩ := tsubst_head σ ts .star (by simp) x hx
          exact absurd rfl (h1 ts')
        · rename_i x hx
          obtain ⟨ts', rfl, _⟩ := tsubst_head σ ts .slash (by simp) x hx
          exact absurd rfl (h2 ts')
        · rfl
    · intro ts r h
      rw [hf]
      cases ts with
      | nil =>
        have := ihP [] r (by simpa [pyFactor] using h)
        simpa [pyFactor, tsubst] using this
      | cons t ts' =>
        cases t with
        | minus =>
          simp only [pyFactor, Option.bind_eq_some_iff, Option.some.injEq] at h
          obtain ⟨p, hp, rfl⟩ := h
          simp only [tsubst]
          rw [pyFactor_minus, ihF ts' p hp]
          simp [sres, PE.bindEnv]
        | name s =>
          have := ihP (.name s :: ts') r (by simpa [pyFactor] using h)
          simp only [tsubst] at this ⊢
          cases hs : σ s <;> simp only [hs] at this ⊢ <;> simpa [pyFactor] using this
        | _ =>
          have := ihP (_ :: ts') r (by simpa [pyFactor] using h)
          simpa [pyFactor, tsubst] using this
    · intro ts r h
      simp only [pyPower, Option.bind_eq_some_iff] at h
      obtain ⟨p, hp, hm⟩ := h
      rw [hf]
      simp only [pyPower, ihA ts p hp, Option.bind_some, sres]
      obtain ⟨a, rest⟩ := p
      cases rest with
      | nil =>
        simp only [Option.some.injEq] at hm; subst hm
        simp [tsubst, sres]
      | cons t rest' =>
        cases t with
        | pow =>
          simp only [Option.bind_eq_some_iff, Option.some.injEq] at hm
          obtain ⟨q, hq, rfl⟩ := hm
          simp only [tsubst, ihF rest' q hq, Option.bind_some]
          simp [sres, PE.bindEnv]
        | name s =>
          simp only [Option.some.injEq] at hm; subst hm
          cases hs : σ s <;> simp [tsubst, sres, hs]
        | _ =>
          simp only [Option.some.injEq] at hm; subst hm
          simp [tsubst, sres]
    · intro ts r h
      rw [hf]
      cases ts with
      | nil => simp [pyAtom] at h
      | cons t ts' =>
        cases t with
        | lit s =>
          simp only [pyAtom, Option.some.injEq] at h; subst h
          simp [pyAtom, tsubst, sres, PE.bindEnv]
        | val v =>
          simp only [pyAtom, Option.some.injEq] at h; subst h
          simp [pyAtom, tsubst, sres, PE.bindEnv]
        | name s =>
          simp only [pyAtom, Option.some.injEq] at h; subst h
          cases hs : σ s with
          | none => simp [pyAtom, tsubst, sres, PE.bindEnv, hs]
          | some v =>
            have hv := pySum_val (f + 1) v (tsubst σ ts')
            simp only [tsubst, hs, pyAtom, show f + 6 = f + 1 + 5 by omega, hv, Option.bind_some]
            simp [sres, PE.bindEnv, hs]
        | lp =>
          simp only [pyAtom, Option.bind_eq_some_iff] at h
          obtain ⟨p, hp, hm⟩ := h
          simp only [tsubst, pyAtom, ihS ts' p hp, Option.bind_some, sres]
          obtain ⟨a, rest⟩ := p
          cases rest with
          | nil => simp at hm
          | cons t2 rest' =>
            cases t2 with
            | rp =>
              simp only [Option.some.injEq] at hm; subst hm
              simp [tsubst]
            | _ => simp at hm
        | fn g =>
          cases ts' with
          | nil => simp [pyAtom] at h
          | cons t2 ts'' =>
            cases t2 with
            | lp =>
              simp only [pyAtom, Option.bind_eq_some_iff] at h
              obtain ⟨p, hp, hm⟩ := h
              simp only [tsubst, pyAtom, ihS ts'' p hp, Option.bind_some, sres]
              obtain ⟨a, rest⟩ := p
              cases rest with
              | nil => simp at hm
              | cons t3 rest' =>
                cases t3 with
                | rp =>
                  simp only [Option.some.injEq] at hm; subst hm
                  simp [tsubst, PE.bindEnv]
                | _ => simp at hm
            | _ => simp [pyAtom] at h
        | _ => simp [pyAtom] at h

/-- **parsing the spliced text = binding the formals in the parse of the original text** -/
theorem pyParse_tsubst (σ : Env V) (ts : List (ETok V)) (e : PE V)
    (h : pyParse ts = some e) : pyParse (tsubst σ ts) = some (e.bindEnv σ) := by
  unfold pyParse at h
  split at h
  · rename_i e' hq
    simp only [Option.some.injEq] at h
    subst h
    have hs := (py_shift σ (exprFuel ts)).1 ts (e', []) hq
    simp only [sres, tsubst] at hs
    have hlen := tsubst_length_ge σ ts
    by_cases hlt : ts.length < (tsubst σ ts).length
    · -- the spliced text is longer: its own fuel is larger than what the shift needs
      have hk : exprFuel (tsubst σ ts) = exprFuel ts + 6 + (exprFuel (tsubst σ ts) - (exprFuel ts + 6)) := by
        simp only [exprFuel]; omega
      unfold pyParse
      rw [hk, pySum_mono _ _ _ _ hs]
    · -- nothing was spliced: same text; the parse does not depend on the fuel
      have heq : tsubst σ ts = ts := tsubst_eq_of_length σ ts (by omega)
      rw [heq] at hs ⊢
      have hm := pySum_mono (exprFuel ts) 6 ts _ hq
      rw [hm] at hs
      simp only [Option.some.injEq, Prod.mk.injEq, and_true] at hs
      unfold pyParse
      rw [hq, ← hs]
  · simp at h

/-! ### the reader's substitution -/

/-- a tree as the parser produces it (no `PARAM_IDX`, no spliced value) -/
def QE.source : QE V → Bool
  | .num _ => true
  | .id _ => true
  | .pidx _ => false
  | .val _ => false
  | .paren e => e.source
  | .usub e => e.source
  | .pow a b => a.source && b.source
  | .call _ e => e.source
  | .bin _ l r => l.source && r.source

theorem flatten_subst (ps : List String) (vs : List V) (q q' : QE V) (hsrc : q.source = true)
    (hs : substVals vs (bindIds ps q) = some q') :
    flatten q' = tsubst (formalEnv ps vs) (flatten q) := by
  induction q generalizing q' with
  | num s =>
    simp only [bindIds, substVals, Option.some.injEq] at hs
    subst hs; simp [flatten, tsubst]
  | id s =>
    by_cases hc : ps.contains s = true
    · simp only [bindIds, hc, if_true, substVals, Option.map_eq_some_iff] at hs
      obtain ⟨v, hv, rfl⟩ := hs
      have hc' : s ∈ ps := by simpa using hc
      simp [flatten, tsubst, formalEnv, hv, hc']
    · have hc2 : ps.contains s = false := by simpa using hc
      simp only [bindIds, hc2, Bool.false_eq_true, if_false, substVals, Option.some.injEq] at hs
      subst hs
      have hc' : ¬ s ∈ ps := by simpa using hc2
      simp [flatten, tsubst, formalEnv, hc']
  | pidx i => simp [QE.source] at hsrc
  | val v => simp [QE.source] at hsrc
  | paren e ih =>
    simp only [QE.source] at hsrc
    simp only [bindIds, substVals, Option.map_eq_some_iff] at hs
    obtain ⟨e', he', rfl⟩ := hs
    simp [flatten, ih e' hsrc he', tsubst, tsubst_append]
  | usub e ih =>
    simp only [QE.source] at hsrc
    simp only [bindIds, substVals, Option.map_eq_some_iff] at hs
    obtain ⟨e', he', rfl⟩ := hs
    simp [flatten, ih e' hsrc he', tsubst]
  | pow a b iha ihb =>
    simp only [QE.source, Bool.and_eq_true] at hsrc
    simp only [bindIds, substVals] at hs
    split at hs
    · rename_i x y hx hy
      simp only [Option.some.injEq] at hs
      subst hs
      simp [flatten, iha x hsrc.1 hx, ihb y hsrc.2 hy, tsubst, tsubst_append]
    · simp at hs
  | call f e ih =>
    simp only [QE.source] at hsrc
    simp only [bindIds, substVals, Option.map_eq_some_iff] at hs
    obtain ⟨e', he', rfl⟩ := hs
    simp [flatten, ih e' hsrc he', tsubst, tsubst_append]
  | bin op l r ihl ihr =>
    simp only [QE.source, Bool.and_eq_true] at hsrc
    simp only [bindIds, substVals] at hs
    split at hs
    · rename_i x y hx hy
      simp only [Option.some.injEq] at hs
      subst hs
      cases op <;>
        simp [flatten, ihl x hsrc.1 hx, ihr y hsrc.2 hy, tsubst, tsubst_append, BOp.tok]
    · simp at hs

/-- **the reader's textual substitution = binding the formals in the parse tree of the body
expression**, for every value (signed or not) -/
theorem evalQ_subst (A : Arith V) (ps : List String) (vs : List V) (q q' : QE V)
    (hsrc : q.source = true) (hs : substVals vs (bindIds ps q) = some q') (e : PE V)
    (he : pyParse (flatten q) = some e) :
    evalQ A q' = e.evalEnvSpec A (formalEnv ps vs) := by
  unfold evalQ
  rw [flatten_subst ps vs q q' hsrc hs, pyParse_tsubst _ _ e he]
  simp [eval_bindEnv]

end BqVerif.Qasm
