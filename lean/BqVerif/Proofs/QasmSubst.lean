import BqVerif.Model.QasmSpec
/-! # Formal parameters: textual substitution of non-negative values = binding

`replace_param_ids` + `replace_param_indices` + `eval_exp_recurse` splice the actual values
into the Python text.  For values that print without a sign this is the same as parsing the
body expression once and binding the formals in the tree (`PE.evalEnv`). -/
namespace BqVerif.Qasm

variable {V : Type}

def tokBind (σ : Env V) : ETok V → ETok V
  | .name s => match σ s with
    | some v => .val v
    | none => .name s
  | t => t

def PE.bindEnv (σ : Env V) : PE V → PE V
  | .lit s => .lit s
  | .val v => .val v
  | .name s => match σ s with
    | some v => .val v
    | none => .name s
  | .neg e => .neg (e.bindEnv σ)
  | .bin op l r => .bin op (l.bindEnv σ) (r.bindEnv σ)
  | .pow a b => .pow (a.bindEnv σ) (b.bindEnv σ)
  | .call f e => .call f (e.bindEnv σ)

/-- evaluation of a tree whose free names are bound by `σ` -/
def PE.evalEnv (A : Arith V) (σ : Env V) : PE V → Option V
  | .lit s => (parsePyLit s).map fun (m, e) => A.ofLit m e
  | .val v => some v
  | .name s => match σ s with
    | some v => some v
    | none => if s = "pi" then some A.pi else none
  | .neg e => (e.evalEnv A σ).map A.neg
  | .bin op l r =>
    match l.evalEnv A σ, r.evalEnv A σ with
    | some a, some b =>
      some (match op with
        | .add => A.add a b | .sub => A.sub a b | .mul => A.mul a b | .div => A.div a b)
    | _, _ => none
  | .pow a b =>
    match a.evalEnv A σ, b.evalEnv A σ with
    | some x, some y => some (A.pow x y)
    | _, _ => none
  | .call f e =>
    match f with
    | .exp | .sqrt => none
    | _ => (e.evalEnv A σ).map (A.fn f)

/-- **substitution lemma**: evaluating the tree with the values put in = evaluating the tree
under the binding -/
theorem eval_bindEnv (A : Arith V) (σ : Env V) (e : PE V) :
    (e.bindEnv σ).eval A = e.evalEnv A σ := by
  induction e with
  | lit s => rfl
  | val v => rfl
  | name s =>
    simp only [PE.bindEnv, PE.evalEnv]
    cases σ s <;> simp [PE.eval]
  | neg e ih => simp [PE.bindEnv, PE.evalEnv, PE.eval, ih]
  | bin op l r ihl ihr =>
    simp only [PE.bindEnv, PE.evalEnv, PE.eval, ihl, ihr]
    cases PE.evalEnv A σ l <;> cases PE.evalEnv A σ r <;> rfl
  | pow a b iha ihb =>
    simp only [PE.bindEnv, PE.evalEnv, PE.eval, iha, ihb]
    cases PE.evalEnv A σ a <;> cases PE.evalEnv A σ b <;> rfl
  | call f e ih => cases f <;> simp [PE.bindEnv, PE.evalEnv, PE.eval, ih]

theorem tokBind_eq_minus (σ : Env V) (t : ETok V) (h : tokBind σ t = .minus) : t = .minus := by
  cases t <;> simp_all [tokBind]
  rename_i s
  cases hσ : σ s <;> simp_all

theorem pyFactor_succ_of_ne_minus (f : Nat) (t : ETok V) (ts : List (ETok V)) (h : t ≠ .minus) :
    pyFactor (f + 1) (t :: ts) = pyPower f (t :: ts) := by
  unfold pyFactor
  split
  · rename_i heq
    simp only [List.cons.injEq] at heq
    exact absurd heq.1 h
  · rfl

/-- the Python-level parser commutes with replacing names by values, token for token -/
theorem py_map (σ : Env V) : ∀ f,
    (∀ ts, pySum f (ts.map (tokBind σ)) =
      (pySum f ts).map fun p => (p.1.bindEnv σ, p.2.map (tokBind σ))) ∧
    (∀ acc ts, pySumLoop f (acc.bindEnv σ) (ts.map (tokBind σ)) =
      (pySumLoop f acc ts).map fun p => (p.1.bindEnv σ, p.2.map (tokBind σ))) ∧
    (∀ ts, pyTerm f (ts.map (tokBind σ)) =
      (pyTerm f ts).map fun p => (p.1.bindEnv σ, p.2.map (tokBind σ))) ∧
    (∀ acc ts, pyTermLoop f (acc.bindEnv σ) (ts.map (tokBind σ)) =
      (pyTermLoop f acc ts).map fun p => (p.1.bindEnv σ, p.2.map (tokBind σ))) ∧
    (∀ ts, pyFactor f (ts.map (tokBind σ)) =
      (pyFactor f ts).map fun p => (p.1.bindEnv σ, p.2.map (tokBind σ))) ∧
    (∀ ts, pyPower f (ts.map (tokBind σ)) =
      (pyPower f ts).map fun p => (p.1.bindEnv σ, p.2.map (tokBind σ))) ∧
    (∀ ts, pyAtom f (ts.map (tokBind σ)) =
      (pyAtom f ts).map fun p => (p.1.bindEnv σ, p.2.map (tokBind σ))) := by
  intro f
  induction f with
  | zero => simp [pySum, pySumLoop, pyTerm, pyTermLoop, pyFactor, pyPower, pyAtom]
  | succ f ih =>
    obtain ⟨ihS, ihSL, ihT, ihTL, ihF, ihP, ihA⟩ := ih
    refine ⟨?_, ?_, ?_, ?_, ?_, ?_, ?_⟩
    · intro ts
      simp only [pySum, ihT]
      cases pyTerm f ts with
      | none => rfl
      | some p => simp [ihSL]
    · intro acc ts
      cases ts with
      | nil => simp [pySumLoop]
      | cons t ts' =>
        cases t <;> try (simp [pySumLoop, tokBind]; done)
        · -- name
          rename_i s
          cases hσ : σ s <;> simp [pySumLoop, tokBind, hσ]
        · -- plus
          simp only [List.map_cons, tokBind, pySumLoop, ihT]
          cases pyTerm f ts' with
          | none => rfl
          | some p => simpa [PE.bindEnv] using ihSL (.bin .add acc p.1) p.2
        · -- minus
          simp only [List.map_cons, tokBind, pySumLoop, ihT]
          cases pyTerm f ts' with
          | none => rfl
          | some p => simpa [PE.bindEnv] using ihSL (.bin .sub acc p.1) p.2
    · intro ts
      simp only [pyTerm, ihF]
      cases pyFactor f ts with
      | none => rfl
      | some p => simp [ihTL]
    · intro acc ts
      cases ts with
      | nil => simp [pyTermLoop]
      | cons t ts' =>
        cases t <;> try (simp [pyTermLoop, tokBind]; done)
        · rename_i s
          cases hσ : σ s <;> simp [pyTermLoop, tokBind, hσ]
        · simp only [List.map_cons, tokBind, pyTermLoop, ihF]
          cases pyFactor f ts' with
          | none => rfl
          | some p => simpa [PE.bindEnv] using ihTL (.bin .mul acc p.1) p.2
        · simp only [List.map_cons, tokBind, pyTermLoop, ihF]
          cases pyFactor f ts' with
          | none => rfl
          | some p => simpa [PE.bindEnv] using ihTL (.bin .div acc p.1) p.2
    · intro ts
      cases ts with
      | nil => simpa [pyFactor] using ihP []
      | cons t ts' =>
        by_cases ht : t = .minus
        · subst ht
          simp only [List.map_cons, tokBind, pyFactor, ihF]
          cases pyFactor f ts' with
          | none => rfl
          | some p => simp [PE.bindEnv]
        · have ht' : tokBind σ t ≠ .minus := fun h => ht (tokBind_eq_minus σ t h)
          rw [List.map_cons, pyFactor_succ_of_ne_minus f _ _ ht,
            pyFactor_succ_of_ne_minus f _ _ ht']
          exact ihP (t :: ts')
    · intro ts
      simp only [pyPower, ihA]
      cases pyAtom f ts with
      | none => rfl
      | some p =>
        obtain ⟨a, r⟩ := p
        cases r with
        | nil => simp
        | cons t r' =>
          cases t <;> try (simp [tokBind]; done)
          · rename_i s
            simp only [Option.map_some, Option.bind_some, List.map_cons, tokBind]
            cases σ s <;> simp
          · -- pow
            simp only [Option.map_some, Option.bind_some, List.map_cons, tokBind, ihF]
            cases pyFactor f r' with
            | none => rfl
            | some q => simp [PE.bindEnv]
    · intro ts
      cases ts with
      | nil => simp [pyAtom]
      | cons t ts' =>
        cases t with
        | lit s => simp [pyAtom, tokBind, PE.bindEnv]
        | val v => simp [pyAtom, tokBind, PE.bindEnv]
        | name s =>
          simp only [List.map_cons, tokBind]
          cases hσ : σ s <;> simp [pyAtom, PE.bindEnv, hσ]
        | fn g =>
          cases ts' with
          | nil => simp [pyAtom, tokBind]
          | cons t2 ts'' =>
            cases t2 <;> try (simp [pyAtom, tokBind]; done)
            · rename_i s
              simp only [List.map_cons, tokBind]
              cases σ s <;> simp [pyAtom]
            · -- fn ( ...
              simp only [List.map_cons, tokBind, pyAtom, ihS]
              cases pySum f ts'' with
              | none => rfl
              | some p =>
                obtain ⟨a, r⟩ := p
                cases r with
                | nil => simp
                | cons t r' =>
                  cases t <;> try (simp [tokBind, PE.bindEnv]; done)
                  · rename_i s
                    simp only [Option.map_some, Option.bind_some, List.map_cons, tokBind]
                    cases σ s <;> simp
        | lp =>
          simp only [List.map_cons, tokBind, pyAtom, ihS]
          cases pySum f ts' with
          | none => rfl
          | some p =>
            obtain ⟨a, r⟩ := p
            cases r with
            | nil => simp
            | cons t r' =>
              cases t <;> try (simp [tokBind]; done)
              · rename_i s
                simp only [Option.map_some, Option.bind_some, List.map_cons, tokBind]
                cases σ s <;> simp
        | rp => simp [pyAtom, tokBind]
        | plus => simp [pyAtom, tokBind]
        | minus => simp [pyAtom, tokBind]
        | star => simp [pyAtom, tokBind]
        | slash => simp [pyAtom, tokBind]
        | pow => simp [pyAtom, tokBind]

theorem pyParse_map (σ : Env V) (ts : List (ETok V)) :
    pyParse (ts.map (tokBind σ)) = (pyParse ts).map (PE.bindEnv σ) := by
  unfold pyParse
  have h := (py_map σ (exprFuel ts)).1 ts
  have hf : exprFuel (ts.map (tokBind σ)) = exprFuel ts := by simp [exprFuel]
  rw [hf, h]
  cases pySum (exprFuel ts) ts with
  | none => rfl
  | some p =>
    obtain ⟨a, r⟩ := p
    cases r <;> simp

/-! ### the reader's substitution -/

/-- a tree as the parser produces it (no `PARAM_IDX`, no spliced value) -/
def QE.source : QE V → Bool
  | .num _ => true
  | .id _ => true
  | .pidx _ => false
  | .val _ => false
  | .paren e => e.source
  | .usub e => e.source
  | .pow a b => a.source && b.source
  | .call _ e => e.source
  | .bin _ l r => l.source && r.source

theorem flatten_subst (A : Arith V) (ps : List String) (vs : List V)
    (hnn : ∀ v ∈ vs, A.isNeg v = false) (q q' : QE V) (hsrc : q.source = true)
    (hs : substVals vs (bindIds ps q) = some q') :
    flatten A q' = (flatten A q).map (tokBind (formalEnv ps vs)) := by
  induction q generalizing q' with
  | num s =>
    simp only [bindIds, substVals, Option.some.injEq] at hs
    subst hs; simp [flatten, tokBind]
  | id s =>
    by_cases hc : ps.contains s = true
    · simp only [bindIds, hc, if_true, substVals, Option.map_eq_some_iff] at hs
      obtain ⟨v, hv, rfl⟩ := hs
      have hmem : v ∈ vs := List.mem_of_getElem? hv
      have hc' : s ∈ ps := by simpa using hc
      simp [flatten, valToks, hnn v hmem, tokBind, formalEnv, hv, hc']
    · have hc2 : ps.contains s = false := by simpa using hc
      simp only [bindIds, hc2, Bool.false_eq_true, if_false, substVals, Option.some.injEq] at hs
      subst hs
      have hc' : ¬ s ∈ ps := by simpa using hc2
      simp [flatten, tokBind, formalEnv, hc']
  | pidx i => simp [QE.source] at hsrc
  | val v => simp [QE.source] at hsrc
  | paren e ih =>
    simp only [QE.source] at hsrc
    simp only [bindIds, substVals, Option.map_eq_some_iff] at hs
    obtain ⟨e', he', rfl⟩ := hs
    simp [flatten, ih e' hsrc he']
  | usub e ih =>
    simp only [QE.source] at hsrc
    simp only [bindIds, substVals, Option.map_eq_some_iff] at hs
    obtain ⟨e', he', rfl⟩ := hs
    simp [flatten, ih e' hsrc he', tokBind]
  | pow a b iha ihb =>
    simp only [QE.source, Bool.and_eq_true] at hsrc
    simp only [bindIds, substVals] at hs
    split at hs
    · rename_i x y hx hy
      simp only [Option.some.injEq] at hs
      subst hs
      simp [flatten, iha x hsrc.1 hx, ihb y hsrc.2 hy, tokBind]
    · simp at hs
  | call f e ih =>
    simp only [QE.source] at hsrc
    simp only [bindIds, substVals, Option.map_eq_some_iff] at hs
    obtain ⟨e', he', rfl⟩ := hs
    simp [flatten, ih e' hsrc he', tokBind]
  | bin op l r ihl ihr =>
    simp only [QE.source, Bool.and_eq_true] at hsrc
    simp only [bindIds, substVals] at hs
    split at hs
    · rename_i x y hx hy
      simp only [Option.some.injEq] at hs
      subst hs
      cases op <;> simp [flatten, ihl x hsrc.1 hx, ihr y hsrc.2 hy, tokBind, BOp.tok]
    · simp at hs

/-- **textual substitution of values that print without a sign = binding the formals in the
parse tree of the body expression** -/
theorem evalQ_subst (A : Arith V) (ps : List String) (vs : List V)
    (hnn : ∀ v ∈ vs, A.isNeg v = false) (q q' : QE V) (hsrc : q.source = true)
    (hs : substVals vs (bindIds ps q) = some q') :
    evalQ A q' = (pyParse (flatten A q)).bind (PE.evalEnv A (formalEnv ps vs)) := by
  unfold evalQ
  rw [flatten_subst A ps vs hnn q q' hsrc hs, pyParse_map]
  cases pyParse (flatten A q) with
  | none => rfl
  | some e => simp [eval_bindEnv]

end BqVerif.Qasm
