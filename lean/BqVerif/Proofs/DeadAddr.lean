import BqVerif.Proofs.StartOnceNet
/-!
# An address whose token is gone never comes back

`PsiA a = Tok a + freshA a` (tokens of `a` anywhere + "`a` not created yet") never increases along
a transition of the flat network.  Hence once `PsiA a = 0` - the address was created and its token
has been consumed or discarded - no task or result with address `a` ever appears again.
-/
namespace BqVerif.Runtime

def PsiA (a : Addr) (n : Net) : Nat := Tok a n + freshA a n

theorem freshA_mono {n n' : Net} (a : Addr)
    (hctrW : ∀ w' ∈ n'.workers, ∃ w ∈ n.workers, w.id = w'.id ∧ w.counter ≤ w'.counter)
    (hctrS : n.server.counter ≤ n'.server.counter) : freshA a n' ≤ freshA a n := by
  simp only [freshA]
  split
  · rename_i h'
    have hgoal : (a.w = -1 ∧ n.server.counter ≤ a.m)
        ∨ (n.workers.any (fun w => w.id == a.w && decide (w.counter ≤ a.m))) = true := by
      rcases h' with ⟨h1, h2⟩ | h2
      · exact Or.inl ⟨h1, by omega⟩
      · right
        simp only [List.any_eq_true, Bool.and_eq_true, beq_iff_eq, decide_eq_true_eq] at h2 ⊢
        obtain ⟨w', hw', e, hc⟩ := h2
        obtain ⟨w, hw, e2, hc2⟩ := hctrW w' hw'
        exact ⟨w, hw, by rw [e2]; exact e, by omega⟩
    rw [if_pos hgoal]
    exact Nat.le_refl _
  · exact Nat.zero_le _

theorem freshA_zero {n' : Net} (a : Addr) (f2 : a.w = -1 → a.m < n'.server.counter)
    (f3 : ∀ w' ∈ n'.workers, a.w = w'.id → a.m < w'.counter) : freshA a n' = 0 := by
  simp only [freshA]
  rw [if_neg]
  intro h'
  rcases h' with ⟨h1, h2⟩ | h2
  · have := f2 h1; omega
  · simp only [List.any_eq_true, Bool.and_eq_true, beq_iff_eq, decide_eq_true_eq] at h2
    obtain ⟨w', hw', e, hc⟩ := h2
    have := f3 w' hw' e.symm
    omega

theorem PsiA_step {n n' : Net} (a : Addr)
    (hctrW : ∀ w' ∈ n'.workers, ∃ w ∈ n.workers, w.id = w'.id ∧ w.counter ≤ w'.counter)
    (hctrS : n.server.counter ≤ n'.server.counter)
    (δ : Nat) (htok : Tok a n' ≤ Tok a n + δ) (hδ1 : δ ≤ 1)
    (hδ : 0 < δ → freshA a n = 1 ∧ (a.w = -1 → a.m < n'.server.counter)
      ∧ (∀ w' ∈ n'.workers, a.w = w'.id → a.m < w'.counter)) :
    PsiA a n' ≤ PsiA a n := by
  have hmono := freshA_mono a hctrW hctrS
  by_cases hd : 0 < δ
  · obtain ⟨f1, f2, f3⟩ := hδ hd
    have f0 := freshA_zero a f2 f3
    simp only [PsiA]; omega
  · simp only [PsiA]; omega

theorem PsiA_of_le {n n' : Net} (a : Addr)
    (hctrW : ∀ w' ∈ n'.workers, ∃ w ∈ n.workers, w.id = w'.id ∧ w.counter ≤ w'.counter)
    (hctrS : n.server.counter ≤ n'.server.counter) (htok : Tok a n' ≤ Tok a n) :
    PsiA a n' ≤ PsiA a n :=
  PsiA_step a hctrW hctrS 0 (by omega) (by omega) (fun h => absurd h (Nat.lt_irrefl 0))

theorem PsiA_workerStep {n : Net} (h : GInv n) (id : Int) (a : Addr) :
    PsiA a (n.workerStep id).net ≤ PsiA a n := by
  unfold Net.workerStep
  split
  · exact Nat.le_refl _
  · rename_i w hf
    obtain ⟨hw, hwid⟩ := find_worker_mem _ _ _ hf
    split
    · exact Nat.le_refl _
    · dsimp only
      have hmono := step_mono n.tbl w
      have hid' : (if (w.step n.tbl).w.mainDead then { (w.step n.tbl).w with alive := false }
          else (w.step n.tbl).w).id = w.id := by split <;> simp [hmono.id]
      refine PsiA_step a ?_ ?_ (ind a w (w.step n.tbl).w) ?_ ?_ ?_
      · intro w'' hw''
        rw [(postAll_fields _ _ _).1] at hw''
        rcases mem_setWorker _ _ _ hw'' with rfl | ⟨hm, _⟩
        · refine ⟨w, hw, hid'.symm, ?_⟩
          split <;> exact hmono.ctr
        · exact ⟨w'', hm, rfl, Nat.le_refl _⟩
      · rw [(postAll_fields _ _ _).2.1]; exact Nat.le_refl _
      · have hst := step_tok a n.tbl w
        have e : tokW a (if (w.step n.tbl).w.mainDead then { (w.step n.tbl).w with alive := false }
            else (w.step n.tbl).w) = tokW a (w.step n.tbl).w := by split <;> rfl
        have key : ∀ X : Nat,
            X + tokW a w ≤ Tok a n + tokW a (if (w.step n.tbl).w.mainDead
                then { (w.step n.tbl).w with alive := false } else (w.step n.tbl).w)
              + tokMsgs a (w.step n.tbl).out →
            X ≤ Tok a n + ind a w (w.step n.tbl).w := by
          intro X hX
          rw [e] at hX
          simp only [phi] at hst
          omega
        refine key _ ?_
        exact Tok_workerStep_le a n w _ _ _ _ h.ids hw hid'
      · simp only [ind]; split <;> omega
      · intro ha
        simp only [ind] at ha
        split at ha
        · rename_i hc
          obtain ⟨h1, h2, h3⟩ := hc
          refine ⟨?_, ?_, ?_⟩
          · simp only [freshA]
            rw [if_pos]
            right
            simp only [List.any_eq_true, Bool.and_eq_true, beq_iff_eq, decide_eq_true_eq]
            exact ⟨w, hw, h1.symm, h2⟩
          · intro hneg
            have := h.pos w hw
            omega
          · intro w'' hw'' haw
            rw [(postAll_fields _ _ _).1] at hw''
            rcases mem_setWorker _ _ _ hw'' with rfl | ⟨_, hne⟩
            · split <;> exact h3
            · exfalso
              apply hne
              rw [← haw, h1, hid']
        · omega

theorem PsiA_clientSend {n : Net} (j : Nat) (m : Option Msg) (dies : Bool) (a : Addr)
    (hwf : ∀ msg, m = some msg → ∀ a, tokMsg a msg = 0) :
    PsiA a (n.clientSend j m dies).net ≤ PsiA a n := by
  cases m with
  | none =>
    simp only [Net.clientSend]
    split
    · exact PsiA_of_le a (same_workers_ctr _) (Nat.le_refl _) (Nat.le_refl _)
    · exact Nat.le_refl _
  | some msg =>
    have base : PsiA a (n.post (.client j) .server msg) ≤ PsiA a n := by
      apply PsiA_of_le
      · rw [(post_fields _ _ _ _).1]; exact same_workers_ctr _
      · rw [(post_fields _ _ _ _).2.1]; exact Nat.le_refl _
      · have := Tok_post_le a n (.client j) .server msg
        rw [hwf msg rfl a] at this
        omega
    simp only [Net.clientSend]
    split
    · exact Nat.le_trans (PsiA_of_le a (same_workers_ctr _) (Nat.le_refl _) (Nat.le_refl _)) base
    · exact base

theorem PsiA_deliver {n : Net} (h : GInv n) (src dst : NodeId) (asg ord : List Nat) (died : Bool)
    (a : Addr) : PsiA a (n.deliver src dst asg ord died).net ≤ PsiA a n := by
  cases hk : chanGet n.chans (src, dst) with
  | nil => simp only [Net.deliver, hk]; exact Nat.le_refl _
  | cons m rest =>
    have hpop := Tok_pop a n (src, dst) m rest hk
    have h0 : PsiA a ({ n with chans := chanSet n.chans (src, dst) rest } : Net) ≤ PsiA a n :=
      PsiA_of_le a (same_workers_ctr _) (Nat.le_refl _) (by omega)
    have g0 := h.pop (src, dst) m rest hk
    cases dst with
    | wrk id =>
      simp only [Net.deliver, hk]
      split
      · exact h0
      · rename_i w hf
        obtain ⟨hw, hwid⟩ := find_worker_mem _ _ _ hf
        split
        · exact h0
        · have hmono := recv_mono w m
          apply PsiA_of_le
          · intro w'' hw''
            rcases mem_setWorker _ _ _ hw'' with rfl | ⟨hm, _⟩
            · exact ⟨w, hw, hmono.id.symm, hmono.ctr⟩
            · exact ⟨w'', hm, rfl, Nat.le_refl _⟩
          · exact Nat.le_refl _
          · have h1 := Tok_setWorker a { n with chans := chanSet n.chans (src, .wrk id) rest } w (w.recv m)
              g0.ids hw hmono.id
            have h2 := tokW_recv_le a w m
            have e : ({ ({ n with chans := chanSet n.chans (src, .wrk id) rest } : Net) with
                workers := setWorker ({ n with chans := chanSet n.chans (src, .wrk id) rest } : Net).workers
                  (w.recv m) } : Net)
                = { n with chans := chanSet n.chans (src, .wrk id) rest,
                           workers := setWorker n.workers (w.recv m) } := rfl
            rw [e] at h1
            dsimp only
            omega
    | client j =>
      simp only [Net.deliver, hk]
      split
      · exact h0
      · split
        · refine Nat.le_trans ?_ h0
          apply PsiA_of_le
          · rw [(post_fields _ _ _ _).1]; exact same_workers_ctr _
          · rw [(post_fields _ _ _ _).2.1]; exact Nat.le_refl _
          · have := Tok_post_le a ({ ({ n with chans := chanSet n.chans (src, .client j) rest } : Net) with
              deadClients := n.deadClients ++ [j] } : Net) (.client j) .server .eof
            simp only [tokMsg, Nat.add_zero] at this
            exact Nat.le_trans this (Nat.le_of_eq rfl)
        · exact h0
    | mgr i =>
      have : n.mgrs[i]? = none := by rw [h.flat]; rfl
      simp only [Net.deliver, hk, this]
      exact h0
    | server =>
      simp only [Net.deliver, hk]
      split
      · exact h0
      · have htok := handle_tok a n.server src m asg ord
        have hctr := handle_counter n.server src m asg ord
        refine PsiA_step a ?_ ?_
          (if isClient src then hTok a (n.server.handle src m asg ord) else 0) ?_ ?_ ?_
        · rw [(postAll_fields _ _ _).1]; exact same_workers_ctr _
        · rw [(postAll_fields _ _ _).2.1]; exact hctr.1
        · have final : Tok a (({ ({ n with chans := chanSet n.chans (src, .server) rest } : Net) with server := (n.server.handle src m asg ord).st } : Net).postAll .server ((n.server.handle src m asg ord).direct ++ flushServer (n.server.handle src m asg ord).st (n.server.handle src m asg ord).queued))
              ≤ Tok a n + (if isClient src then hTok a (n.server.handle src m asg ord) else 0) := by
            have h1 := Tok_postAll_le a ({ ({ n with chans := chanSet n.chans (src, .server) rest } : Net) with server := (n.server.handle src m asg ord).st } : Net) .server ((n.server.handle src m asg ord).direct ++ flushServer (n.server.handle src m asg ord).st (n.server.handle src m asg ord).queued)
            have e : Tok a ({ ({ n with chans := chanSet n.chans (src, .server) rest } : Net) with server := (n.server.handle src m asg ord).st } : Net) = Tok a ({ n with chans := chanSet n.chans (src, .server) rest } : Net) := rfl
            have h2 := tokOut_flush_le a (n.server.handle src m asg ord).st (n.server.handle src m asg ord).queued
            rw [tokOut_append, e] at h1
            have hh : hTok a (n.server.handle src m asg ord)
                = tokOut a (n.server.handle src m asg ord).direct
                  + tokOut a (n.server.handle src m asg ord).queued := rfl
            by_cases hc : isClient src = true
            · simp only [hc, if_true] at htok ⊢
              dsimp only at h1 ⊢
              omega
            · have hc' : isClient src = false := by simpa using hc
              simp only [hc', Bool.false_eq_true, if_false, Nat.add_zero] at htok ⊢
              dsimp only at h1 ⊢
              omega
          exact final
        · split
          · rename_i hc
            simp only [hc, if_true] at htok
            refine Nat.le_trans htok ?_
            split <;> omega
          · exact Nat.zero_le _
        · intro ha
          split at ha
          · rename_i hc
            simp only [hc, if_true] at htok
            have ha' : a = ⟨-1, n.server.counter, 0⟩ := by
              by_cases e : a = ⟨-1, n.server.counter, 0⟩
              · exact e
              · simp only [e, if_false] at htok; omega
            refine ⟨?_, ?_, ?_⟩
            · simp only [freshA]
              rw [if_pos]
              left
              rw [ha']
              exact ⟨rfl, Nat.le_refl _⟩
            · intro _
              rw [(postAll_fields _ _ _).2.1]
              have := hctr.2 a hc ha
              rw [ha']
              exact this
            · intro w' hw' haw
              rw [(postAll_fields _ _ _).1] at hw'
              have := h.pos w' hw'
              rw [ha'] at haw
              simp at haw
              omega
          · omega

theorem PsiA_apply {n : Net} (h : GInv n) (t : Tr) (hwf : t.wf) (a : Addr) :
    PsiA a (n.apply t).net ≤ PsiA a n := by
  cases t with
  | deliver s d asg ord died => exact PsiA_deliver h s d asg ord died a
  | step id => exact PsiA_workerStep h id a
  | client j m dies =>
    apply PsiA_clientSend j m dies a
    intro msg hm b
    subst hm
    exact hwf b

/-- the address is dead: created, and no token of it is left anywhere -/
def DeadA (a : Addr) (n : Net) : Prop := PsiA a n = 0

theorem DeadA.apply {n : Net} (h : GInv n) (t : Tr) (hwf : t.wf) (a : Addr) (hd : DeadA a n) :
    DeadA a (n.apply t).net := by
  have := PsiA_apply h t hwf a
  simp only [DeadA] at hd ⊢
  omega

theorem DeadA.tok {a : Addr} {n : Net} (hd : DeadA a n) : Tok a n = 0 := by
  simp only [DeadA, PsiA] at hd; omega

end BqVerif.Runtime
