import BqVerif.Model.Circ
/-! The counting Kahn loop with a sorted frontier (the heap of `CircuitDagIterator`), abstractly:
on a finite DAG whose nodes are points ordered lexicographically and whose edges go upwards, the
loop started from the nodes without predecessor outputs the nodes in increasing order.

`aLoop` is the loop of `Circ.kahnLoop` with the circuit abstracted into three functions
(`valid`: the point holds an operation, `succ`: its successors, `total`: its number of
predecessors); `Proofs/CircKahn2.lean` instantiates it. -/
namespace BqVerif.Circ

abbrev Pt := Nat × Nat

/-- the strict lexicographic order on points `(cycle, qudit)` -/
def ptLt (x y : Pt) : Prop := x.1 < y.1 ∨ (x.1 = y.1 ∧ x.2 < y.2)

theorem ptLt_irrefl (x : Pt) : ¬ ptLt x x := by unfold ptLt; omega
theorem ptLt_trans {x y z : Pt} (h1 : ptLt x y) (h2 : ptLt y z) : ptLt x z := by
  unfold ptLt at *; omega
theorem ptLt_asymm {x y : Pt} (h1 : ptLt x y) : ¬ ptLt y x := by unfold ptLt at *; omega
theorem ptLt_ne {x y : Pt} (h : ptLt x y) : x ≠ y := by
  intro e; subst e; exact ptLt_irrefl x h

theorem ptLt_of_not_le (x y : Pt)
    (h : (decide (x.1 < y.1) || (x.1 == y.1 && decide (x.2 ≤ y.2))) = false) : ptLt y x := by
  simp only [Bool.or_eq_false_iff, decide_eq_false_iff_not, Bool.and_eq_false_iff,
    beq_eq_false_iff_ne] at h
  unfold ptLt; omega

theorem ptLt_of_le_ne (x y : Pt)
    (h : (decide (x.1 < y.1) || (x.1 == y.1 && decide (x.2 ≤ y.2))) = true) (hne : x ≠ y) :
    ptLt x y := by
  simp only [Bool.or_eq_true, decide_eq_true_eq, Bool.and_eq_true, beq_iff_eq] at h
  have : x.1 ≠ y.1 ∨ x.2 ≠ y.2 := by
    by_cases h1 : x.1 = y.1
    · right; intro h2; exact hne (Prod.ext h1 h2)
    · left; exact h1
  unfold ptLt; omega

/-! ## the sorted frontier -/
theorem mem_insertPt_iff (x a : Pt) (l : List Pt) : x ∈ insertPt a l ↔ x = a ∨ x ∈ l := by
  induction l with
  | nil => simp [insertPt]
  | cons y ys ih =>
    simp only [insertPt]
    split
    · simp
    · simp only [List.mem_cons, ih]
      constructor
      · rintro (h | h | h) <;> simp [h]
      · rintro (h | h | h) <;> simp [h]

theorem insertPt_sortedLt (a : Pt) (l : List Pt) (hs : l.Pairwise ptLt) (ha : a ∉ l) :
    (insertPt a l).Pairwise ptLt := by
  induction l with
  | nil => simp [insertPt]
  | cons y ys ih =>
    have hs' := List.pairwise_cons.mp hs
    simp only [insertPt]
    split
    · rename_i hle
      have hay : ptLt a y := ptLt_of_le_ne a y hle (by intro h; apply ha; simp [h])
      rw [List.pairwise_cons]
      refine ⟨?_, hs⟩
      intro z hz
      rcases List.mem_cons.mp hz with rfl | hz
      · exact hay
      · exact ptLt_trans hay (hs'.1 z hz)
    · rename_i hle
      have hya : ptLt y a := ptLt_of_not_le a y (by simpa using hle)
      rw [List.pairwise_cons]
      refine ⟨?_, ih hs'.2 (fun h => ha (List.mem_cons_of_mem _ h))⟩
      intro z hz
      rcases (mem_insertPt_iff z a ys).1 hz with rfl | hz
      · exact hya
      · exact hs'.1 z hz

/-- sorting a duplicate-free list of points by insertion -/
theorem foldr_insertPt (l : List Pt) (hn : l.Nodup) :
    (l.foldr insertPt []).Pairwise ptLt ∧ ∀ x, x ∈ l.foldr insertPt [] ↔ x ∈ l := by
  induction l with
  | nil => simp
  | cons a t ih =>
    rw [List.nodup_cons] at hn
    obtain ⟨h1, h2⟩ := ih hn.2
    simp only [List.foldr_cons]
    refine ⟨insertPt_sortedLt a _ h1 (fun h => hn.1 ((h2 a).1 h)), ?_⟩
    intro x
    rw [mem_insertPt_iff, h2]; simp

/-! ## the counters (`prev_binned_counts`) -/
theorem kCount_nil (x : Pt) : kCount [] x = 0 := rfl
theorem kCount_cons (e : Pt × Nat) (t : List (Pt × Nat)) (x : Pt) :
    kCount (e :: t) x = if e.1 == x then e.2 else kCount t x := by
  simp only [kCount, List.find?_cons]
  split <;> rename_i h
  · split at h
    · rename_i h1; simp only [Option.some.injEq] at h; subst h; simp [h1]
    · rename_i h1; simp [h1, h]
  · split at h
    · simp at h
    · rename_i h1; simp [h1, h]

theorem kCount_map_other (cs : List (Pt × Nat)) (p x : Pt) (hx : x ≠ p) :
    kCount (cs.map (fun e => if e.1 == p then (e.1, e.2 + 1) else e)) x = kCount cs x := by
  induction cs with
  | nil => rfl
  | cons e t ih =>
    simp only [List.map_cons, kCount_cons]
    rw [ih]
    by_cases he : (e.1 == p) = true
    · have hep : e.1 = p := by simpa using he
      have h2 : (e.1 == x) = false := by rw [hep]; simpa using (Ne.symm hx)
      simp only [he, if_true]
      simp [h2]
    · simp only [he, Bool.false_eq_true, if_false]

theorem kCount_map_self (cs : List (Pt × Nat)) (p : Pt) (h : cs.any (·.1 == p) = true) :
    kCount (cs.map (fun e => if e.1 == p then (e.1, e.2 + 1) else e)) p = kCount cs p + 1 := by
  induction cs with
  | nil => simp at h
  | cons e t ih =>
    simp only [List.map_cons, kCount_cons]
    by_cases he : (e.1 == p) = true
    · simp only [he, if_true]
    · have h2 : t.any (·.1 == p) = true := by
        simp only [List.any_cons, Bool.or_eq_true] at h
        rcases h with h | h
        · exact absurd h he
        · exact h
      simp only [he, Bool.false_eq_true, if_false]
      exact ih h2

theorem kCount_append_new (cs : List (Pt × Nat)) (p x : Pt) (h : ∀ e ∈ cs, e.1 ≠ p) :
    kCount (cs ++ [(p, 1)]) x = if x = p then kCount cs p + 1 else kCount cs x := by
  induction cs with
  | nil =>
    simp only [List.nil_append, kCount_cons, kCount_nil]
    by_cases hx : x = p
    · simp [hx]
    · have : (p == x) = false := by simpa using (Ne.symm hx)
      simp [hx, this]
  | cons e t ih =>
    have he : e.1 ≠ p := h e (by simp)
    have ih' := ih (fun e' he' => h e' (by simp [he']))
    simp only [List.cons_append, kCount_cons]
    by_cases hex : e.1 = x
    · have hxp : x ≠ p := by rw [← hex]; exact he
      simp [hex, hxp]
    · have h1 : (e.1 == x) = false := by simpa using hex
      have h2 : (e.1 == p) = false := by simpa using he
      simp only [h1, h2, Bool.false_eq_true, if_false]
      exact ih'

/-- bumping the counter of `p` adds one to `p`'s count and touches no other -/
theorem kCount_kBump (cs : List (Pt × Nat)) (p x : Pt) :
    kCount (kBump cs p) x = if x = p then kCount cs p + 1 else kCount cs x := by
  unfold kBump
  split
  · rename_i h
    by_cases hx : x = p
    · subst hx; simp only [if_true]; exact kCount_map_self cs x h
    · simp only [hx, if_false]; exact kCount_map_other cs p x hx
  · rename_i h
    apply kCount_append_new
    intro e he hep
    apply h
    rw [List.any_eq_true]
    exact ⟨e, he, by simpa using hep⟩

/-! ## the abstract loop -/
structure AState where
  frontier : List Pt
  counts : List (Pt × Nat)

/-- one successor of the popped node: bump its counter, push it when all predecessors are out -/
def aStep (total : Pt → Nat) (s : AState) (x : Pt) : AState :=
  let cs := kBump s.counts x
  if kCount cs x == total x then { counts := cs, frontier := insertPt x s.frontier }
  else { s with counts := cs }

def aLoop (valid : Pt → Bool) (succ : Pt → List Pt) (total : Pt → Nat) : Nat → AState → List Pt
  | 0, _ => []
  | fuel + 1, s =>
    match s.frontier with
    | [] => []
    | p :: rest =>
      if valid p then p :: aLoop valid succ total fuel ((succ p).foldl (aStep total) ⟨rest, s.counts⟩)
      else []

/-- processing the (duplicate-free) successor list of the popped node -/
theorem fold_aStep (total : Pt → Nat) (ss : List Pt) (hn : ss.Nodup) (s : AState)
    (hs : s.frontier.Pairwise ptLt) (hnew : ∀ x ∈ ss, x ∉ s.frontier) :
    (ss.foldl (aStep total) s).frontier.Pairwise ptLt ∧
    (∀ x, x ∈ (ss.foldl (aStep total) s).frontier ↔
      x ∈ s.frontier ∨ (x ∈ ss ∧ kCount s.counts x + 1 = total x)) ∧
    (∀ x, kCount (ss.foldl (aStep total) s).counts x =
      kCount s.counts x + (if x ∈ ss then 1 else 0)) := by
  induction ss generalizing s with
  | nil => simpa using hs
  | cons a t ih =>
    rw [List.nodup_cons] at hn
    simp only [List.foldl_cons]
    have ha : a ∉ s.frontier := hnew a (by simp)
    -- the state after the first successor
    have hc : ∀ x, kCount (aStep total s a).counts x =
        if x = a then kCount s.counts a + 1 else kCount s.counts x := by
      intro x
      unfold aStep; dsimp only
      split <;> exact kCount_kBump s.counts a x
    have hf : ∀ x, x ∈ (aStep total s a).frontier ↔
        x ∈ s.frontier ∨ (x = a ∧ kCount s.counts a + 1 = total a) := by
      intro x
      unfold aStep; dsimp only
      have hk := kCount_kBump s.counts a a
      simp only [if_true] at hk
      split
      · rename_i h
        have h' : kCount s.counts a + 1 = total a := by rw [← hk]; simpa using h
        dsimp only
        rw [mem_insertPt_iff]
        constructor
        · rintro (h1 | h1)
          · exact Or.inr ⟨h1, h'⟩
          · exact Or.inl h1
        · rintro (h1 | ⟨h1, _⟩)
          · exact Or.inr h1
          · exact Or.inl h1
      · rename_i h
        have h' : ¬ (kCount s.counts a + 1 = total a) := by rw [← hk]; simpa using h
        dsimp only
        constructor
        · intro h1; exact Or.inl h1
        · rintro (h1 | ⟨_, h2⟩)
          · exact h1
          · exact absurd h2 h'
    have hsrt : (aStep total s a).frontier.Pairwise ptLt := by
      unfold aStep; dsimp only
      split
      · exact insertPt_sortedLt a _ hs ha
      · exact hs
    have hnew' : ∀ x ∈ t, x ∉ (aStep total s a).frontier := by
      intro x hx hm
      rcases (hf x).1 hm with h1 | ⟨h1, _⟩
      · exact hnew x (by simp [hx]) h1
      · subst h1; exact hn.1 hx
    obtain ⟨r1, r2, r3⟩ := ih hn.2 (aStep total s a) hsrt hnew'
    refine ⟨r1, ?_, ?_⟩
    · intro x
      rw [r2 x, hf x]
      constructor
      · rintro ((h1 | ⟨h1, h2⟩) | ⟨h1, h2⟩)
        · exact Or.inl h1
        · subst h1; exact Or.inr ⟨by simp, h2⟩
        · have hxa : x ≠ a := by intro e; exact hn.1 (e ▸ h1)
          rw [hc x] at h2
          simp only [hxa, if_false] at h2
          exact Or.inr ⟨by simp [h1], h2⟩
      · rintro (h1 | ⟨h1, h2⟩)
        · exact Or.inl (Or.inl h1)
        · rcases List.mem_cons.mp h1 with h3 | h3
          · subst h3; exact Or.inl (Or.inr ⟨rfl, h2⟩)
          · have hxa : x ≠ a := by intro e; exact hn.1 (e ▸ h3)
            refine Or.inr ⟨h3, ?_⟩
            rw [hc x]; simp only [hxa, if_false]; exact h2
    · intro x
      rw [r3 x, hc x]
      by_cases hxa : x = a
      · subst hxa
        have : x ∉ t := hn.1
        simp [this]
      · simp only [hxa, if_false, List.mem_cons, false_or]

/-- the loop invariant: `done` are the nodes output so far, `todo` the rest -/
structure KahnInv (succ : Pt → List Pt) (done todo : List Pt) (s : AState) : Prop where
  sorted : s.frontier.Pairwise ptLt
  mem : ∀ x, x ∈ s.frontier ↔ x ∈ todo ∧ ∀ r ∈ todo, x ∉ succ r
  cnt : ∀ x, kCount s.counts x = done.countP (fun r => (succ r).contains x)

/-- **the counting Kahn loop with a sorted frontier outputs the nodes in increasing order** -/
theorem aLoop_correct (valid : Pt → Bool) (succ : Pt → List Pt) (total : Pt → Nat) (pts : List Pt)
    (hsort : pts.Pairwise ptLt) (hvalid : ∀ p ∈ pts, valid p = true)
    (hnd : ∀ p ∈ pts, (succ p).Nodup)
    (hsucc : ∀ p ∈ pts, ∀ x ∈ succ p, x ∈ pts ∧ ptLt p x)
    (htot : ∀ x ∈ pts, total x = pts.countP (fun r => (succ r).contains x)) :
    ∀ (todo done : List Pt) (s : AState) (fuel : Nat), pts = done ++ todo → todo.length ≤ fuel →
      KahnInv succ done todo s → aLoop valid succ total fuel s = todo := by
  intro todo
  induction todo with
  | nil =>
    intro done s fuel _ _ hinv
    have hf : s.frontier = [] := by
      rw [List.eq_nil_iff_forall_not_mem]
      intro x hx
      have := ((hinv.mem x).1 hx).1
      simp at this
    cases fuel with
    | zero => rfl
    | succ fuel => simp [aLoop, hf]
  | cons p todo ih =>
    intro done s fuel hpts hfuel hinv
    cases fuel with
    | zero => simp at hfuel
    | succ fuel =>
      have hfuel' : todo.length ≤ fuel := by simpa using hfuel
      rw [hpts] at hsort
      have hsort' := List.pairwise_append.mp hsort
      have htodo := List.pairwise_cons.mp hsort'.2.1
      have hp_pts : p ∈ pts := by rw [hpts]; simp
      have hmem_todo : ∀ x ∈ p :: todo, x ∈ pts := by
        intro x hx; rw [hpts]; exact List.mem_append.mpr (Or.inr hx)
      -- p is in the frontier
      have hp_fr : p ∈ s.frontier := by
        rw [hinv.mem]
        refine ⟨by simp, ?_⟩
        intro r hr hpr
        have hlt := (hsucc r (hmem_todo r hr) p hpr).2
        rcases List.mem_cons.mp hr with rfl | hr
        · exact ptLt_irrefl _ hlt
        · exact ptLt_asymm hlt (htodo.1 r hr)
      -- and it is the head
      obtain ⟨h, rest, hfr⟩ : ∃ h rest, s.frontier = h :: rest := by
        cases hs : s.frontier with
        | nil => rw [hs] at hp_fr; simp at hp_fr
        | cons h rest => exact ⟨h, rest, rfl⟩
      have hsfr := hinv.sorted
      rw [hfr] at hsfr hp_fr
      have hsfr' := List.pairwise_cons.mp hsfr
      have hhp : h = p := by
        have hh : h ∈ p :: todo := ((hinv.mem h).1 (by rw [hfr]; simp)).1
        rcases List.mem_cons.mp hh with e | hh
        · exact e
        · rcases List.mem_cons.mp hp_fr with e | hp'
          · exact e.symm
          · exact absurd (hsfr'.1 p hp') (ptLt_asymm (htodo.1 h hh))
      subst hhp
      have hstep : aLoop valid succ total (fuel + 1) s =
          h :: aLoop valid succ total fuel ((succ h).foldl (aStep total) ⟨rest, s.counts⟩) := by
        simp [aLoop, hfr, hvalid h hp_pts]
      rw [hstep]
      congr 1
      -- the state after processing the successors
      have hnew : ∀ x ∈ succ h, x ∉ (AState.mk rest s.counts).frontier := by
        intro x hx hxr
        have : x ∈ s.frontier := by rw [hfr]; exact List.mem_cons_of_mem _ hxr
        exact ((hinv.mem x).1 this).2 h (by simp) hx
      obtain ⟨f1, f2, f3⟩ := fold_aStep total (succ h) (hnd h hp_pts) ⟨rest, s.counts⟩ hsfr'.2 hnew
      apply ih (done ++ [h]) _ fuel (by rw [hpts]; simp) hfuel'
      -- how many predecessors of x are in `pts`
      have hcount : ∀ x, pts.countP (fun r => (succ r).contains x) =
          done.countP (fun r => (succ r).contains x) + (if x ∈ succ h then 1 else 0) +
            todo.countP (fun r => (succ r).contains x) := by
        intro x
        rw [hpts, List.countP_append, List.countP_cons]
        by_cases hx : x ∈ succ h
        · simp [hx]; omega
        · simp [hx]
      -- a successor of h lies in the remaining part
      have hsucc_todo : ∀ x ∈ succ h, x ∈ todo := by
        intro x hx
        obtain ⟨hxp, hlt⟩ := hsucc h hp_pts x hx
        rw [hpts] at hxp
        rcases List.mem_append.mp hxp with hxd | hxt
        · exact absurd (hsort'.2.2 x hxd h (by simp)) (ptLt_asymm hlt)
        · rcases List.mem_cons.mp hxt with e | hxt
          · subst e; exact absurd hlt (ptLt_irrefl _)
          · exact hxt
      refine ⟨f1, ?_, ?_⟩
      · intro x
        rw [f2 x]
        dsimp only
        constructor
        · rintro (hx | ⟨hx, hc⟩)
          · have hxs : x ∈ s.frontier := by rw [hfr]; exact List.mem_cons_of_mem _ hx
            obtain ⟨m1, m2⟩ := (hinv.mem x).1 hxs
            have hne : x ≠ h := (ptLt_ne (hsfr'.1 x hx)).symm
            refine ⟨?_, fun r hr => m2 r (List.mem_cons_of_mem _ hr)⟩
            rcases List.mem_cons.mp m1 with e | m1
            · exact absurd e hne
            · exact m1
          · have hxt := hsucc_todo x hx
            refine ⟨hxt, ?_⟩
            have h1 := htot x (hmem_todo x (List.mem_cons_of_mem _ hxt))
            rw [hcount x, ← hinv.cnt x] at h1
            simp only [hx, if_true] at h1
            have h0 : todo.countP (fun r => (succ r).contains x) = 0 := by omega
            rw [List.countP_eq_zero] at h0
            intro r hr hxr
            exact h0 r hr (by simpa using hxr)
        · rintro ⟨hxt, hno⟩
          by_cases hx : x ∈ succ h
          · right
            refine ⟨hx, ?_⟩
            have h1 := htot x (hmem_todo x (List.mem_cons_of_mem _ hxt))
            rw [hcount x, ← hinv.cnt x] at h1
            simp only [hx, if_true] at h1
            have h0 : todo.countP (fun r => (succ r).contains x) = 0 := by
              rw [List.countP_eq_zero]
              intro r hr hxr
              exact hno r hr (by simpa using hxr)
            omega
          · left
            have hxs : x ∈ s.frontier := by
              rw [hinv.mem]
              refine ⟨List.mem_cons_of_mem _ hxt, ?_⟩
              intro r hr
              rcases List.mem_cons.mp hr with rfl | hr
              · exact hx
              · exact hno r hr
            rw [hfr] at hxs
            rcases List.mem_cons.mp hxs with e | hxs
            · subst e; exact absurd (htodo.1 x hxt) (ptLt_irrefl _)
            · exact hxs
      · intro x
        rw [f3 x]
        dsimp only
        rw [hinv.cnt x, List.countP_append]
        by_cases hx : x ∈ succ h
        · simp [hx]
        · simp [hx]

/-- started from the sorted list of the nodes without predecessor, with empty counters -/
theorem aLoop_from_front (valid : Pt → Bool) (succ : Pt → List Pt) (total : Pt → Nat)
    (pts front : List Pt) (fuel : Nat)
    (hsort : pts.Pairwise ptLt) (hvalid : ∀ p ∈ pts, valid p = true)
    (hnd : ∀ p ∈ pts, (succ p).Nodup)
    (hsucc : ∀ p ∈ pts, ∀ x ∈ succ p, x ∈ pts ∧ ptLt p x)
    (htot : ∀ x ∈ pts, total x = pts.countP (fun r => (succ r).contains x))
    (hfn : front.Nodup) (hfm : ∀ x, x ∈ front ↔ x ∈ pts ∧ total x = 0)
    (hfuel : pts.length ≤ fuel) :
    aLoop valid succ total fuel ⟨front.foldr insertPt [], []⟩ = pts := by
  obtain ⟨s1, s2⟩ := foldr_insertPt front hfn
  apply aLoop_correct valid succ total pts hsort hvalid hnd hsucc htot pts [] _ fuel (by simp) hfuel
  refine ⟨s1, ?_, ?_⟩
  · intro x
    dsimp only
    rw [s2, hfm]
    constructor
    · rintro ⟨h1, h2⟩
      refine ⟨h1, ?_⟩
      rw [htot x h1, List.countP_eq_zero] at h2
      intro r hr hxr
      exact h2 r hr (by simpa using hxr)
    · rintro ⟨h1, h2⟩
      refine ⟨h1, ?_⟩
      rw [htot x h1, List.countP_eq_zero]
      intro r hr hxr
      exact h2 r hr (by simpa using hxr)
  · intro x; simp [kCount_nil]

end BqVerif.Circ
