import Mathlib.Algebra.Group.Defs
/-! C10 — the recombination identity behind `QSDPass.create_multiplexed_circ` and
`BlockZXZPass.demultiplex` (Shende–Bullock–Markov, Thm 12): with an eigendecomposition
`u₁·u₂† = v·d²·v†` and `w = d·v†·u₂` the multiplexor `u₁ ⊕ u₂` is `(I⊗v)·(d ⊕ d†)·(I⊗w)`, i.e.
block-wise `u₁ = v·d·w` and `u₂ = v·d†·w`. Stated in an arbitrary monoid (matrices under
multiplication), daggers as separate elements with the unitarity facts as hypotheses. That
`schur`/`eig` return such `v, d` is a LAPACK fact validated by the harness (distance ≤ 1e-6). -/
namespace BqVerif.Demultiplex

variable {M : Type} [Monoid M]

theorem demultiplex (u1 u2 u2d v vd d dd : M)
    (heig : u1 * u2d = v * (d * d) * vd)      -- schur(u1 @ u2.dagger) = (d², v)
    (hu2 : u2d * u2 = 1) (hd : dd * d = 1) (hv : v * vd = 1) :
    let w := d * vd * u2                       -- left_mat = D @ V† @ u2
    u1 = v * d * w ∧ u2 = v * dd * w := by
  intro w
  constructor
  · calc u1 = u1 * (u2d * u2) := by rw [hu2, mul_one]
      _ = (u1 * u2d) * u2 := by rw [mul_assoc]
      _ = (v * (d * d) * vd) * u2 := by rw [heig]
      _ = v * d * (d * vd * u2) := by simp only [mul_assoc]
  · calc u2 = (v * vd) * u2 := by rw [hv, one_mul]
      _ = v * ((dd * d) * (vd * u2)) := by rw [hd, one_mul, mul_assoc]
      _ = v * dd * (d * vd * u2) := by simp only [mul_assoc]

end BqVerif.Demultiplex
